import MirVerif.Model.TextIOParse
/-!
# C10 — the semantic half of `MIR_scan_string` (mir.c:6403-6800): what each statement does to the
context through the API (`MIR_new_module/_func/_proto/_data/…`, `MIR_new_insn_arr`,
`create_label_desc`, `add_item`, `create_func_reg`, `MIR_finish_func`)

Scope.  Modelled exactly: every `scan_error`; name resolution (label / register / item) ; label numbering (`curr_label_num`); `add_item` with its dropping of
repeated `export/import/forward`; register declaration (reserved names, repetition, globals sharing a
hard register); the `ret` that `MIR_finish_func` appends.  Not modelled (these only *reject*, and they
are the same functions an API user's calls go through): operand-mode/type validation of
`MIR_finish_func`, prototype conformance of calls in `MIR_new_insn_arr`, validity of hard register
names.  Constructs on which the C code reads garbage or dereferences NULL are `Err.unmodelled`.
-/
namespace TextIO

inductive IKind
  | func | proto | import | export | forward | bss | data | refData | lrefData | exprData
  deriving DecidableEq, Repr, Inhabited

/-- entry of `module_item_tab` for the current module: name, item type, `export_p` -/
structure TabEnt where
  name : Str
  kind : IKind
  exported : Bool
  deriving DecidableEq, Repr, Inhabited

def tabFind : List TabEnt → Str → Option TabEnt
  | [], _ => none
  | e :: es, n => if e.name = n then some e else tabFind es n

/-- replace the entry of that name -/
def tabSet : List TabEnt → TabEnt → List TabEnt
  | [], _ => []
  | e :: es, x => if e.name = x.name then x :: es else e :: tabSet es x

/-- `add_item` (mir.c:997): new table and whether the item is appended to the module -/
def addItem (tab : List TabEnt) (name : Str) (kind : IKind) : Except Err (List TabEnt × Bool) :=
  match tabFind tab name with
  | none => .ok (tab ++ [⟨name, kind, false⟩], true)
  | some t =>
    match t.kind with
    | .import =>
      if kind ≠ .import then .error (.api "existing module definition already defined as import")
      else .ok (tab, false)
    | .export | .forward =>
      if kind = .import then .error (.api "export/forward of import")
      else if kind ≠ .export ∧ kind ≠ .forward then
        .ok (tabSet tab ⟨name, kind, t.kind = .export⟩, true)
      else if t.kind = kind then .ok (tab, false)
      else if kind = .export ∧ t.kind = .forward then .ok (tabSet tab ⟨name, .export, false⟩, true)
      else .ok (tab, true)
    | .proto => .error (.api "item was already defined as proto")
    | _ =>
      if kind = .export then
        if t.exported then .ok (tab, false) else .ok (tabSet tab { t with exported := true }, true)
      else if kind = .forward then .ok (tab, true)
      else if kind = .import then .error (.api "import of local definition")
      else .error (.api "Repeated item declaration")

structure St where
  done : List Module := []
  cur : Option Module := none
  tab : List TabEnt := []
  func : Option Func := none
  /-- `label_desc_tab`: name, label number, `def_p` -/
  labels : List (Str × Nat × Bool) := []
  /-- `curr_label_num` -/
  nlab : Nat := 0
  /-- code of the last instruction statement.  Before fix fae404b2 the scanner classified the names of
  every later statement by it; now `headCode` is used and nothing reads this field across statements -/
  lastInsn : Nat := insnTable.length
  deriving Repr, Inhabited

def labelFind : List (Str × Nat × Bool) → Str → Option (Nat × Bool)
  | [], _ => none
  | (n, k, d) :: rest, name => if n = name then some (k, d) else labelFind rest name

def labelSetDef : List (Str × Nat × Bool) → Str → List (Str × Nat × Bool)
  | [], _ => []
  | (n, k, d) :: rest, name => if n = name then (n, k, true) :: rest else (n, k, d) :: labelSetDef rest name

/-- `create_label_desc` (mir.c:6191) -/
def createLabel (st : St) (name : Str) (isDef : Bool) : Except Err (St × Nat) :=
  match labelFind st.labels name with
  | some (k, d) =>
    if isDef then
      if d then .error (.syntax "redefinition of label in a module")
      else .ok ({ st with labels := labelSetDef st.labels name }, k)
    else .ok (st, k)
  | none => .ok ({ st with labels := st.labels ++ [(name, st.nlab + 1, isDef)], nlab := st.nlab + 1 }, st.nlab + 1)

def Func.regNames (f : Func) : List Str :=
  f.args.map (·.name) ++ f.locals.map (·.2) ++ f.globals.map (·.2.1)

def allDigits : List Char → Bool
  | [] => true
  | c :: cs => isDigit c && allDigits cs

/-- `_MIR_reserved_name_p` (mir.c:128) -/
def reservedName (n : Str) : Bool :=
  match n with
  | '.' :: 'l' :: 'c' :: _ => true
  | 'h' :: 'r' :: ds => allDigits ds
  | _ => false

/-- module-level item creation (`create_item` + `add_item` / anonymous append) -/
def newItem (st : St) (name : Option Str) (kind : IKind) (it : Item) : Except Err St :=
  match st.cur with
  | none => .error (.api "item outside module")
  | some m =>
    if st.func.isSome then .error (.unmodelled "module-level item inside an open function")
    else
      match name with
      | none => .ok { st with cur := some { m with items := m.items ++ [it] } }
      | some n =>
        match addItem st.tab n kind with
        | .error e => .error e
        | .ok (tab, app) =>
          .ok { st with tab := tab, cur := some (if app then { m with items := m.items ++ [it] } else m) }

/-- the C local `insn_code` while the operands of a statement are read: it is reset to
`MIR_INSN_BOUND` when the head word is classified and set by instruction heads only -/
def headCode : Head → Nat
  | .insn c => c
  | _ => insnTable.length

/-- is the next bare name of an instruction a label? (mir.c:6432-6438) -/
def labelPos (code idx : Nat) : Bool :=
  ((isBranchCode code || code == opPRBEQ || code == opPRBNE) && idx == 0)
  || (code == opLADDR && idx == 1) || (code == opSWITCH && idx > 0)

/-- a bare name operand (mir.c:6420-6448).  The text has one lexical class for labels, registers, items,
types, instruction names and keywords; what a bare name in operand position `idx` of statement `h` denotes is
decided in this order:
1. `export` / `import` / `forward`: the name of the item being declared;
2. `lref`: a label;
3. a label position of the instruction (`labelPos`: operand 0 of a branch, `prbeq`, `prbne`; operand 1 of
   `laddr`; every operand but the first of `switch`): a label, even if a register or an item has that spelling;
4. a register of the open function (not in `expr` / `ref` statements), even if an item has that spelling;
5. an item of the open module;
6. otherwise `undeclared name`. -/
def elabName (st : St) (h : Head) (idx : Nat) (n : Str) : Except Err (St × Option Op) :=
  match h with
  | .export => (newItem st (some n) .export (.export n)).map fun s => (s, none)
  | .import => (newItem st (some n) .import (.import n)).map fun s => (s, none)
  | .forward => (newItem st (some n) .forward (.forward n)).map fun s => (s, none)
  | .lref => (createLabel st n false).map fun r => (r.1, some (.label r.2))
  | _ =>
    if h ≠ .module ∧ h ≠ .endmodule ∧ h ≠ .endfunc ∧ labelPos (headCode h) idx then
      (createLabel st n false).map fun r => (r.1, some (.label r.2))
    else
      let isReg : Bool := h ≠ .expr && h ≠ .ref &&
        (match st.func with
         | some f => f.regNames.contains n
         | none => false)
      if isReg then .ok (st, some (.reg n))
      else if st.cur.isSome && (tabFind st.tab n).isSome then .ok (st, some (.ref n))
      else .error (.syntax "undeclared name")

def checkReg (st : St) (n : Option Str) : Except Err Unit :=
  match n with
  | none => .ok ()
  | some r =>
    match st.func with
    | none => .error (.unmodelled "memory operand with a register outside a function: NULL dereference")
    | some f => if f.regNames.contains r then .ok () else .error (.api "undeclared func reg")

/-- operands of a non-declaration statement, left to right (item/label side effects in order) -/
def elabOps (st : St) (h : Head) : List ROp → List Op → Except Err (St × List Op)
  | [], acc => .ok (st, acc)
  | o :: os, acc =>
    match o with
    | .name n =>
      (match elabName st h acc.length n with
       | .error e => .error e
       | .ok (st', some op) => elabOps st' h os (acc ++ [op])
       | .ok (st', none) => elabOps st' h os acc)
    | .int v => elabOps st h os (acc ++ [.int v])
    | .flt b => elabOps st h os (acc ++ [.flt b])
    | .dbl b => elabOps st h os (acc ++ [.dbl b])
    | .ldbl b => elabOps st h os (acc ++ [.ldbl b])
    | .str s => elabOps st h os (acc ++ [.str s])
    | .mem m =>
      (match checkReg st m.base with
       | .error e => .error e
       | .ok _ =>
         match checkReg st m.index with
         | .error e => .error e
         | .ok _ => elabOps st h os (acc ++ [.mem m]))
    | _ => .error .internal   -- declaration operands do not occur outside func/proto/local/global

/-- `read_func_proto` (mir.c:6225): leading bare types are results, the rest are arguments -/
def readProtoArgs : List ROp → Except Err (List Var)
  | [] => .ok []
  | .var t n _ :: os => (readProtoArgs os).map (⟨t, n, 0⟩ :: ·)
  | .blk t sz n :: os => (readProtoArgs os).map (⟨t, n, sz⟩ :: ·)
  | .ty _ :: _ => .error (.syntax "all func/prototype args should have form type:name or (r)blk:size(name)")
  | _ => .error (.unmodelled "non-type operand in func/proto: read through the wrong union member")

def readProto : List ROp → Except Err (List Ty × List Var)
  | .ty t :: os => (readProto os).map fun r => (t :: r.1, r.2)
  | os => (readProtoArgs os).map fun a => ([], a)

/-- `create_func_reg` for the arguments: reserved and repeated names -/
def checkArgNames : List Var → List Str → Except Err Unit
  | [], _ => .ok ()
  | v :: vs, seen =>
    if reservedName v.name then .error (.api "redefining a reserved name")
    else if seen.contains v.name then .error (.api "Repeated reg declaration")
    else checkArgNames vs (seen ++ [v.name])

/-- `MIR_new_func_reg` / `MIR_new_global_func_reg` -/
def newReg (f : Func) (t : Ty) (n : Str) (hard : Option Str) : Except Err Func :=
  if reservedName n then .error (.api "redefining a reserved name")
  else if f.regNames.contains n then .error (.api "Repeated reg declaration")
  else
    match hard with
    | none => .ok { f with locals := f.locals ++ [(t, n)] }
    | some hr =>
      match f.globals.find? (fun g => g.2.2 = hr) with
      | some g =>
        if g.1 ≠ t then .error (.api "regs tied to one hard reg have different types")
        else .ok f     -- "Use always one reg for global vars assigned to hard regs": nothing is declared
      | none => .ok { f with globals := f.globals ++ [(t, n, hr)] }

def declRegs (f : Func) : List ROp → Except Err Func
  | [] => .ok f
  | .var t n hard :: os =>
    (match newReg f t n hard with
     | .error e => .error e
     | .ok f' => declRegs f' os)
  | _ => .error (.syntax "wrong local/global var")

/-- `MIR_append_insn (ctx, func, label)` for the labels of an instruction statement -/
def defineLabels (st : St) : List Str → Except Err St
  | [] => .ok st
  | l :: ls =>
    match createLabel st l true with
    | .error e => .error e
    | .ok (st', k) =>
      defineLabels (match st'.func with
                    | some f => { st' with func := some { f with body := f.body ++ [.label k] } }
                    | none => st') ls

def isRetLike : FItem → Bool
  | .insn c _ => c == opRET || c == opJRET
  | .label _ => false

def lastIsJmp (body : List FItem) : Bool :=
  match body.getLast? with
  | some (.insn c _) => c == opJMP
  | _ => false

def zeroOfTy : Ty → Op
  | .f => .flt 0
  | .d => .dbl 0
  | .ld => .ldbl 0
  | _ => .int 0

/-- the structural effect of `MIR_finish_func` (mir.c:1743-1761): "add absent ret" -/
def finishFunc (f : Func) : Func :=
  if f.body.any isRetLike || lastIsJmp f.body then f
  else { f with body := f.body ++ [.insn opRET (f.res.map zeroOfTy)] }

def optLabel (labels : List Str) : Option Str := labels.head?

/-- data element from an operand (mir.c:6735-6779); `none`: operand mode differs from the type's -/
def dataEl (t : Ty) (o : Op) : Except Err Nat :=
  match t, o with
  | .i8, .int v | .u8, .int v => .ok (v.toNat % 2 ^ 8)
  | .i16, .int v | .u16, .int v => .ok (v.toNat % 2 ^ 16)
  | .i32, .int v | .u32, .int v => .ok (v.toNat % 2 ^ 32)
  | .i64, .int v | .u64, .int v => .ok v.toNat
  | .f, .flt b => .ok b.toNat
  | .d, .dbl b => .ok b.toNat
  | .ld, .ldbl b => .ok b.toNat
  | .f, _ | .d, _ | .ld, _ => .error (.syntax "data operand is not of data type")
  | .p, .int v => .ok v.toNat
  | _, .int _ => .error (.syntax "wrong data clause")          -- the block types
  | _, _ => .error (.syntax "data operand is not of data type")

def dataEls (t : Ty) : List Op → Except Err (List Nat)
  | [] => .ok []
  | o :: os =>
    match dataEl t o with
    | .error e => .error e
    | .ok v => (dataEls t os).map (v :: ·)

def findFunc (items : List Item) (n : Str) : Option Func :=
  match items with
  | [] => none
  | .func f :: rest => if f.name = n then some f else findFunc rest n
  | _ :: rest => findFunc rest n

/-- checks of `MIR_new_insn_arr` (mir.c:2218-2231) that concern the operand count -/
def checkNops (code nops : Nat) : Except Err Unit :=
  if code = opLABEL ∨ code = opINVALIDINSN then
    .error (.unmodelled "label/invalid-insn as an instruction name: operands are never initialised")
  else if !isVarNops code && nops ≠ insnNops code then .error (.api "wrong number of operands for insn")
  else if code = opSWITCH && nops < 2 then .error (.api "number of MIR_SWITCH operands is less 2")
  else if isCallCode code && nops < 2 then .error (.api "wrong number of call/unspec operands")
  else .ok ()

/-- one statement of the text -/
def elabStmt (st : St) (s : Stmt) : Except Err St :=
  match s.head with
  | .insn c =>
    match defineLabels { st with lastInsn := c } s.labels with
    | .error e => .error e
    | .ok st =>
      match elabOps st s.head s.ops [] with
      | .error e => .error e
      | .ok (st, ops) =>
        match checkNops c ops.length with
        | .error e => .error e
        | .ok _ =>
          .ok (match st.func with
               | some f => { st with func := some { f with body := f.body ++ [.insn c ops] } }
               | none => st)
  | .proto =>
    if st.cur.isNone then .error (.syntax "prototype outside module") else
    match readProto s.ops with
    | .error e => .error e
    | .ok (res, args) =>
      if res.any Ty.isBlk then .error (.api "wrong result type in proto") else
      let name := s.labels.headD []
      newItem st (some name) .proto (.proto name res args s.dots)
  | .func =>
    if st.cur.isNone then .error (.syntax "func outside module")
    else if st.func.isSome then .error (.syntax "nested func") else
    match readProto s.ops with
    | .error e => .error e
    | .ok (res, args) =>
      if args.isEmpty && s.dots then .error (.api "Variable arg function w/o any mandatory argument")
      else if res.any Ty.isBlk then .error (.api "wrong result type in func") else
      let name := s.labels.headD []
      match addItem st.tab name .func with
      | .error e => .error e
      | .ok (tab, _) =>
        match checkArgNames args [] with
        | .error e => .error e
        | .ok _ => .ok { st with tab := tab, func := some ⟨name, res, args, s.dots, [], [], []⟩ }
  | .local | .global =>
    match st.func with
    | none => .error (.syntax "local/global outside func")
    | some f =>
      match declRegs f s.ops with
      | .error e => .error e
      | .ok f' => .ok { st with func := some f' }
  | .endfunc =>
    -- labels in front of `endfunc` are defined and appended like those in front of an instruction
    match defineLabels st s.labels with
    | .error e => .error e
    | .ok st =>
      match elabOps st .endfunc s.ops [] with
      | .error e => .error e
      | .ok (st, ops) =>
        match st.func with
        | none => .error (.syntax "standalone endfunc")
        | some f =>
          if ops ≠ [] then .error (.syntax "endfunc should have no params")
          else
            match st.cur with
            | none => .error .internal
            | some m =>
              .ok { st with func := none, cur := some { m with items := m.items ++ [.func (finishFunc f)] } }
  | h =>
    match elabOps st h s.ops [] with
    | .error e => .error e
    | .ok (st, ops) =>
      let name := optLabel s.labels
      match h with
      | .module =>
        if st.cur.isSome then .error (.syntax "nested module")
        else if ops ≠ [] then .error (.syntax "module should have no params")
        else .ok { st with cur := some ⟨s.labels.headD [], []⟩, tab := [], labels := [] }
      | .endmodule =>
        (match st.cur with
         | none => .error (.syntax "standalone endmodule")
         | some m =>
           if ops ≠ [] then .error (.syntax "endmodule should have no params")
           else if st.func.isSome then .error (.unmodelled "endmodule inside an open function")
           else .ok { st with done := st.done ++ [m], cur := none, tab := [] })
      | .export | .import | .forward => .ok st      -- items were created operand by operand
      | .bss =>
        (match ops with
         | [.int v] =>
           if v.toNat ≥ 2 ^ 63 then .error (.syntax "wrong bss operand type or value")
           else newItem st name .bss (.bss name v)
         | [_] => .error (.syntax "wrong bss operand type or value")
         | _ => .error (.syntax "bss should have one operand"))
      | .ref =>
        (match ops with
         | [.ref r, .int d] => newItem st name .refData (.ref name r d)
         | [.ref _, _] => .error (.syntax "wrong ref disp operand")
         | [_, _] => .error (.syntax "wrong ref operand")
         | _ => .error (.syntax "ref should have two operands"))
      | .lref =>
        (match ops with
         | [.label l] => newItem st name .lrefData (.lref name l none 0)
         | [.label l, .label l2] => newItem st name .lrefData (.lref name l (some l2) 0)
         | [.label l, .int d] => newItem st name .lrefData (.lref name l none d)
         | [.label l, .label l2, .int d] => newItem st name .lrefData (.lref name l (some l2) d)
         | [] => .error (.syntax "lref should have at least one but at most three operands")
         | [_] | [_, _] | [_, _, _] => .error (.syntax "wrong lref operand")
         | _ => .error (.syntax "lref should have at least one but at most three operands"))
      | .expr =>
        (match ops with
         | [.ref r] =>
           (match tabFind st.tab r with
            | some e =>
              if e.kind ≠ .func then .error (.syntax "wrong expr operand")
              else
                match findFunc ((st.cur.map (·.items)).getD []) r with
                | some f =>
                  if f.vararg || !f.args.isEmpty || f.res.length ≠ 1 then
                    .error (.api "can not be an expr which should be non-argument, one result function")
                  else newItem st name .exprData (.expr name r)
                | none => .error (.unmodelled "expr of a function that is still open")
            | none => .error .internal)
         | [_] => .error (.syntax "wrong expr operand")
         | _ => .error (.syntax "expr should have one operand"))
      | .string =>
        (match ops with
         | [.str str] => newItem st name .data (.data name .u8 (str.map (·.toNat)))
         | [_] => .error (.syntax "wrong string data operand type")
         | _ => .error (.syntax "string should have one operand"))
      | .data t =>
        (match dataEls t ops with
         | .error e => .error e
         | .ok els =>
           if t.isBlk then .error (.api "wrong type in data")
           else newItem st name .data (.data name t els))
      | _ => .error .internal

def elabStmts (st : St) : List Stmt → Except Err St
  | [] => .ok st
  | s :: ss =>
    match elabStmt st s with
    | .error e => .error e
    | .ok st' => elabStmts st' ss

/-- the checks after the loop (mir.c:6792-6797) -/
def finishScan (st : St) : Except Err (List Module) :=
  if st.func.isSome then .error (.syntax "absent endfunc")
  else if st.cur.isSome then .error (.syntax "absent endmodule")
  else .ok st.done

/-! ## `module->last_temp_item_num`

The label loop calls `process_reserved_name (name, ".lc", &module->last_temp_item_num)` for every
label of every statement read while a module is open (mir.c:6380-6383; the `module` line itself is read
while `module == NULL`).  The counter is not written by `MIR_output`, but the loader names the data
items it creates for string and floating immediates `.lc<counter+1>` (mir.c:3323), so it must end
up at least as large as every `.lcN` name of the text. -/

/-- number of a reserved temporary item name `.lc<digits>` as `process_reserved_name` computes it
(`strtoul` in base 10 into a `uint32_t`; a name with anything but digits after the prefix is ignored) -/
def tempItemNum (n : Str) : Option Nat :=
  match n with
  | '.' :: 'l' :: 'c' :: ds =>
    if ds.all isDigit then some ((min (accDigits 10 ds 0) (2 ^ 64 - 1)) % 2 ^ 32) else none
  | _ => none

/-- `if (*max_num < num) *max_num = num;` -/
def bumpTemp (cur : Nat) (n : Str) : Nat :=
  match tempItemNum n with
  | some k => if cur < k then k else cur
  | none => cur

/-- the counters of the modules of a text, in order (`none`: no module open) -/
def lastTempsOf : List Stmt → Option Nat → List Nat → List Nat
  | [], _, done => done
  | s :: ss, cur, done =>
    match cur with
    | none => lastTempsOf ss (if s.head = .module then some 0 else none) done
    | some k =>
      let k' := s.labels.foldl bumpTemp k
      if s.head = .endmodule then lastTempsOf ss none (done ++ [k']) else lastTempsOf ss (some k') done

/-- `last_temp_item_num` of every module after `MIR_scan_string` (meaningful when `scanText` accepts) -/
def scanLastTemps (cs : List Char) : Except Err (List Nat) :=
  match lexAll cs with
  | .error e => .error e
  | .ok toks =>
    match parseStmts toks with
    | .error e => .error e
    | .ok stmts => .ok (lastTempsOf stmts none [])

/-- `MIR_scan_string` on a fresh context followed by reading back the module list -/
def scanText (cs : List Char) : Except Err (List Module) :=
  match lexAll cs with
  | .error e => .error e
  | .ok toks =>
    match parseStmts toks with
    | .error e => .error e
    | .ok stmts =>
      match elabStmts {} stmts with
      | .error e => .error e
      | .ok st => finishScan st

end TextIO
