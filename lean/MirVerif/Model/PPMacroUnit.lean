import MirVerif.Model.PPMacro
/-!
# C09 — preprocessing of a translation unit: directives, conditional inclusion (C11 6.10.1)

`runUnit ev lines` processes `#define/#undef/#if/#ifdef/#ifndef/#elif/#else/#endif` and text
lines.  `ev` is the evaluator used for controlling expressions (`c11Eval` for the specification,
`c2mEvalG fx` for the model of the code).  Text is macro-replaced in maximal runs of text lines.
-/
namespace MirVerif.PP

inductive Line where
  | define (name : String) (params : Option (List String)) (variadic : Bool) (repl : List Tok)
  | undef (name : String)
  | text (toks : List Tok)
  | ifE (toks : List Tok)
  | elifE (toks : List Tok)
  | ifdef (name : String)
  | ifndef (name : String)
  | elseD
  | endif
deriving Repr

structure Cond where
  active : Bool      -- the tokens of the current group are processed
  taken : Bool       -- some group of this if-section has been selected already
  parent : Bool      -- the enclosing group is processed
  seenElse : Bool
deriving Repr

structure PState where
  defs : Defs := []
  conds : List Cond := []
  run : List Tok := []          -- text tokens not yet macro-replaced
  out : List Tok := []          -- output (in order)
  err : Bool := false
deriving Repr

/-- `defined X` and `defined ( X )` are evaluated before macro replacement (6.10.1p1) -/
def definedTok (defs : Defs) (t x : Tok) : Tok :=
  { sp := if (lookup defs x.sp).isSome then "1" else "0", ws := t.ws }

def replaceDefined (defs : Defs) : List Tok → List Tok
  | [] => []
  | [t] => [t]
  | [t, a] =>
    if t.sp == "defined" && isIdent a.sp then [definedTok defs t a] else t :: replaceDefined defs [a]
  | [t, a, b] =>
    if t.sp == "defined" && isIdent a.sp then definedTok defs t a :: replaceDefined defs [b]
    else t :: replaceDefined defs [a, b]
  | t :: a :: b :: c :: rest2 =>
    if t.sp == "defined" then
      if isIdent a.sp then definedTok defs t a :: replaceDefined defs (b :: c :: rest2)
      else if a.sp == "(" && isIdent b.sp && c.sp == ")" then
        definedTok defs t b :: replaceDefined defs rest2
      else t :: replaceDefined defs (a :: b :: c :: rest2)
    else t :: replaceDefined defs (a :: b :: c :: rest2)
termination_by ts => ts.length

/-- tokens of a controlling expression after macro replacement → expression tokens; remaining
identifiers are `0` (6.10.1p4); string literals and unknown characters are errors -/
def toETok (t : Tok) : Option ETok :=
  if isIdent t.sp then some (.lit (.int .dec 0 .none))
  else if isPPNumber t.sp || (isStrOrChr t.sp && (t.sp.toList.contains '\'') && !(t.sp.toList.contains '"')) then
    (lexLit t.sp).map ETok.lit
  else if punctuators.contains t.sp then some (.op t.sp)
  else none

def toETokens : List Tok → Option (List ETok)
  | [] => some []
  | t :: ts =>
    match toETok t, toETokens ts with
    | some e, some es => some (e :: es)
    | _, _ => none

/-- value of the controlling expression of `#if` / `#elif`; `none` = error -/
def ifValue (ev : Expr → Res) (defs : Defs) (toks : List Tok) : Option Bool :=
  let (ts, e) := expandAll defs (replaceDefined defs toks)
  if e then none
  else
    match toETokens ts with
    | none => none
    | some ets =>
      match parseExpr ets with
      | none => none
      | some ex => (ev ex).truth?

def PState.active (s : PState) : Bool :=
  match s.conds with
  | [] => true
  | c :: _ => c.active

def PState.flush (s : PState) : PState :=
  if s.run.isEmpty then s
  else
    let (o, e) := expandAll s.defs s.run
    { s with run := [], out := s.out ++ o, err := s.err || e }

def step (ev : Expr → Res) (s0 : PState) (l : Line) : PState :=
  match l with
  | .text toks => if s0.active then { s0 with run := s0.run ++ toks } else s0
  | _ =>
    let s := s0.flush
    match l with
    | .text _ => s
    | .define name params variadic repl =>
      if !s.active then s
      else
        match mkRepl params variadic repl with
        | none => { s with err := true }
        | some items =>
          { s with defs := ⟨name, params, variadic, items⟩ :: s.defs.filter (·.name != name) }
    | .undef name => if s.active then { s with defs := s.defs.filter (·.name != name) } else s
    | .ifE toks =>
      if s.active then
        match ifValue ev s.defs toks with
        | some b => { s with conds := ⟨b, b, true, false⟩ :: s.conds }
        | none => { s with conds := ⟨false, true, true, false⟩ :: s.conds, err := true }
      else { s with conds := ⟨false, true, false, false⟩ :: s.conds }
    | .ifdef name =>
      if s.active then
        let b := (lookup s.defs name).isSome
        { s with conds := ⟨b, b, true, false⟩ :: s.conds }
      else { s with conds := ⟨false, true, false, false⟩ :: s.conds }
    | .ifndef name =>
      if s.active then
        let b := !(lookup s.defs name).isSome
        { s with conds := ⟨b, b, true, false⟩ :: s.conds }
      else { s with conds := ⟨false, true, false, false⟩ :: s.conds }
    | .elifE toks =>
      match s.conds with
      | [] => { s with err := true }
      | c :: cs =>
        if c.seenElse then { s with err := true }
        else if !c.parent || c.taken then { s with conds := { c with active := false } :: cs }
        else
          match ifValue ev s.defs toks with
          | some b => { s with conds := { c with active := b, taken := b } :: cs }
          | none => { s with conds := { c with active := false, taken := true } :: cs, err := true }
    | .elseD =>
      match s.conds with
      | [] => { s with err := true }
      | c :: cs =>
        if c.seenElse then { s with err := true }
        else { s with conds := { c with active := c.parent && !c.taken, taken := true, seenElse := true } :: cs }
    | .endif =>
      match s.conds with
      | [] => { s with err := true }
      | _ :: cs => { s with conds := cs }

def runUnit (ev : Expr → Res) (lines : List Line) : List Tok × Bool :=
  let s := (lines.foldl (step ev) {}).flush
  (s.out, s.err || !s.conds.isEmpty)

end MirVerif.PP
