import MirVerif.Model.SemTable
/-! Relations between opcodes that the generator's tables encode:
`MIR_reverse_branch_code`, `commutative_insn_code`, `get_combined_br_code` (mir.c / mir-gen.c). -/
namespace MirVerif

/-- the comparison whose result is the negation (integer comparisons only) -/
def AOp.neg : AOp → Option AOp
  | .eq => some .ne | .ne => some .eq | .lt => some .ge | .ge => some .lt | .le => some .gt
  | .gt => some .le | .ult => some .uge | .uge => some .ult | .ule => some .ugt | .ugt => some .ule
  | _ => none

/-- the operation computing the same result with exchanged operands -/
def AOp.swap : AOp → Option AOp
  | .add => some .add | .mul => some .mul | .and => some .and | .or => some .or | .xor => some .xor
  | .eq => some .eq | .ne => some .ne
  | .lt => some .gt | .gt => some .lt | .le => some .ge | .ge => some .le
  | .ult => some .ugt | .ugt => some .ult | .ule => some .uge | .uge => some .ule
  | _ => none

/-- GVN folding macro families of mir-gen.c; the `…0` forms fold only when the divisor is non-zero -/
inductive FoldKind
  | plain (k : Kind) | nz (k : Kind)
deriving DecidableEq, Repr

/-- the guard of the `GVN_…0` macros: the divisor, seen at the operation's width and signedness,
is neither zero nor (signed forms) minus one -/
def foldGuard (k : Kind) (y : W64) : Bool :=
  match k with
  | .IOP3 _ => y != 0 && y != BitVec.allOnes 64
  | .IOP3S _ => lo32 y != 0 && lo32 y != BitVec.allOnes 32
  | .UOP3 _ | .UIOP3 _ => y != 0
  | .UOP3S _ | .UIOP3S _ => lo32 y != 0
  | _ => true

/-- meaning of a fold row: `none` = the insn is not folded (left to run time);
`some none` = the folder evaluates a C expression whose value is undefined -/
def foldSem (f : FoldKind) (x y : W64) : Option (Option W64) :=
  match f with
  | .plain k => some (macroSem k x y)
  | .nz k => if foldGuard k y then some (macroSem k x y) else none

/-- the fold row the documentation calls for (the folder uses `GVN_UOP3` where the interpreter has
the identical `UIOP3`) -/
def canonFold (a : AOp) (short : Bool) : FoldKind :=
  match a with
  | .div | .mod | .udiv | .umod => .nz (canonKind a short)
  | .ursh => .plain (if short then .UOP3S .rsh else .UOP3 .rsh)
  | _ => .plain (canonKind a short)

end MirVerif
