/-!
# C10 — the libc half of floating-point literals: `printf ("%.*e")` and `strtof/strtod/strtold`

`MIR_output_op` prints floating immediates with `%.*e` and `*_MANT_DIG` fraction digits
(mir.c:2953-2955, 3073-3077); `scan_token` converts the lexeme back with `strtof/strtod/strtold`
(mir.c:6158-6166).  Both are glibc functions, *not* code of the repository.  They are modelled here
exactly (correctly rounded, round-half-even, as glibc does in the default rounding mode) so that the
Lean driver reproduces the writer's bytes; the round-trip theorems do **not** rely on any numeric
fact about these functions: the condition `parse (fmt b) = b` is a decidable conjunct of `WF`
(`floatsRT`), checked per literal, and the statement "it holds for every finite value" is the libc
assumption listed in the evidence and exercised by the correspondence check.

Values are bit patterns (`Nat`); formats: IEEE binary32, binary64 and the x87 80-bit extended format.
-/
namespace TextIO

structure FFmt where
  ebits : Nat
  /-- fraction bits below the integer bit -/
  mbits : Nat
  /-- x87: the integer bit is stored -/
  explicitInt : Bool
  /-- `*_MANT_DIG`, the `%.*e` precision used by the writer -/
  prec : Nat
  deriving DecidableEq, Repr

def fmtF : FFmt := ⟨8, 23, false, 24⟩
def fmtD : FFmt := ⟨11, 52, false, 53⟩
def fmtLD : FFmt := ⟨15, 63, true, 64⟩

def FFmt.bias (f : FFmt) : Nat := 2 ^ (f.ebits - 1) - 1
def FFmt.totalBits (f : FFmt) : Nat := 1 + f.ebits + f.mbits + (if f.explicitInt then 1 else 0)
/-- bits of the significand field as stored -/
def FFmt.sigBits (f : FFmt) : Nat := f.mbits + (if f.explicitInt then 1 else 0)

inductive FClass
  /-- value `(-1)^neg * m * 2^e` -/
  | finite (neg : Bool) (m : Nat) (e : Int)
  /-- infinity, NaN, or a non-canonical x87 encoding -/
  | special
  deriving DecidableEq, Repr

def decodeFloat (f : FFmt) (bits : Nat) : FClass :=
  let sig := bits % 2 ^ f.sigBits
  let ex := (bits / 2 ^ f.sigBits) % 2 ^ f.ebits
  let neg := (bits / 2 ^ (f.sigBits + f.ebits)) % 2 == 1
  let emin : Int := 1 - (f.bias : Int) - (f.mbits : Int)
  if ex == 2 ^ f.ebits - 1 then .special
  else if ex == 0 then
    -- zero / subnormal (x87 pseudo-denormals have the integer bit set: not canonical)
    if f.explicitInt && sig ≥ 2 ^ f.mbits then .special else .finite neg sig emin
  else if f.explicitInt then
    if sig < 2 ^ f.mbits then .special else .finite neg sig ((ex : Int) - f.bias - f.mbits)
  else .finite neg (2 ^ f.mbits + sig) ((ex : Int) - f.bias - f.mbits)

/-! ## decimal output -/

def digitChar (d : Nat) : Char := Char.ofNat (48 + d % 10)

/-- `natDec` with explicit fuel (structural recursion, so that the kernel can evaluate it) -/
def natDecF : Nat → Nat → List Char
  | 0, n => [digitChar n]
  | f + 1, n => if n < 10 then [digitChar n] else natDecF f (n / 10) ++ [digitChar (n % 10)]

/-- decimal digits of a natural number, most significant first (`"0"` for 0); the number itself is
more than enough fuel -/
def natDec (n : Nat) : List Char := natDecF n n

/-- `while (num >= 10*den) { den *= 10; k++; }` -/
def normUp : Nat → Nat → Nat → Nat → Nat × Nat
  | 0, _, den, k => (den, k)
  | fuel + 1, num, den, k => if num ≥ 10 * den then normUp fuel num (10 * den) (k + 1) else (den, k)

/-- `while (num < den) { num *= 10; k++; }` -/
def normDown : Nat → Nat → Nat → Nat → Nat × Nat
  | 0, num, _, k => (num, k)
  | fuel + 1, num, den, k => if num < den then normDown fuel (10 * num) den (k + 1) else (num, k)

def padLeft (n : Nat) (c : Char) (s : List Char) : List Char := List.replicate (n - s.length) c ++ s

/-- `printf ("%.<P>e", m * 2^e)` for `m > 0` or `m = 0`, without the sign -/
def sciDigits (m : Nat) (e : Int) (P : Nat) : List Char :=
  if m == 0 then '0' :: '.' :: List.replicate P '0' ++ ['e', '+', '0', '0']
  else
    let num0 := if e ≥ 0 then m * 2 ^ e.toNat else m
    let den0 := if e ≥ 0 then 1 else 2 ^ (-e).toNat
    -- bring num/den into [1,10)
    let (den1, kUp) := normUp 6000 num0 den0 0
    let (num1, kDown) := normDown 6000 num0 den1 0
    let k : Int := (kUp : Int) - (kDown : Int)
    let scaled := num1 * 10 ^ P
    let q := scaled / den1
    let r := scaled % den1
    let q := if 2 * r > den1 || (2 * r == den1 && q % 2 == 1) then q + 1 else q
    let (q, k) := if q == 10 ^ (P + 1) then (10 ^ P, k + 1) else (q, k)
    let ds := padLeft (P + 1) '0' (natDec q)
    let expAbs := k.natAbs
    (ds.take 1) ++ '.' :: (ds.drop 1) ++ 'e' :: (if k < 0 then '-' else '+') :: padLeft 2 '0' (natDec expAbs)

/-- `%.*e` of a floating value given by its bit pattern; `none` for inf/NaN/non-canonical -/
def fmtSci (f : FFmt) (bits : Nat) : Option (List Char) :=
  match decodeFloat f bits with
  | .special => none
  | .finite neg m e => some ((if neg then ['-'] else []) ++ sciDigits m e f.prec)

/-- what the writer really emits for inf/NaN (`inf`, `-inf`, `nan`, `-nan`) — not scannable -/
def fmtSpecial (f : FFmt) (bits : Nat) : List Char :=
  let sig := bits % 2 ^ f.sigBits
  let neg := (bits / 2 ^ (f.sigBits + f.ebits)) % 2 == 1
  let frac := sig % 2 ^ f.mbits
  (if neg then ['-'] else []) ++ (if frac == 0 then ['i', 'n', 'f'] else ['n', 'a', 'n'])

/-! ## decimal input (`strtod` family) -/

def isDigitC (c : Char) : Bool := 48 ≤ c.toNat && c.toNat ≤ 57

def digitsVal : List Char → Nat → Nat
  | [], acc => acc
  | c :: cs, acc => digitsVal cs (acc * 10 + (c.toNat - 48))

/-- `[sign] digits [. digits] [e [sign] digits]` → (negative, decimal digits as a number, power of ten) -/
def parseSciLexeme (s : List Char) : Option (Bool × Nat × Int) :=
  let (neg, s) := match s with
    | '-' :: t => (true, t)
    | '+' :: t => (false, t)
    | _ => (false, s)
  let ip := s.takeWhile isDigitC
  let s := s.dropWhile isDigitC
  let (fp, s) := match s with
    | '.' :: t => (t.takeWhile isDigitC, t.dropWhile isDigitC)
    | _ => ([], s)
  if ip.isEmpty && fp.isEmpty then none else
  let mant := digitsVal (ip ++ fp) 0
  match s with
  | [] => some (neg, mant, -(fp.length : Int))
  | 'e' :: t =>
    let (eneg, t) := match t with
      | '-' :: u => (true, u)
      | '+' :: u => (false, u)
      | _ => (false, t)
    if t.isEmpty || !(t.all isDigitC) then none else
    let ev : Int := digitsVal t 0
    some (neg, mant, (if eneg then -ev else ev) - (fp.length : Int))
  | _ => none

def bitLen (n : Nat) : Nat := if n == 0 then 0 else Nat.log2 n + 1

/-- correctly rounded (nearest, ties to even) conversion of `mant * 10^x` to the format -/
def decToBits (f : FFmt) (neg : Bool) (mant : Nat) (x : Int) : Nat :=
  let p := f.mbits + 1
  let signBit := if neg then 2 ^ (f.sigBits + f.ebits) else 0
  let inf := signBit + (2 ^ f.ebits - 1) * 2 ^ f.sigBits + (if f.explicitInt then 2 ^ f.mbits else 0)
  let nd := (natDec mant).length
  if mant == 0 then signBit
  else if x > 6000 then inf
  else if (nd : Int) + x < -6000 then signBit
  else
    let num := if x ≥ 0 then mant * 10 ^ x.toNat else mant
    let den := if x ≥ 0 then 1 else 10 ^ (-x).toNat
    let emin : Int := 1 - (f.bias : Int) - (f.mbits : Int)
    let e0 : Int := (bitLen num : Int) - (bitLen den : Int) - (p : Int)
    -- quotient with exponent e : floor (num / (den * 2^e))
    let quo (e : Int) : Nat × Nat × Nat :=   -- (q, remainder, divisor)
      let n := if e ≥ 0 then num else num * 2 ^ (-e).toNat
      let d := if e ≥ 0 then den * 2 ^ e.toNat else den
      (n / d, n % d, d)
    let e2 := if (quo e0).1 ≥ 2 ^ p then e0 + 1 else e0
    let e2 := if e2 < emin then emin else e2
    let (q, r, d) := quo e2
    let q := if 2 * r > d || (2 * r == d && q % 2 == 1) then q + 1 else q
    let (q, e2) := if q == 2 ^ p then (2 ^ (p - 1), e2 + 1) else (q, e2)
    let expField : Int := if q < 2 ^ (p - 1) then 0 else e2 + f.bias + f.mbits
    if expField ≥ (2 ^ f.ebits - 1 : Nat) then inf
    else signBit + expField.toNat * 2 ^ f.sigBits + (if f.explicitInt then q else q % 2 ^ f.mbits)

/-- `strtof` / `strtod` / `strtold` on a lexeme produced by `scan_number`; `none` when the lexeme is
not a plain decimal floating literal (then the C library stops early and `mir.c` asserts) -/
def parseSci (f : FFmt) (s : List Char) : Option Nat :=
  match parseSciLexeme s with
  | none => none
  | some (neg, mant, x) => some (decToBits f neg mant x)

end TextIO
