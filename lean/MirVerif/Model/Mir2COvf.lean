import MirVerif.Model.Mir2CKnown
/-! # C20 — the overflow instructions as `mir2c` emits them

`MIR_ADDO/SUBO/MULO`  : `__overflow = __builtin_<op>_overflow((int64_t)a, (int64_t)b, (int64_t *)&r);`
`MIR_ADDOS/SUBOS/MULOS`: the same with `int32_t`
`MIR_UMULO[S]`        : `__overflow = __builtin_mul_overflow((uint64_t)a, (uint64_t)b, (uint64_t *)&r);`
`MIR_BO, MIR_UBO`     : `if (__overflow) goto l;`      `MIR_BNO, MIR_UBNO`: `if (!__overflow) goto l;`

gcc manual ("Built-in Functions to Perform Arithmetic with Overflow Checking"): the operation is
performed on the operands in infinite precision, the result is cast to the type the third argument
points to and stored there; the function returns true iff the stored value differs from the
infinite-precision result. -/
namespace MirVerif.Mir2C

inductive OvOp | add | sub | mul
deriving DecidableEq, Repr

def OvOp.eval (o : OvOp) (a b : Int) : Int :=
  match o with
  | .add => a + b
  | .sub => a - b
  | .mul => a * b

/-- `__builtin_<o>_overflow` on operands and result of a signed `n`-bit type: (stored result, returned flag) -/
def builtinS {n : Nat} (o : OvOp) (x y : BitVec n) : BitVec n × Bool :=
  let v := o.eval x.toInt y.toInt
  (BitVec.ofInt n v, decide (v < -(2 ^ (n - 1)) ∨ v ≥ 2 ^ (n - 1)))

/-- the same for an unsigned `n`-bit type -/
def builtinU {n : Nat} (o : OvOp) (x y : BitVec n) : BitVec n × Bool :=
  let v := o.eval x.toNat y.toNat
  (BitVec.ofInt n v, decide (v < 0 ∨ v ≥ 2 ^ n))

/-- the value of `__overflow` that `UBO`/`UBNO` test directly after `ADDO`/`SUBO` on `n`-bit operands:
today the flag of the *signed* builtin; in the code after `fixes/C20-ubo-signed-flag.patch` the flag of a
second, unsigned builtin -/
def uboFlag {n : Nat} (o : OvOp) (x y : BitVec n) : Bool :=
  if unsignedFlagFromSigned then (builtinS o x y).2 else (builtinU o x y).2

end MirVerif.Mir2C
