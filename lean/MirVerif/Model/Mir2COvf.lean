import MirVerif.Model.Mir2CKnown
/-! # C20 — the overflow instructions as `mir2c` emits them

`MIR_ADDO/SUBO/MULO`  : `__overflow = __builtin_<op>_overflow((int64_t)a, (int64_t)b, (int64_t *)&r);`
`MIR_ADDOS/SUBOS/MULOS`: the same with `int32_t`
`MIR_UMULO[S]`        : `__overflow = __builtin_mul_overflow((uint64_t)a, (uint64_t)b, (uint64_t *)&r);`
`MIR_BO, MIR_UBO`     : `if (__overflow) goto l;`      `MIR_BNO, MIR_UBNO`: `if (!__overflow) goto l;`

gcc manual ("Built-in Functions to Perform Arithmetic with Overflow Checking"): the operation is
performed on the operands in infinite precision, the result is cast to the type the third argument
points to and stored there; the function returns true iff the stored value differs from the
infinite-precision result. -/
namespace MirVerif.Mir2C

inductive OvOp | add | sub | mul
deriving DecidableEq, Repr

def OvOp.eval (o : OvOp) (a b : Int) : Int :=
  match o with
  | .add => a + b
  | .sub => a - b
  | .mul => a * b

/-- `__builtin_<o>_overflow` on operands and result of a signed `n`-bit type: (stored result, returned flag) -/
def builtinS {n : Nat} (o : OvOp) (x y : BitVec n) : BitVec n × Bool :=
  let v := o.eval x.toInt y.toInt
  (BitVec.ofInt n v, decide (v < -(2 ^ (n - 1)) ∨ v ≥ 2 ^ (n - 1)))

/-- the same for an unsigned `n`-bit type -/
def builtinU {n : Nat} (o : OvOp) (x y : BitVec n) : BitVec n × Bool :=
  let v := o.eval x.toNat y.toNat
  (BitVec.ofInt n v, decide (v < 0 ∨ v ≥ 2 ^ n))

/-- the value of `__overflow` that `UBO`/`UBNO` test directly after `ADDO`/`SUBO` on `n`-bit operands:
today the flag of the *signed* builtin; in the code after `fixes/C20-ubo-signed-flag.patch` the flag of a
second, unsigned builtin -/
def uboFlag {n : Nat} (o : OvOp) (x y : BitVec n) : Bool :=
  if unsignedFlagFromSigned then (builtinS o x y).2 else (builtinU o x y).2

/-! ## the emitted statement SEQUENCE, with aliasing destination/sources

For `addo/subo dst, s1, s2` mir2c prints two statements,
`{ uint64_t __u; __uoverflow = __builtin_<o>_overflow((uint64_t) s1, (uint64_t) s2, &__u); }` and
`__overflow = __builtin_<o>_overflow((int64_t) s1, (int64_t) s2, (int64_t *)&dst);`.
The second one writes `dst`; when `dst` is one of the sources, the order of the two statements decides
which values the unsigned builtin reads.  `Gen.C20.uoverflowBeforeStore` (regenerated from the source
text) says which order the translator prints. -/

abbrev Regs := Nat → W64

def Regs.set (r : Regs) (d : Nat) (v : W64) : Regs := fun i => if i = d then v else r i

/-- registers after the two statements, `__overflow`, `__uoverflow` -/
def emitOvf64 (uFirst : Bool) (o : OvOp) (d s1 s2 : Nat) (r : Regs) : Regs × Bool × Bool :=
  if uFirst then
    let u := (builtinU o (r s1) (r s2)).2
    let sres := builtinS o (r s1) (r s2)
    (r.set d sres.1, sres.2, u)
  else
    let sres := builtinS o (r s1) (r s2)
    let r' := r.set d sres.1
    (r', sres.2, (builtinU o (r' s1) (r' s2)).2)

end MirVerif.Mir2C
