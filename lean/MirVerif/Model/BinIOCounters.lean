import MirVerif.Model.BinIORead
/-!
# C11 — temp-name counters restored by the binary reader (`process_reserved_name`)

`read_name` (with an open module) raises `module->last_temp_item_num` to `N` for every name
`.lc<N>`; `to_reg` raises `func->last_temp_num` to `N` for every register operand `t<N>`.
Later `_MIR_get_temp_item_name` / `_MIR_new_temp_reg` count on from there, so that names made
after a round trip do not collide with names that were read.
Modelled for names whose suffix is a (possibly empty) string of decimal digits; `strtoul` also
accepts blanks and a sign there — such names are outside the model (and outside the generator).
-/
namespace BinIO

def isDigit (b : Nat) : Bool := 48 ≤ b && b ≤ 57

def decVal : List Nat → Nat → Nat
  | [], acc => acc
  | d :: r, acc => decVal r (10 * acc + (d - 48))

/-- `strtoul` saturates at ULONG_MAX, the result is stored in a `uint32_t` -/
def reservedNum (pre : List Nat) (name : Name) : Option Nat :=
  if pre.isPrefixOf name then
    let ds := name.drop pre.length
    if ds.all isDigit then some ((min (decVal ds 0) (2 ^ 64 - 1)) % 2 ^ 32) else none
  else none

def bump (cur : Nat) (pre : List Nat) (name : Name) : Nat :=
  match reservedNum pre name with
  | some n => max cur n
  | none => cur

def lcPrefix : List Nat := [46, 108, 99]     -- ".lc"
def tPrefix : List Nat := [116]               -- "t"

/-- names that go through `read_name (ctx, module, …)` while the item is read, in order -/
def optNames : Option Name → List Name
  | some n => [n]
  | none => []

def memReadNames (m : Mem) : List Name :=
  if m.alias ≠ [] ∨ m.nonalias ≠ [] then [m.alias, m.nonalias] else []

def opReadNames : Op → List Name
  | .mem m => memReadNames m
  | _ => []

def insnReadNames : Insn → List Name
  | .op _ ops => ops.flatMap opReadNames
  | .label _ => []

def itemReadNames : Item → List Name
  | .import_ n => [n]
  | .export_ n => [n]
  | .forward_ n => [n]
  | .bss nm _ => optNames nm
  | .ref nm it _ => optNames nm ++ [it]
  | .lref nm _ _ _ => optNames nm
  | .expr nm fn => optNames nm ++ [fn]
  | .data nm _ _ => optNames nm
  | .proto n _ _ args => n :: args.map (·.name)
  | .func f =>
    f.name :: (f.args.map (·.name) ++ f.locals.map (·.2) ++ f.globals.map (·.2.1)
               ++ f.insns.flatMap insnReadNames)

/-- `module->last_temp_item_num` after the module has been read -/
def moduleCounter (m : Module) : Nat :=
  (m.items.flatMap itemReadNames).foldl (fun c n => bump c lcPrefix n) 0

def opRegNames : Op → List Name
  | .reg n => [n]
  | .mem m => (match m.base with | some b => [b] | none => [])
              ++ (match m.index with | some (i, _) => [i] | none => [])
  | _ => []

def insnRegNames : Insn → List Name
  | .op _ ops => ops.flatMap opRegNames
  | .label _ => []

/-- `func->last_temp_num` after the function has been read -/
def funcCounter (f : Func) : Nat :=
  (f.insns.flatMap insnRegNames).foldl (fun c n => bump c tPrefix n) 0

end BinIO
