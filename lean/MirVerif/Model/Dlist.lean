/-!
# Executable model of `mir-dlist.h`

List elements are node ids `0 … N-1`; `prev`/`next` are the two link fields of every node
(`elem->LINK.prev`, `elem->LINK.next`), `head`/`tail` the two fields of the `DLIST (T)` object;
`none` is `NULL`.  Every operation performs exactly the pointer assignments of the macro body, in the
same order, re-reading fields from the intermediate state where the C does.  An operation returns
`none` where a `DLIST_ASSERT` of the header fails.
-/
namespace MirVerif.Dlist

structure St where
  head : Option Nat
  tail : Option Nat
  prev : List (Option Nat)
  next : List (Option Nat)
deriving Repr, DecidableEq

/-- `DLIST_INIT` for a list over `n` (unlinked) nodes -/
def init (n : Nat) : St := { head := none, tail := none, prev := List.replicate n none, next := List.replicate n none }

/-- `DLIST_PREV` / `DLIST_NEXT` -/
def prv (s : St) (e : Nat) : Option Nat := s.prev.getD e none
def nxt (s : St) (e : Nat) : Option Nat := s.next.getD e none

def setPrev (s : St) (e : Nat) (v : Option Nat) : St := { s with prev := s.prev.set e v }
def setNext (s : St) (e : Nat) (v : Option Nat) : St := { s with next := s.next.set e v }
def setHead (s : St) (v : Option Nat) : St := { s with head := v }
def setTail (s : St) (v : Option Nat) : St := { s with tail := v }

/-- `DLIST_PREPEND` -/
def prepend (s : St) (e : Nat) : Option St :=
  match s.head with
  | none =>
    if s.tail ≠ none then none else
    let s1 := setTail s (some e)
    let s2 := setPrev s1 e none
    let s3 := setNext s2 e s2.head
    some (setHead s3 (some e))
  | some hd =>
    if prv s hd ≠ none then none else
    let s1 := setPrev s hd (some e)
    let s2 := setPrev s1 e none
    let s3 := setNext s2 e s2.head
    some (setHead s3 (some e))

/-- `DLIST_APPEND` -/
def append (s : St) (e : Nat) : Option St :=
  match s.tail with
  | none =>
    if s.head ≠ none then none else
    let s1 := setHead s (some e)
    let s2 := setNext s1 e none
    let s3 := setPrev s2 e s2.tail
    some (setTail s3 (some e))
  | some tl =>
    if nxt s tl ≠ none then none else
    let s1 := setNext s tl (some e)
    let s2 := setNext s1 e none
    let s3 := setPrev s2 e s2.tail
    some (setTail s3 (some e))

/-- `DLIST_INSERT_BEFORE` -/
def insertBefore (s : St) (b e : Nat) : Option St :=
  if s.tail = none then none else
  match prv s b with
  | none =>
    if s.head ≠ some b then none else
    let s1 := setPrev s b (some e)
    let s2 := setNext s1 e (some b)
    let s3 := setPrev s2 e none
    some (setHead s3 (some e))
  | some p =>
    if s.head = none then none else
    let s1 := setNext s p (some e)
    let s2 := setPrev s1 e (prv s1 b)
    let s3 := setPrev s2 b (some e)
    some (setNext s3 e (some b))

/-- `DLIST_INSERT_AFTER` -/
def insertAfter (s : St) (a e : Nat) : Option St :=
  if s.head = none then none else
  match nxt s a with
  | none =>
    if s.tail ≠ some a then none else
    let s1 := setNext s a (some e)
    let s2 := setPrev s1 e (some a)
    let s3 := setNext s2 e none
    some (setTail s3 (some e))
  | some n =>
    if s.tail = none then none else
    let s1 := setPrev s n (some e)
    let s2 := setNext s1 e (nxt s1 a)
    let s3 := setNext s2 a (some e)
    some (setPrev s3 e (some a))

/-- `DLIST_REMOVE` -/
def remove (s : St) (e : Nat) : Option St :=
  let r1 : Option St :=
    match prv s e with
    | some p => some (setNext s p (nxt s e))
    | none => if s.head ≠ some e then none else some (setHead s (nxt s e))
  match r1 with
  | none => none
  | some s1 =>
    let r2 : Option St :=
      match nxt s1 e with
      | some n => some (setPrev s1 n (prv s1 e))
      | none => if s1.tail ≠ some e then none else some (setTail s1 (prv s1 e))
    match r2 with
    | none => none
    | some s2 => some (setNext (setPrev s2 e none) e none)

/-- follow `f` for `k` steps or until NULL -/
def walk (f : Nat → Option Nat) : Nat → Option Nat → Option Nat
  | 0, e => e
  | _ + 1, none => none
  | k + 1, some x => walk f k (f x)

/-- `DLIST_EL (T, list, n)` -/
def el (s : St) (n : Int) : Option Nat :=
  if n ≥ 0 then walk (nxt s) n.toNat s.head else walk (prv s) (-n - 1).toNat s.tail

/-- forward traversal from `e`, at most `fuel` nodes -/
def follow (f : Nat → Option Nat) : Nat → Option Nat → List Nat
  | 0, _ => []
  | _ + 1, none => []
  | k + 1, some x => x :: follow f k (f x)

/-- `head, head->next, …` (at most `N + 1` nodes, so a corrupted cyclic structure is visible) -/
def toList (s : St) : List Nat := follow (nxt s) (s.next.length + 1) s.head
/-- `tail, tail->prev, …` -/
def toListRev (s : St) : List Nat := follow (prv s) (s.prev.length + 1) s.tail

/-- `DLIST_LENGTH` (the C loop runs until NULL; on well-formed lists that is below the fuel) -/
def length (s : St) : Nat := (toList s).length

/-! ## histories and their list specification -/

inductive Op where
  | prepend (e : Nat) | append (e : Nat) | insertBefore (b e : Nat) | insertAfter (a e : Nat)
  | remove (e : Nat)
deriving Repr

def step (s : St) : Op → Option St
  | .prepend e => prepend s e
  | .append e => append s e
  | .insertBefore b e => insertBefore s b e
  | .insertAfter a e => insertAfter s a e
  | .remove e => remove s e

def run : St → List Op → Option St
  | s, [] => some s
  | s, op :: ops => match step s op with | none => none | some s' => run s' ops

def insBefore (l : List Nat) (b e : Nat) : List Nat :=
  match l with
  | [] => []
  | x :: r => if x = b then e :: x :: r else x :: insBefore r b e

def insAfter (l : List Nat) (a e : Nat) : List Nat :=
  match l with
  | [] => []
  | x :: r => if x = a then x :: e :: r else x :: insAfter r a e

/-- the specification; `none` = the call violates the documented usage (element already linked,
anchor / element not in the list, id out of range) -/
def specStep (n : Nat) (l : List Nat) : Op → Option (List Nat)
  | .prepend e => if e < n ∧ e ∉ l then some (e :: l) else none
  | .append e => if e < n ∧ e ∉ l then some (l ++ [e]) else none
  | .insertBefore b e => if e < n ∧ e ∉ l ∧ b ∈ l then some (insBefore l b e) else none
  | .insertAfter a e => if e < n ∧ e ∉ l ∧ a ∈ l then some (insAfter l a e) else none
  | .remove e => if e ∈ l then some (l.erase e) else none

def specRun (n : Nat) : List Nat → List Op → Option (List Nat)
  | l, [] => some l
  | l, op :: ops => match specStep n l op with | none => none | some l' => specRun n l' ops

end MirVerif.Dlist
