import MirVerif.Model.Link
/-!
# Specification side of C13: "the definition loaded last", as a function of the HISTORY

Nothing here looks at `State`: `lastDef h n` is computed from the list of API calls alone (most
recent call first).  `Props/C13.lean` proves that the state machine of `Model/Link.lean` agrees
with it; `mirdrv_c13 spec` prints what it demands so that `checks/c13.py` can evaluate the property
statement on the real library's output independently of the state machine.
-/
namespace MirVerif.Link

/-- the module text contains `export n` -/
def declHasExp : List Decl → Name → Bool
  | [], _ => false
  | .exp m :: ds, n => m == n || declHasExp ds n
  | _ :: ds, n => declHasExp ds n

/-- kind of the (first) definition of `n` in the module text: `some true` = function -/
def declDefKind : List Decl → Name → Option Bool
  | [], _ => none
  | .func m :: ds, n => if m = n then some true else declDefKind ds n
  | .data m :: ds, n => if m = n then some false else declDefKind ds n
  | _ :: ds, n => declDefKind ds n

/-- what loading module `id` with text `ds` makes globally visible under the name `n` -/
def declExport (id : Nat) (ds : List Decl) (n : Name) : Option Def :=
  if declHasExp ds n then
    match declDefKind ds n with
    | some true => some (.func id)
    | some false => some (.data id)
    | none => none
  else none

def declImports : List Decl → List Name
  | [] => []
  | .imp n _ :: ds => n :: declImports ds
  | _ :: ds => declImports ds

/-- names of one module text are used consistently: nothing is both imported and declared in
another way, nothing is defined twice (otherwise building the module already fails) -/
def declsOk : List Decl → Bool
  | [] => true
  | d :: ds =>
    declsOk ds &&
    (match d with
     | .imp n _ => ds.all (fun d' => d'.name != n || (match d' with | .imp _ _ => true | _ => false))
     | .func n | .data n =>
       ds.all (fun d' => d'.name != n || (match d' with | .exp _ | .fwd _ => true | _ => false))
     | .exp n | .fwd n => ds.all (fun d' => d'.name != n || (match d' with | .imp _ _ => false | _ => true)))

/-- the module objects (id, text) built by the history, oldest first; argument: history, most recent
call first -/
def loadsR : List Op → List (Nat × List Decl)
  | [] => []
  | .loadModule id ds :: r => loadsR r ++ [(id, ds)]
  | _ :: r => loadsR r

/-- modules (id, imported names) loaded since the last link that installed an interface;
argument: history, most recent call first -/
def pendingModsR : List Op → List (Nat × List Name)
  | [] => []
  | .link (some _) _ :: _ => []
  | .loadModule id ds :: r => pendingModsR r ++ [(id, declImports ds)]
  | .reload k :: r =>          -- a reload is a load event like any other
    match (loadsR r)[k]? with
    | some (id, ds) => pendingModsR r ++ [(id, declImports ds)]
    | none => pendingModsR r
  | _ :: r => pendingModsR r

def pendingR (r : List Op) : List Name := (pendingModsR r).flatMap (·.2)

/-- the definition of `n` loaded last; argument: history, most recent call first.  A link
registers what the resolver answers for the still undefined imports of the pending modules. -/
def lastDefR : List Op → Name → Option Def
  | [], _ => none
  | .loadModule id ds :: r, n =>
    match declExport id ds n with
    | some d => some d
    | none => lastDefR r n
  | .reload k :: r, n =>
    match (loadsR r)[k]? with
    | some (id, ds) =>
      match declExport id ds n with
      | some d => some d
      | none => lastDefR r n
    | none => lastDefR r n
  | .loadExternal m a :: r, n => if m = n then some (.ext a) else lastDefR r n
  | .link _ res :: r, n =>
    match lastDefR r n with
    | some d => some d
    | none => if n ∈ pendingR r then (res n).map .ext else none
  | _ :: r, n => lastDefR r n

/-- the definition of `n` loaded last in history `h` (oldest call first) -/
def lastDef (h : List Op) (n : Name) : Option Def := lastDefR h.reverse n

def redefOkR : List Op → Bool
  | [] => false
  | .setRedef b :: _ => b
  | _ :: r => redefOkR r

/-- what a link must bind an import of `n` to, given the history before it -/
def wanted (r : List Op) (res : Resolver) (n : Name) : Option Def :=
  match lastDefR r n with
  | some d => some d
  | none => (res n).map .ext

end MirVerif.Link
