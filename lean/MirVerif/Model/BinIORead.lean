import MirVerif.Model.BinIO
/-!
# C11 — model of the binary MIR reader (`get_uint`, `read_token`, `read_operand`,
`func_proto_read`, `MIR_read_with_func`) over the RAW byte stream

The reader follows the C code token by token.  One iteration of the `for (;;)` loop of
`MIR_read_with_func` = `readStmt` (pure syntax: bytes → `Stmt`) followed by `applyStmt` (the semantic
action: the `MIR_new_*` call on the reader state).  The checks done by the reader code itself are
modelled (tags, string numbers, nesting, "no labels before …", items referred to must exist);
checks made inside the MIR API (operand modes, declared registers, hard register names) are not —
the streams the tie feeds come from modules that passed them when they were built.
Deviation (malformed streams only): items or `endmodule` inside an open function are rejected.
-/

namespace BinIO

/-! ## parser monad over the remaining bytes -/

def P (α : Type) : Type := List Byte → Except String (α × List Byte)

instance : Monad P where
  pure a := fun bs => .ok (a, bs)
  bind p f := fun bs => match p bs with
    | .ok (a, r) => f a r
    | .error e => .error e

def P.fail {α : Type} (msg : String) : P α := fun _ => .error msg
def P.lift {α : Type} (e : Except String α) : P α := fun bs => match e with
  | .ok a => .ok (a, bs)
  | .error m => .error m

/-- `get_byte` -/
def getByte : P Byte := fun bs => match bs with
  | [] => .error "unfinished binary MIR"
  | b :: r => .ok (b, r)

/-- `get_uint (nb)`: little endian, `res |= byte << (i * 8)` -/
def getUint : Nat → P Nat
  | 0 => pure 0
  | nb + 1 => do
    let b ← getByte
    let v ← getUint nb
    pure (b + 256 * v)

/-- tokens as `read_token` reports them (tag class + attribute) -/
inductive Tok
  | uint (v : Nat)
  | int (v : Nat)
  | flt (v : Nat)
  | dbl (v : Nat)
  | ldbl (v : Nat)
  | reg (i : Nat)
  | name (i : Nat) (nb : Nat)     -- string number and the number of index bytes (TAG_NAME1+nb-1)
  | str (i : Nat)
  | lab (n : Nat)
  | mem (tag : Nat)
  | ty (t : Nat)
  | eoi
  | eof
deriving DecidableEq, Repr

/-- `read_token` -/
def readToken : P Tok := do
  let c ← getByte
  if 128 ≤ c then pure (.uint (c % 128))
  else if c = 0 then P.fail "wrong tag 0"
  else if c ≤ Tag.u8 then do let v ← getUint (c - Tag.u1 + 1); pure (.uint v)
  else if c ≤ Tag.i8 then do let v ← getUint (c - Tag.i1 + 1); pure (.int v)
  else if c = Tag.f then do let v ← getUint 4; pure (.flt v)
  else if c = Tag.d then do let v ← getUint 8; pure (.dbl v)
  else if c = Tag.ld then do
    let lo ← getUint 8
    let hi ← getUint 8
    pure (.ldbl (lo + 2 ^ 64 * (hi % 2 ^ 16)))      -- returned by value as an 80-bit long double
  else if c < Tag.name1 then do let v ← getUint (c - Tag.reg1 + 1); pure (.reg v)
  else if c < Tag.str1 then do let v ← getUint (c - Tag.name1 + 1); pure (.name v (c - Tag.name1 + 1))
  else if c < Tag.lab1 then do let v ← getUint (c - Tag.str1 + 1); pure (.str v)
  else if c < Tag.memDisp then do let v ← getUint (c - Tag.lab1 + 1); pure (.lab v)
  else if c < Tag.ti8 then pure (.mem c)
  else if c ≤ Tag.trblock then pure (.ty (c - Tag.ti8))
  else if c = Tag.eoi then pure .eoi
  else if c = Tag.eofile then pure .eof
  else if c ≤ Tag.last then pure (.mem c)
  else P.fail "wrong tag"

/-- `read_uint` -/
def readUint (msg : String) : P Nat := do
  let c ← getByte
  if 128 ≤ c then pure (c % 128)
  else if Tag.u1 ≤ c ∧ c ≤ Tag.u8 then getUint (c - Tag.u1 + 1)
  else P.fail msg

/-- `read_int` -/
def readInt (msg : String) : P Nat := do
  let c ← getByte
  if Tag.i1 ≤ c ∧ c ≤ Tag.i8 then getUint (c - Tag.i1 + 1) else P.fail msg

/-- `read_type` -/
def readType (msg : String) : P Nat := do
  let c ← getByte
  if Tag.ti8 ≤ c ∧ c ≤ Tag.trblock then pure (c - Tag.ti8) else P.fail msg

/-- `to_str` -/
def toStr (tab : List Str) (i : Nat) : Except String Str :=
  match tab[i]? with
  | some s => .ok s
  | none => .error "wrong string num"

/-- a `MIR_str_t` used as a C string: bytes up to the first NUL -/
def cstr (s : Str) : Name := s.takeWhile (· ≠ 0)

/-- `read_name` -/
def readName (tab : List Str) (msg : String) : P Name := do
  let c ← getByte
  if Tag.name1 ≤ c ∧ c < Tag.str1 then do
    let i ← getUint (c - Tag.name1 + 1)
    let s ← P.lift (toStr tab i)
    pure (cstr s)
  else P.fail msg

/-- `take` of exactly `n` bytes (the `for (l = 0; l < len; l++) get_byte` loop) -/
def getBytes (n : Nat) : P (List Byte) := fun bs =>
  if n ≤ bs.length then .ok (bs.take n, bs.drop n) else .error "unfinished binary MIR"

/-- `read_all_strings` -/
def readStrings : Nat → P (List Str)
  | 0 => pure []
  | n + 1 => do
    let len ← readUint "wrong string length"
    let s ← getBytes len
    let rest ← readStrings n
    pure (s :: rest)

/-! ## operands -/

def memHasDisp (tag : Nat) : Bool :=
  tag = Tag.memDisp || tag = Tag.memDispBase || tag = Tag.memDispIndex || tag = Tag.memDispBaseIndex
  || tag = 63 || tag = 66 || tag = 67 || tag = 69
def memHasBase (tag : Nat) : Bool :=
  tag = Tag.memBase || tag = Tag.memDispBase || tag = Tag.memBaseIndex || tag = Tag.memDispBaseIndex
  || tag = 64 || tag = 66 || tag = 68 || tag = 69
def memHasIndex (tag : Nat) : Bool :=
  tag = Tag.memIndex || tag = Tag.memDispIndex || tag = Tag.memBaseIndex || tag = Tag.memDispBaseIndex
  || tag = 65 || tag = 67 || tag = 68 || tag = 69
def memIsAlias (tag : Nat) : Bool := Tag.aliasMemDisp ≤ tag

/-- `read_disp` -/
def readDisp : P Nat := do
  let t ← readToken
  match t with
  | .int v => pure v
  | _ => P.fail "memory disp has wrong tag"

/-- `read_reg` (+ `to_reg` without the MIR_reg declaredness check) -/
def readReg (tab : List Str) : P Name := do
  let t ← readToken
  match t with
  | .reg i => do let s ← P.lift (toStr tab i); pure (cstr s)
  | _ => P.fail "register has wrong tag"

def readMem (tab : List Str) (tag : Nat) : P Mem := do
  let t ← readType "wrong memory type"
  let disp ← if memHasDisp tag then readDisp else pure 0
  let base ← if memHasBase tag then (do let r ← readReg tab; pure (some r)) else pure none
  let index ← if memHasIndex tag then
      (do let r ← readReg tab
          let s ← readUint "wrong memory index scale"
          pure (some (r, s % 256)))       -- (MIR_scale_t) cast
    else pure none
  if memIsAlias tag then do
    let a ← readName tab "wrong alias name"
    let na ← readName tab "wrong nonalias name"
    pure { ty := t, disp := disp, base := base, index := index, alias := a, nonalias := na }
  else
    pure { ty := t, disp := disp, base := base, index := index, alias := [], nonalias := [] }

/-- `read_operand` after its `read_token`: `none` = EOI -/
def operandOfTok (tab : List Str) (t : Tok) : P (Option Op) :=
  match t with
  | .uint v => pure (some (.uint v))
  | .int v => pure (some (.int v))
  | .flt v => pure (some (.flt v))
  | .dbl v => pure (some (.dbl v))
  | .ldbl v => pure (some (.ldbl v))
  | .reg i => do let s ← P.lift (toStr tab i); pure (some (.reg (cstr s)))
  | .name i _ => do let s ← P.lift (toStr tab i); pure (some (.ref (cstr s)))
  | .str i => do let s ← P.lift (toStr tab i); pure (some (.str s))
  | .lab n => pure (some (.label n))
  | .mem tag => do let m ← readMem tab tag; pure (some (.mem m))
  | .eoi => pure none
  | .ty _ => P.fail "wrong operand tag"
  | .eof => P.fail "wrong operand tag"

def readOperand (tab : List Str) : P (Option Op) := do
  let t ← readToken
  operandOfTok tab t

/-- exactly `n` operands (`nop != 0`); an EOI before that is "wrong number of operands" -/
def readOpsFixed (tab : List Str) : Nat → P (List Op)
  | 0 => pure []
  | n + 1 => do
    let o ← readOperand tab
    match o with
    | none => P.fail "wrong number of operands of insn"
    | some op => do
      let rest ← readOpsFixed tab n
      pure (op :: rest)

/-- operands up to EOI (`nop == 0`) -/
def readOpsVar (tab : List Str) : Nat → P (List Op)
  | 0 => P.fail "out of fuel"
  | fuel + 1 => do
    let o ← readOperand tab
    match o with
    | none => pure []
    | some op => do
      let rest ← readOpsVar tab fuel
      pure (op :: rest)

/-! ## statements -/

inductive Stmt
  | modBegin (n : Name)
  | modEnd
  | import_ (n : Name)
  | export_ (n : Name)
  | forward_ (n : Name)
  | bss (nm : Option Name) (len : Nat)
  | ref (nm : Option Name) (item : Name) (disp : Nat)
  | lref (nm : Option Name) (l1 l2 disp : Nat)
  | expr (nm : Option Name) (func : Name)
  | data (nm : Option Name) (ty : Nat) (els : List Nat)
  | proto (n : Name) (vararg : Bool) (res : List Nat) (args : List Var)
  | funcBegin (n : Name) (vararg : Bool) (res : List Nat) (args : List Var)
  | vars (global : Bool) (vs : List (Nat × Name × Option Name))
  | insn (labs : List Nat) (code : Nat) (ops : List Op)
  | funcEnd (labs : List Nat)
  | eof
deriving DecidableEq, Repr

/-- result types of `func_proto_read` -/
def readResTypes : Nat → P (List Nat)
  | 0 => pure []
  | n + 1 => do
    let t ← readToken
    match t with
    | .ty ty => do let rest ← readResTypes n; pure (ty :: rest)
    | _ => P.fail "wrong prototype result type tag"

/-- argument loop of `func_proto_read` -/
def readArgs (tab : List Str) : Nat → P (List Var)
  | 0 => P.fail "out of fuel"
  | fuel + 1 => do
    let t ← readToken
    match t with
    | .eoi => pure []
    | .ty ty => do
      let n ← readName tab "wrong arg name"
      let sz ← if isBlkTy ty then readUint "wrong block arg size" else pure 0
      let rest ← readArgs tab fuel
      pure ({ ty := ty, name := n, size := sz } :: rest)
    | _ => P.fail "wrong prototype arg type tag"

/-- `func_proto_read` -/
def readProto (tab : List Str) : P (Bool × List Nat × List Var) := fun bs =>
  (do let va ← readUint "wrong vararg flag"
      let nres ← readUint "wrong func nres"
      let res ← readResTypes nres
      let args ← readArgs tab (bs.length + 1)
      pure (va != 0, res, args) : P _) bs

/-- data values up to EOI, checked against the element type as the reader does -/
def readDataEls (cfg : Cfg) (ty : Nat) : Nat → P (List Nat)
  | 0 => P.fail "out of fuel"
  | fuel + 1 => do
    let t ← readToken
    match t with
    | .eoi => pure []
    | .uint v =>
      if ty = 1 ∨ ty = 3 ∨ ty = 5 ∨ ty = 7 ∨ (ty = 11 ∧ cfg.dataPtr = true) then do
        let rest ← readDataEls cfg ty fuel; pure (v % 2 ^ tyBits ty :: rest)
      else P.fail "data type does not correspond value type"
    | .int v =>
      if ty = 0 ∨ ty = 2 ∨ ty = 4 ∨ ty = 6 then do
        let rest ← readDataEls cfg ty fuel; pure (v % 2 ^ tyBits ty :: rest)
      else P.fail "data type does not correspond value type"
    | .flt v =>
      if ty = 8 then do let rest ← readDataEls cfg ty fuel; pure (v :: rest)
      else P.fail "data type does not correspond value type"
    | .dbl v =>
      if ty = 9 then do let rest ← readDataEls cfg ty fuel; pure (v :: rest)
      else P.fail "data type does not correspond value type"
    | .ldbl v =>
      if ty = 10 then do let rest ← readDataEls cfg ty fuel; pure (v :: rest)
      else P.fail "data type does not correspond value type"
    | _ => P.fail "wrong data value tag"

/-- the `local` / `global` loop; `tag` is the token already read -/
def readVars (cfg : Cfg) (tab : List Str) (global : Bool) :
    Nat → Tok → P (List (Nat × Name × Option Name))
  | 0, _ => P.fail "out of fuel"
  | fuel + 1, tag =>
    match tag with
    | .eoi => pure []
    | .ty ty => do
      let n ← readName tab "wrong local/global var name"
      let tag2 ← readToken
      if global then
        match tag2 with
        | .name i nb => do
          -- #30: `to_str (ctx, get_uint (ctx, tag - TAG_NAME1 + 1))` reads the index a second time
          let i' ← if cfg.globalDoubleRead then getUint nb else pure i
          let s ← P.lift (toStr tab i')
          let tag3 ← readToken
          let rest ← readVars cfg tab global fuel tag3
          pure ((ty, n, some (cstr s)) :: rest)
        | _ => P.fail "global without hard reg name"
      else do
        let rest ← readVars cfg tab global fuel tag2
        pure ((ty, n, none) :: rest)
    | _ => P.fail "wrong local/global var type tag"

/-- leading label tokens of a statement; returns them with the first non-label token -/
def readLabs : Nat → P (List Nat × Tok)
  | 0 => P.fail "out of fuel"
  | fuel + 1 => do
    let t ← readToken
    match t with
    | .lab n => do
      let (ls, t') ← readLabs fuel
      pure (n :: ls, t')
    | _ => pure ([], t)

def optName (tab : List Str) (named : Bool) (msg : String) : P (Option Name) :=
  if named then do let n ← readName tab msg; pure (some n) else pure none

/-- every name statement refuses preceding labels (the message differs per statement) -/
def noLabs (labs : List Nat) : P Unit :=
  if labs = [] then pure () else P.fail "statement should have no labels"

/-- body of a statement that starts with the reserved name `k` -/
def readKwStmt (cfg : Cfg) (tab : List Str) (labs : List Nat) (k : Kw) : P Stmt := fun bs =>
  (match k with
  | .module_ => do
    let n ← readName tab "wrong module name"; noLabs labs; pure (.modBegin n)
  | .endmodule => do noLabs labs; pure .modEnd
  | .proto => do
    let n ← readName tab "wrong prototype name"; noLabs labs
    let (va, res, args) ← readProto tab
    pure (.proto n va res args)
  | .func => do
    let n ← readName tab "wrong func name"; noLabs labs
    let (va, res, args) ← readProto tab
    pure (.funcBegin n va res args)
  | .endfunc =>
    if cfg.endfuncLabels then pure (.funcEnd labs) else do noLabs labs; pure (.funcEnd [])
  | .export_ => do let n ← readName tab "wrong export name"; noLabs labs; pure (.export_ n)
  | .import_ => do let n ← readName tab "wrong import name"; noLabs labs; pure (.import_ n)
  | .forward => do let n ← readName tab "wrong forward name"; noLabs labs; pure (.forward_ n)
  | .nbss => do
    let nm ← optName tab true "wrong bss name"; noLabs labs
    let len ← readUint "wrong bss len"; pure (.bss nm len)
  | .bss => do
    noLabs labs
    let len ← readUint "wrong bss len"; pure (.bss none len)
  | .nref => do
    let nm ← optName tab true "wrong ref data name"; noLabs labs
    let it ← readName tab "wrong ref data item name"
    let d ← readInt "wrong ref disp"; pure (.ref nm it d)
  | .ref => do
    noLabs labs
    let it ← readName tab "wrong ref data item name"
    let d ← readInt "wrong ref disp"; pure (.ref none it d)
  | .nlref => do
    let nm ← optName tab true "wrong lref data name"; noLabs labs
    let l1 ← readInt "wrong lref label num"
    let l2 ← readInt "wrong 2nd lref label num"
    let d ← readInt "wrong lref disp"; pure (.lref nm l1 l2 d)
  | .lref => do
    noLabs labs
    let l1 ← readInt "wrong lref label num"
    let l2 ← readInt "wrong 2nd lref label num"
    let d ← readInt "wrong lref disp"; pure (.lref none l1 l2 d)
  | .nexpr => do
    let nm ← optName tab true "wrong expr name"; noLabs labs
    let fn ← readName tab "wrong expr func name"; pure (.expr nm fn)
  | .expr => do
    noLabs labs
    let fn ← readName tab "wrong expr func name"; pure (.expr none fn)
  | .ndata => do
    let nm ← optName tab true "wrong data name"; noLabs labs
    let t ← readToken
    match t with
    | .ty ty => do let els ← readDataEls cfg ty (bs.length + 1); pure (.data nm ty els)
    | _ => P.fail "wrong data type tag"
  | .data => do
    noLabs labs
    let t ← readToken
    match t with
    | .ty ty => do let els ← readDataEls cfg ty (bs.length + 1); pure (.data none ty els)
    | _ => P.fail "wrong data type tag"
  | .global => do
    noLabs labs
    let t ← readToken
    let vs ← readVars cfg tab true (bs.length + 1) t
    pure (.vars true vs)
  | .local_ => do
    noLabs labs
    let t ← readToken
    let vs ← readVars cfg tab false (bs.length + 1) t
    pure (.vars false vs) : P Stmt) bs

/-- one iteration of the main loop of `MIR_read_with_func`, syntax only -/
def readStmt (cfg : Cfg) (tab : List Str) : P Stmt := fun bs =>
  (do
    let (labs, t) ← readLabs (bs.length + 1)
    match t with
    | .name i _ => do
      let s ← P.lift (toStr tab i)
      match kwOf (cstr s) with
      | some k => readKwStmt cfg tab labs k
      | none => P.fail "unknown insn name"
    | .uint code =>
      if cfg.codeLimit ≤ code then P.fail "wrong insn code"
      else if cfg.unportable.contains code then
        P.fail "UNSPEC, USE, or PHI is not portable and can not be read"
      else do
        let ops ← if cfg.nopsOf code = 0 then readOpsVar tab (bs.length + 1)
                  else readOpsFixed tab (cfg.nopsOf code)
        pure (.insn labs code ops)
    | .eof => pure .eof          -- (labels before EOFILE are silently dropped by the C code too)
    | _ => P.fail "wrong token" : P Stmt) bs

/-! ## semantic actions: rebuilding the module tree -/

structure FuncAcc where
  name : Name
  vararg : Bool
  res : List Nat
  args : List Var
  locals : List (Nat × Name)
  globals : List (Nat × Name × Name)
  insnsRev : List Insn
deriving Repr

structure ModAcc where
  name : Name
  itemsRev : List Item
  /-- `item_tab` of the module: declared names, flag = the entry is a function -/
  decl : List (Name × Bool)
deriving Repr

structure RState where
  doneRev : List Module
  mod : Option ModAcc
  func : Option FuncAcc
deriving Repr

def RState.init : RState := { doneRev := [], mod := none, func := none }

def declared (decl : List (Name × Bool)) (n : Name) : Bool := decl.any (fun d => d.1 = n)
def declaredFunc (decl : List (Name × Bool)) (n : Name) : Bool := decl.any (fun d => d.1 = n && d.2)

/-- names an item enters into the module's item table -/
def itemDecl : Item → List (Name × Bool)
  | .import_ n => [(n, false)]
  | .export_ n => [(n, false)]
  | .forward_ n => [(n, false)]
  | .bss (some n) _ => [(n, false)]
  | .ref (some n) _ _ => [(n, false)]
  | .lref (some n) _ _ _ => [(n, false)]
  | .expr (some n) _ => [(n, false)]
  | .data (some n) _ _ => [(n, false)]
  | .proto n _ _ _ => [(n, false)]
  | .func f => [(f.name, true)]
  | _ => []

def opRefsOk (decl : List (Name × Bool)) : Op → Bool
  | .ref n => declared decl n
  | _ => true

def addItem (st : RState) (it : Item) : Except String RState :=
  match st.mod, st.func with
  | some m, none =>
    .ok { st with mod := some { m with itemsRev := it :: m.itemsRev, decl := itemDecl it ++ m.decl } }
  | none, _ => .error "item outside module"
  | some _, some _ => .error "item inside function (not produced by the writer)"

def applyStmt (cfg : Cfg) (st : RState) : Stmt → Except String RState
  | .modBegin n =>
    match st.mod with
    | some _ => .error "nested module"
    | none => .ok { st with mod := some { name := n, itemsRev := [], decl := [] } }
  | .modEnd =>
    match st.mod, st.func with
    | none, _ => .error "endmodule without module"
    | some _, some _ => .error "endmodule inside function (not produced by the writer)"
    | some m, none =>
      .ok { st with doneRev := { name := m.name, items := m.itemsRev.reverse } :: st.doneRev,
                    mod := none }
  | .import_ n => addItem st (.import_ n)
  | .export_ n => addItem st (.export_ n)
  | .forward_ n => addItem st (.forward_ n)
  | .bss nm len => addItem st (.bss nm len)
  | .ref nm it d =>
    match st.mod with
    | none => .error "item outside module"
    | some m =>
      if declared m.decl it then addItem st (.ref nm it d)
      else .error "ref data refers to non-existing item"
  | .lref nm l1 l2 d =>
    -- `lab2 = i < 0 ? NULL : to_lab (ctx, i)`
    addItem st (.lref nm l1 (if l2 < 2 ^ 63 ∧ ¬ (cfg.lrefZeroIsNone = true ∧ l2 = 0) then some l2 else none) d)
  | .expr nm fn =>
    match st.mod with
    | none => .error "item outside module"
    | some m =>
      if declaredFunc m.decl fn then addItem st (.expr nm fn)
      else .error "expr refers to non-function"
  | .data nm ty els => addItem st (.data nm ty els)
  | .proto n va res args => addItem st (.proto n va res args)
  | .funcBegin n va res args =>
    match st.func, st.mod with
    | some _, _ => .error "nested func"
    | none, none => .error "func outside module"
    | none, some m =>
      .ok { st with mod := some { m with decl := (n, true) :: m.decl },
                    func := some { name := n, vararg := va, res := res, args := args, locals := [],
                                   globals := [], insnsRev := [] } }
  | .vars global vs =>
    match st.func with
    | none => .error "local/global outside func"
    | some f =>
      if global then
        .ok { st with func := some { f with globals := f.globals ++ vs.map (fun v =>
                (v.1, v.2.1, match v.2.2 with | some h => h | none => [])) } }
      else
        .ok { st with func := some { f with locals := f.locals ++ vs.map (fun v => (v.1, v.2.1)) } }
  | .insn labs code ops =>
    match st.func, st.mod with
    | some f, some m =>
      if ops.all (opRefsOk m.decl) then
        let insns' := Insn.op code ops :: (labs.reverse.map Insn.label ++ f.insnsRev)
        .ok { st with func := some { f with insnsRev := insns' } }
      else .error "not found item"
    | _, _ => .error "insn outside function"
  | .funcEnd labs =>
    match st.func, st.mod with
    | some f, some m =>
      let fn : Func := { name := f.name, vararg := f.vararg, res := f.res, args := f.args,
                         locals := f.locals, globals := f.globals,
                         insns := (labs.reverse.map Insn.label ++ f.insnsRev).reverse }
      .ok { st with func := none, mod := some { m with itemsRev := .func fn :: m.itemsRev } }
    | _, _ => .error "endfunc without func"
  | .eof => .ok st

/-- after EOFILE -/
def finish (st : RState) : Except String (List Module) :=
  match st.func, st.mod with
  | some _, _ => .error "unfinished func"
  | none, some _ => .error "unfinished module"
  | none, none => .ok st.doneRev.reverse

/-- the `for (;;)` loop -/
def readLoop (cfg : Cfg) (tab : List Str) : Nat → RState → List Byte → Except String (List Module)
  | 0, _, _ => .error "out of fuel"
  | fuel + 1, st, bs =>
    match readStmt cfg tab bs with
    | .error e => .error e
    | .ok (.eof, _) => finish st
    | .ok (s, rest) =>
      match applyStmt cfg st s with
      | .error e => .error e
      | .ok st' => readLoop cfg tab fuel st' rest

/-- header: version, number of strings, strings -/
def readHeader (cfg : Cfg) : P (List Str) := do
  let v ← readUint "wrong header"
  if cfg.version < v then P.fail "can not read version"
  else do
    let n ← readUint "wrong header"
    readStrings n

/-- `MIR_read_with_func` on the raw stream -/
def readModules (cfg : Cfg) (bs : List Byte) : Except String (List Module) :=
  match readHeader cfg bs with
  | .error e => .error e
  | .ok (tab, rest) => readLoop cfg tab (rest.length + 1) RState.init rest

end BinIO
