import MirVerif.Model.CheckKnown
/-!
# C15 — the documented verdict of a whole construction (executable, used by the driver)

Same pipeline as `newInsnCheck` / `finishFuncCheck`, but every position is judged by the documented
classes of `Model/DocModes.lean` (never by `insn_descs`), the operand count by the documented
signature, a `ret` with the wrong count is `vararg_func`, every argument of `jcall` is judged
like an argument of `call`, and a call target given as a reference must be callable.
Opcodes MIR.md does not offer (`label`, `unspec`, `use`, `phi`, `invalid-insn`) have no documented
behaviour; for them the implementation model is used so that they never count as a disagreement.
The correspondence check compares the real checker with this function on every generated case:
a difference is a violation of the property (known findings are matched by signature).
-/
namespace MirVerif.Check
open MirVerif.Gen.C15

/-- class of a value of MIR type `t` (results, arguments); block types are passed as addresses -/
def docTyPosR (t : Ty) (out : Bool) : DocPos :=
  match tyClass t with
  | some c => .val c out
  | none => .anyVal

def docCallPosR (pr : Proto) (i : Nat) : DocPos :=
  if i == 1 then .val .int false
  else if i < pr.res.length + 2 then docTyPosR (pr.res.getD (i - 2) .i64) true
  else if i < pr.res.length + 2 + pr.args.length then
    docTyPosR ((pr.args.getD (i - 2 - pr.res.length) (.i64, 0)).1) false
  else .anyVal

def docNewInsn (descs : Descs) (protos : List Proto) (code : Nat) (ops : List Operand) : Verdict :=
  match docSig code with
  | some sig => if ops.length != sig.length then .err E_ops_num else .ok
  | none =>
    if code == C_SWITCH then (if ops.length < 2 then .err E_ops_num else .ok)
    else if code == C_RET then .ok
    else if isCall code then
      if ops.length < 2 then .err E_ops_num
      else match ops.head? with
        | some (.ref .proto k) =>
          (match protos[k]? with
           | none => .crash
           | some pr =>
             if !callCountOk pr ops.length then .err E_call_op
             else seqFrom (fun j op => if docBlkAgree pr j op then .ok else .err E_wrong_type) 0 (ops.drop 2))
        | _ => .err E_call_op
    else newInsnCheck descs protos code ops

def docFinishPos (asserts : Bool) (descs : Descs) (protos : List Proto) (fn : Func) (insn : Insn)
    (i : Nat) (o : OpS) : Verdict :=
  let code := insn.code
  match docCell code i o with
  | some v => v
  | none =>
    if code == C_SWITCH then docOperand (if i == 0 then .val .int false else .val .label false) false o
    else if code == C_RET then docOperand (docTyPosR (fn.res.getD i .i64) false) false o
    else if isCall code then
      match protoOf protos insn.ops with
      | none => .crash
      | some pr =>
        if i == 0 then .ok
        else if i == 1 && o.mode == OP_REF then
          (match o with
           | .ref k => if callableRef k then .ok else .err E_call_op
           | _ => .ok)
        else docOperand (docCallPosR pr i) true o
    else finishPos asserts descs protos fn insn i o

def docInsnLevel (fn : Func) (prevs : List Insn) (r j : Bool) (insn : Insn) : Verdict :=
  match insnLevel fn prevs r j insn with
  | .crash => .err E_vararg_func
  | v => v

def docFinishLoop (asserts : Bool) (descs : Descs) (protos : List Proto) (fn : Func) :
    List Insn → Bool → Bool → List Insn → Verdict
  | _, _, _, [] => .ok
  | prevs, r, j, insn :: rest =>
    let r' := r || insn.code == C_RET
    let j' := j || insn.code == C_JRET
    seq (seq (docInsnLevel fn prevs r' j' insn)
          (seqFrom (fun i op => docFinishPos asserts descs protos fn insn i op.s) 0 insn.ops))
      (docFinishLoop asserts descs protos fn (insn :: prevs) r' j' rest)

def docFinishFunc (asserts : Bool) (descs : Descs) (protos : List Proto) (fn : Func) (insns : List Insn) :
    Verdict :=
  docFinishLoop asserts descs protos fn [] false false insns

end MirVerif.Check
