/-!
# C18 — hand-maintained classification of the inventory entries that exist today

`knownFindings`: objects with static storage duration that library code WRITES (the property is false
for them today; each is listed in `/verif/known_findings.d/C18.json` under the signature
`C18:shared-write:<file>:<object>` and confirmed dynamically by a ThreadSanitizer report).
Ideally this list is empty.  Repaired objects are REMOVED from it (a fixed finding suppresses nothing):
`addr_offset8/16/32` (mir-interp.c), `patterns` (mir-gen-x86_64.c) and c2mir's `VOID_TYPE` were listed
here until the repairs 58f1a26e / e4233460 / 0f72b34c; a write to any of them is a VIOLATION again.

`reviewedEscapes`: exact write-site entries `(file, object, function, kind)` of kind `addr-escape`
whose pointer was followed by hand and is never written through; only *these sites* are accepted, any
other site on the same object is a violation again.  The dynamic harness stands guard over them
(a ThreadSanitizer report on such an object is a violation).
  * `default_alloc` / `default_code_alloc`: `_MIR_init` stores `&default_alloc` into `ctx->alloc`
    when the user passes no allocator; the library only calls through the function pointers and reads
    `user_data` (no `->` store to a `struct MIR_alloc` / `struct MIR_code_alloc` member exists).
  * `err_struct`: `static const node_t err_node = &err_struct;` is a sentinel compared by address
    (`r == err_node`) in the c2mir parser and never dereferenced.

The driver prints both lists (`mirdrv_c18 allowed`) so that `checks/c18.py` uses this single source.
-/
namespace MirVerif.Footprint

/-- `(file, object)` -/
def knownFindings : List (String × String) := [
  ("mir2c/mir2c.c", "curr_func"),
  ("mir2c/mir2c.c", "curr_temp")
]

/-- `(file, object, function, kind)` -/
def reviewedEscapes : List (String × String × String × String) := [
  ("mir-alloc-default.c", "default_alloc", "_MIR_init", "addr-escape:assigned"),
  ("mir-code-alloc-default.c", "default_code_alloc", "_MIR_init", "addr-escape:assigned"),
  ("c2mir/c2mir.c", "err_struct", "<file-scope>", "addr-escape:init")
]

/-- a write site of the regenerated inventory is accounted for -/
def siteAllowed (s : String × String × String × String) : Bool :=
  knownFindings.contains (s.1, s.2.1) || reviewedEscapes.contains s

/-- a site that is accepted without being a finding -/
def siteReviewed (s : String × String × String × String) : Bool := reviewedEscapes.contains s

end MirVerif.Footprint
