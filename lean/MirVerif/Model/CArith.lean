import MirVerif.Model.Sem
/-! # C07 — integer types of C on LP64 (x86-64 SysV), promotions, usual arithmetic conversions,
conversions of values, and the model of c2mir's compile-time folding.

* `promote`, `usualArith`, `cConv`, `cBin`, `cCmp` are written from C11 6.3.1.1, 6.3.1.8, 6.3.1.2/3,
  6.5.5-6.5.12 in terms of ranks and *mathematical* integers — the specification side.
* `castValue`, `foldBin`, `foldCmp`, `foldUn` transcribe `cast_value`, `check_assign_op`, the
  comparison/unary cases of `check` and the final `convert_value (e, e->type)` of c2mir.c — the
  implementation side (compile-time evaluation).
* `insnFor`/`cmpFor` is the MIR instruction C semantics calls for; the regenerated
  `get_mir_type_insn_code`/`get_compare_branch_code` are compared with it in Lemmas/BridgeC07.lean. -/
namespace MirVerif.CArith
open MirVerif

/-- the integer types c2mir distinguishes: the 12 standard ones and enumerated types, the latter
keyed by the basic type c2mir assigns to the enumeration (`enum_basic_type`: int, unsigned, long,
unsigned long on LP64) -/
inductive IType
  | bool | char | schar | uchar | short | ushort | int | uint | long | ulong | llong | ullong
  | enumI | enumU | enumL | enumUL
deriving DecidableEq, Repr

def IType.all : List IType :=
  [.bool, .char, .schar, .uchar, .short, .ushort, .int, .uint, .long, .ulong, .llong, .ullong,
   .enumI, .enumU, .enumL, .enumUL]

theorem IType.mem_all (t : IType) : t ∈ IType.all := by cases t <;> decide

/-- the standard type an enumerated type is compatible with (6.7.2.2p4; c2mir's choice) -/
def IType.std : IType → IType
  | .enumI => .int | .enumU => .uint | .enumL => .long | .enumUL => .ulong | t => t

/-- width in bits (LP64; `_Bool` occupies a byte and holds 0/1) -/
def IType.width (t : IType) : Nat :=
  match t.std with
  | .bool | .char | .schar | .uchar => 8
  | .short | .ushort => 16
  | .int | .uint => 32
  | _ => 64

/-- plain `char` is signed on x86-64 SysV -/
def IType.signed (t : IType) : Bool :=
  match t.std with
  | .char | .schar | .short | .int | .long | .llong => true
  | _ => false

/-- integer conversion rank, 6.3.1.1p1 -/
def IType.rank (t : IType) : Nat :=
  match t.std with
  | .bool => 0
  | .char | .schar | .uchar => 1
  | .short | .ushort => 2
  | .int | .uint => 3
  | .long | .ulong => 4
  | _ => 5

/-- the unsigned type corresponding to a signed standard type -/
def IType.toUnsigned : IType → IType
  | .int => .uint | .long => .ulong | .llong => .ullong | .short => .ushort
  | .schar | .char => .uchar | t => t

/-- `int` can represent all values of `t` -/
def IType.fitsInt (t : IType) : Bool := t.width < 32 || (t.width == 32 && t.signed)

/-- integer promotions, 6.3.1.1p2: a type of rank ≤ rank(int) becomes `int` if `int` can represent
all its values, otherwise `unsigned int`; all other types are unchanged -/
def promote (t : IType) : IType :=
  if t.rank ≤ IType.int.rank then (if t.fitsInt then .int else .uint) else t.std

/-- usual arithmetic conversions for integer operands, 6.3.1.8p1 -/
def usualArith (t1 t2 : IType) : IType :=
  let p1 := promote t1
  let p2 := promote t2
  if p1 = p2 then p1
  else if p1.signed = p2.signed then (if p1.rank < p2.rank then p2 else p1)
  else
    let u := if p1.signed then p2 else p1      -- the unsigned operand type
    let s := if p1.signed then p1 else p2      -- the signed operand type
    if s.rank ≤ u.rank then u
    else if u.width < s.width then s            -- s represents all values of u
    else s.toUnsigned

/-- same object representation: what the generated code depends on -/
def sameRepr (a b : IType) : Prop := a.width = b.width ∧ a.signed = b.signed
instance (a b) : Decidable (sameRepr a b) := by unfold sameRepr; infer_instance

/-! ## values -/

/-- C11 6.3.1.2/6.3.1.3: the 64-bit two's-complement image of the value `x` (of any integer type,
given as its sign- or zero-extended image) converted to type `t`: `_Bool` ← `x ≠ 0`; an unsigned
type ← the value modulo 2^width; a signed type ← the value reduced to `[-2^(w-1), 2^(w-1))`
(gcc's definition of the implementation-defined case). -/
def cConv (t : IType) (x : W64) : W64 :=
  if t = .bool then b2w (x != 0)
  else if t.signed then wrapI 64 (x.toInt.bmod (2 ^ t.width))
  else wrapN 64 (x.toNat % 2 ^ t.width)

/-- c2mir `cast_value` on integers: `to_e->c.i_val = (mir_T) from_e->c.{i,u}_val` with
`mir_bool = uint8_t` etc. — truncate to the width of `T`, then sign- or zero-extend. -/
def castValue (t : IType) (x : W64) : W64 :=
  match t.width, t.signed with
  | 8, true => (x.setWidth 8).signExtend 64
  | 8, false => (x.setWidth 8).setWidth 64
  | 16, true => (x.setWidth 16).signExtend 64
  | 16, false => (x.setWidth 16).setWidth 64
  | 32, true => (x.setWidth 32).signExtend 64
  | 32, false => (x.setWidth 32).setWidth 64
  | _, _ => x

/-- `x` is the canonical 64-bit image of a value of type `t` -/
def canonical (t : IType) (x : W64) : Prop := castValue t x = x

/-- the mathematical value of a canonical image -/
def valOf (t : IType) (x : W64) : Int := if t.signed then x.toInt else (x.toNat : Int)

/-- the C operator `o` on operands of the (promoted / converted) type `t`, on mathematical values;
`none` = undefined behaviour (division by zero, any signed result outside the type, shift count
out of range, left shift of a negative value or with a non-representable result).  `b` is the right
operand's value; for shifts it is the count (of its own promoted type). -/
def cBin (o : BinOp) (t : IType) (a b : Int) : Option Int :=
  let w := t.width
  let fit (r : Int) : Option Int :=
    if t.signed then (if -(2 ^ (w - 1)) ≤ r ∧ r < 2 ^ (w - 1) then some r else none)
    else some (r % 2 ^ w)
  match o with
  | .add => fit (a + b)
  | .sub => fit (a - b)
  | .mul => fit (a * b)
  | .div => if b = 0 then none else fit (a.tdiv b)
  | .mod => if b = 0 then none else (if t.signed ∧ a = -(2 ^ (w - 1)) ∧ b = -1 then none else fit (a.tmod b))
  | .and => some (valOf t (BitVec.ofInt 64 a &&& BitVec.ofInt 64 b))
  | .or => some (valOf t (BitVec.ofInt 64 a ||| BitVec.ofInt 64 b))
  | .xor => some (valOf t (BitVec.ofInt 64 a ^^^ BitVec.ofInt 64 b))
  | .lsh => if b < 0 ∨ b ≥ w then none
            else if t.signed then (if a < 0 then none else fit (a * 2 ^ b.toNat))
            else some (a * 2 ^ b.toNat % 2 ^ w)
  | .rsh => if b < 0 ∨ b ≥ w then none else some (a / 2 ^ b.toNat)

def cCmp (c : CmpOp) (a b : Int) : Bool :=
  match c with
  | .eq => a == b | .ne => a != b | .lt => a < b | .le => a ≤ b | .gt => a > b | .ge => a ≥ b

/-! ## c2mir's compile-time evaluation -/

/-- the host-compiler operation on `mir_llong` resp. `mir_ullong` (`e1->c.i_val op e2->c.i_val`
resp. `u_val`); `none` where c2mir reports "Division by zero" or the host operation itself is
undefined/traps (`LLONG_MIN / -1`, shift count ≥ 64) -/
def hostOp (sg : Bool) (o : BinOp) (a b : W64) : Option W64 := if sg then cS o a b else cU o a b

/-- `check_assign_op`: both operands are converted to the result type `t` (the shift count to its
own promoted type `rt`), the operation is carried out on 64-bit host integers, and `check` finally
normalises the result with `convert_value (e, e->type)` -/
def foldBin (o : BinOp) (t rt : IType) (a b : W64) : Option W64 :=
  (hostOp t.signed o (castValue t a) (castValue rt b)).map (castValue t)

/-- arithmetic / bitwise operators: `rt = t` -/
def foldConst (o : BinOp) (t : IType) (a b : W64) : Option W64 := foldBin o t t a b

/-- comparison of constants after the usual conversions to `t`; the result is an `int` -/
def foldCmp (c : CmpOp) (t : IType) (a b : W64) : W64 :=
  b2w (if t.signed then cCmpS c (castValue t a) (castValue t b) else cCmpU c (castValue t a) (castValue t b))

inductive UnOp | neg | bnot | plus
deriving DecidableEq, Repr

/-- unary `-`, `~`, `+` on the promoted type -/
def foldUn (o : UnOp) (t : IType) (a : W64) : W64 :=
  castValue t (match o with | .neg => -(castValue t a) | .bnot => ~~~(castValue t a) | .plus => castValue t a)

/-! ## the MIR instruction C semantics calls for -/

/-- operator `o` on operands of promoted type `t` -/
def insnFor (o : BinOp) (t : IType) : AOp × Bool :=
  (match o with
   | .add => .add | .sub => .sub | .mul => .mul
   | .div => if t.signed then .div else .udiv
   | .mod => if t.signed then .mod else .umod
   | .and => .and | .or => .or | .xor => .xor | .lsh => .lsh
   | .rsh => if t.signed then .rsh else .ursh,
   decide (t.width ≤ 32))

/-- comparison `c` on operands converted to `t` -/
def cmpFor (c : CmpOp) (t : IType) : AOp × Bool :=
  (match c with
   | .eq => .eq | .ne => .ne
   | .lt => if t.signed then .lt else .ult
   | .le => if t.signed then .le else .ule
   | .gt => if t.signed then .gt else .ugt
   | .ge => if t.signed then .ge else .uge,
   decide (t.width ≤ 32))

/-- run-time evaluation: the documented result of the selected instruction on the operand
registers, which hold the operands converted to `t` -/
def runtimeSem (i : AOp × Bool) (x y : W64) : Option W64 := docSem i.1 i.2 x y

end MirVerif.CArith
