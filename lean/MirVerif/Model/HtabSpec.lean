import MirVerif.Model.Htab
/-!
# The abstract map `HTAB` is supposed to implement (C19)

State: the list of stored elements in insertion order.  Elements are looked up with the user
equality `eq` (first match).  This is the "trivially correct reference": no hashing, no probing,
no tombstones, no growth.
-/
namespace MirVerif.Htab.Spec

open MirVerif.Htab

variable {α : Type}

/-- replace the first element satisfying `p` by `x` -/
def repl (p : α → Bool) (x : α) : List α → List α
  | [] => []
  | y :: ys => if p y then x :: ys else y :: repl p x ys

/-- one `HTAB_DO` on the abstract map -/
def doOp (eq : α → α → Bool) (l : List α) (x : α) (a : Action) : List α × Out α :=
  match l.find? (fun y => eq y x) with
  | some y =>
    match a with
    | .find => (l, ⟨true, some y, []⟩)
    | .insert => (l, ⟨true, some y, []⟩)
    | .replace => (repl (fun y => eq y x) x l, ⟨true, some x, [y]⟩)
    | .delete => (l.eraseP (fun y => eq y x), ⟨true, none, [y]⟩)
  | none =>
    match a with
    | .insert | .replace => (l ++ [x], ⟨false, some x, []⟩)
    | .find | .delete => (l, ⟨false, none, []⟩)

def step (eq : α → α → Bool) (l : List α) : Op α → List α × Obs α
  | .act a x => let r := doOp eq l x a; (r.1, ⟨r.2, r.1.length, r.1⟩)
  | .clear => ([], ⟨⟨false, none, l⟩, 0, []⟩)

def run (eq : α → α → Bool) (l : List α) : List (Op α) → List α × List (Obs α)
  | [] => (l, [])
  | o :: os =>
    let r := step eq l o
    let r' := run eq r.1 os
    (r'.1, r.2 :: r'.2)

end MirVerif.Htab.Spec
