/-!
# Executable model of `_MIR_duplicate_func_insns` / `_MIR_restore_func_insns` (C16)

Source: `/repo/mir.c` 2715-2812 (`store_labels_for_duplication`, `redirect_duplicated_labels`,
`_MIR_duplicate_func_insns`, `_MIR_restore_func_insns`), `new_func_reg`/`create_func_reg`
(mir.c:547-610,1480-1504), `new_temp_reg` (2396-2412), `find_rd_by_name` (1518-1535) and the
entry/exit protocol of `generate_func_code` (mir-gen.c:9277-9305, 9487-9503).

Representation
* An instruction pointer (`MIR_insn_t`) is an `Nat`; the C heap is `Heap = Nat → Option Insn`
  (`none` = not allocated / freed).  `malloc` is modelled by the counter `State.next`
  (ids are never reused; the C allocator may reuse a freed address, which is invisible as long as
  no dangling pointer is dereferenced — the edit language below never dereferences one).
* A `DLIST (MIR_insn_t)` is the `List Nat` of its members from head to tail.
* An instruction carries its classification `kind` (what the C code tests with
  `MIR_any_branch_code_p`, `== MIR_LABEL`, …; `kindOfName` is compared with the C predicates for
  every opcode on every run), its printed name, its operands and the `data` pointer.
  A label instruction has `nops = 0` in C but `ops[0]` holds its number and is copied by
  `MIR_copy_insn`; the model keeps that operand in `ops` (`nops` is printed as 0 by the driver).
* Register bookkeeping: `vars` (`func->vars`), `regDescs` (`func_regs->reg_descs`, index 0 reserved),
  and the two hash tables `name2rdn_tab` / `reg2rdn_tab` as the *set* of `rdn`s they contain, in
  insertion order; lookups compare through `regDescs` exactly as the C `eq` callbacks do.
-/
namespace MirVerif.DupRestore

-- instruction pointers are natural numbers (plain `Nat` so that `omega` sees them)

/-- classification used by `store_labels_for_duplication` / `redirect_duplicated_labels` -/
inductive Kind where
  | label    -- MIR_LABEL
  | jmpi     -- MIR_JMPI
  | switch   -- MIR_SWITCH
  | laddr    -- MIR_LADDR
  | branch   -- MIR_branch_code_p (JMP, BT.., BO..) or MIR_PRBEQ / MIR_PRBNE : label is operand 0
  | other
  deriving DecidableEq, Repr, Inhabited

/-- names of the opcodes for which `MIR_branch_code_p` holds, plus `prbeq`, `prbne` -/
def branchNames : List String :=
  ["jmp", "bt", "bts", "bf", "bfs", "beq", "beqs", "fbeq", "dbeq", "ldbeq", "bne", "bnes", "fbne",
   "dbne", "ldbne", "blt", "blts", "ublt", "ublts", "fblt", "dblt", "ldblt", "ble", "bles", "uble",
   "ubles", "fble", "dble", "ldble", "bgt", "bgts", "ubgt", "ubgts", "fbgt", "dbgt", "ldbgt", "bge",
   "bges", "ubge", "ubges", "fbge", "dbge", "ldbge", "bo", "bno", "ubo", "ubno", "prbeq", "prbne"]

/-- classification by opcode name (`insn_descs[code].name`) -/
def kindOfName (n : String) : Kind :=
  if n == "label" then .label
  else if n == "jmpi" then .jmpi
  else if n == "switch" then .switch
  else if n == "laddr" then .laddr
  else if branchNames.contains n then .branch
  else .other

/-- an operand, as far as duplicate/restore and printing care -/
inductive Op where
  | lab (l : Option Nat)                                  -- MIR_OP_LABEL, `u.label` (none = NULL)
  | reg (r : Nat)                                        -- MIR_OP_REG
  | mem (ty : String) (base index : Nat) (rest : String) -- MIR_OP_MEM
  | other (txt : String)                                 -- everything else, opaque text
  deriving DecidableEq, Repr, Inhabited

structure Insn where
  kind : Kind
  name : String
  ops : List Op
  data : Option Nat
  deriving DecidableEq, Repr, Inhabited

/-- the C heap restricted to instructions.  A structure (not a bare function type) so that the
compiled driver evaluates `h.set i v` once instead of re-running the producer on every lookup. -/
structure Heap where
  get : Nat → Option Insn

instance : CoeFun Heap (fun _ => Nat → Option Insn) := ⟨Heap.get⟩

def Heap.set (h : Heap) (i : Nat) (v : Option Insn) : Heap :=
  ⟨fun j => if j = i then v else h.get j⟩

structure Var where
  ty : String
  name : String
  deriving DecidableEq, Repr, Inhabited

/-- `reg_desc_t` -/
structure RegDesc where
  ty : String
  reg : Nat
  name : String
  hard : String        -- hard_reg_name or ""
  deriving DecidableEq, Repr, Inhabited

/-- `struct MIR_lref_data` (pointer fields only) -/
structure Lref where
  label : Option Nat
  label2 : Option Nat
  origLabel : Option Nat
  origLabel2 : Option Nat
  deriving DecidableEq, Repr, Inhabited

structure Func where
  insns : List Nat
  originalInsns : List Nat
  vars : List Var
  originalVarsNum : Nat
  nglobals : Nat                 -- VARR_LENGTH (func->global_vars) or 0
  regDescs : List RegDesc
  name2rdn : List Nat
  reg2rdn : List Nat
  lastTempNum : Nat
  lrefs : List Lref              -- the chain func->first_lref, ->next, …
  deriving Repr, Inhabited

structure State where
  heap : Heap
  next : Nat
  func : Func

/-! ## duplicate -/

/-- `MIR_any_branch_code_p (code) || code == MIR_LADDR || code == MIR_PRBEQ || code == MIR_PRBNE` -/
def branchLike : Kind → Bool
  | .label => false
  | .other => false
  | _ => true

/-- accumulator of the copy loop of `_MIR_duplicate_func_insns` -/
structure DupAcc where
  heap : Heap
  next : Nat
  newList : List Nat     -- func->insns being rebuilt (DLIST_APPEND)
  branches : List Nat    -- VARR branch_insns (push order)
  labels : List Nat      -- VARR labels (push order)

/-- one iteration: `new_insn = MIR_copy_insn (insn); DLIST_APPEND; store_labels_for_duplication` -/
def dupStep (a : DupAcc) (o : Nat) : DupAcc :=
  match a.heap o with
  | none => a   -- dangling list member: undefined in C, skipped by the model
  | some insn =>
    let n := a.next
    let h1 := a.heap.set n (some insn)          -- memcpy: `data` is copied too
    if branchLike insn.kind then
      { heap := h1, next := n + 1, newList := a.newList ++ [n], branches := a.branches ++ [n],
        labels := a.labels }
    else if insn.kind = .label then
      { heap := h1.set o (some { insn with data := some n }), next := n + 1,
        newList := a.newList ++ [n], branches := a.branches, labels := a.labels ++ [o] }
    else
      { heap := h1, next := n + 1, newList := a.newList ++ [n], branches := a.branches,
        labels := a.labels }

/-- `p->data` for an instruction pointer `p` (NULL / unallocated ↦ none) -/
def derefData (h : Heap) (p : Option Nat) : Option Nat :=
  match p with
  | none => none
  | some l => match h l with
    | none => none
    | some insn => insn.data

/-- label operand positions `[start_label_nop, bound_label_nop)` of redirect_duplicated_labels -/
def labelRange (k : Kind) (nops : Nat) : Nat × Nat :=
  match k with
  | .switch => (1, nops)        -- 1 + nops - 1
  | .laddr => (1, 2)
  | _ => (0, 1)

/-- `op.u.label = op.u.label->data` (only label operands are modelled as pointers) -/
def redirectOp (h : Heap) : Op → Op
  | .lab l => .lab (derefData h l)
  | o => o

/-- `insn->ops[n].u.label = insn->ops[n].u.label->data` for n in the label range -/
def redirectOpsFrom (h : Heap) (lo hi : Nat) : Nat → List Op → List Op
  | _, [] => []
  | n, op :: rest =>
    (if lo ≤ n ∧ n < hi then redirectOp h op else op) :: redirectOpsFrom h lo hi (n + 1) rest

def redirectInsn (h : Heap) (insn : Insn) : Insn :=
  if insn.kind = .jmpi then insn
  else
    let r := labelRange insn.kind insn.ops.length
    { insn with ops := redirectOpsFrom h r.1 r.2 0 insn.ops }

/-- one iteration of the first `while` of `redirect_duplicated_labels` -/
def redirectAt (h : Heap) (b : Nat) : Heap :=
  match h b with
  | none => h
  | some insn => h.set b (some (redirectInsn h insn))

/-- one iteration of the second `while`: `insn->data = NULL` -/
def resetDataAt (h : Heap) (l : Nat) : Heap :=
  match h l with
  | none => h
  | some insn => h.set l (some { insn with data := none })

/-- the lref loop of `_MIR_duplicate_func_insns` (mir.c:2772-2777) -/
def dupLref (h : Heap) (l : Lref) : Lref :=
  { origLabel := l.label, origLabel2 := l.label2, label := derefData h l.label,
    label2 := if l.label2.isSome then derefData h l.label2 else none }

/-- `_MIR_duplicate_func_insns` -/
def duplicate (s : State) : State :=
  let f := s.func
  let a := f.insns.foldl dupStep
    { heap := s.heap, next := s.next, newList := [], branches := [], labels := [] }
  let lrefs := f.lrefs.map (dupLref a.heap)
  let h2 := a.branches.reverse.foldl redirectAt a.heap     -- VARR_POP order
  let h3 := a.labels.reverse.foldl resetDataAt h2
  { heap := h3, next := a.next,
    func := { f with originalVarsNum := f.vars.length, originalInsns := f.insns,
                     insns := a.newList, lrefs := lrefs } }

/-! ## registers: `new_func_reg`, `_MIR_new_temp_reg`, `find_rd_by_name` -/

def rdNameAt (f : Func) (rdn : Nat) : Option String := (f.regDescs[rdn]?).map (·.name)
def rdRegAt (f : Func) (rdn : Nat) : Option Nat := (f.regDescs[rdn]?).map (·.reg)

/-- `find_rd_by_name`: HTAB_FIND in name2rdn_tab with a temporary descriptor of that name -/
def findByName (f : Func) (name : String) : Option Nat :=
  f.name2rdn.find? (fun r => rdNameAt f r == some name)

/-- `find_rd_by_reg` -/
def findByReg (f : Func) (reg : Nat) : Option Nat :=
  f.reg2rdn.find? (fun r => rdRegAt f r == some reg)

/-- what `MIR_reg (name)` / `MIR_reg_type` / `MIR_reg_hard_reg_name` can observe -/
def lookupName (f : Func) (name : String) : Option RegDesc :=
  (findByName f name).bind (fun r => f.regDescs[r]?)

/-- what `MIR_reg_name (reg)` / `MIR_reg_type (reg)` can observe -/
def lookupReg (f : Func) (reg : Nat) : Option RegDesc :=
  (findByReg f reg).bind (fun r => f.regDescs[r]?)

def tyOk (ty : String) : Bool := ty == "i64" || ty == "f" || ty == "d" || ty == "ld"

def allDigits (cs : List Char) : Bool := cs.all (fun c => '0' ≤ c && c ≤ '9')

/-- `_MIR_reserved_name_p` -/
def reservedName (n : String) : Bool :=
  n.startsWith ".lc" || (n.startsWith "hr" && allDigits (n.toList.drop 2))

/-- `new_func_reg` with `hard_reg_name == NULL` (incl. `create_func_reg`); an error return of the C
function (wrong type, reserved name, repeated declaration) leaves the function unchanged -/
def newFuncReg (f : Func) (ty name : String) : Func :=
  if !tyOk ty || reservedName name then f
  else if (findByName f name).isSome then f
  else
    let reg := f.vars.length + 1 + f.nglobals
    let rdn := f.regDescs.length
    let f1 := { f with regDescs := f.regDescs ++ [({ ty := ty, reg := reg, name := name, hard := "" } : RegDesc)] }
    let f2 := { f1 with name2rdn := f1.name2rdn ++ [rdn] }
    -- HTAB_INSERT into reg2rdn_tab does nothing when an equal key is present
    let f3 := if (findByReg f2 reg).isSome then f2 else { f2 with reg2rdn := f2.reg2rdn ++ [rdn] }
    { f3 with vars := f3.vars ++ [({ ty := ty, name := name } : Var)] }

def newTempRegAux (ty : String) : Nat → Func → Func
  | 0, f => f
  | fuel + 1, f =>
    let f1 := { f with lastTempNum := f.lastTempNum + 1 }
    let nm := "t" ++ toString f1.lastTempNum
    if (findByName f1 nm).isNone then newFuncReg f1 ty nm else newTempRegAux ty fuel f1

/-- `_MIR_new_temp_reg` (the `for (;;)` loop ends within `|name2rdn| + 1` rounds) -/
def newTempReg (f : Func) (ty : String) : Func :=
  if !tyOk ty then f else newTempRegAux ty (f.name2rdn.length + 1) f

/-! ## generator edits on the working copy -/

inductive Edit where
  | setInsn (id : Nat) (insn : Insn)   -- allocate or overwrite an instruction (ops, code, data)
  | free (id : Nat)                    -- MIR_free of an instruction
  | setList (l : List Nat)             -- any relinking of func->insns (insert / remove / move)
  | addReg (ty name : String)         -- MIR_new_func_reg
  | newTemp (ty : String)             -- _MIR_new_temp_reg
  | setLref (k : Nat) (label label2 : Option Nat)   -- rewrite lref->label / label2 of the k-th lref
  deriving Repr

/-- an edit is confined to the working copy: it writes only instructions allocated at or after
`mark` (= `next` at the time of duplicate) and links only such instructions into `func->insns` -/
def Edit.legal (mark : Nat) : Edit → Prop
  | .setInsn id _ => mark ≤ id
  | .free id => mark ≤ id
  | .setList l => ∀ i ∈ l, mark ≤ i
  | _ => True

instance (mark : Nat) (e : Edit) : Decidable (e.legal mark) := by
  cases e <;> simp only [Edit.legal] <;> infer_instance

def applyEdit (s : State) : Edit → State
  | .setInsn id insn => { s with heap := s.heap.set id (some insn), next := max s.next (id + 1) }
  | .free id => { s with heap := s.heap.set id none }
  | .setList l => { s with func := { s.func with insns := l } }
  | .addReg ty name => { s with func := newFuncReg s.func ty name }
  | .newTemp ty => { s with func := newTempReg s.func ty }
  | .setLref k a b =>
    { s with func := { s.func with
        lrefs := s.func.lrefs.modify k (fun l => { l with label := a, label2 := b }) } }

def mutateCopy (s : State) (es : List Edit) : State := es.foldl applyEdit s

/-! ## restore -/

/-- one iteration of the first `while` of `_MIR_restore_func_insns` -/
def popVar (f : Func) : Func :=
  match f.vars.getLast? with
  | none => f
  | some v =>
    let f1 := { f with vars := f.vars.dropLast }
    match findByName f1 v.name with
    | none => f1     -- `mir_assert (rd != NULL)`
    | some rdn =>
      { f1 with
        name2rdn := f1.name2rdn.eraseP (fun r => rdNameAt f1 r == rdNameAt f1 rdn),
        reg2rdn := f1.reg2rdn.eraseP (fun r => rdRegAt f1 r == rdRegAt f1 rdn) }

def popVars : Nat → Func → Func
  | 0, f => f
  | k + 1, f => popVars k (popVar f)

/-- `while (VARR_LENGTH (func->vars) > func->original_vars_num) …` -/
def restoreVars (f : Func) : Func := popVars (f.vars.length - f.originalVarsNum) f

def restoreLref (l : Lref) : Lref :=
  { label := l.origLabel, label2 := l.origLabel2, origLabel := none, origLabel2 := none }

/-- `_MIR_restore_func_insns` -/
def restore (s : State) : State :=
  let f1 := restoreVars s.func
  let h := f1.insns.foldl (fun h i => h.set i none) s.heap   -- MIR_remove_insn of every member
  { heap := h, next := s.next,
    func := { f1 with insns := f1.originalInsns, originalInsns := [],
                      lrefs := f1.lrefs.map restoreLref } }

/-! ## what `MIR_output_item` shows of a function -/

def labelNum (insn : Insn) : String :=
  match insn.ops with
  | [.other t] => t
  | _ => "?"

def regName (f : Func) (r : Nat) : String :=
  match lookupReg f r with
  | none => "?"
  | some d => d.name

def printLabelRef (h : Heap) (p : Option Nat) : String :=
  match p with
  | none => "L?"
  | some l => match h l with
    | none => "L?"
    | some insn => "L" ++ labelNum insn

def printOp (h : Heap) (f : Func) : Op → String
  | .lab l => printLabelRef h l
  | .reg r => regName f r
  | .mem ty b i rest => ty ++ ":(" ++ regName f b ++ "," ++ regName f i ++ ")" ++ rest
  | .other t => t

def printInsn (h : Heap) (f : Func) (insn : Insn) : String × List String :=
  if insn.kind = .label then ("L" ++ labelNum insn, [])
  else (insn.name, insn.ops.map (printOp h f))

def printVar (f : Func) (v : Var) : String × String × String :=
  (v.ty, v.name,
   match lookupName f v.name with     -- output_vars: MIR_reg + MIR_reg_hard_reg_name
   | none => "?"
   | some d => d.hard)

structure Printed where
  vars : List (String × String × String)
  insns : List (String × List String)
  lrefs : List (String × String)      -- what the `lref` data items of the function print
  deriving DecidableEq, Repr

def print (s : State) : Printed :=
  { vars := s.func.vars.map (printVar s.func),
    insns := s.func.insns.map (fun i =>
      match s.heap i with
      | none => ("?", [])
      | some insn => printInsn s.heap s.func insn),
    lrefs := s.func.lrefs.map (fun l =>
      (printLabelRef s.heap l.label, if l.label2.isSome then printLabelRef s.heap l.label2 else "")) }

/-! ## `generate_func_code` entry/exit protocol (mir-gen.c:9277-9305, 9474-9503) -/

structure Item where
  st : State
  addr : Nat                   -- item->addr: the thunk allocated by MIR_load_module
  machineCode : Option Nat     -- func->machine_code
  callAddr : Option Nat        -- func->call_addr
  thunkTarget : Option Nat     -- where the thunk at `addr` currently jumps
  published : Nat              -- number of `_MIR_publish_code` calls made for this function

/-- `MIR_gen (ctx, func_item)`: `edits` is whatever the optimizer does to the working copy,
`code` the address returned by `_MIR_publish_code`.  Returns the new state and the result. -/
def gen (it : Item) (edits : List Edit) (code : Nat) : Item × Nat :=
  match it.machineCode with
  | some _ => ({ it with thunkTarget := it.callAddr }, it.addr)
  | none =>
    let s3 := restore (mutateCopy (duplicate it.st) edits)
    ({ st := s3, addr := it.addr, machineCode := some code, callAddr := some code,
       thunkTarget := some code, published := it.published + 1 }, it.addr)

/-- a history of `MIR_gen` calls on the same function -/
def genMany (it : Item) : List (List Edit × Nat) → Item × List Nat
  | [] => (it, [])
  | (es, c) :: rest =>
    let r := gen it es c
    let r2 := genMany r.1 rest
    (r2.1, r.2 :: r2.2)

end MirVerif.DupRestore
