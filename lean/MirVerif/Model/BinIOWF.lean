import MirVerif.Model.BinIORead
/-!
# C11 — well-formedness of module syntax for the binary format (`WF`)

An explicit, decidable predicate.  Every conjunct is forced by the round-trip proof; the check
(`checks/c11.py`) runs the real code at the excluded points (unit and defect probes).

* value ranges of the C types (64-bit integers, 32-bit label and string numbers, `uint8_t` scale,
  names are C strings, `long double` is 80 bits);
* an instruction with a fixed operand count carries exactly that many operands;
* a function does not end with a label unless `cfg.endfuncLabels` (`endfunc should have no labels`
  in today's reader);
* items referred to by `ref` operands / `ref` / `expr` data are declared earlier in the module;
* and the three reader facts read off the source (`Cfg`): if `globalDoubleRead` the function has
  no `global` variables (#30), insn codes are below `codeLimit` (#31), data of type `p` only if
  `dataPtr` (#34).
-/
namespace BinIO

@[reducible] def NameOK (n : Name) : Prop := ∀ b : Nat, b ∈ n → b ≠ 0 ∧ b < 256
@[reducible] def StrOK (s : Str) : Prop := ∀ b : Nat, b ∈ s → b < 256

@[reducible] def MemOK (m : Mem) : Prop :=
  m.ty ≤ 17 ∧ m.disp < 2 ^ 64
  ∧ (∀ b : Name, m.base = some b → NameOK b)
  ∧ (∀ p : Name × Nat, m.index = some p → NameOK p.1 ∧ p.2 < 256)
  ∧ NameOK m.alias ∧ NameOK m.nonalias

@[reducible] def OpOK : Op → Prop
  | .reg n => NameOK n
  | .int v => v < 2 ^ 64
  | .uint v => v < 2 ^ 64
  | .flt v => v < 2 ^ 32
  | .dbl v => v < 2 ^ 64
  | .ldbl v => v < 2 ^ 80
  | .ref n => NameOK n
  | .str s => StrOK s
  | .label n => n < 2 ^ 32
  | .mem m => MemOK m

instance (o : Op) : Decidable (OpOK o) := by
  cases o <;> (unfold OpOK; infer_instance)

@[reducible] def InsnOK (cfg : Cfg) : Insn → Prop
  | .label n => n < 2 ^ 32
  | .op code ops =>
    code < 2 ^ 64 ∧ code < cfg.codeLimit ∧ cfg.unportable.contains code = false
    ∧ (cfg.nopsOf code ≠ 0 → ops.length = cfg.nopsOf code)
    ∧ ∀ o : Op, o ∈ ops → OpOK o

instance (cfg : Cfg) (i : Insn) : Decidable (InsnOK cfg i) := by
  cases i <;> (unfold InsnOK; infer_instance)

@[reducible] def VarOK (v : Var) : Prop :=
  v.ty ≤ 17 ∧ NameOK v.name ∧ v.size < 2 ^ 64 ∧ (isBlkTy v.ty = false → v.size = 0)

/-- labels still waiting for an instruction at the end of the list -/
def pendingLabs : List Nat → List Insn → List Nat
  | labs, [] => labs
  | labs, .label n :: r => pendingLabs (labs ++ [n]) r
  | _, .op _ _ :: r => pendingLabs [] r

@[reducible] def FuncOK (cfg : Cfg) (f : Func) : Prop :=
  NameOK f.name ∧ f.res.length < 2 ^ 64 ∧ (∀ t : Nat, t ∈ f.res → t ≤ 17)
  ∧ (∀ v : Var, v ∈ f.args → VarOK v)
  ∧ (∀ v : Nat × Name, v ∈ f.locals → v.1 ≤ 17 ∧ NameOK v.2)
  ∧ (∀ v : Nat × Name × Name, v ∈ f.globals → v.1 ≤ 17 ∧ NameOK v.2.1 ∧ NameOK v.2.2)
  ∧ (cfg.globalDoubleRead = true → f.globals = [])
  ∧ (∀ i : Insn, i ∈ f.insns → InsnOK cfg i)
  ∧ (cfg.endfuncLabels = false → pendingLabs [] f.insns = [])

@[reducible] def OptNameOK : Option Name → Prop
  | none => True
  | some n => NameOK n

instance (n : Option Name) : Decidable (OptNameOK n) := by
  cases n <;> (unfold OptNameOK; infer_instance)

@[reducible] def DataOK (cfg : Cfg) (ty : Nat) (els : List Nat) : Prop :=
  (ty ≤ 10 ∨ (ty = 11 ∧ cfg.dataPtr = true)) ∧ ∀ v : Nat, v ∈ els → v < 2 ^ tyBits ty

@[reducible] def ItemOK (cfg : Cfg) : Item → Prop
  | .import_ n => NameOK n
  | .export_ n => NameOK n
  | .forward_ n => NameOK n
  | .bss nm len => OptNameOK nm ∧ len < 2 ^ 64
  | .ref nm it d => OptNameOK nm ∧ NameOK it ∧ d < 2 ^ 64
  | .lref nm l1 l2 d => OptNameOK nm ∧ l1 < 2 ^ 64 ∧ (∀ l : Nat, l2 = some l → l < 2 ^ 63 ∧ (cfg.lrefZeroIsNone = true → l ≠ 0)) ∧ d < 2 ^ 64
  | .expr nm fn => OptNameOK nm ∧ NameOK fn
  | .data nm ty els => OptNameOK nm ∧ DataOK cfg ty els
  | .proto n _ res args =>
    NameOK n ∧ res.length < 2 ^ 64 ∧ (∀ t : Nat, t ∈ res → t ≤ 17) ∧ (∀ v : Var, v ∈ args → VarOK v)
  | .func f => FuncOK cfg f

instance (cfg : Cfg) (i : Item) : Decidable (ItemOK cfg i) := by
  cases i <;> (unfold ItemOK; infer_instance)

@[reducible] def ModuleOK (cfg : Cfg) (m : Module) : Prop :=
  NameOK m.name ∧ ∀ i : Item, i ∈ m.items → ItemOK cfg i

def insnRefsOK (decl : List (Name × Bool)) : Insn → Bool
  | .label _ => true
  | .op _ ops => ops.all (opRefsOk decl)

/-- items referred to must already be in the module's item table (`item_tab_find`) -/
def itemRefsOK (decl : List (Name × Bool)) : Item → Bool
  | .ref _ it _ => declared decl it
  | .expr _ fn => declaredFunc decl fn
  | .func f => f.insns.all (insnRefsOK ((f.name, true) :: decl))
  | _ => true

def declAfter (decl : List (Name × Bool)) (it : Item) : List (Name × Bool) := itemDecl it ++ decl

def itemsRefsOK : List (Name × Bool) → List Item → Bool
  | _, [] => true
  | decl, it :: r => itemRefsOK decl it && itemsRefsOK (declAfter decl it) r

/-- the complete hypothesis of the round-trip theorem -/
structure WF (cfg : Cfg) (ms : List Module) : Prop where
  version : cfg.version < 2 ^ 64
  modules : ∀ m : Module, m ∈ ms → ModuleOK cfg m
  refs : ∀ m : Module, m ∈ ms → itemsRefsOK [] m.items = true
  /-- string numbers fit in 4 bytes (`mir_assert (nb <= 4)` in `write_str_tag`) -/
  table : (strTable (toksModules cfg ms)).length ≤ 2 ^ 32
  /-- string lengths are `size_t` values -/
  strlen : ∀ s : Str, s ∈ strTable (toksModules cfg ms) → s.length < 2 ^ 64

instance (cfg : Cfg) (ms : List Module) : Decidable (WF cfg ms) :=
  decidable_of_iff (cfg.version < 2 ^ 64 ∧ (∀ m : Module, m ∈ ms → ModuleOK cfg m)
      ∧ (∀ m : Module, m ∈ ms → itemsRefsOK [] m.items = true)
      ∧ (strTable (toksModules cfg ms)).length ≤ 2 ^ 32
      ∧ (∀ s : Str, s ∈ strTable (toksModules cfg ms) → s.length < 2 ^ 64))
    ⟨fun ⟨a, b, c, d, e⟩ => ⟨a, b, c, d, e⟩, fun ⟨a, b, c, d, e⟩ => ⟨a, b, c, d, e⟩⟩

/-- the reader facts a correct reader would have: nothing of the vocabulary is excluded -/
def Cfg.sound (cfg : Cfg) : Prop :=
  cfg.globalDoubleRead = false ∧ cfg.dataPtr = true ∧ cfg.nops.length ≤ cfg.codeLimit
  ∧ cfg.endfuncLabels = true ∧ cfg.lrefZeroIsNone = false

end BinIO
