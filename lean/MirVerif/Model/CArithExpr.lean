import MirVerif.Model.CArith
import MirVerif.Model.CArithBf
/-! # C07 — evaluator of integer C expressions (`cEval`), written from C11 6.5/6.6 over mathematical
integers with the types of 6.3.1.1/6.3.1.8; `none` = undefined behaviour (or a value outside the
literal's type).  It is the independent third opinion next to gcc and c2mir: it shares no code
with either (`promote`, `usualArith`, `cBin`, `cCmp`, `convVal` are the specification side). -/
namespace MirVerif.CArith
open MirVerif

inductive CExpr
  | lit (t : IType) (v : Int)
  | cast (t : IType) (e : CExpr)
  | neg (e : CExpr) | bnot (e : CExpr) | plus (e : CExpr) | lnot (e : CExpr)
  | bin (o : BinOp) (e1 e2 : CExpr)
  | cmp (c : CmpOp) (e1 e2 : CExpr)
  | land (e1 e2 : CExpr) | lor (e1 e2 : CExpr)
  | cond (c e1 e2 : CExpr)
deriving Repr

def inRange (t : IType) (v : Int) : Bool :=
  if t.std = .bool then decide (v = 0 ∨ v = 1)
  else if t.signed then decide (-(2 ^ (t.width - 1)) ≤ v ∧ v < 2 ^ (t.width - 1))
  else decide (0 ≤ v ∧ v < 2 ^ t.width)

/-- conversion of a value to type `t`, C11 6.3.1.2/6.3.1.3 (signed targets: modulo, as gcc defines) -/
def convVal (t : IType) (v : Int) : Int :=
  if t.std = .bool then (if v = 0 then 0 else 1)
  else if t.signed then v.bmod (2 ^ t.width)
  else v % 2 ^ t.width

def cEval : CExpr → Option (IType × Int)
  | .lit t v => if inRange t v then some (t, v) else none
  | .cast t e => do
    let (_, v) ← cEval e
    pure (t, convVal t v)
  | .neg e => do
    let (t, v) ← cEval e
    let p := promote t
    let r ← cBin .sub p 0 (convVal p v)
    pure (p, r)
  | .bnot e => do
    let (t, v) ← cEval e
    let p := promote t
    let x := convVal p v
    pure (p, if p.signed then -x - 1 else 2 ^ p.width - 1 - x)
  | .plus e => do
    let (t, v) ← cEval e
    pure (promote t, convVal (promote t) v)
  | .lnot e => do
    let (_, v) ← cEval e
    pure (.int, if v = 0 then 1 else 0)
  | .bin o e1 e2 => do
    let (t1, v1) ← cEval e1
    let (t2, v2) ← cEval e2
    match o with
    | .lsh | .rsh =>
      let p := promote t1
      let r ← cBin o p (convVal p v1) (convVal (promote t2) v2)
      pure (p, r)
    | _ =>
      let t := usualArith t1 t2
      let r ← cBin o t (convVal t v1) (convVal t v2)
      pure (t, r)
  | .cmp c e1 e2 => do
    let (t1, v1) ← cEval e1
    let (t2, v2) ← cEval e2
    let t := usualArith t1 t2
    pure (.int, if cCmp c (convVal t v1) (convVal t v2) then 1 else 0)
  | .land e1 e2 => do
    let (_, v1) ← cEval e1
    let (_, v2) ← cEval e2
    pure (.int, if v1 ≠ 0 ∧ v2 ≠ 0 then 1 else 0)
  | .lor e1 e2 => do
    let (_, v1) ← cEval e1
    let (_, v2) ← cEval e2
    pure (.int, if v1 ≠ 0 ∨ v2 ≠ 0 then 1 else 0)
  | .cond c e1 e2 => do
    let (_, vc) ← cEval c
    let (t1, v1) ← cEval e1
    let (t2, v2) ← cEval e2
    let t := usualArith t1 t2
    pure (t, convVal t (if vc ≠ 0 then v1 else v2))

/-- c2mir `check`, N_COND with a constant condition (c2mir.c, `convert_value (e2|e3, &t); e->c = …`):
the selected arm is converted to the common type of the two arms (hand model; tied to the code by
the `conv`/`cexpr`/`fcexpr` units of the generated-program test) -/
def foldCond (t1 t2 : IType) (c a b : W64) : W64 :=
  castValue (usualArith t1 t2) (if c ≠ 0 then a else b)

end MirVerif.CArith
