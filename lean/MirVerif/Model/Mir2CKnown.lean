import MirVerif.Model.Mir2C
import MirVerif.Model.SemTable
/-!
# C20 — deviations of the current `mir2c/mir2c.c` from the documented meaning, listed as known findings

STATE: all four deviations were repaired in /repo (fdd8881f, 90e55793, 88b8ee8f, 363a5086); the list is
empty and Props/C20.lean states the full theorems.  The mechanism stays for future regressions: a new
deviation must be added here explicitly, which breaks `no_deviation`/`loop_is_fixed`/`expectedMissing_eq`
in Props/C20.lean and so makes the weakened statement visible.

`knownDeviations` is the ONE definition to edit when a finding gets fixed in /repo: delete the
constructor from the list.  Everything else follows from it:

* `expectedTmpl` (the row `Lemmas/BridgeC20.lean` requires the regenerated table to contain),
* `expectedAdvance` (the variable the data-section loop must advance with) and `loopFixed` (which
  variant of the loop `Model/Mir2CSection.lean` models),
* `expectedMissing` (opcodes without a `case` in `out_insn`),
* `expectedUnsignedFlagFromSigned`.

`Props/C20.lean` proves the full statements for every row *not* covered by the list and the negation
(with a concrete witness) for every row that is, so both a forgotten and a stale entry break the
proof gate (`Lemmas/BridgeC20.lean` compares with the table regenerated from the source).

Switching after `fixes/C20-uge.patch`: delete `.ugeEmitsGt`.  After `fixes/C20-section-loop.patch`:
delete `.sectionLoopStuck`.  After `fixes/C20-ubo-signed-flag.patch`: delete `.uboTestsSignedFlag`.
After `fixes/C20-switch-ldmov.patch`: delete `.missingOpcodes`.  The section-loop and the ubo patch also
change reviewed source texts: re-run `python3 translate/c20_tables.py --canon` (rewrites
Model/Mir2CPinned.lean from the patched tree) after reading the diff of that file.
-/
namespace MirVerif.Mir2C

inductive Deviation where
  /-- `case MIR_UGE: out_uop3 (ctx, f, ops, ">")` (design §6 #16) -/
  | ugeEmitsGt
  /-- the data-section loop of `out_item` advances with `DLIST_NEXT (MIR_item_t, item)` (#17) -/
  | sectionLoopStuck
  /-- opcodes `MIR_finish_func` accepts without a `case` in `out_insn` (#18) -/
  | missingOpcodes
  /-- `MIR_UBO`/`MIR_UBNO` test the one `__overflow` variable, which `MIR_ADDO/SUBO[S]` set from the
      *signed* `__builtin_*_overflow` -/
  | uboTestsSignedFlag
  deriving DecidableEq, Repr

/-- THE list.  After a fix in /repo delete the corresponding entry. -/
def knownDeviations : List Deviation :=
  []

def Deviation.signature : Deviation → String
  | .ugeEmitsGt => "C20:uge-emits-gt"
  | .sectionLoopStuck => "C20:section-loop-never-advances"
  | .missingOpcodes => "C20:opcode-without-template"
  | .uboTestsSignedFlag => "C20:ubo-tests-signed-overflow"

/-- rows of the integer table that deviate today -/
def deviates (a : AOp) (short : Bool) : Bool :=
  a == .uge && !short && knownDeviations.contains .ugeEmitsGt

/-- the row the regenerated table must contain for `(a, short)` -/
def expectedTmpl (a : AOp) (short : Bool) : Tmpl :=
  if deviates a short then ⟨.u64, .u64, .cmp .gt⟩ else canonTmpl a short

/-- does the modelled loop advance from the current item (fixed code) or from the first (today) -/
def loopFixed : Bool := !knownDeviations.contains .sectionLoopStuck

def expectedAdvance : String := if loopFixed then "curr_item" else "item"

/-- `MIR_UNSPEC` (a target-specific instruction with no portable C meaning) is accepted by
`MIR_finish_func` but lies outside C20's vocabulary; it is the one permanent exclusion of `coverage` -/
def outsideVocabulary : List String := ["UNSPEC"]

/-- opcodes without a `case` in `out_insn` (in the order of `MIR_insn_code_t`) -/
def expectedMissing : List String :=
  (if knownDeviations.contains .missingOpcodes then ["LDMOV", "SWITCH"] else []) ++ outsideVocabulary

/-- is the flag `UBO` tests after `ADDO/SUBO[S]` the signed one -/
def unsignedFlagFromSigned : Bool := knownDeviations.contains .uboTestsSignedFlag

/-- `ADD` … `UGES` ↦ `(a, short)` -/
def nameToOp (name : String) : Option (AOp × Bool) :=
  (AOp.all.flatMap fun a => [(a, false), (a, true)]).find? fun p => opName p.1 p.2 == name

def brNameToOp (name : String) : Option (AOp × Bool) :=
  (AOp.cmps.flatMap fun a => [(a, false), (a, true)]).find? fun p => brName p.1 p.2 == name

end MirVerif.Mir2C
