/-!
# Executable model of `mir-varr.h`

`buf` is the allocation (`varr->varr`, `size = buf.length` slots), `num` is `els_num`.
A slot is `none` when its content is indeterminate in C (never written since `malloc`/`realloc`,
or exposed by a growing `VARR_TAILOR`, which raises `els_num` over stale memory); the tie treats a
model `none` as "any value".  Operations return `none` where the header's `VARR_ASSERT` fails (with
`NDEBUG` such a call is undefined behaviour; the generators never issue it in that flavour).
Allocation failure (`mir_varr_error`) is outside the model.
-/
namespace MirVerif.Varr

structure Varr (α : Type) where
  buf : List (Option α)
  num : Nat
deriving Repr

variable {α : Type}

/-- `VARR_CREATE (T, v, alloc, size)` -/
def create (size : Nat) : Varr α :=
  { buf := List.replicate (if size = 0 then 64 else size) none, num := 0 }

/-- `VARR_LENGTH` -/
def length (v : Varr α) : Nat := v.num
/-- `VARR_CAPACITY` -/
def capacity (v : Varr α) : Nat := v.buf.length

/-- content of slot `i` (`none`: indeterminate or outside the allocation) -/
def slot (v : Varr α) (i : Nat) : Option α := (v.buf[i]?).join

/-- `VARR_EXPAND (T, v, size)`: `(new varr, returned int)` -/
def expand (v : Varr α) (size : Nat) : Varr α × Bool :=
  if v.buf.length < size then
    let size' := size + size / 2
    ({ v with buf := v.buf ++ List.replicate (size' - v.buf.length) none }, true)
  else (v, false)

/-- `VARR_LAST` -/
def last (v : Varr α) : Option (Option α) :=
  if v.num = 0 then none else some (slot v (v.num - 1))

/-- `VARR_GET` -/
def get (v : Varr α) (ix : Nat) : Option (Option α) :=
  if ix < v.num then some (slot v ix) else none

/-- `VARR_SET` -/
def set (v : Varr α) (ix : Nat) (x : α) : Option (Varr α) :=
  if ix < v.num then some { v with buf := v.buf.set ix (some x) } else none

/-- `VARR_TRUNC` -/
def trunc (v : Varr α) (size : Nat) : Option (Varr α) :=
  if v.num ≥ size then some { v with num := size } else none

/-- `VARR_TAILOR`: `realloc` to exactly `size` slots and `els_num = size`; slots at or beyond the old
`els_num` become indeterminate -/
def tailor (v : Varr α) (size : Nat) : Varr α :=
  let kept := v.buf.take (min v.num size)
  { buf := kept ++ List.replicate (size - kept.length) none, num := size }

/-- `VARR_PUSH` -/
def push (v : Varr α) (x : α) : Varr α :=
  let v1 := (expand v (v.num + 1)).1
  { buf := v1.buf.set v1.num (some x), num := v1.num + 1 }

/-- the store loop of `VARR_PUSH_ARR` -/
def storeAll : Varr α → List α → Varr α
  | v, [] => v
  | v, x :: xs => storeAll { buf := v.buf.set v.num (some x), num := v.num + 1 } xs

/-- `VARR_PUSH_ARR` -/
def pushArr (v : Varr α) (xs : List α) : Varr α :=
  storeAll (expand v (v.num + xs.length)).1 xs

/-- `VARR_POP` -/
def pop (v : Varr α) : Option (Varr α × Option α) :=
  if v.num = 0 then none else some ({ v with num := v.num - 1 }, slot v (v.num - 1))

/-! ## operation histories -/

inductive Op (α : Type) where
  | push (x : α) | pushArr (xs : List α) | pop | last | get (i : Nat) | set (i : Nat) (x : α)
  | trunc (n : Nat) | expand (n : Nat) | tailor (n : Nat) | length
deriving Repr

inductive Out (α : Type) where
  | unit | val (x : Option α) | nat (n : Nat)
deriving Repr, DecidableEq

/-- one call; `none` = rejected by a `VARR_ASSERT`.  (`VARR_EXPAND`'s return value depends on the
capacity, which is not part of the abstract sequence; it is reported by `expand` itself.) -/
def step (v : Varr α) : Op α → Option (Varr α × Out α)
  | .push x => some (push v x, .unit)
  | .pushArr xs => some (pushArr v xs, .unit)
  | .pop => (pop v).map fun r => (r.1, .val r.2)
  | .last => (last v).map fun r => (v, .val r)
  | .get i => (get v i).map fun r => (v, .val r)
  | .set i x => (set v i x).map fun r => (r, .unit)
  | .trunc n => (trunc v n).map fun r => (r, .unit)
  | .expand n => some ((expand v n).1, .unit)
  | .tailor n => some (tailor v n, .unit)
  | .length => some (v, .nat (length v))

def run : Varr α → List (Op α) → Option (Varr α × List (Out α))
  | v, [] => some (v, [])
  | v, op :: ops =>
    match step v op with
    | none => none
    | some (v', o) => (run v' ops).map fun r => (r.1, o :: r.2)

/-! ## the specification: plain lists of (possibly indeterminate) elements -/

abbrev Seq (α : Type) := List (Option α)

def specStep (l : Seq α) : Op α → Option (Seq α × Out α)
  | .push x => some (l ++ [some x], .unit)
  | .pushArr xs => some (l ++ xs.map some, .unit)
  | .pop => if l = [] then none else some (l.dropLast, .val (l.getLast?.join))
  | .last => if l = [] then none else some (l, .val (l.getLast?.join))
  | .get i => if i < l.length then some (l, .val (l[i]?.join)) else none
  | .set i x => if i < l.length then some (l.set i (some x), .unit) else none
  | .trunc n => if n ≤ l.length then some (l.take n, .unit) else none
  | .expand _ => some (l, .unit)
  | .tailor n => some (l.take n ++ List.replicate (n - l.length) none, .unit)
  | .length => some (l, .nat l.length)

def specRun : Seq α → List (Op α) → Option (Seq α × List (Out α))
  | l, [] => some (l, [])
  | l, op :: ops =>
    match specStep l op with
    | none => none
    | some (l', o) => (specRun l' ops).map fun r => (r.1, o :: r.2)

/-- abstraction: the live elements -/
def abs (v : Varr α) : Seq α := v.buf.take v.num

/-- representation invariant: `els_num <= size` -/
def WF (v : Varr α) : Prop := v.num ≤ v.buf.length

end MirVerif.Varr
