import MirVerif.Model.BinIORead
/-!
# C11 — label objects created by the binary reader (`to_lab`, `create_label`, `func_labels`)

In the C reader a label is a `MIR_insn_t` object; `func_labels` maps label numbers to objects and is
emptied at every `func`.  `to_lab (n)` returns the object recorded for `n`, creating and recording
a new one if there is none; `create_label` makes a new object that is recorded nowhere.
Objects are modelled by natural numbers handed out by a counter (their "address").
This file replays, over a module list as delivered by `readModules`, which object every label
occurrence receives: label insns and label operands go through `to_lab`; the labels of an `lref`
item go through `create_label` when `cfg.lrefOrphan` (today's code) and through `to_lab` otherwise.
-/
namespace BinIO

structure LabState where
  next : Nat
  tab : List (Nat × Nat)        -- label number ↦ object, newest first
deriving Repr

def toLab (s : LabState) (n : Nat) : Nat × LabState :=
  match s.tab.lookup n with
  | some o => (o, s)
  | none => (s.next, { next := s.next + 1, tab := (n, s.next) :: s.tab })

def createLabel (s : LabState) : Nat × LabState := (s.next, { s with next := s.next + 1 })

/-- one occurrence of a label: its number and the object it denotes -/
structure Occ where
  num : Nat
  obj : Nat
deriving Repr, DecidableEq

def labelNumsOfOps : List Op → List Nat
  | [] => []
  | .label n :: r => n :: labelNumsOfOps r
  | _ :: r => labelNumsOfOps r

/-- label numbers of a function in the order the reader resolves them -/
def labelNumsOfInsns : List Insn → List Nat
  | [] => []
  | .label n :: r => n :: labelNumsOfInsns r
  | .op _ ops :: r => labelNumsOfOps ops ++ labelNumsOfInsns r

def resolveNums : LabState → List Nat → List Occ × LabState
  | s, [] => ([], s)
  | s, n :: r =>
    let (o, s1) := toLab s n
    let (os, s2) := resolveNums s1 r
    ({ num := n, obj := o } :: os, s2)

/-- label insns of a function with their objects (the definitions) -/
def defNumsOfInsns : List Insn → List Nat
  | [] => []
  | .label n :: r => n :: defNumsOfInsns r
  | .op _ _ :: r => defNumsOfInsns r

structure FuncLabels where
  name : Name
  /-- every label occurrence (label insns and label operands) -/
  occs : List Occ
  /-- the label insns only -/
  defs : List Occ
deriving Repr

structure LrefLabels where
  occs : List Occ
deriving Repr

inductive ItemLabels
  | func (f : FuncLabels)
  | lref (l : LrefLabels)
deriving Repr

def resolveItems (cfg : Cfg) : LabState → List Item → List ItemLabels
  | _, [] => []
  | s, .func f :: r =>
    let s0 : LabState := { s with tab := [] }          -- VARR_TRUNC (func_labels, 0)
    let (occs, s1) := resolveNums s0 (labelNumsOfInsns f.insns)
    let defs := occs.filter (fun o => (defNumsOfInsns f.insns).contains o.num)
    .func { name := f.name, occs := occs, defs := defs } :: resolveItems cfg s1 r
  | s, .lref _ l1 l2 _ :: r =>
    let nums := l1 :: (match l2 with | some l => [l] | none => [])
    if cfg.lrefOrphan then
      let o1 := s.next
      let occs := match l2 with
        | some l => [{ num := l1, obj := o1 : Occ }, { num := l, obj := o1 + 1 }]
        | none => [{ num := l1, obj := o1 }]
      .lref { occs := occs } :: resolveItems cfg { s with next := s.next + nums.length } r
    else
      let (occs, s1) := resolveNums s nums
      .lref { occs := occs } :: resolveItems cfg s1 r
  | s, _ :: r => resolveItems cfg s r

end BinIO
