import MirVerif.Model.Sem
import MirVerif.Model.SemTable
/-! # What a MIR instruction does besides writing its result (specification, from MIR.md)

The optimizer may move an instruction to another program point (LICM) only when it is `pure`:
its result is a function of its register/immediate operands alone, it cannot raise an exception,
it writes no flag another instruction reads, and it does not transfer control.  It may delete an
instruction whose result is dead unless the instruction has an effect of class `call`, `stack`,
`va` or `control`; a `flag` instruction may be deleted only when no overflow branch can read its
flag.  (A `trap` instruction whose result is dead may be deleted: an execution that traps is not a
well-defined execution.) -/
namespace MirVerif.Effects

inductive Eff
  | pure      -- value computation only
  | trap      -- value computation that raises an exception for some operands (integer division)
  | flag      -- sets the overflow flags read by the following bo/bno/ubo/ubno
  | control   -- transfers control or marks a program point
  | call      -- calls a function
  | stack     -- changes the stack (alloca, block start/end)
  | va        -- reads or advances a va_list
  | special   -- outside the ordinary vocabulary: unspec, use, enum bounds, and the property pseudo insns
              -- (prset/prbeq/prbne are removed before any optimization of the ordinary generator: mir-gen.c
              -- `remove_property_insn`; only the lazy-bb generator interprets them)
deriving DecidableEq, Repr

def trapCodes : List String := ["DIV", "DIVS", "UDIV", "UDIVS", "MOD", "MODS", "UMOD", "UMODS"]
def flagCodes : List String := ["ADDO", "ADDOS", "SUBO", "SUBOS", "MULO", "MULOS", "UMULO", "UMULOS"]
def callCodes : List String := ["CALL", "INLINE", "JCALL"]
def stackCodes : List String := ["ALLOCA", "BSTART", "BEND"]
def vaCodes : List String := ["VA_ARG", "VA_BLOCK_ARG", "VA_START", "VA_END"]
def specialCodes : List String := ["UNSPEC", "PRSET", "PRBEQ", "PRBNE", "USE", "INVALID_INSN", "INSN_BOUND"]
def controlCodes : List String :=
  ["JMP", "BT", "BTS", "BF", "BFS",
   "BEQ", "BEQS", "FBEQ", "DBEQ", "LDBEQ", "BNE", "BNES", "FBNE", "DBNE", "LDBNE",
   "BLT", "BLTS", "UBLT", "UBLTS", "FBLT", "DBLT", "LDBLT", "BLE", "BLES", "UBLE", "UBLES", "FBLE", "DBLE", "LDBLE",
   "BGT", "BGTS", "UBGT", "UBGTS", "FBGT", "DBGT", "LDBGT", "BGE", "BGES", "UBGE", "UBGES", "FBGE", "DBGE", "LDBGE",
   "BO", "UBO", "BNO", "UBNO", "JMPI", "SWITCH", "RET", "JRET", "LABEL", "PHI"]

def effect (c : String) : Eff :=
  if c ∈ trapCodes then .trap else if c ∈ flagCodes then .flag else if c ∈ callCodes then .call
  else if c ∈ stackCodes then .stack else if c ∈ vaCodes then .va else if c ∈ controlCodes then .control
  else if c ∈ specialCodes then .special else .pure

/-- may an instruction with this effect be executed at a point where the original program does not execute
it (speculated / hoisted)? -/
def Eff.movable : Eff → Bool
  | .pure => true
  | _ => false

/-- may a dead instruction (result unused) with this effect be deleted? `flagLive`: an overflow branch can
still read the flag it sets -/
def Eff.deletable (flagLive : Bool) : Eff → Bool
  | .pure | .trap => true
  | .flag => !flagLive
  | _ => false

end MirVerif.Effects
