import MirVerif.Model.Simplify
/-! Opcode spellings (`MIR_<name>`) of the MirCore constructors, for the comparison with the tables
translate/c04_tables.py extracts from mir.c. -/
namespace MirVerif.Simplify
open MirVerif.MirCore

/-- `MIR_BT`, `MIR_BEQS`, `MIR_UBNO`, … -/
def brCodeName : SInsn → Option String
  | .bt s t _ _ => some ((if t then "BT" else "BF") ++ (if s then "S" else ""))
  | .bcmp a s _ _ _ => some (brName a s)
  | .bo u t _ => some ((if u then "U" else "") ++ (if t then "BO" else "BNO"))
  | _ => none

/-- `MIR_T_I8` … -/
def tyCodeName : Ty → String
  | .i8 => "T_I8" | .u8 => "T_U8" | .i16 => "T_I16" | .u16 => "T_U16" | .i32 => "T_I32" | .u32 => "T_U32"
  | .i64 => "T_I64" | .u64 => "T_U64" | .p => "T_P" | .blk _ => "T_BLK" | .rblk _ => "T_RBLK"

/-- rows of the shortcut table as the model has them: `(opcode, constant)` -/
def shortcutRowsModel (muloRow : Bool) : List (String × Int) :=
  ((AOp.all.filterMap fun a => (aopShortcut a).map fun c => [(opName a false, c), (opName a true, c)]).flatten)
    ++ (if muloRow then [("MULO", 1), ("MULOS", 1)] else [])

end MirVerif.Simplify
