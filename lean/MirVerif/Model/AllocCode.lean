/-
C17 — machine-code page management of mir.c (the "code holders", mir.c:4353-4507) as the sequence of
`MIR_mem_map` / `MIR_mem_protect` / `MIR_mem_unmap` requests and code-memory writes it performs.

  get_last_code_holder   16-byte alignment of `free`, fit test, otherwise map `(size+ps)/ps` pages
  _MIR_set_code          PROT_WRITE_EXEC, the memcpy's, PROT_READ_EXEC
  add_code               protects the whole holder, writes at the old `free`
  _MIR_change_code       start = addr / ps * ps,  len = addr + code_len - start
  _MIR_update_code_arr   start = base / ps * ps,  len = base + max_offset + sizeof (void*) - start
  code_finish            unmaps every holder

Addresses returned by `mem_map` are inputs of the model.  Holders are kept newest first (the C code
keeps them in a VARR and only ever looks at the last one).
-/
import MirVerif.Model.Alloc

namespace MirVerif.AllocCode
open MirVerif.Alloc

structure Holder where
  start : Nat
  free : Nat
  bound : Nat
  deriving DecidableEq, Repr, Inhabited

structure CodeCtx where
  ps : Nat
  holders : List Holder      -- newest first
  deriving DecidableEq, Repr, Inhabited

/-- `sizeof (void *)` -/
def ptrSize : Nat := 8

/-- `(free + 15) / 16 * 16` -/
def align16 (x : Nat) : Nat := (x + 15) / 16 * 16

/-- number of bytes one relocation of `_MIR_set_code` stores: `reloc_size`, except that
`reloc_size == 0` selects the pointer-sized form (`memcpy (…, &relocs[i].value, sizeof (void *))`).
`add_code` and `_MIR_change_code` pass their `code_len` as `reloc_size`, so a zero `code_len` would
store 8 bytes — all callers pass positive lengths, which the theorems assume explicitly. -/
def wlen (relocSize : Nat) : Nat := if relocSize = 0 then ptrSize else relocSize

/-- `_MIR_set_code` (mir.c:4398-4409): the request for write access, the writes, the request for
execute access -/
def setCode (protStart protLen : Nat) (writes : List (Nat × Nat)) : List Ev :=
  [.protect protStart protLen .writeExec] ++ writes.map (fun x => Ev.write x.1 x.2)
    ++ [.protect protStart protLen .readExec]

/-- protected range requested by `_MIR_change_code` (mir.c:4451-4452) -/
def changeRange (ps addr codeLen : Nat) : Nat × Nat :=
  let start := addr / ps * ps
  (start, addr + codeLen - start)

/-- `_MIR_change_code` -/
def changeCode (ps addr codeLen : Nat) : List Ev :=
  let r := changeRange ps addr codeLen
  setCode r.1 r.2 [(addr, wlen codeLen)]

def maxOffset (offs : List Nat) : Nat := offs.foldl (fun m o => if m < o then o else m) 0

/-- protected range requested by `_MIR_update_code_arr` (mir.c:4464-4467) -/
def updateRange (ps base : Nat) (offs : List Nat) : Nat × Nat :=
  let start := base / ps * ps
  (start, base + maxOffset offs + ptrSize - start)

/-- `_MIR_update_code_arr` / `_MIR_update_code`: one pointer-sized store per relocation -/
def updateCodeArr (ps base : Nat) (offs : List Nat) : List Ev :=
  let r := updateRange ps base offs
  setCode r.1 r.2 (offs.map (fun o => (base + o, ptrSize)))

/-- `get_last_code_holder (ctx, size)` (mir.c:4369-4389); `mapRet` is what `mem_map` returns if it
is called.  Result: new context (the holder to use is its head) and the events. -/
def getLastHolder (C : CodeCtx) (size mapRet : Nat) : CodeCtx × List Ev :=
  let fresh (rest : List Holder) : CodeCtx × List Ev :=
    let npages := (size + C.ps) / C.ps
    let len := C.ps * npages
    ({ C with holders := { start := mapRet, free := mapRet, bound := mapRet + len } :: rest },
     [.map len mapRet])
  match C.holders with
  | ch :: rest =>
      let ch' := { ch with free := align16 ch.free }
      if ch'.free + size ≤ ch'.bound then ({ C with holders := ch' :: rest }, [])
      else fresh (ch' :: rest)
  | [] => fresh []

/-- `add_code` on the newest holder (mir.c:4412-4424) -/
def addCode (C : CodeCtx) (codeLen : Nat) : CodeCtx × List Ev :=
  match C.holders with
  | ch :: rest =>
      ({ C with holders := { ch with free := ch.free + codeLen } :: rest },
       setCode ch.start (ch.bound - ch.start) [(ch.free, wlen codeLen)])
  | [] => (C, [])

inductive CodeOp where
  | publish (codeLen mapRet : Nat)               -- _MIR_publish_code
  | publishByAddr (addr codeLen mapRet : Nat)    -- _MIR_publish_code_by_addr
  | getNewAddr (size mapRet : Nat)               -- _MIR_get_new_code_addr
  | change (addr codeLen : Nat)                  -- _MIR_change_code
  | update (base : Nat) (offs : List Nat)        -- _MIR_update_code_arr / _MIR_update_code
  deriving DecidableEq, Repr, Inhabited

def codeStep (C : CodeCtx) : CodeOp → CodeCtx × List Ev
  | .publish codeLen mapRet =>
      let r := getLastHolder C codeLen mapRet
      let r2 := addCode r.1 codeLen
      (r2.1, r.2 ++ r2.2)
  | .publishByAddr addr codeLen mapRet =>
      let r := getLastHolder C 0 mapRet
      match r.1.holders with
      | ch :: _ =>
          if ch.free = addr ∧ ch.free + codeLen ≤ ch.bound then
            let r2 := addCode r.1 codeLen
            (r2.1, r.2 ++ r2.2)
          else r
      | [] => r
  | .getNewAddr size mapRet => getLastHolder C size mapRet
  | .change addr codeLen => (C, changeCode C.ps addr codeLen)
  | .update base offs => (C, updateCodeArr C.ps base offs)

/-- the address the operation returns to its caller (`res` / `ch_ptr->free`), 0 for NULL/void -/
def codeResult (C : CodeCtx) : CodeOp → Nat
  | .publish codeLen mapRet =>
      match (getLastHolder C codeLen mapRet).1.holders with
      | ch :: _ => ch.free
      | [] => 0
  | .publishByAddr addr codeLen mapRet =>
      match (getLastHolder C 0 mapRet).1.holders with
      | ch :: _ => if ch.free = addr ∧ ch.free + codeLen ≤ ch.bound then ch.free else 0
      | [] => 0
  | .getNewAddr size mapRet =>
      match (getLastHolder C size mapRet).1.holders with
      | ch :: _ => ch.free
      | [] => 0
  | _ => 0

/-- `code_finish` (mir.c:4499-4507): pop and unmap every holder -/
def codeFinish (C : CodeCtx) : List Ev :=
  C.holders.map (fun ch => Ev.unmap ch.start (ch.bound - ch.start))

def codeTrace (C : CodeCtx) : List CodeOp → List Ev
  | [] => []
  | o :: os => (codeStep C o).2 ++ codeTrace (codeStep C o).1 os

def codeFinal (C : CodeCtx) : List CodeOp → CodeCtx
  | [] => C
  | o :: os => codeFinal (codeStep C o).1 os

end MirVerif.AllocCode
