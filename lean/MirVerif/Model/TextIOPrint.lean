import MirVerif.Model.TextIOTok
import MirVerif.Model.TextIOFloat
/-!
# C10 — the textual writer: transcription of `MIR_output_op/_insn/_item/_module` (mir.c:2899-3185)

Every `lt*` function lists the pieces the C function `fprintf`s, in the same order, each piece tagged
with what the scanner is expected to make of it (`LT`): a *word* (name or number, needs a delimiter
after it), a self-delimiting literal (string), a punctuation character, a blank, or a `#` comment.
The bytes the writer emits are `flatten` of that list; `print* := flatten ∘ lt*`.  The expected token
stream `toks ∘ lt*` is only used by the proofs (`Lemmas/TextIOLexRT`): that the scanner really
produces it is a theorem, not an assumption.

The only deliberate difference to the C code: `ltItem` is *total* — for an `expr` item it prints the
line the C code starts and then a newline, whereas `MIR_output_item` (mir.c:3136-3140) has no
`return` there and runs on into the function printer with a wrongly typed union member (finding #3,
signature `C10:expr-item-output`).
-/
namespace TextIO

/-! directive spellings -/
def kwModule : Str := ['m', 'o', 'd', 'u', 'l', 'e']
def kwEndmodule : Str := ['e', 'n', 'd', 'm', 'o', 'd', 'u', 'l', 'e']
def kwProto : Str := ['p', 'r', 'o', 't', 'o']
def kwFunc : Str := ['f', 'u', 'n', 'c']
def kwEndfunc : Str := ['e', 'n', 'd', 'f', 'u', 'n', 'c']
def kwExport : Str := ['e', 'x', 'p', 'o', 'r', 't']
def kwImport : Str := ['i', 'm', 'p', 'o', 'r', 't']
def kwForward : Str := ['f', 'o', 'r', 'w', 'a', 'r', 'd']
def kwBss : Str := ['b', 's', 's']
def kwRef : Str := ['r', 'e', 'f']
def kwLref : Str := ['l', 'r', 'e', 'f']
def kwExpr : Str := ['e', 'x', 'p', 'r']
def kwString : Str := ['s', 't', 'r', 'i', 'n', 'g']
def kwLocal : Str := ['l', 'o', 'c', 'a', 'l']
def kwGlobal : Str := ['g', 'l', 'o', 'b', 'a', 'l']
def kwDots : Str := ['.', '.', '.']

/-! ## layout tokens -/

/-- one piece of writer output together with the token(s) the scanner must turn it into -/
inductive LT
  /-- a name or number: lexes to `t` provided a delimiter follows -/
  | word (cs : Str) (t : Tok)
  /-- a self-delimiting lexeme (string literal) -/
  | lit (cs : Str) (t : Tok)
  /-- punctuation character that is a token by itself -/
  | p (c : Char) (t : Tok)
  /-- blank or tab: no token -/
  | blank (c : Char)
  /-- `#`, the body, and the newline that ends the comment: one `nl` token -/
  | comment (body : Str)
  deriving DecidableEq, Repr

def LT.chars : LT → Str
  | .word cs _ => cs
  | .lit cs _ => cs
  | .p c _ => [c]
  | .blank c => [c]
  | .comment body => '#' :: body ++ ['\n']

def LT.toks : LT → List Tok
  | .word _ t => [t]
  | .lit _ t => [t]
  | .p _ t => [t]
  | .blank _ => []
  | .comment _ => [.nl]

/-- the bytes written -/
def flatten (l : List LT) : Str := l.flatMap LT.chars
/-- the tokens the scanner is expected to read -/
def toks (l : List LT) : List Tok := l.flatMap LT.toks

def tComma : LT := .p ',' .comma
def tColon : LT := .p ':' .col
def tLpar : LT := .p '(' .lpar
def tRpar : LT := .p ')' .rpar
def tNl : LT := .p '\n' .nl
def tTab : LT := .blank '\t'
def tSp : LT := .blank ' '
/-- `", "` -/
def tCommaSp : List LT := [tComma, tSp]

def ltName (n : Str) : LT := .word n (.name n)

/-- `isprint` in the C locale (for the `char` values that reach it; negative chars are not printable) -/
def isPrint (c : Char) : Bool := 32 ≤ c.toNat && c.toNat ≤ 126

/-- `"%" PRId64` -/
def printI64 (v : BitVec 64) : Str :=
  if v.toNat < 2 ^ 63 then natDec v.toNat else '-' :: natDec (2 ^ 64 - v.toNat)

/-- `"%" PRIu64` -/
def printU64 (v : BitVec 64) : Str := natDec v.toNat

def ltI64 (v : BitVec 64) : LT := .word (printI64 v) (.int v)
def ltU64 (v : BitVec 64) : LT := .word (printU64 v) (.int v)
/-- `%lu` / `%u` of a natural number below 2^64 -/
def ltNat (n : Nat) : LT := .word (natDec n) (.int (BitVec.ofNat 64 n))

def octDigit (n : Nat) : Char := Char.ofNat (48 + n % 8)

/-- one byte of `MIR_output_str` (mir.c:2923-2943) -/
def printStrChar (c : Char) : Str :=
  if c.toNat = 92 then ['\\', '\\']            -- backslash
  else if c.toNat = 34 then ['\\', '"']        -- double quote
  else if isPrint c then [c]
  else if c.toNat = 10 then ['\\', 'n']
  else if c.toNat = 9 then ['\\', 't']
  else if c.toNat = 11 then ['\\', 'v']
  else if c.toNat = 7 then ['\\', 'a']
  else if c.toNat = 8 then ['\\', 'b']
  else if c.toNat = 12 then ['\\', 'f']
  else ['\\', octDigit (c.toNat / 64), octDigit (c.toNat / 8), octDigit c.toNat]

/-- `MIR_output_str` -/
def printStr (s : Str) : Str := '"' :: (s.flatMap printStrChar) ++ ['"']

def nulChar : Char := Char.ofNat 0

/-- the NUL that `scan_string` forces at the end of a non-empty string (mir.c:6087-6088) -/
def forceNul (s : Str) : Str :=
  if s ≠ [] ∧ s.getLast? ≠ some nulChar then s ++ [nulChar] else s

/-- a string literal; the scanner reads it back with a NUL forced at the end -/
def ltStr (s : Str) : LT := .lit (printStr s) (.str (forceNul s))

/-- `type_str` (mir.c:941) -/
def typeStr : Ty → Str
  | .i8 => ['i', '8'] | .u8 => ['u', '8'] | .i16 => ['i', '1', '6'] | .u16 => ['u', '1', '6']
  | .i32 => ['i', '3', '2'] | .u32 => ['u', '3', '2'] | .i64 => ['i', '6', '4'] | .u64 => ['u', '6', '4']
  | .f => ['f'] | .d => ['d'] | .ld => ['l', 'd'] | .p => ['p']
  | .blk0 => ['b', 'l', 'k', '0'] | .blk1 => ['b', 'l', 'k', '1'] | .blk2 => ['b', 'l', 'k', '2']
  | .blk3 => ['b', 'l', 'k', '3'] | .blk4 => ['b', 'l', 'k', '4'] | .rblk => ['r', 'b', 'l', 'k']

def ltType (t : Ty) : LT := ltName (typeStr t)

/-- `%.*ef`, `%.*e`, `%.*LeL` of an immediate -/
def printFloatLit (f : FFmt) (bits : Nat) (suffix : Str) : Str :=
  (match fmtSci f bits with
   | some s => s
   | none => fmtSpecial f bits) ++ suffix

def printFlt (b : BitVec 32) : Str := printFloatLit fmtF b.toNat ['f']
def printDbl (b : BitVec 64) : Str := printFloatLit fmtD b.toNat []
def printLdbl (b : BitVec 80) : Str := printFloatLit fmtLD b.toNat ['L']

def ltFlt (b : BitVec 32) : LT := .word (printFlt b) (.flt b)
def ltDbl (b : BitVec 64) : LT := .word (printDbl b) (.dbl b)
def ltLdbl (b : BitVec 80) : LT := .word (printLdbl b) (.ldbl b)

def ltOptName : Option Str → List LT
  | some n => [ltName n]
  | none => []

/-- `MIR_OP_MEM` case of `MIR_output_op` (mir.c:2956-2984) -/
def ltMem (m : Mem) : List LT :=
  [ltType m.ty, tColon]
  ++ (if m.disp ≠ 0 ∨ (m.base = none ∧ m.index = none) then [ltI64 m.disp] else [])
  ++ (if m.base ≠ none ∨ m.index ≠ none then
        [tLpar] ++ ltOptName m.base
        ++ (match m.index with
            | some i => tCommaSp ++ [ltName i] ++ (if m.scale ≠ 1 then tCommaSp ++ [ltNat m.scale.toNat] else [])
            | none => [])
        ++ [tRpar]
      else [])
  ++ (if m.alias ≠ none ∨ m.nonalias ≠ none then
        [tColon] ++ ltOptName m.alias
        ++ (match m.nonalias with
            | some n => [tColon, ltName n]
            | none => [])
      else [])

def printLabel (l : Nat) : Str := 'L' :: natDec l
def ltLabel (l : Nat) : LT := ltName (printLabel l)

/-- `MIR_output_op` -/
def ltOp : Op → List LT
  | .reg n => [ltName n]
  | .int v => [ltI64 v]
  | .uint v => [ltU64 v]
  | .flt b => [ltFlt b]
  | .dbl b => [ltDbl b]
  | .ldbl b => [ltLdbl b]
  | .mem m => ltMem m
  | .ref n => [ltName n]
  | .str s => [ltStr s]
  | .label l => [ltLabel l]

/-- the pieces separated by `", "` -/
def ltCommaSep : List (List LT) → List LT
  | [] => []
  | [x] => x
  | x :: xs => x ++ tCommaSp ++ ltCommaSep xs

/-- operands of an instruction: `"\t"` before the first, `", "` before the others -/
def ltOps : List Op → List LT
  | [] => []
  | os => tTab :: ltCommaSep (os.map ltOp)

/-- `MIR_output_insn (…, newline_p = TRUE)` -/
def ltFItem : FItem → List LT
  | .label l => [ltLabel l, tColon, tNl]
  | .insn code ops => [tTab, ltName (insnName code)] ++ ltOps ops ++ [tNl]

def ltVar (v : Var) : List LT :=
  if v.ty.isBlk then [ltType v.ty, tColon, ltNat v.size, tLpar, ltName v.name, tRpar]
  else [ltType v.ty, tColon, ltName v.name]

/-- `output_func_proto` (mir.c:3020) without the final newline -/
def ltProtoBody (res : List Ty) (args : List Var) (vararg : Bool) : List LT :=
  ltCommaSep (res.map (fun t => [ltType t]) ++ args.map ltVar)
  ++ (if vararg then (if args.isEmpty ∧ res.isEmpty then [ltName kwDots] else tCommaSp ++ [ltName kwDots]) else [])

/-- groups of eight, as `output_vars` breaks lines (mir.c:3045-3057) -/
def chunk8 {α} : Nat → List α → List (List α)
  | _, [] => []
  | 0, l => [l]
  | fuel + 1, l => if l.length ≤ 8 then [l] else l.take 8 :: chunk8 fuel (l.drop 8)

def ltVarLines (kw : Str) (vars : List (List LT)) : List LT :=
  (chunk8 vars.length vars).flatMap fun line => [tTab, ltName kw, tTab] ++ ltCommaSep line ++ [tNl]

def ltLocal (v : Ty × Str) : List LT := [ltType v.1, tColon, ltName v.2]
def ltGlobal (v : Ty × Str × Str) : List LT := [ltType v.1, tColon, ltName v.2.1, tColon, ltName v.2.2]

def plural (n : Nat) : Str := if n = 1 then [] else ['s']

/-- body of the comment line `# <n> arg<s>, <n> local<s>, <n> global<s>` -/
def funcCommentBody (f : Func) : Str :=
  [' '] ++ natDec f.args.length ++ [' ', 'a', 'r', 'g'] ++ plural f.args.length ++ [',', ' ']
  ++ natDec f.locals.length ++ [' ', 'l', 'o', 'c', 'a', 'l'] ++ plural f.locals.length ++ [',', ' ']
  ++ natDec f.globals.length ++ [' ', 'g', 'l', 'o', 'b', 'a', 'l'] ++ plural f.globals.length

def ltFunc (f : Func) : List LT :=
  [ltName f.name, tColon, tTab, ltName kwFunc, tTab] ++ ltProtoBody f.res f.args f.vararg ++ [tNl]
  ++ ltVarLines kwLocal (f.locals.map ltLocal)
  ++ ltVarLines kwGlobal (f.globals.map ltGlobal)
  ++ [tNl, .comment (funcCommentBody f)]
  ++ f.body.flatMap ltFItem
  ++ [tTab, ltName kwEndfunc, tNl]

def ltNameColon : Option Str → List LT
  | some n => [ltName n, tColon]
  | none => []

/-- two's complement value of the low `w` bits of `v`, as a 64-bit integer -/
def sextBits (w : Nat) (v : Nat) : BitVec 64 :=
  let x := v % 2 ^ w
  if x < 2 ^ (w - 1) then BitVec.ofNat 64 x else BitVec.ofNat 64 (2 ^ 64 - (2 ^ w - x))

/-- `"%" PRId<w>` of the low `w` bits of a data element -/
def printSignedBits (w : Nat) (v : Nat) : Str :=
  let x := v % 2 ^ w
  if x < 2 ^ (w - 1) then natDec x else '-' :: natDec (2 ^ w - x)

def hexDigit (n : Nat) : Char := if n % 16 < 10 then Char.ofNat (48 + n % 16) else Char.ofNat (87 + n % 16)

def natHex (n : Nat) : List Char :=
  if h : n < 16 then [hexDigit n] else natHex (n / 16) ++ [hexDigit (n % 16)]
termination_by n
decreasing_by omega

/-- one element of `_MIR_output_data_item_els` (mir.c:3064-3081) -/
def ltDataEl (ty : Ty) (v : Nat) : LT :=
  match ty with
  | .i8 => .word (printSignedBits 8 v) (.int (sextBits 8 v))
  | .i16 => .word (printSignedBits 16 v) (.int (sextBits 16 v))
  | .i32 => .word (printSignedBits 32 v) (.int (sextBits 32 v))
  | .i64 => .word (printSignedBits 64 v) (.int (sextBits 64 v))
  | .u8 => ltNat (v % 2 ^ 8) | .u16 => ltNat (v % 2 ^ 16)
  | .u32 => ltNat (v % 2 ^ 32) | .u64 => ltNat (v % 2 ^ 64)
  | .f => ltFlt (BitVec.ofNat 32 v)
  | .d => ltDbl (BitVec.ofNat 64 v)
  | .ld => ltLdbl (BitVec.ofNat 80 v)
  | .p => .word ('0' :: 'x' :: natHex (v % 2 ^ 64)) (.int (BitVec.ofNat 64 v))
  | _ => .word [] .eof

/-- does `_MIR_output_data_item_els` append the `# "…"` comment? (mir.c:3084) -/
def hasDataComment (ty : Ty) (els : List Nat) : Bool :=
  ty = .u8 && (els.getLast?.map (· % 256)) == some 0

/-- end of a data line: the `# "…"` comment (which swallows the newline) or just the newline -/
def ltDataEnd (ty : Ty) (els : List Nat) : List LT :=
  if hasDataComment ty els then
    [tSp, .comment (' ' :: printStr (els.map fun v => Char.ofNat (v % 256)))]
  else [tNl]

/-- operands of an `lref` line (mir.c:3129-3132): `L<n>[, L<n>][, <disp>]` -/
def ltLrefOps (l1 : Nat) (l2 : Option Nat) (disp : BitVec 64) : List LT :=
  [ltLabel l1]
  ++ (match l2 with
      | some l => tCommaSp ++ [ltLabel l]
      | none => [])
  ++ (if disp ≠ 0 then tCommaSp ++ [ltI64 disp] else [])

/-- `MIR_output_item` -/
def ltItem : Item → List LT
  | .export n => [tTab, ltName kwExport, tTab, ltName n, tNl]
  | .import n => [tTab, ltName kwImport, tTab, ltName n, tNl]
  | .forward n => [tTab, ltName kwForward, tTab, ltName n, tNl]
  | .bss name len => ltNameColon name ++ [tTab, ltName kwBss, tTab, ltU64 len, tNl]
  | .ref name item disp =>
      ltNameColon name ++ [tTab, ltName kwRef, tTab, ltName item] ++ tCommaSp ++ [ltI64 disp, tNl]
  | .lref name l1 l2 disp => ltNameColon name ++ [tTab, ltName kwLref, tTab] ++ ltLrefOps l1 l2 disp ++ [tNl]
  | .expr name fn => ltNameColon name ++ [tTab, ltName kwExpr, tTab, ltName fn, tNl]
  | .data name ty els =>
      ltNameColon name ++ [tTab, ltType ty, tTab] ++ ltCommaSep (els.map fun v => [ltDataEl ty v])
      ++ ltDataEnd ty els
  | .proto name res args vararg =>
      [ltName name, tColon, tTab, ltName kwProto, tTab] ++ ltProtoBody res args vararg ++ [tNl]
  | .func f => ltFunc f

/-- `MIR_output_module` -/
def ltModule (m : Module) : List LT :=
  [ltName m.name, tColon, tTab, ltName kwModule, tNl] ++ m.items.flatMap ltItem ++ [tTab, ltName kwEndmodule, tNl]

/-- `MIR_output`: every module of the context in order -/
def ltText (ms : List Module) : List LT := ms.flatMap ltModule

/-! ## the bytes -/

def printOp (o : Op) : Str := flatten (ltOp o)
def printFItem (i : FItem) : Str := flatten (ltFItem i)
def printItem (i : Item) : Str := flatten (ltItem i)
def printModule (m : Module) : Str := flatten (ltModule m)
/-- the text `MIR_output` writes for a context holding the modules `ms` -/
def printText (ms : List Module) : Str := flatten (ltText ms)

end TextIO
