import MirVerif.Base.Bits
/-! # C07 — bit-field access and small block moves as c2mir emits them (little endian)

`bfInsert` transcribes the MIR sequence of `emit_scalar_assign` (c2mir.c) for a bit-field member at
bit offset `off` with `w` bits inside a storage unit that has been loaded into a 64-bit register;
`addBitField` transcribes `add_bit_field` (static initialisers, evaluated by the compiler);
`bfExtract` transcribes `force_val` (reading a bit-field).  `blockMove` is the byte loop of
`block_move` for aggregates of at most 5 bytes (larger ones call `memcpy`). -/
namespace MirVerif.CArith
open MirVerif

/-- `mask = 0xffffffffffffffff >> (64 - width)` -/
def bfMask (w : Nat) : W64 := BitVec.allOnes 64 >>> (64 - w)

/-- `emit_scalar_assign`:
```
mov t2, var ; and t2, t2, mask2          (mask2 = ~(mask << bit_offset))
signed:   lsh t1, val, 64-w ; rsh t1, t1, 64-w      unsigned: mov t1, val
and t3, t1, mask
lsh t4, t3, bit_offset   (omitted when bit_offset = 0)
or t4, t4, t2 ; mov var, t4
``` -/
def bfInsert (sg : Bool) (u v : W64) (off w : Nat) : W64 :=
  let mask2 := ~~~(bfMask w <<< off)
  let t2 := u &&& mask2
  let t1 := if sg then (v <<< (64 - w)).sshiftRight (64 - w) else v
  let t3 := t1 &&& bfMask w
  let t4 := if off = 0 then t3 else t3 <<< off
  t4 ||| t2

/-- `add_bit_field (&u, v, member)` -/
def addBitField (sg : Bool) (u v : W64) (off w : Nat) : W64 :=
  let u1 := u &&& ~~~(bfMask w <<< off)
  let v1 := if sg then (v <<< (64 - w)).sshiftRight (64 - w) else v
  let v2 := v1 &&& bfMask w
  u1 ||| (v2 <<< off)

/-- `force_val`: `mov t, mem ; lsh t, t, 64-off-w (if ≠ 0) ; rsh/ursh t, t, 64-w` -/
def bfExtract (sg : Bool) (x : W64) (off w : Nat) : W64 :=
  let sh := 64 - off - w
  let t := if sh ≠ 0 then x <<< sh else x
  if sg then t.sshiftRight (64 - w) else t >>> (64 - w)

/-- bit `i` of the value a `w`-bit field holds after `v` was assigned to it, as a 64-bit number
(C11 6.7.2.1p10 with 6.3.1.3: the low `w` bits of `v`, sign- or zero-extended) -/
def extBit (sg : Bool) (w : Nat) (v : W64) (i : Nat) : Bool :=
  if i < w then v.getLsbD i else (sg && v.getLsbD (w - 1))

/-! ## block move -/

abbrev Mem := Nat → BitVec 8
def Mem.set (m : Mem) (a : Nat) (b : BitVec 8) : Mem := fun x => if x = a then b else m x

/-- ```
mov index, size
L: sub index, index, 1 ; mov i8:(dst, index), i8:(src, index) ; bgt L, index, 0
```
`fuel` bounds the number of iterations (structural recursion). -/
def blockMoveLoop (dst src : Nat) : Nat → Nat → Mem → Mem
  | 0, _, m => m
  | fuel + 1, index, m =>
    let index' := index - 1
    let m' := m.set (dst + index') (m (src + index'))
    if index' > 0 then blockMoveLoop dst src fuel index' m' else m'

/-- `block_move` for `size ≤ 5`; nothing is emitted for `size = 0` -/
def blockMove (dst src size : Nat) (m : Mem) : Mem :=
  if size = 0 then m else blockMoveLoop dst src size size m

end MirVerif.CArith
