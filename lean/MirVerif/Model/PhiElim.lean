/-! # Out-of-SSA copies (`make_conventional_ssa`, mir-gen.c)

For a block with phis `r_i = φ(a_i1 … a_ik)` the generator appends, at the end of predecessor `j`,
the moves `r_i% := a_ij` (fresh `r_i%`), and then either
* **(A)** inserts `r_i := r_i%` after the phis of the block, or
* **(B)** renames `r_i` to `r_i%` inside the block (only when every use of `r_i` is in the block and —
  since fix ab5405cb — the block is not its own predecessor).
This file models sequential moves and the parallel phi assignment. -/
namespace MirVerif.PhiElim

abbrev Reg := Nat
abbrev St := Reg → Int

def upd (σ : St) (r : Reg) (v : Int) : St := fun x => if x = r then v else σ x

/-- sequential moves `dst := src`, in list order -/
def runMoves : List (Reg × Reg) → St → St
  | [], σ => σ
  | (d, s) :: ms, σ => runMoves ms (upd σ d (σ s))

/-- the parallel assignment a list of phis denotes: all sources are read in the old state -/
def parAssign (ms : List (Reg × Reg)) (σ : St) : St :=
  fun x => match ms.find? (fun m => m.1 = x) with
    | some m => σ m.2
    | none => σ x

/-- phis of one block seen from one predecessor: (result, fresh temp, argument for that predecessor) -/
structure Phi where
  res : Reg
  tmp : Reg
  arg : Reg
deriving DecidableEq, Repr

def predMoves (ps : List Phi) : List (Reg × Reg) := ps.map fun p => (p.tmp, p.arg)
def entryMoves (ps : List Phi) : List (Reg × Reg) := ps.map fun p => (p.res, p.tmp)
def phiMoves (ps : List Phi) : List (Reg × Reg) := ps.map fun p => (p.res, p.arg)

/-- the temps are fresh: pairwise distinct, and different from every result and every argument -/
def Fresh (ps : List Phi) : Prop :=
  (ps.map (·.tmp)).Nodup ∧ (∀ p ∈ ps, ∀ q ∈ ps, p.tmp ≠ q.res ∧ p.tmp ≠ q.arg)

/-- form (A): copies at the end of the predecessor followed by the moves after the phis -/
def lowerA (ps : List Phi) (σ : St) : St := runMoves (entryMoves ps) (runMoves (predMoves ps) σ)

end MirVerif.PhiElim

namespace MirVerif.PhiElim

/-- form (B): the phis in `ren` are renamed (`res` ↦ `tmp` everywhere in the block, also in the
arguments of the other phis); the moves at the end of the predecessor read the renamed arguments;
the remaining phis get their `res := tmp` move after the phis. -/
def rn (ren : List Phi) (x : Reg) : Reg :=
  match ren.find? (fun q => q.res = x) with
  | some q => q.tmp
  | none => x

def predMovesB (ren ps : List Phi) : List (Reg × Reg) := ps.map fun p => (p.tmp, rn ren p.arg)

/-- state seen by the block body under form (B): renamed results are read from their temps -/
def lowerB (ren ps : List Phi) (σ : St) : St :=
  runMoves (entryMoves (ps.filter fun p => !ren.contains p)) (runMoves (predMovesB ren ps) σ)

end MirVerif.PhiElim
