/-!
# Model of MIR's loader / linker state machine (property C13)

Hand-written executable model of `add_item`, `setup_global`, `MIR_load_module`, `MIR_load_external`,
`MIR_set_func_redef_permission`, `MIR_link` (`mir.c`) and of the two places that read an import
binding when code is produced (`mir-interp.c:generate_icode`, `mir-gen.c:get_ref_value`).
It is tied to the C code by `checks/c13.py` (same histories through `harness/c13_link.c` and
`mirdrv_c13`).

Abstractions (all stated as assumptions in the evidence):
* every `loadModule` builds a *fresh* module from a declaration list (reloading the same
  `MIR_module_t` twice is not modelled);
* a definition is identified by the id of the module that contains it (`Def.func id`,
  `Def.data id`), an external address by a number (`Def.ext a`);
* each import is used once by the module's entry function, in one of three ways (`Use`).
-/
namespace MirVerif.Link

abbrev Name := Nat

/-- how the entry function of a module uses an import -/
inductive Use
  | call   -- `call proto, <import>, r`           (immediate call; inlined by MIR_link if small MIR func)
  | ptr    -- `mov t, <import>; call proto, t, r`
  | ref    -- `mov t, <import>; mov r, i64:(t)`
  deriving DecidableEq, Repr

inductive Decl
  | exp (n : Name)
  | fwd (n : Name)
  | func (n : Name)
  | data (n : Name)   -- any named non-function item: data/bss/ref/expr, alone or head of a section
  | imp (n : Name) (u : Use)
  deriving DecidableEq, Repr

def Decl.name : Decl → Name
  | .exp n | .fwd n | .func n | .data n | .imp n _ => n

/-- what a global name can denote -/
inductive Def
  | func (id : Nat)   -- function item of module `id` (address = its thunk)
  | data (id : Nat)   -- data item of module `id`
  | ext (a : Nat)     -- address given to `MIR_load_external` (by the user or by the resolver)
  deriving DecidableEq, Repr

/-- the number observed when the definition is called / read -/
def Def.value : Def → Nat
  | .func id | .data id => id
  | .ext a => a

inductive Err
  | importExport        -- MIR_import_export_error
  | repeatedDecl        -- MIR_repeated_decl_error
  | undeclaredOpRef     -- MIR_undeclared_op_ref_error
  | undefinedInterface  -- a thunk still redirected to `undefined_interface` was called
  deriving DecidableEq, Repr

inductive Iface
  | interp | gen | lazy
  deriving DecidableEq, Repr

/-! ## Building a module: `add_item` (mir.c:997-1071) -/

/-- the entry of `module_item_tab` for (name, module) -/
inductive Ent
  | imp | exp | fwd
  | defn (isFunc exported : Bool)
  deriving DecidableEq, Repr

structure Build where
  tab : List (Name × Ent) := []
  /-- definitions in item-list order: (name, is it a function) -/
  defs : List (Name × Bool) := []
  /-- import items in item-list order -/
  imps : List (Name × Use) := []
  deriving Repr

def Build.setTab (b : Build) (n : Name) (e : Ent) : Build := { b with tab := (n, e) :: b.tab }

/-- one `MIR_new_export/forward/import/func/data` call, i.e. one `add_item` -/
def addItem (b : Build) (d : Decl) : Except Err Build :=
  match b.tab.lookup d.name, d with
  -- name not yet in the table: append and insert
  | none, .imp n u => .ok { (b.setTab n .imp) with imps := b.imps ++ [(n, u)] }
  | none, .exp n => .ok (b.setTab n .exp)
  | none, .fwd n => .ok (b.setTab n .fwd)
  | none, .func n => .ok { (b.setTab n (.defn true false)) with defs := b.defs ++ [(n, true)] }
  | none, .data n => .ok { (b.setTab n (.defn false false)) with defs := b.defs ++ [(n, false)] }
  -- case MIR_import_item
  | some .imp, .imp _ _ => .ok b
  | some .imp, _ => .error .importExport
  -- case MIR_export_item / MIR_forward_item
  | some .exp, .imp _ _ => .error .importExport
  | some .fwd, .imp _ _ => .error .importExport
  | some .exp, .func n => .ok { (b.setTab n (.defn true true)) with defs := b.defs ++ [(n, true)] }
  | some .exp, .data n => .ok { (b.setTab n (.defn false true)) with defs := b.defs ++ [(n, false)] }
  | some .fwd, .func n => .ok { (b.setTab n (.defn true false)) with defs := b.defs ++ [(n, true)] }
  | some .fwd, .data n => .ok { (b.setTab n (.defn false false)) with defs := b.defs ++ [(n, false)] }
  | some .exp, .exp _ => .ok b
  | some .fwd, .fwd _ => .ok b
  | some .exp, .fwd _ => .ok b                  -- forward appended, table keeps the export
  | some .fwd, .exp n => .ok (b.setTab n .exp)  -- replace forward by export
  -- case bss/data/func item
  | some (.defn f _), .exp n => .ok (b.setTab n (.defn f true))
  | some (.defn _ _), .fwd _ => .ok b
  | some (.defn _ _), .imp _ _ => .error .importExport
  | some (.defn _ _), .func _ => .error .repeatedDecl
  | some (.defn _ _), .data _ => .error .repeatedDecl

def buildFrom : Build → List Decl → Except Err Build
  | b, [] => .ok b
  | b, d :: ds => match addItem b d with
    | .ok b' => buildFrom b' ds
    | .error e => .error e

def build (ds : List Decl) : Except Err Build := buildFrom {} ds

/-- `item->export_p` of the definition of `n` when the module is finished -/
def Build.exported (b : Build) (n : Name) : Bool :=
  match b.tab.lookup n with
  | some (.defn _ true) => true
  | _ => false

/-! ## Context state -/

abbrev Env := List (Name × Def)

structure Mod where
  id : Nat
  imps : List (Name × Use)
  /-- `item->addr`/`item->ref_def` of the import items (empty until the first link) -/
  binds : List (Name × Def) := []
  /-- immediate calls already replaced by the body of function `id` (`process_inlines`) -/
  inl : List (Name × Nat) := []
  /-- interface installed by `MIR_link`; `none` while the module is in `modules_to_link` -/
  iface : Option Iface := none
  /-- `true` once the entry function has been translated (icode / machine code exists) -/
  coded : Bool := false
  deriving Repr, DecidableEq

def Mod.importNames (m : Mod) : List Name := m.imps.map (·.1)

structure State where
  /-- `.environment` module: global name ↦ latest definition -/
  env : Env := []
  /-- `modules_to_link` in push order -/
  queue : List Mod := []
  /-- modules popped from the queue (interface installed) -/
  done : List Mod := []
  redefOk : Bool := false
  err : Option Err := none
  deriving Repr

def init : State := {}

/-- `setup_global`: returns the new environment and `redef_p` -/
def setupGlobal (env : Env) (n : Name) (d : Def) : Env × Bool :=
  ((n, d) :: env, (env.lookup n).isSome)

/-- the global definition made by an exported item of module `id` -/
def mkDef (id : Nat) (isFunc : Bool) : Def := if isFunc then .func id else .data id

/-- the item loop of `MIR_load_module` restricted to what matters here: for every definition with
`export_p`, `setup_global` runs first, then the redefinition test (mir.c:1936-1950) -/
def loadDefs (id : Nat) (redefOk : Bool) (b : Build) : List (Name × Bool) → Env → Env × Option Err
  | [], env => (env, none)
  | (n, isFunc) :: rest, env =>
    if b.exported n then
      let g := setupGlobal env n (mkDef id isFunc)
      if g.2 && isFunc && !redefOk then (g.1, some .repeatedDecl)
      else loadDefs id redefOk b rest g.1
    else loadDefs id redefOk b rest env

def loadModule (s : State) (id : Nat) (ds : List Decl) : State :=
  match build ds with
  | .error e => { s with err := some e }
  | .ok b =>
    match loadDefs id s.redefOk b b.defs s.env with
    | (env', some e) => { s with env := env', err := some e }
    | (env', none) => { s with env := env', queue := s.queue ++ [{ id := id, imps := b.imps }] }

def loadExternal (s : State) (n : Name) (a : Nat) : State :=
  { s with env := (setupGlobal s.env n (.ext a)).1 }

abbrev Resolver := Name → Option Nat

/-- first loop of `MIR_link` for the import items of one module (mir.c:1995-2005) -/
def resolveImps (res : Resolver) : List (Name × Use) → Env → List (Name × Def) →
    Env × List (Name × Def) × Option Err
  | [], env, acc => (env, acc, none)
  | (n, _) :: rest, env, acc =>
    match env.lookup n with
    | some d => resolveImps res rest env (acc ++ [(n, d)])
    | none =>
      match res n with
      | none => (env, acc, some .undeclaredOpRef)
      | some a => resolveImps res rest ((n, .ext a) :: env) (acc ++ [(n, .ext a)])

/-- first loop of `MIR_link` over `modules_to_link` -/
def resolveQueue (res : Resolver) : List Mod → Env → Env × List Mod × Option Err
  | [], env => (env, [], none)
  | m :: ms, env =>
    match resolveImps res m.imps env [] with
    | (env', _, some e) => (env', m :: ms, some e)
    | (env', bs, none) =>
      match resolveQueue res ms env' with
      | (env'', ms', e) => (env'', { m with binds := bs } :: ms', e)

/-- `process_inlines` on the entry function: an immediate call whose import leads (through
`ref_def`) to a MIR function is replaced by that function's body, once and for all -/
def inlineMod (m : Mod) : Mod :=
  { m with inl := m.imps.foldl (fun acc (p : Name × Use) =>
      match p.2, acc.lookup p.1, m.binds.lookup p.1 with
      | .call, none, some (.func id) => acc ++ [(p.1, id)]
      | _, _, _ => acc) m.inl }

/-- third part of `MIR_link`: pop the queue and install the interface (generators translate the
function now or later, but always from the frozen `item->addr`) -/
def installIface (i : Iface) (m : Mod) : Mod :=
  { m with iface := some i, coded := (i != .interp) }

def link (s : State) (iface : Option Iface) (res : Resolver) : State :=
  match resolveQueue res s.queue s.env with
  | (env', q', some e) => { s with env := env', queue := q', err := some e }
  | (env', q', none) =>
    let q'' := q'.map inlineMod
    match iface with
    | none => { s with env := env', queue := q'' }
    | some i => { s with env := env', queue := [], done := s.done ++ q''.map (installIface i) }

/-- first execution of an interpreted function: `generate_icode` re-reads the address of every import
used as a `mov` operand from the environment item (`mir-interp.c:220-221`) and writes it back into
the import item -/
def codeMod (env : Env) (m : Mod) : Mod :=
  if m.coded then m
  else { m with coded := true,
                binds := m.binds.map (fun (p : Name × Def) =>
                  match m.imps.lookup p.1, env.lookup p.1 with
                  | some .call, _ => p
                  | _, some d => (p.1, d)
                  | _, none => p) }

def funcLinked (s : State) (id : Nat) : Bool := s.done.any (·.id == id)

/-- value produced by one import use of a translated module (`none`: the process dies — a thunk still
redirected to `undefined_interface`, or an external whose registered address is NULL) -/
def observeImp (s : State) (m : Mod) (p : Name × Use) : Option Nat :=
  match p.2, m.inl.lookup p.1, m.binds.lookup p.1 with
  | .call, some id, _ => some id
  | _, _, some (.ext 0) => none      -- external registered with address NULL: call/read through NULL
  | .ref, _, some d => some d.value
  | _, _, some (.func id) => if funcLinked s id then some id else none
  | _, _, some d => some d.value
  | _, _, none => none

def observeMod (s : State) (m : Mod) : List (Name × Option Nat) :=
  m.imps.map (fun p => (p.1, observeImp s m p))

/-- `call`: run the entry function of every module with an installed interface, in load order;
stops at the first call of an undefined interface -/
def callAll (s : State) : State :=
  let done' := s.done.map (codeMod s.env)
  let s' := { s with done := done' }
  if done'.all (fun m => (observeMod s' m).all (·.2.isSome)) then s'
  else { s' with err := some .undefinedInterface }

inductive Op
  | loadModule (id : Nat) (ds : List Decl)
  | loadExternal (n : Name) (a : Nat)
  | setRedef (b : Bool)
  | link (iface : Option Iface) (res : Resolver)
  | call

/-- an error after which the context is not used any more.  A failed `MIR_link`
(`MIR_undeclared_op_ref_error`, the error function longjmps out) is NOT fatal: the caller may
register the missing name and link again; `err` then only remembers that some call has failed. -/
def State.fatal (s : State) : Bool :=
  match s.err with
  | none => false
  | some .undeclaredOpRef => false
  | some _ => true

/-- one API call -/
def step (s : State) (op : Op) : State :=
  if s.fatal then s
  else match op with
    | .loadModule id ds => loadModule s id ds
    | .loadExternal n a => loadExternal s n a
    | .setRedef b => { s with redefOk := b }
    | .link i r => link s i r
    | .call => callAll s

def runFrom (s : State) (h : List Op) : State := h.foldl step s
def run (h : List Op) : State := runFrom init h

end MirVerif.Link
