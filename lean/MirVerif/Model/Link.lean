/-!
# Model of MIR's loader / linker state machine (property C13)

Hand-written executable model of `add_item`, `setup_global`, `MIR_load_module`, `MIR_load_external`,
`MIR_set_func_redef_permission`, `MIR_link` (`mir.c`) and of the two places that read an import
binding when code is produced (`mir-interp.c:generate_icode`, `mir-gen.c:get_ref_value`).
It is tied to the C code by `checks/c13.py` (same histories through `harness/c13_link.c` and
`mirdrv_c13`).

Abstractions (all stated as assumptions in the evidence):
* every `loadModule` builds a *fresh* module object from a declaration list; `reload k` is
  `MIR_load_module` again on the object of the k-th successful load;
* a definition is identified by the id of the module that contains it (`Def.func id`,
  `Def.data id`), an external address by a number (`Def.ext a`);
* each import is used once by the module's entry function, in one of three ways (`Use`).
-/
namespace MirVerif.Link

abbrev Name := Nat

/-- how the entry function of a module uses an import -/
inductive Use
  | call   -- `call proto, <import>, r`           (immediate call; inlined by MIR_link if small MIR func)
  | ptr    -- `mov t, <import>; call proto, t, r`
  | ref    -- `mov t, <import>; mov r, i64:(t)`
  deriving DecidableEq, Repr

inductive Decl
  | exp (n : Name)
  | fwd (n : Name)
  | func (n : Name)
  | data (n : Name)   -- any named non-function item: data/bss/ref/expr, alone or head of a section
  | imp (n : Name) (u : Use)
  deriving DecidableEq, Repr

def Decl.name : Decl → Name
  | .exp n | .fwd n | .func n | .data n | .imp n _ => n

/-- what a global name can denote -/
inductive Def
  | func (id : Nat)   -- function item of module `id` (address = its thunk)
  | data (id : Nat)   -- data item of module `id`
  | ext (a : Nat)     -- address given to `MIR_load_external` (by the user or by the resolver)
  deriving DecidableEq, Repr

/-- the number observed when the definition is called / read -/
def Def.value : Def → Nat
  | .func id | .data id => id
  | .ext a => a

inductive Err
  | importExport        -- MIR_import_export_error
  | repeatedDecl        -- MIR_repeated_decl_error
  | undeclaredOpRef     -- MIR_undeclared_op_ref_error
  | undefinedInterface  -- a thunk still redirected to `undefined_interface` was called
  deriving DecidableEq, Repr

inductive Iface
  | interp | gen | lazy
  deriving DecidableEq, Repr

/-! ## Building a module: `add_item` (mir.c:997-1071) -/

/-- the entry of `module_item_tab` for (name, module) -/
inductive Ent
  | imp | exp | fwd
  | defn (isFunc exported : Bool)
  deriving DecidableEq, Repr

structure Build where
  tab : List (Name × Ent) := []
  /-- definitions in item-list order: (name, is it a function) -/
  defs : List (Name × Bool) := []
  /-- import items in item-list order -/
  imps : List (Name × Use) := []
  deriving Repr

def Build.setTab (b : Build) (n : Name) (e : Ent) : Build := { b with tab := (n, e) :: b.tab }

/-- one `MIR_new_export/forward/import/func/data` call, i.e. one `add_item` -/
def addItem (b : Build) (d : Decl) : Except Err Build :=
  match b.tab.lookup d.name, d with
  -- name not yet in the table: append and insert
  | none, .imp n u => .ok { (b.setTab n .imp) with imps := b.imps ++ [(n, u)] }
  | none, .exp n => .ok (b.setTab n .exp)
  | none, .fwd n => .ok (b.setTab n .fwd)
  | none, .func n => .ok { (b.setTab n (.defn true false)) with defs := b.defs ++ [(n, true)] }
  | none, .data n => .ok { (b.setTab n (.defn false false)) with defs := b.defs ++ [(n, false)] }
  -- case MIR_import_item
  | some .imp, .imp _ _ => .ok b
  | some .imp, _ => .error .importExport
  -- case MIR_export_item / MIR_forward_item
  | some .exp, .imp _ _ => .error .importExport
  | some .fwd, .imp _ _ => .error .importExport
  | some .exp, .func n => .ok { (b.setTab n (.defn true true)) with defs := b.defs ++ [(n, true)] }
  | some .exp, .data n => .ok { (b.setTab n (.defn false true)) with defs := b.defs ++ [(n, false)] }
  | some .fwd, .func n => .ok { (b.setTab n (.defn true false)) with defs := b.defs ++ [(n, true)] }
  | some .fwd, .data n => .ok { (b.setTab n (.defn false false)) with defs := b.defs ++ [(n, false)] }
  | some .exp, .exp _ => .ok b
  | some .fwd, .fwd _ => .ok b
  | some .exp, .fwd _ => .ok b                  -- forward appended, table keeps the export
  | some .fwd, .exp n => .ok (b.setTab n .exp)  -- replace forward by export
  -- case bss/data/func item
  | some (.defn f _), .exp n => .ok (b.setTab n (.defn f true))
  | some (.defn _ _), .fwd _ => .ok b
  | some (.defn _ _), .imp _ _ => .error .importExport
  | some (.defn _ _), .func _ => .error .repeatedDecl
  | some (.defn _ _), .data _ => .error .repeatedDecl

def buildFrom : Build → List Decl → Except Err Build
  | b, [] => .ok b
  | b, d :: ds => match addItem b d with
    | .ok b' => buildFrom b' ds
    | .error e => .error e

def build (ds : List Decl) : Except Err Build := buildFrom {} ds

/-- `item->export_p` of the definition of `n` when the module is finished -/
def Build.exported (b : Build) (n : Name) : Bool :=
  match b.tab.lookup n with
  | some (.defn _ true) => true
  | _ => false

/-! ## Context state -/

abbrev Env := List (Name × Def)

structure Mod where
  id : Nat
  imps : List (Name × Use)
  /-- `item->addr`/`item->ref_def` of the import items (empty until the first link) -/
  binds : List (Name × Def) := []
  /-- immediate calls already replaced by the body of function `id` (`process_inlines`) -/
  inl : List (Name × Nat) := []
  /-- interface installed by `MIR_link`; `none` while the module is in `modules_to_link` -/
  iface : Option Iface := none
  /-- `true` once the entry function has been translated (icode / machine code exists) since the
  interface was installed -/
  coded : Bool := false
  /-- ordinal of the `MIR_load_module` call that created the module object (index into `State.loaded`) -/
  uid : Nat := 0
  /-- machine code of the entry function, once generated: the (bindings, inlined bodies) it was
  generated from.  `MIR_gen` never generates a function twice (mir-gen.c:9442), also not after the
  module has been loaded and linked again. -/
  mcode : Option (List (Name × Def) × List (Name × Nat)) := none
  deriving Repr, DecidableEq

def Mod.importNames (m : Mod) : List Name := m.imps.map (·.1)

structure State where
  /-- `.environment` module: global name ↦ latest definition -/
  env : Env := []
  /-- `modules_to_link` in push order -/
  queue : List Mod := []
  /-- modules popped from the queue (interface installed) -/
  done : List Mod := []
  redefOk : Bool := false
  err : Option Err := none
  /-- every module object built so far (id, text), in the order of the first `MIR_load_module` -/
  loaded : List (Nat × List Decl) := []
  deriving Repr

def init : State := {}

/-- `setup_global`: returns the new environment and `redef_p` -/
def setupGlobal (env : Env) (n : Name) (d : Def) : Env × Bool :=
  ((n, d) :: env, (env.lookup n).isSome)

/-- the global definition made by an exported item of module `id` -/
def mkDef (id : Nat) (isFunc : Bool) : Def := if isFunc then .func id else .data id

/-- the item loop of `MIR_load_module` restricted to what matters here: for every definition with
`export_p`, `setup_global` runs first, then the redefinition test (mir.c:1936-1950) -/
def loadDefs (id : Nat) (redefOk : Bool) (b : Build) : List (Name × Bool) → Env → Env × Option Err
  | [], env => (env, none)
  | (n, isFunc) :: rest, env =>
    if b.exported n then
      let g := setupGlobal env n (mkDef id isFunc)
      if g.2 && isFunc && !redefOk then (g.1, some .repeatedDecl)
      else loadDefs id redefOk b rest g.1
    else loadDefs id redefOk b rest env

def loadModule (s : State) (id : Nat) (ds : List Decl) : State :=
  match build ds with
  | .error e => { s with err := some e }
  | .ok b =>
    match loadDefs id s.redefOk b b.defs s.env with
    | (env', some e) => { s with env := env', err := some e }
    | (env', none) =>
      { s with env := env', queue := s.queue ++ [{ id := id, imps := b.imps, uid := s.loaded.length }],
               loaded := s.loaded ++ [(id, ds)] }

/-- `VARR_PUSH (modules_to_link, m)` for a module object that exists already: it waits for the next
link (again); if an interface was installed its thunks now lead to `undefined_interface` -/
def requeue (s : State) (k : Nat) (fresh : Mod) : State :=
  if s.queue.any (·.uid == k) then s
  else match s.done.find? (·.uid == k) with
    | some m => { s with queue := s.queue ++ [{ m with iface := none }],
                         done := s.done.filter (·.uid != k) }
    | none => { s with queue := s.queue ++ [fresh] }

/-- `MIR_load_module` on the `k`-th module object once more: the item loop is the same as for the
first load (sections keep their memory, functions keep their thunks, `setup_global` and the
redefinition test run again) -/
def reloadModule (s : State) (k : Nat) : State :=
  match s.loaded[k]? with
  | none => s
  | some (id, ds) =>
    match build ds with
    | .error e => { s with err := some e }
    | .ok b =>
      match loadDefs id s.redefOk b b.defs s.env with
      | (env', some e) => { s with env := env', err := some e }
      | (env', none) => requeue { s with env := env' } k { id := id, imps := b.imps, uid := k }

def loadExternal (s : State) (n : Name) (a : Nat) : State :=
  { s with env := (setupGlobal s.env n (.ext a)).1 }

abbrev Resolver := Name → Option Nat

/-- first loop of `MIR_link` for the import items of one module (mir.c:1995-2005) -/
def resolveImps (res : Resolver) : List (Name × Use) → Env → List (Name × Def) →
    Env × List (Name × Def) × Option Err
  | [], env, acc => (env, acc, none)
  | (n, _) :: rest, env, acc =>
    match env.lookup n with
    | some d => resolveImps res rest env (acc ++ [(n, d)])
    | none =>
      match res n with
      | none => (env, acc, some .undeclaredOpRef)
      | some a => resolveImps res rest ((n, .ext a) :: env) (acc ++ [(n, .ext a)])

/-- first loop of `MIR_link` over `modules_to_link` -/
def resolveQueue (res : Resolver) : List Mod → Env → Env × List Mod × Option Err
  | [], env => (env, [], none)
  | m :: ms, env =>
    match resolveImps res m.imps env [] with
    | (env', _, some e) => (env', m :: ms, some e)
    | (env', bs, none) =>
      match resolveQueue res ms env' with
      | (env'', ms', e) => (env'', { m with binds := bs } :: ms', e)

/-- `process_inlines` on the entry function: an immediate call whose import leads (through
`ref_def`) to a MIR function is replaced by that function's body, once and for all -/
def inlineMod (m : Mod) : Mod :=
  { m with inl := m.imps.foldl (fun acc (p : Name × Use) =>
      match p.2, acc.lookup p.1, m.binds.lookup p.1 with
      | .call, none, some (.func id) => acc ++ [(p.1, id)]
      | _, _, _ => acc) m.inl }

/-- third part of `MIR_link`: pop the queue and install the interface.  `MIR_set_gen_interface`
generates machine code now unless it exists; the lazy interface does so at the first call; the
interpreter drops its icode (`finish_func_interpretation`) and translates again at the first call -/
def installIface (i : Iface) (m : Mod) : Mod :=
  { m with iface := some i, coded := (i == .gen),
           mcode := if i == .gen then (m.mcode <|> some (m.binds, m.inl)) else m.mcode }

def link (s : State) (iface : Option Iface) (res : Resolver) : State :=
  match resolveQueue res s.queue s.env with
  | (env', q', some e) => { s with env := env', queue := q', err := some e }
  | (env', q', none) =>
    let q'' := q'.map inlineMod
    match iface with
    | none => { s with env := env', queue := q'' }
    | some i => { s with env := env', queue := [], done := s.done ++ q''.map (installIface i) }

/-- first execution of the entry function after its interface was installed.
Interpreter: `generate_icode` re-reads the address of every import used as a `mov` operand from the
environment item (`mir-interp.c:220-221`) and writes it back into the import item.
Lazy generator: machine code is generated from `item->addr` now, unless it exists already. -/
def codeMod (env : Env) (m : Mod) : Mod :=
  if m.coded then m
  else match m.iface with
    | some .interp =>
      { m with coded := true,
               binds := m.binds.map (fun (p : Name × Def) =>
                 match m.imps.lookup p.1, env.lookup p.1 with
                 | some .call, _ => p
                 | _, some d => (p.1, d)
                 | _, none => p) }
    | _ => { m with coded := true, mcode := m.mcode <|> some (m.binds, m.inl) }

/-- the (bindings, inlined bodies) the code that runs was made from: the interpreter follows the
import items, machine code stays what it was when it was generated -/
def Mod.running (m : Mod) : List (Name × Def) × List (Name × Nat) :=
  match m.iface, m.mcode with
  | some .interp, _ => (m.binds, m.inl)
  | some _, some mc => mc
  | _, _ => (m.binds, m.inl)

def funcLinked (s : State) (id : Nat) : Bool := s.done.any (·.id == id)

/-- value produced by one import use of a translated module (`none`: the process dies — a thunk still
redirected to `undefined_interface`, or an external whose registered address is NULL) -/
def observeImp (s : State) (m : Mod) (p : Name × Use) : Option Nat :=
  match p.2, m.running.2.lookup p.1, m.running.1.lookup p.1 with
  | .call, some id, _ => some id
  | _, _, some (.ext 0) => none      -- external registered with address NULL: call/read through NULL
  | .ref, _, some d => some d.value
  | _, _, some (.func id) => if funcLinked s id then some id else none
  | _, _, some d => some d.value
  | _, _, none => none

def observeMod (s : State) (m : Mod) : List (Name × Option Nat) :=
  m.imps.map (fun p => (p.1, observeImp s m p))

/-- `call`: run the entry function of every module with an installed interface, in load order;
stops at the first call of an undefined interface -/
def callAll (s : State) : State :=
  let done' := s.done.map (codeMod s.env)
  let s' := { s with done := done' }
  if done'.all (fun m => (observeMod s' m).all (·.2.isSome)) then s'
  else { s' with err := some .undefinedInterface }

inductive Op
  | loadModule (id : Nat) (ds : List Decl)
  | loadExternal (n : Name) (a : Nat)
  | setRedef (b : Bool)
  | link (iface : Option Iface) (res : Resolver)
  | call
  | reload (k : Nat)   -- `MIR_load_module` again on the module object of the k-th successful load

/-- an error after which the context is not used any more.  A failed `MIR_link`
(`MIR_undeclared_op_ref_error`, the error function longjmps out) is NOT fatal: the caller may
register the missing name and link again; `err` then only remembers that some call has failed. -/
def State.fatal (s : State) : Bool :=
  match s.err with
  | none => false
  | some .undeclaredOpRef => false
  | some _ => true

/-- one API call -/
def step (s : State) (op : Op) : State :=
  if s.fatal then s
  else match op with
    | .loadModule id ds => loadModule s id ds
    | .loadExternal n a => loadExternal s n a
    | .setRedef b => { s with redefOk := b }
    | .link i r => link s i r
    | .call => callAll s
    | .reload k => reloadModule s k

def runFrom (s : State) (h : List Op) : State := h.foldl step s
def run (h : List Op) : State := runFrom init h

end MirVerif.Link
