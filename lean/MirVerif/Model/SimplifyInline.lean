import MirVerif.Model.MirCore
/-! Pieces of `process_inlines` (mir.c) the theorems talk about: the spelling of renamed registers
and the code that replaces a call of a straight-line callee. -/
namespace MirVerif.Simplify
open MirVerif.MirCore

/-! ## `rename_regs`: `sprintf (buff, ".c%d_", func->n_inlines)` followed by the callee's name -/

def dch : Nat → Char
  | 0 => '0' | 1 => '1' | 2 => '2' | 3 => '3' | 4 => '4' | 5 => '5' | 6 => '6' | 7 => '7' | 8 => '8' | _ => '9'

/-- decimal digits, least significant first -/
def digitsRev (n : Nat) : List Char :=
  if h : n < 10 then [dch n] else dch (n % 10) :: digitsRev (n / 10)
decreasing_by omega

/-- `%d` -/
def digits (n : Nat) : List Char := (digitsRev n).reverse

/-- characters of the new register name for the callee register `name` in the `n`-th inlined call -/
def inlNameChars (n : Nat) (name : List Char) : List Char := ['.', 'c'] ++ digits n ++ '_' :: name

def inlName (n : Nat) (name : String) : String := String.ofList (inlNameChars n name.toList)

/-! ## the replacement of `call` for a callee whose simplified body is straight-line code -/
section
variable {ρ : Type}

def renOpd (ren : ρ → ρ) : Opd ρ → Opd ρ
  | .reg r => .reg (ren r)
  | .imm v => .imm v
  | .mem m => .mem { m with base := m.base.map ren, index := m.index.map ren }

/-- `change_inline_insn_regs` on the straight-line instructions -/
def renInsn (ren : ρ → ρ) : Insn ρ → Insn ρ
  | .bin a s d x y => .bin a s (renOpd ren d) (renOpd ren x) (renOpd ren y)
  | .mov d s => .mov (renOpd ren d) (renOpd ren s)
  | .ext k sg d s => .ext k sg (renOpd ren d) (renOpd ren s)
  | .neg sh d s => .neg sh (renOpd ren d) (renOpd ren s)
  | i => i

/-- instructions of a straight-line body: no label, branch, call, alloca, return, overflow flag -/
def Straight : Insn ρ → Bool
  | .bin .. | .mov .. | .ext .. | .neg .. => true
  | _ => false

/-- "Parameter passing": `mov <renamed parameter>, <argument>` in parameter order -/
def paramMoves (ren : ρ → ρ) : List ρ → List (Opd ρ) → List (Insn ρ)
  | p :: ps, a :: as => .mov (.reg (ren p)) a :: paramMoves ren ps as
  | _, _ => []

/-- the moves that replace `ret`: `mov <call result operand>, <renamed return register>` -/
def resultMoves (ren : ρ → ρ) : List (Opd ρ) → List ρ → List (Insn ρ)
  | d :: ds, r :: rs => .mov d (.reg (ren r)) :: resultMoves ren ds rs
  | _, _ => []

/-- what `process_inlines` puts in place of `call`: parameter moves, the renamed body, result moves -/
def inlinedCode (ren : ρ → ρ) (params : List ρ) (body : List (Insn ρ)) (rets : List ρ)
    (res args : List (Opd ρ)) : List (Insn ρ) :=
  paramMoves ren params args ++ body.map (renInsn ren) ++ resultMoves ren res rets
end

end MirVerif.Simplify
