/-
C17 — the allocator-event view of `mir-varr.h` (DEF_VARR): which `MIR_malloc` / `MIR_realloc` /
`MIR_free` calls every VARR operation makes, with which sizes.  Modelled line by line from
mir-varr.h:73-173 including the growth policy (`size += size / 2`), the default size 64 and the
`size_t` wrap-around of `sizeof (T) * size`.  Element *contents* are another builder's concern
(Model/Varr*.lean, C19); here only `els_num`, `size`, the two block addresses and `sizeof (T)` matter.

The addresses returned by the allocator are inputs of the model (`hdr`, `data`, `ret`): the
theorems quantify over every answer a correct allocator can give (non-NULL, not a live block;
`realloc` may also return the old address).
-/
import MirVerif.Model.Alloc

namespace MirVerif.VarrAlloc
open MirVerif.Alloc

/-- `size_t` arithmetic -/
def w (x : Nat) : Nat := x % 2 ^ 64

/-- `sizeof (VARR (T))` on LP64: `els_num`, `size`, `varr`, `alloc` -/
def hdrSize : Nat := 32

/-- `VARR_DEFAULT_SIZE` -/
def defaultSize : Nat := 64

structure Varr where
  esz : Nat      -- sizeof (T)
  hdr : Nat      -- address of the `VARR (T)` struct
  data : Nat     -- `va->varr`
  elsNum : Nat   -- `va->els_num`
  size : Nat     -- `va->size` (capacity in elements)
  deriving DecidableEq, Repr, Inhabited

/-- `VARR_CREATE (T, V, alloc, size)` (mir-varr.h:73-83) -/
def create (esz size hdr data : Nat) : Varr × List Ev :=
  let size := if size = 0 then defaultSize else size
  ({ esz := esz, hdr := hdr, data := data, elsNum := 0, size := size },
   [.malloc hdrSize hdr, .malloc (w (size * esz)) data])

/-- `VARR_DESTROY` (mir-varr.h:85-92) -/
def destroy (va : Varr) : List Ev := [.free va.data, .free va.hdr]

/-- `VARR_EXPAND (T, V, n)` (mir-varr.h:129-140); `ret` is what `MIR_realloc` returns -/
def doExpand (va : Varr) (n ret : Nat) : Varr × List Ev :=
  if va.size < n then
    let n' := w (n + n / 2)
    ({ va with data := ret, size := n' },
     [.realloc va.data (w (va.esz * va.size)) (w (va.esz * n')) ret])
  else (va, [])

/-- `VARR_TAILOR (T, V, n)` (mir-varr.h:142-149) -/
def doTailor (va : Varr) (n ret : Nat) : Varr × List Ev :=
  if va.size ≠ n then
    ({ va with data := ret, elsNum := n, size := n },
     [.realloc va.data (w (va.esz * va.size)) (w (va.esz * n)) ret])
  else ({ va with elsNum := n, size := n }, [])

inductive VOp where
  | expand (n ret : Nat)
  | tailor (n ret : Nat)
  | push (ret : Nat)               -- VARR_PUSH: expand (els_num + 1); els_num++
  | pushArr (len ret : Nat)        -- VARR_PUSH_ARR: expand (els_num + len); els_num += len
  | pop                            -- VARR_POP
  | trunc (n : Nat)                -- VARR_TRUNC
  deriving DecidableEq, Repr, Inhabited

def VOp.apply (va : Varr) : VOp → Varr × List Ev
  | .expand n ret => doExpand va n ret
  | .tailor n ret => doTailor va n ret
  | .push ret =>
      let r := doExpand va (w (va.elsNum + 1)) ret
      ({ r.1 with elsNum := w (va.elsNum + 1) }, r.2)
  | .pushArr len ret =>
      let r := doExpand va (w (va.elsNum + len)) ret
      ({ r.1 with elsNum := w (va.elsNum + len) }, r.2)
  | .pop => ({ va with elsNum := va.elsNum - 1 }, [])
  | .trunc n => ({ va with elsNum := n }, [])

/-- the `VARR_ASSERT` preconditions of the operations (checked builds abort otherwise) -/
def VOp.pre (va : Varr) : VOp → Prop
  | .pop => 0 < va.elsNum
  | .trunc n => n ≤ va.elsNum
  | _ => True

instance (va : Varr) (o : VOp) : Decidable (o.pre va) := by
  cases o <;> simp [VOp.pre] <;> infer_instance

/-- the address a (re)allocating operation receives from the allocator, if it has one -/
def VOp.ret? : VOp → Option Nat
  | .expand _ ret => some ret
  | .tailor _ ret => some ret
  | .push ret => some ret
  | .pushArr _ ret => some ret
  | _ => none

/-! ### a system of arrays sharing one allocator, interleaved with other allocator traffic -/

/-- handle ↦ array; association list, newest binding first, at most one binding per handle -/
abbrev Sys := List (Nat × Varr)

def Sys.set (S : Sys) (h : Nat) (va : Varr) : Sys := (h, va) :: S.filter (fun p => p.1 != h)
def Sys.del (S : Sys) (h : Nat) : Sys := S.filter (fun p => p.1 != h)

inductive SysOp where
  | create (h esz size hdr data : Nat)
  | op (h : Nat) (o : VOp)
  | destroy (h : Nat)
  | otherMalloc (size ret : Nat)     -- the rest of the library allocating …
  | otherFree (ptr : Nat)            -- … and freeing its own blocks
  deriving DecidableEq, Repr, Inhabited

/-- effect of one operation: new system and the allocator events it causes (operations on a missing
handle do nothing; validity is a separate predicate) -/
def sysStep (S : Sys) : SysOp → Sys × List Ev
  | .create h esz size hdr data =>
      let r := create esz size hdr data
      (S.set h r.1, r.2)
  | .op h o =>
      match S.lookup h with
      | some va => let r := o.apply va; (S.set h r.1, r.2)
      | none => (S, [])
  | .destroy h =>
      match S.lookup h with
      | some va => (S.del h, destroy va)
      | none => (S, [])
  | .otherMalloc size ret => (S, [.malloc size ret])
  | .otherFree ptr => (S, [.free ptr])

/-- all events of a history -/
def sysTrace (S : Sys) : List SysOp → List Ev
  | [] => []
  | o :: os => (sysStep S o).2 ++ sysTrace (sysStep S o).1 os

def sysFinal (S : Sys) : List SysOp → Sys
  | [] => S
  | o :: os => sysFinal (sysStep S o).1 os

end MirVerif.VarrAlloc
