import MirVerif.Model.TextIOLex
/-!
# C10 — statement syntax of `MIR_scan_string` (mir.c:6286-6589) over the token stream

`parseStmts` is the syntactic half of the big loop of `MIR_scan_string`: label prefix, head word,
operands.  Names that the C code resolves on the fly (register / item / label) stay raw
(`ROp.name`); `TextIOElab` resolves them in the same order.  The current token `t` of the C code is
the head of the token list; `[]` is `TC_EOFILE` for ever.
-/
namespace TextIO

def peek : List Tok → Tok
  | [] => .eof
  | t :: _ => t

def adv : List Tok → List Tok
  | [] => []
  | _ :: ts => ts

/-- `str2type` (mir.c:6248).  `blk` followed by digits: the value is accumulated while it is below
`MIR_BLK_NUM`, so `blk`, `blk0`, `blk00`, `blk04` are accepted. -/
def blkNum : List Char → Nat → Option Nat
  | [], n => if n < 5 then some n else none
  | c :: cs, n => if isDigit c && n < 5 then blkNum cs (n * 10 + (c.toNat - 48)) else none

def tyOfBlk : Nat → Option Ty
  | 0 => some .blk0 | 1 => some .blk1 | 2 => some .blk2 | 3 => some .blk3 | 4 => some .blk4
  | _ => none

def str2type (n : Str) : Option Ty :=
  if n = ['i', '6', '4'] then some .i64
  else if n = ['u', '6', '4'] then some .u64
  else if n = ['f'] then some .f
  else if n = ['d'] then some .d
  else if n = ['l', 'd'] then some .ld
  else if n = ['p'] then some .p
  else if n = ['i', '3', '2'] then some .i32
  else if n = ['u', '3', '2'] then some .u32
  else if n = ['i', '1', '6'] then some .i16
  else if n = ['u', '1', '6'] then some .u16
  else if n = ['i', '8'] then some .i8
  else if n = ['u', '8'] then some .u8
  else
    match n with
    | 'b' :: 'l' :: 'k' :: ds =>
      (match blkNum ds 0 with
       | some k => tyOfBlk k
       | none => none)
    | _ => if n = ['r', 'b', 'l', 'k'] then some .rblk else none

/-- position of `name` in `insn_descs` (`insn_name_tab` lookup) -/
def findInsnFrom : List (List Char × Nat) → Nat → Str → Option Nat
  | [], _, _ => none
  | (n, _) :: rest, i, name => if n = name then some i else findInsnFrom rest (i + 1) name

def findInsn (name : Str) : Option Nat := findInsnFrom insnTable 0 name

/-- head word of a statement after the checks of mir.c:6331-6402 -/
inductive Head
  | module | endmodule | proto | func | endfunc | export | import | forward
  | bss | ref | lref | expr | string | local | global
  | data (t : Ty)
  | insn (code : Nat)
  deriving DecidableEq, Repr, Inhabited

/-- raw operand -/
inductive ROp
  | name (n : Str)
  | int (v : BitVec 64)
  | flt (b : BitVec 32)
  | dbl (b : BitVec 64)
  | ldbl (b : BitVec 80)
  | str (s : Str)
  /-- bare type in `func`/`proto`/`local`/`global` -/
  | ty (t : Ty)
  /-- `type:name[:hardreg]` -/
  | var (t : Ty) (n : Str) (hard : Option Str)
  /-- `blk:size(name)` -/
  | blk (t : Ty) (size : Nat) (n : Str)
  /-- `type:disp(base, index, scale):alias:nonalias` -/
  | mem (m : Mem)
  deriving DecidableEq, Repr, Inhabited

structure Stmt where
  labels : List Str
  head : Head
  ops : List ROp
  dots : Bool
  deriving DecidableEq, Repr, Inhabited

def Head.isDecl : Head → Bool
  | .proto | .func | .local | .global => true
  | _ => false

def Head.isFuncProto : Head → Bool
  | .proto | .func => true
  | _ => false

def Head.isLocalGlobal : Head → Bool
  | .local | .global => true
  | _ => false

/-- classification of the head word with the label-count checks (mir.c:6331-6402); the test
`local/global outside func` needs the scanner state and is made by `TextIOElab.elabStmt` -/
def classifyHead (name : Str) (nlabels : Nat) : Except Err Head :=
  if name = kwModule then
    if nlabels ≠ 1 then .error (.syntax "only one label should be used for module") else .ok .module
  else if name = kwEndmodule then
    if nlabels ≠ 0 then .error (.syntax "endmodule should have no labels") else .ok .endmodule
  else if name = kwProto then
    if nlabels ≠ 1 then .error (.syntax "only one label should be used for proto") else .ok .proto
  else if name = kwFunc then
    if nlabels ≠ 1 then .error (.syntax "only one label should be used for func") else .ok .func
  else if name = kwEndfunc then .ok .endfunc      -- labels in front of it end the function body
  else if name = kwExport then
    if nlabels ≠ 0 then .error (.syntax "export should have no labels") else .ok .export
  else if name = kwImport then
    if nlabels ≠ 0 then .error (.syntax "import should have no labels") else .ok .import
  else if name = kwForward then
    if nlabels ≠ 0 then .error (.syntax "forward should have no labels") else .ok .forward
  else if name = kwBss then
    if nlabels > 1 then .error (.syntax "at most one label should be used for bss") else .ok .bss
  else if name = kwRef then
    if nlabels > 1 then .error (.syntax "at most one label should be used for ref") else .ok .ref
  else if name = kwLref then
    if nlabels > 1 then .error (.syntax "at most one label should be used for lref") else .ok .lref
  else if name = kwExpr then
    if nlabels > 1 then .error (.syntax "at most one label should be used for expr") else .ok .expr
  else if name = kwString then
    if nlabels > 1 then .error (.syntax "at most one label should be used for string") else .ok .string
  else if name = kwLocal ∨ name = kwGlobal then
    if nlabels ≠ 0 then .error (.syntax "local/global should have no labels")
    else .ok (if name = kwLocal then .local else .global)
  else
    match str2type name with
    | some t =>
      if nlabels > 1 then .error (.syntax "at most one label should be used for data") else .ok (.data t)
    | none =>
      match findInsn name with
      | none => .error (.syntax "Unknown insn")
      | some code =>
        if code = opUNSPEC ∨ code = opUSE ∨ code = opPHI then
          .error (.syntax "UNSPEC, USE, or PHI is not portable and can not be scanned")
        else .ok (.insn code)

def okVarType (t : Ty) : Bool := t = .i64 || t = .f || t = .d || t = .ld

/-- the alias suffix `[':' [name] [':' name]]` of a memory operand (mir.c:6527-6553) -/
def parseAliases : List Tok → Except Err (Option Str × Option Str × List Tok)
  | .col :: .col :: .name n :: ts => .ok (none, some n, ts)
  | .col :: .col :: _ => .error (.syntax "empty nonalias name")
  | .col :: .name a :: .col :: .name n :: ts => .ok (some a, some n, ts)
  | .col :: .name _ :: .col :: _ => .error (.syntax "empty nonalias name")
  | .col :: .name a :: ts => .ok (some a, none, ts)
  | .col :: _ => .error (.syntax "wrong alias name")
  | toks => .ok (none, none, toks)

/-- optional displacement (mir.c:6495-6503): value, `disp_p`, rest -/
def parseDisp : List Tok → Except Err (BitVec 64 × Bool × List Tok)
  | .int v :: ts => .ok (v, true, ts)
  | .name _ :: _ => .error (.unmodelled "name as displacement: the address of the name string is stored")
  | toks => .ok (0, false, toks)

/-- optional base register after `(` -/
def parseBase : List Tok → Option Str × List Tok
  | .name b :: ts => (some b, ts)
  | toks => (none, toks)

/-- `[',' index [',' scale]]` (mir.c:6510-6521) -/
def parseIndex : List Tok → Except Err (Option Str × BitVec 8 × List Tok)
  | .comma :: .name i :: .comma :: .int s :: ts => .ok (some i, BitVec.ofNat 8 s.toNat, ts)
  | .comma :: .name _ :: .comma :: _ => .error (.syntax "wrong scale")
  | .comma :: .name i :: ts => .ok (some i, 1, ts)
  | .comma :: _ => .error (.syntax "wrong index")
  | toks => .ok (none, 1, toks)

/-- `'(' [base] [',' index [',' scale]] ')'`, or nothing if a displacement was given -/
def parseSib (dispP : Bool) : List Tok → Except Err (Option Str × Option Str × BitVec 8 × List Tok)
  | .lpar :: ts =>
    match parseIndex (parseBase ts).2 with
    | .error e => .error e
    | .ok (index, scale, .rpar :: ts') => .ok ((parseBase ts).1, index, scale, ts')
    | .ok _ => .error (.syntax "wrong memory op")
  | toks => if dispP then .ok (none, none, 1, toks) else .error (.syntax "wrong memory")

/-- memory operand after `type ':'` (mir.c:6493-6553); `toks` starts after the colon -/
def parseMemRest (ty : Ty) (toks : List Tok) : Except Err (ROp × List Tok) :=
  match parseDisp toks with
  | .error e => .error e
  | .ok (disp, dispP, toks1) =>
    match parseSib dispP toks1 with
    | .error e => .error e
    | .ok (base, index, scale, toks2) =>
      match parseAliases toks2 with
      | .error e => .error e
      | .ok (alias, nonalias, toks3) => .ok (.mem ⟨ty, disp, base, index, scale, alias, nonalias⟩, toks3)

/-- `type …` in `func`/`proto`/`local`/`global` (mir.c:6457-6491); `toks` starts after the type name -/
def parseDeclRest (h : Head) (ty : Ty) : List Tok → Except Err (ROp × List Tok)
  | .col :: .name vn :: ts =>
    if h ≠ .global then .ok (.var ty vn none, ts)
    else
      match ts with
      | .col :: .name hr :: ts' => .ok (.var ty vn (some hr), ts')
      | .col :: _ => .error (.syntax "hard register is not a name")
      | _ => .error (.syntax "global without hard register")
  | .col :: .int v :: ts =>
    if h.isLocalGlobal || !ty.isBlk then .error (.syntax (if h = .local then "wrong var" else "wrong arg"))
    else if v.toNat ≥ 2 ^ 63 then .error (.syntax "invalid block arg size")   -- `t.u.i < 0` (the size is kept as a size_t)
    else
      match ts with
      | .lpar :: .name vn :: .rpar :: ts' => .ok (.blk ty v.toNat vn, ts')
      | _ => .error (.syntax "wrong block arg")
  | .col :: _ => .error (.syntax (if h = .local then "wrong var" else "wrong arg"))
  | toks => .ok (.ty ty, toks)

/-- one operand (body of the `for (;;)` at mir.c:6405); result: operand (or `none` for `...`) and the
tokens with the *next unread* token first -/
def parseOperand (h : Head) : List Tok → Except Err (Option ROp × List Tok)
  | .name n :: ts =>
    if h.isFuncProto && n = kwDots then .ok (none, ts)
    else if peek ts ≠ .col && !h.isDecl then .ok (some (.name n), ts)
    else
      match str2type n with
      | none => .error (.syntax "Unknown type")
      | some ty =>
        if h.isLocalGlobal && !okVarType ty then .error (.syntax "wrong type for local/global var")
        else if h.isDecl then (parseDeclRest h ty ts).map fun r => (some r.1, r.2)
        else (parseMemRest ty (adv ts)).map fun r => (some r.1, r.2)
  | .int v :: ts => .ok (some (.int v), ts)
  | .flt b :: ts => .ok (some (.flt b), ts)
  | .dbl b :: ts => .ok (some (.dbl b), ts)
  | .ldbl b :: ts => .ok (some (.ldbl b), ts)
  | .str s :: ts => .ok (some (.str s), ts)
  | _ => .error (.unmodelled "operand starts with punctuation or end of input: a stale operand is pushed")

/-- tokens after `name ':'`: one newline may follow a label ("label_names without insn") -/
def afterLabel (ts : List Tok) : List Tok :=
  if peek (adv ts) = .nl then adv (adv ts) else adv ts

def skipNl : List Tok → List Tok
  | .nl :: ts => skipNl ts
  | ts => ts

/-! ## progress lemmas (each parser returns a suffix; an operand consumes at least one token) -/

theorem adv_le (ts : List Tok) : (adv ts).length ≤ ts.length := by
  cases ts <;> simp [adv]

theorem parseAliases_le {toks : List Tok} {a n : Option Str} {ts : List Tok}
    (h : parseAliases toks = .ok (a, n, ts)) : ts.length ≤ toks.length := by
  unfold parseAliases at h
  split at h
  all_goals first
    | (simp at h; done)
    | (simp only [Except.ok.injEq, Prod.mk.injEq] at h; obtain ⟨_, _, h3⟩ := h; subst h3
       (try simp only [List.length_cons]); omega)

theorem parseDisp_le {toks : List Tok} {v : BitVec 64} {b : Bool} {ts : List Tok}
    (h : parseDisp toks = .ok (v, b, ts)) : ts.length ≤ toks.length := by
  unfold parseDisp at h
  split at h
  all_goals first
    | (simp at h; done)
    | (simp only [Except.ok.injEq, Prod.mk.injEq] at h; obtain ⟨_, _, h3⟩ := h; subst h3
       (try simp only [List.length_cons]); omega)

theorem parseBase_le (toks : List Tok) : (parseBase toks).2.length ≤ toks.length := by
  unfold parseBase
  split <;> simp

theorem parseIndex_le {toks : List Tok} {i : Option Str} {s : BitVec 8} {ts : List Tok}
    (h : parseIndex toks = .ok (i, s, ts)) : ts.length ≤ toks.length := by
  unfold parseIndex at h
  split at h
  all_goals first
    | (simp at h; done)
    | (simp only [Except.ok.injEq, Prod.mk.injEq] at h; obtain ⟨_, _, h3⟩ := h; subst h3
       (try simp only [List.length_cons]); omega)

theorem parseSib_le {d : Bool} {toks : List Tok} {b i : Option Str} {s : BitVec 8} {ts : List Tok}
    (h : parseSib d toks = .ok (b, i, s, ts)) : ts.length ≤ toks.length := by
  unfold parseSib at h
  split at h
  · rename_i ts0
    have hb := parseBase_le ts0
    split at h
    · simp at h
    · rename_i idx sc ts' hi
      have := parseIndex_le hi
      simp only [Except.ok.injEq, Prod.mk.injEq] at h; obtain ⟨_, _, _, h3⟩ := h; subst h3
      simp only [List.length_cons] at *; omega
    · simp at h
  · split at h
    · simp only [Except.ok.injEq, Prod.mk.injEq] at h; obtain ⟨_, _, _, h3⟩ := h; subst h3; exact Nat.le_refl _
    · simp at h

theorem parseMemRest_le {ty : Ty} {toks : List Tok} {r : ROp} {ts : List Tok}
    (h : parseMemRest ty toks = .ok (r, ts)) : ts.length ≤ toks.length := by
  unfold parseMemRest at h
  split at h
  · simp at h
  · rename_i disp dispP toks1 h1
    split at h
    · simp at h
    · rename_i base index scale toks2 h2
      split at h
      · simp at h
      · rename_i al nal toks3 h3
        have := parseDisp_le h1
        have := parseSib_le h2
        have := parseAliases_le h3
        simp only [Except.ok.injEq, Prod.mk.injEq] at h; obtain ⟨_, h4⟩ := h; subst h4
        omega

theorem parseDeclRest_le {hd : Head} {ty : Ty} {toks : List Tok} {r : ROp} {ts : List Tok}
    (h : parseDeclRest hd ty toks = .ok (r, ts)) : ts.length ≤ toks.length := by
  unfold parseDeclRest at h
  repeat' split at h
  all_goals first
    | (simp at h; done)
    | (simp only [Except.ok.injEq, Prod.mk.injEq] at h; obtain ⟨_, h3⟩ := h; subst h3
       (try simp only [List.length_cons]); omega)

theorem parseOperand_shorter {hd : Head} {toks : List Tok} {r : Option ROp} {ts : List Tok}
    (h : parseOperand hd toks = .ok (r, ts)) : ts.length < toks.length := by
  unfold parseOperand at h
  split at h
  · rename_i n ts0
    split at h
    · simp only [Except.ok.injEq, Prod.mk.injEq] at h; obtain ⟨_, h3⟩ := h; subst h3; simp
    split at h
    · simp only [Except.ok.injEq, Prod.mk.injEq] at h; obtain ⟨_, h3⟩ := h; subst h3; simp
    split at h
    · simp at h
    split at h
    · simp at h
    split at h
    · simp only [Except.map] at h
      split at h
      · simp at h
      · rename_i p hr
        obtain ⟨p1, p2⟩ := p
        have := parseDeclRest_le hr
        simp only [Except.ok.injEq, Prod.mk.injEq] at h; obtain ⟨_, h3⟩ := h; subst h3
        simp only [List.length_cons]; omega
    · simp only [Except.map] at h
      split at h
      · simp at h
      · rename_i p hr
        obtain ⟨p1, p2⟩ := p
        have := parseMemRest_le hr
        have := adv_le ts0
        simp only [Except.ok.injEq, Prod.mk.injEq] at h; obtain ⟨_, h3⟩ := h; subst h3
        simp only [List.length_cons]; omega
  all_goals first
    | (simp at h; done)
    | (simp only [Except.ok.injEq, Prod.mk.injEq] at h; obtain ⟨_, h3⟩ := h; subst h3; simp)

theorem afterLabel_le (ts : List Tok) : (afterLabel ts).length ≤ ts.length := by
  unfold afterLabel
  have := adv_le ts
  have := adv_le (adv ts)
  split <;> omega

theorem skipNl_le (ts : List Tok) : (skipNl ts).length ≤ ts.length := by
  fun_induction skipNl ts
  · simp only [List.length_cons]; omega
  · exact Nat.le_refl _


/-- the operand loop; returns operands, `dots_p` and the tokens starting at the statement terminator -/
def parseOps (h : Head) (toks : List Tok) (acc : List ROp) : Except Err (List ROp × Bool × List Tok) :=
  if peek toks = .nl ∨ peek toks = .semi then .ok (acc, false, toks)
  else
    match hp : parseOperand h toks with
    | .error e => .error e
    | .ok (none, toks') => .ok (acc, true, toks')
    | .ok (some op, toks') =>
      if peek toks' ≠ .comma then .ok (acc ++ [op], false, toks')
      else parseOps h (adv toks') (acc ++ [op])
termination_by toks.length
decreasing_by
  have := parseOperand_shorter hp
  have := adv_le toks'
  omega

/-- the label prefix `{name ':' [NL]}* name` (mir.c:6316-6327): labels, head word, tokens after it -/
def parseLabels (toks : List Tok) (acc : List Str) : Except Err (List Str × Str × List Tok) :=
  match toks with
  | .name n :: ts =>
    if peek ts ≠ .col then .ok (acc, n, ts)
    else parseLabels (afterLabel ts) (acc ++ [n])
  | _ => .error (.syntax "insn should start with label or insn name")
termination_by toks.length
decreasing_by
  have := afterLabel_le ts
  simp only [List.length_cons]
  omega

theorem parseOps_le (h : Head) (toks : List Tok) (acc : List ROp) :
    ∀ ops d ts, parseOps h toks acc = .ok (ops, d, ts) → ts.length ≤ toks.length := by
  fun_induction parseOps h toks acc <;> intro ops d ts hr
  · simp only [Except.ok.injEq, Prod.mk.injEq] at hr; obtain ⟨_, _, h3⟩ := hr; subst h3; exact Nat.le_refl _
  · simp at hr
  · rename_i hp
    have := parseOperand_shorter hp
    simp only [Except.ok.injEq, Prod.mk.injEq] at hr; obtain ⟨_, _, h3⟩ := hr; subst h3; omega
  · rename_i hp _
    have := parseOperand_shorter hp
    simp only [Except.ok.injEq, Prod.mk.injEq] at hr; obtain ⟨_, _, h3⟩ := hr; subst h3; omega
  · rename_i toks' hp _ ih
    have := parseOperand_shorter hp
    have := adv_le toks'
    have := ih ops d ts hr
    omega

theorem parseLabels_shorter (toks : List Tok) (acc : List Str) :
    ∀ ls n ts, parseLabels toks acc = .ok (ls, n, ts) → ts.length < toks.length := by
  fun_induction parseLabels toks acc <;> intro ls n ts hr
  · simp only [Except.ok.injEq, Prod.mk.injEq] at hr; obtain ⟨_, _, h3⟩ := hr; subst h3; simp
  · rename_i ts0 _ ih
    have := ih ls n ts hr
    have := afterLabel_le ts0
    simp only [List.length_cons]; omega
  · simp at hr

/-- one statement and the tokens starting at its terminator -/
def parseStmt (toks : List Tok) : Except Err (Stmt × List Tok) :=
  match parseLabels toks [] with
  | .error e => .error e
  | .ok (labels, name, toks) =>
    match classifyHead name labels.length with
    | .error e => .error e
    | .ok h =>
      match parseOps h toks [] with
      | .error e => .error e
      | .ok (ops, dots, toks) =>
        if peek toks ≠ .nl ∧ peek toks ≠ .eof ∧ peek toks ≠ .semi then .error (.syntax "wrong insn end")
        else .ok (⟨labels, h, ops, dots⟩, toks)

theorem parseStmt_shorter {toks : List Tok} {s : Stmt} {ts : List Tok}
    (h : parseStmt toks = .ok (s, ts)) : ts.length < toks.length := by
  unfold parseStmt at h
  split at h
  · simp at h
  · rename_i labels name toks1 hl
    have h1 := parseLabels_shorter toks [] labels name toks1 hl
    split at h
    · simp at h
    · split at h
      · simp at h
      · rename_i ops dots toks2 ho
        have h2 := parseOps_le _ toks1 [] ops dots toks2 ho
        split at h
        · simp at h
        · simp only [Except.ok.injEq, Prod.mk.injEq] at h; obtain ⟨_, h3⟩ := h; subst h3; omega

/-- the statement loop of `MIR_scan_string`: skip empty lines, stop at end of input, read a statement,
step over its terminator -/
def parseStmts (toks : List Tok) : Except Err (List Stmt) :=
  if peek (skipNl toks) = .eof then .ok []
  else
    match hp : parseStmt (skipNl toks) with
    | .error e => .error e
    | .ok (s, toks') => (parseStmts (adv toks')).map (s :: ·)
termination_by toks.length
decreasing_by
  have := parseStmt_shorter hp
  have := skipNl_le toks
  have := adv_le toks'
  omega

end TextIO
