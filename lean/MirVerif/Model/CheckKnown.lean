import MirVerif.Model.DocModes
/-!
# C15 — deviations of the current checker from MIR.md that are listed as known findings

`knownDeviations` is the ONE line to edit when a finding gets fixed in /repo: remove the
constructor from the list (for a table-level defect such as `laddrDstNotOut` nothing else
changes; for a defect in the code of `MIR_finish_func`/`MIR_insn_op_mode` the model in
`Model/Check.lean` has to follow the fixed code as well).  `Props/C15.lean` proves that the grid
agrees with the documentation *exactly* outside the cells covered by this list and disagrees on
every covered cell, so both a forgotten entry and a stale entry break the proof gate.
-/
namespace MirVerif.Check
open MirVerif.Gen.C15

inductive Deviation where
  /-- `laddr`'s destination lacks OUT_FLAG in `insn_descs`: immediates/refs accepted as output -/
  | laddrDstNotOut
  /-- `MIR_insn_op_mode` returns the operand's own mode for the 2nd operand of `addr*`:
      immediates and labels are accepted where a variable is required -/
  | addrSrcNotVar
  /-- undef-typed memory as va_list is rejected with `wrong_type` before the special case is reached -/
  | vaListUndefMem
  /-- `prset`'s first operand has mode `MIR_OP_UNDEF` in `insn_descs`: anything is accepted -/
  | prsetDstNotVar
  /-- property constant created with `MIR_new_uint_op` is rejected -/
  | propUintRejected
  /-- `ret` with the wrong number of operands: NULL dereference while formatting the message -/
  | retCountCrash
  /-- `MIR_insn_op_mode` has no `case MIR_JCALL`: arguments unchecked, `op_modes[nop]` read out of bounds -/
  | jcallUnchecked
  /-- call target given as a reference to a non-callable item: assert failure / silent acceptance -/
  | callRefNotCallable
  deriving DecidableEq, Repr, Inhabited

/-- THE list.  After a fix in /repo delete the corresponding entry. -/
def knownDeviations : List Deviation :=
  [.laddrDstNotOut, .addrSrcNotVar, .vaListUndefMem, .prsetDstNotVar, .propUintRejected, .retCountCrash, .jcallUnchecked, .callRefNotCallable]

def Deviation.signature : Deviation → String
  | .laddrDstNotOut => "C15:laddr-dst-not-out"
  | .addrSrcNotVar => "C15:addr-src-not-var"
  | .vaListUndefMem => "C15:va-list-undef-mem-rejected"
  | .prsetDstNotVar => "C15:prset-dst-not-var"
  | .propUintRejected => "C15:prop-uint-rejected"
  | .retCountCrash => "C15:ret-count-null-deref"
  | .jcallUnchecked => "C15:jcall-args-unchecked"
  | .callRefNotCallable => "C15:call-ref-not-callable"

/-- positions of the fixed-arity grid a deviation applies to -/
def Deviation.at (d : Deviation) (c i : Nat) : Bool :=
  match d with
  | .laddrDstNotOut => c == C_LADDR && i == 0
  | .addrSrcNotVar => isAddr c && i == 1
  | .vaListUndefMem =>
    ((c == C_VA_START || c == C_VA_END) && i == 0) || ((c == C_VA_ARG || c == C_VA_BLOCK_ARG) && i == 1)
  | .prsetDstNotVar => c == C_PRSET && i == 0
  | .propUintRejected => (c == C_PRSET && i == 1) || ((c == C_PRBEQ || c == C_PRBNE) && i == 2)
  | _ => false

/-- operand kinds on which the verdicts differ there -/
def Deviation.ops (d : Deviation) (o : OpA) : Bool :=
  match d with
  | .laddrDstNotOut => hasClass o .int && !(isReg o || isMem o)
  | .addrSrcNotVar => (match o with | .int | .float | .double | .ldouble | .label => true | _ => false)
  | .vaListUndefMem => isUndefMem o
  | .prsetDstNotVar => !(isReg o || isMem o)
  | .propUintRejected => o == .uint
  | _ => false

/-- is the cell covered by a listed deviation -/
def deviates (c i : Nat) (o : OpS) : Bool := knownDeviations.any (fun d => d.at c i && d.ops o.absDoc)

end MirVerif.Check
