import MirVerif.Model.DocModes
/-!
# C15 — deviations of the current checker from MIR.md that are listed as known findings

`knownDeviations` is the ONE line to edit when a finding gets fixed in /repo: remove the
constructor from the list (for a table-level defect nothing else changes; for a defect in the code of
`MIR_new_insn_arr`/`MIR_finish_func`/`MIR_insn_op_mode` the model in `Model/Check.lean` has to
follow the fixed code as well).  `Props/C15.lean` proves that the grid
agrees with the documentation *exactly* outside the cells covered by this list and disagrees on
every covered cell, so both a forgotten entry and a stale entry break the proof gate.
-/
namespace MirVerif.Check
open MirVerif.Gen.C15

inductive Deviation where
  /-- (old variant, fixed da63a480) property constant created with `MIR_new_uint_op` was rejected;
      kept as a named shape so that the mechanism stays exercised: it is not in the list -/
  | propUintRejected
  deriving DecidableEq, Repr, Inhabited

/- History: `laddrDstNotOut` (fixed 6cabb311), `addrSrcNotVar` (d055fe2e), `vaListUndefMem` (5ff22cdb),
`prsetDstNotVar` (0147517d), `retCountCrash` (e6c2b500), `jcallUnchecked` (27244d2d),
`callRefNotCallable` (37892d9f), `propUintRejected` (da63a480) were listed here until the defects were fixed in /repo; their pinned
replays are regressions in corpus/C15/regress.txt. -/

/-- THE list.  After a fix in /repo delete the corresponding entry. -/
def knownDeviations : List Deviation := []

def Deviation.signature : Deviation → String
  | .propUintRejected => "C15:prop-uint-rejected"

/-- positions of the fixed-arity grid a deviation applies to -/
def Deviation.at (d : Deviation) (c i : Nat) : Bool :=
  match d with
  | .propUintRejected => (c == C_PRSET && i == 1) || ((c == C_PRBEQ || c == C_PRBNE) && i == 2)

/-- operand kinds on which the verdicts differ there -/
def Deviation.ops (d : Deviation) (o : OpA) : Bool :=
  match d with
  | .propUintRejected => o == .uint

/-- is the cell covered by a listed deviation -/
def deviates (c i : Nat) (o : OpS) : Bool := knownDeviations.any (fun d => d.at c i && d.ops o.absDoc)

end MirVerif.Check
