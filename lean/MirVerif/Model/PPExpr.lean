/-!
# C09 — `#if` expression evaluation

* `c11Eval`  : C11 6.10.1p4 / 6.6 evaluation of a controlling expression in `intmax_t`/`uintmax_t`
  (64 bit): usual arithmetic conversions per operator, relational / equality / logical results are
  signed, a shift has the type of its left operand, `?:` converts both arms to their common type,
  `&&`, `||`, `?:` do not evaluate (and do not diagnose) the operand that is not selected.
  Result `Res.undef` = C11 gives the expression no value (signed overflow, bad shift count,
  `INTMAX_MIN / -1`, integer constant without a type); `Res.divZero` = division by zero in an
  evaluated operand (both reference compiler and c2mir diagnose it).
* `c2mEvalG fx` : literal model of `eval` / `eval_binop_operands` of `c2mir/c2mir.c` (struct val =
  `uns_p` + 64-bit payload), of the literal typing of `get_int_node_from_repr`, and of the lexer's
  choice of node for character constants.  `fx : Fixes` says which of the candidate repairs
  `fixes/C09-if-*.patch` is applied; `noFixes` is the code as it stands in /repo.
* `parseExpr`, `lexLit` : token list → tree, spelling → literal (shared by both evaluators).
-/
namespace MirVerif.PP

abbrev W := BitVec 64

structure Val where
  uns : Bool
  bits : W
deriving DecidableEq, Repr, Inhabited

inductive Res where
  | val (v : Val)
  | divZero
  | undef
deriving DecidableEq, Repr, Inhabited

inductive Base where | dec | oct | hex
deriving DecidableEq, Repr

inductive Suffix where | none | u | l | ul | ll | ull
deriving DecidableEq, Repr

inductive ChPfx where | plain | wide | c16 | c32
deriving DecidableEq, Repr

inductive Lit where
  | int (base : Base) (n : Nat) (suf : Suffix)
  | chr (pfx : ChPfx) (code : Nat)
deriving DecidableEq, Repr

inductive UnOp where | plus | neg | bnot | lnot
deriving DecidableEq, Repr

inductive BinOp where
  | mul | div | mod | add | sub | shl | shr | lt | le | gt | ge | eq | ne | band | bxor | bor
  | land | lor
deriving DecidableEq, Repr

inductive Expr where
  | lit (l : Lit)
  | un (op : UnOp) (a : Expr)
  | bin (op : BinOp) (a b : Expr)
  | cond (c a b : Expr)
deriving DecidableEq, Repr

instance : Inhabited Expr := ⟨.lit (.int .dec 0 .none)⟩

def Suffix.hasU : Suffix → Bool
  | .u | .ul | .ull => true
  | _ => false

def BinOp.isCmp : BinOp → Bool
  | .lt | .le | .gt | .ge | .eq | .ne => true
  | _ => false

def BinOp.isShift : BinOp → Bool
  | .shl | .shr => true
  | _ => false

def BinOp.isLogic : BinOp → Bool
  | .land | .lor => true
  | _ => false

/-- arithmetic operators that undergo the usual arithmetic conversions and keep the common type -/
def BinOp.isArith : BinOp → Bool
  | .mul | .div | .mod | .add | .sub | .band | .bxor | .bor => true
  | _ => false

def b2w (b : Bool) : W := if b then 1#64 else 0#64

def Val.truth (v : Val) : Bool := v.bits != 0#64

/-! ## C11 -/

/-- type and value of an integer / character constant in `#if` (x86-64 Linux: `char` and
`wchar_t` signed, `char16_t`/`char32_t` unsigned).  All signed integer types act as `intmax_t`. -/
def c11Lit : Lit → Res
  | .int base n suf =>
    if n ≥ 2 ^ 64 then .undef
    else if suf.hasU then .val ⟨true, BitVec.ofNat 64 n⟩
    else if n < 2 ^ 63 then .val ⟨false, BitVec.ofNat 64 n⟩
    else if base = .dec then .undef          -- 6.4.4.1p6: no type
    else .val ⟨true, BitVec.ofNat 64 n⟩
  | .chr .plain c => if c < 256 then .val ⟨false, (BitVec.ofNat 8 c).signExtend 64⟩ else .undef
  | .chr .wide c => if c < 2 ^ 32 then .val ⟨false, (BitVec.ofNat 32 c).signExtend 64⟩ else .undef
  | .chr .c16 c => if c < 2 ^ 16 then .val ⟨true, BitVec.ofNat 64 c⟩ else .undef
  | .chr .c32 c => if c < 2 ^ 32 then .val ⟨true, BitVec.ofNat 64 c⟩ else .undef

def Res.unsFlag : Res → Bool
  | .val v => v.uns
  | _ => false

def litUns (l : Lit) : Bool := (c11Lit l).unsFlag

/-- static C11 type of a controlling expression: `true` = `uintmax_t`, `false` = `intmax_t` -/
def isUns : Expr → Bool
  | .lit l => litUns l
  | .un .lnot _ => false
  | .un _ a => isUns a
  | .bin op a b =>
    if op.isCmp || op.isLogic then false
    else if op.isShift then isUns a
    else isUns a || isUns b
  | .cond _ a b => isUns a || isUns b

/-- value of a shift; count taken from the bits of the right operand -/
def shiftCountOk (rhsUns : Bool) (b : W) : Bool :=
  if rhsUns then decide (b.toNat < 64) else decide (0 ≤ b.toInt ∧ b.toInt < 64)

def shlOverflowS (a : W) (n : Nat) : Bool :=
  decide (a.toInt < 0) || decide (a.toInt * 2 ^ n ≥ 2 ^ 63)

/-- arithmetic on operands already converted to the common type `uns` -/
def c11Arith (op : BinOp) (uns : Bool) (a b : W) : Res :=
  match op with
  | .mul => if !uns && BitVec.smulOverflow a b then .undef else .val ⟨uns, a * b⟩
  | .add => if !uns && BitVec.saddOverflow a b then .undef else .val ⟨uns, a + b⟩
  | .sub => if !uns && BitVec.ssubOverflow a b then .undef else .val ⟨uns, a - b⟩
  | .div =>
    if b = 0#64 then .divZero
    else if uns then .val ⟨true, a / b⟩
    else if a = BitVec.intMin 64 ∧ b = -1#64 then .undef
    else .val ⟨false, BitVec.sdiv a b⟩
  | .mod =>
    if b = 0#64 then .divZero
    else if uns then .val ⟨true, a % b⟩
    else if a = BitVec.intMin 64 ∧ b = -1#64 then .undef
    else .val ⟨false, BitVec.srem a b⟩
  | .band => .val ⟨uns, a &&& b⟩
  | .bxor => .val ⟨uns, a ^^^ b⟩
  | .bor => .val ⟨uns, a ||| b⟩
  | _ => .undef

def cmpBits (op : BinOp) (uns : Bool) (a b : W) : Bool :=
  match op with
  | .lt => if uns then BitVec.ult a b else BitVec.slt a b
  | .le => if uns then BitVec.ule a b else BitVec.sle a b
  | .gt => if uns then BitVec.ult b a else BitVec.slt b a
  | .ge => if uns then BitVec.ule b a else BitVec.sle b a
  | .eq => a == b
  | .ne => a != b
  | _ => false

def c11Shift (op : BinOp) (v1 v2 : Val) : Res :=
  if !shiftCountOk v2.uns v2.bits then .undef
  else
    let n := v2.bits.toNat
    match op with
    | .shl =>
      if !v1.uns && shlOverflowS v1.bits n then .undef else .val ⟨v1.uns, v1.bits <<< n⟩
    | _ => .val ⟨v1.uns, if v1.uns then v1.bits >>> n else v1.bits.sshiftRight n⟩

def c11Un (op : UnOp) (v : Val) : Res :=
  match op with
  | .plus => .val v
  | .neg => if !v.uns && BitVec.negOverflow v.bits then .undef else .val ⟨v.uns, -v.bits⟩
  | .bnot => .val ⟨v.uns, ~~~v.bits⟩
  | .lnot => .val ⟨false, b2w (!v.truth)⟩

/-- conversion of the selected arm of `?:` to the common type of both arms -/
def condConv (uns : Bool) : Res → Res
  | .val v => .val ⟨uns, v.bits⟩
  | r => r

def c11Eval : Expr → Res
  | .lit l => c11Lit l
  | .un op a =>
    match c11Eval a with
    | .val v => c11Un op v
    | r => r
  | .bin op a b =>
    match c11Eval a with
    | .val v1 =>
      if op = .land then
        if v1.truth then
          match c11Eval b with
          | .val v2 => .val ⟨false, b2w v2.truth⟩
          | r => r
        else .val ⟨false, 0#64⟩
      else if op = .lor then
        if v1.truth then .val ⟨false, 1#64⟩
        else
          match c11Eval b with
          | .val v2 => .val ⟨false, b2w v2.truth⟩
          | r => r
      else
        match c11Eval b with
        | .val v2 =>
          if op.isShift then c11Shift op v1 v2
          else
            let uns := v1.uns || v2.uns
            if op.isCmp then .val ⟨false, b2w (cmpBits op uns v1.bits v2.bits)⟩
            else c11Arith op uns v1.bits v2.bits
        | r => r
    | r => r
  | .cond c a b =>
    match c11Eval c with
    | .val vc =>
      if vc.truth then condConv (isUns a || isUns b) (c11Eval a)
      else condConv (isUns a || isUns b) (c11Eval b)
    | r => r

/-! ## c2mir -/

/-- which candidate repairs are applied to the modelled code -/
structure Fixes where
  fNot : Bool      -- fixes/C09-if-not-unsigned.patch
  fCmp : Bool      -- fixes/C09-if-compare-unsigned.patch
  fShift : Bool    -- fixes/C09-if-shift-unsigned.patch
  fCond : Bool     -- fixes/C09-if-cond-unsigned.patch
  fLit : Bool      -- fixes/C09-if-literal-uint.patch
  fWchar : Bool    -- fixes/C09-if-wchar-unsigned.patch
deriving DecidableEq, Repr

def noFixes : Fixes := ⟨false, false, false, false, false, false⟩
def allFixes : Fixes := ⟨true, true, true, true, true, true⟩

/-- `get_int_node_from_repr` + the `N_*` cases of `eval`: node kinds I, L, LL are signed, U, UL, ULL
unsigned (MIR_INT_MAX = 2^31-1, MIR_UINT_MAX = 2^32-1, MIR_LONG_MAX = MIR_LLONG_MAX = 2^63-1).
With `fLit` the token conversion in `eval_expr` re-types a constant without `u` suffix whose value
fits `intmax_t` as signed. -/
def c2mLit (fx : Fixes) : Lit → Res
  | .int base n suf =>
    if n ≥ 2 ^ 64 then .undef          -- strtoull saturates, c2mir warns "out of range"
    else
      let bits := BitVec.ofNat 64 n
      let uns :=
        match suf with
        | .ull => true
        | .ll => !(base = .dec || n ≤ 2 ^ 63 - 1)
        | .ul => true
        | .l => !(n ≤ 2 ^ 63 - 1)
        | .u => true
        | .none =>
          if n ≤ 2 ^ 31 - 1 then false
          else if base != .dec && n ≤ 2 ^ 32 - 1 then true
          else if n ≤ 2 ^ 63 - 1 then false
          else true
      let uns := if fx.fLit && !suf.hasU && n ≤ 2 ^ 63 - 1 then false else uns
      .val ⟨uns, bits⟩
  | .chr .plain c => if c < 256 then .val ⟨false, (BitVec.ofNat 8 c).signExtend 64⟩ else .undef
  | .chr .wide c =>
    if c < 2 ^ 32 then
      if fx.fWchar then .val ⟨false, (BitVec.ofNat 32 c).signExtend 64⟩
      else .val ⟨true, BitVec.ofNat 64 c⟩          -- N_CH32: uns_p = TRUE, u_val = u.ul
    else .undef
  | .chr .c16 c => if c < 2 ^ 16 then .val ⟨true, BitVec.ofNat 64 c⟩ else .undef
  | .chr .c32 c => if c < 2 ^ 32 then .val ⟨true, BitVec.ofNat 64 c⟩ else .undef

/-- `BINOP (op)` for the value-producing operators: `res.uns_p` is the common signedness -/
def c2mArith (op : BinOp) (uns : Bool) (a b : W) : Res :=
  match op with
  | .mul => .val ⟨uns, a * b⟩
  | .add => .val ⟨uns, a + b⟩
  | .sub => .val ⟨uns, a - b⟩
  | .div =>
    if b = 0#64 then .divZero
    else if uns then .val ⟨true, a / b⟩
    else if a = BitVec.intMin 64 ∧ b = -1#64 then .undef      -- idiv traps
    else .val ⟨false, BitVec.sdiv a b⟩
  | .mod =>
    if b = 0#64 then .divZero
    else if uns then .val ⟨true, a % b⟩
    else if a = BitVec.intMin 64 ∧ b = -1#64 then .undef
    else .val ⟨false, BitVec.srem a b⟩
  | .band => .val ⟨uns, a &&& b⟩
  | .bxor => .val ⟨uns, a ^^^ b⟩
  | .bor => .val ⟨uns, a ||| b⟩
  | _ => .undef

/-- shift in c2mir.  Unrepaired: `BINOP (<<)`, both operands are first brought to the common
signedness.  Repaired: the result has the signedness of the left operand. -/
def c2mShift (fx : Fixes) (op : BinOp) (v1 v2 : Val) : Res :=
  let lu := if fx.fShift then v1.uns else (v1.uns || v2.uns)
  -- C leaves a count outside 0..63 undefined (the compiled evaluator masks it)
  if !shiftCountOk (if fx.fShift then v2.uns else (v1.uns || v2.uns)) v2.bits then .undef
  else
    let n := v2.bits.toNat
    match op with
    | .shl => .val ⟨lu, v1.bits <<< n⟩
    | _ => .val ⟨lu, if lu then v1.bits >>> n else v1.bits.sshiftRight n⟩

def c2mUn (fx : Fixes) (op : UnOp) (v : Val) : Res :=
  match op with
  | .plus => .val v
  | .neg => .val ⟨v.uns, -v.bits⟩
  | .bnot => .val ⟨v.uns, ~~~v.bits⟩
  | .lnot => .val ⟨if fx.fNot then false else v.uns, b2w (!v.truth)⟩

/-- the static type function added by `C09-if-cond-unsigned.patch` (`pre_expr_uns_p`): the C11
rules over the node kinds the (possibly repaired) token conversion produces -/
def c2mStaticUns (fx : Fixes) : Expr → Bool
  | .lit l => (c2mLit fx l).unsFlag
  | .un .lnot _ => false
  | .un _ a => c2mStaticUns fx a
  | .bin op a b =>
    if op.isLogic || op.isCmp then false
    else if op.isShift then c2mStaticUns fx a
    else c2mStaticUns fx a || c2mStaticUns fx b
  | .cond _ a b => c2mStaticUns fx a || c2mStaticUns fx b

/-- `N_COND`: the selected arm; the repaired code also makes it unsigned when the other arm is -/
def c2mCondConv (fx : Fixes) (otherUns : Bool) : Res → Res
  | .val v => if fx.fCond then .val ⟨v.uns || otherUns, v.bits⟩ else .val v
  | r => r

def c2mEvalG (fx : Fixes) : Expr → Res
  | .lit l => c2mLit fx l
  | .un op a =>
    match c2mEvalG fx a with
    | .val v => c2mUn fx op v
    | r => r
  | .bin op a b =>
    match c2mEvalG fx a with
    | .val v1 =>
      if op = .land then
        if v1.truth then
          match c2mEvalG fx b with
          | .val v2 => .val ⟨false, b2w v2.truth⟩
          | r => r
        else .val ⟨false, 0#64⟩
      else if op = .lor then
        if v1.truth then .val ⟨false, 1#64⟩
        else
          match c2mEvalG fx b with
          | .val v2 => .val ⟨false, b2w v2.truth⟩
          | r => r
      else
        match c2mEvalG fx b with
        | .val v2 =>
          if op.isShift then c2mShift fx op v1 v2
          else
            let uns := v1.uns || v2.uns         -- eval_binop_operands
            if op.isCmp then
              .val ⟨if fx.fCmp then false else uns, b2w (cmpBits op uns v1.bits v2.bits)⟩
            else c2mArith op uns v1.bits v2.bits
        | r => r
    | r => r
  | .cond c a b =>
    match c2mEvalG fx c with
    | .val vc =>
      if vc.truth then c2mCondConv fx (c2mStaticUns fx b) (c2mEvalG fx a)
      else c2mCondConv fx (c2mStaticUns fx a) (c2mEvalG fx b)
    | r => r

/-- THE SWITCH: the set of `#if` repairs present in the checked tree.  All six are in /repo since
deaac458.  The correspondence check (`checks/c09.py`) compares the real `c2m` with
`c2mEvalG appliedFixes` on every generated expression and reports a broken tie if they differ. -/
def appliedFixes : Fixes := allFixes

/-- model of `eval` of the checked tree -/
def c2mEval (e : Expr) : Res := c2mEvalG appliedFixes e

/-- OLD VARIANT: model of `eval` as it was before /repo deaac458 (no repair) -/
abbrev c2mEvalOld (e : Expr) : Res := c2mEvalG noFixes e

/-! ## Side condition under which a (partially repaired) evaluator is right -/

/-- the constant has a C11 type, and is not of a kind the code types wrongly -/
def litClean (fx : Fixes) (l : Lit) : Bool :=
  c11Lit l != .undef &&
  match l with
  | .int base n suf =>
    fx.fLit || suf.hasU || suf != .none ||
      !(base != .dec && decide (2 ^ 31 ≤ n) && decide (n ≤ 2 ^ 32 - 1))
  | .chr .wide _ => fx.fWchar
  | .chr _ _ => true

/-- no operator occurrence of a class that the code evaluates with the wrong signedness -/
def Clean (fx : Fixes) : Expr → Bool
  | .lit l => litClean fx l
  | .un .lnot a => Clean fx a && (fx.fNot || !isUns a)
  | .un _ a => Clean fx a
  | .bin op a b =>
    Clean fx a && Clean fx b &&
      (if op.isCmp then fx.fCmp || !(isUns a || isUns b)
       else if op.isShift then fx.fShift || (!isUns b || isUns a)
       else true)
  | .cond c a b => Clean fx c && Clean fx a && Clean fx b && (fx.fCond || isUns a == isUns b)

/-- every integer / character constant of the expression has a C11 type -/
def LitsOk : Expr → Bool
  | .lit l => c11Lit l != .undef
  | .un _ a => LitsOk a
  | .bin _ a b => LitsOk a && LitsOk b
  | .cond c a b => LitsOk c && LitsOk a && LitsOk b

/-! ## Lexing literals and parsing the expression -/

def digitVal (c : Char) : Option Nat :=
  if '0' ≤ c ∧ c ≤ '9' then some (c.toNat - '0'.toNat)
  else if 'a' ≤ c ∧ c ≤ 'f' then some (c.toNat - 'a'.toNat + 10)
  else if 'A' ≤ c ∧ c ≤ 'F' then some (c.toNat - 'A'.toNat + 10)
  else none

def digitsVal (base : Nat) : List Char → Nat → Option Nat
  | [], acc => some acc
  | c :: cs, acc =>
    match digitVal c with
    | some d => if d < base then digitsVal base cs (acc * base + d) else none
    | none => none

def lexSuffix (s : List Char) : Option Suffix :=
  match s.map Char.toLower with
  | [] => some .none
  | ['u'] => some .u
  | ['l'] => some .l
  | ['u', 'l'] | ['l', 'u'] => some .ul
  | ['l', 'l'] => if s = ['l', 'l'] ∨ s = ['L', 'L'] then some .ll else none
  | ['u', 'l', 'l'] => if s.drop 1 = ['l', 'l'] ∨ s.drop 1 = ['L', 'L'] then some .ull else none
  | ['l', 'l', 'u'] => if s.take 2 = ['l', 'l'] ∨ s.take 2 = ['L', 'L'] then some .ull else none
  | _ => none

def isSuffixChar (c : Char) : Bool := c = 'u' || c = 'U' || c = 'l' || c = 'L'

def lexInt (s : List Char) : Option Lit :=
  let r := s.reverse
  let sufR := r.takeWhile isSuffixChar
  let body := (r.dropWhile isSuffixChar).reverse
  match lexSuffix sufR.reverse with
  | none => none
  | some suf =>
    match body with
    | '0' :: 'x' :: ds | '0' :: 'X' :: ds =>
      if ds.isEmpty then none else (digitsVal 16 ds 0).map (Lit.int .hex · suf)
    | '0' :: ds => (digitsVal 8 ds 0).map (Lit.int .oct · suf)
    | ds => if ds.isEmpty then none else (digitsVal 10 ds 0).map (Lit.int .dec · suf)

def lexEscape : List Char → Option Nat
  | ['n'] => some 10
  | ['t'] => some 9
  | ['r'] => some 13
  | ['a'] => some 7
  | ['b'] => some 8
  | ['f'] => some 12
  | ['v'] => some 11
  | ['\\'] => some 92
  | ['\''] => some 39
  | ['"'] => some 34
  | ['?'] => some 63
  | 'x' :: ds => if ds.isEmpty then none else digitsVal 16 ds 0
  | ds => if ds.isEmpty ∨ ds.length > 3 then none else digitsVal 8 ds 0

def lexChrBody (pfx : ChPfx) (s : List Char) : Option Lit :=
  -- s = the characters between the quotes
  match s with
  | ['\\'] => none
  | '\\' :: rest => (lexEscape rest).map (Lit.chr pfx ·)
  | [c] => some (.chr pfx c.toNat)
  | _ => none

def stripQuotes (s : List Char) : Option (List Char) :=
  match s with
  | '\'' :: rest =>
    match rest.reverse with
    | '\'' :: mid => some mid.reverse
    | _ => none
  | _ => none

def lexLit (sp : String) : Option Lit :=
  match sp.toList with
  | 'L' :: '\'' :: r => (stripQuotes ('\'' :: r)).bind (lexChrBody .wide)
  | 'u' :: '\'' :: r => (stripQuotes ('\'' :: r)).bind (lexChrBody .c16)
  | 'U' :: '\'' :: r => (stripQuotes ('\'' :: r)).bind (lexChrBody .c32)
  | '\'' :: r => (stripQuotes ('\'' :: r)).bind (lexChrBody .plain)
  | s => lexInt s

inductive ETok where
  | lit (l : Lit)
  | op (s : String)
deriving DecidableEq, Repr

def binOpOf : String → Option (BinOp × Nat)
  | "*" => some (.mul, 10) | "/" => some (.div, 10) | "%" => some (.mod, 10)
  | "+" => some (.add, 9) | "-" => some (.sub, 9)
  | "<<" => some (.shl, 8) | ">>" => some (.shr, 8)
  | "<" => some (.lt, 7) | "<=" => some (.le, 7) | ">" => some (.gt, 7) | ">=" => some (.ge, 7)
  | "==" => some (.eq, 6) | "!=" => some (.ne, 6)
  | "&" => some (.band, 5) | "^" => some (.bxor, 4) | "|" => some (.bor, 3)
  | "&&" => some (.land, 2) | "||" => some (.lor, 1)
  | _ => none

def unOpOf : String → Option UnOp
  | "+" => some .plus | "-" => some .neg | "~" => some .bnot | "!" => some .lnot
  | _ => none

/- precedence-climbing parser for C11 6.6 conditional-expression (no casts, sizeof, comma,
assignment — none can occur in `#if`).  `fuel` bounds the recursion depth (token count suffices). -/
mutual
  def parsePrimary : Nat → List ETok → Option (Expr × List ETok)
    | 0, _ => none
    | fuel + 1, ts =>
      match ts with
      | .lit l :: rest => some (.lit l, rest)
      | .op "(" :: rest =>
        match parseCond fuel rest with
        | some (e, .op ")" :: rest') => some (e, rest')
        | _ => none
      | .op s :: rest =>
        match unOpOf s with
        | some u =>
          match parsePrimary fuel rest with
          | some (e, rest') => some (.un u e, rest')
          | none => none
        | none => none
      | [] => none
  /-- parse operators of precedence ≥ `minp` to the right of `lhs` -/
  def parseBinRhs : Nat → Nat → Expr → List ETok → Option (Expr × List ETok)
    | 0, _, _, _ => none
    | fuel + 1, minp, lhs, ts =>
      match ts with
      | .op s :: rest =>
        match binOpOf s with
        | some (op, p) =>
          if p < minp then some (lhs, ts)
          else
            match parsePrimary fuel rest with
            | some (rhs, rest') =>
              -- bind tighter operators to rhs first
              match parseBinRhs fuel (p + 1) rhs rest' with
              | some (rhs', rest'') => parseBinRhs fuel minp (.bin op lhs rhs') rest''
              | none => none
            | none => none
        | none => some (lhs, ts)
      | _ => some (lhs, ts)
  def parseCond : Nat → List ETok → Option (Expr × List ETok)
    | 0, _ => none
    | fuel + 1, ts =>
      match parsePrimary fuel ts with
      | some (lhs, rest) =>
        match parseBinRhs fuel 1 lhs rest with
        | some (c, .op "?" :: rest') =>
          match parseCond fuel rest' with
          | some (a, .op ":" :: rest'') =>
            match parseCond fuel rest'' with
            | some (b, rest''') => some (.cond c a b, rest''')
            | none => none
          | _ => none
        | r => r
      | none => none
end

def parseExpr (ts : List ETok) : Option Expr :=
  match parseCond (2 * ts.length + 4) ts with
  | some (e, []) => some e
  | _ => none

/-- truth of the controlling expression; `none` = diagnosed error / no C11 value -/
def Res.truth? : Res → Option Bool
  | .val v => some v.truth
  | _ => none

end MirVerif.PP
