import MirVerif.Model.TextIOSyntax
/-! # C10 — tokens of the textual MIR scanner (`enum token_code`, mir.c:5867) and error classes of the model -/
namespace TextIO

inductive Tok
  | int (v : BitVec 64)
  | flt (b : BitVec 32)
  | dbl (b : BitVec 64)
  | ldbl (b : BitVec 80)
  | name (n : Str)
  | str (s : Str)
  | nl | eof | lpar | rpar | comma | semi | col
  deriving DecidableEq, Repr, Inhabited

inductive Err
  /-- `scan_error` (reported as `MIR_syntax_error` at the end of `MIR_scan_string`) -/
  | syntax (msg : String)
  /-- an error raised by an API function the scanner calls (`MIR_new_*`, `MIR_reg`, …) -/
  | api (msg : String)
  /-- the C code leaves defined behaviour or asserts here; the model makes no claim -/
  | unmodelled (msg : String)
  /-- the progress guard of `lexAll`/`parseStmts` fired (never happens, see `Lemmas/TextIOLex`) -/
  | internal
  deriving DecidableEq, Repr, Inhabited

end TextIO
