/-!
# C18 — footprint model of "independent contexts do not interfere"

Abstract memory `Loc → Val`.  Locations are partitioned into locations *owned by a context*
(`Loc.ctx c a`: everything reachable from the `MIR_context_t` numbered `c` — the context structure,
its sub-contexts (`gen_ctx`, `c2m_ctx`, `interp_env` …), every block obtained from its allocator,
its code pages) and *shared* locations (`Loc.shared o a`: byte `a` of the object with static storage
duration numbered `o` in the regenerated inventory `MirVerif.Gen.C18.objects`).

An operation (one library API call as executed by one thread) has a read footprint, a write
footprint, a state transformer restricted to the write footprint by construction (`Op.run`) and a
result (`Op.res`).  `Op.Respects` says the declared footprint is *sound*: result and written values
depend only on the values of the read footprint.

A *trace* is a list of `(thread, operation)` pairs executed in order under sequentially consistent
interleaving semantics (`exec`); the ops thread `i` executes are `own i tr`.  Every interleaving of N
threads' programs is such a trace, and thread `i`'s program is recovered as `own i tr`.

No Mathlib; everything here is executable and linked into `mirdrv_c18`.
-/
namespace MirVerif.Footprint

inductive Loc where
  | ctx (c : Nat) (a : Nat)
  | shared (o : Nat) (a : Nat)
  deriving DecidableEq, Repr

abbrev Val := Nat
abbrev Mem := Loc → Val

def Loc.isCtx (c : Nat) : Loc → Bool
  | .ctx c' _ => c' == c
  | .shared _ _ => false

def Loc.isShared : Loc → Bool
  | .ctx _ _ => false
  | .shared _ _ => true

/-- what thread/context `c` can observe: its own context and the shared objects -/
def Loc.visible (c : Nat) (l : Loc) : Bool := l.isCtx c || l.isShared

structure Op where
  reads  : Loc → Bool
  writes : Loc → Bool
  /-- value stored into a location of the write footprint -/
  eff    : Mem → Loc → Val
  /-- value returned to the caller -/
  res    : Mem → Val

/-- state transformer: locations outside the write footprint keep their value (frame property by
construction) -/
def Op.run (o : Op) (m : Mem) : Mem := fun l => if o.writes l then o.eff m l else m l

/-- soundness of the declared read footprint -/
def Op.Respects (o : Op) : Prop :=
  ∀ m m' : Mem, (∀ l, o.reads l = true → m l = m' l) →
    o.res m = o.res m' ∧ ∀ l, o.writes l = true → o.eff m l = o.eff m' l

/-- no write/write and no read/write overlap -/
def Disjoint (a b : Op) : Prop :=
  ∀ l, (a.writes l = true → b.reads l = false ∧ b.writes l = false) ∧
       (b.writes l = true → a.reads l = false ∧ a.writes l = false)

/-- operation of thread `i` stays inside context `i`: writes only `ctx i`, reads `ctx i` and shared -/
def Op.Confined (i : Nat) (o : Op) : Prop :=
  (∀ l, o.writes l = true → l.isCtx i = true) ∧ (∀ l, o.reads l = true → l.visible i = true)

abbrev Trace := List (Nat × Op)

/-- run a trace; the log holds `(thread, result)` of every operation in execution order -/
def exec : Trace → Mem → Mem × List (Nat × Val)
  | [], m => (m, [])
  | (i, o) :: tr, m =>
    let r := exec tr (o.run m)
    (r.1, (i, o.res m) :: r.2)

/-- the operations of thread `i`, in program order -/
def own (i : Nat) (tr : Trace) : Trace := tr.filter (fun e => e.1 == i)

/-- results observed by thread `i` -/
def resultsOf (i : Nat) (log : List (Nat × Val)) : List Val :=
  (log.filter (fun e => e.1 == i)).map (·.2)

/-- two memories look the same to context `i` -/
def AgreeOn (i : Nat) (m m' : Mem) : Prop := ∀ l, l.visible i = true → m l = m' l

/-! ## Executable instances used by the driver (finite footprints, hash-like effects) -/

def mix (a b : Nat) : Nat := (a * 1000003 + b * 7919 + 12345) % 4294967291

def locCode : Loc → Nat
  | .ctx c a => 2 * (c * 4096 + a)
  | .shared o a => 2 * (o * 4096 + a) + 1

/-- operation number `id` with finite footprints; every written location receives a digest of
`id`, the location and all values read; the result is a digest of the values read.
`const = some v` makes it an *idempotent initialiser*: every written location receives `v`. -/
def mkOp (id : Nat) (rs ws : List Loc) (const : Option Nat := none) : Op where
  reads := fun l => rs.contains l
  writes := fun l => ws.contains l
  eff := fun m l => match const with
    | some v => v
    | none => mix (mix id (locCode l)) ((rs.map m).foldl mix 0)
  res := fun m => mix id ((rs.map m).foldl mix 0)

/-- decidable version of `Op.Confined` for finite footprints -/
def confinedB (i : Nat) (rs ws : List Loc) : Bool :=
  ws.all (fun l => l.isCtx i) && rs.all (fun l => l.visible i)

/-! ## Tabulated execution (what the driver runs)

`exec` on `Mem = Loc → Val` re-evaluates the whole history for every lookup (exponential); the driver
therefore runs finite-footprint operations on a table of the locations written so far.
`Lemmas/Footprint.lean: execTab_eq` proves that this is the same function as `exec`. -/

structure FOp where
  id : Nat
  rs : List Loc
  ws : List Loc
  const : Option Nat

def FOp.op (f : FOp) : Op := mkOp f.id f.rs f.ws f.const

abbrev Tab := List (Loc × Val)

def tabMem (base : Mem) (t : Tab) : Mem := fun l =>
  match t.lookup l with
  | some v => v
  | none => base l

def stepTab (base : Mem) (f : FOp) (t : Tab) : Tab :=
  f.ws.map (fun l => (l, f.op.eff (tabMem base t) l)) ++ t

def execTab (base : Mem) : List (Nat × FOp) → Tab → Tab × List (Nat × Val)
  | [], t => (t, [])
  | (i, f) :: tr, t =>
    let r := execTab base tr (stepTab base f t)
    (r.1, (i, f.op.res (tabMem base t)) :: r.2)

def toTrace (tr : List (Nat × FOp)) : Trace := tr.map (fun e => (e.1, e.2.op))

/-- snapshot of a finite set of locations -/
def snapshot (m : Mem) (ls : List Loc) : List Val := ls.map m

end MirVerif.Footprint
