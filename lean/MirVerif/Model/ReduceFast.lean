import MirVerif.Model.Reduce
/-!
# Array-based copy of the C12 decoder model (for the driver only)

`Model/Reduce.lean` keeps the decoder's buffer and `ind2pos` as lists, which is what the theorems
are about but costs `O(pos)` per element.  This file repeats the same decoder with `Array`s;
`Lemmas/ReduceFast.lean` proves `decodeF c s = decode c s` for every configuration and input, so
the driver may run either.
-/
namespace MirVerif.Reduce

structure FSt where
  buf : Array UInt8
  starts : Array Nat

def FSt.init : FSt := ⟨#[], #[]⟩

def FSt.toD (s : FSt) : DSt := ⟨s.buf.toList, s.starts.toList⟩

def writeBytesF (cap : Nat) (buf : Array UInt8) (bs : List UInt8) : Except Err (Array UInt8) :=
  if buf.size + bs.length ≤ cap then .ok (buf ++ bs) else .error .oob

def pushLoop (starts : Array Nat) (base : Nat) : Nat → Nat → Array Nat
  | 0, _ => starts
  | n + 1, i => pushLoop (starts.push (i + base)) base n (i + 1)

def pushStartsF (cap : Nat) (starts : Array Nat) (base n : Nat) : Except Err (Array Nat) :=
  if starts.size + n ≤ cap then .ok (pushLoop starts base n 0) else .error .oob

def readStartF (starts : Array Nat) (i : Nat) : Except Err Nat :=
  match starts[i]? with
  | some p => .ok p
  | none => .error .oob

def readBytesF (buf : Array UInt8) (src len : Nat) : Except Err (List UInt8) :=
  if src + len ≤ buf.size then .ok (buf.extract src (src + len)).toList else .error .oob

def decodeSymF (c : Cfg) (st : FSt) (symTag : Nat) (inp : List UInt8) :
    Except Err (FSt × List UInt8) :=
  if symTag = 0 then .ok (st, inp) else
  match (if symTag = symbTagLong then uintRead inp else some (symTag, inp)) with
  | none => .error .reject
  | some (symLen, inp1) =>
    if symLen > maxSymbLen ∨ st.buf.size + symLen > c.bufLen then .error .reject else
    let lits := inp1.take symLen
    if lits.length < symLen then .error .reject else
    match writeBytesF c.bufLen st.buf lits with
    | .error e => .error e
    | .ok buf' =>
      match pushStartsF c.bufLen st.starts st.buf.size symLen with
      | .error e => .error e
      | .ok starts' => .ok (⟨buf', starts'⟩, inp1.drop symLen)

def decodeRefF (c : Cfg) (st : FSt) (refTag : Nat) (inp : List UInt8) :
    Except Err (FSt × List UInt8) :=
  if refTag = 0 then .ok (st, inp) else
  match (if refTag = refTagLong then uintRead inp else some (refTag, inp)) with
  | none => .error .reject
  | some (l0, inp1) =>
    let refLen := l0 + (startLen - 1)
    match uintRead inp1 with
    | none => .error .reject
    | some (refInd, inp2) =>
      if refInd = 0 ∨ st.starts.size < refInd then .error .reject else
      match readStartF st.starts (st.starts.size - refInd) with
      | .error e => .error e
      | .ok symPos =>
        if symPos + refLen > st.buf.size ∨ st.buf.size + refLen > c.bufLen then .error .reject
        else
        match readBytesF st.buf symPos refLen with
        | .error e => .error e
        | .ok bs =>
          match writeBytesF c.bufLen st.buf bs with
          | .error e => .error e
          | .ok buf' =>
            match pushStartsF c.bufLen st.starts st.buf.size 1 with
            | .error e => .error e
            | .ok starts' => .ok (⟨buf', starts'⟩, inp2)

def decodeElF (c : Cfg) (st : FSt) (tag : UInt8) (inp : List UInt8) :
    Except Err (FSt × List UInt8) :=
  match decodeSymF c st (tag.toNat / 32) inp with
  | .error e => .error e
  | .ok (st1, inp1) => decodeRefF c st1 (tag.toNat % 32) inp1

/-- result of a fast step, seen through `toD` -/
def liftF (r : Except Err (FSt × List UInt8)) : Except Err (DSt × List UInt8) :=
  match r with
  | .error e => .error e
  | .ok (s, t) => .ok (s.toD, t)

theorem pushLoop_toList (starts : Array Nat) (base n i : Nat) :
    (pushLoop starts base n i).toList = starts.toList ++ (List.range n).map (· + i + base) := by
  induction n generalizing starts i with
  | zero => simp [pushLoop]
  | succ n ih =>
    simp only [pushLoop, ih, Array.toList_push, List.append_assoc, List.singleton_append]
    congr 1
    rw [List.range_succ_eq_map, List.map_cons, List.map_map]
    simp only [Nat.zero_add, List.cons.injEq, true_and]
    apply List.map_congr_left
    intro a _
    simp only [Function.comp]
    omega

theorem toD_push (buf : Array UInt8) (starts : Array Nat) (bs : List UInt8) (base n : Nat) :
    FSt.toD ⟨buf ++ bs, pushLoop starts base n 0⟩ =
      ⟨buf.toList ++ bs, starts.toList ++ litStarts base n⟩ := by
  simp [FSt.toD, pushLoop_toList, litStarts]

theorem decodeSymF_eq (c : Cfg) (st : FSt) (t : Nat) (inp : List UInt8) :
    liftF (decodeSymF c st t inp) = decodeSym c st.toD t inp := by
  unfold decodeSymF decodeSym
  by_cases h0 : t = 0
  · simp only [h0, if_true, liftF]
  · simp only [h0, if_false]
    cases hu : (if t = symbTagLong then uintRead inp else some (t, inp)) with
    | none => simp only [liftF]
    | some p =>
      obtain ⟨symLen, inp1⟩ := p
      simp only [FSt.toD, Array.length_toList]
      by_cases hc1 : symLen > maxSymbLen ∨ st.buf.size + symLen > c.bufLen
      · simp only [hc1, if_true, liftF]
      · simp only [hc1, if_false]
        by_cases hc2 : (List.take symLen inp1).length < symLen
        · simp only [hc2, if_true, liftF]
        · simp only [hc2, if_false, writeBytesF, writeBytes, pushStartsF, pushStarts,
            Array.length_toList]
          by_cases hc3 : st.buf.size + (List.take symLen inp1).length ≤ c.bufLen
          · simp only [hc3, if_true]
            by_cases hc4 : st.starts.size + symLen ≤ c.bufLen
            · simp only [hc4, if_true, liftF, toD_push]
            · simp only [hc4, if_false, liftF]
          · simp only [hc3, if_false, liftF]

theorem decodeRefF_eq (c : Cfg) (st : FSt) (t : Nat) (inp : List UInt8) :
    liftF (decodeRefF c st t inp) = decodeRef c st.toD t inp := by
  unfold decodeRefF decodeRef
  by_cases h0 : t = 0
  · simp only [h0, if_true, liftF]
  · simp only [h0, if_false]
    cases hu : (if t = refTagLong then uintRead inp else some (t, inp)) with
    | none => simp only [liftF]
    | some p =>
      obtain ⟨l0, inp1⟩ := p
      simp only
      cases hu2 : uintRead inp1 with
      | none => simp only [liftF]
      | some p2 =>
        obtain ⟨refInd, inp2⟩ := p2
        simp only [FSt.toD, Array.length_toList]
        by_cases hc0 : refInd = 0 ∨ st.starts.size < refInd
        · simp only [hc0, if_true, liftF]
        · simp only [hc0, if_false, readStartF, readStart, Array.getElem?_toList]
          cases hs : st.starts[st.starts.size - refInd]? with
          | none => simp only [liftF]
          | some sp =>
            simp only
            by_cases hc1 : sp + (l0 + (startLen - 1)) > st.buf.size ∨
                st.buf.size + (l0 + (startLen - 1)) > c.bufLen
            · simp only [hc1, if_true, liftF]
            · simp only [hc1, if_false, readBytesF, readBytes, Array.length_toList]
              by_cases hc2 : sp + (l0 + (startLen - 1)) ≤ st.buf.size
              · simp only [hc2, if_true, writeBytesF, writeBytes, pushStartsF, pushStarts,
                  Array.length_toList, Array.toList_extract, List.extract_eq_take_drop,
                  Nat.add_sub_cancel_left]
                by_cases hc3 : st.buf.size +
                    (List.take (l0 + (startLen - 1)) (List.drop sp st.buf.toList)).length ≤ c.bufLen
                · simp only [hc3, if_true]
                  by_cases hc4 : st.starts.size + 1 ≤ c.bufLen
                  · simp only [hc4, if_true, liftF, toD_push]
                  · simp only [hc4, if_false, liftF]
                · simp only [hc3, if_false, liftF]
              · simp only [hc2, if_false, liftF]

theorem decodeElF_eq (c : Cfg) (st : FSt) (tag : UInt8) (inp : List UInt8) :
    liftF (decodeElF c st tag inp) = decodeEl c st.toD tag inp := by
  unfold decodeElF decodeEl
  have h := decodeSymF_eq c st (tag.toNat / 32) inp
  cases hs : decodeSymF c st (tag.toNat / 32) inp with
  | error e => rw [hs] at h; simp only [liftF] at h; rw [← h]; rfl
  | ok p =>
    obtain ⟨st1, inp1⟩ := p
    rw [hs] at h
    simp only [liftF] at h
    rw [← h]
    exact decodeRefF_eq c st1 _ inp1

theorem decodeElF_len {c : Cfg} {st st' : FSt} {tag : UInt8} {inp r : List UInt8}
    (h : decodeElF c st tag inp = .ok (st', r)) : r.length ≤ inp.length := by
  have h2 := decodeElF_eq c st tag inp
  rw [h] at h2
  exact decodeEl_len h2.symm

set_option linter.unusedVariables false in
def decChunksF (c : Cfg) (hash : UInt64) (st : FSt) (acc : List UInt8) (inp : List UInt8) :
    Except Err (List UInt8) :=
  match inp with
  | [] => .error .reject
  | tag :: rest =>
    if tag = 0 then
      if rest.length ≠ 8 then .error .reject else
      let hash' := if st.buf.size ≠ 0 then c.H st.buf.toList hash else hash
      if leVal rest = hash'.toNat then .ok (acc ++ st.buf.toList) else .error .reject
    else
      match hd : decodeElF c st tag rest with
      | .error e => .error e
      | .ok (st', rest') =>
        if st'.buf.size ≥ c.bufLen then
          decChunksF c (c.H st'.buf.toList hash) FSt.init (acc ++ st'.buf.toList) rest'
        else decChunksF c hash st' acc rest'
termination_by inp.length
decreasing_by
  all_goals (have := decodeElF_len hd; simp only [List.length_cons]; omega)

def decodeF (c : Cfg) (s : List UInt8) : Except Err (List UInt8) :=
  match decChunksF c checkHashSeed FSt.init [] (s.drop 3) with
  | .error e => .error e
  | .ok d => if s.take 3 = dataPrefix then .ok d else .error .reject

end MirVerif.Reduce
