import MirVerif.Model.Footprint
/-!
# C18 — code pages: protection requests of a context stay inside pages it mapped

Executable code lives in pages a context obtains through its `MIR_code_alloc_t` (`mem_map`) and
patches inside a `mem_protect(W|X) … mem_protect(R|X)` window (`_MIR_set_code`).  The protection state
of a page is part of the memory of the context that mapped it: in the footprint model page `p`
mapped by context `c` is the location `Loc.ctx c p`.  A protection request issued on behalf of
context `i` is an operation writing the protection state of every page of its window, so it is
`Confined i` exactly when every page of the window was mapped by `i` (`Props/C18.lean`).

`protStart`/`protLen` are the window arithmetic of `_MIR_change_code` and `_MIR_update_code_arr`
(mir.c): `start = addr / page_size * page_size; len = addr + code_len - start`.  The operating
system rounds the request outwards to whole pages: pages `start / page … (start + len - 1) / page`.

`monitor` is the executable invariant checker run by `mirdrv_c18` over the event sequence recorded
by the recording code allocators of `harness/c18_threads.c`.
-/
namespace MirVerif.Footprint

def protStart (page addr : Nat) : Nat := addr / page * page
def protLen (page addr len : Nat) : Nat := addr + len - protStart page addr

/-- first / last page containing a byte of `[addr, addr+len)` (`len > 0`) -/
def firstPage (page addr : Nat) : Nat := addr / page
def lastPage (page addr len : Nat) : Nat := (addr + len - 1) / page

/-- a mapping: pages `lo … lo+n-1` -/
structure Mapping where
  lo : Nat
  n : Nat
  deriving Repr

def ownsPage (maps : List Mapping) (p : Nat) : Bool := maps.any (fun m => m.lo ≤ p && p < m.lo + m.n)

/-- every page of the window `lo … lo+n-1` lies in a live mapping of the context -/
def windowOwned (maps : List Mapping) (lo n : Nat) : Bool := (List.range' lo n).all (ownsPage maps)

/-- protection request on pages `lo … lo+n-1` issued by thread/context `i`, where `owner p` is the
context that mapped page `p`: it (re)writes the protection state of every page of the window -/
def protOp (owner : Nat → Nat) (id lo n : Nat) (v : Nat) : Op :=
  mkOp id [] ((List.range' lo n).map (fun p => Loc.ctx (owner p) p)) (some v)

/-! ## Event monitor -/

inductive CaEv where
  | map (lo n : Nat)
  | unmap (lo n : Nat)
  | protect (lo n : Nat)
  | patch (addr len : Nat)     -- a `_MIR_change_code` / `_MIR_update_code` call announced by the harness
  deriving Repr

structure MonState where
  maps : List Mapping := []
  pending : Option (Nat × Nat) := none     -- window (first page, #pages) the last patch must use
  pendingLeft : Nat := 0                   -- protect requests still expected for it (W|X, R|X)
  reqs : Nat := 0
  bad : List (Nat × Nat × Nat) := []       -- (event index, lo, n) of requests outside own pages
  patches : Nat := 0
  patchBad : List (Nat × Nat × Nat × Nat × Nat) := []  -- (index, lo, n, expected lo, expected n)
  boundary : Nat := 0                      -- patches whose last byte is the last byte of a page

def monStep (page : Nat) (s : MonState) (idx : Nat) : CaEv → MonState
  | .map lo n => { s with maps := { lo := lo, n := n } :: s.maps }
  | .unmap lo n =>
    let s := { s with reqs := s.reqs + 1 }
    if windowOwned s.maps lo n then
      { s with maps := s.maps.filter (fun m => !(m.lo == lo && m.n == n)) }
    else { s with bad := s.bad ++ [(idx, lo, n)] }
  | .protect lo n =>
    let s := { s with reqs := s.reqs + 1 }
    let s := if windowOwned s.maps lo n then s else { s with bad := s.bad ++ [(idx, lo, n)] }
    match s.pending with
    | some (elo, en) =>
      let s := if lo == elo && n == en then s else { s with patchBad := s.patchBad ++ [(idx, lo, n, elo, en)] }
      if s.pendingLeft ≤ 1 then { s with pending := none, pendingLeft := 0 }
      else { s with pendingLeft := s.pendingLeft - 1 }
    | none => s
  | .patch addr len =>
    let st := protStart page addr
    let ln := protLen page addr len
    let f := st / page
    let l := (st + ln - 1) / page
    { s with pending := some (f, l + 1 - f), pendingLeft := 2, patches := s.patches + 1,
             boundary := s.boundary + (if (addr + len) % page == 0 then 1 else 0) }

def monitor (page : Nat) (evs : List CaEv) : MonState :=
  (evs.zipIdx).foldl (fun s (e, i) => monStep page s i e) {}

end MirVerif.Footprint
