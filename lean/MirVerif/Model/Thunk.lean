import MirVerif.Base.Bits
/-! # C03 — the x86-64 function thunk and the interface state machine

Model of the code that gives every MIR function a *stable public address*:

* `mir-x86_64.c`  `short_jmp_pattern`, `long_jmp_pattern`, `_MIR_get_thunk`, `_MIR_get_thunk_addr`,
  `_MIR_redirect_thunk`;
* `mir.c`         `MIR_load_module`: the thunk is allocated only when `item->addr == NULL` and is
  immediately redirected to `undefined_interface`; `MIR_link`: `finish_func_interpretation` and
  `set_interface` for every function of `modules_to_link`;
* `mir-interp.c`  `MIR_set_interp_interface`; `mir-gen.c`: `generate_func_code`, `MIR_gen`,
  `MIR_set_gen_interface`, `generate_func_and_redirect`, `MIR_set_lazy_gen_interface`,
  `MIR_set_lazy_bb_gen_interface` and the two generation hooks reached by the first call
  (`generate_func_and_redirect_to_func_code`, `generate_func_and_redirect_to_bb_gen`).

A thunk is 13 bytes.  `redirect` is a transcription of `_MIR_redirect_thunk` (copy a pattern, `memcpy`
the operands into it); `thunkTarget` is what an x86-64 CPU does when it starts executing these
bytes at address `a` (only the two encodings the code emits are decoded); `getThunkAddr` is
`_MIR_get_thunk_addr`.  Nothing here depends on Mathlib: the driver `mirdrv_c03` links natively. -/
namespace MirVerif.Thunk

abbrev Byte := BitVec 8

/-! ## bytes -/

/-- the low 4 bytes of `n`, little endian (`memcpy (p, &disp, 4)` on a little-endian target) -/
def le32 (n : Nat) : List Byte :=
  [BitVec.ofNat 8 n, BitVec.ofNat 8 (n / 256), BitVec.ofNat 8 (n / 65536), BitVec.ofNat 8 (n / 16777216)]

/-- the low 8 bytes of `n`, little endian (`memcpy (p, &to, 8)`) -/
def le64 (n : Nat) : List Byte :=
  le32 n ++ le32 (n / 4294967296)

/-- value of a little-endian byte string -/
def ofLe : List Byte → Nat
  | [] => 0
  | b :: bs => b.toNat + 256 * ofLe bs

/-- `memcpy (pat + off, src, |src|)` -/
def splice (pat : List Byte) (off : Nat) (src : List Byte) : List Byte :=
  pat.take off ++ src ++ pat.drop (off + src.length)

/-! ## the thunk (mir-x86_64.c) -/

/-- `short_jmp_pattern`: `jmp rel32` followed by an 8-byte holder of the absolute address -/
def shortJmpPattern : List Byte := [0xe9, 0, 0, 0, 0, 0, 0, 0, 0, 0, 0, 0, 0]
/-- `long_jmp_pattern`: `movabsq imm64, %r11 ; jmpq *%r11` -/
def longJmpPattern : List Byte := [0x49, 0xbb, 0, 0, 0, 0, 0, 0, 0, 0, 0x41, 0xff, 0xe3]

/-- `int64_t disp = (char *) to - ((char *) thunk + 5)` (wrap-around pointer arithmetic) -/
def disp (a to : W64) : W64 := to - (a + 5)

/-- `INT32_MIN <= disp && disp <= INT32_MAX` -/
def shortP (a to : W64) : Bool :=
  decide (-2147483648 ≤ (disp a to).toInt) && decide ((disp a to).toInt ≤ 2147483647)

/-- the 13 bytes `_MIR_redirect_thunk (ctx, a, to)` writes at `a` -/
def redirect (a to : W64) : List Byte :=
  if shortP a to then
    splice (splice shortJmpPattern 1 (le32 (disp a to).toNat)) 5 (le64 to.toNat)
  else
    splice longJmpPattern 2 (le64 to.toNat)

/-- the bytes `_MIR_get_thunk` publishes -/
def freshThunk : List Byte := shortJmpPattern

/-- Where control is after the CPU has executed the thunk found at address `a`:
`E9 rel32` jumps to `a + 5 + sext rel32`; `49 BB imm64 ; 41 FF E3` loads r11 and jumps to it.
Anything else is not a thunk. -/
def thunkTarget (a : W64) : List Byte → Option W64
  | [b0, b1, b2, b3, b4, b5, b6, b7, b8, b9, b10, b11, b12] =>
    if b0 = 0xe9 then
      some (a + 5 + (BitVec.ofNat 32 (ofLe [b1, b2, b3, b4])).signExtend 64)
    else if b0 = 0x49 ∧ b1 = 0xbb ∧ b10 = 0x41 ∧ b11 = 0xff ∧ b12 = 0xe3 then
      some (BitVec.ofNat 64 (ofLe [b2, b3, b4, b5, b6, b7, b8, b9]))
    else none
  | _ => none

/-- `_MIR_get_thunk_addr`: the address holder is at offset 5 of a short thunk, 2 of a long one -/
def getThunkAddr (bs : List Byte) : W64 :=
  let off := if bs.head? = some 0xe9 then 5 else 2
  BitVec.ofNat 64 (ofLe ((bs.drop off).take 8))

/-! ## interface state machine -/

inductive Iface | interp | gen | lazy | lazyBB
deriving DecidableEq, Repr

/-- what the thunk of a function was last redirected to -/
inductive Kind
  | undefined    -- `undefined_interface` (after load, before link)
  | shim         -- `_MIR_get_interp_shim (ctx, f, interp)`
  | lazyWrapper  -- `_MIR_get_wrapper (ctx, f, generate_func_and_redirect_to_func_code)`
  | bbWrapper    -- `_MIR_get_wrapper (ctx, f, generate_func_and_redirect_to_bb_gen)`
  | code         -- `f->call_addr` (= `f->machine_code`)
  | bbThunk      -- the bb thunk of the first bb version of `f`
deriving DecidableEq, Repr

/-- per-function state (fields of `MIR_item_t` / `MIR_func_t` plus the thunk's bytes) -/
structure FuncSt where
  addr : Option W64 := none         -- `item->addr`, the public address
  bytes : List Byte := []           -- the 13 bytes at `item->addr`
  kind : Kind := .undefined         -- who the last `to` was
  to : W64 := 0                     -- the last `to`
  machineCode : Option W64 := none  -- `func->machine_code` (= `call_addr`: no MIR_GEN_CALL_TRACE)
  bbData : Bool := false            -- `item->data` holds bb stubs
  interpData : Bool := false        -- `item->data`/`insn->data` hold the interpreter's prepared code
  pending : Bool := false           -- the module is in `modules_to_link`
deriving Repr

/-- Events.  Addresses handed out by `_MIR_publish_code` are *inputs* of the event (the model makes
no assumption about the allocator): `thunkAt f` is what `_MIR_get_thunk` would return for `f`,
`pub` is the address of the code published while the event is processed (shim, wrapper, machine
code, bb thunk). -/
inductive Event
  | load (fs : List Nat) (thunkAt : Nat → W64)  -- `MIR_load_module` of a module with functions `fs`
  | link (i : Iface) (pub : Nat → W64)          -- `MIR_link (ctx, MIR_set_<i>_interface, _)`
  | setIface (i : Iface) (f : Nat) (pub : W64)  -- `MIR_set_<i>_interface (ctx, f)` called directly
  | firstCall (f : Nat) (pub : W64)             -- a call through `item->addr` of `f`
  | gen (f : Nat) (pub : W64)                   -- `MIR_gen (ctx, f)`
  | bbgen (f : Nat) (pub : W64)                 -- `generate_func_and_redirect (ctx, f, FALSE)`

/-- `_MIR_redirect_thunk (ctx, item->addr, to)` with bookkeeping of who `to` is -/
def FuncSt.redirectTo (s : FuncSt) (k : Kind) (to : W64) : FuncSt :=
  match s.addr with
  | some a => { s with bytes := redirect a to, kind := k, to := to }
  | none => s   -- the real code would write through a NULL pointer; no history below does this

/-- `generate_func_code (ctx, f, TRUE)`: generated once, afterwards only redirected -/
def FuncSt.genCode (s : FuncSt) (pub : W64) : FuncSt :=
  match s.machineCode with
  | some c => s.redirectTo .code c
  | none => { (s.redirectTo .code pub) with machineCode := some pub }

/-- `generate_func_and_redirect (ctx, f, FALSE)`.  Without machine code: bb stubs are created, the
thunk is redirected to the bb thunk of the first bb version; no machine code yet.  When
whole-function code already exists (the function was generated before and is linked again under
the lazy-bb interface) `generate_func_code` has redirected the thunk to that code and nothing
else happens (fix C03:relink-bb-after-gen; before it the bb stubs of a function that has none
were dereferenced). -/
def FuncSt.genBB (s : FuncSt) (pub : W64) : FuncSt :=
  match s.machineCode with
  | some c => s.redirectTo .code c
  | none => { (s.redirectTo .bbThunk pub) with bbData := true }

/-- `MIR_set_<i>_interface (ctx, f)` -/
def FuncSt.setIface (s : FuncSt) (i : Iface) (pub : W64) : FuncSt :=
  match i with
  | .interp => s.redirectTo .shim pub
  | .gen => s.genCode pub
  | .lazy => s.redirectTo .lazyWrapper pub
  | .lazyBB => s.redirectTo .bbWrapper pub

/-- `MIR_load_module` reaching the function item -/
def FuncSt.load (s : FuncSt) (u fresh : W64) : FuncSt :=
  let s1 : FuncSt := match s.addr with
    | some _ => s
    | none => { s with addr := some fresh, bytes := freshThunk }
  { (s1.redirectTo .undefined u) with pending := true }

/-- effect of an event on function `f`; `u` is the address of `undefined_interface` -/
def stepF (u : W64) (e : Event) (f : Nat) (s : FuncSt) : FuncSt :=
  match e with
  | .load fs thunkAt => if f ∈ fs then s.load u (thunkAt f) else s
  | .link i pub =>   -- `finish_func_interpretation (item)` precedes `set_interface (ctx, item)`
    if s.pending then { ({ s with interpData := false }.setIface i (pub f)) with pending := false } else s
  | .setIface i g pub => if f = g then s.setIface i pub else s
  | .firstCall g pub =>
    if f = g then
      match s.kind with
      | .lazyWrapper => s.genCode pub
      | .bbWrapper => s.genBB pub
      | .shim => { s with interpData := true }   -- the interpreter prepares the function on its first call
      | _ => s
    else s
  | .gen g pub => if f = g then s.genCode pub else s
  | .bbgen g pub => if f = g then s.genBB pub else s

abbrev State := Nat → FuncSt

def init : State := fun _ => {}

def step (u : W64) (s : State) (e : Event) : State := fun f => stepF u e f (s f)

def run (u : W64) (s : State) (h : List Event) : State := h.foldl (step u) s

/-- the public address of `f` -/
def addr (s : State) (f : Nat) : Option W64 := (s f).addr

/-- where a call through the public address of `f` arrives (decoded from the thunk's bytes) -/
def target (s : State) (f : Nat) : Option W64 :=
  match (s f).addr with
  | some a => thunkTarget a (s f).bytes
  | none => none

/-- Histories the API admits: a function is used only after it was loaded and linked (simplified);
a module whose functions have bb stubs or were interpreted is not loaded again; the generator is not applied to a
function whose `data` fields are in use (`gen_assert (func_item->data == NULL)` in `generate_func_code`):
by bb stubs, or by the interpreter — `finish_func_interpretation` is reachable only through
`MIR_link`, so a function that was already interpreted cannot be handed to the generator without
re-loading it.  (A function that already has machine code may be linked under the lazy-bb interface:
its first call leads to the existing code.) -/
def admissible (s : State) : Event → Bool
  | .load fs _ => fs.all fun f => !(s f).bbData && !(s f).interpData   -- `assert (item->data == NULL)` in `MIR_link`
  | .link _ _ => true
  | .setIface i f _ =>
    (s f).addr.isSome && !(s f).pending && (match i with
      | .gen => !(s f).bbData && !(s f).interpData
      | _ => true)
  | .firstCall f _ =>
    (s f).addr.isSome && !(s f).pending && (match (s f).kind with
      | .lazyWrapper => !(s f).bbData && !(s f).interpData
      | .bbWrapper => !(s f).bbData && !(s f).interpData
      | .undefined => false
      | _ => true)
  | .gen f _ => (s f).addr.isSome && !(s f).pending && !(s f).bbData && !(s f).interpData
  | .bbgen f _ =>
    (s f).addr.isSome && !(s f).pending && !(s f).bbData && !(s f).interpData

end MirVerif.Thunk
