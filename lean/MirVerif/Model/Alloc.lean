/-
C17 — the allocator ledger (monitor).

`step : Ledger M → Ev → Except Violation (Ledger M)` is the executable statement of the contract of
CUSTOM-ALLOCATORS.md as seen by a *checking* allocator pair:

* general purpose allocator (`MIR_alloc`): malloc / calloc / realloc(ptr, old_size, new_size) / free;
  every block handed out is remembered with its size; `realloc` must report the block's current
  size; `free`/`realloc` must name a live block; any direct use of the libc allocator by library code
  (`raw`) is a violation;
* code allocator (`MIR_code_alloc`): mem_map / mem_unmap / mem_protect and the *observed* writes to
  mapped code memory; a write is legal only on pages that are currently write-enabled, i.e. between
  a `PROT_WRITE_EXEC` request and the following `PROT_READ_EXEC` request covering the page;
* `quiesce` (an API call returned) requires that no write window is open, `fin` (after
  MIR_gen_finish / c2mir_finish / MIR_finish) requires an empty live set and no mapped region.

The live set is abstract (`LiveMap`): the theorems hold for every lawful implementation, the native
driver `mirdrv_c17` runs the same `step` on `Std.HashMap`, the `decide`-able examples on an
association list.  No Mathlib.
-/
import Std.Data.HashMap

namespace MirVerif.Alloc

/-! ### abstract finite map address ↦ size -/

class LiveMap (M : Type) where
  empty : M
  get? : M → Nat → Option Nat
  insert : M → Nat → Nat → M
  erase : M → Nat → M
  isEmpty : M → Bool
  toList : M → List (Nat × Nat)

class LawfulLiveMap (M : Type) [LiveMap M] : Prop where
  get?_empty : ∀ k, LiveMap.get? (LiveMap.empty : M) k = none
  get?_insert : ∀ (m : M) k v a, LiveMap.get? (LiveMap.insert m k v) a = if a = k then some v else LiveMap.get? m a
  get?_erase : ∀ (m : M) k a, LiveMap.get? (LiveMap.erase m k) a = if a = k then none else LiveMap.get? m a
  isEmpty_iff : ∀ (m : M), LiveMap.isEmpty m = true ↔ ∀ k, LiveMap.get? m k = none

/-- association list implementation (kernel-reducible, used by `decide` examples) -/
abbrev AList := List (Nat × Nat)

def AList.erase (m : AList) (k : Nat) : AList := m.filter (fun p => p.1 != k)

instance : LiveMap AList where
  empty := []
  get? m k := m.lookup k
  insert m k v := (k, v) :: AList.erase m k
  erase := AList.erase
  isEmpty m := m.isEmpty
  toList m := m

instance : LiveMap (Std.HashMap Nat Nat) where
  empty := ∅
  get? m k := m[k]?
  insert m k v := m.insert k v
  erase m k := m.erase k
  isEmpty m := m.isEmpty
  toList m := m.toList

/-! ### events, violations, ledger -/

inductive Prot where
  | writeExec
  | readExec
  deriving DecidableEq, Repr, Inhabited

/-- which libc entry point library code called directly -/
inductive RawFn where
  | malloc | calloc | realloc | free | mmap | munmap | mprotect
  deriving DecidableEq, Repr, Inhabited

inductive Ev where
  | malloc (size ret : Nat)
  | calloc (num size ret : Nat)
  | realloc (ptr oldSize newSize ret : Nat)
  | free (ptr : Nat)
  | raw (fn : RawFn) (ptr size caller : Nat)
  | map (len ret : Nat)
  | unmap (ptr len : Nat)
  | protect (ptr len : Nat) (p : Prot)
  | write (ptr len : Nat)
  | quiesce
  | fin
  deriving DecidableEq, Repr, Inhabited

inductive Violation where
  | badTrace (why : String)                       -- allocator (harness) misbehaved: NULL / duplicate block
  | freeNotLive (ptr : Nat)                        -- double free / foreign pointer
  | reallocNotLive (ptr : Nat)
  | reallocOldSize (ptr reported actual : Nat)     -- the realloc contract
  | reallocNullOld (reported : Nat)
  | rawUse (fn : RawFn) (ptr size caller : Nat)    -- libc allocator used by library code
  | rawOnLedgerBlock (fn : RawFn) (ptr caller : Nat)  -- user-allocator block given to libc free/realloc
  | unmapMismatch (ptr len : Nat)
  | unmapWritable (ptr len : Nat)
  | protectUnaligned (ptr : Nat)
  | protectOutside (ptr len : Nat)
  | writeOutsideWindow (ptr len : Nat)
  | windowLeftOpen (page : Nat)
  | leak (blocks : Nat) (first size : Nat)
  | mapLeak (regions : Nat) (first len : Nat)
  deriving DecidableEq, Repr, Inhabited

structure Ledger (M : Type) where
  ps : Nat                      -- page size
  live : M                      -- general purpose blocks: address ↦ size
  maps : List (Nat × Nat)       -- code regions (start, requested len)
  wr : List Nat                 -- write-enabled page numbers

variable {M : Type} [LiveMap M]

def Ledger.init (ps : Nat) : Ledger M := { ps := ps, live := LiveMap.empty, maps := [], wr := [] }

/-- `x` rounded up to a multiple of `ps` -/
def roundUp (ps x : Nat) : Nat := (x + ps - 1) / ps * ps

/-- page numbers touched by the byte range `[ptr, ptr+len)`, `len > 0` -/
def pagesOf (ps ptr len : Nat) : List Nat :=
  if len = 0 then [] else List.range' (ptr / ps) ((ptr + len - 1) / ps - ptr / ps + 1)

def allocNew (L : Ledger M) (ret size : Nat) : Except Violation (Ledger M) :=
  if ret = 0 then .error (.badTrace "allocator returned NULL")
  else match LiveMap.get? L.live ret with
    | some _ => .error (.badTrace "allocator returned a live block")
    | none => .ok { L with live := LiveMap.insert L.live ret size }

/-- a protect request `[ptr, ptr+len)` is inside the mapped region `(s, l)` after page rounding -/
def insideRegion (ps ptr len : Nat) (r : Nat × Nat) : Bool :=
  r.1 ≤ ptr && roundUp ps (ptr + len) ≤ r.1 + roundUp ps r.2

def step (L : Ledger M) : Ev → Except Violation (Ledger M)
  | .malloc size ret => allocNew L ret size
  | .calloc num size ret => allocNew L ret (num * size)
  | .realloc ptr old new ret =>
      if ptr = 0 then
        if old = 0 then allocNew L ret new else .error (.reallocNullOld old)
      else match LiveMap.get? L.live ptr with
        | none => .error (.reallocNotLive ptr)
        | some sz =>
            if sz = old then allocNew { L with live := LiveMap.erase L.live ptr } ret new
            else .error (.reallocOldSize ptr old sz)
  | .free ptr =>
      if ptr = 0 then .ok L
      else match LiveMap.get? L.live ptr with
        | none => .error (.freeNotLive ptr)
        | some _ => .ok { L with live := LiveMap.erase L.live ptr }
  | .raw fn ptr size caller =>
      match LiveMap.get? L.live ptr with
      | some _ => if fn = .free ∨ fn = .realloc then .error (.rawOnLedgerBlock fn ptr caller)
                  else .error (.rawUse fn ptr size caller)
      | none => .error (.rawUse fn ptr size caller)
  | .map len ret =>
      if ret = 0 then .error (.badTrace "mem_map returned NULL")
      else if ret % L.ps ≠ 0 then .error (.badTrace "mem_map result not page aligned")
      else if L.maps.all (fun r => ret + roundUp L.ps len ≤ r.1 || r.1 + roundUp L.ps r.2 ≤ ret) then
        .ok { L with maps := (ret, len) :: L.maps }
      else .error (.badTrace "mem_map result overlaps a mapped region")
  | .unmap ptr len =>
      if L.maps.contains (ptr, len) then
        if (pagesOf L.ps ptr (roundUp L.ps len)).any (fun p => L.wr.contains p) then .error (.unmapWritable ptr len)
        else .ok { L with maps := L.maps.erase (ptr, len) }
      else .error (.unmapMismatch ptr len)
  | .protect ptr len p =>
      if ptr % L.ps ≠ 0 then .error (.protectUnaligned ptr)
      else if len = 0 then .ok L
      else if L.maps.any (insideRegion L.ps ptr len) then
        match p with
        | .writeExec => .ok { L with wr := pagesOf L.ps ptr len ++ L.wr }
        | .readExec => .ok { L with wr := L.wr.filter (fun q => !(pagesOf L.ps ptr len).contains q) }
      else .error (.protectOutside ptr len)
  | .write ptr len =>
      if (pagesOf L.ps ptr len).all (fun p => L.wr.contains p) then .ok L
      else .error (.writeOutsideWindow ptr len)
  | .quiesce =>
      match L.wr with
      | [] => .ok L
      | p :: _ => .error (.windowLeftOpen p)
  | .fin =>
      match L.wr with
      | p :: _ => .error (.windowLeftOpen p)
      | [] =>
        match L.maps with
        | r :: rest => .error (.mapLeak (rest.length + 1) r.1 r.2)
        | [] =>
          if LiveMap.isEmpty L.live then .ok L
          else
            let l := LiveMap.toList L.live
            .error (.leak l.length (l.head?.map (·.1) |>.getD 0) (l.head?.map (·.2) |>.getD 0))

/-- run a whole trace; stops at the first violation -/
def run (L : Ledger M) : List Ev → Except Violation (Ledger M)
  | [] => .ok L
  | e :: es => match step L e with
    | .ok L' => run L' es
    | .error v => .error v

/-- the violation a run ended with, if any -/
def verdict (r : Except Violation (Ledger M)) : Option Violation :=
  match r with
  | .ok _ => none
  | .error v => some v

/-- the trace is accepted from the initial ledger and ends with `fin` accepted: nothing live, nothing
mapped, no write window open -/
def accepts (ps : Nat) (tr : List Ev) : Bool :=
  match run (Ledger.init ps : Ledger M) (tr ++ [.fin]) with
  | .ok _ => true
  | .error _ => false

/-! ### lenient monitor used by the driver: report a violation, repair the ledger, continue
(so that one known finding does not hide later ones) -/

def recover (L : Ledger M) : Ev → Ledger M
  | .realloc ptr _ new ret =>
      if ret = 0 then L else
      { L with live := LiveMap.insert (LiveMap.erase L.live ptr) ret new }
  | .raw fn ptr _ _ =>
      if fn = .free ∨ fn = .realloc then { L with live := LiveMap.erase L.live ptr } else L
  | .unmap ptr len =>
      { L with maps := L.maps.erase (ptr, len),
               wr := L.wr.filter (fun q => !(pagesOf L.ps ptr (roundUp L.ps len)).contains q) }
  | .protect ptr len .readExec =>
      { L with wr := L.wr.filter (fun q => !(pagesOf L.ps ptr len).contains q) }
  | .quiesce => { L with wr := [] }
  | .fin => { L with wr := [], maps := [], live := LiveMap.empty }
  | _ => L

/-! `step` split into a read-only acceptance test and an update, so that the native monitor can
update its hash map in place (`step` keeps the old ledger alive for the error case).
`Lemmas/Alloc.lean: step_eq_check_apply` proves the two formulations equal. -/

def checkNew (L : Ledger M) (ret : Nat) : Option Violation :=
  if ret = 0 then some (.badTrace "allocator returned NULL")
  else match LiveMap.get? L.live ret with
    | some _ => some (.badTrace "allocator returned a live block")
    | none => none

/-- `none` = the event is accepted -/
def check (L : Ledger M) : Ev → Option Violation
  | .malloc _ ret => checkNew L ret
  | .calloc _ _ ret => checkNew L ret
  | .realloc ptr old _ ret =>
      if ptr = 0 then
        if old = 0 then checkNew L ret else some (.reallocNullOld old)
      else match LiveMap.get? L.live ptr with
        | none => some (.reallocNotLive ptr)
        | some sz =>
            if sz = old then
              (if ret = 0 then some (.badTrace "allocator returned NULL")
               else if ret = ptr then none
               else match LiveMap.get? L.live ret with
                 | some _ => some (.badTrace "allocator returned a live block")
                 | none => none)
            else some (.reallocOldSize ptr old sz)
  | .free ptr =>
      if ptr = 0 then none
      else match LiveMap.get? L.live ptr with
        | none => some (.freeNotLive ptr)
        | some _ => none
  | .raw fn ptr size caller =>
      match LiveMap.get? L.live ptr with
      | some _ => if fn = .free ∨ fn = .realloc then some (.rawOnLedgerBlock fn ptr caller)
                  else some (.rawUse fn ptr size caller)
      | none => some (.rawUse fn ptr size caller)
  | .map len ret =>
      if ret = 0 then some (.badTrace "mem_map returned NULL")
      else if ret % L.ps ≠ 0 then some (.badTrace "mem_map result not page aligned")
      else if L.maps.all (fun r => ret + roundUp L.ps len ≤ r.1 || r.1 + roundUp L.ps r.2 ≤ ret) then none
      else some (.badTrace "mem_map result overlaps a mapped region")
  | .unmap ptr len =>
      if L.maps.contains (ptr, len) then
        if (pagesOf L.ps ptr (roundUp L.ps len)).any (fun p => L.wr.contains p) then some (.unmapWritable ptr len)
        else none
      else some (.unmapMismatch ptr len)
  | .protect ptr len _ =>
      if ptr % L.ps ≠ 0 then some (.protectUnaligned ptr)
      else if len = 0 then none
      else if L.maps.any (insideRegion L.ps ptr len) then none
      else some (.protectOutside ptr len)
  | .write ptr len =>
      if (pagesOf L.ps ptr len).all (fun p => L.wr.contains p) then none
      else some (.writeOutsideWindow ptr len)
  | .quiesce =>
      match L.wr with
      | [] => none
      | p :: _ => some (.windowLeftOpen p)
  | .fin =>
      match L.wr with
      | p :: _ => some (.windowLeftOpen p)
      | [] =>
        match L.maps with
        | r :: rest => some (.mapLeak (rest.length + 1) r.1 r.2)
        | [] =>
          if LiveMap.isEmpty L.live then none
          else
            let l := LiveMap.toList L.live
            some (.leak l.length (l.head?.map (·.1) |>.getD 0) (l.head?.map (·.2) |>.getD 0))

/-- effect of an accepted event -/
def applyEv (L : Ledger M) : Ev → Ledger M
  | .malloc size ret => { L with live := LiveMap.insert L.live ret size }
  | .calloc num size ret => { L with live := LiveMap.insert L.live ret (num * size) }
  | .realloc ptr _ new ret =>
      if ptr = 0 then { L with live := LiveMap.insert L.live ret new }
      else { L with live := LiveMap.insert (LiveMap.erase L.live ptr) ret new }
  | .free ptr => if ptr = 0 then L else { L with live := LiveMap.erase L.live ptr }
  | .raw .. => L
  | .map len ret => { L with maps := (ret, len) :: L.maps }
  | .unmap ptr len => { L with maps := L.maps.erase (ptr, len) }
  | .protect ptr len p =>
      if len = 0 then L
      else match p with
        | .writeExec => { L with wr := pagesOf L.ps ptr len ++ L.wr }
        | .readExec => { L with wr := L.wr.filter (fun q => !(pagesOf L.ps ptr len).contains q) }
  | .write .. => L
  | .quiesce => L
  | .fin => L

/-- the monitor's step: accepted events are applied; a violation is reported and repaired -/
def stepLenient (L : Ledger M) (e : Ev) : Ledger M × Option Violation :=
  match check L e with
  | none => (applyEv L e, none)
  | some v => (recover L e, some v)

end MirVerif.Alloc
