import MirVerif.Model.Htab
/-!
# Array-backed twin of the HTAB model (for the driver only)

`Model/Htab.lean` keeps the two arrays as `List`s, which makes the proofs pleasant but every access
O(size).  This file repeats the same definitions over `Array`; `Lemmas/HtabArr.lean` proves that the
twin is the list model seen through `TabA.toTab` (`stepA_toTab`, `runA_toTab`), so every theorem about
`MirVerif.Htab.step`/`run` is a theorem about what the driver executes.
-/
namespace MirVerif.Htab

variable {α : Type}

structure TabA (α : Type) where
  entries : Array Slot
  els : Array (El α)
  cap : Nat
  num : Nat
  coll : Nat

def TabA.toTab (t : TabA α) : Tab α :=
  { entries := t.entries.toList, els := t.els.toList, cap := t.cap, num := t.num, coll := t.coll }

def entA (t : TabA α) (p : Nat) : Slot := t.entries.getD p .empty

def scanA (eq : α → α → Bool) (t : TabA α) (h : Nat) (x : α) :
    Nat → Nat → Nat → Option Nat → Nat → Res α
  | 0, _, _, _, _ => .noFuel
  | fuel + 1, ind, pb, ld, c =>
    match entA t ind with
    | .empty => .absent ind ld c
    | .deleted =>
      scanA eq t h x fuel (nextInd t.entries.size ind (pb / 2048)) (pb / 2048) (some ind) (c + 1)
    | .idx i =>
      match t.els[i]? with
      | some e =>
        if e.hash = h ∧ eq e.el x = true then .found ind i e c
        else scanA eq t h x fuel (nextInd t.entries.size ind (pb / 2048)) (pb / 2048) ld (c + 1)
      | none =>
        scanA eq t h x fuel (nextInd t.entries.size ind (pb / 2048)) (pb / 2048) ld (c + 1)

def lookupA (hf : α → Nat) (eq : α → α → Bool) (t : TabA α) (x : α) : Res α :=
  scanA eq t (hashOf hf x) x (t.entries.size + 3) (hashOf hf x &&& (t.entries.size - 1))
    (hashOf hf x) none 0

def addCollA (t : TabA α) (c : Nat) : TabA α := { t with coll := (t.coll + c) % 4294967296 }

def coreA (hf : α → Nat) (eq : α → α → Bool) (t : TabA α) (x : α) (a : Action) : TabA α × Out α :=
  match lookupA hf eq t x with
  | .found p i e c =>
    let t := addCollA t c
    match a with
    | .find => (t, ⟨true, some e.el, []⟩)
    | .insert => (t, ⟨true, some e.el, []⟩)
    | .replace => ({ t with els := t.els.setIfInBounds i ⟨e.hash, x⟩ }, ⟨true, some x, [e.el]⟩)
    | .delete =>
      ({ t with entries := t.entries.setIfInBounds p .deleted,
                els := t.els.setIfInBounds i ⟨0, e.el⟩, num := t.num - 1 },
       ⟨true, none, [e.el]⟩)
  | .absent p ld c =>
    let t := addCollA t c
    match a with
    | .insert | .replace =>
      ({ t with entries := t.entries.setIfInBounds (ld.getD p) (.idx t.els.size),
                els := t.els.push ⟨hashOf hf x, x⟩, num := t.num + 1 },
       ⟨false, some x, []⟩)
    | .find | .delete => (t, ⟨false, none, []⟩)
  | .noFuel => (t, ⟨false, none, []⟩)

def freshA (entriesLen cap coll : Nat) : TabA α :=
  { entries := Array.replicate entriesLen .empty, els := #[], cap := cap, num := 0, coll := coll }

def rebuildA (hf : α → Nat) (eq : α → α → Bool) (t : TabA α) : TabA α :=
  t.els.foldl (fun acc e => if live e = true then (coreA hf eq acc e.el .insert).1 else acc)
    (freshA (2 * t.entries.size) (2 * t.cap) t.coll)

def doOpA (hf : α → Nat) (eq : α → α → Bool) (t : TabA α) (x : α) (a : Action) : TabA α × Out α :=
  if (a = .insert ∨ a = .replace) ∧ t.els.size = t.cap then coreA hf eq (rebuildA hf eq t) x a
  else coreA hf eq t x a

def contentsA (t : TabA α) : List α := (t.els.toList.filter live).map (·.el)

def clearA (t : TabA α) : TabA α × List α :=
  ({ t with entries := Array.replicate t.entries.size .empty, els := #[], num := 0 }, contentsA t)

def createA (minSize : Nat) : TabA α :=
  freshA (2 * sizeLoop 30 2 minSize) (sizeLoop 30 2 minSize) 0

def stepA (hf : α → Nat) (eq : α → α → Bool) (t : TabA α) : Op α → TabA α × Obs α
  | .act a x => let r := doOpA hf eq t x a; (r.1, ⟨r.2, r.1.num, contentsA r.1⟩)
  | .clear => let r := clearA t; (r.1, ⟨⟨false, none, r.2⟩, r.1.num, contentsA r.1⟩)

def runA (hf : α → Nat) (eq : α → α → Bool) (t : TabA α) : List (Op α) → TabA α × List (Obs α)
  | [] => (t, [])
  | o :: os =>
    let r := stepA hf eq t o
    let r' := runA hf eq r.1 os
    (r'.1, r.2 :: r'.2)

end MirVerif.Htab
