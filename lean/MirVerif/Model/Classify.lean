import MirVerif.Model.Layout
/-!
# C08 — by-value passing: psABI eightbyte classification (specification) and c2mir's
`classify_arg` & friends (`c2mir/x86_64/cx86_64-ABI-code.c`, model of the code)

* `Cls`, `sysvMerge`, `sysvClass`, `sysvArgs`, `sysvRet`   psABI §3.2.3 (no vector / complex types:
  c2mir has none).
* `c2mMerge` (`get_result_type`), `c2mClassify` (`classify_arg`), `updateLastQword`
  (`update_last_qword_type`), `processAggregateArg`, `getBlkType`, `c2mArgs`
  (`target_add_arg_proto` / `target_add_call_arg_op`), `processRetType`, `c2mRet`.
-/
namespace MirVerif.Classify
open MirVerif.Layout

/-- argument classes.  c2mir's encoding: `NO_CLASS`, `MIR_T_I64` (INTEGER), `MIR_T_D` (SSE),
`MIR_T_LD` (X87), `X87UP_CLASS`, `MIR_T_UNDEF` (MEMORY). -/
inductive Cls
  | no | int | sse | x87 | x87up | mem
  deriving DecidableEq, Repr, Inhabited

/-- psABI §3.2.3 merge rules (a)–(f) -/
def sysvMerge (a b : Cls) : Cls :=
  if a = b then a                                   -- (a)
  else if a = .no then b else if b = .no then a     -- (b)
  else if a = .mem ∨ b = .mem then .mem             -- (c)
  else if a = .int ∨ b = .int then .int             -- (d)
  else if a = .x87 ∨ a = .x87up ∨ b = .x87 ∨ b = .x87up then .mem   -- (e)
  else .sse                                         -- (f)

/-- `get_result_type` -/
def c2mMerge (t1 t2 : Cls) : Cls :=
  if t1 = t2 then t1
  else if t1 = .no then t2
  else if t2 = .no then t1
  else if t1 = .mem ∨ t2 = .mem then .mem
  else if t1 = .int ∨ t2 = .int then .int
  else if t1 = .x87 ∨ t2 = .x87 ∨ t1 = .x87up ∨ t2 = .x87up then .mem
  else .sse

def scCls : Sc → Cls
  | .float | .double => .sse
  | .ldouble => .x87
  | _ => .int

/-! ## Specification -/

/-- post-merger clean-up (psABI 5.), applied to every aggregate: (a) any MEMORY ⇒ MEMORY; (b) X87UP
not preceded by X87 ⇒ MEMORY.  ((c),(d) concern SSEUP, which cannot arise without vector types.)
`none` = MEMORY. -/
def postMerge (cs : List Cls) : Option (List Cls) :=
  if (List.range cs.length).any (fun i =>
      cs[i]! == .mem || (cs[i]! == .x87up && (i == 0 || cs[i - 1]! != .x87)))
  then none else some cs

/-- merge the classes `sub` of a sub-object that starts in eightbyte `pos` into `types` -/
def placeSub (types sub : List Cls) (pos : Nat) : List Cls :=
  (List.range sub.length).foldl (fun ty i =>
    match ty[i + pos]? with
    | some c => ty.set (i + pos) (sysvMerge sub[i]! c)
    | none => ty) types

mutual
/-- psABI §3.2.3 "Classification", recursive as the reference compiler does it: classes of the
eightbytes touched by an object of type `t` that starts `p` bytes after an eightbyte boundary
(`none` = MEMORY).  Every field is classified recursively *at its own position*; bit-fields are
INTEGER, except that zero-width bit-fields of a *struct* are ignored (GCC ≥ 12.1; in a union every
field, also an unnamed zero-width one, contributes the class of its type); more than two eightbytes ⇒ MEMORY
(there are no vector types); the post-merger clean-up is applied at every level. -/
def sysvCls (L : CTy → Lay) : CTy → Nat → Option (List Cls)
  | .sc s, _ => some (if s = Sc.ldouble then [Cls.x87, Cls.x87up] else [scCls s])
  | .arr n t, p =>
    let words := ((L (.arr n t)).size + p + 7) / 8
    if words > 2 then none
    else
      ((List.range n).foldl (fun (acc : Option (List Cls)) i =>
        match acc with
        | none => none
        | some types =>
          let o := p + i * (L t).size
          match sysvCls L t (o % 8) with
          | none => none
          | some sub => some (placeSub types sub (o / 8))) (some (List.replicate words Cls.no))).bind postMerge
  | .agg u ms, p =>
    let l := L (.agg u ms)
    let words := (l.size + p + 7) / 8
    if words > 2 then none
    else (sysvClsMems L u ms l.mems p (List.replicate words Cls.no)).bind postMerge
def sysvClsMems (L : CTy → Lay) (u : Bool) : Mems → List Place → Nat → List Cls → Option (List Cls)
  | .cons k t r, pl :: ps, p, types =>
    match k with
    | .bf w _ =>
      if w = 0 ∧ u = false then sysvClsMems L u r ps p types
      else sysvClsMems L u r ps p (placeSub types [Cls.int] ((8 * p + pl.bitpos) / 64))
    | _ =>
      match sysvCls L t ((p + pl.unit) % 8) with
      | none => none
      | some sub => sysvClsMems L u r ps p (placeSub types sub ((p + pl.unit) / 8))
  | _, _, _, types => some types
end

/-- classes of the eightbytes of an object of type `t` (`[mem]` = passed in memory) -/
def sysvClass (L : CTy → Lay) (t : CTy) : List Cls :=
  match sysvCls L t 0 with
  | none => [.mem]
  | some cs => cs

/-- where an argument travels -/
inductive ArgLoc
  | stack                      -- in memory (by value on the stack)
  | regs (cs : List Cls)       -- eightbyte i in the next free register of class cs[i] (int / sse)
  deriving DecidableEq, Repr

structure Avail where
  nI : Nat := 0   -- general purpose registers used so far (rdi, rsi, rdx, rcx, r8, r9)
  nF : Nat := 0   -- xmm0..7 used so far
  deriving DecidableEq, Repr

def cnt (c : Cls) (cs : List Cls) : Nat := (cs.filter (· == c)).length

/-- psABI "Passing": one parameter of type `t` -/
def sysvArg (L : CTy → Lay) (av : Avail) (t : CTy) : ArgLoc × Avail :=
  match t with
  | .sc s =>
    match scCls s with
    | .sse => if av.nF < 8 then (.regs [.sse], { av with nF := av.nF + 1 }) else (.stack, av)
    | .int => if av.nI < 6 then (.regs [.int], { av with nI := av.nI + 1 }) else (.stack, av)
    | _ => (.stack, av)
  | t =>
    let cs := sysvClass L t
    if cs.any (fun c => c != .int && c != .sse) then (.stack, av)
    else if av.nI + cnt .int cs ≤ 6 ∧ av.nF + cnt .sse cs ≤ 8 then
      (.regs cs, { nI := av.nI + cnt .int cs, nF := av.nF + cnt .sse cs })
    else (.stack, av)

def sysvArgsFrom (L : CTy → Lay) : Avail → List CTy → List ArgLoc
  | _, [] => []
  | av, t :: ts => let r := sysvArg L av t; r.1 :: sysvArgsFrom L r.2 ts

/-- how a value is returned -/
inductive RetLoc
  | sret                        -- caller passes a hidden pointer in %rdi
  | regs (cs : List Cls)        -- int → rax,rdx; sse → xmm0,xmm1; x87 → st0 (x87up travels with it)
  deriving DecidableEq, Repr

def sysvRet (L : CTy → Lay) (t : CTy) : RetLoc :=
  let cs : List Cls := match t with
    | .sc s => if s = Sc.ldouble then [Cls.x87, Cls.x87up] else [scCls s]
    | t => sysvClass L t
  if cs.any (· == Cls.mem) then .sret else .regs (cs.filter (· != Cls.x87up))

/-- whole prototype: return type (`none` = void) and parameters -/
def sysvProto (L : CTy → Lay) (ret : Option CTy) (ps : List CTy) : Option RetLoc × List ArgLoc :=
  let r := ret.map (sysvRet L)
  (r, sysvArgsFrom L { nI := if r = some .sret then 1 else 0 } ps)

/-! ## Model of c2mir -/

def listModify (l : List Cls) (i : Nat) (f : Cls → Cls) : List Cls :=
  match l[i]? with
  | some c => l.set i (f c)
  | none => l           -- out of range: the C code would write outside `types[]`

/-- the `for (i = 0; i < n_el_qwords && i + start_qword < n_qwords; i++)` loop -/
def mergeSub (sub : List Cls) (startQ spanQ nq : Nat) (types : List Cls) : List Cls :=
  (List.range sub.length).foldl (fun ty i =>
    if i + startQ < nq then
      let ty1 := listModify ty (i + startQ) (fun c => c2mMerge sub[i]! c)
      if spanQ > sub.length then listModify ty1 (i + startQ + 1) (fun c => c2mMerge sub[i]! c) else ty1
    else ty) types

/-- the final loop of `classify_arg` for aggregates -/
def c2mPost (types : List Cls) : Option (List Cls) :=
  if (List.range types.length).any (fun i =>
      types[i]! == .mem || (types[i]! == .x87up && (i == 0 || types[i - 1]! != .x87)))
  then none else some types

mutual
/-- `classify_arg`: `none` = 0 (pass in memory), `some l` = `l.length` qwords with types `l` -/
def c2mClassify : CTy → Option (List Cls)
  | .sc s =>
    some (match s with
      | .float | .double => [.sse]
      | .ldouble => [.x87, .x87up]
      | _ => [.int])
  | .arr n t =>
    let nq := ((c2mLay (.arr n t)).size + 7) / 8
    if nq > 2 then none
    else match c2mClassify t with
      | none => none
      | some sub =>
        if sub.length = 0 then none
        else c2mPost ((List.range nq).map fun i => c2mMerge .no sub[i % sub.length]!)
  | .agg u ms =>
    let l := c2mLay (.agg u ms)
    let nq := (l.size + 7) / 8
    if nq > 2 then none
    else match c2mClsMems ms l.mems nq (List.replicate nq .no) with
      | none => none
      | some types => c2mPost types
/-- the member loop of `classify_arg` (offsets are relative to the aggregate being classified) -/
def c2mClsMems : Mems → List Place → Nat → List Cls → Option (List Cls)
  | .cons k t r, p :: ps, nq, types =>
    let startQ := p.unit / 8
    let endQ := (p.unit + (c2mLay t).size - 1) / 8
    let spanQ := endQ - startQ + 1
    match k with
    | .bf _ _ => c2mClsMems r ps nq (listModify types startQ (fun c => c2mMerge .int c))
    | _ =>
      match c2mClassify t with
      | none => none
      | some sub =>
        if sub.length = 0 then none else c2mClsMems r ps nq (mergeSub sub startQ spanQ nq types)
  | _, _, _, types => some types
end

def isSc : CTy → Bool
  | .sc _ => true
  | _ => false

/-- array of scalars other than `long double` -/
def smallScArr : CTy → Bool
  | .arr _ (.sc s) => s != Sc.ldouble
  | _ => false

/-- arrays: one element, or elements whose size is a multiple of 8, or scalar elements -/
def arrOk (n : Nat) (t : CTy) : Bool := n == 1 || (c2mLay t).size % 8 == 0 || isSc t

mutual
/-- side condition of `class_meets_sysv_partial`: every member of struct/union/array type starts on
an eightbyte boundary (or is an array of small scalars inside one eightbyte), arrays satisfy `arrOk` -/
def clsAligned : CTy → Bool
  | .sc _ => true
  | .arr n t => clsAligned t && arrOk n t
  | .agg u ms => clsAlignedMems ms (c2mLay (.agg u ms)).mems
def clsAlignedMems : Mems → List Place → Bool
  | .cons _ t r, p :: ps =>
    (isSc t || p.unit % 8 == 0 || (smallScArr t && decide (p.unit % 8 + (c2mLay t).size ≤ 8)))
    && clsAligned t && clsAlignedMems r ps
  | _, _ => true
end

/-- MIR types of the qwords after `update_last_qword_type` -/
inductive QT
  | i8 | i16 | i32 | i64 | f | d | ld | x87up | other
  deriving DecidableEq, Repr, Inhabited

def QT.ofCls : Cls → QT
  | .int => .i64 | .sse => .d | .x87 => .ld | .x87up => .x87up | _ => .other

/-- `update_last_qword_type` (`size` = `type_size`) -/
def updateLastQword (size : Nat) (q : List QT) : List QT :=
  let n := q.length
  let last := size % 8
  if last = 0 ∨ n > 1 then q
  else
    let mt := q[n - 1]!
    let q1 := if last ≤ 4 ∧ mt = .d then q.set (n - 1) .f else q
    if last ≤ 4 ∧ mt = .i64 then q1.set (n - 1) (if last ≤ 1 then .i8 else if last ≤ 2 then .i16 else .i32)
    else q1

def QT.isI : QT → Bool | .i8 | .i16 | .i32 | .i64 => true | _ => false
def QT.isF : QT → Bool | .f | .d => true | _ => false

structure ArgInfo where
  nI : Nat := 0
  nF : Nat := 0
  deriving DecidableEq, Repr

def isAgg : CTy → Bool | .agg _ _ => true | _ => false

/-- `process_aggregate_arg`: (n_qwords, qword types, updated arg_info) -/
def processAggregateArg (t : CTy) (ai : ArgInfo) : Nat × List QT × ArgInfo :=
  match c2mClassify t with
  | none => (0, [], ai)
  | some cs =>
    if !isAgg t then (0, cs.map QT.ofCls, ai)
    else
      let q := updateLastQword (c2mLay t).size (cs.map QT.ofCls)
      if q.any (fun x => x == .x87up || x == .ld) then (0, q, ai)
      else
        let nI := (q.filter QT.isI).length
        let nF := (q.filter QT.isF).length
        if (nI > 0 ∧ ai.nI + nI > 6) ∨ (nF > 0 ∧ ai.nF + nF > 8) then (0, q, ai)
        else (q.length, q, { nI := ai.nI + nI, nF := ai.nF + nF })

/-- `MIR_T_BLK + k` -/
inductive Blk | blk | blk1 | blk2 | blk3 | blk4
  deriving DecidableEq, Repr

/-- `get_blk_type` -/
def getBlkType (nq : Nat) (q : List QT) : Blk :=
  if nq = 0 then .blk
  else
    let q := q.take nq
    if q.any (fun x => x == .x87up || x == .ld) then .blk
    else
      let nI := (q.filter QT.isI).length
      let nF := (q.filter QT.isF).length
      if nI = nq then .blk1
      else if nF = nq then .blk2
      else if q[0]!.isF then .blk4
      else .blk3

/-- how MIR passes a block argument of `nq` qwords of kind `b` (MIR.md: BLK — on the stack,
BLK+1 — in general registers, BLK+2 — in SSE registers, BLK+3 — int then SSE, BLK+4 — SSE then int) -/
def Blk.loc (b : Blk) (nq : Nat) : ArgLoc :=
  match b with
  | .blk => .stack
  | .blk1 => .regs (List.replicate nq .int)
  | .blk2 => .regs (List.replicate nq .sse)
  | .blk3 => .regs [.int, .sse]
  | .blk4 => .regs [.sse, .int]

/-- `target_add_arg_proto` / `target_add_call_arg_op` for one parameter -/
def c2mArg (ai : ArgInfo) (t : CTy) : ArgLoc × ArgInfo :=
  let r := processAggregateArg t ai
  match t with
  | .sc s =>
    match scCls s with
    | .sse => ((if r.2.2.nF < 8 then .regs [.sse] else .stack), { r.2.2 with nF := r.2.2.nF + 1 })
    | .x87 => (.stack, r.2.2)
    | _ => ((if r.2.2.nI < 6 then .regs [.int] else .stack), { r.2.2 with nI := r.2.2.nI + 1 })
  | _ => ((getBlkType r.1 r.2.1).loc r.1, r.2.2)

def c2mArgsFrom : ArgInfo → List CTy → List ArgLoc
  | _, [] => []
  | ai, t :: ts => let r := c2mArg ai t; r.1 :: c2mArgsFrom r.2 ts

/-- `process_ret_type`: `none` = 0 -/
def processRetType (t : CTy) : Option (List QT) :=
  if !isAgg t then none
  else match c2mClassify t with
    | none => none
    | some cs =>
      let q := (updateLastQword (c2mLay t).size (cs.map QT.ofCls)).filter (· != .x87up)
      if (q.filter QT.isI).length > 2 ∨ (q.filter QT.isF).length > 2 ∨ (q.filter (· == .ld)).length > 1
      then none else some q

def QT.cls : QT → Cls
  | .f | .d => .sse | .ld => .x87 | .x87up => .x87up | .other => .mem | _ => .int

/-- `target_add_res_proto` -/
def c2mRet (t : CTy) : RetLoc :=
  match t with
  | .sc s => .regs [scCls s]
  | _ => match processRetType t with
    | some q => .regs (q.map QT.cls)
    | none => .sret

def c2mProto (ret : Option CTy) (ps : List CTy) : Option RetLoc × List ArgLoc :=
  let r := ret.map c2mRet
  (r, c2mArgsFrom { nI := if r = some .sret then 1 else 0 } ps)

/-! ## decidable side conditions of the partial theorems (printed by the driver) -/

/-- the class lists a classification of at most two eightbytes can produce -/
def validCls (cs : List Cls) : Bool :=
  cs == [.int] || cs == [.sse] || cs == [.int, .int] || cs == [.int, .sse] || cs == [.sse, .int]
  || cs == [.sse, .sse] || cs == [.x87, .x87up]

def isParamTy : CTy → Bool
  | .arr _ _ => false
  | _ => true

end MirVerif.Classify
