/-!
# C05 — x86-64 System V argument / result placement for calls from MIR to native code

Three executable descriptions of "where does argument *i* of a call go":

* `sysvStep` / `sysvPlace` — the **specification**, written from the System V AMD64 psABI
  (§3.2.3 "Parameter passing": classify every eightbyte, assign registers left to right, revert and
  use memory when the whole argument does not fit, memory arguments in order at increasing
  addresses, each rounded to 8 bytes and aligned to its alignment, `long double` is class X87 ⇒
  memory with 16-byte alignment, end of the argument area 16-byte aligned).
* `ffStep` / `ffPlace` — the state machine of `_MIR_get_ff_call` (`mir-x86_64.c`), the per-signature
  trampoline through which the **interpreter** calls native functions.
* `genStep` / `genPlace` — the state machine of `machinize_call` (`mir-gen-x86_64.c`), i.e. what
  **generated code** does.

The two code models take a `Cfg` describing which of the *known defects* of the pinned tree are
present (`Cfg.current`) or repaired (`Cfg.fixed`); the correspondence check detects, from pinned
witness prototypes, which variant the tree under test implements and compares against that one.
`Cfg.current` is a faithful transcription of the C, defects included.

No Mathlib; everything is total over `Nat`/`List`.
-/
namespace MirVerif.AbiX64

/-- by-value block kinds of MIR (`MIR_T_BLK + k`), meaning on x86-64 SysV (mir-x86_64.c:7-13):
`b0` memory, `b1` general registers, `b2` SSE registers, `b3` gpr then sse, `b4` sse then gpr;
"if there are not enough regs, they work as BLK (b0)". -/
inductive BlkKind | b0 | b1 | b2 | b3 | b4
deriving DecidableEq, Repr

/-- argument vocabulary of a MIR prototype -/
inductive ArgTy
  | i8 | u8 | i16 | u16 | i32 | u32 | i64 | u64 | p | f | d | ld
  | blk (k : BlkKind) (size : Nat)
  | rblk (size : Nat)
deriving DecidableEq, Repr

/-- a place where one eightbyte of an argument lives at the call instruction:
`gpr n` = n-th of rdi,rsi,rdx,rcx,r8,r9; `xmm n`; `stk off` = byte offset from rsp at the call -/
inductive Loc | gpr (n : Nat) | xmm (n : Nat) | stk (off : Nat)
deriving DecidableEq, Repr

/-- allocation state: integer registers requested, sse registers requested, stack bytes used -/
structure St where
  ni : Nat
  nx : Nat
  sp : Nat
deriving DecidableEq, Repr

def St.init : St := ⟨0, 0, 0⟩

/-- what the psABI state is for a code state whose counters may run past the register files -/
def St.norm (s : St) : St := ⟨min s.ni 6, min s.nx 8, s.sp⟩

def roundUp (n a : Nat) : Nat := (n + (a - 1)) / a * a

/-- eightbytes of a block -/
def qwords (size : Nat) : Nat := (size + 7) / 8

/-- stack slots `off, off+8, …` (n of them) -/
def stkWords (off : Nat) : Nat → List Loc
  | 0 => []
  | n + 1 => Loc.stk off :: stkWords (off + 8) n

/-- sizes for which the block kinds have an ABI meaning (a C aggregate of that class exists):
register kinds are at most two eightbytes, the mixed kinds exactly two -/
def ArgTy.WellSized : ArgTy → Prop
  | .blk .b0 s => 1 ≤ s
  | .blk .b1 s => 1 ≤ s ∧ s ≤ 16
  | .blk .b2 s => 1 ≤ s ∧ s ≤ 16
  | .blk .b3 s => 9 ≤ s ∧ s ≤ 16
  | .blk .b4 s => 9 ≤ s ∧ s ≤ 16
  | _ => True

instance (a : ArgTy) : Decidable a.WellSized := by
  cases a with
  | blk k s => cases k <;> (unfold ArgTy.WellSized; infer_instance)
  | _ => unfold ArgTy.WellSized; infer_instance

/-! ## Specification (psABI) -/

/-- class of one eightbyte -/
inductive Cls | int | sse
deriving DecidableEq, Repr

/-- psABI classification; `[]` = the argument has class MEMORY (or X87/X87UP, which is passed in
memory as well).  Aggregates larger than two eightbytes are MEMORY. -/
def classes : ArgTy → List Cls
  | .f | .d => [.sse]
  | .ld => []
  | .blk .b0 _ => []
  | .blk .b1 s => if s ≤ 16 then List.replicate (qwords s) .int else []
  | .blk .b2 s => if s ≤ 16 then List.replicate (qwords s) .sse else []
  | .blk .b3 s => if s ≤ 16 then [.int, .sse] else []
  | .blk .b4 s => if s ≤ 16 then [.sse, .int] else []
  | _ => [.int]   -- i8..u64, p, and the hidden pointer of rblk

/-- eightbytes the argument occupies when it is passed in memory -/
def memWords : ArgTy → Nat
  | .ld => 2
  | .blk _ s => qwords s
  | _ => 1

/-- alignment of the argument in the memory area -/
def memAlign : ArgTy → Nat
  | .ld => 16
  | _ => 8

/-- assign registers to the eightbytes left to right -/
def assign : List Cls → Nat → Nat → List Loc
  | [], _, _ => []
  | .int :: cs, ni, nx => .gpr ni :: assign cs (ni + 1) nx
  | .sse :: cs, ni, nx => .xmm nx :: assign cs ni (nx + 1)

def countInt (cs : List Cls) : Nat := cs.count .int
def countSse (cs : List Cls) : Nat := cs.count .sse

/-- one argument in memory at the next suitably aligned offset.  `ldAl = true` is the psABI;
`ldAl = false` is the reference with the (wrong) 8-byte alignment of `long double`, used as a
common intermediate for the two code paths of the pinned tree. -/
def memStep (ldAl : Bool) (st : St) (a : ArgTy) : St × List Loc :=
  let off := if ldAl then roundUp st.sp (memAlign a) else st.sp
  (⟨st.ni, st.nx, off + 8 * memWords a⟩, stkWords off (memWords a))

def refStep (ldAl : Bool) (st : St) (a : ArgTy) : St × List Loc :=
  let cs := classes a
  if cs ≠ [] ∧ st.ni + countInt cs ≤ 6 ∧ st.nx + countSse cs ≤ 8 then
    (⟨st.ni + countInt cs, st.nx + countSse cs, st.sp⟩, assign cs st.ni st.nx)
  else memStep ldAl st a

/-- the psABI step -/
def sysvStep : St → ArgTy → St × List Loc := refStep true

/-- run a step function over an argument list -/
def run (step : St → ArgTy → St × List Loc) : St → List ArgTy → St × List (List Loc)
  | st, [] => (st, [])
  | st, a :: as =>
    let r := step st a
    let rs := run step r.1 as
    (rs.1, r.2 :: rs.2)

/-- result of a placement: location list per argument, bytes of outgoing stack area (multiple of
16: the psABI requires rsp+8 at callee entry to be 16-byte aligned), sse registers used -/
structure Placement where
  locs : List (List Loc)
  stackBytes : Nat
  xmmUsed : Nat
deriving DecidableEq, Repr

def finish (r : St × List (List Loc)) : Placement :=
  ⟨r.2, roundUp r.1.norm.sp 16, r.1.norm.nx⟩

def sysvPlace (args : List ArgTy) : Placement := finish (run sysvStep St.init args)

/-! ## Code models -/

/-- which known defects of the pinned tree are *repaired* (`true` = repaired) -/
structure Cfg where
  /-- `_MIR_get_ff_call` rounds `sp_offset` to 16 before a `long double` -/
  ldAlignFF : Bool
  /-- `machinize_call` rounds `arg_stack_size` to 16 before a `long double` -/
  ldAlignGen : Bool
  /-- `_MIR_get_ff_call` does not advance `n_xregs` for blk1, and uses consecutive xmm for blk3/4 -/
  ffBlkXmm : Bool
  /-- `machinize_call` counts the xmm registers of blk2/3/4 in `%al` -/
  alCountsBlk : Bool
deriving DecidableEq, Repr

def Cfg.current : Cfg := ⟨false, false, false, false⟩
def Cfg.fixed : Cfg := ⟨true, true, true, true⟩

/-- `_MIR_get_ff_call`, argument loop (mir-x86_64.c:434-529, non-Windows branch).
`max_iregs = 6`, `max_xregs = 8`. -/
def ffStep (cfg : Cfg) (st : St) (a : ArgTy) : St × List Loc :=
  match a with
  | .f | .d =>
    if st.nx < 8 then (⟨st.ni, st.nx + 1, st.sp⟩, [.xmm st.nx])
    else (⟨st.ni, st.nx, st.sp + 8⟩, [.stk st.sp])
  | .ld =>
    let off := if cfg.ldAlignFF then (st.sp + 15) / 16 * 16 else st.sp
    (⟨st.ni, st.nx, off + 16⟩, [.stk off, .stk (off + 8)])
  | .blk k size =>
    let q := qwords size
    let onStack : St × List Loc := (⟨st.ni, st.nx, st.sp + q * 8⟩, stkWords st.sp q)
    match k with
    | .b0 => onStack
    | .b1 =>
      if st.ni + q ≤ 6 then
        (⟨st.ni + q, if cfg.ffBlkXmm then st.nx else st.nx + q, st.sp⟩,
         if q = 2 then [.gpr st.ni, .gpr (st.ni + 1)] else [.gpr st.ni])
      else onStack
    | .b2 =>
      if st.nx + q ≤ 8 then
        (⟨st.ni, st.nx + q, st.sp⟩, if q = 2 then [.xmm st.nx, .xmm (st.nx + 1)] else [.xmm st.nx])
      else onStack
    | .b3 =>
      if st.ni < 6 ∧ st.nx < 8 then
        if cfg.ffBlkXmm then (⟨st.ni + 1, st.nx + 1, st.sp⟩, [.gpr st.ni, .xmm st.nx])
        else
          -- `n_xregs++` *before* `gen_movxmm2 (code, 8, n_xregs, TRUE)`; with n_xregs = 7 the register
          -- number 8 is or-ed into a ModRM byte whose bit 6 is already set, i.e. encodes xmm0
          -- (NDEBUG build; `assert (reg <= 7)` fires otherwise)
          (⟨st.ni + 1, st.nx + 2, st.sp⟩, [.gpr st.ni, .xmm ((st.nx + 1) % 8)])
      else onStack
    | .b4 =>
      if st.ni < 6 ∧ st.nx < 8 then
        (⟨st.ni + 1, if cfg.ffBlkXmm then st.nx + 1 else st.nx + 2, st.sp⟩, [.xmm st.nx, .gpr st.ni])
      else onStack
  | _ =>  -- i8..u64, p, rblk
    if st.ni < 6 then (⟨st.ni + 1, st.nx, st.sp⟩, [.gpr st.ni])
    else (⟨st.ni, st.nx, st.sp + 8⟩, [.stk st.sp])

/-- stack adjustment of the trampoline: `sp_offset = (sp_offset + 15) / 16 * 16; sp_offset += 8` -/
def ffFrame (sp : Nat) : Nat := (sp + 15) / 16 * 16 + 8

def ffPlace (cfg : Cfg) (args : List ArgTy) : Placement :=
  let r := run (ffStep cfg) St.init args
  ⟨r.2, ffFrame r.1.sp - 8, min r.1.nx 8⟩

/-- `%al` set by the trampoline (`mov $8, rax`) -/
def ffAl : Nat := 8

/-- `get_int_arg_reg (n) != MIR_NON_VAR` -/
def intRegP (n : Nat) : Bool := n < 6
/-- `get_fp_arg_reg (n) != MIR_NON_VAR` -/
def fpRegP (n : Nat) : Bool := n < 8

/-- `machinize_call`, argument loop (mir-gen-x86_64.c:211-456, non-Windows).  `get_arg_reg`
increments its counter even when the register file is exhausted, so `ni`/`nx` are unbounded here. -/
def genStep (cfg : Cfg) (st : St) (a : ArgTy) : St × List Loc :=
  match a with
  | .f | .d =>
    if fpRegP st.nx then (⟨st.ni, st.nx + 1, st.sp⟩, [.xmm st.nx])
    else (⟨st.ni, st.nx + 1, st.sp + 8⟩, [.stk st.sp])
  | .ld =>
    let off := if cfg.ldAlignGen then (st.sp + 15) / 16 * 16 else st.sp
    (⟨st.ni, st.nx, off + 16⟩, [.stk off, .stk (off + 8)])
  | .blk k size =>
    let size8 := (size + 7) / 8 * 8
    let onStack : St × List Loc := (⟨st.ni, st.nx, st.sp + size8⟩, stkWords st.sp (size8 / 8))
    match k with
    | .b0 => onStack
    | .b1 =>
      if intRegP st.ni ∧ (size8 ≤ 8 ∨ intRegP (st.ni + 1)) then
        if size8 > 8 then (⟨st.ni + 2, st.nx, st.sp⟩, [.gpr st.ni, .gpr (st.ni + 1)])
        else (⟨st.ni + 1, st.nx, st.sp⟩, [.gpr st.ni])
      else onStack
    | .b2 =>
      if fpRegP st.nx ∧ (size8 ≤ 8 ∨ fpRegP (st.nx + 1)) then
        if size8 > 8 then (⟨st.ni, st.nx + 2, st.sp⟩, [.xmm st.nx, .xmm (st.nx + 1)])
        else (⟨st.ni, st.nx + 1, st.sp⟩, [.xmm st.nx])
      else onStack
    | .b3 =>
      if intRegP st.ni ∧ fpRegP st.nx then (⟨st.ni + 1, st.nx + 1, st.sp⟩, [.gpr st.ni, .xmm st.nx])
      else onStack
    | .b4 =>
      if intRegP st.ni ∧ fpRegP st.nx then (⟨st.ni + 1, st.nx + 1, st.sp⟩, [.xmm st.nx, .gpr st.ni])
      else onStack
  | _ =>
    if intRegP st.ni then (⟨st.ni + 1, st.nx, st.sp⟩, [.gpr st.ni])
    else (⟨st.ni + 1, st.nx, st.sp + 8⟩, [.stk st.sp])

def genPlace (cfg : Cfg) (args : List ArgTy) : Placement :=
  let r := run (genStep cfg) St.init args
  ⟨r.2, (r.1.sp + 15) / 16 * 16, min r.1.nx 8⟩

def isFD : ArgTy → Bool
  | .f | .d => true
  | _ => false

/-- `%al` for a variadic prototype: `xmm_args` counts the `f`/`d` *typed* arguments up to 8
(mir-gen-x86_64.c:229, 458-463); the repaired variant uses the sse-register counter. -/
def genAl (cfg : Cfg) (args : List ArgTy) : Nat :=
  if cfg.alCountsBlk then min (run (genStep cfg) St.init args).1.nx 8
  else min (args.countP isFD) 8

/-- psABI: for a variadic callee `%al` is an upper bound (at most 8) on the vector registers used -/
def alOk (al : Nat) (args : List ArgTy) : Prop := (sysvPlace args).xmmUsed ≤ al ∧ al ≤ 8

instance (al : Nat) (args : List ArgTy) : Decidable (alOk al args) := by
  unfold alOk; infer_instance

/-! ## Results (MIR multi-result convention on x86-64: rax,rdx / xmm0,xmm1 / st0,st1) -/

inductive ResTy
  | i8 | u8 | i16 | u16 | i32 | u32 | i64 | u64 | p | f | d | ld
deriving DecidableEq, Repr

inductive RLoc | gpr (n : Nat) | xmm (n : Nat) | st (n : Nat)   -- gpr 0 = rax, gpr 1 = rdx
deriving DecidableEq, Repr

inductive RCls | int | sse | x87
deriving DecidableEq, Repr

def resCls : ResTy → RCls
  | .f | .d => .sse
  | .ld => .x87
  | _ => .int

/-- number of earlier results of class `c` -/
def clsCount (c : RCls) (before : List ResTy) : Nat := (before.filter fun b => resCls b = c).length

/-- specification: the k-th result of a class goes to the k-th return register of that class;
there are two of each -/
def sysvResAux : List ResTy → List ResTy → Option (List RLoc)
  | _, [] => some []
  | before, r :: rs =>
    let k := clsCount (resCls r) before
    if k < 2 then
      match sysvResAux (before ++ [r]) rs with
      | some ls => some ((match resCls r with | .int => RLoc.gpr k | .sse => .xmm k | .x87 => .st k) :: ls)
      | none => none
    else none

def sysvRes (rs : List ResTy) : Option (List RLoc) := sysvResAux [] rs

structure RSt where
  ni : Nat
  nx : Nat
  nf : Nat
deriving DecidableEq, Repr

def isIntRes : ResTy → Bool
  | .f | .d | .ld => false
  | _ => true

/-- `_MIR_get_ff_call` result loop (mir-x86_64.c:551-566).  NB the code tests `n_fregs < 2` but
never increments `n_fregs`, so the test is always true: any number of `ld` results is accepted;
each `fstpt` pops st0, so the i-th `ld` result is read from st(i) of the callee.  `nf` here is a
ghost counter that only names that location. -/
def ffResStep (st : RSt) (r : ResTy) : Option (RSt × RLoc) :=
  if isIntRes r ∧ st.ni < 2 then some (⟨st.ni + 1, st.nx, st.nf⟩, .gpr st.ni)
  else if (r = .f ∨ r = .d) ∧ st.nx < 2 then some (⟨st.ni, st.nx + 1, st.nf⟩, .xmm st.nx)
  else if r = .ld then some (⟨st.ni, st.nx, st.nf + 1⟩, .st st.nf)
  else none

/-- `machinize_call` result loop (mir-gen-x86_64.c:469-501) -/
def genResStep (st : RSt) (r : ResTy) : Option (RSt × RLoc) :=
  if r = .f ∧ st.nx < 2 then some (⟨st.ni, st.nx + 1, st.nf⟩, .xmm st.nx)
  else if r = .d ∧ st.nx < 2 then some (⟨st.ni, st.nx + 1, st.nf⟩, .xmm st.nx)
  else if r = .ld ∧ st.nf < 2 then some (⟨st.ni, st.nx, st.nf + 1⟩, .st st.nf)
  else if st.ni < 2 then some (⟨st.ni + 1, st.nx, st.nf⟩, .gpr st.ni)
  else none

def runRes (step : RSt → ResTy → Option (RSt × RLoc)) : RSt → List ResTy → Option (List RLoc)
  | _, [] => some []
  | st, r :: rs =>
    match step st r with
    | none => none
    | some (st', l) =>
      match runRes step st' rs with
      | none => none
      | some ls => some (l :: ls)

def ffRes (rs : List ResTy) : Option (List RLoc) := runRes ffResStep ⟨0, 0, 0⟩ rs
def genRes (rs : List ResTy) : Option (List RLoc) := runRes genResStep ⟨0, 0, 0⟩ rs

/-! ## Narrowing of integer parameters and results

`extBits`/`extSigned` describe the prototype type; `extCode` is the machine-level operation both
engines apply (`(int8_t) v` … in `call`, mir-interp.c:1834-1869; `ext8/uext8/…` inserted by
`machinize_call` via `get_ext_code`), written arithmetically on the 64-bit register image. -/

/-- width in bits and signedness of the narrow integer types; `none` for full-width / non-integer -/
def narrowInfo : ResTy → Option (Nat × Bool)
  | .i8 => some (8, true) | .u8 => some (8, false)
  | .i16 => some (16, true) | .u16 => some (16, false)
  | .i32 => some (32, true) | .u32 => some (32, false)
  | _ => none

/-- the register image after `movsx`/`movzx` of the low `w` bits (0 < w < 64) -/
def extCode (w : Nat) (signed : Bool) (v : Nat) : Nat :=
  let lo := v % 2 ^ w
  if signed ∧ 2 ^ (w - 1) ≤ lo then 2 ^ 64 - 2 ^ w + lo else lo

/-- what the callee (or the MIR code, for results) receives in the 64-bit register -/
def passInt (t : ResTy) (v : Nat) : Nat :=
  match narrowInfo t with
  | some (w, s) => extCode w s (v % 2 ^ 64)
  | none => v % 2 ^ 64

/-! ## The interpreter's trampoline cache (`ff_interface_tab`, mir-interp.c:1711-1771)

A trampoline generated by `_MIR_get_ff_call` is cached and reused for every later call whose
*signature* compares equal under `ff_interface_eq`.  `Sig` is what `call` (mir-interp.c) hands to
`get_ff_interface`; `ffKeyEq` transcribes `ff_interface_eq`. -/

/-- signature of one native call as the interpreter sees it: result types, descriptors of *all*
call arguments (named, then the variadic tail), number of named parameters of the prototype -/
structure Sig where
  res : List ResTy
  args : List ArgTy
  argVarsNum : Nat
deriving DecidableEq, Repr

/-- `MIR_type_t` codes (mir.h: I8,U8,I16,U16,I32,U32,I64,U64,F,D,LD,P,BLK..BLK+4,RBLK) -/
def tyCode : ArgTy → Nat
  | .i8 => 0 | .u8 => 1 | .i16 => 2 | .u16 => 3 | .i32 => 4 | .u32 => 5 | .i64 => 6 | .u64 => 7
  | .f => 8 | .d => 9 | .ld => 10 | .p => 11
  | .blk .b0 _ => 12 | .blk .b1 _ => 13 | .blk .b2 _ => 14 | .blk .b3 _ => 15 | .blk .b4 _ => 16
  | .rblk _ => 17

def resCode : ResTy → Nat
  | .i8 => 0 | .u8 => 1 | .i16 => 2 | .u16 => 3 | .i32 => 4 | .u32 => 5 | .i64 => 6 | .u64 => 7
  | .f => 8 | .d => 9 | .ld => 10 | .p => 11

/-- `MIR_all_blk_type_p` -/
def isAllBlk : ArgTy → Bool
  | .blk _ _ | .rblk _ => true
  | _ => false

/-- `arg_descs[n].size` (meaningful for block types only) -/
def tySize : ArgTy → Nat
  | .blk _ s | .rblk s => s
  | _ => 0

/-- the argument loop of `ff_interface_eq`: type equal, and size equal for block types -/
def argsKeyEq : List ArgTy → List ArgTy → Bool
  | [], [] => true
  | a :: as, b :: bs =>
    tyCode a == tyCode b && (!isAllBlk a || tySize a == tySize b) && argsKeyEq as bs
  | _, _ => false

/-- `ff_interface_eq`: nres, nargs, arg_vars_num, `memcmp` of the result types, argument loop -/
def ffKeyEq (s1 s2 : Sig) : Bool :=
  s1.res.length == s2.res.length && s1.args.length == s2.args.length && s1.argVarsNum == s2.argVarsNum
    && s1.res.map resCode == s2.res.map resCode && argsKeyEq s1.args s2.args

/-- the cache as a function of the call history: the trampoline used for a call is the one generated
for the *first* earlier signature that compares equal, else a fresh one for the call's own signature -/
def cacheLookup (eq : Sig → Sig → Bool) : List Sig → Sig → Sig
  | [], s => s
  | t :: ts, s => if eq t s then t else cacheLookup eq ts s

/-! ## Text protocol helpers (used by the driver) -/

def Loc.str : Loc → String
  | .gpr n => s!"g{n}"
  | .xmm n => s!"x{n}"
  | .stk o => s!"s{o}"

def RLoc.str : RLoc → String
  | .gpr n => s!"g{n}"
  | .xmm n => s!"x{n}"
  | .st n => s!"t{n}"

def Placement.str (p : Placement) : String :=
  " ".intercalate (p.locs.map fun ls => ",".intercalate (ls.map Loc.str))
    ++ s!" | stk={p.stackBytes} xmm={p.xmmUsed}"

def parseBlkKind : String → Option BlkKind
  | "blk" | "blk0" => some .b0 | "blk1" => some .b1 | "blk2" => some .b2
  | "blk3" => some .b3 | "blk4" => some .b4 | _ => none

def parseArg (s : String) : Option ArgTy :=
  match s.splitOn ":" with
  | [t] =>
    match t with
    | "i8" => some .i8 | "u8" => some .u8 | "i16" => some .i16 | "u16" => some .u16
    | "i32" => some .i32 | "u32" => some .u32 | "i64" => some .i64 | "u64" => some .u64
    | "p" => some .p | "f" => some .f | "d" => some .d | "ld" => some .ld
    | _ => none
  | [t, n] =>
    match n.toNat? with
    | none => none
    | some sz =>
      if t = "rblk" then some (.rblk sz) else (parseBlkKind t).map fun k => .blk k sz
  | _ => none

def parseRes : String → Option ResTy
  | "i8" => some .i8 | "u8" => some .u8 | "i16" => some .i16 | "u16" => some .u16
  | "i32" => some .i32 | "u32" => some .u32 | "i64" => some .i64 | "u64" => some .u64
  | "p" => some .p | "f" => some .f | "d" => some .d | "ld" => some .ld
  | _ => none

end MirVerif.AbiX64
