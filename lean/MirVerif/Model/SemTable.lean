import MirVerif.Model.Sem
/-! Names of MIR's integer opcodes as functions of the abstract operation (`MIR_<name>` in mir.h). -/
namespace MirVerif

def AOp.all : List AOp :=
  [.add, .sub, .mul, .div, .udiv, .mod, .umod, .and, .or, .xor, .lsh, .rsh, .ursh,
   .eq, .ne, .lt, .ult, .le, .ule, .gt, .ugt, .ge, .uge]

def AOp.base : AOp → String
  | .add => "ADD" | .sub => "SUB" | .mul => "MUL" | .div => "DIV" | .udiv => "UDIV" | .mod => "MOD"
  | .umod => "UMOD" | .and => "AND" | .or => "OR" | .xor => "XOR" | .lsh => "LSH" | .rsh => "RSH"
  | .ursh => "URSH" | .eq => "EQ" | .ne => "NE" | .lt => "LT" | .ult => "ULT" | .le => "LE"
  | .ule => "ULE" | .gt => "GT" | .ugt => "UGT" | .ge => "GE" | .uge => "UGE"

/-- `ADD`, `ADDS`, `ULT`, `ULTS`, … -/
def opName (a : AOp) (short : Bool) : String := a.base ++ (if short then "S" else "")

def AOp.cmps : List AOp := [.eq, .ne, .lt, .ult, .le, .ule, .gt, .ugt, .ge, .uge]

/-- `BEQ`, `BEQS`, `UBLT`, `UBLTS`, … (the `U` prefix stays in front) -/
def brName (a : AOp) (short : Bool) : String :=
  (match a with
   | .ult => "UBLT" | .ule => "UBLE" | .ugt => "UBGT" | .uge => "UBGE"
   | a => "B" ++ a.base) ++ (if short then "S" else "")

def extName (k : Nat) (signed : Bool) : String := (if signed then "EXT" else "UEXT") ++ toString k

theorem AOp.mem_all (a : AOp) : a ∈ AOp.all := by cases a <;> decide

end MirVerif
