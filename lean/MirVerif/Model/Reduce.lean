import MirVerif.Model.Hash
/-!
# Executable model of `mir-reduce.h` (the compression layer of binary MIR), property C12

The model follows the code *after* fix f40fd264 (decoder bounds, malformed uint prefix).
Bytes are `UInt8`, streams `List UInt8`.  Everything is parametric in a configuration `Cfg`
(buffer length, dictionary size, check hash `H`, dictionary hash); `mirCfg` is the instance of the
real header (`_REDUCE_BUF_LEN = 2^18`, `_REDUCE_TABLE_SIZE = 2^16`, `mir_hash_strict`).  The
`#define`s are extracted from the current source on every run into `Gen/C12_Consts.lean` and
compared with `mirCfg` in `Lemmas/BridgeC12.lean`.

Sections: uint codec · decoder (byte level, literal to the C) · element view · encoder (dictionary
with the exact chain order, so that the output is byte-identical to the C encoder).
-/
namespace MirVerif.Reduce

/-- decoder failure: `reject` = the C code `break`s to `ok_p = FALSE`;  `oob` = an access of the
model's bounds-checked accessors failed (out-of-range index / never-written `ind2pos` entry /
bytes beyond the data decoded in this chunk).  `no_oob` proves the latter never happens. -/
inductive Err where
  | reject
  | oob
  deriving DecidableEq, Repr

structure Cfg where
  /-- `_REDUCE_BUF_LEN` -/
  bufLen : Nat
  /-- `_REDUCE_TABLE_SIZE` -/
  tableSize : Nat
  /-- check hash: `mir_hash_strict (buf, len, seed)` -/
  H : List UInt8 → UInt64 → UInt64
  /-- dictionary hash of the `_REDUCE_START_LEN` bytes at a position (before `% tableSize`) -/
  dictHash : List UInt8 → Nat

/-- side conditions under which the theorems hold (true for the real constants) -/
structure Cfg.Ok (c : Cfg) : Prop where
  pos : 0 < c.bufLen
  lt : c.bufLen < 2 ^ 28

/-- `_REDUCE_MAX_SYMB_LEN` -/
def maxSymbLen : Nat := 2047
/-- `_REDUCE_START_LEN` -/
def startLen : Nat := 4
/-- `_REDUCE_SYMB_TAG_LEN` (symbol-length bits of the tag; `8 - 3 = 5` bits of reference length) -/
def symbTagLen : Nat := 3
/-- `_REDUCE_SYMB_TAG_LONG` -/
def symbTagLong : Nat := 7
/-- `_REDUCE_REF_TAG_LONG` -/
def refTagLong : Nat := 31
/-- `_REDUCE_CHECK_HASH_SEED` -/
def checkHashSeed : UInt64 := 42
/-- `_REDUCE_HASH_SEED` -/
def dictHashSeed : UInt64 := 24
/-- `_REDUCE_DATA_PREFIX` = "MIR" -/
def dataPrefix : List UInt8 := [0x4d, 0x49, 0x52]

/-! ## uint codec (`_reduce_uint_write`, `_reduce_uint_read`) -/

/-- `_reduce_uint_write` for `u < 2^28` (the C asserts that; the encoder only writes lengths and
offsets `≤ bufLen`).  Arithmetic form of `(1 << (8-n)) | (u >> (n-1)*8)`, then the low bytes. -/
def uintWrite (u : Nat) : List UInt8 :=
  if u < 128 then [UInt8.ofNat (128 + u)]
  else if u < 16384 then [UInt8.ofNat (64 + u / 256), UInt8.ofNat (u % 256)]
  else if u < 2097152 then
    [UInt8.ofNat (32 + u / 65536), UInt8.ofNat (u / 256 % 256), UInt8.ofNat (u % 256)]
  else
    [UInt8.ofNat (16 + u / 16777216 % 16), UInt8.ofNat (u / 65536 % 256),
     UInt8.ofNat (u / 256 % 256), UInt8.ofNat (u % 256)]

/-- `_reduce_uint_read` (fixed): the number of bytes is given by the first byte
(`≥ 0x80`: 1, `≥ 0x40`: 2, `≥ 0x20`: 3, `≥ 0x10`: 4, below: malformed ⇒ `-1`);
missing bytes ⇒ `-1`. -/
def uintRead : List UInt8 → Option (Nat × List UInt8)
  | [] => none
  | b :: r =>
    let u := b.toNat
    if u ≥ 128 then some (u - 128, r)
    else if u ≥ 64 then
      match r with
      | b1 :: r => some ((u - 64) * 256 + b1.toNat, r)
      | _ => none
    else if u ≥ 32 then
      match r with
      | b1 :: b2 :: r => some (((u - 32) * 256 + b1.toNat) * 256 + b2.toNat, r)
      | _ => none
    else if u ≥ 16 then
      match r with
      | b1 :: b2 :: b3 :: r =>
        some ((((u - 16) * 256 + b1.toNat) * 256 + b2.toNat) * 256 + b3.toNat, r)
      | _ => none
    else none

/-- little-endian bytes of a number (`_reduce_hash_write` without the tag) -/
def leBytes : Nat → Nat → List UInt8
  | 0, _ => []
  | n + 1, v => UInt8.ofNat (v % 256) :: leBytes n (v / 256)

/-- `_reduce_str2hash` -/
def leVal : List UInt8 → Nat
  | [] => 0
  | b :: r => b.toNat + 256 * leVal r

/-! ## Decoder (`reduce_decode_start/get/finish`, driven as by `reduce_decode`) -/

/-- state of `reduce_decode_get` while it fills one buffer: `buf` = `data->buf[0..pos)`,
`starts` = `ind2pos[0..curr_ind)`.  Everything beyond is *unset* for the model: reading it is
`Err.oob`. -/
structure DSt where
  buf : List UInt8
  starts : List Nat
  deriving Repr, DecidableEq

def DSt.init : DSt := ⟨[], []⟩

def litStarts (base n : Nat) : List Nat := (List.range n).map (· + base)

/-- `reader (&data->buf[pos], n, …)` / `memcpy (&data->buf[pos], …, n)`: writes `buf[pos..pos+n)` -/
def writeBytes (cap : Nat) (buf bs : List UInt8) : Except Err (List UInt8) :=
  if buf.length + bs.length ≤ cap then .ok (buf ++ bs) else .error .oob

/-- `for i < n: ind2pos[curr_ind++] = pos++` -/
def pushStarts (cap : Nat) (starts : List Nat) (base n : Nat) : Except Err (List Nat) :=
  if starts.length + n ≤ cap then .ok (starts ++ litStarts base n) else .error .oob

/-- `ind2pos[i]` — only entries written while filling this buffer may be read -/
def readStart (starts : List Nat) (i : Nat) : Except Err Nat :=
  match starts[i]? with
  | some p => .ok p
  | none => .error .oob

/-- `&data->buf[src] .. +len` as memcpy source: must lie inside the bytes decoded so far (hence
initialised, inside `buf`, and not overlapping the destination `buf[pos..)`) -/
def readBytes (buf : List UInt8) (src len : Nat) : Except Err (List UInt8) :=
  if src + len ≤ buf.length then .ok ((buf.drop src).take len) else .error .oob

/-- symbol part of an element (mir-reduce.h:388-398) -/
def decodeSym (c : Cfg) (st : DSt) (symTag : Nat) (inp : List UInt8) :
    Except Err (DSt × List UInt8) :=
  if symTag = 0 then .ok (st, inp) else
  match (if symTag = symbTagLong then uintRead inp else some (symTag, inp)) with
  | none => .error .reject
  | some (symLen, inp1) =>
    if symLen > maxSymbLen ∨ st.buf.length + symLen > c.bufLen then .error .reject else
    let lits := inp1.take symLen   -- `reader (&data->buf[pos], sym_len, …) != sym_len` ⇒ break
    if lits.length < symLen then .error .reject else
    match writeBytes c.bufLen st.buf lits with
    | .error e => .error e
    | .ok buf' =>
      match pushStarts c.bufLen st.starts st.buf.length symLen with
      | .error e => .error e
      | .ok starts' => .ok (⟨buf', starts'⟩, inp1.drop symLen)

/-- reference part of an element (mir-reduce.h:399-414, fixed) -/
def decodeRef (c : Cfg) (st : DSt) (refTag : Nat) (inp : List UInt8) :
    Except Err (DSt × List UInt8) :=
  if refTag = 0 then .ok (st, inp) else
  match (if refTag = refTagLong then uintRead inp else some (refTag, inp)) with
  | none => .error .reject
  | some (l0, inp1) =>
    let refLen := l0 + (startLen - 1)
    match uintRead inp1 with
    | none => .error .reject
    | some (refInd, inp2) =>
      if refInd = 0 ∨ st.starts.length < refInd then .error .reject else
      match readStart st.starts (st.starts.length - refInd) with
      | .error e => .error e
      | .ok symPos =>
        if symPos + refLen > st.buf.length ∨ st.buf.length + refLen > c.bufLen then .error .reject
        else
        match readBytes st.buf symPos refLen with
        | .error e => .error e
        | .ok bs =>
          match writeBytes c.bufLen st.buf bs with
          | .error e => .error e
          | .ok buf' =>
            match pushStarts c.bufLen st.starts st.buf.length 1 with
            | .error e => .error e
            | .ok starts' => .ok (⟨buf', starts'⟩, inp2)

/-- one element with a non-zero tag -/
def decodeEl (c : Cfg) (st : DSt) (tag : UInt8) (inp : List UInt8) :
    Except Err (DSt × List UInt8) :=
  match decodeSym c st (tag.toNat / 32) inp with
  | .error e => .error e
  | .ok (st1, inp1) => decodeRef c st1 (tag.toNat % 32) inp1

set_option maxRecDepth 4000 in
theorem uintRead_suffix {inp : List UInt8} {v : Nat} {r : List UInt8} (h : uintRead inp = some (v, r)) :
    r <:+ inp := by
  match inp, h with
  | b :: r0, h =>
    simp only [uintRead] at h
    split at h
    · cases h; exact List.suffix_cons _ _
    · split at h
      · match r0, h with
        | b1 :: r1, h => cases h; exact ⟨[b, b1], rfl⟩
      · split at h
        · match r0, h with
          | b1 :: b2 :: r1, h => cases h; exact ⟨[b, b1, b2], rfl⟩
        · split at h
          · match r0, h with
            | b1 :: b2 :: b3 :: r1, h => cases h; exact ⟨[b, b1, b2, b3], rfl⟩
          · cases h

theorem decodeSym_suffix {c : Cfg} {st st' : DSt} {t : Nat} {inp r : List UInt8}
    (h : decodeSym c st t inp = .ok (st', r)) : r <:+ inp := by
  unfold decodeSym at h
  split at h
  · cases h; exact List.suffix_refl _
  · split at h
    · cases h
    · rename_i symLen inp1 hu
      have h1 : inp1 <:+ inp := by
        split at hu
        · exact uintRead_suffix hu
        · cases hu; exact List.suffix_refl _
      dsimp only at h
      repeat' split at h
      all_goals first | cases h | skip
      exact (List.drop_suffix _ _).trans h1

theorem decodeRef_suffix {c : Cfg} {st st' : DSt} {t : Nat} {inp r : List UInt8}
    (h : decodeRef c st t inp = .ok (st', r)) : r <:+ inp := by
  unfold decodeRef at h
  split at h
  · cases h; exact List.suffix_refl _
  · split at h
    · cases h
    · rename_i l0 inp1 hu
      have h1 : inp1 <:+ inp := by
        split at hu
        · exact uintRead_suffix hu
        · cases hu; exact List.suffix_refl _
      dsimp only at h
      split at h
      · cases h
      · rename_i refInd inp2 hu2
        have h2 := uintRead_suffix hu2
        repeat' split at h
        all_goals first | cases h | skip
        exact h2.trans h1

theorem decodeEl_suffix {c : Cfg} {st st' : DSt} {tag : UInt8} {inp r : List UInt8}
    (h : decodeEl c st tag inp = .ok (st', r)) : r <:+ inp := by
  unfold decodeEl at h
  split at h
  · cases h
  · rename_i st1 inp1 hs
    exact (decodeRef_suffix h).trans (decodeSym_suffix hs)

theorem decodeEl_len {c : Cfg} {st st' : DSt} {tag : UInt8} {inp r : List UInt8}
    (h : decodeEl c st tag inp = .ok (st', r)) : r.length ≤ inp.length :=
  (decodeEl_suffix h).length_le

set_option linter.unusedVariables false in
/-- the loop of `reduce_decode_get`, iterated as `reduce_decode` does, over the whole remaining
input.  `hash` = `data->check_hash`, `st` = the buffer being filled, `acc` = bytes already handed
to the writer (complete buffers).  A tag `0` is the trailer: exactly 8 more bytes and then end of
input (mir-reduce.h:378-379 and `reduce_decode_finish`), the hash is updated with the partial
buffer if it is non-empty and compared with the little-endian value.  A buffer is complete when
`pos ≥ bufLen` (then hashed and delivered; the next call starts with `pos = curr_ind = 0`). -/
def decChunks (c : Cfg) (hash : UInt64) (st : DSt) (acc : List UInt8) (inp : List UInt8) :
    Except Err (List UInt8) :=
  match inp with
  | [] => .error .reject
  | tag :: rest =>
    if tag = 0 then
      if rest.length ≠ 8 then .error .reject else
      let hash' := if st.buf.length ≠ 0 then c.H st.buf hash else hash
      if leVal rest = hash'.toNat then .ok (acc ++ st.buf) else .error .reject
    else
      match hd : decodeEl c st tag rest with
      | .error e => .error e
      | .ok (st', rest') =>
        if st'.buf.length ≥ c.bufLen then
          decChunks c (c.H st'.buf hash) DSt.init (acc ++ st'.buf) rest'
        else decChunks c hash st' acc rest'
termination_by inp.length
decreasing_by
  all_goals (have := decodeEl_len hd; simp only [List.length_cons]; omega)

/-- `reduce_decode`: `some d` ⇔ the C function returns true having written `d`.
A wrong prefix only clears `ok_p`; the C decoder still runs over the rest of the input, so the
model does too (this matters for `no_oob`). -/
def decode (c : Cfg) (s : List UInt8) : Except Err (List UInt8) :=
  match decChunks c checkHashSeed DSt.init [] (s.drop 3) with
  | .error e => .error e
  | .ok d => if s.take 3 = dataPrefix then .ok d else .error .reject

/-! ## Element view of the stream -/

/-- an element: literal bytes, then an optional reference `(length, offset in symbol numbers)` -/
structure El where
  lits : List UInt8
  ref : Option (Nat × Nat)
  deriving Repr, DecidableEq

/-- meaning of an element on the decoder state (specification level; no size limits) -/
def applyEl (s : DSt) (e : El) : Option DSt :=
  let s1 : DSt := ⟨s.buf ++ e.lits, s.starts ++ litStarts s.buf.length e.lits.length⟩
  match e.ref with
  | none => some s1
  | some (len, off) =>
    if off = 0 ∨ s1.starts.length < off then none else
    match s1.starts[s1.starts.length - off]? with
    | none => none
    | some sp =>
      if sp + len > s1.buf.length then none else
      some ⟨s1.buf ++ (s1.buf.drop sp).take len, s1.starts ++ [s1.buf.length]⟩

def applyEls (s : DSt) : List El → Option DSt
  | [] => some s
  | e :: es => (applyEl s e).bind (applyEls · es)

/-- the tag byte of an element (`_reduce_symb_flush`, `_reduce_output_ref`) -/
def elTag (e : El) : UInt8 :=
  let st := if e.lits.length < symbTagLong then e.lits.length else symbTagLong
  let rt := match e.ref with
    | none => 0
    | some (len, _) => if len - (startLen - 1) < refTagLong then len - (startLen - 1) else refTagLong
  UInt8.ofNat (st * 32 + rt)

/-- the bytes after the tag -/
def elBody (e : El) : List UInt8 :=
  (if e.lits.length ≥ symbTagLong then uintWrite e.lits.length else []) ++ e.lits ++
  (match e.ref with
   | none => []
   | some (len, off) =>
     (if len - (startLen - 1) ≥ refTagLong then uintWrite (len - (startLen - 1)) else []) ++
     uintWrite off)

def serEl (e : El) : List UInt8 := elTag e :: elBody e

def serEls (es : List El) : List UInt8 := (es.map serEl).flatten

/-- what the encoder guarantees about each element it writes -/
structure ElOk (c : Cfg) (e : El) : Prop where
  lits_le : e.lits.length ≤ maxSymbLen
  nonempty : e.lits ≠ [] ∨ e.ref ≠ none
  ref_ok : ∀ len off, e.ref = some (len, off) → startLen ≤ len ∧ len ≤ c.bufLen ∧ 0 < off ∧ off ≤ c.bufLen

/-! ## Encoder -/

/-- `UINT32_MAX`, the nil index of dictionary chains -/
def NIL : Nat := 0xFFFFFFFF

/-- `struct _reduce_el`: `pos,num,next` describe dictionary element `i`, `head` is the chain head
of hash value `i` (the C code overlays both uses in one table) -/
structure Slot where
  pos : Nat
  num : Nat
  next : Nat
  head : Nat
  deriving Repr, Inhabited

/-- `_reduce_reset_next`.  The free list `0 → 1 → … → tableSize-1 → NIL` is modelled by the
allocation counter `count` of `Dict`: elements are only ever taken from the list, never returned, and
`next` of a free slot is never written, so `el_free = count` (or `NIL` once `count = tableSize`). -/
def resetTable (n : Nat) : Array Slot :=
  (Array.range n).map fun i => ⟨0, 0, if i + 1 = n then NIL else i + 1, NIL⟩

structure Dict where
  tab : Array Slot
  count : Nat
  /-- `data->curr_num` -/
  num : Nat

/-- `mir_hash_strict (&buf[pos], 4, 24) % _REDUCE_TABLE_SIZE` -/
def hashAt (c : Cfg) (buf : Array UInt8) (pos : Nat) : Nat :=
  c.dictHash (buf.extract pos (pos + startLen)).toList % c.tableSize

/-- `for (; len < len_bound; len++) if (s1[len] != s2[len]) break;` (`fuel ≥ bnd`) -/
def matchLen (buf : Array UInt8) (p q bnd : Nat) : Nat → Nat → Nat
  | 0, len => len
  | fuel + 1, len =>
    if len < bnd ∧ buf[p + len]? = buf[q + len]? then matchLen buf p q bnd fuel (len + 1) else len

/-- `_reduce_ref_offset_size` -/
def refOffsetSize (offset : Nat) : Nat :=
  if offset < 128 then 1 else if offset < 16384 then 2 else if offset < 2097152 then 3 else 4

/-- `_reduce_ref_size` -/
def refSize (len offset : Nat) : Nat :=
  let len := len - (startLen - 1)
  (if len < refTagLong then 0 else refOffsetSize len) + refOffsetSize offset

/-- the chain walk of `_reduce_dict_find_longest`; `best = (best_len, best_el->num, best_ref_size)`.
`fuel` bounds the walk (the C loop relies on the chain being acyclic); a chain index outside the
table ends the walk (never happens, see `TabInv`). -/
def walk (buf : Array UInt8) (pos num : Nat) (tab : Array Slot) :
    Nat → Nat → Option (Nat × Nat × Nat) → Option (Nat × Nat × Nat)
  | 0, _, best => best
  | fuel + 1, curr, best =>
    if curr = NIL then best else
    match tab[curr]? with
    | none => best
    | some el =>
      let lenBound := min (buf.size - pos) (pos - el.pos)
      if lenBound < startLen then walk buf pos num tab fuel el.next best else
      let len := matchLen buf el.pos pos lenBound lenBound 0
      if len < startLen then walk buf pos num tab fuel el.next best else
      let rs := refSize len (num - el.num)
      match best with
      | none => walk buf pos num tab fuel el.next (some (len, el.num, rs))
      | some (bl, _, brs) =>
        if bl + rs < len + brs then walk buf pos num tab fuel el.next (some (len, el.num, rs))
        else walk buf pos num tab fuel el.next best

/-- `_reduce_dict_find_longest`: `(length, *dict_pos)`, length `0` = nothing found -/
def findLongest (c : Cfg) (buf : Array UInt8) (pos : Nat) (d : Dict) : Nat × Nat :=
  if pos + startLen > buf.size then (0, 0) else
  match d.tab[hashAt c buf pos]? with
  | none => (0, 0)
  | some hs =>
    match walk buf pos d.num d.tab (c.tableSize + 1) hs.head none with
    | none => (0, 0)
    | some (len, n, _) => (len, n)

/-- the search for the last element of a chain in `_reduce_dict_add`:
`for (prev = NIL, curr = head; curr != NIL && table[curr].next != NIL; prev = curr, curr = next)` -/
def findLast (tab : Array Slot) : Nat → Nat → Nat → Nat × Nat
  | 0, prev, curr => (prev, curr)
  | fuel + 1, prev, curr =>
    if curr = NIL then (prev, curr) else
    match tab[curr]? with
    | none => (prev, NIL)
    | some el => if el.next = NIL then (prev, curr) else findLast tab fuel curr el.next

/-- `table[h].head` -/
def headOf (tab : Array Slot) (h : Nat) : Nat :=
  match tab[h]? with | some s => s.head | none => NIL

/-- `table[i].next` -/
def nextOf (tab : Array Slot) (i : Nat) : Nat :=
  match tab[i]? with | some s => s.next | none => NIL

/-- the final linking of `_reduce_dict_add` (mir-reduce.h:271-274) -/
def linkEl (tab : Array Slot) (h cur pos num : Nat) : Array Slot :=
  let hd := headOf tab h
  let tab := tab.modify cur fun s => { s with pos := pos, num := num, next := hd }
  tab.modify h fun s => { s with head := cur }

/-- the "rare case" of `_reduce_dict_add` (mir-reduce.h:260-270): no free element is left, so the
last element of the chain of hash value `h` (if any) is unlinked and reused for the new pair -/
def dictEvict (tab : Array Slot) (fuel h pos num : Nat) : Array Slot :=
  let hd := headOf tab h
  let pc := findLast tab fuel NIL hd
  if pc.2 = NIL then tab else   -- `if (curr == UINT32_MAX) return;`
  let nx := nextOf tab pc.2
  let tab1 :=
    if pc.1 ≠ NIL then tab.modify pc.1 fun s => { s with next := nx }
    else tab.modify h fun s => { s with head := nx }
  linkEl tab1 h pc.2 pos num

/-- `_reduce_dict_add` -/
def dictAdd (c : Cfg) (buf : Array UInt8) (pos : Nat) (d : Dict) : Dict :=
  if pos + startLen > buf.size then { d with num := d.num + 1 } else
  let h := hashAt c buf pos
  if d.count < c.tableSize then
    { tab := linkEl d.tab h d.count pos d.num, count := d.count + 1, num := d.num + 1 }
  else
    { tab := dictEvict d.tab (c.tableSize + 1) h pos d.num, count := d.count, num := d.num + 1 }

/-- encoder state inside `_reduce_encode_buf`.  `curr_symb[0..curr_symb_len)` always equals
`buf[litStart..pos)`; the model keeps `litStart` instead of a copy of the bytes. -/
structure ESt where
  pos : Nat
  litStart : Nat
  dict : Dict
  /-- elements written so far, last first -/
  out : List El

def pendingLits (buf : Array UInt8) (s : ESt) : List UInt8 := (buf.extract s.litStart s.pos).toList

/-- the `for (pos = 0; pos < buf_bound;)` loop of `_reduce_encode_buf` -/
def encLoop (c : Cfg) (buf : Array UInt8) (s : ESt) : ESt :=
  if s.pos < buf.size then
    let r := findLongest c buf s.pos s.dict
    if r.1 = 0 then
      -- `_reduce_output_byte`: flush first when `curr_symb_len + 1 > _REDUCE_MAX_SYMB_LEN`
      let flush := s.pos - s.litStart + 1 > maxSymbLen
      let out := if flush then ⟨pendingLits buf s, none⟩ :: s.out else s.out
      let litStart := if flush then s.pos else s.litStart
      encLoop c buf { pos := s.pos + 1, litStart := litStart, dict := dictAdd c buf s.pos s.dict, out := out }
    else
      -- `_reduce_output_ref (base - dict_pos, dict_len)`; `_reduce_dict_add (pos)`
      let e : El := ⟨pendingLits buf s, some (r.1, s.dict.num - r.2)⟩
      encLoop c buf { pos := s.pos + r.1, litStart := s.pos + r.1, dict := dictAdd c buf s.pos s.dict,
                      out := e :: s.out }
  else s
termination_by buf.size - s.pos
decreasing_by
  · omega
  · rename_i h; dsimp only [r] at h; omega

/-- the elements `_reduce_encode_buf` writes for one non-empty buffer -/
def encodeBufEls (c : Cfg) (buf : Array UInt8) : List El :=
  let s := encLoop c buf ⟨0, 0, ⟨resetTable c.tableSize, 0, 0⟩, []⟩
  -- final `_reduce_symb_flush (data, 0)`
  (if s.litStart < s.pos then ⟨pendingLits buf s, none⟩ :: s.out else s.out).reverse

/-- `reduce_encode_put`* then `reduce_encode_finish`: buffers of exactly `bufLen` bytes, the last
one shorter (absent if the input is empty); each is hashed then compressed; then tag 0 and the hash. -/
def encChunks (c : Cfg) (hash : UInt64) (d : List UInt8) : List UInt8 :=
  if c.bufLen = 0 ∨ d = [] then 0 :: leBytes 8 hash.toNat else
  let ch := d.take c.bufLen
  serEls (encodeBufEls c ch.toArray) ++ encChunks c (c.H ch hash) (d.drop c.bufLen)
termination_by d.length
decreasing_by
  simp only [List.length_drop]
  have : d.length ≠ 0 := by
    intro h; simp_all [List.length_eq_zero_iff]
  omega

/-- `reduce_encode` -/
def encode (c : Cfg) (d : List UInt8) : List UInt8 := dataPrefix ++ encChunks c checkHashSeed d

/-- the value `check_hash` has after all of `d` went through (`_REDUCE_CHECK_HASH_SEED` first) -/
def chainHash (c : Cfg) (hash : UInt64) (d : List UInt8) : UInt64 :=
  if c.bufLen = 0 ∨ d = [] then hash else
  chainHash c (c.H (d.take c.bufLen) hash) (d.drop c.bufLen)
termination_by d.length
decreasing_by
  simp only [List.length_drop]
  have : d.length ≠ 0 := by
    intro h; simp_all [List.length_eq_zero_iff]
  omega

/-- the real header: `_REDUCE_BUF_LEN = 1 << 18`, `_REDUCE_TABLE_SIZE = _REDUCE_BUF_LEN / 4` -/
def mirCfg : Cfg where
  bufLen := 262144
  tableSize := 65536
  H := Hash.hashStrict
  dictHash := fun bs => (Hash.hashStrict bs dictHashSeed).toNat

end MirVerif.Reduce
