import MirVerif.Model.Check
/-!
# C15 — documented operand classes, transcribed from MIR.md

This file is written from `MIR.md` (sections "MIR insn operands", "MIR insns" and the per-insn
sections) and from the comments of `mir.h`, *not* from `insn_descs`: opcodes are keyed by the
names MIR.md uses (`MIR_ADD` ↦ "ADD") and grouped the way the manual groups them.

What the manual says, and how it is rendered here:

* "Operand types should be what the insn expects"; "only register or memory operand can be insn
  output (result) operand"; "in majority cases the first insn operand describes where the insn
  result (if any) will be placed".
* integer immediates (signed or unsigned), references and strings (addresses) are integer values;
  memory of an integer or pointer type yields a 64-bit integer value; `f`/`d`/`ld` memory and
  registers yield values of those types; a register holds exactly one of i64/f/d/ld.
* block types can be used only for arguments of calls; `MIR_T_UNDEF`-typed memory is allowed only as
  the va_list operand of the `va_*` insns ("va_list operand can be memory with undefined type").
* base and index of a memory operand are (integer) registers.

The manual does not name error codes; the codes are the checker's convention
(undeclared register → `undeclared_func_reg`; bad memory type → `wrong_type`; non-integer
base/index → `reg_type`; value of the wrong class → `op_mode`; output that is not a register or
memory → `out_op`), checked in that order.
-/
namespace MirVerif.Check
open MirVerif.Gen.C15

/-- value classes -/
inductive VC where
  | int | float | double | ldouble | label
  deriving DecidableEq, Repr, Inhabited

/-- documented class of an operand position -/
inductive DocPos where
  /-- a value of class `c`; `out` = the position receives the result -/
  | val (c : VC) (out : Bool)
  /-- `MIR_ADDR*` 2nd operand: "take address of variable" — a register of any type -/
  | variable
  /-- va_list: an integer value (its address) or memory with undefined type -/
  | vaList
  /-- `MIR_VA_ARG` 3rd operand: "any memory operand", only its type matters -/
  | anyMem
  /-- property insns: "the variable given as …" — a register or memory -/
  | propVar
  /-- property insns: "integer constant" (an immediate; nothing else about it is looked at) -/
  | propConst
  /-- a position of a vararg call beyond the prototype's parameters: any well-formed value -/
  | anyVal
  deriving DecidableEq, Repr, Inhabited

namespace Doc
def I := DocPos.val .int false
def Io := DocPos.val .int true
def F := DocPos.val .float false
def Fo := DocPos.val .float true
def D := DocPos.val .double false
def Do := DocPos.val .double true
def LD := DocPos.val .ldouble false
def LDo := DocPos.val .ldouble true
def L := DocPos.val .label false
end Doc
open Doc

/-- fixed-arity insns of MIR.md: opcodes (the `MIR_insn_code_t` enumerators, written `C_<NAME>` for
`MIR_<NAME>`; the values come from the enum of mir.h, not from `insn_descs`) and the class of every operand.
Typos of the manual are read as intended (`MIR_UMUL`/`MIR_UMULS` do not exist; the overflow table's
`MIR_UMUL` is `MIR_UMULO`; the second `MIR_UBLES` is `MIR_UBGES`). -/
def docFixed : List (List Nat × List DocPos) := [
  -- MIR move insns
  ([C_MOV], [Io, I]), ([C_FMOV], [Fo, F]), ([C_DMOV], [Do, D]), ([C_LDMOV], [LDo, LD]),
  -- MIR integer insns
  ([C_EXT8, C_UEXT8, C_EXT16, C_UEXT16, C_EXT32, C_UEXT32, C_NEG, C_NEGS], [Io, I]),
  ([C_ADD, C_SUB, C_ADDS, C_SUBS, C_MUL, C_DIV, C_UDIV, C_MULS, C_DIVS, C_UDIVS, C_MOD, C_UMOD, C_MODS, C_UMODS, C_AND, C_OR, C_ANDS, C_ORS, C_XOR, C_XORS, C_LSH, C_LSHS, C_RSH, C_RSHS, C_URSH, C_URSHS, C_EQ, C_NE, C_EQS, C_NES, C_LT, C_LE, C_ULT, C_ULE, C_LTS, C_LES, C_ULTS, C_ULES, C_GT, C_GE, C_UGT, C_UGE, C_GTS, C_GES, C_UGTS, C_UGES], [Io, I, I]),
  -- MIR integer overflow insns
  ([C_ADDO, C_SUBO, C_ADDOS, C_SUBOS, C_MULO, C_MULOS, C_UMULO, C_UMULOS], [Io, I, I]),
  -- MIR floating point insns
  ([C_F2I], [Io, F]), ([C_D2I], [Io, D]), ([C_LD2I], [Io, LD]),
  ([C_F2D], [Do, F]), ([C_F2LD], [LDo, F]), ([C_D2F], [Fo, D]), ([C_D2LD], [LDo, D]),
  ([C_LD2F], [Fo, LD]), ([C_LD2D], [Do, LD]),
  ([C_I2F, C_UI2F], [Fo, I]), ([C_I2D, C_UI2D], [Do, I]), ([C_I2LD, C_UI2LD], [LDo, I]),
  ([C_FNEG], [Fo, F]), ([C_DNEG], [Do, D]), ([C_LDNEG], [LDo, LD]),
  ([C_FADD, C_FSUB, C_FMUL, C_FDIV], [Fo, F, F]),
  ([C_DADD, C_DSUB, C_DMUL, C_DDIV], [Do, D, D]),
  ([C_LDADD, C_LDSUB, C_LDMUL, C_LDDIV], [LDo, LD, LD]),
  ([C_FEQ, C_FNE, C_FLT, C_FLE, C_FGT, C_FGE], [Io, F, F]),
  ([C_DEQ, C_DNE, C_DLT, C_DLE, C_DGT, C_DGE], [Io, D, D]),
  ([C_LDEQ, C_LDNE, C_LDLT, C_LDLE, C_LDGT, C_LDGE], [Io, LD, LD]),
  -- MIR address insns
  ([C_ADDR, C_ADDR8, C_ADDR16, C_ADDR32], [Io, .variable]),
  -- MIR branch insns
  ([C_JMP], [L]), ([C_BT, C_BTS, C_BF, C_BFS], [L, I]), ([C_JMPI], [I]),
  -- MIR branch on overflow insns
  ([C_BO, C_BNO, C_UBO, C_UBNO], [L]),
  -- MIR_LADDR: "put it into 64-bit integer register or memory given as the first operand"
  ([C_LADDR], [Io, L]),
  -- MIR integer comparison and branch insns
  ([C_BEQ, C_BNE, C_BEQS, C_BNES, C_BLT, C_BLE, C_UBLT, C_UBLE, C_BLTS, C_BLES, C_UBLTS, C_UBLES, C_BGT, C_BGE, C_UBGT, C_UBGE, C_BGTS, C_BGES, C_UBGTS, C_UBGES], [L, I, I]),
  -- MIR floating point comparison and branch insns
  ([C_FBEQ, C_FBNE, C_FBLT, C_FBLE, C_FBGT, C_FBGE], [L, F, F]),
  ([C_DBEQ, C_DBNE, C_DBLT, C_DBLE, C_DBGT, C_DBGE], [L, D, D]),
  ([C_LDBEQ, C_LDBNE, C_LDBLT, C_LDBLE, C_LDBGT, C_LDBGE], [L, LD, LD]),
  -- MIR_JRET: "the single operand contains the return address as 64-bit integer value"
  ([C_JRET], [I]),
  -- MIR_ALLOCA, MIR_BSTART, MIR_BEND
  ([C_ALLOCA], [Io, I]), ([C_BSTART], [Io]), ([C_BEND], [I]),
  -- va insns
  ([C_VA_START, C_VA_END], [.vaList]),
  ([C_VA_ARG], [Io, .vaList, .anyMem]),
  ([C_VA_BLOCK_ARG], [I, .vaList, I, I]),
  -- property insns
  ([C_PRSET], [.propVar, .propConst]),
  ([C_PRBEQ, C_PRBNE], [L, .propVar, .propConst])
]

/-- opcodes with a variable number of operands (documented in their own sections) -/
def docVariadic : List Nat := [C_CALL, C_INLINE, C_JCALL, C_RET, C_SWITCH]

/-- opcodes of `mir.h` that MIR.md does not offer to users ("used only internally", the label
pseudo-insn created by `MIR_new_label`, the generator's `unspec`, the invalid marker) -/
def docInternal : List Nat := [C_LABEL, C_UNSPEC, C_USE, C_PHI, C_INVALID_INSN]


/-- name of an opcode value, from the `MIR_insn_code_t` enum (not from `insn_descs`) -/
def codeName (c : Nat) : String :=
  match insnCodeValues.find? (fun e => e.2 == c) with
  | some e => e.1
  | none => ""

/-- documented signature of opcode value `c`, `none` when it is variadic/internal/unknown -/
def docSig (c : Nat) : Option (List DocPos) := (docFixed.find? (fun e => e.1.contains c)).map (·.2)

/-! ## documented verdict of an operand at a position -/

def scalarTy (t : Ty) : Bool :=
  match t with
  | .i8 | .u8 | .i16 | .u16 | .i32 | .u32 | .i64 | .u64 | .f | .d | .ld | .p => true
  | _ => false

def blkTy (t : Ty) : Bool :=
  match t with
  | .blk0 | .blk1 | .blk2 | .blk3 | .blk4 | .rblk => true
  | _ => false

def tyClass (t : Ty) : Option VC :=
  match t with
  | .f => some .float
  | .d => some .double
  | .ld => some .ldouble
  | .undef | .bound => none
  | _ => some .int

/-- base / index of a memory operand: a declared integer register (or absent) -/
def docMemReg : MemReg → RV
  | .none => .ok
  | .r .undecl => .undecl
  | .r (.decl .i64) => .ok
  | .r (.decl _) => .regty

/-- the abstraction the documented rules work with -/
def OpS.absDoc (o : OpS) : OpA := o.absWith docMemReg

def isUndefMem (o : OpA) : Bool := match o with | .mem ty _ _ => ty == .undef | _ => false
def isVaList (dp : DocPos) : Bool := match dp with | .vaList => true | _ => false

/-- is the operand well formed by itself at a position of class `dp` (`inCall`: operand of a call,
where block-typed memory may appear) -/
def docSelf (dp : DocPos) (inCall : Bool) (o : OpA) : Verdict :=
  match o with
  | .reg .undecl => .err E_undeclared_func_reg
  | .mem ty dispNeg rv =>
    if !(scalarTy ty || (inCall && blkTy ty) || (isVaList dp && ty == .undef)) then
      .err E_wrong_type
    else if blkTy ty && dispNeg then .err E_wrong_type
    else rv.v
  | _ => .ok

/-- value class of a well-formed operand -/
def docClass (o : OpA) : Option VC :=
  match o with
  | .reg (.decl .i64) => some .int
  | .reg (.decl .f) => some .float
  | .reg (.decl .d) => some .double
  | .reg (.decl .ld) => some .ldouble
  | .reg .undecl => none
  | .int | .uint | .ref _ | .str => some .int
  | .float => some .float
  | .double => some .double
  | .ldouble => some .ldouble
  | .mem ty _ _ => tyClass ty
  | .label => some .label

def isReg (o : OpA) : Bool := match o with | .reg _ => true | _ => false
def isMem (o : OpA) : Bool := match o with | .mem _ _ _ => true | _ => false

def hasClass (o : OpA) (c : VC) : Bool :=
  match docClass o with
  | some c' => c' == c
  | none => false

/-- documented verdict of operand `o` at a position of class `dp` -/
def docOperandA (dp : DocPos) (inCall : Bool) (o : OpA) : Verdict :=
  match dp with
  | .anyMem => if isMem o then .ok else .err E_op_mode
  | .propConst => (match o with | .int | .uint => .ok | _ => .err E_op_mode)
  | _ =>
    seq (docSelf dp inCall o) <|
      match dp with
      | .val c out =>
        if hasClass o c then (if out && !(isReg o || isMem o) then .err E_out_op else .ok)
        else .err E_op_mode
      | .variable => if isReg o then .ok else .err E_op_mode
      | .vaList => if hasClass o .int || isUndefMem o then .ok else .err E_op_mode
      | .propVar => if isReg o || isMem o then .ok else .err E_op_mode
      | .propConst => .ok
      | .anyVal => .ok
      | .anyMem => .ok

def docOperand (dp : DocPos) (inCall : Bool) (o : OpS) : Verdict := docOperandA dp inCall o.absDoc

/-- documented verdict of a cell of the fixed-arity grid; `none` = the opcode has no such position
(or is not a documented fixed-arity opcode) -/
def docCell (c i : Nat) (o : OpS) : Option Verdict :=
  match docSig c with
  | none => none
  | some sig => (sig[i]?).map (fun dp => docOperand dp false o)

/-- documented number of operands -/
def docNops (c : Nat) : Option Nat := (docSig c).map (·.length)


/-! ## calls: documented agreement of block-typed arguments -/

/-- the parameter an operand at index `j` after the call target corresponds to, if any -/
def paramAt (pr : Proto) (j : Nat) : Option (Ty × Nat) :=
  if j ≥ pr.res.length then pr.args[j - pr.res.length]? else none

/-- documented agreement of block-typed arguments: a block-typed memory operand may stand only
at a parameter of the same block type and size (or, not `rblk`, among the extra arguments of a
vararg call; never at a result), and a block-typed parameter needs such an operand -/
def docBlkAgree (pr : Proto) (j : Nat) (op : Operand) : Bool :=
  match op, paramAt pr j with
  | .mem ty disp _ _, some (t, size) =>
    if blkTy ty then (t == ty && decide (disp ≥ 0) && size == disp.toNat) else !blkTy t
  | .mem ty _ _ _, none => if blkTy ty then (decide (j ≥ pr.res.length) && ty != .rblk) else true
  | _, some (t, _) => !blkTy t
  | _, none => true

end MirVerif.Check
