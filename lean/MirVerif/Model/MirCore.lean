import MirVerif.Model.SemTable
/-! # MirCore — a fuelled semantics of a core of MIR *as written* (before `MIR_link` touches it)

Integer registers (64 bit), typed memory operands `(disp, base, index, scale)` over an abstract
byte memory, labels and all integer branch forms (compare-and-branch, `bt/bf`, branches on the
overflow flags, `switch`), `alloca`, `call`/`inline` of other functions of the program and of
external functions, multiple results, narrow parameter/result types (truncated on entry/return as
MIR.md §MIR_RET/§MIR_CALL says).  Per-instruction arithmetic is `docSem`/`docExt`/`docNeg`/`doc*O`
of `Model/Sem.lean`, i.e. the *documented* meaning, not the interpreter's.

Everything is parametric in the register-name type `ρ` (strings in the driver, anything with
decidable equality in the theorems) and in the byte memory `μ` (`ByteMem`).  The machine is total:
`exec` returns `Except Err`, `Err.undef` marking behaviour MIR.md leaves undefined. -/
namespace MirVerif.MirCore

/-! ## byte memory -/

class ByteMem (μ : Type) where
  load : μ → W64 → BitVec 8
  store : μ → W64 → BitVec 8 → μ
  /-- addresses the program may touch (the driver's memory has finitely many valid bytes) -/
  valid : μ → W64 → Bool

class LawfulByteMem (μ : Type) [ByteMem μ] : Prop where
  load_store : ∀ (m : μ) (a a' : W64) (v : BitVec 8),
    ByteMem.load (ByteMem.store m a v) a' = if a' = a then v else ByteMem.load m a'
  valid_store : ∀ (m : μ) (a a' : W64) (v : BitVec 8),
    ByteMem.valid (ByteMem.store m a v) a' = ByteMem.valid m a'

inductive Ty
  | i8 | u8 | i16 | u16 | i32 | u32 | i64 | u64 | p
  /-- block argument of `n` bytes passed by value (`blk`…`blk4`; the case number only selects the
  ABI class) resp. by reference (`rblk`); only as parameter type / type of a call argument -/
  | blk (n : Nat) | rblk (n : Nat)
deriving DecidableEq, Repr, Inhabited

def Ty.isBlk : Ty → Bool
  | .blk _ | .rblk _ => true
  | _ => false

def Ty.bytes : Ty → Nat
  | .i8 | .u8 => 1 | .i16 | .u16 => 2 | .i32 | .u32 => 4 | _ => 8

def Ty.signed : Ty → Bool
  | .i8 | .i16 | .i32 | .i64 => true | _ => false

/-- documented truncation of a 64-bit value to an integer type, as the 64-bit register content the
receiver sees (sign- resp. zero-extension of the kept low bits) -/
def Ty.trunc (t : Ty) (v : W64) : W64 :=
  if t.bytes = 8 then v else docExt (8 * t.bytes) t.signed v

section mem
variable {μ : Type} [ByteMem μ]

/-- little-endian unsigned value of `n` bytes at `a` -/
def loadN (m : μ) (a : W64) : Nat → Nat
  | 0 => 0
  | n + 1 => (ByteMem.load m a).toNat + 256 * loadN m (a + 1) n

def storeN (m : μ) (a : W64) (v : Nat) : Nat → μ
  | 0 => m
  | n + 1 => storeN (ByteMem.store m a (BitVec.ofNat 8 v)) (a + 1) (v / 256) n

def validN (m : μ) (a : W64) : Nat → Bool
  | 0 => true
  | n + 1 => ByteMem.valid m a && validN m (a + 1) n

def loadTy (m : μ) (t : Ty) (a : W64) : W64 :=
  t.trunc (BitVec.ofNat 64 (loadN m a t.bytes))

def storeTy (m : μ) (t : Ty) (a : W64) (v : W64) : μ := storeN m a v.toNat t.bytes
end mem

/-! ## registers -/

abbrev Regs (ρ : Type) := List (ρ × W64)

section regs
variable {ρ : Type} [DecidableEq ρ]

def Regs.get (rs : Regs ρ) (r : ρ) : W64 :=
  match rs with
  | [] => 0
  | (k, v) :: tl => if k = r then v else Regs.get tl r

def Regs.has (rs : Regs ρ) (r : ρ) : Bool :=
  match rs with
  | [] => false
  | (k, _) :: tl => k = r || Regs.has tl r

def Regs.set (rs : Regs ρ) (r : ρ) (v : W64) : Regs ρ :=
  match rs with
  | [] => [(r, v)]
  | (k, w) :: tl => if k = r then (k, v) :: tl else (k, w) :: Regs.set tl r v

theorem Regs.get_set (rs : Regs ρ) (r r' : ρ) (v : W64) :
    (rs.set r v).get r' = if r' = r then v else rs.get r' := by
  induction rs with
  | nil =>
    by_cases h : r' = r
    · subst h; simp [Regs.set, Regs.get]
    · have h' : ¬ r = r' := fun e => h e.symm
      simp [Regs.set, Regs.get, h, h']
  | cons kv tl ih =>
    obtain ⟨k, w⟩ := kv
    by_cases hk : k = r
    · subst hk
      by_cases h : r' = k
      · subst h; simp [Regs.set, Regs.get]
      · have h' : ¬ k = r' := fun e => h e.symm
        simp [Regs.set, Regs.get, h, h']
    · by_cases h : r' = r
      · subst h; simp [Regs.set, Regs.get, hk, ih]
      · by_cases h2 : k = r' <;> simp [Regs.set, Regs.get, hk, h, h2, ih]

@[simp] theorem Regs.get_set_same (rs : Regs ρ) (r : ρ) (v : W64) : (rs.set r v).get r = v := by
  simp [Regs.get_set]

theorem Regs.get_set_other (rs : Regs ρ) (r r' : ρ) (v : W64) (h : r' ≠ r) :
    (rs.set r v).get r' = rs.get r' := by simp [Regs.get_set, h]
end regs

/-! ## syntax -/

abbrev Lab := Nat

structure MemOp (ρ : Type) where
  ty : Ty
  disp : W64
  base : Option ρ
  index : Option ρ
  scale : Nat
deriving Repr, DecidableEq

inductive Opd (ρ : Type)
  | reg (r : ρ)
  | imm (v : W64)
  | mem (m : MemOp ρ)
deriving Repr, DecidableEq

inductive OvOp | add | sub | mul | umul
deriving DecidableEq, Repr

inductive Insn (ρ : Type)
  | bin (a : AOp) (short : Bool) (d x y : Opd ρ)
  | mov (d s : Opd ρ)
  | ext (k : Nat) (signed : Bool) (d s : Opd ρ)
  | neg (short : Bool) (d s : Opd ρ)
  | ovf (o : OvOp) (short : Bool) (d x y : Opd ρ)
  | label (l : Lab)
  | jmp (l : Lab)
  | bcmp (a : AOp) (short : Bool) (l : Lab) (x y : Opd ρ)
  | bt (short : Bool) (onTrue : Bool) (l : Lab) (x : Opd ρ)
  | bo (unsigned : Bool) (onSet : Bool) (l : Lab)
  | switch (x : Opd ρ) (ls : List Lab)
  | alloca (d n : Opd ρ)
  | call (inl : Bool) (f : String) (res : List (Opd ρ)) (args : List (Opd ρ))
  | ret (vs : List (Opd ρ))
deriving Repr

structure Func (ρ : Type) where
  name : String
  params : List (ρ × Ty)
  res : List Ty
  body : List (Insn ρ)
deriving Repr

abbrev Prog (ρ : Type) := List (Func ρ)

inductive Err
  | fuel            -- out of fuel
  | undef (what : String)   -- MIR.md leaves the behaviour undefined (division by zero, shift count, …)
  | oob (a : W64)   -- access outside the memory the program owns
  | stuck (what : String)   -- malformed program (unknown label/function, fell off the end, …)
  | precond (what : String) -- rejected by the configuration's `chk` (driver: read of an unset register)
deriving Repr, DecidableEq

/-- per-activation state -/
structure Frame (ρ : Type) where
  regs : Regs ρ
  pc : Nat
  sov : Bool := false
  uov : Bool := false

/-- global state: memory, alloca bump pointer, world state of the external functions -/
structure G (μ : Type) where
  mem : μ
  sp : W64
  log : List (List W64)

/-- what the embedding supplies: the external functions and an optional precondition checked
before every instruction (the driver uses it to reject reads of unset registers) -/
structure Cfg (ρ μ : Type) where
  ext : String → List W64 → G μ → Except Err (List W64 × G μ)
  chk : Insn ρ → Frame ρ → Bool := fun _ _ => true

section sem
variable {ρ μ : Type} [DecidableEq ρ] [ByteMem μ]

def optGet (rs : Regs ρ) : Option ρ → W64
  | none => 0
  | some r => rs.get r

/-- `disp + base + index * scale` (mod 2^64), MIR.md §memory operand -/
def MemOp.addr (m : MemOp ρ) (rs : Regs ρ) : W64 :=
  m.disp + optGet rs m.base + optGet rs m.index * BitVec.ofNat 64 m.scale

def evalOpd (rs : Regs ρ) (g : G μ) : Opd ρ → Except Err W64
  | .reg r => .ok (rs.get r)
  | .imm v => .ok v
  | .mem m =>
    let a := m.addr rs
    if m.ty.isBlk then .ok a   -- a block argument denotes the address of the block
    else if validN g.mem a m.ty.bytes then .ok (loadTy g.mem m.ty a) else .error (.oob a)

def evalOpds (rs : Regs ρ) (g : G μ) : List (Opd ρ) → Except Err (List W64)
  | [] => .ok []
  | o :: tl => do
    let v ← evalOpd rs g o
    let vs ← evalOpds rs g tl
    pure (v :: vs)

def setOpd (rs : Regs ρ) (g : G μ) (d : Opd ρ) (v : W64) : Except Err (Regs ρ × G μ) :=
  match d with
  | .reg r => .ok (rs.set r v, g)
  | .imm _ => .error (.stuck "immediate as output")
  | .mem m =>
    let a := m.addr rs
    if validN g.mem a m.ty.bytes then .ok (rs, { g with mem := storeTy g.mem m.ty a v })
    else .error (.oob a)

def setOpds (rs : Regs ρ) (g : G μ) : List (Opd ρ) → List W64 → Except Err (Regs ρ × G μ)
  | [], [] => .ok (rs, g)
  | d :: ds, v :: vs => do
    let (rs', g') ← setOpd rs g d v
    setOpds rs' g' ds vs
  | _, _ => .error (.stuck "result count")

def findLabel (body : List (Insn ρ)) (l : Lab) : Option Nat :=
  match body with
  | [] => none
  | .label l' :: tl => if l' = l then some 0 else (findLabel tl l).map (· + 1)
  | _ :: tl => (findLabel tl l).map (· + 1)

def ofOpt {α} (what : String) : Option α → Except Err α
  | some a => .ok a
  | none => .error (.undef what)

/-- result and the two overflow flags of an overflow instruction at width 64 resp. 32 -/
def ovfSem (o : OvOp) (short : Bool) (x y : W64) : W64 × Bool × Bool :=
  if short then
    match o with
    | .add => let r := docAddO (lo32 x) (lo32 y); (sext32 r.1, r.2.1, r.2.2)
    | .sub => let r := docSubO (lo32 x) (lo32 y); (sext32 r.1, r.2.1, r.2.2)
    | .mul => let r := docMulO (lo32 x) (lo32 y); (sext32 r.1, r.2, false)
    | .umul => let r := docUMulO (lo32 x) (lo32 y); (sext32 r.1, false, r.2)
  else
    match o with
    | .add => let r := docAddO x y; (r.1, r.2.1, r.2.2)
    | .sub => let r := docSubO x y; (r.1, r.2.1, r.2.2)
    | .mul => let r := docMulO x y; (r.1, r.2, false)
    | .umul => let r := docUMulO x y; (r.1, false, r.2)

def goto (body : List (Insn ρ)) (fr : Frame ρ) (l : Lab) : Except Err (Frame ρ) :=
  match findLabel body l with
  | some p => .ok { fr with pc := p }
  | none => .error (.stuck s!"unknown label {l}")

def next (fr : Frame ρ) : Frame ρ := { fr with pc := fr.pc + 1 }

/-- one instruction other than `call`/`ret` -/
def stepInsn (body : List (Insn ρ)) (i : Insn ρ) (fr : Frame ρ) (g : G μ) :
    Except Err (Frame ρ × G μ) :=
  match i with
  | .bin a short d x y => do
    let vx ← evalOpd fr.regs g x
    let vy ← evalOpd fr.regs g y
    let r ← ofOpt (opName a short) (docSem a short vx vy)
    let (rs, g') ← setOpd fr.regs g d r
    pure (next { fr with regs := rs }, g')
  | .mov d s => do
    let v ← evalOpd fr.regs g s
    let (rs, g') ← setOpd fr.regs g d v
    pure (next { fr with regs := rs }, g')
  | .ext k sg d s => do
    let v ← evalOpd fr.regs g s
    let (rs, g') ← setOpd fr.regs g d (docExt k sg v)
    pure (next { fr with regs := rs }, g')
  | .neg short d s => do
    let v ← evalOpd fr.regs g s
    let (rs, g') ← setOpd fr.regs g d (docNeg short v)
    pure (next { fr with regs := rs }, g')
  | .ovf o short d x y => do
    let vx ← evalOpd fr.regs g x
    let vy ← evalOpd fr.regs g y
    let r := ovfSem o short vx vy
    let (rs, g') ← setOpd fr.regs g d r.1
    pure (next { fr with regs := rs, sov := r.2.1, uov := r.2.2 }, g')
  | .label _ => pure (next fr, g)
  | .jmp l => do
    let fr' ← goto body fr l
    pure (fr', g)
  | .bcmp a short l x y => do
    let vx ← evalOpd fr.regs g x
    let vy ← evalOpd fr.regs g y
    if docBranch a short vx vy then do
      let fr' ← goto body fr l
      pure (fr', g)
    else pure (next fr, g)
  | .bt short onTrue l x => do
    let v ← evalOpd fr.regs g x
    let nz := if short then lo32 v != 0 else v != 0
    if nz == onTrue then do
      let fr' ← goto body fr l
      pure (fr', g)
    else pure (next fr, g)
  | .bo uns onSet l =>
    if (if uns then fr.uov else fr.sov) == onSet then do
      let fr' ← goto body fr l
      pure (fr', g)
    else pure (next fr, g)
  | .switch x ls => do
    let v ← evalOpd fr.regs g x
    match ls[v.toNat]? with
    | some l => do
      let fr' ← goto body fr l
      pure (fr', g)
    | none => .error (.undef "switch index out of range")
  | .alloca d n => do
    let v ← evalOpd fr.regs g n
    -- a fresh 16-aligned block above everything allocated so far (released at function return)
    let a := (g.sp + 15) &&& ~~~(15 : W64)
    let g1 := { g with sp := a + (if v = 0 then 1 else v) }
    let (rs, g') ← setOpd fr.regs g1 d a
    pure (next { fr with regs := rs }, g')
  | .call .. => .error (.stuck "call in stepInsn")
  | .ret _ => .error (.stuck "ret in stepInsn")

def findFunc (P : Prog ρ) (f : String) : Option (Func ρ) := P.find? (·.name == f)

/-- copy `n` bytes -/
def copyN (m : μ) (src dst : W64) : Nat → μ
  | 0 => m
  | n + 1 => copyN (ByteMem.store m dst (ByteMem.load m src)) (src + 1) (dst + 1) n

/-- parameters receive the arguments truncated to the parameter types; a `blk` parameter receives
the address of a fresh copy of the caller's block (MIR.md: "Block data are passed by value"), an
`rblk` parameter the caller's address.  Every other register of the new activation starts from
`init` (MIR leaves them unset; the driver rejects reads of unset registers, the inlining theorem
instantiates `init` with what the inlined copy finds there) -/
def enter (init : Regs ρ) : List (ρ × Ty) → List W64 → G μ → Except Err (Regs ρ × G μ)
  | [], [], g => .ok (init, g)
  | (r, t) :: ps, v :: vs, g => do
    let (rs, g) ← enter init ps vs g
    match t with
    | .blk n =>
      let a := (g.sp + 15) &&& ~~~(15 : W64)
      if validN g.mem v n && validN g.mem a n then
        pure (rs.set r a, { g with mem := copyN g.mem v a n, sp := a + BitVec.ofNat 64 (max n 1) })
      else .error (.oob v)
    | .rblk _ => pure (rs.set r v, g)
    | t => pure (rs.set r (t.trunc v), g)
  | _, _, _ => .error (.stuck "argument count")

def truncRes : List Ty → List W64 → Except Err (List W64)
  | [], [] => .ok []
  | t :: ts, v :: vs => do
    let r ← truncRes ts vs
    pure (t.trunc v :: r)
  | _, _ => .error (.stuck "result count")

/-- run the activation `fr` of `f` to its `ret`; `init f` is the initial register file of a new
activation of `f` -/
def exec (P : Prog ρ) (c : Cfg ρ μ) (init : String → Regs ρ) :
    Nat → Func ρ → Frame ρ → G μ → Except Err (List W64 × G μ)
  | 0, _, _, _ => .error .fuel
  | n + 1, f, fr, g =>
    match f.body[fr.pc]? with
    | none => .error (.stuck "fell off the end of the function")
    | some i =>
      if !c.chk i fr then .error (.precond s!"{f.name}@{fr.pc}") else
      match i with
      | .ret vs => do
        let rv ← evalOpds fr.regs g vs
        let rv' ← truncRes f.res rv
        pure (rv', g)
      | .call _ fn res args => do
        let av ← evalOpds fr.regs g args
        let (rv, g1) ←
          match findFunc P fn with
          | some callee => do
            let (rs0, g0) ← enter (init fn) callee.params av g
            let (rv, g1) ← exec P c init n callee { regs := rs0, pc := 0 } g0
            pure (rv, { g1 with sp := g.sp })
          | none => c.ext fn av g
        let (rs, g2) ← setOpds fr.regs g1 res rv
        exec P c init n f (next { fr with regs := rs }) g2
      | i => do
        let (fr', g') ← stepInsn f.body i fr g
        exec P c init n f fr' g'

/-- run straight-line code (no labels are resolved: `body := []`) -/
def execSeq (is : List (Insn ρ)) (fr : Frame ρ) (g : G μ) : Except Err (Frame ρ × G μ) :=
  match is with
  | [] => .ok (fr, g)
  | i :: tl => do
    let (fr', g') ← stepInsn [] i fr g
    execSeq tl fr' g'

end sem
end MirVerif.MirCore
