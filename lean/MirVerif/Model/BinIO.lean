/-!
# C11 — model of the binary MIR format (raw token stream), part 1: syntax, tokens, writer

Hand-written executable model of `/repo/mir.c` "Input/output of binary MIR":
`put_uint`, `uint_length`, `int_length`, `write_uint/int/float/double/ldouble`, `write_str_tag`,
`write_type`, `write_lab`, `write_op`, `write_insn`, `write_vars`, `write_item`, `write_module(s)`,
`MIR_write_module_with_func` (two passes over the same traversal: pass 1 collects the string table,
pass 2 emits).  The model talks about the RAW byte stream, i.e. what is fed to `reduce_encode_put`
and what `reduce_decode_get` returns; the compression layer is C12's.

Bytes are `Nat`s (`< 256` for everything the writer emits, lemma `writeModules_bytes`).
Integers are carried as their unsigned 64-bit patterns (`int64_t i` ↦ `(uint64_t) i`), floats as
IEEE bit patterns, `long double` as its 80 significant bits (`lo + 2^64 * hi16`).
-/

namespace BinIO

abbrev Byte := Nat
/-- raw bytes of one string-table entry (`MIR_str_t`: explicit length, may contain NULs) -/
abbrev Str := List Nat
/-- a C identifier / name: bytes without the terminating NUL -/
abbrev Name := List Nat
/-- `MIR_type_t` relative to `MIR_T_I8`: 0..7 integer types, 8 f, 9 d, 10 ld, 11 p,
    12..16 blk0..blk4, 17 rblk -/
abbrev Ty := Nat

/-- Facts about the reader/writer that are *read off the current source* on every run
(`translate/c11_tables.py` → `Gen.C11.cfg`).  All theorems are universally quantified over `Cfg`. -/
structure Cfg where
  /-- `insn_code_nops`: number of operands per insn code, 0 = variable (terminated by EOI) -/
  nops : List Nat
  /-- the reader rejects insn codes `≥ codeLimit` (`if (insn_code >= MIR_LABEL)` today) -/
  codeLimit : Nat
  /-- UNSPEC, USE, PHI: refused by writer and reader -/
  unportable : List Nat
  /-- #30: reader re-reads the hard register name index with `get_uint` after `read_token` -/
  globalDoubleRead : Bool
  /-- #6: reader creates lref labels with `create_label` (orphans) instead of `to_lab` -/
  lrefOrphan : Bool
  /-- #34: reader accepts unsigned tokens for data of type `p` (false today) -/
  dataPtr : Bool
  /-- reader appends labels that follow the last insn of a function at `endfunc`
      (false today: "endfunc should have no labels") -/
  endfuncLabels : Bool
  /-- reader takes a second lref label numbered 0 for the writer's "no label" (`i <= 0` instead of
      `i < 0`; false in the source as it is) -/
  lrefZeroIsNone : Bool
  /-- CURR_BIN_VERSION -/
  version : Nat
deriving Repr, DecidableEq

def Cfg.nopsOf (c : Cfg) (code : Nat) : Nat := c.nops.getD code 0

/-! ## tags (`bin_tag_t`); bridged to the generated enum in `Lemmas/BridgeC11.lean` -/
namespace Tag
@[simp, reducible] def u1 : Nat := 1
@[simp, reducible] def u8 : Nat := 8
@[simp, reducible] def i1 : Nat := 9
@[simp, reducible] def i8 : Nat := 16
@[simp, reducible] def f : Nat := 17
@[simp, reducible] def d : Nat := 18
@[simp, reducible] def ld : Nat := 19
@[simp, reducible] def reg1 : Nat := 20
@[simp, reducible] def name1 : Nat := 24
@[simp, reducible] def str1 : Nat := 28
@[simp, reducible] def lab1 : Nat := 32
@[simp, reducible] def memDisp : Nat := 36
@[simp, reducible] def memBase : Nat := 37
@[simp, reducible] def memIndex : Nat := 38
@[simp, reducible] def memDispBase : Nat := 39
@[simp, reducible] def memDispIndex : Nat := 40
@[simp, reducible] def memBaseIndex : Nat := 41
@[simp, reducible] def memDispBaseIndex : Nat := 42
@[simp, reducible] def ti8 : Nat := 43
@[simp, reducible] def trblock : Nat := 60
@[simp, reducible] def eoi : Nat := 61
@[simp, reducible] def eofile : Nat := 62
@[simp, reducible] def aliasMemDisp : Nat := 63
@[simp, reducible] def last : Nat := 69
/-- the table compared with the generated `bin_tag_t` -/
def table : List (String × Nat) :=
  [("TAG_U0", 0), ("TAG_U1", 1), ("TAG_U2", 2), ("TAG_U3", 3), ("TAG_U4", 4), ("TAG_U5", 5),
   ("TAG_U6", 6), ("TAG_U7", 7), ("TAG_U8", 8),
   ("TAG_I1", 9), ("TAG_I2", 10), ("TAG_I3", 11), ("TAG_I4", 12), ("TAG_I5", 13), ("TAG_I6", 14),
   ("TAG_I7", 15), ("TAG_I8", 16),
   ("TAG_F", 17), ("TAG_D", 18), ("TAG_LD", 19),
   ("TAG_REG1", 20), ("TAG_REG2", 21), ("TAG_REG3", 22), ("TAG_REG4", 23),
   ("TAG_NAME1", 24), ("TAG_NAME2", 25), ("TAG_NAME3", 26), ("TAG_NAME4", 27),
   ("TAG_STR1", 28), ("TAG_STR2", 29), ("TAG_STR3", 30), ("TAG_STR4", 31),
   ("TAG_LAB1", 32), ("TAG_LAB2", 33), ("TAG_LAB3", 34), ("TAG_LAB4", 35),
   ("TAG_MEM_DISP", 36), ("TAG_MEM_BASE", 37), ("TAG_MEM_INDEX", 38), ("TAG_MEM_DISP_BASE", 39),
   ("TAG_MEM_DISP_INDEX", 40), ("TAG_MEM_BASE_INDEX", 41), ("TAG_MEM_DISP_BASE_INDEX", 42),
   ("TAG_TI8", 43), ("TAG_TU8", 44), ("TAG_TI16", 45), ("TAG_TU16", 46), ("TAG_TI32", 47),
   ("TAG_TU32", 48), ("TAG_TI64", 49), ("TAG_TU64", 50),
   ("TAG_TF", 51), ("TAG_TD", 52), ("TAG_TP", 53), ("TAG_TV", 54), ("TAG_TBLOCK", 55),
   ("TAG_TRBLOCK", 60), ("TAG_EOI", 61), ("TAG_EOFILE", 62),
   ("TAG_ALIAS_MEM_DISP", 63), ("TAG_ALIAS_MEM_BASE", 64), ("TAG_ALIAS_MEM_INDEX", 65),
   ("TAG_ALIAS_MEM_DISP_BASE", 66), ("TAG_ALIAS_MEM_DISP_INDEX", 67),
   ("TAG_ALIAS_MEM_BASE_INDEX", 68), ("TAG_ALIAS_MEM_DISP_BASE_INDEX", 69),
   ("TAG_LAST", 69), ("U0_MASK", 127), ("U0_FLAG", 128)]
end Tag

/-! ## MIR syntax (own copy for the binary format, namespace `BinIO`) -/

structure Mem where
  ty : Nat
  disp : Nat                      -- int64 pattern
  base : Option Name
  index : Option (Name × Nat)     -- index register and scale (uint8)
  alias : Name                    -- [] = no alias (MIR_alias_name gives "" for 0)
  nonalias : Name
deriving DecidableEq, Repr

inductive Op
  | reg (n : Name)
  | int (v : Nat)
  | uint (v : Nat)
  | flt (bits : Nat)
  | dbl (bits : Nat)
  | ldbl (bits : Nat)             -- 80 bits
  | ref (n : Name)
  | str (s : Str)
  | label (n : Nat)
  | mem (m : Mem)
deriving DecidableEq, Repr

inductive Insn
  | label (n : Nat)
  | op (code : Nat) (ops : List Op)
deriving DecidableEq, Repr

structure Var where
  ty : Nat
  name : Name
  size : Nat                      -- only for block types, 0 otherwise
deriving DecidableEq, Repr

structure Func where
  name : Name
  vararg : Bool
  res : List Nat
  args : List Var
  locals : List (Nat × Name)
  globals : List (Nat × Name × Name)   -- type, name, hard register name
  insns : List Insn
deriving DecidableEq, Repr

inductive Item
  | import_ (n : Name)
  | export_ (n : Name)
  | forward_ (n : Name)
  | bss (nm : Option Name) (len : Nat)
  | ref (nm : Option Name) (item : Name) (disp : Nat)
  | lref (nm : Option Name) (l1 : Nat) (l2 : Option Nat) (disp : Nat)
  | expr (nm : Option Name) (func : Name)
  | data (nm : Option Name) (ty : Nat) (els : List Nat)   -- element bit patterns at element width
  | proto (n : Name) (vararg : Bool) (res : List Nat) (args : List Var)
  | func (f : Func)
deriving DecidableEq, Repr

structure Module where
  name : Name
  items : List Item
deriving DecidableEq, Repr

def isBlkTy (t : Nat) : Bool := 12 ≤ t && t ≤ 17      -- MIR_all_blk_type_p

/-! ## primitive byte codecs -/

/-- `put_uint (u, nb)`: `nb` little-endian bytes -/
def putUint : Nat → Nat → List Byte
  | _, 0 => []
  | u, nb + 1 => u % 256 :: putUint (u / 256) nb

/-- number of significant bytes of a 64-bit value (`for (n = 0; u != 0; n++) u >>= 8`) -/
def nbytes (u : Nat) : Nat :=
  if u = 0 then 0 else if u < 2 ^ 8 then 1 else if u < 2 ^ 16 then 2 else if u < 2 ^ 24 then 3
  else if u < 2 ^ 32 then 4 else if u < 2 ^ 40 then 5 else if u < 2 ^ 48 then 6
  else if u < 2 ^ 56 then 7 else 8

/-- `uint_length` -/
def uintLength (u : Nat) : Nat := if u ≤ 127 then 0 else nbytes u
/-- `int_length` on the unsigned pattern of the `int64_t` -/
def intLength (u : Nat) : Nat := if nbytes u = 0 then 1 else nbytes u

def writeUint (u : Nat) : List Byte :=
  if u ≤ 127 then [128 + u] else (Tag.u1 + nbytes u - 1) :: putUint u (nbytes u)
def writeInt (i : Nat) : List Byte := (Tag.i1 + intLength i - 1) :: putUint i (intLength i)
def writeFloat (b : Nat) : List Byte := Tag.f :: putUint b 4
def writeDouble (b : Nat) : List Byte := Tag.d :: putUint b 8
/-- `put_ldouble`: two 64-bit halves of the 16-byte union; the 6 padding bytes are modelled as 0 -/
def writeLdouble (v : Nat) : List Byte :=
  Tag.ld :: (putUint (v % 2 ^ 64) 8 ++ putUint (v / 2 ^ 64) 8)
/-- number of index bytes used by `write_str_tag` / `write_lab` -/
def idxLen (i : Nat) : Nat := if uintLength i = 0 then 1 else uintLength i
def writeIdx (base i : Nat) : List Byte := (base + idxLen i - 1) :: putUint i (idxLen i)
def writeType (t : Nat) : List Byte := [Tag.ti8 + t]

/-! ## the traversal: symbolic tokens (strings not yet replaced by table indexes)

`write_modules` is run twice by `MIR_write_module_with_func`; both runs make the same sequence of
`write_*` calls.  `STok` is one such call. -/

inductive STok
  | uint (v : Nat)
  | int (v : Nat)
  | flt (v : Nat)
  | dbl (v : Nat)
  | ldbl (v : Nat)
  | reg (n : Name)
  | name (n : Name)
  | str (s : Str)
  | lab (n : Nat)
  | raw (b : Byte)          -- put_byte of a tag: mem tags, type tags, EOI
deriving DecidableEq, Repr

def memTag (m : Mem) : Nat :=
  let a := if m.alias ≠ [] ∨ m.nonalias ≠ [] then Tag.aliasMemDisp - Tag.memDisp else 0
  a + (if m.disp ≠ 0 then
        (if m.base.isSome then (if m.index.isSome then Tag.memDispBaseIndex else Tag.memDispBase)
         else (if m.index.isSome then Tag.memDispIndex else Tag.memDisp))
       else if m.base.isSome then (if m.index.isSome then Tag.memBaseIndex else Tag.memBase)
       else if m.index.isSome then Tag.memIndex else Tag.memDisp)

def toksMem (m : Mem) : List STok :=
  [STok.raw (memTag m), STok.raw (Tag.ti8 + m.ty)]
  ++ (if m.disp ≠ 0 ∨ (m.base.isNone ∧ m.index.isNone) then [STok.int m.disp] else [])
  ++ (match m.base with | some b => [STok.reg b] | none => [])
  ++ (match m.index with | some (i, s) => [STok.reg i, STok.uint s] | none => [])
  ++ (if m.alias ≠ [] ∨ m.nonalias ≠ [] then [STok.name m.alias, STok.name m.nonalias] else [])

def toksOp : Op → List STok
  | .reg n => [.reg n]
  | .int v => [.int v]
  | .uint v => [.uint v]
  | .flt v => [.flt v]
  | .dbl v => [.dbl v]
  | .ldbl v => [.ldbl v]
  | .ref n => [.name n]
  | .str s => [.str s]
  | .label n => [.lab n]
  | .mem m => toksMem m

def toksInsn (cfg : Cfg) : Insn → List STok
  | .label n => [.lab n]
  | .op code ops =>
    .uint code :: (ops.flatMap toksOp ++ (if cfg.nopsOf code = 0 then [STok.raw Tag.eoi] else []))

/-- the reserved statement names of the binary format -/
inductive Kw
  | module_ | endmodule | proto | func | endfunc | export_ | import_ | forward | nbss | bss | nref | ref | nlref | lref | nexpr | expr | ndata | data | global | local_
deriving DecidableEq, Repr

def Kw.bytes : Kw → Name
  | .module_ => [109, 111, 100, 117, 108, 101]
  | .endmodule => [101, 110, 100, 109, 111, 100, 117, 108, 101]
  | .proto => [112, 114, 111, 116, 111]
  | .func => [102, 117, 110, 99]
  | .endfunc => [101, 110, 100, 102, 117, 110, 99]
  | .export_ => [101, 120, 112, 111, 114, 116]
  | .import_ => [105, 109, 112, 111, 114, 116]
  | .forward => [102, 111, 114, 119, 97, 114, 100]
  | .nbss => [110, 98, 115, 115]
  | .bss => [98, 115, 115]
  | .nref => [110, 114, 101, 102]
  | .ref => [114, 101, 102]
  | .nlref => [110, 108, 114, 101, 102]
  | .lref => [108, 114, 101, 102]
  | .nexpr => [110, 101, 120, 112, 114]
  | .expr => [101, 120, 112, 114]
  | .ndata => [110, 100, 97, 116, 97]
  | .data => [100, 97, 116, 97]
  | .global => [103, 108, 111, 98, 97, 108]
  | .local_ => [108, 111, 99, 97, 108]

/-- the `strcmp` chain of `MIR_read_with_func` -/
def kwOf (n : Name) : Option Kw :=
  if n = Kw.bytes .module_ then some .module_
  else if n = Kw.bytes .endmodule then some .endmodule
  else if n = Kw.bytes .proto then some .proto
  else if n = Kw.bytes .func then some .func
  else if n = Kw.bytes .endfunc then some .endfunc
  else if n = Kw.bytes .export_ then some .export_
  else if n = Kw.bytes .import_ then some .import_
  else if n = Kw.bytes .forward then some .forward
  else if n = Kw.bytes .nbss then some .nbss
  else if n = Kw.bytes .bss then some .bss
  else if n = Kw.bytes .nref then some .nref
  else if n = Kw.bytes .ref then some .ref
  else if n = Kw.bytes .nlref then some .nlref
  else if n = Kw.bytes .lref then some .lref
  else if n = Kw.bytes .nexpr then some .nexpr
  else if n = Kw.bytes .expr then some .expr
  else if n = Kw.bytes .ndata then some .ndata
  else if n = Kw.bytes .data then some .data
  else if n = Kw.bytes .global then some .global
  else if n = Kw.bytes .local_ then some .local_
  else none

def toksVar (v : Var) : List STok :=
  [STok.raw (Tag.ti8 + v.ty), STok.name v.name] ++ (if isBlkTy v.ty then [STok.uint v.size] else [])

def toksNamed (plain named : Kw) (nm : Option Name) : List STok :=
  match nm with
  | none => [STok.name plain.bytes]
  | some n => [STok.name named.bytes, STok.name n]

/-- sign extension of a `w`-bit pattern to 64 bits (what `write_int (((int8_t *) els)[i])` sees) -/
def sext (w v : Nat) : Nat := if v < 2 ^ (w - 1) then v else v + (2 ^ 64 - 2 ^ w)

/-- width in bits of a data element type (0 for types without data representation) -/
def tyBits (t : Nat) : Nat :=
  match t with
  | 0 => 8 | 1 => 8 | 2 => 16 | 3 => 16 | 4 => 32 | 5 => 32 | 6 => 64 | 7 => 64
  | 8 => 32 | 9 => 64 | 10 => 80 | 11 => 64 | _ => 0

def toksDataEl (t : Nat) (v : Nat) : STok :=
  match t with
  | 0 => .int (sext 8 v) | 2 => .int (sext 16 v) | 4 => .int (sext 32 v) | 6 => .int v
  | 8 => .flt v | 9 => .dbl v | 10 => .ldbl v
  | _ => .uint v          -- u8 u16 u32 u64 p

def toksLocals (vs : List (Nat × Name)) : List STok :=
  if vs = [] then [] else
    STok.name (Kw.bytes .local_) :: (vs.flatMap (fun v => [STok.raw (Tag.ti8 + v.1), STok.name v.2])
                               ++ [STok.raw Tag.eoi])
def toksGlobals (vs : List (Nat × Name × Name)) : List STok :=
  if vs = [] then [] else
    STok.name (Kw.bytes .global)
      :: (vs.flatMap (fun v => [STok.raw (Tag.ti8 + v.1), STok.name v.2.1, STok.name v.2.2])
          ++ [STok.raw Tag.eoi])

def toksProto (va : Bool) (res : List Nat) (args : List Var) : List STok :=
  [STok.uint (if va then 1 else 0), STok.uint res.length]
  ++ res.map (fun t => STok.raw (Tag.ti8 + t)) ++ args.flatMap toksVar ++ [STok.raw Tag.eoi]

def toksItem (cfg : Cfg) : Item → List STok
  | .import_ n => [.name (Kw.bytes .import_), .name n]
  | .export_ n => [.name (Kw.bytes .export_), .name n]
  | .forward_ n => [.name (Kw.bytes .forward), .name n]
  | .bss nm len => toksNamed .bss .nbss nm ++ [.uint len]
  | .ref nm it disp => toksNamed .ref .nref nm ++ [.name it, .int disp]
  | .lref nm l1 l2 disp =>
    toksNamed .lref .nlref nm
    ++ [.int l1, .int (match l2 with | some l => l | none => 2 ^ 64 - 1), .int disp]
  | .expr nm fn => toksNamed .expr .nexpr nm ++ [.name fn]
  | .data nm t els =>
    toksNamed .data .ndata nm ++ [STok.raw (Tag.ti8 + t)] ++ els.map (toksDataEl t)
    ++ [STok.raw Tag.eoi]
  | .proto n va res args => [.name (Kw.bytes .proto), .name n] ++ toksProto va res args
  | .func f =>
    [.name (Kw.bytes .func), .name f.name] ++ toksProto f.vararg f.res f.args
    ++ toksLocals f.locals ++ toksGlobals f.globals
    ++ f.insns.flatMap (toksInsn cfg) ++ [.name (Kw.bytes .endfunc)]

def toksModule (cfg : Cfg) (m : Module) : List STok :=
  [STok.name (Kw.bytes .module_), STok.name m.name] ++ m.items.flatMap (toksItem cfg)
  ++ [STok.name (Kw.bytes .endmodule)]

def toksModules (cfg : Cfg) (ms : List Module) : List STok := ms.flatMap (toksModule cfg)

/-! ## pass 1: the string table (`string_store` in order of first occurrence) -/

def strOf : STok → Option Str
  | .reg n => some (n ++ [0])
  | .name n => some (n ++ [0])
  | .str s => some s
  | _ => none

/-- reversed table so far; `string_store` pushes only strings not yet present -/
def storeStr (acc : List Str) (s : Str) : List Str := if s ∈ acc then acc else s :: acc

def strTable (toks : List STok) : List Str := ((toks.filterMap strOf).foldl storeStr []).reverse

/-! ## pass 2: emission -/

def encTok (tab : List Str) : STok → List Byte
  | .uint v => writeUint v
  | .int v => writeInt v
  | .flt v => writeFloat v
  | .dbl v => writeDouble v
  | .ldbl v => writeLdouble v
  | .reg n => writeIdx Tag.reg1 (tab.idxOf (n ++ [0]))
  | .name n => writeIdx Tag.name1 (tab.idxOf (n ++ [0]))
  | .str s => writeIdx Tag.str1 (tab.idxOf s)
  | .lab n => writeIdx Tag.lab1 n
  | .raw b => [b]

def encStr (s : Str) : List Byte := writeUint s.length ++ s

def encHeader (cfg : Cfg) (tab : List Str) : List Byte :=
  writeUint cfg.version ++ writeUint tab.length ++ tab.flatMap encStr

/-- bytes produced for a token list with its own string table -/
def encToks (cfg : Cfg) (toks : List STok) : List Byte :=
  let tab := strTable toks
  encHeader cfg tab ++ toks.flatMap (encTok tab) ++ [Tag.eofile]

/-- `MIR_write_module_with_func (ctx, writer, NULL)`: the raw byte stream for all modules -/
def writeModules (cfg : Cfg) (ms : List Module) : List Byte := encToks cfg (toksModules cfg ms)

/-- `write_insn` refuses UNSPEC/USE/PHI with `MIR_binary_io_error` -/
def insnWritable (cfg : Cfg) : Insn → Bool
  | .label _ => true
  | .op code _ => !cfg.unportable.contains code

def itemWritable (cfg : Cfg) : Item → Bool
  | .func f => f.insns.all (insnWritable cfg)
  | _ => true

def writable (cfg : Cfg) (ms : List Module) : Bool :=
  ms.all (fun m => m.items.all (itemWritable cfg))

end BinIO
