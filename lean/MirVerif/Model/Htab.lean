/-!
# Executable model of `/repo/mir-htab.h` (C19, HTAB part)

The model follows `HTAB_OP (T, do)` (mir-htab.h:145-219), `clear` (115-133), `create` (91-113) and
`foreach_elem` (230-239) statement by statement.

Representation
* `entries : List Slot`  — the `VARR (htab_ind_t) entries`; `HTAB_EMPTY_IND` = `.empty`,
  `HTAB_DELETED_IND` = `.deleted`, any other value = `.idx i`.
* `els : List (El α)`    — the *initialised prefix* `els[0 .. els_bound)` of `VARR (HTAB_EL (T)) els`;
  hence `els_bound = els.length`.  Storage beyond `els_bound` is never read by the C code before it is
  written (`els_addr[htab->els_bound] = …; els_bound++` is modelled as `els ++ [·]`).
* `cap`  — `VARR_LENGTH (els)` (= `els_size`);  the C code keeps `VARR_LENGTH (entries) = 2 * els_size`.
* `num`  — `els_num`;  `coll` — the `collisions` statistic (32-bit wrap).
* `els_start` is only ever assigned `0` in the header and never read except in the rebuild loop
  (`start = htab->els_start`), so it is the constant 0 and not a field of the model.

The hash function `hf` and the equality `eq` are parameters (the C code receives them as function
pointers).  `hf` may return any natural number; the model reduces it mod 2^32 (`htab_hash_t` is
`unsigned`).  Index arithmetic `(5 * ind + peterb + 1) & mask` is done in `unsigned` in C; since
`mask + 1` divides 2^32 the wrap-around is invisible after `& mask`, so the model uses `Nat`.
-/
namespace MirVerif.Htab

/-- one cell of `entries` -/
inductive Slot where
  | empty
  | deleted
  | idx (i : Nat)
  deriving DecidableEq, Repr, Inhabited

/-- `enum htab_action` -/
inductive Action where
  | find
  | insert
  | replace
  | delete
  deriving DecidableEq, Repr

/-- `HTAB_EL (T)`; `hash = 0` is `HTAB_DELETED_HASH` -/
structure El (α : Type) where
  hash : Nat
  el : α
  deriving Repr

structure Tab (α : Type) where
  entries : List Slot
  els : List (El α)
  cap : Nat
  num : Nat
  coll : Nat
  deriving Repr

variable {α : Type}

/-- `els_addr[i].hash != HTAB_DELETED_HASH` -/
def live (e : El α) : Bool := e.hash != 0

/-- `addr[p]` -/
def ent (t : Tab α) (p : Nat) : Slot := t.entries.getD p .empty

/-- `hash = hash_func (el, arg); if (hash == HTAB_DELETED_HASH) hash += 1;` -/
def hashOf (hf : α → Nat) (x : α) : Nat :=
  if hf x % 4294967296 = 0 then 1 else hf x % 4294967296

/-- `ind = (5 * ind + peterb + 1) & mask` with `mask = size - 1` -/
def nextInd (size ind pb : Nat) : Nat := (5 * ind + pb + 1) &&& (size - 1)

/-- result of the probing loop -/
inductive Res (α : Type) where
  /-- matching element `e = els[i]` found through `entries[p] = i` after `c` collisions -/
  | found (p i : Nat) (e : El α) (c : Nat)
  /-- empty slot `p` reached; `ld` = `first_deleted_entry` (the C variable is overwritten at every
      tombstone, so it is the *last* tombstone passed) -/
  | absent (p : Nat) (ld : Option Nat) (c : Nat)
  /-- fuel exhausted (the C loop would not have terminated yet) -/
  | noFuel

/-- the loop `for (;; htab->collisions++) { … peterb >>= 11; ind = (5*ind + peterb + 1) & mask; }`
of `HTAB_OP (T, do)`; `fuel` bounds the number of probes. -/
def scan (eq : α → α → Bool) (t : Tab α) (h : Nat) (x : α) :
    Nat → Nat → Nat → Option Nat → Nat → Res α
  | 0, _, _, _, _ => .noFuel
  | fuel + 1, ind, pb, ld, c =>
    match ent t ind with
    | .empty => .absent ind ld c
    | .deleted =>
      scan eq t h x fuel (nextInd t.entries.length ind (pb / 2048)) (pb / 2048) (some ind) (c + 1)
    | .idx i =>
      match t.els[i]? with
      | some e =>
        if e.hash = h ∧ eq e.el x = true then .found ind i e c
        else scan eq t h x fuel (nextInd t.entries.length ind (pb / 2048)) (pb / 2048) ld (c + 1)
      | none => -- out-of-bounds index: cannot happen in a well-formed table
        scan eq t h x fuel (nextInd t.entries.length ind (pb / 2048)) (pb / 2048) ld (c + 1)

/-- number of probes after which every slot has certainly been visited (see `scan_fuel_enough`) -/
def fuelFor (t : Tab α) : Nat := t.entries.length + 3

/-- `mask = size - 1; hash = …; peterb = hash; ind = hash & mask;` followed by the loop -/
def lookup (hf : α → Nat) (eq : α → α → Bool) (t : Tab α) (x : α) : Res α :=
  scan eq t (hashOf hf x) x (fuelFor t) (hashOf hf x &&& (t.entries.length - 1)) (hashOf hf x) none 0

/-- what one call of `HTAB_DO` lets the caller observe -/
structure Out (α : Type) where
  /-- the returned flag -/
  found : Bool
  /-- the value written to `*res` (`none`: `*res` untouched) -/
  res : Option α
  /-- arguments of the `free_func` calls, in call order -/
  freed : List α
  deriving Repr

def addColl (t : Tab α) (c : Nat) : Tab α := { t with coll := (t.coll + c) % 4294967296 }

/-- `HTAB_OP (T, do)` after the rebuild test (lines 176-218) -/
def core (hf : α → Nat) (eq : α → α → Bool) (t : Tab α) (x : α) (a : Action) : Tab α × Out α :=
  match lookup hf eq t x with
  | .found p i e c =>
    let t := addColl t c
    match a with
    | .find => (t, ⟨true, some e.el, []⟩)
    | .insert => (t, ⟨true, some e.el, []⟩)
    | .replace => ({ t with els := t.els.set i ⟨e.hash, x⟩ }, ⟨true, some x, [e.el]⟩)
    | .delete =>
      ({ t with entries := t.entries.set p .deleted, els := t.els.set i ⟨0, e.el⟩, num := t.num - 1 },
       ⟨true, none, [e.el]⟩)
  | .absent p ld c =>
    let t := addColl t c
    match a with
    | .insert | .replace =>
      ({ t with entries := t.entries.set (ld.getD p) (.idx t.els.length),
                els := t.els ++ [⟨hashOf hf x, x⟩], num := t.num + 1 },
       ⟨false, some x, []⟩)
    | .find | .delete => (t, ⟨false, none, []⟩)
  | .noFuel => (t, ⟨false, none, []⟩)

/-- a table with all entries empty (`for (i = 0; i < size; i++) addr[i] = HTAB_EMPTY_IND`) -/
def fresh (entriesLen cap coll : Nat) : Tab α :=
  { entries := List.replicate entriesLen .empty, els := [], cap := cap, num := 0, coll := coll }

/-- the rebuild branch (lines 159-175): both arrays are doubled, the entries are reset and every
live element of `els[els_start .. els_bound)` is re-inserted in order by a recursive
`HTAB_OP (T, do) (…, HTAB_INSERT, …)`.  The recursive call cannot rebuild again
(`els_bound < els_size` there), so it is `core`.  The C code compacts in place; position
`els_bound ≤ i` is written only after `els_addr[i].el` has been read, so reading all live elements
first is the same. -/
def rebuild (hf : α → Nat) (eq : α → α → Bool) (t : Tab α) : Tab α :=
  (t.els.filter live).foldl (fun acc e => (core hf eq acc e.el .insert).1)
    (fresh (2 * t.entries.length) (2 * t.cap) t.coll)

/-- `HTAB_OP (T, do)` = `HTAB_DO` -/
def doOp (hf : α → Nat) (eq : α → α → Bool) (t : Tab α) (x : α) (a : Action) : Tab α × Out α :=
  if (a = .insert ∨ a = .replace) ∧ t.els.length = t.cap then core hf eq (rebuild hf eq t) x a
  else core hf eq t x a

/-- `HTAB_FOREACH_ELEM`: the elements passed to the callback, in call order -/
def contents (t : Tab α) : List α := (t.els.filter live).map (·.el)

/-- `HTAB_CLEAR` (with a non-NULL `free_func`): new table and the `free_func` calls -/
def clear (t : Tab α) : Tab α × List α :=
  ({ t with entries := List.replicate t.entries.length .empty, els := [], num := 0 }, contents t)

/-- `for (size = 2; min_size > size; size *= 2);` (at most 30 doublings: `unsigned`) -/
def sizeLoop : Nat → Nat → Nat → Nat
  | 0, size, _ => size
  | fuel + 1, size, minSize => if minSize > size then sizeLoop fuel (2 * size) minSize else size

/-- `HTAB_CREATE` -/
def create (minSize : Nat) : Tab α :=
  fresh (2 * sizeLoop 30 2 minSize) (sizeLoop 30 2 minSize) 0

/-! ### operation histories -/

inductive Op (α : Type) where
  | act (a : Action) (x : α)
  | clear
  deriving Repr

/-- observation after one operation: what the call returned / freed, then `HTAB_ELS_NUM` and the
`HTAB_FOREACH_ELEM` sequence of the new table -/
structure Obs (α : Type) where
  out : Out α
  num : Nat
  all : List α
  deriving Repr

def step (hf : α → Nat) (eq : α → α → Bool) (t : Tab α) : Op α → Tab α × Obs α
  | .act a x => let r := doOp hf eq t x a; (r.1, ⟨r.2, r.1.num, contents r.1⟩)
  | .clear => let r := clear t; (r.1, ⟨⟨false, none, r.2⟩, r.1.num, contents r.1⟩)

def run (hf : α → Nat) (eq : α → α → Bool) (t : Tab α) : List (Op α) → Tab α × List (Obs α)
  | [] => (t, [])
  | o :: os =>
    let r := step hf eq t o
    let r' := run hf eq r.1 os
    (r'.1, r.2 :: r'.2)

end MirVerif.Htab
