import MirVerif.Model.PPExpr
/-!
# C09 — executable specification of C11 6.10.3 macro replacement and 6.10.1 conditional inclusion

Tokens carry their spelling, a white-space mark (needed only by `#`), and the "painted" flag of
6.10.3.4p2 (a macro name found while the macro is being replaced is never replaced later).

`expandList defs dis pend ts` rescans the token list `ts` in a context in which the macros `dis`
are being replaced (disabled).  It returns the produced tokens, an optional *pending* function-like
macro name that ended the list without having met its `(` (6.10.3.4p1: the rescan continues "along
with all subsequent preprocessing tokens of the source file", so the caller has to look for the
parenthesis in *its* remaining tokens, where the inner macro is no longer disabled), and an error
flag.  Argument lists that start inside one replacement list and end outside of it are not
supported (error flag): C11 leaves their nesting unspecified (DR 268) and the generators avoid them.

The function is total; its termination argument is the lexicographic measure
(number of macros not disabled, 2·length + pending); the proof obligations are discharged
with `enabledCount_lt` and `collectArgs_len`.
-/
namespace MirVerif.PP

inductive Ws where | none | space | gray
deriving DecidableEq, Repr, Inhabited

/-- white space before a token that follows an inserted argument / a finished replacement:
a space in the source stays a space, otherwise C11 does not say (implementations differ). -/
def Ws.after : Ws → Ws
  | .space => .space
  | _ => .gray

/-- white space before the first token of an inserted argument / replacement: `p` is the mark of
the replaced token (parameter or macro name), `a` the mark of the first inserted token. -/
def Ws.merge (p a : Ws) : Ws :=
  if p = .space then .space else if a = .none then p else .gray

structure Tok where
  sp : String
  ws : Ws := .none
  painted : Bool := false
deriving DecidableEq, Repr, Inhabited

/-! ## spelling classes -/

def isIdStart (c : Char) : Bool := c.isAlpha || c == '_'
def isIdChar (c : Char) : Bool := c.isAlphanum || c == '_'

def isIdentL : List Char → Bool
  | c :: cs => isIdStart c && cs.all isIdChar
  | [] => false

def isIdent (s : String) : Bool := isIdentL s.toList

/-- pp-number tail: digits, identifier characters, `.`, and a sign directly after e E p P -/
def ppNumTail : Char → List Char → Bool
  | _, [] => true
  | prev, c :: cs =>
    if isIdChar c || c == '.' then ppNumTail c cs
    else if (c == '+' || c == '-') && (prev == 'e' || prev == 'E' || prev == 'p' || prev == 'P') then
      ppNumTail c cs
    else false

def isPPNumberL : List Char → Bool
  | c :: cs =>
    if c.isDigit then ppNumTail c cs
    else if c == '.' then
      match cs with
      | d :: ds => d.isDigit && ppNumTail d ds
      | [] => false
    else false
  | [] => false

def isPPNumber (s : String) : Bool := isPPNumberL s.toList

def punctuators : List String :=
  ["[", "]", "(", ")", "{", "}", ".", "->", "++", "--", "&", "*", "+", "-", "~", "!", "/", "%",
   "<<", ">>", "<", ">", "<=", ">=", "==", "!=", "^", "|", "&&", "||", "?", ":", ";", "...", "=",
   "*=", "/=", "%=", "+=", "-=", "<<=", ">>=", "&=", "^=", "|=", ",", "#", "##", "<:", ":>", "<%",
   "%>", "%:", "%:%:"]

def isStrOrChr (s : String) : Bool :=
  match s.toList with
  | '"' :: _ => true
  | '\'' :: _ => true
  | 'L' :: '"' :: _ | 'L' :: '\'' :: _ => true
  | 'u' :: '"' :: _ | 'u' :: '\'' :: _ => true
  | 'U' :: '"' :: _ | 'U' :: '\'' :: _ => true
  | 'u' :: '8' :: '"' :: _ => true
  | _ => false

/-- may the spelling be the result of `##` (6.10.3.3p3)? -/
def validPaste (s : String) : Bool := isIdent s || isPPNumber s || punctuators.contains s

/-! ## stringification (6.10.3.2) -/

/-- marker for a white-space position C11 leaves open (see `Ws.after`) -/
def grayChar : Char := Char.ofNat 1

def escapeChars : List Char → List Char
  | [] => []
  | c :: cs => if c == '"' || c == '\\' then '\\' :: c :: escapeChars cs else c :: escapeChars cs

def isEscd (c : Char) : Bool := c == '"' || c == '\\'

/-- OLD VARIANT (before /repo f779af05): loop of `destringify` in which a backslash is dropped when
the next character is `\` or `"`, and the scan then continues *at that next character* -/
def destrLoopOld : List Char → List Char
  | [] => []
  | [c] => [c]
  | c :: d :: rest =>
    if c == '\\' && isEscd d then destrLoopOld (d :: rest) else c :: destrLoopOld (d :: rest)

/-- loop of `destringify` (`c2mir.c:1801-1806`, since /repo f779af05): a backslash is dropped when the
next character is `\` or `"`; that character is copied and not examined again -/
def destrLoop : List Char → List Char
  | [] => []
  | [c] => [c]
  | c :: d :: rest =>
    if c == '\\' && isEscd d then d :: destrLoop rest else c :: destrLoop (d :: rest)

/-- spelling of one token inside the string made by `#`: `"` and `\` of string literals and
character constants are escaped, every other token is copied -/
def strPiece (t : Tok) : List Char :=
  if isStrOrChr t.sp then escapeChars t.sp.toList else t.sp.toList

def wsChars : Ws → List Char
  | .none => []
  | .space => [' ']
  | .gray => [grayChar]

def strBody : Bool → List Tok → List Char
  | _, [] => []
  | first, t :: ts => (if first then [] else wsChars t.ws) ++ strPiece t ++ strBody false ts

def stringifyArg (ws : Ws) (arg : List Tok) : Tok :=
  { sp := String.ofList (['"'] ++ strBody true arg ++ ['"']), ws := ws }

/-- `stringify` of the code (`c2mir.c:1778-1787`; used for `__FILE__` and `#line` names): every
`"` and `\` is escaped -/
def stringify (s : List Char) : List Char := ['"'] ++ escapeChars s ++ ['"']

def stripQuotesC (r : List Char) : List Char :=
  match r with
  | [] => []
  | ['"'] => []
  | '"' :: rest => if rest.getLast? == some '"' then rest.dropLast else rest
  | r => if r.getLast? == some '"' then r.dropLast else r

/-- OLD VARIANT: `destringify` before /repo f779af05 -/
def destringifyOld (r : List Char) : List Char := destrLoopOld (stripQuotesC r)

/-- `destringify` of the code (`c2mir.c:1793-1807`; used for the operand of `_Pragma`) -/
def destringifyC (r : List Char) : List Char := destrLoop (stripQuotesC r)

/-- strings on which the old `destringifyOld` inverts `stringify`: no backslash is directly
followed by a backslash or a double quote -/
def noEscPair : List Char → Bool
  | [] => true
  | [_] => true
  | c :: d :: rest => !(c == '\\' && isEscd d) && noEscPair (d :: rest)

/-! ## macro definitions -/

inductive RItem where
  | tok (t : Tok)
  | param (i : Nat) (ws : Ws)
  | str (i : Nat) (ws : Ws)
  | paste
deriving DecidableEq, Repr

structure Macro where
  name : String
  params : Option (List String)      -- `none` = object-like
  variadic : Bool
  repl : List RItem
deriving Repr, DecidableEq

abbrev Defs := List Macro

def lookup (defs : Defs) (n : String) : Option Macro := defs.find? (·.name == n)

def paramIndex (params : List String) (variadic : Bool) (n : String) : Option Nat :=
  match params.idxOf? n with
  | some i => some i
  | none => if variadic && n == "__VA_ARGS__" then some params.length else none

/-- replacement list → items.  `none` = constraint violation (6.10.3.2p1). -/
def mkReplAux (fn : Option (List String × Bool)) : List Tok → Option (List RItem)
  | [] => some []
  | t :: rest =>
    if t.sp == "##" then (mkReplAux fn rest).map (RItem.paste :: ·)
    else
      match fn with
      | none => (mkReplAux fn rest).map (RItem.tok t :: ·)
      | some (ps, va) =>
        if t.sp == "#" then
          match rest with
          | p :: rest' =>
            match paramIndex ps va p.sp with
            | some i => (mkReplAux fn rest').map (RItem.str i t.ws :: ·)
            | none => none
          | [] => none
        else
          match (if isIdent t.sp then paramIndex ps va t.sp else none) with
          | some i => (mkReplAux fn rest).map (RItem.param i t.ws :: ·)
          | none => (mkReplAux fn rest).map (RItem.tok t :: ·)

/-- 6.10.3.3p1: `##` shall not occur at either end of a replacement list -/
def mkRepl (params : Option (List String)) (variadic : Bool) (ts : List Tok) : Option (List RItem) :=
  match mkReplAux (params.map (·, variadic)) ts with
  | some items =>
    if items.head? == some .paste || items.getLast? == some .paste then none else some items
  | none => none

/-! ## argument collection (6.10.3p11) -/

/-- `collectArgs nNamed variadic depth cur acc ts` : `ts` starts right after the opening `(`.
A top-level comma separates arguments unless it belongs to the variable part.  Result: the
arguments and the tokens after the matching `)`. -/
def collectArgs (nNamed : Nat) (variadic : Bool) :
    Nat → List Tok → List (List Tok) → List Tok → Option (List (List Tok) × List Tok)
  | _, _, _, [] => none
  | depth, cur, acc, t :: ts =>
    if t.sp == "(" then collectArgs nNamed variadic (depth + 1) (t :: cur) acc ts
    else if t.sp == ")" then
      match depth with
      | 0 => some ((cur.reverse :: acc).reverse, ts)
      | d + 1 => collectArgs nNamed variadic d (t :: cur) acc ts
    else if t.sp == "," && depth == 0 && !(variadic && acc.length ≥ nNamed) then
      collectArgs nNamed variadic 0 [] (cur.reverse :: acc) ts
    else collectArgs nNamed variadic depth (t :: cur) acc ts

def sumLen : List (List Tok) → Nat
  | [] => 0
  | a :: as => a.length + sumLen as

theorem sumLen_append (xs ys : List (List Tok)) : sumLen (xs ++ ys) = sumLen xs + sumLen ys := by
  induction xs with
  | nil => simp [sumLen]
  | cons x xs ih => simp [sumLen, ih]; omega

theorem sumLen_reverse (xs : List (List Tok)) : sumLen xs.reverse = sumLen xs := by
  induction xs with
  | nil => simp [sumLen]
  | cons x xs ih => simp [sumLen_append, sumLen, ih]; omega

/-- the arguments and the remaining tokens together are shorter than what was scanned -/
theorem collectArgs_len (nNamed : Nat) (variadic : Bool) :
    ∀ (ts : List Tok) (depth : Nat) (cur : List Tok) (acc : List (List Tok))
      (args : List (List Tok)) (rest : List Tok),
      collectArgs nNamed variadic depth cur acc ts = some (args, rest) →
      sumLen args + rest.length < sumLen acc + cur.length + ts.length := by
  intro ts
  induction ts with
  | nil => intro depth cur acc args rest h; simp [collectArgs] at h
  | cons t ts ih =>
    intro depth cur acc args rest h
    unfold collectArgs at h
    split at h
    · have := ih _ _ _ _ _ h; simp at this ⊢; omega
    · split at h
      · cases depth with
        | zero =>
          simp at h
          obtain ⟨h1, h2⟩ := h
          subst h1 h2
          simp [sumLen_append, sumLen_reverse, sumLen]
        | succ d => have := ih _ _ _ _ _ h; simp at this ⊢; omega
      · split at h
        · have := ih _ _ _ _ _ h; simp [sumLen] at this ⊢; omega
        · have := ih _ _ _ _ _ h; simp at this ⊢; omega

theorem mem_sumLen {a : List Tok} {as : List (List Tok)} (h : a ∈ as) : a.length ≤ sumLen as := by
  induction as with
  | nil => cases h
  | cons x xs ih =>
    cases h with
    | head => simp [sumLen]
    | tail _ h' => have := ih h'; simp [sumLen]; omega

/-- arity check (6.10.3p4); yields the arguments aligned with the parameters, variable part last -/
def checkArity (m : Macro) (args : List (List Tok)) : Option (List (List Tok)) :=
  match m.params with
  | none => none
  | some ps =>
    if m.variadic then
      if args.length == ps.length + 1 then some args else none
    else if ps.length == 0 then
      (if args == [[]] then some [] else none)
    else if args.length == ps.length then some args else none

/-! ## substitution and `##` (6.10.3.1 – 6.10.3.3) -/

inductive PItem where
  | tok (t : Tok)
  | placemarker (ws : Ws)
  | pasteOp
deriving Repr

def setFirstWs (f : Ws → Ws) : List Tok → List Tok
  | [] => []
  | t :: ts => { t with ws := f t.ws } :: ts

def insertArg (pws : Ws) (arg : List Tok) : List PItem :=
  (setFirstWs (Ws.merge pws) arg).map PItem.tok

def afterArg : List PItem → List PItem
  | .tok t :: rest => .tok { t with ws := t.ws.after } :: rest
  | r => r

/-- first pass over the replacement list.  `prevPaste` : the previous item was `##`.
A parameter next to `##` is replaced by the argument's tokens as written (a placemarker if there
are none), `# parameter` by the spelling of the argument as written, every other parameter by
the completely macro-replaced argument. -/
def substItems (raw exp : List (List Tok)) : Bool → List RItem → List PItem
  | _, [] => []
  | prevPaste, it :: rest =>
    let nextPaste := rest.head? == some RItem.paste
    match it with
    | .tok t => .tok t :: substItems raw exp false rest
    | .paste => .pasteOp :: substItems raw exp true rest
    | .str i ws => .tok (stringifyArg ws (raw.getD i [])) :: substItems raw exp false rest
    | .param i ws =>
      if prevPaste || nextPaste then
        let a := raw.getD i []
        (if a.isEmpty then [PItem.placemarker ws] else insertArg ws a) ++ afterArg (substItems raw exp false rest)
      else
        insertArg ws (exp.getD i []) ++ afterArg (substItems raw exp false rest)

/-- parameters that occur outside `#` / `##` operands: only their arguments are macro-replaced
(an argument that is never inserted in replaced form is never examined, so an ill-formed
invocation inside it is not diagnosed) -/
def neededArgs : Bool → List RItem → List Nat
  | _, [] => []
  | prevPaste, it :: rest =>
    match it with
    | .param i _ =>
      if prevPaste || rest.head? == some RItem.paste then neededArgs false rest
      else i :: neededArgs false rest
    | .paste => neededArgs true rest
    | _ => neededArgs false rest

/-- concatenation of two tokens; `none` if the result is not a single valid token -/
def pasteToks (l r : Tok) : Option Tok :=
  let s := l.sp ++ r.sp
  if validPaste s then some { sp := s, ws := l.ws, painted := false } else none

/-! A placemarker vanishes, the white space written around the empty operand does not: the result of
`x ## <empty>` is `x`, the token after the operand keeps its own white space; `<empty> ## z` is `z` with the
white space of the operand position (gcc and clang agree; the check compares stringified expansions). -/

/-- second pass: perform the pastes from left to right; `acc` is the reversed output -/
def doPastes : List PItem → List PItem → Option (List PItem)
  | acc, [] => some acc.reverse
  | _, [.pasteOp] => none
  | acc, .pasteOp :: rhs :: rest =>
    match acc with
    | lhs :: acc' =>
      match lhs, rhs with
      | .placemarker w, .placemarker _ => doPastes (.placemarker w :: acc') rest
      | .placemarker w, .tok r => doPastes (.tok { r with ws := w } :: acc') rest
      | .tok l, .placemarker _ => doPastes (.tok l :: acc') rest
      | .tok l, .tok r =>
        match pasteToks l r with
        | some t => doPastes (.tok t :: acc') rest
        | none => none
      | _, _ => none
    | [] => none
  | acc, it :: rest => doPastes (it :: acc) rest
termination_by acc rest => rest.length
decreasing_by
  all_goals simp_wf
  all_goals omega

/-- a placemarker that is left over vanishes; white space written before it stays before the next token -/
def dropPlacemarkers : List PItem → List Tok
  | [] => []
  | .tok t :: rest => t :: dropPlacemarkers rest
  | .placemarker w :: rest =>
    match dropPlacemarkers rest with
    | [] => []
    | t :: ts => { t with ws := if w = .space then .space else t.ws } :: ts
  | _ :: rest => dropPlacemarkers rest

/-- replacement list with arguments substituted, `#` and `##` applied -/
def subst (m : Macro) (raw exp : List (List Tok)) : Option (List Tok) :=
  (doPastes [] (substItems raw exp false m.repl)).map dropPlacemarkers

/-! ## rescanning and further replacement (6.10.3.4) -/

def enabledCount (defs : Defs) (dis : List String) : Nat :=
  (defs.filter (fun m => !dis.contains m.name)).length

theorem lookup_mem {defs : Defs} {n : String} {m : Macro} (h : lookup defs n = some m) :
    m ∈ defs ∧ m.name = n := by
  unfold lookup at h
  have h1 := List.mem_of_find?_eq_some h
  have h2 := List.find?_some h
  simp at h2
  exact ⟨h1, h2⟩

theorem filter_len_le {α : Type} (p q : α → Bool) (xs : List α) (h : ∀ a, p a = true → q a = true) :
    (xs.filter p).length ≤ (xs.filter q).length := by
  induction xs with
  | nil => simp
  | cons x xs ih =>
    simp only [List.filter_cons]
    cases hp : p x <;> cases hq : q x <;> simp <;> first
      | omega
      | (have := h x hp; simp [hq] at this)

theorem filter_len_lt {α : Type} (p q : α → Bool) (xs : List α) (h : ∀ a, p a = true → q a = true)
    (w : α) (hw : w ∈ xs) (hq : q w = true) (hp : p w = false) :
    (xs.filter p).length < (xs.filter q).length := by
  induction xs with
  | nil => cases hw
  | cons x xs ih =>
    simp only [List.filter_cons]
    cases hw with
    | head =>
      rw [hp, hq]
      have := filter_len_le p q xs h
      simp; omega
    | tail _ hw' =>
      have := ih hw'
      cases hpx : p x <;> cases hqx : q x <;> simp <;> first
        | omega
        | (have := h x hpx; simp [hqx] at this)

/-- starting to replace an enabled macro strictly decreases the number of enabled macros -/
theorem enabledCount_lt {defs : Defs} {dis : List String} {n : String} {m : Macro}
    (h : lookup defs n = some m) (hd : dis.contains n = false) :
    enabledCount defs (n :: dis) < enabledCount defs dis := by
  obtain ⟨hm, hn⟩ := lookup_mem h
  unfold enabledCount
  apply filter_len_lt _ _ defs _ m hm
  · simp [hn]; simpa using hd
  · simp [hn]
  · intro a ha
    simp at ha ⊢
    exact ha.2

def paint (t : Tok) : Tok := { t with painted := true }

def retouch (o : List Tok) (w : Ws) : List Tok := setFirstWs (Ws.merge w) o

structure XOut where
  toks : List Tok
  pending : Option Tok
  err : Bool
deriving Repr, Inhabited

def XOut.cons (t : Tok) (o : XOut) : XOut := { o with toks := t :: o.toks }
def XOut.prepend (ts : List Tok) (o : XOut) (e : Bool) : XOut :=
  { o with toks := ts ++ o.toks, err := e || o.err }

def afterExp : List Tok → List Tok := setFirstWs Ws.after

theorem afterExp_length (l : List Tok) : (afterExp l).length = l.length := by
  cases l <;> simp [afterExp, setFirstWs]

def expandList (defs : Defs) (dis : List String) (pend : Option Tok) (ts : List Tok) : XOut :=
  match pend with
  | some f =>
    match hl : lookup defs f.sp, hd : dis.contains f.sp with
    | some m, false =>
      match ts with
      | [] => ⟨[], some f, false⟩
      | t :: rest =>
        if t.sp == "(" then
          match hc : collectArgs (m.params.getD []).length m.variadic 0 [] [] rest with
          | none => ⟨f :: t :: rest, none, true⟩         -- unterminated invocation
          | some (args0, rest') =>
            match checkArity m args0 with
            | none => ⟨f :: t :: rest, none, true⟩
            | some args =>
              -- 6.10.3.1: an argument is completely macro-replaced as if it formed the rest of
              -- the file; this happens before the macro itself is disabled
              let exp := args0.attach.map (fun ⟨a, _⟩ =>
                let o := expandList defs dis none a
                (o.toks ++ o.pending.toList, o.err))
              let expArgs := if args.length == args0.length then exp.map (·.1) else args.map (fun _ => [])
              let needed := neededArgs false m.repl
              let aerr := (exp.zipIdx.filter (fun p => needed.contains p.2)).any (·.1.2)
              match subst m args expArgs with
              | none => ⟨f :: t :: rest, none, true⟩       -- invalid `##`
              | some body =>
                let o1 := expandList defs (f.sp :: dis) none (retouch body f.ws)
                let o2 := expandList defs dis o1.pending (afterExp rest')
                o2.prepend o1.toks (aerr || o1.err)
        else
          (expandList defs dis none (t :: rest)).cons f
    | _, _ => (expandList defs dis none ts).cons f
  | none =>
    match ts with
    | [] => ⟨[], none, false⟩
    | t :: rest =>
      if isIdent t.sp && !t.painted then
        match hl : lookup defs t.sp with
        | none => (expandList defs dis none rest).cons t
        | some m =>
          match hd : dis.contains t.sp with
          | true => (expandList defs dis none rest).cons (paint t)
          | false =>
            match m.params with
            | none =>
              match subst m [] [] with
              | none => ⟨t :: rest, none, true⟩
              | some body =>
                let o1 := expandList defs (t.sp :: dis) none (retouch body t.ws)
                let o2 := expandList defs dis o1.pending (afterExp rest)
                o2.prepend o1.toks o1.err
            | some _ => expandList defs dis (some t) rest
      else (expandList defs dis none rest).cons t
termination_by (enabledCount defs dis, 2 * ts.length + (if pend.isSome then 1 else 0))
decreasing_by
  all_goals simp_wf
  · -- pre-expansion of an argument: every argument is shorter than the invocation
    apply Prod.Lex.right
    have h1 := collectArgs_len _ _ _ _ _ _ _ _ hc
    have h2 := mem_sumLen ‹a ∈ args0›
    simp [sumLen] at h1
    omega
  · apply Prod.Lex.left; exact enabledCount_lt hl hd
  · -- the tokens after the closing parenthesis
    apply Prod.Lex.right
    have h1 := collectArgs_len _ _ _ _ _ _ _ _ hc
    simp [sumLen] at h1
    rw [afterExp_length]
    split <;> omega
  · apply Prod.Lex.right; omega
  · apply Prod.Lex.right; omega
  · apply Prod.Lex.right; omega
  · apply Prod.Lex.right; omega
  · apply Prod.Lex.left; exact enabledCount_lt hl hd
  · apply Prod.Lex.right
    rw [afterExp_length]
    split <;> omega
  · apply Prod.Lex.right; omega
  · apply Prod.Lex.right; omega

/-- complete macro replacement of a token sequence that is followed by nothing -/
def expandAll (defs : Defs) (ts : List Tok) : List Tok × Bool :=
  let o := expandList defs [] none ts
  (o.toks ++ o.pending.toList, o.err)

end MirVerif.PP
