/-! # The x86-64 instruction pattern table as data (syntax documented in mir-gen-x86_64.c)

A row says: a MIR instruction whose operands match `pat` is encoded as `repl`.  Only the elements that tie
an operand to an encoding field are kept. -/
namespace MirVerif.Patterns

/-- pattern elements (one per MIR operand) -/
inductive PTok
  | any                 -- X
  | fin                 -- $
  | reg                 -- r, t, h<n>
  | zero                -- z
  | imm (sz : Nat)      -- i0..i3: immediate fitting 8, 16, 32, 64 bits
  | scale               -- s: 1, 2, 4 or 8
  | const (v : Int)     -- c<number>
  | mem (sz : Nat)      -- m0..m3, ms*, mu*
  | fmem                -- mf, md, mld
  | lab (bits : Nat)    -- L (32-bit) / l (8-bit)
  | same (k : Nat)      -- digit: the same as the k-th operand
deriving DecidableEq, Repr

/-- replacement elements that place operand `n` into an encoding field -/
inductive RTok
  | regf (n : Nat)              -- r, R, S, +n : a register field
  | memf (n : Nat)              -- m : ModRM memory operand
  | imm (bits : Nat) (n : Nat)  -- i (8), I (32), J (64)
  | lab (bits : Nat) (n : Nat)  -- l (8), L (32)
deriving DecidableEq, Repr

structure Row where
  code : String
  pat : List PTok
  repl : List RTok
deriving Repr

/-- the pattern element constraining operand `n` (a digit refers to an earlier operand) -/
def resolve (pat : List PTok) (n : Nat) : Option PTok :=
  match pat[n]? with
  | some (.same k) => if k < n then (match pat[k]? with | some (.same _) => none | t => t) else none
  | t => t

/-- the largest number of bits a value admitted by the pattern element can need as a signed immediate -/
def immBits : PTok → Option Nat
  | .imm 0 => some 8
  | .imm 1 => some 16
  | .imm 2 => some 32
  | .imm 3 => some 64
  | .zero => some 1
  | .scale => some 5
  | .const v => if -128 ≤ v ∧ v ≤ 127 then some 8 else if -2147483648 ≤ v ∧ v ≤ 2147483647 then some 32 else some 64
  | _ => none

/-- an encoding field can carry everything its operand's pattern element admits -/
def fieldOk (pat : List PTok) : RTok → Bool
  | .regf n => resolve pat n == some .reg
  | .memf n => (match resolve pat n with | some (.mem _) | some .fmem => true | _ => false)
  | .imm bits n => (match (resolve pat n).bind immBits with | some b => decide (b ≤ bits) | none => false)
  | .lab bits n => (match resolve pat n with | some (.lab b) => decide (b ≤ bits) | _ => false)

def rowOk (r : Row) : Bool := r.repl.all (fieldOk r.pat)

end MirVerif.Patterns
