/-!
# Executable model of `mir-bitmap.h`

A bitmap is the `VARR (bitmap_el_t)` it is in C: the list of its `els_num` 64-bit words
(`VARR_TRUNC` only lowers `els_num`, `bitmap_expand` pushes explicit zero words, so nothing beyond
`els_num` is ever observable and the list of live words is the whole state).

Two levels:

* value level (`setBit`, `rangeOp`, `copy`, `equalP`, … and `opV`), one definition per C function,
  following the C control flow (loops are fuelled structural recursions in the same shape);
* heap level (`opH`) for `bitmap_op2`/`bitmap_op3`: bitmaps live in a heap indexed by ids, the
  destination is updated **in place word by word** and the sources are re-read from the heap at every
  step, exactly like the C loop does through `dst_addr`/`src_addr` — this is what makes the theorems
  about *aliased* operands meaningful.  `Lemmas/BitmapOp.lean` proves `opH` refines `opV`.

The "changed" flag of op2/op3 exists in two variants selected by **one definition**, `flagFix`:
`false` = the code as it is in /repo (`change_p` only looks at words `< max src len`),
`true`  = the code after `fixes/C19-bitmap-flag.patch` (non-zero words dropped by the final
`VARR_TRUNC` also count as a change).

Size arithmetic is over `Nat`: `size_t` wrap-around of `nb + 63` for `nb ≥ 2^64 - 63` is outside the
model (stated as an assumption of the check).
-/

namespace MirVerif.Bitmap

abbrev Word := BitVec 64
abbrev Bm := List Word

/-- SWITCH: `false` follows mir-bitmap.h as it is; set to `true` once fixes/C19-bitmap-flag.patch
(or an equivalent repair) is in /repo.  Everything else follows from this definition. -/
def flagFix : Bool := true

/-- word `i`; 0 beyond the length (what every C reader does by its `i >= len ? 0 : addr[i]` guard) -/
def wget (bm : Bm) (i : Nat) : Word := bm.getD i 0

/-- `(w >> s) & 1` -/
def bit (w : Word) (s : Nat) : Bool := ((w >>> s) &&& 1#64) != 0#64

/-- abstraction function: the set denoted by a bitmap -/
def mem (bm : Bm) (i : Nat) : Bool := (wget bm (i / 64)).getLsbD (i % 64)

/-- the members in increasing order (specification side) -/
def members (bm : Bm) : List Nat := (List.range (64 * bm.length)).filter (mem bm)

/-- `bitmap_expand (bm, nb)` -/
def expand (bm : Bm) (nb : Nat) : Bm := bm ++ List.replicate ((nb + 63) / 64 - bm.length) 0#64

/-- `bitmap_clear` -/
def clear (_bm : Bm) : Bm := []

/-- `bitmap_bit_p` -/
def bitP (bm : Bm) (nb : Nat) : Bool :=
  if nb ≥ 64 * bm.length then false else bit (wget bm (nb / 64)) (nb % 64)

/-- `bitmap_set_bit_p` -/
def setBit (bm : Bm) (nb : Nat) : Bm × Bool :=
  let bm1 := expand bm (nb + 1)
  let w := wget bm1 (nb / 64)
  (bm1.set (nb / 64) (w ||| (1#64 <<< (nb % 64))), bit w (nb % 64) == false)

/-- `bitmap_clear_bit_p` -/
def clearBit (bm : Bm) (nb : Nat) : Bm × Bool :=
  if nb ≥ 64 * bm.length then (bm, false) else
  let w := wget bm (nb / 64)
  (bm.set (nb / 64) (w &&& ~~~(1#64 <<< (nb % 64))), bit w (nb % 64))

/-- the mask of one iteration of `bitmap_set_or_clear_bit_range_p` -/
def rangeRsh (nb len : Nat) : Nat :=
  if len ≥ 64 - nb % 64 then 0 else 64 - (nb + len) % 64

def rangeMask (nb len : Nat) : Word :=
  (BitVec.allOnes 64 >>> (rangeRsh nb len + nb % 64)) <<< (nb % 64)

/-- the `while (len > 0)` loop of `bitmap_set_or_clear_bit_range_p`; fuel = `len` is enough because
every iteration consumes at least one bit -/
def rangeLoop (setP : Bool) : Nat → Bm → Nat → Nat → Bool → Bm × Bool
  | 0, bm, _, _, res => (bm, res)
  | fuel + 1, bm, nb, len, res =>
    if len = 0 then (bm, res) else
    let nw := nb / 64
    let mask := rangeMask nb len
    let w := wget bm nw
    let w' := if setP then w ||| mask else w &&& ~~~mask
    let r := if setP then (~~~w &&& mask) != 0#64 else (w &&& mask) != 0#64
    let rl := 64 - rangeRsh nb len - nb % 64
    rangeLoop setP fuel (bm.set nw w') (nb + rl) (len - rl) (res || r)

/-- `bitmap_set_or_clear_bit_range_p` -/
def rangeOp (setP : Bool) (bm : Bm) (nb len : Nat) : Bm × Bool :=
  rangeLoop setP len (expand bm (nb + len)) nb len false

/-- `bitmap_copy` (trunc or expand, then `memcpy` of `src_len` words over the prefix) -/
def copy (dst src : Bm) : Bm :=
  let d1 := if dst.length ≥ src.length then dst.take src.length else expand dst (src.length * 64)
  src ++ d1.drop src.length

/-- `bitmap_equal_p`: `memcmp` of the common prefix, then the longer one's tail must be zero -/
def equalP (a b : Bm) : Bool :=
  let s := if a.length > b.length then b else a
  let l := if a.length > b.length then a else b
  (l.take s.length == s) && (l.drop s.length).all (· == 0#64)

/-- `bitmap_intersect_p` -/
def intersectP (a b : Bm) : Bool := (List.zipWith (· &&& ·) a b).any (· != 0#64)

/-- `bitmap_empty_p` -/
def emptyP (bm : Bm) : Bool := bm.all (· == 0#64)

/-- inner loop of `bitmap_bit_count`: `for (; el != 0; el >>= 1) if (el & 1) count++` -/
def popLoop : Nat → Word → Nat → Nat
  | 0, _, c => c
  | f + 1, el, c => if el = 0#64 then c else popLoop f (el >>> 1) (if bit el 0 then c + 1 else c)

/-- `bitmap_bit_count` -/
def bitCount (bm : Bm) : Nat :=
  bm.foldl (fun c el => if el = 0#64 then c else popLoop 64 el c) 0

/-- inner loop of `bitmap_bit_min`: `for (count = 0; el != 0; el >>= 1, count++) if (el & 1) return` -/
def minLoop : Nat → Word → Nat → Option Nat
  | 0, _, _ => none
  | f + 1, el, c => if el = 0#64 then none else if bit el 0 then some c else minLoop f (el >>> 1) (c + 1)

/-- outer loop of `bitmap_bit_min` (word index `i` counts up) -/
def bitMinFrom : Nat → Bm → Nat
  | _, [] => 0
  | i, el :: r =>
    if el = 0#64 then bitMinFrom (i + 1) r else
    match minLoop 64 el 0 with
    | some c => i * 64 + c
    | none => bitMinFrom (i + 1) r

/-- `bitmap_bit_min` -/
def bitMin (bm : Bm) : Nat := bitMinFrom 0 bm

/-- inner loop of `bitmap_bit_max`: `for (count = 63; count >= 0; count--) if ((el >> count) & 1) return` -/
def maxLoop : Nat → Word → Option Nat
  | 0, _ => none
  | c + 1, el => if bit el c then some c else maxLoop c el

/-- outer loop of `bitmap_bit_max` (word index counts down from `len - 1`) -/
def bitMaxLoop : Nat → Bm → Nat
  | 0, _ => 0
  | i + 1, bm =>
    let el := wget bm i
    if el = 0#64 then bitMaxLoop i bm else
    match maxLoop 64 el with
    | some c => i * 64 + c
    | none => bitMaxLoop i bm

/-- `bitmap_bit_max` -/
def bitMax (bm : Bm) : Nat := bitMaxLoop bm.length bm

/-! ## op2 / op3, value level -/

/-- `bitmap_el_max2`/`bitmap_el_max3` over the source lengths -/
def maxLen (srcs : List Bm) : Nat := srcs.foldl (fun m s => if m < s.length then s.length else m) 0

/-- number of words kept by the final `VARR_TRUNC (dst, bound)`: index of the last non-zero word + 1 -/
def boundOf : List Word → Nat
  | [] => 0
  | w :: r => if boundOf r = 0 then (if w = 0#64 then 0 else 1) else boundOf r + 1

/-- value-level summary of `bitmap_op2`/`bitmap_op3`: `f` receives the list of source words.
`fix` selects the flag variant (see `flagFix`). -/
def opV (fix : Bool) (f : List Word → Word) (dst : Bm) (srcs : List Bm) : Bm × Bool :=
  let len := maxLen srcs
  let d1 := expand dst (len * 64)
  let new := (List.range len).map (fun i => f (srcs.map (wget · i)))
  let chg := (List.range len).any (fun i => wget d1 i != wget new i)
  let dropped := (d1.drop len).any (· != 0#64)
  (new.take (boundOf new), if fix then chg || dropped else chg)

/-! ## op2 / op3, heap level (in-place, aliasing visible) -/

abbrev Heap := List Bm

def hget (h : Heap) (x : Nat) : Bm := h.getD x []

/-- one read `i >= src_len ? 0 : src_addr[i]` from the *current* heap -/
def rd (h : Heap) (i : Nat) (s : Nat × Nat) : Word := if i ≥ s.2 then 0#64 else wget (hget h s.1) i

/-- the `for (bound = i = 0; i < len; i++)` loop; `ss` = (source id, source length read before the
expansion of dst) -/
def opLoop (f : List Word → Word) (d : Nat) (ss : List (Nat × Nat)) :
    Nat → Nat → Heap → Nat → Bool → Heap × Nat × Bool
  | 0, _, h, bound, chg => (h, bound, chg)
  | n + 1, i, h, bound, chg =>
    let old := wget (hget h d) i
    let v := f (ss.map (rd h i))
    let h' := h.set d ((hget h d).set i v)
    opLoop f d ss n (i + 1) h' (if v = 0#64 then bound else i + 1) (chg || old != v)

/-- `bitmap_op2`/`bitmap_op3` on heap objects `d` (destination) and `srcs` (sources); ids may coincide -/
def opH (fix : Bool) (f : List Word → Word) (h : Heap) (d : Nat) (srcs : List Nat) : Heap × Bool :=
  let ss := srcs.map (fun s => (s, (hget h s).length))
  let len := maxLen (srcs.map (hget h))
  let h1 := h.set d (expand (hget h d) (len * 64))
  let r := opLoop f d ss len 0 h1 0 false
  let h2 := r.1
  -- patched code: `for (i = len; i < VARR_LENGTH (dst); i++) if (dst_addr[i] != 0) change_p = TRUE;`
  let chg := if fix then r.2.2 || ((hget h2 d).drop len).any (· != 0#64) else r.2.2
  (h2.set d ((hget h2 d).take r.2.1), chg)

/-- the element functions -/
def fAnd : List Word → Word | [a, b] => a &&& b | _ => 0#64
def fAndCompl : List Word → Word | [a, b] => a &&& ~~~b | _ => 0#64
def fIor : List Word → Word | [a, b] => a ||| b | _ => 0#64
def fIorAnd : List Word → Word | [a, b, c] => a ||| (b &&& c) | _ => 0#64
def fIorAndCompl : List Word → Word | [a, b, c] => a ||| (b &&& ~~~c) | _ => 0#64

/-- the code in /repo (variant chosen by `flagFix`) -/
def bAnd (h : Heap) (d a b : Nat) := opH flagFix fAnd h d [a, b]
def bAndCompl (h : Heap) (d a b : Nat) := opH flagFix fAndCompl h d [a, b]
def bIor (h : Heap) (d a b : Nat) := opH flagFix fIor h d [a, b]
def bIorAnd (h : Heap) (d a b c : Nat) := opH flagFix fIorAnd h d [a, b, c]
def bIorAndCompl (h : Heap) (d a b c : Nat) := opH flagFix fIorAndCompl h d [a, b, c]

/-! ## iterator -/

/-- inner loop of `bitmap_iterator_next`:
`for (el >>= nbit % 64; el != 0; el >>= 1, nbit++) if (el & 1) { *out = nbit++; return TRUE; }` -/
def iterInner : Nat → Word → Nat → Option Nat × Nat
  | 0, _, nbit => (none, nbit)
  | f + 1, el, nbit =>
    if el = 0#64 then (none, nbit) else
    if bit el 0 then (some nbit, nbit + 1) else iterInner f (el >>> 1) (nbit + 1)

/-- outer loop: `for (; curr_nel < len; curr_nel++, nbit = curr_nel * 64)` -/
def iterOuter (bm : Bm) : Nat → Nat → Nat → Option Nat × Nat
  | 0, _, nbit => (none, nbit)
  | f + 1, nel, nbit =>
    if nel ≥ bm.length then (none, nbit) else
    let el := wget bm nel
    if el = 0#64 then iterOuter bm f (nel + 1) ((nel + 1) * 64) else
    match iterInner 64 (el >>> (nbit % 64)) nbit with
    | (some b, nb') => (some b, nb')
    | (none, _) => iterOuter bm f (nel + 1) ((nel + 1) * 64)

/-- `bitmap_iterator_next`: returns the bit found (if any) and the new `iter->nbit` -/
def iterNext (bm : Bm) (nbit : Nat) : Option Nat × Nat := iterOuter bm bm.length (nbit / 64) nbit

/-- `FOREACH_BITMAP_BIT`: init, then `next` until it returns FALSE -/
def iterAllLoop (bm : Bm) : Nat → Nat → List Nat
  | 0, _ => []
  | f + 1, n =>
    match iterNext bm n with
    | (some m, n') => m :: iterAllLoop bm f n'
    | (none, _) => []

def iterAll (bm : Bm) : List Nat := iterAllLoop bm (64 * bm.length + 1) 0

end MirVerif.Bitmap
