/-!
# C08 — data layout: C types, the psABI layout (specification) and c2mir's layout (model of the code)

* `CTy`/`Mems`    C object types that c2mir accepts: scalars, arrays, struct/union with plain members,
                  bit-fields (named / unnamed / zero width) and C11 anonymous struct/union members.
* `sysvLay`       specification: x86-64 psABI §3.1.2 + the GCC bit-field rule (a bit-field never
                  crosses a storage unit of its declared type, a zero width closes the unit, only
                  *named* bit-fields contribute the alignment of their type).
* `c2mLay`        literal model of `c2mir/c2mir.c`: `basic_type_size`, `basic_type_align`,
                  `aux_set_type_align`, `type_size`, `update_field_layout`, `set_type_layout`.

No Mathlib.  All functions are total; the backwards search loop of `update_field_layout` is defined
by well-founded recursion on `curr_offset` (see `ufLoop`).
-/
namespace MirVerif.Layout

/-- scalar kinds (x86-64 Linux).  `enum4`/`enum8`: enumerated type whose values need 4 / 8 bytes. -/
inductive Sc
  | bool | char | schar | uchar | short | ushort | int | uint | long | ulong | llong | ullong
  | float | double | ldouble | ptr | enum4 | enum8
  deriving DecidableEq, Repr, Inhabited

/-- psABI figure 3.1: sizeof -/
def Sc.size : Sc → Nat
  | .bool => 1 | .char => 1 | .schar => 1 | .uchar => 1
  | .short => 2 | .ushort => 2
  | .int => 4 | .uint => 4
  | .long => 8 | .ulong => 8 | .llong => 8 | .ullong => 8
  | .float => 4 | .double => 8 | .ldouble => 16
  | .ptr => 8 | .enum4 => 4 | .enum8 => 8

/-- psABI figure 3.1: every scalar is aligned to its size -/
def Sc.align (s : Sc) : Nat := s.size

/-- integer scalars (may be the declared type of a bit-field) -/
def Sc.isInt : Sc → Bool
  | .float | .double | .ldouble | .ptr => false
  | _ => true

/-- member kinds: ordinary member, bit-field of width `w` (named or not), C11 anonymous
struct/union member -/
inductive MK
  | plain
  | bf (w : Nat) (named : Bool)
  | anon
  deriving DecidableEq, Repr, Inhabited

mutual
inductive CTy
  | sc (s : Sc)
  | arr (n : Nat) (t : CTy)
  | agg (isUnion : Bool) (ms : Mems)
inductive Mems
  | nil
  | cons (k : MK) (t : CTy) (rest : Mems)
end

instance : Inhabited CTy := ⟨.sc .int⟩

/-- where a member was put.  `unit`: byte offset of the member / of the storage unit through which a
bit-field is accessed (c2mir's `decl->offset`); `bitpos`: absolute position of the first bit
(`decl->offset * 8 + decl->bit_offset`); `nbits`: number of bits occupied. -/
structure Place where
  unit : Nat
  bitpos : Nat
  nbits : Nat
  isBf : Bool
  named : Bool
  deriving DecidableEq, Repr, Inhabited

/-- layout of one type: `size` = `sizeof`, `align` = `_Alignof`, one `Place` per direct member. -/
structure Lay where
  size : Nat
  align : Nat
  mems : List Place
  deriving DecidableEq, Repr, Inhabited

def roundUp (x a : Nat) : Nat := (x + a - 1) / a * a

/-! ## Specification: psABI + GCC bit-field rule -/

structure SSt where
  /-- struct: next free bit; union: size in bits so far -/
  bitpos : Nat := 0
  out : List Place := []
  deriving Repr

/-- place one member of size `sz`, alignment `al` (bytes) -/
def sysvMember (u : Bool) (st : SSt) (k : MK) (sz al : Nat) : SSt :=
  match k with
  | .bf w nm =>
    if u then
      { bitpos := max st.bitpos w, out := st.out ++ [⟨0, 0, w, true, nm⟩] }
    else if w = 0 then
      let p := roundUp st.bitpos (8 * al)
      { bitpos := p, out := st.out ++ [⟨p / 8, p, 0, true, nm⟩] }
    else
      let p := if st.bitpos % (8 * al) + w > 8 * sz then roundUp st.bitpos (8 * al) else st.bitpos
      { bitpos := p + w, out := st.out ++ [⟨p / (8 * al) * al, p, w, true, nm⟩] }
  | k =>
    if u then
      { bitpos := max st.bitpos (8 * sz), out := st.out ++ [⟨0, 0, 8 * sz, false, k == .plain⟩] }
    else
      let off := roundUp ((st.bitpos + 7) / 8) al
      { bitpos := (off + sz) * 8, out := st.out ++ [⟨off, off * 8, 8 * sz, false, k == .plain⟩] }

/-- does member kind `k` contribute the alignment of its type to the aggregate? (psABI: unnamed
bit-fields do not) -/
def sysvAlignContrib : MK → Bool
  | .bf _ nm => nm
  | _ => true

mutual
def sysvLay : CTy → Lay
  | .sc s => ⟨s.size, s.align, []⟩
  | .arr n t => let l := sysvLay t; ⟨l.size * n, l.align, []⟩
  | .agg u ms =>
    let st := sysvFold u ms {}
    let al := sysvAlignFold ms 1
    ⟨roundUp ((st.bitpos + 7) / 8) al, al, st.out⟩
def sysvFold (u : Bool) : Mems → SSt → SSt
  | .nil, st => st
  | .cons k t r, st => let l := sysvLay t; sysvFold u r (sysvMember u st k l.size l.align)
def sysvAlignFold : Mems → Nat → Nat
  | .nil, a => a
  | .cons k t r, a =>
    if sysvAlignContrib k then sysvAlignFold r (max a (sysvLay t).align) else sysvAlignFold r a
end

/-! ## Model of c2mir -/

/-- `basic_type_size` with the typedefs of `c2mir/x86_64/cx86_64.h` (non-Windows) -/
def c2mBasicSize : Sc → Nat
  | .bool => 1      -- sizeof (mir_bool) = uint8_t
  | .char => 1 | .schar => 1 | .uchar => 1
  | .short => 2 | .ushort => 2
  | .int => 4 | .uint => 4
  | .long => 8 | .ulong => 8
  | .llong => 8 | .ullong => 8
  | .float => 4 | .double => 8
  | .ldouble => 16  -- long double
  | .ptr => 8       -- sizeof (mir_size_t)
  | .enum4 => 4     -- get_enum_basic_type = TP_INT / TP_UINT
  | .enum8 => 8     -- TP_LONG / TP_ULONG

/-! ### underlying type of an enumerated type

`mn` ≤ 0 ≤ `mx`: least and greatest enumerator value (`min_val` starts at 0, `max_val` at 0). -/

/-- `check_decl_spec`, case `N_ENUM`: `enum_type->enum_basic_type` (since repo commit 665ec29a) -/
def c2mEnumBase (mn mx : Int) : Sc :=
  if mx ≤ 2147483647 ∧ -2147483648 ≤ mn then (if mn < 0 then .int else .uint)
  else if mx ≤ 4294967295 ∧ 0 ≤ mn then .uint
  else if mx ≤ 18446744073709551615 ∧ 0 ≤ mn then .ulong
  else if mx ≤ 9223372036854775807 ∧ -9223372036854775808 ≤ mn then .long
  else if mn < 0 ∨ mx ≤ 9223372036854775807 then .llong
  else .ullong

/-- `check_decl_spec`, case `N_ENUM`: no "enum const expression is not represented by an int" error
(`min_val < 0 && max_val > MIR_LLONG_MAX`, whichever enumerator comes last) -/
def c2mEnumOk (mn mx : Int) : Bool := !(decide (mn < 0) && decide (mx > 9223372036854775807))

/-- the rule before commit 665ec29a: the `long` test preceded the `unsigned long` test -/
def c2mEnumBaseOld (mn mx : Int) : Sc :=
  if mx ≤ 2147483647 ∧ -2147483648 ≤ mn then (if mn < 0 then .int else .uint)
  else if mx ≤ 4294967295 ∧ 0 ≤ mn then .uint
  else if mx ≤ 9223372036854775807 ∧ -9223372036854775808 ≤ mn then .long
  else if mx ≤ 18446744073709551615 ∧ 0 ≤ mn then .ulong
  else if mn < 0 ∨ mx ≤ 9223372036854775807 then .llong
  else .ullong

/-- … and the error test was `max_val >= MIR_LLONG_MAX` -/
def c2mEnumOkOld (mn mx : Int) : Bool := !(decide (mn < 0) && decide (mx ≥ 9223372036854775807))

/-- the platform compiler (GCC, "Structures, unions, enumerations, and bit-fields" + c-decl.c
`finish_enum`): unsigned int if there is no negative enumerator and the values fit, int if they fit,
otherwise the 64-bit type of that signedness -/
def gccEnumBase (mn mx : Int) : Sc :=
  if 0 ≤ mn then (if mx ≤ 4294967295 then .uint else .ulong)
  else if -2147483648 ≤ mn ∧ mx ≤ 2147483647 then .int
  else .long

/-- GCC diagnoses ("enumeration values exceed range of largest integer", a warning that no option
turns off; the value then wraps) exactly the ranges no 64-bit type can hold; `true` = no diagnostic -/
def gccEnumOk (mn mx : Int) : Bool := !(decide (mn < 0) && decide (mx > 9223372036854775807))

/-- `basic_type_align`: `MIR_LDOUBLE_ALIGN` is not defined for x86-64, so it is the size -/
def c2mBasicAlign (s : Sc) : Nat := c2mBasicSize s

/-- `round_size` as used by `type_size` (`type->align == 0 ? size : round_size (size, align)`) -/
def roundSize (size align : Nat) : Nat :=
  if align = 0 then size else (size + align - 1) / align * align

/-- The `for (;; start_offset = curr_offset)` loop of `update_field_layout`.
Arguments: `*bf_p`, `prev_field_offset`, `prev_field_type_size`, `field_type_size`,
`field_type_align`, `bits` (`none` = -1), and the loop variables `start_offset`, `curr_offset`,
`*bound_bit`.  Result: final `(start_offset, *bound_bit)`.

Terminates because `curr_offset` strictly decreases (`field_type_align > 0` is asserted by the C
code; with alignment 0 the C loop would not terminate, the model then stops — `c2mLay_align_pos`
shows that this branch is never reached). -/
def ufLoop (bf : Bool) (prevOff prevSize fsize falign : Nat) (bits : Option Nat)
    (start curr bound : Nat) : Nat × Nat :=
  if curr < falign then
    (start, match bits with | some b => bound + b | none => bound)
  else if falign = 0 then (start, bound)
  else
    let curr' := curr - falign
    if !bf then
      -- previous is a regular field
      if curr' < prevOff + prevSize then
        match bits with
        | some b =>
          let bound1 := (prevOff + prevSize - curr') * 8
          if bound1 + b ≤ fsize * 8 then ufLoop bf prevOff prevSize fsize falign bits curr' curr' bound1
          else
            (start, if prevOff + prevSize > start then b + (prevOff + prevSize - start) * 8 else b)
        | none => (start, bound)
      else ufLoop bf prevOff prevSize fsize falign bits curr' curr' bound
    else
      match bits with
      | none =>
        -- bit-field then regular field
        if curr' < prevOff + (bound + 7) / 8 then (start, bound)
        else ufLoop bf prevOff prevSize fsize falign bits curr' curr' bound
      | some b =>
        -- bit-field then another bit-field
        if (curr' + fsize) * 8 < prevOff * 8 + bound + b then
          (start, if start * 8 ≥ prevOff * 8 + bound then b else prevOff * 8 + bound + b - start * 8)
        else ufLoop bf prevOff prevSize fsize falign bits curr' curr' bound
termination_by curr
decreasing_by all_goals omega

/-- in/out parameters of `update_field_layout` -/
structure FL where
  bf : Bool
  overall : Nat
  offset : Nat
  bound : Nat
  deriving DecidableEq, Repr

/-- `update_field_layout` -/
def updateFieldLayout (st : FL) (prevSize fsize falign : Nat) (bits : Option Nat) : FL :=
  let s0 := (st.overall + falign - 1) / falign * falign
  let bound0 := if s0 < falign ∧ bits.isSome then 0 else st.bound
  let r := ufLoop st.bf st.offset prevSize fsize falign bits s0 s0 bound0
  { bf := bits.isSome, offset := r.1, bound := r.2,
    overall := if st.overall < r.1 + fsize then r.1 + fsize else st.overall }

/-- locals of the member loop of `set_type_layout` plus the `decl->offset/bit_offset` written so far -/
structure MSt where
  bf : Bool := false
  overall : Nat := 0
  offset : Nat := 0
  bound : Nat := 0
  prevSize : Nat := 0
  out : List Place := []
  deriving Repr

def MK.bits : MK → Option Nat
  | .bf w _ => some w
  | _ => none

/-- body of the member loop of `set_type_layout` for one `N_MEMBER` whose type has
`type_size = msize`, `type_align = malign` -/
def c2mMember (u : Bool) (st : MSt) (k : MK) (msize malign : Nat) : MSt :=
  if msize = 0 then st        -- `continue`
  else
    let bits := k.bits
    let fl := updateFieldLayout ⟨st.bf, st.overall, st.offset, st.bound⟩ st.prevSize msize malign bits
    let pl : Place :=
      match k with
      | .bf w nm => ⟨fl.offset, fl.offset * 8 + (fl.bound - w), w, true, nm⟩
      | k => ⟨fl.offset, fl.offset * 8, 8 * msize, false, k == .plain⟩
    if u then
      { bf := false, overall := fl.overall, offset := 0, bound := 0, prevSize := 0,
        out := st.out ++ [pl] }
    else
      { bf := if bits = some 0 then false else fl.bf, overall := fl.overall, offset := fl.offset,
        bound := fl.bound, prevSize := msize, out := st.out ++ [pl] }

/-- does `aux_set_type_align` skip this member? (only zero-width bit-fields, only in unions) -/
def c2mAlignSkip (u : Bool) : MK → Bool
  | .bf 0 _ => u
  | _ => false

mutual
/-- `set_type_layout` + `aux_set_type_align` + `type_size` -/
def c2mLay : CTy → Lay
  | .sc s => ⟨c2mBasicSize s, c2mBasicAlign s, []⟩
  | .arr n t => let l := c2mLay t; ⟨roundSize (l.size * n) l.align, l.align, []⟩
  | .agg u ms =>
    let st := c2mFold u ms {}
    let al := c2mAlignFold u ms 1
    ⟨roundSize st.overall al, al, st.out⟩
def c2mFold (u : Bool) : Mems → MSt → MSt
  | .nil, st => st
  | .cons k t r, st => let l := c2mLay t; c2mFold u r (c2mMember u st k l.size l.align)
def c2mAlignFold (u : Bool) : Mems → Nat → Nat
  | .nil, a => a
  | .cons k t r, a =>
    if c2mAlignSkip u k then c2mAlignFold u r a else c2mAlignFold u r (max a (c2mLay t).align)
end

/-! ## Well-formed declarations (what both compilers accept) -/

/-- member kind fits member type: bit-fields only of integer type with `w ≤ 8 * size` and unnamed
when `w = 0`; anonymous members only of struct/union type -/
def memOk : MK → CTy → Bool
  | .plain, _ => true
  | .bf w nm, .sc s => s.isInt && decide (w ≤ 8 * s.size) && (decide (0 < w) || !nm)
  | .bf _ _, _ => false
  | .anon, .agg _ _ => true
  | .anon, _ => false

/-- at least one member that is not a zero-width bit-field -/
def Mems.nonempty : Mems → Bool
  | .nil => false
  | .cons (.bf 0 _) _ r => r.nonempty
  | .cons _ _ _ => true

mutual
/-- what both compilers accept and the generator produces: no zero-sized objects, `memOk` members -/
def CTy.wf : CTy → Bool
  | .sc _ => true
  | .arr n t => decide (0 < n) && t.wf
  | .agg _ ms => ms.nonempty && ms.wf
def Mems.wf : Mems → Bool
  | .nil => true
  | .cons k t r => t.wf && memOk k t && r.wf
end

mutual
/-- no bit-field member anywhere in the type -/
def CTy.noBf : CTy → Bool
  | .sc _ => true
  | .arr _ t => t.noBf
  | .agg _ ms => ms.noBf
def Mems.noBf : Mems → Bool
  | .nil => true
  | .cons (.bf _ _) _ _ => false
  | .cons _ t r => t.noBf && r.noBf
end

/-- sizes of the declared types of the direct bit-field members -/
def Mems.bfSizes : Mems → List Nat
  | .nil => []
  | .cons (.bf _ _) (.sc s) r => s.size :: r.bfSizes
  | .cons _ _ r => r.bfSizes

/-- direct bit-field members are all named and of non-zero width -/
def Mems.bfNamed : Mems → Bool
  | .nil => true
  | .cons (.bf w nm) _ r => nm && decide (0 < w) && r.bfNamed
  | .cons _ _ r => r.bfNamed

mutual
/-- side condition of `layout_meets_sysv_partial`: in every struct/union of the type all bit-fields
are named, of non-zero width, and declared with types of one and the same size -/
def CTy.bfSimple : CTy → Bool
  | .sc _ => true
  | .arr _ t => t.bfSimple
  | .agg _ ms => ms.bfNamed && (ms.bfSizes.all fun x => x == ms.bfSizes.headD 0) && ms.bfSimple
def Mems.bfSimple : Mems → Bool
  | .nil => true
  | .cons _ t r => t.bfSimple && r.bfSimple
end

/-! ## Flattening anonymous members (`update_members_offset`): the members of an anonymous
struct/union are members of the enclosing type, at `offset of the anonymous member + own offset`. -/

def Place.shift (p : Place) (byteOff : Nat) : Place :=
  { p with unit := p.unit + byteOff, bitpos := p.bitpos + 8 * byteOff }

mutual
/-- all *nameable* members of `t` (through anonymous members), absolute positions -/
def flatMems (L : CTy → Lay) : CTy → List Place
  | .agg u ms => flatZip L ms (L (.agg u ms)).mems
  | _ => []
def flatZip (L : CTy → Lay) : Mems → List Place → List Place
  | .cons k t r, p :: ps =>
    (match k with
     | .anon => (flatMems L t).map (·.shift p.unit)
     | .bf _ nm => if nm then [p] else []
     | .plain => [p]) ++ flatZip L r ps
  | _, _ => []
end

end MirVerif.Layout
