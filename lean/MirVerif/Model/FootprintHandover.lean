import MirVerif.Model.Footprint
/-!
# C18 — handing a module from one context to another (`MIR_change_module_ctx`)

A module refers to strings (its name, item names, variable / register / hard-register names, string
operands); every string is interned in, and owned by, one context: reference `⟨owner, str⟩` is the
location `Loc.ctx owner str`.  A context's item table holds entries `(context, module, name)`.
`changeCtx` is what `MIR_change_module_ctx (old, m, new)` has to do: re-intern every reference in the
new context and move the module's item-table entries.  Afterwards any use of the module by the new
context reads only locations of the new context (`Props/C18.lean`), so the two contexts are
independent again; one reference left behind couples them (`stale_ref_not_confined`).

`handoverOk` is the executable monitor evaluated by `mirdrv_c18 ho …` on what
`harness/c18_handover.c` observes directly after the real call.
-/
namespace MirVerif.Footprint

structure Ref where
  owner : Nat
  str : Nat
  deriving DecidableEq, Repr

structure Mod where
  id : Nat
  refs : List Ref
  deriving Repr

/-- item-table entry `(context, module id, name)` -/
abbrev ItemTab := List (Nat × Nat × Nat)

def changeCtx (new : Nat) (m : Mod) : Mod := { m with refs := m.refs.map (fun r => { r with owner := new }) }

def tabMove (old new : Nat) (m : Mod) (tab : ItemTab) : ItemTab :=
  tab.map (fun e => if e.1 == old && e.2.1 == m.id then (new, e.2.1, e.2.2) else e)

/-- context `i` uses module `m` (prints, writes, links, inlines it): reads every string the module
refers to, writes its own state -/
def useOp (i id : Nat) (m : Mod) : Op :=
  mkOp id (m.refs.map (fun r => Loc.ctx r.owner r.str)) [Loc.ctx i 0]

/-- monitor: after the hand-over to `new` every reference is owned by `new` and the table of `old` has no
entry of the module -/
def handoverOk (old new : Nat) (m : Mod) (tab : ItemTab) : Bool :=
  m.refs.all (fun r => r.owner == new) && tab.all (fun e => !(e.1 == old && e.2.1 == m.id))

end MirVerif.Footprint
