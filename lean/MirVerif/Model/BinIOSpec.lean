import MirVerif.Lemmas.BinIOMain
/-!
# C11 — definitions used by the statements of `Props/C11.lean`

Canonical encodings of reader tokens (`encRaw`, `TokWF`) for the unique-decodability theorems,
`WFfull` (the hypothesis without the reader-fact exclusions), today's reader facts (`Cfg.today`) and
the small witness / sample modules the property file talks about.  No theorems here.
-/
namespace BinIO.Props
open BinIO

deriving instance DecidableEq for Except

/-- canonical encoding of a reader token -/
def encRaw : Tok → List Byte
  | .uint v => writeUint v
  | .int v => writeInt v
  | .flt v => writeFloat v
  | .dbl v => writeDouble v
  | .ldbl v => writeLdouble v
  | .reg i => writeIdx Tag.reg1 i
  | .name i _ => writeIdx Tag.name1 i
  | .str i => writeIdx Tag.str1 i
  | .lab n => writeIdx Tag.lab1 n
  | .mem t => [t]
  | .ty t => [Tag.ti8 + t]
  | .eoi => [Tag.eoi]
  | .eof => [Tag.eofile]

def TokWF : Tok → Prop
  | .uint v => v < 2 ^ 64
  | .int v => v < 2 ^ 64
  | .flt v => v < 2 ^ 32
  | .dbl v => v < 2 ^ 64
  | .ldbl v => v < 2 ^ 80
  | .reg i => i < 2 ^ 32
  | .name i nb => i < 2 ^ 32 ∧ nb = idxLen i
  | .str i => i < 2 ^ 32
  | .lab n => n < 2 ^ 32
  | .mem t => (36 ≤ t ∧ t ≤ 42) ∨ (63 ≤ t ∧ t ≤ 69)
  | .ty t => t ≤ 17
  | .eoi => True
  | .eof => True

instance (t : Tok) : Decidable (TokWF t) := by
  cases t <;> (unfold TokWF; infer_instance)

/-- `WF` without the three exclusions: any declared hard-register globals, any insn code of the
table (except UNSPEC/USE/PHI, which the writer refuses), data of every element type -/
structure WFfull (cfg : Cfg) (ms : List Module) : Prop where
  wf : WF { cfg with globalDoubleRead := false, dataPtr := true, codeLimit := cfg.nops.length,
                     endfuncLabels := true, lrefZeroIsNone := false } ms

/-- the facts `translate/c11_tables.py` finds in the pinned source (kept here so that the witnesses
below stay theorems after a repair; the check reports when `Gen.C11.cfg` moves away from it) -/
def Cfg.today : Cfg :=
  { nops := [2, 2, 2, 2, 2, 2, 2, 2, 2, 2, 2, 2, 2, 2, 2, 2, 2, 2, 2, 2, 2, 2, 2, 2, 2, 2, 2, 2, 2, 2, 2, 2, 2, 2, 3, 3, 3, 3, 3, 3, 3, 3, 3, 3, 3, 3, 3, 3, 3, 3, 3, 3, 3, 3, 3, 3, 3, 3, 3, 3, 3, 3, 3, 3, 3, 3, 3, 3, 3, 3, 3, 3, 3, 3, 3, 3, 3, 3, 3, 3, 3, 3, 3, 3, 3, 3, 3, 3, 3, 3, 3, 3, 3, 3, 3, 3, 3, 3, 3, 3, 3, 3, 3, 3, 3, 3, 3, 3, 3, 3, 3, 3, 3, 3, 3, 3, 3, 3, 1, 2, 2, 2, 2, 3, 3, 3, 3, 3, 3, 3, 3, 3, 3, 3, 3, 3, 3, 3, 3, 3, 3, 3, 3, 3, 3, 3, 3, 3, 3, 3, 3, 3, 3, 3, 3, 3, 3, 3, 3, 3, 3, 1, 1, 1, 1, 2, 1, 0, 0, 0, 0, 0, 1, 2, 1, 1, 3, 4, 1, 1, 0, 0, 2, 3, 3, 0, 0, 0],
    codeLimit := 180, unportable := [181, 185, 186], globalDoubleRead := true, lrefOrphan := true,
    dataPtr := false, endfuncLabels := false, lrefZeroIsNone := false, version := 1 }

def nm (s : String) : Name := s.toList.map Char.toNat

def fG : Func :=
  { name := [102], vararg := false, res := [6], args := [{ ty := 6, name := [97], size := 0 }],
    locals := [], globals := [(6, [103], [114, 49, 51])],
    insns := [.op 34 [.reg [103], .reg [103], .reg [97]], .op 171 [.reg [103]]] }
def mG : Module := { name := [109], items := [.func fG] }

def mP : Module :=
  { name := [109],
    items := [.func { name := [102], vararg := false, res := [], args := [{ ty := 6, name := [97], size := 0 }],
                      locals := [], globals := [],
                      insns := [.op 182 [.reg [97], .int 7], .op 171 []] }] }

def mD : Module := { name := [109], items := [.data (some [100]) 11 [4660, 0]] }

def fL : Func :=
  { name := [102], vararg := false, res := [], args := [], locals := [], globals := [],
    insns := [.label 1, .op 118 [.label 1], .op 171 []] }

def mT : Module :=
  { name := [109],
    items := [.func { name := [102], vararg := false, res := [], args := [], locals := [], globals := [],
                      insns := [.op 118 [.label 1], .op 171 [], .label 1] }] }

def fS : Func :=
  { name := [102], vararg := true, res := [6, 9],
    args := [{ ty := 6, name := [97], size := 0 }, { ty := 12, name := [98], size := 4096 }],
    locals := [(6, [114]), (9, [100])], globals := [],
    insns := [.op 0 [.reg [114], .int (2 ^ 64 - 1)],
              .label 300,
              .op 0 [.mem { ty := 4, disp := 8, base := some [97], index := some ([114], 8),
                            alias := [120], nonalias := [] }, .uint 128],
              .op 2 [.reg [100], .dbl 0x7FF8000000000001],
              .op 0 [.reg [114], .str [104, 0, 105]],
              .op 0 [.reg [114], .ref [103]],
              .op 133 [.label 300, .reg [114], .int 3],
              .op 171 [.reg [114], .reg [100]]] }
def mS : Module :=
  { name := [109],
    items := [.import_ [112], .data (some [103]) 0 [255, 128, 0], .data none 10 [2 ^ 79 + 1],
              .bss none 16, .proto [113] false [6] [], .func fS, .ref (some [114]) [103] 8,
              .lref none 300 none 0, .export_ [102]] }

end BinIO.Props
