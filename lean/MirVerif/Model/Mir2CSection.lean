import MirVerif.Model.Mir2CKnown
/-! # C20 — the item loop of `MIR_module2c` and the data-section printer of `out_item`

```
case MIR_bss_item: case MIR_data_item: case MIR_ref_data_item: case MIR_expr_data_item: {
  if ((name = MIR_item_name (ctx, item)) == NULL) return;             /* skip part of a section */
  ...
  for (iter = 0; iter < 2; iter++) {
    for (n = 0, curr_item = item; curr_item != NULL; curr_item = DLIST_NEXT (MIR_item_t, <ADV>), n++) {
      if ((curr_name = MIR_item_name (ctx, curr_item)) != NULL && curr_item != item) break;
      stop_p = FALSE;
      switch (curr_item->item_type) {
      case MIR_data_item: … case MIR_ref_data_item: … case MIR_bss_item: …     /* print member n */
      case MIR_expr_data_item: (*MIR_get_error_func (ctx)) (…);                 /* does not return */
      default: stop_p = TRUE; break;
      }
      if (stop_p) break;
    }
    …
    if (stop_p) break;
  }
```
`<ADV>` is `item` in the current source (the loop re-visits the item after the first one for ever
when that one is an anonymous data/bss/ref-data item) and `curr_item` after
`fixes/C20-section-loop.patch`.  The model takes the variant as the parameter `fixed`; `Model/Mir2CKnown.loopFixed`
says which one is the code that exists, and `Lemmas/BridgeC20.lean` ties it to the source text.

Items are positions of the module's item list; only the facts the loop looks at are kept. -/
namespace MirVerif.Mir2C

inductive IKind | data | refData | exprData | bss | other
deriving DecidableEq, Repr

structure Item where
  named : Bool
  kind : IKind
deriving DecidableEq, Repr

/-- what one run of the inner `for` did: the visited member positions, and how it ended -/
inductive InnerEnd | exhausted | nextSection | stop | error
deriving DecidableEq, Repr

/-- `DLIST_NEXT` -/
def nextItem (items : List Item) (j : Nat) : Option Nat :=
  if j + 1 < items.length then some (j + 1) else none

/-- the inner `for`; `none` = fuel exhausted -/
def inner (fixed : Bool) (items : List Item) (i : Nat) :
    (fuel : Nat) → (curr : Option Nat) → (acc : List Nat) → Option (List Nat × InnerEnd)
  | 0, _, _ => none
  | _ + 1, none, acc => some (acc.reverse, .exhausted)
  | fuel + 1, some c, acc =>
    match items[c]? with
    | none => some (acc.reverse, .exhausted)
    | some it =>
      if it.named && c != i then some (acc.reverse, .nextSection)
      else match it.kind with
        | .other => some (acc.reverse, .stop)
        | .exprData => some (acc.reverse, .error)
        | _ => inner fixed items i fuel (nextItem items (if fixed then c else i)) (c :: acc)

/-- the section printer entered for item `i`: the member positions printed by the declaration pass
and by the initialiser pass; `none` = fuel exhausted -/
def printSection (fixed : Bool) (items : List Item) (i : Nat) (fuel : Nat) : Option (List (List Nat)) :=
  match items[i]? with
  | none => some []
  | some it =>
    if !it.named then some []     -- part of a section: printed with its head
    else
      match inner fixed items i fuel (some i) [] with
      | none => none
      | some (m0, e0) =>
        if e0 == .stop || e0 == .error then some [m0]
        else match inner fixed items i fuel (some i) [] with
          | none => none
          | some (m1, _) => some [m0, m1]

def isDataKind : IKind → Bool
  | .other => false
  | _ => true

/-- all results, or `none` if one of them is `none` -/
def seqOpt {α} : List (Option α) → Option (List α)
  | [] => some []
  | none :: _ => none
  | some a :: t => (seqOpt t).map (a :: ·)

/-- `MIR_module2c`: `for (item = DLIST_HEAD …; item != NULL; item = DLIST_NEXT …) out_item (ctx, f, item)`,
restricted to what the data items contribute -/
def printModule (fixed : Bool) (items : List Item) (fuel : Nat) : Option (List (List (List Nat))) :=
  seqOpt <| (List.range items.length).map fun i =>
    match items[i]? with
    | some it => if isDataKind it.kind then printSection fixed items i fuel else some []
    | none => some []

/-- the hypothesis under which today's loop ends: the item after a named data item is not an
anonymous data/bss/ref-data item -/
def noAnonFollower (items : List Item) (i : Nat) : Bool :=
  match items[i + 1]? with
  | none => true
  | some it => it.named || it.kind == .other || it.kind == .exprData

end MirVerif.Mir2C
