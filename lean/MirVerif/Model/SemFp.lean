import MirVerif.Model.Sem
/-! Floating-point oracle (Lean's native `Float`/`Float32`; opaque to the kernel, used only by the
correspondence) and the documented meaning of narrow loads/stores (provable). -/
namespace MirVerif

def f32 (b : UInt64) : Float32 := Float32.ofBits b.toUInt32
def f64 (b : UInt64) : Float := Float.ofBits b
def hexN (n : Nat) : String := String.ofList (Nat.toDigits 16 n)
/-- NaN results are printed as `nan` (payload propagation is not part of the documented result) -/
def outF (x : Float) : String := if x.isNaN then "nan" else hexN x.toBits.toNat
def outF32 (x : Float32) : String := if x.isNaN then "nan" else hexN x.toBits.toNat
def outB (b : Bool) : String := if b then "1" else "0"
def outI (i : Int64) : String := hexN i.toUInt64.toNat

/-- documented floating-point instructions: IEEE arithmetic in the operand format, C-like
comparisons (every comparison with a NaN is false except `!=`), conversions as C casts -/
def fpEval (name : String) (a b : UInt64) : String :=
  match name with
  | "fadd" => outF32 (f32 a + f32 b) | "fsub" => outF32 (f32 a - f32 b)
  | "fmul" => outF32 (f32 a * f32 b) | "fdiv" => outF32 (f32 a / f32 b)
  | "fneg" => outF32 (-(f32 a))
  | "dadd" => outF (f64 a + f64 b) | "dsub" => outF (f64 a - f64 b)
  | "dmul" => outF (f64 a * f64 b) | "ddiv" => outF (f64 a / f64 b)
  | "dneg" => outF (-(f64 a))
  | "feq" => outB (f32 a == f32 b) | "fne" => outB (f32 a != f32 b)
  | "flt" => outB (f32 a < f32 b) | "fle" => outB (f32 a ≤ f32 b)
  | "fgt" => outB (f32 a > f32 b) | "fge" => outB (f32 a ≥ f32 b)
  | "deq" => outB (f64 a == f64 b) | "dne" => outB (f64 a != f64 b)
  | "dlt" => outB (f64 a < f64 b) | "dle" => outB (f64 a ≤ f64 b)
  | "dgt" => outB (f64 a > f64 b) | "dge" => outB (f64 a ≥ f64 b)
  | "i2f" => outF32 a.toInt64.toFloat32 | "i2d" => outF a.toInt64.toFloat
  | "ui2f" => outF32 a.toFloat32 | "ui2d" => outF a.toFloat
  | "f2i" => outI (f32 a).toInt64 | "d2i" => outI (f64 a).toInt64
  | "f2d" => outF (f32 a).toFloat | "d2f" => outF32 (f64 a).toFloat32
  | _ => "bad-key"

/-- memory types narrower or equal to 64 bits: (bits, signed) -/
def memTy : String → Option (Nat × Bool)
  | "i8" => some (8, true) | "u8" => some (8, false) | "i16" => some (16, true)
  | "u16" => some (16, false) | "i32" => some (32, true) | "u32" => some (32, false)
  | "i64" => some (64, true) | "u64" => some (64, false) | "p" => some (64, false)
  | _ => none

/-- register contents after `mov r, T:(addr)` when the 8 bytes at `addr` (little endian) are `m` -/
def loadExt (k : Nat) (signed : Bool) (m : W64) : W64 := if k = 64 then m else docExt k signed m
/-- the 8 bytes at `addr` after `mov T:(addr), v` when they were `old`: the low `k` bits replaced -/
def storeTrunc (k : Nat) (old v : W64) : W64 :=
  if k = 64 then v else wrapN 64 (old.toNat / 2 ^ k * 2 ^ k + v.toNat % 2 ^ k)

def docLoad (t : String) (m : W64) : Option W64 := (memTy t).map fun (k, s) => loadExt k s m
def docStore (t : String) (old v : W64) : Option W64 := (memTy t).map fun (k, _) => storeTrunc k old v

end MirVerif
