/-!
# Model of data-section loading (`/repo/mir.c`)

Transcribes, loop by loop,

* `_MIR_type_size` (x86-64 SysV sizes; the table is also *extracted* from the source on every run
  by `translate/c14_typesize.py` and compared with `canonTypeSizes` in `Props/C14.lean`),
* `load_bss_data_section (ctx, item, FALSE)`: the **size pass** (`sizeLoop`, first `for`) and the
  **placement pass** (`placeLoop`, second `for`).  The two passes are written separately in C, so
  they are two separate definitions here, each with its own per-kind size expression
  (`Item.szSize` / `Item.plSize`),
* the driving loop of `MIR_load_module` (`loadModule`): a data/bss/ref/lref/expr item starts a call
  of `load_bss_data_section`, the loop continues after the *last item consumed* by that call; any
  other item (func, proto, import, export, forward) is skipped,
* the part of the second loop of `MIR_link` that fills `ref` and `expr` slots (`linkLoop`).

Addresses are offsets from the `malloc` result of the section (`item->addr - head->addr`).
Memory of a section is a function `Nat → Cell`; what `malloc` returned is `Cell.undef` everywhere.

Assumption of the model: all items of the module have `addr == NULL` when `MIR_load_module` starts
(a freshly created module, loaded once) and no error function is called (expr items refer to
expression functions).  `lref` slots are not written by load or link, so they stay `undef` here.  The engines write them when
the function is prepared: `lref l, disp` = address of `l` + disp, `lref l, l2, disp` = (address of `l` −
address of `l2`) **in bytes** + disp, the addresses being the ones the same engine hands out (for the
interpreter since 9229ffc3; before it stored the difference of code indexes).  The harness checks exactly
that, with the same rule for every engine.
-/

namespace MirVerif.Section

/-- element / result types accepted for data and expr items (`!wrong_type_p`): `MIR_T_I8 … MIR_T_P` -/
inductive Ty where
  | i8 | u8 | i16 | u16 | i32 | u32 | i64 | u64 | f | d | ld | p
  deriving DecidableEq, Repr, Inhabited

/-- `_MIR_type_size` (mir.c:1153) on x86-64 SysV: `sizeof (long double) = 16`, `sizeof (void *) = 8` -/
def Ty.size : Ty → Nat
  | .i8 => 1 | .u8 => 1
  | .i16 => 2 | .u16 => 2
  | .i32 => 4 | .u32 => 4
  | .i64 => 8 | .u64 => 8
  | .f => 4 | .d => 8 | .ld => 16 | .p => 8

def Ty.all : List Ty := [.i8, .u8, .i16, .u16, .i32, .u32, .i64, .u64, .f, .d, .ld, .p]

def Ty.cname : Ty → String
  | .i8 => "MIR_T_I8" | .u8 => "MIR_T_U8" | .i16 => "MIR_T_I16" | .u16 => "MIR_T_U16"
  | .i32 => "MIR_T_I32" | .u32 => "MIR_T_U32" | .i64 => "MIR_T_I64" | .u64 => "MIR_T_U64"
  | .f => "MIR_T_F" | .d => "MIR_T_D" | .ld => "MIR_T_LD" | .p => "MIR_T_P"

/-- canonical `(case label, returned size)` rows of `_MIR_type_size`, in source order -/
def canonTypeSizes : List (String × Nat) := Ty.all.map fun t => (t.cname, t.size)

/-- one byte of section memory -/
inductive Cell where
  | undef                -- never written since `malloc` (or written with indeterminate padding)
  | byte (b : Nat)       -- a defined byte, `b < 256`
  deriving DecidableEq, Repr, Inhabited

/-- module items as far as section loading is concerned -/
inductive Item where
  | data (name : Option String) (ty : Ty) (nel : Nat) (bytes : List Nat)
  | bss  (name : Option String) (len : Nat)
  | ref  (name : Option String) (target : Nat) (disp : Int)      -- target = index of the referenced item in the module
  | lref (name : Option String) (lab : Nat) (lab2 : Option Nat) (disp : Int)
  | expr (name : Option String) (ty : Ty) (val : Nat)            -- result type and result bit pattern of the expr func
  | other                                                        -- func, proto, import, export, forward
  deriving Repr, Inhabited

namespace Item

/-- `item_type` is one of bss/data/ref_data/lref_data/expr_data -/
def isSec : Item → Bool
  | other => false
  | _ => true

def name : Item → Option String
  | data n .. => n | bss n _ => n | ref n .. => n | lref n .. => n | expr n .. => n | other => none

/-- the guard shared by every arm of both `if`-chains:
`curr_item->item_type == K && (curr_item == item || curr_item->u.K->name == NULL)`;
`first` is `curr_item == item`. -/
def accepted (first : Bool) (it : Item) : Bool := it.isSec && (first || it.name.isNone)

/-- what the **size pass** adds to `section_size` for an accepted item (mir.c:1810-1831) -/
def szSize : Item → Nat
  | bss _ len => len
  | data _ ty nel _ => nel * ty.size
  | ref .. => Ty.p.size
  | lref .. => Ty.p.size
  | expr _ ty _ => ty.size
  | other => 0

/-- by how much the **placement pass** advances `addr` for an accepted item (mir.c:1847-1874) -/
def plSize : Item → Nat
  | bss _ len => len
  | data _ ty nel _ => nel * ty.size
  | ref .. => Ty.p.size
  | lref .. => Ty.p.size
  | expr _ ty _ => ty.size
  | other => 0

end Item

abbrev Mem := Nat → Cell

/-- `memset`/`memmove`/`memcpy` of `cs.length` bytes at `addr` -/
def writeCells (m : Mem) (addr : Nat) (cs : List Cell) : Mem :=
  fun a => if addr ≤ a ∧ a < addr + cs.length then cs.getD (a - addr) .undef else m a

/-- the `len` bytes `memmove` reads from `data->u.els`: the declared bytes (`MIR_new_data` copied
exactly `nel * size` of them); made total by padding/truncating -/
def dataCells (bytes : List Nat) (len : Nat) : List Cell :=
  (List.range len).map fun k => match bytes[k]? with | some b => .byte b | none => .undef

/-- what the placement pass writes for an item -/
def loadCells : Item → List Cell
  | .bss _ len => List.replicate len (.byte 0)
  | .data _ ty nel bytes => dataCells bytes (nel * ty.size)
  | _ => []

/-! ## size pass -/

/-- first loop of `load_bss_data_section`; `acc` = `section_size` so far -/
def sizeLoop (acc : Nat) (first : Bool) : List Item → Nat
  | [] => acc
  | it :: rest => if it.accepted first then sizeLoop (acc + it.szSize) false rest else acc

/-- `if (section_size % 8 != 0) section_size += 8 - section_size % 8;` -/
def round8 (s : Nat) : Nat := if s % 8 != 0 then s + (8 - s % 8) else s

/-- the argument of `MIR_malloc` for the section whose head is the first item of `l` -/
def sectionSize (l : List Item) : Nat := round8 (sizeLoop 0 true l)

/-! ## placement pass -/

structure PlaceRes where
  offs : List Nat        -- `item->addr` (as offset) of every consumed item, in order
  mem : Mem
  endAddr : Nat          -- final value of `addr`
  rest : List Item       -- items after `last_item`

/-- second loop of `load_bss_data_section` -/
def placeLoop (addr : Nat) (m : Mem) (first : Bool) : List Item → PlaceRes
  | [] => ⟨[], m, addr, []⟩
  | it :: rest =>
    if it.accepted first then
      let r := placeLoop (addr + it.plSize) (writeCells m addr (loadCells it)) false rest
      ⟨addr :: r.offs, r.mem, r.endAddr, r.rest⟩
    else ⟨[], m, addr, it :: rest⟩

theorem placeLoop_length (addr : Nat) (m : Mem) (first : Bool) (l : List Item) :
    (placeLoop addr m first l).offs.length + (placeLoop addr m first l).rest.length = l.length := by
  induction l generalizing addr m first with
  | nil => simp [placeLoop]
  | cons it rest ih =>
    simp only [placeLoop]
    split
    · simp only [List.length_cons]; have := ih (addr + it.plSize) (writeCells m addr (loadCells it)) false; omega
    · simp

theorem placeLoop_head_consumed (addr : Nat) (m : Mem) (it : Item) (rest : List Item) (h : it.isSec = true) :
    (placeLoop addr m true (it :: rest)).rest.length < (it :: rest).length := by
  have hl := placeLoop_length addr m true (it :: rest)
  have : 0 < (placeLoop addr m true (it :: rest)).offs.length := by
    simp [placeLoop, Item.accepted, h]
  omega

/-! ## driving loop of `MIR_load_module` -/

structure Placement where
  sec : Nat              -- index (in the module's item list) of the section head
  off : Nat              -- `item->addr - head->addr`
  deriving DecidableEq, Repr

structure SecInfo where
  head : Nat
  size : Nat             -- bytes requested from `MIR_malloc`
  count : Nat            -- number of items in the section
  deriving DecidableEq, Repr

abbrev GMem := Nat → Mem   -- section head index ↦ memory of that section's block

def setSec (g : GMem) (s : Nat) (m : Mem) : GMem := fun s' => if s' = s then m else g s'

structure LoadRes where
  pl : List (Option Placement)   -- one entry per item: `none` = not a data item (`addr` not set here)
  secs : List SecInfo
  g : GMem

/-- `for (item = head; item != NULL; item = next (item)) { if (data-ish) item = load_bss_data_section (item); … }`;
`idx` = position of the first item of `items` in the module -/
def loadModule (idx : Nat) (g : GMem) (items : List Item) : LoadRes :=
  match items with
  | [] => ⟨[], [], g⟩
  | it :: tl =>
    if h : it.isSec = true then
      let r := placeLoop 0 (fun _ => .undef) true (it :: tl)
      let res := loadModule (idx + r.offs.length) (setSec g idx r.mem) r.rest
      ⟨r.offs.map (fun o => some ⟨idx, o⟩) ++ res.pl,
       ⟨idx, sectionSize (it :: tl), r.offs.length⟩ :: res.secs, res.g⟩
    else
      let res := loadModule (idx + 1) g tl
      ⟨none :: res.pl, res.secs, res.g⟩
termination_by items.length
decreasing_by
  · exact placeLoop_head_consumed 0 _ it tl h
  · simp

def load (items : List Item) : LoadRes := loadModule 0 (fun _ _ => .undef) items

/-- the block of section `s` as `MIR_malloc` + load left it -/
def image (r : LoadRes) (s : SecInfo) : List Cell := (List.range s.size).map (r.g s.head)

/-! ## link: `ref` and `expr` slots (second loop of `MIR_link`) -/

/-- `n` little-endian bytes of `v` -/
def leCells (v : Nat) (n : Nat) : List Cell := (List.range n).map fun k => .byte (v / 256 ^ k % 256)

/-- `memcpy (load_addr, &v, _MIR_type_size (res_type))` after `v.<member> = res.<member>`:
the integer members are truncations of `res.i`; for `long double` only the 10 value bytes of the
union are determined (x87 extended), the other 6 copied bytes are indeterminate. -/
def exprCells (ty : Ty) (val : Nat) : List Cell :=
  match ty with
  | .ld => leCells val 10 ++ List.replicate 6 .undef
  | t => leCells val t.size

structure Env where
  base : Nat → Nat       -- address returned by `MIR_malloc` for the section with head index `s`
  other : Nat → Nat      -- `addr` of a non-data item after the first loop of `MIR_link` (thunk, import, forward, …)

/-- `ref_item->addr` -/
def addrOf (env : Env) (pl : List (Option Placement)) (j : Nat) : Nat :=
  match pl[j]? with
  | some (some p) => env.base p.sec + p.off
  | _ => env.other j

/-- `(char *) ref_item->addr + disp` as a 64-bit pointer -/
def refValue (env : Env) (pl : List (Option Placement)) (j : Nat) (disp : Int) : Nat :=
  (((addrOf env pl j : Int) + disp) % (2 ^ 64 : Int)).toNat

def linkCells (env : Env) (pl : List (Option Placement)) : Item → Option (List Cell)
  | .ref _ j disp => some (leCells (refValue env pl j disp) Ty.p.size)
  | .expr _ ty v => some (exprCells ty v)
  | _ => none

def linkLoop (env : Env) (pl : List (Option Placement)) : List (Item × Option Placement) → GMem → GMem
  | [], g => g
  | (it, some p) :: rest, g =>
    match linkCells env pl it with
    | some cs => linkLoop env pl rest (setSec g p.sec (writeCells (g p.sec) p.off cs))
    | none => linkLoop env pl rest g
  | (_, none) :: rest, g => linkLoop env pl rest g

def link (env : Env) (items : List Item) : GMem :=
  let r := load items
  linkLoop env r.pl (items.zip r.pl) r.g

/-! ## `MIR_load_module` on a module that is already loaded (every data item has its address)

`load_bss_data_section (item)` with `item->addr != NULL` skips the allocation; its placement loop handles
`item` itself (`curr_item == item`) and stops at the next item because that one has an address too, and
returns `item`.  The driving loop therefore calls it for every data item in turn: each item is written
again at the address it already has, nothing moves. -/

def reloadLoop : List (Item × Option Placement) → GMem → GMem
  | [], g => g
  | (it, some p) :: rest, g =>
    reloadLoop rest (setSec g p.sec (writeCells (g p.sec) p.off (loadCells it)))
  | (_, none) :: rest, g => reloadLoop rest g

/-- memory after loading the module a second time, starting from whatever the program left in `g` -/
def reload (items : List Item) (g : GMem) : GMem := reloadLoop (items.zip (load items).pl) g

/-- `MIR_link` after that -/
def relink (env : Env) (items : List Item) (g : GMem) : GMem :=
  linkLoop env (load items).pl (items.zip (load items).pl) (reload items g)

end MirVerif.Section
