import MirVerif.Base.Bits
/-! # Documented meaning of MIR's integer instructions (`docSem`) and the meaning of the
interpreter's dispatch macros (`macroSem`).

`docBin`/`docCmp` are written from MIR.md §"MIR insns" in terms of *mathematical* integers
(`toInt`/`toNat`, wrap to the operation width), independently of how `mir-interp.c` computes them.
`macroSem` gives the meaning of the bodies of `IOP3`, `IOP3S`, `UOP3`, `UOP3S`, `UIOP3`, `UIOP3S`,
`ICMP`, `ICMPS`, `UCMP`, `UCMPS`, `IOP2`, `IOP2S`, `EXT(tp)` and of the overflow instructions as
they are written in `mir-interp.c`. -/
namespace MirVerif

/-- abstract integer operations of MIR (one per documented row family) -/
inductive AOp
  | add | sub | mul | div | udiv | mod | umod | and | or | xor | lsh | rsh | ursh
  | eq | ne | lt | ult | le | ule | gt | ugt | ge | uge
deriving DecidableEq, Repr

def AOp.isCmp : AOp → Bool
  | .eq | .ne | .lt | .ult | .le | .ule | .gt | .ugt | .ge | .uge => true
  | _ => false

/-- wrap a mathematical integer to `n` bits -/
def wrapI (n : Nat) (i : Int) : BitVec n := BitVec.ofInt n i
def wrapN (n : Nat) (i : Nat) : BitVec n := BitVec.ofNat n i

/-- documented result of a two-operand integer operation at width `n` (MIR.md): signed operations
interpret operands as two's-complement integers, unsigned ones as naturals; the result is the
mathematical result reduced to `n` bits.  Division/modulo by zero and the overflowing signed
division are undefined; so is a shift by a count outside `0..n-1`.  Comparisons yield 1 or 0. -/
def docBin {n : Nat} (a : AOp) (x y : BitVec n) : Option (BitVec n) :=
  match a with
  | .add => some (wrapI n (x.toInt + y.toInt))
  | .sub => some (wrapI n (x.toInt - y.toInt))
  | .mul => some (wrapI n (x.toInt * y.toInt))
  | .div => if y.toInt = 0 ∨ (x.toInt = -(2 ^ (n - 1)) ∧ y.toInt = -1) then none
            else some (wrapI n (x.toInt.tdiv y.toInt))
  | .mod => if y.toInt = 0 ∨ (x.toInt = -(2 ^ (n - 1)) ∧ y.toInt = -1) then none
            else some (wrapI n (x.toInt.tmod y.toInt))
  | .udiv => if y.toNat = 0 then none else some (wrapN n (x.toNat / y.toNat))
  | .umod => if y.toNat = 0 then none else some (wrapN n (x.toNat % y.toNat))
  | .and => some (x &&& y)
  | .or => some (x ||| y)
  | .xor => some (x ^^^ y)
  | .lsh => if y.toNat < n then some (wrapN n (x.toNat * 2 ^ y.toNat)) else none
  | .rsh => if y.toNat < n then some (wrapI n (x.toInt / 2 ^ y.toNat)) else none
  | .ursh => if y.toNat < n then some (wrapN n (x.toNat / 2 ^ y.toNat)) else none
  | .eq => some (b2w (x.toInt = y.toInt))
  | .ne => some (b2w (x.toInt ≠ y.toInt))
  | .lt => some (b2w (x.toInt < y.toInt))
  | .le => some (b2w (x.toInt ≤ y.toInt))
  | .gt => some (b2w (x.toInt > y.toInt))
  | .ge => some (b2w (x.toInt ≥ y.toInt))
  | .ult => some (b2w (x.toNat < y.toNat))
  | .ule => some (b2w (x.toNat ≤ y.toNat))
  | .ugt => some (b2w (x.toNat > y.toNat))
  | .uge => some (b2w (x.toNat ≥ y.toNat))

/-- documented result of the instruction `(a, short)` on 64-bit register contents.  For a 32-bit
("short") instruction only the low halves of the operands matter; the value returned here is the
sign-extended 32-bit result, but MIR.md leaves its upper half undefined (see `agree`). -/
def docSem (a : AOp) (short : Bool) (x y : W64) : Option W64 :=
  if short then (docBin a (lo32 x) (lo32 y)).map sext32 else docBin a x y

/-- the bits of a result the documentation defines: everything for 64-bit instructions and for
comparisons (0/1), the low half for 32-bit arithmetic -/
def agree (a : AOp) (short : Bool) (r r' : W64) : Prop :=
  if short ∧ ¬ a.isCmp then lo32 r = lo32 r' else r = r'

instance (a s r r') : Decidable (agree a s r r') := by unfold agree; infer_instance

/-- macro families of `mir-interp.c` -/
inductive Kind
  | IOP3 (o : BinOp) | IOP3S (o : BinOp) | UOP3 (o : BinOp) | UOP3S (o : BinOp)
  | UIOP3 (o : BinOp) | UIOP3S (o : BinOp)
  | ICMP (c : CmpOp) | ICMPS (c : CmpOp) | UCMP (c : CmpOp) | UCMPS (c : CmpOp)
deriving DecidableEq, Repr

/-- meaning of the macro bodies (`*r = p1 op p2` with `p1,p2` of the C type the macro declares and
`r` an `int64_t*`/`uint64_t*`) -/
def macroSem (k : Kind) (x y : W64) : Option W64 :=
  match k with
  | .IOP3 o => cS o x y
  | .IOP3S o => (cS o (lo32 x) (lo32 y)).map sext32
  | .UOP3 o | .UIOP3 o => cU o x y
  | .UOP3S o | .UIOP3S o => (cU o (lo32 x) (lo32 y)).map zext32
  | .ICMP c => some (b2w (cCmpS c x y))
  | .ICMPS c => some (b2w (cCmpS c (lo32 x) (lo32 y)))
  | .UCMP c => some (b2w (cCmpU c x y))
  | .UCMPS c => some (b2w (cCmpU c (lo32 x) (lo32 y)))

/-- the macro row the documentation calls for -/
def canonKind (a : AOp) (short : Bool) : Kind :=
  let s (o : BinOp) := if short then Kind.IOP3S o else Kind.IOP3 o
  let u (o : BinOp) := if short then Kind.UOP3S o else Kind.UOP3 o
  let ui (o : BinOp) := if short then Kind.UIOP3S o else Kind.UIOP3 o
  let c (o : CmpOp) := if short then Kind.ICMPS o else Kind.ICMP o
  let uc (o : CmpOp) := if short then Kind.UCMPS o else Kind.UCMP o
  match a with
  | .add => s .add | .sub => s .sub | .mul => s .mul | .div => s .div | .mod => s .mod
  | .udiv => u .div | .umod => u .mod
  | .and => s .and | .or => s .or | .xor => s .xor | .lsh => s .lsh | .rsh => s .rsh
  | .ursh => ui .rsh
  | .eq => c .eq | .ne => c .ne | .lt => c .lt | .le => c .le | .gt => c .gt | .ge => c .ge
  | .ult => uc .lt | .ule => uc .le | .ugt => uc .gt | .uge => uc .ge

/-! ## extensions and negation -/

/-- documented `EXT8/16/32`, `UEXT8/16/32`: the low `k` bits, sign- resp. zero-extended -/
def docExt (k : Nat) (signed : Bool) (x : W64) : W64 :=
  if signed then wrapI 64 (((x.toNat % 2 ^ k : Nat) : Int) - (if x.toNat / 2 ^ (k - 1) % 2 = 1 then 2 ^ k else 0))
  else wrapN 64 (x.toNat % 2 ^ k)

/-- `EXT(tp)`: `tp s = (tp) *op; *r = (int64_t) s` -/
def macroExt (k : Nat) (signed : Bool) (x : W64) : W64 :=
  if signed then (x.setWidth k).signExtend 64 else (x.setWidth k).setWidth 64

def docNeg (short : Bool) (x : W64) : W64 :=
  if short then sext32 (wrapI 32 (-(lo32 x).toInt)) else wrapI 64 (-x.toInt)

/-- `IOP2(-)` / `IOP2S(-)` -/
def macroNeg (short : Bool) (x : W64) : W64 :=
  if short then sext32 (-(lo32 x)) else -x

/-! ## overflow instructions (flags as the interpreter computes them vs the mathematical fact) -/

structure OvRes where
  res : W64
  sov : Bool   -- signed overflow
  uov : Bool   -- unsigned overflow
deriving DecidableEq, Repr

/-- documented: result is the wrapped sum; flags say whether the mathematical result does not fit -/
def docAddO {n : Nat} (x y : BitVec n) : BitVec n × Bool × Bool :=
  (wrapI n (x.toInt + y.toInt),
   decide (x.toInt + y.toInt < -(2 ^ (n - 1)) ∨ x.toInt + y.toInt ≥ 2 ^ (n - 1)),
   decide (x.toNat + y.toNat ≥ 2 ^ n))

def docSubO {n : Nat} (x y : BitVec n) : BitVec n × Bool × Bool :=
  (wrapI n (x.toInt - y.toInt),
   decide (x.toInt - y.toInt < -(2 ^ (n - 1)) ∨ x.toInt - y.toInt ≥ 2 ^ (n - 1)),
   decide (x.toNat < y.toNat))

def docMulO {n : Nat} (x y : BitVec n) : BitVec n × Bool :=
  (wrapI n (x.toInt * y.toInt),
   decide (x.toInt * y.toInt < -(2 ^ (n - 1)) ∨ x.toInt * y.toInt ≥ 2 ^ (n - 1)))

def docUMulO {n : Nat} (x y : BitVec n) : BitVec n × Bool :=
  (wrapN n (x.toNat * y.toNat), decide (x.toNat * y.toNat ≥ 2 ^ n))

/-- `MIR_ADDO`/`MIR_ADDOS` as written in mir-interp.c:
`uov = (uT) op1 > UMAX - (uT) op2; sov = op2 >= 0 ? op1 > MAX - op2 : op1 < MIN - op2` -/
def interpAddO {n : Nat} (x y : BitVec n) : BitVec n × Bool × Bool :=
  (x + y,
   (if (0 : BitVec n).sle y then (BitVec.intMax n - y).slt x else x.slt (BitVec.intMin n - y)),
   (BitVec.allOnes n - y).ult x)

/-- `MIR_SUBO`/`MIR_SUBOS`: `uov = (uT) op1 < (uT) op2; sov = op2 < 0 ? op1 > MAX + op2 : op1 < MIN + op2` -/
def interpSubO {n : Nat} (x y : BitVec n) : BitVec n × Bool × Bool :=
  (x - y,
   (if y.slt 0 then (BitVec.intMax n + y).slt x else x.slt (BitVec.intMin n + y)),
   x.ult y)

/-- `MIR_UMULO`/`MIR_UMULOS`: `uov = op1 == 0 ? FALSE : UMAX / op1 < op2` -/
def interpUMulO {n : Nat} (x y : BitVec n) : BitVec n × Bool :=
  (x * y, if x = 0 then false else (BitVec.allOnes n / x).ult y)

/-- `MIR_MULO`/`MIR_MULOS`:
`sov = op1 == 0 ? FALSE : op1 == -1 ? op2 < -MAX : op1 > 0 ? (op2 > 0 ? MAX / op1 < op2 : MIN / op1 > op2)
: (op2 > 0 ? MIN / op1 < op2 : MAX / op1 > op2)` (C division truncates) -/
def interpMulO {n : Nat} (x y : BitVec n) : BitVec n × Bool :=
  let mx := BitVec.intMax n
  let mn := BitVec.intMin n
  (x * y,
   if x = 0 then false
   else if x = BitVec.allOnes n then y.slt (-mx)
   else if (0 : BitVec n).slt x then
     (if (0 : BitVec n).slt y then (mx.sdiv x).slt y else y.slt (mn.sdiv x))
   else
     (if (0 : BitVec n).slt y then (mn.sdiv x).slt y else y.slt (mx.sdiv x)))

/-! ## compare-and-branch conditions -/

/-- documented branch condition of `B<cmp>[S]`, `UB<cmp>[S]` -/
def docBranch (a : AOp) (short : Bool) (x y : W64) : Bool :=
  match docSem a short x y with
  | some r => r != 0
  | none => false

/-- `BICMP/BICMPS/BUCMP/BUCMPS` -/
def macroBranch (k : Kind) (x y : W64) : Bool :=
  match k with
  | .ICMP c => cCmpS c x y
  | .ICMPS c => cCmpS c (lo32 x) (lo32 y)
  | .UCMP c => cCmpU c x y
  | .UCMPS c => cCmpU c (lo32 x) (lo32 y)
  | _ => false

end MirVerif

namespace MirVerif
/-- documented `bt`/`bf` (MIR.md: jump if the operand is not zero / is zero; the short forms look at the
low 32 bits only) -/
def docBT (short neg : Bool) (x : W64) : Bool :=
  let nz := if short then decide (lo32 x ≠ 0) else decide (x ≠ 0)
  if neg then !nz else nz

/-- the interpreter's cases `MIR_BT/BF/BTS/BFS` (pinned text): `int64_t cond = x` resp.
`int32_t cond = (int32_t) x`; `if (cond)` resp. `if (!cond)` -/
def interpBT (short neg : Bool) (x : W64) : Bool :=
  let cond : Int := if short then (lo32 x).toInt else x.toInt
  if neg then decide (cond = 0) else decide (cond ≠ 0)

/-- two optional results are related when both are undefined or both defined and related -/
def optRel {α} (r : α → α → Prop) : Option α → Option α → Prop
  | none, none => True
  | some a, some b => r a b
  | _, _ => False
end MirVerif
