/-! Machine words and C-style integer operations with explicit domains.

`cS n`/`cU n` give the meaning of the C expression `p1 op p2` when both operands have the signed
resp. unsigned `n`-bit type *as compiled on a two's-complement target* (wrap-around for + - *), and
`none` where C leaves the result undefined and the hardware traps or is unpredictable
(division by zero, `MIN / -1`, shift counts outside `0..n-1`). -/
namespace MirVerif

abbrev W64 := BitVec 64
abbrev W32 := BitVec 32

def lo32 (x : W64) : W32 := x.setWidth 32
def sext32 (x : W32) : W64 := x.signExtend 64
def zext32 (x : W32) : W64 := x.setWidth 64

/-- arithmetic / logical / shift operators of C that MIR's integer instructions use -/
inductive BinOp | add | sub | mul | div | mod | and | or | xor | lsh | rsh
deriving DecidableEq, Repr

inductive CmpOp | eq | ne | lt | le | gt | ge
deriving DecidableEq, Repr

def b2w {n} (b : Bool) : BitVec n := if b then 1#n else 0#n

/-- `p1 op p2` on signed `n`-bit operands (count of a shift is the same signed type) -/
def cS {n : Nat} (o : BinOp) (x y : BitVec n) : Option (BitVec n) :=
  match o with
  | .add => some (x + y)
  | .sub => some (x - y)
  | .mul => some (x * y)
  | .div => if y = 0 ∨ (x = BitVec.intMin n ∧ y = BitVec.allOnes n) then none else some (x.sdiv y)
  | .mod => if y = 0 ∨ (x = BitVec.intMin n ∧ y = BitVec.allOnes n) then none else some (x.srem y)
  | .and => some (x &&& y)
  | .or => some (x ||| y)
  | .xor => some (x ^^^ y)
  | .lsh => if y.toNat < n then some (x <<< y.toNat) else none
  | .rsh => if y.toNat < n then some (x.sshiftRight y.toNat) else none

/-- `p1 op p2` on unsigned `n`-bit operands -/
def cU {n : Nat} (o : BinOp) (x y : BitVec n) : Option (BitVec n) :=
  match o with
  | .add => some (x + y)
  | .sub => some (x - y)
  | .mul => some (x * y)
  | .div => if y = 0 then none else some (x / y)
  | .mod => if y = 0 then none else some (x % y)
  | .and => some (x &&& y)
  | .or => some (x ||| y)
  | .xor => some (x ^^^ y)
  | .lsh => if y.toNat < n then some (x <<< y.toNat) else none
  | .rsh => if y.toNat < n then some (x >>> y.toNat) else none

def cCmpS {n : Nat} (c : CmpOp) (x y : BitVec n) : Bool :=
  match c with
  | .eq => x == y
  | .ne => x != y
  | .lt => x.slt y
  | .le => x.sle y
  | .gt => y.slt x
  | .ge => y.sle x

def cCmpU {n : Nat} (c : CmpOp) (x y : BitVec n) : Bool :=
  match c with
  | .eq => x == y
  | .ne => x != y
  | .lt => x.ult y
  | .le => x.ule y
  | .gt => y.ult x
  | .ge => y.ule x

end MirVerif
