import MirVerif.Model.AbiX64
set_option linter.unusedSimpArgs false
/-! Helper lemmas for C05: simulation of the two code state machines by the psABI reference. -/
namespace MirVerif.AbiX64

/-- `Q` holds for every argument at the reference state in which it is placed -/
def Along (step : St → ArgTy → St × List Loc) (Q : St → ArgTy → Prop) : St → List ArgTy → Prop
  | _, [] => True
  | st, a :: as => Q st a ∧ Along step Q (step st a).1 as

/-- generic forward simulation over an argument list, with the counters as invariant `R` -/
theorem run_sim (stepC stepS : St → ArgTy → St × List Loc) (R : St → St → Prop)
    (Q : St → ArgTy → Prop)
    (h : ∀ c s a, R c s → Q s a → (stepC c a).2 = (stepS s a).2 ∧ R (stepC c a).1 (stepS s a).1) :
    ∀ (args : List ArgTy) (c s : St), R c s → Along stepS Q s args →
      (run stepC c args).2 = (run stepS s args).2 ∧ R (run stepC c args).1 (run stepS s args).1 := by
  intro args
  induction args with
  | nil => intro c s hr _; exact ⟨rfl, hr⟩
  | cons a as ih =>
    intro c s hr hq
    obtain ⟨hqa, hqs⟩ := hq
    obtain ⟨h1, h2⟩ := h c s a hr hqa
    obtain ⟨i1, i2⟩ := ih _ _ h2 hqs
    simp only [run]
    exact ⟨by rw [h1, i1], i2⟩

theorem along_of_forall (step : St → ArgTy → St × List Loc) (P : ArgTy → Prop) :
    ∀ (args : List ArgTy) (s : St), (∀ a ∈ args, P a) → Along step (fun _ a => P a) s args := by
  intro args
  induction args with
  | nil => intro _ _; trivial
  | cons a as ih =>
    intro s h
    exact ⟨h a (by simp), ih _ (fun b hb => h b (by simp [hb]))⟩

theorem along_and (step : St → ArgTy → St × List Loc) (Q1 Q2 : St → ArgTy → Prop) :
    ∀ (args : List ArgTy) (s : St), Along step Q1 s args → Along step Q2 s args →
      Along step (fun st a => Q1 st a ∧ Q2 st a) s args := by
  intro args
  induction args with
  | nil => intro _ _ _; trivial
  | cons a as ih =>
    intro s h1 h2
    exact ⟨⟨h1.1, h2.1⟩, ih _ h1.2 h2.2⟩

def isBlk134 : ArgTy → Bool
  | .blk .b1 _ | .blk .b3 _ | .blk .b4 _ => true
  | _ => false

def isBlk234 : ArgTy → Bool
  | .blk .b2 _ | .blk .b3 _ | .blk .b4 _ => true
  | _ => false

/-- relation between a code state and the psABI state: counters saturate at the register-file
sizes, the stack offsets agree and are multiples of 8 -/
def Rel (c s : St) : Prop := s = c.norm ∧ c.sp % 8 = 0

theorem qwords_cases {s : Nat} (h1 : 1 ≤ s) (h2 : s ≤ 16) : qwords s = 1 ∨ qwords s = 2 := by
  unfold qwords; omega

theorem qwords_two {s : Nat} (h1 : 9 ≤ s) (h2 : s ≤ 16) : qwords s = 2 := by
  unfold qwords; omega

macro "abi_close" : tactic => `(tactic| (
  (repeat' split) <;> (try simp_all) <;> (try omega)))

/-- one step of `_MIR_get_ff_call` is one step of the reference (psABI when `ldAlignFF`), provided
the block kind has an ABI meaning and the xmm-counter defect is repaired or not triggered -/
theorem ff_step_sim (cfg : Cfg) (c : St) (a : ArgTy) (hws : a.WellSized)
    (hsk : cfg.ffBlkXmm = true ∨ isBlk134 a = false) (h8 : c.sp % 8 = 0) :
    (ffStep cfg c a).2 = (refStep cfg.ldAlignFF c.norm a).2 ∧
    (refStep cfg.ldAlignFF c.norm a).1 = (ffStep cfg c a).1.norm ∧ (ffStep cfg c a).1.sp % 8 = 0 := by
  obtain ⟨ni, nx, sp⟩ := c
  simp only at h8
  have hr8 : (sp + 7) / 8 * 8 = sp := by omega
  cases a with
  | blk k s =>
    cases k with
    | b0 =>
      simp [ffStep, refStep, classes, memStep, memWords, memAlign, St.norm, roundUp, hr8]
      abi_close
    | b1 =>
      simp only [ArgTy.WellSized] at hws
      simp [isBlk134] at hsk
      rcases qwords_cases hws.1 hws.2 with hq | hq <;>
      simp [ffStep, refStep, classes, memStep, memWords, memAlign, St.norm, roundUp, countInt, countSse,
        assign, hq, hws.2, hsk, stkWords, List.replicate] <;>
      abi_close
    | b2 =>
      simp only [ArgTy.WellSized] at hws
      rcases qwords_cases hws.1 hws.2 with hq | hq <;>
      simp [ffStep, refStep, classes, memStep, memWords, memAlign, St.norm, roundUp, countInt, countSse,
        assign, hq, hws.2, stkWords, List.replicate] <;>
      abi_close
    | b3 =>
      simp only [ArgTy.WellSized] at hws
      simp [isBlk134] at hsk
      have hq := qwords_two hws.1 hws.2
      simp [ffStep, refStep, classes, memStep, memWords, memAlign, St.norm, roundUp, countInt, countSse,
        assign, hq, hws.2, hsk, stkWords]
      abi_close
    | b4 =>
      simp only [ArgTy.WellSized] at hws
      simp [isBlk134] at hsk
      have hq := qwords_two hws.1 hws.2
      simp [ffStep, refStep, classes, memStep, memWords, memAlign, St.norm, roundUp, countInt, countSse,
        assign, hq, hws.2, hsk, stkWords]
      abi_close
  | ld =>
    cases hl : cfg.ldAlignFF <;>
    simp [ffStep, refStep, classes, memStep, memWords, memAlign, St.norm, stkWords, roundUp, hl] <;> omega
  | _ =>
    simp [ffStep, refStep, classes, memStep, memWords, memAlign, St.norm, stkWords, roundUp, countInt,
      countSse, assign]
    abi_close

/-- one step of `machinize_call` is one step of the reference (psABI when `ldAlignGen`) -/
theorem gen_step_sim (cfg : Cfg) (c : St) (a : ArgTy) (hws : a.WellSized) (h8 : c.sp % 8 = 0) :
    (genStep cfg c a).2 = (refStep cfg.ldAlignGen c.norm a).2 ∧
    (refStep cfg.ldAlignGen c.norm a).1 = (genStep cfg c a).1.norm ∧ (genStep cfg c a).1.sp % 8 = 0 := by
  obtain ⟨ni, nx, sp⟩ := c
  simp only at h8
  have hr8 : (sp + 7) / 8 * 8 = sp := by omega
  cases a with
  | blk k s =>
    have hs8 : (s + 7) / 8 * 8 / 8 = qwords s := by unfold qwords; omega
    have hs8' : (s + 7) / 8 * 8 = 8 * qwords s := by unfold qwords; omega
    cases k with
    | b0 =>
      simp [genStep, refStep, classes, memStep, memWords, memAlign, St.norm, roundUp, hr8, hs8, hs8']
      abi_close
    | b1 =>
      simp only [ArgTy.WellSized] at hws
      rcases qwords_cases hws.1 hws.2 with hq | hq <;>
      simp [genStep, intRegP, fpRegP, refStep, classes, memStep, memWords, memAlign, St.norm, roundUp, countInt,
        countSse, assign, hq, hws.2, stkWords, List.replicate, hs8, hs8'] <;>
      abi_close
    | b2 =>
      simp only [ArgTy.WellSized] at hws
      rcases qwords_cases hws.1 hws.2 with hq | hq <;>
      simp [genStep, intRegP, fpRegP, refStep, classes, memStep, memWords, memAlign, St.norm, roundUp, countInt,
        countSse, assign, hq, hws.2, stkWords, List.replicate, hs8, hs8'] <;>
      abi_close
    | b3 =>
      simp only [ArgTy.WellSized] at hws
      have hq := qwords_two hws.1 hws.2
      simp [genStep, intRegP, fpRegP, refStep, classes, memStep, memWords, memAlign, St.norm, roundUp, countInt,
        countSse, assign, hq, hws.2, stkWords, hs8, hs8']
      abi_close
    | b4 =>
      simp only [ArgTy.WellSized] at hws
      have hq := qwords_two hws.1 hws.2
      simp [genStep, intRegP, fpRegP, refStep, classes, memStep, memWords, memAlign, St.norm, roundUp, countInt,
        countSse, assign, hq, hws.2, stkWords, hs8, hs8']
      abi_close
  | ld =>
    cases hl : cfg.ldAlignGen <;>
    simp [genStep, refStep, classes, memStep, memWords, memAlign, St.norm, stkWords, roundUp, hl] <;> omega
  | _ =>
    simp [genStep, intRegP, fpRegP, refStep, classes, memStep, memWords, memAlign, St.norm, stkWords, roundUp,
      countInt, countSse, assign]
    abi_close

/-- the reference with unaligned `long double` is the psABI step whenever the `long double` in
question already sits at a multiple of 16 -/
theorem ref_step_false_true (s : St) (a : ArgTy) (h8 : s.sp % 8 = 0)
    (hl : a = .ld → s.sp % 16 = 0) :
    refStep false s a = refStep true s a ∧ (refStep true s a).1.sp % 8 = 0 := by
  obtain ⟨ni, nx, sp⟩ := s
  simp only at h8 hl
  have hr8 : (sp + 7) / 8 * 8 = sp := by omega
  cases a with
  | ld =>
    have h16 : (sp + 15) / 16 * 16 = sp := by have := hl rfl; omega
    simp [refStep, classes, memStep, memWords, memAlign, roundUp, h16]; omega
  | blk k s =>
    cases k <;>
    simp [refStep, classes, memStep, memWords, memAlign, roundUp, hr8] <;> abi_close
  | _ =>
    simp [refStep, classes, memStep, memWords, memAlign, roundUp, hr8] <;> abi_close

theorem clsCount_snoc (c : RCls) (before : List ResTy) (r : ResTy) :
    clsCount c (before ++ [r]) = clsCount c before + (if resCls r = c then 1 else 0) := by
  simp only [clsCount, List.filter_append, List.length_append]
  by_cases h : resCls r = c <;> simp [h, List.filter]

/-- the register a result of class `c` gets when `k` results of that class precede it -/
def resLoc (c : RCls) (k : Nat) : RLoc :=
  match c with | .int => .gpr k | .sse => .xmm k | .x87 => .st k

def bump (c : RCls) (st : RSt) : RSt :=
  match c with
  | .int => ⟨st.ni + 1, st.nx, st.nf⟩ | .sse => ⟨st.ni, st.nx + 1, st.nf⟩ | .x87 => ⟨st.ni, st.nx, st.nf + 1⟩

def cnt (c : RCls) (st : RSt) : Nat := match c with | .int => st.ni | .sse => st.nx | .x87 => st.nf

theorem genResStep_ok (r : ResTy) (st : RSt) (h : cnt (resCls r) st < 2) :
    genResStep st r = some (bump (resCls r) st, resLoc (resCls r) (cnt (resCls r) st)) := by
  cases r <;> simp [resCls, cnt] at h <;> simp [genResStep, resCls, bump, resLoc, cnt, h]

theorem ffResStep_ok (r : ResTy) (st : RSt) (h : cnt (resCls r) st < 2) :
    ffResStep st r = some (bump (resCls r) st, resLoc (resCls r) (cnt (resCls r) st)) := by
  cases r <;> simp [resCls, cnt] at h <;> simp [ffResStep, isIntRes, resCls, bump, resLoc, cnt, h]

def cntSt (before : List ResTy) : RSt := ⟨clsCount .int before, clsCount .sse before, clsCount .x87 before⟩

theorem cntSt_snoc (before : List ResTy) (r : ResTy) :
    cntSt (before ++ [r]) = bump (resCls r) (cntSt before) := by
  cases h : resCls r <;> simp [cntSt, clsCount_snoc, bump, h]

theorem cnt_cntSt (c : RCls) (before : List ResTy) : cnt c (cntSt before) = clsCount c before := by
  cases c <;> rfl

theorem res_aux (step : RSt → ResTy → Option (RSt × RLoc))
    (hstep : ∀ r st, cnt (resCls r) st < 2 →
      step st r = some (bump (resCls r) st, resLoc (resCls r) (cnt (resCls r) st))) :
    ∀ (rs before : List ResTy) (l : List RLoc),
      sysvResAux before rs = some l → runRes step (cntSt before) rs = some l := by
  intro rs
  induction rs with
  | nil => intros; simp_all [runRes, sysvResAux]
  | cons r rs ih =>
    intro before l hk
    simp only [sysvResAux] at hk
    by_cases hlt : clsCount (resCls r) before < 2
    · simp only [hlt, if_true] at hk
      cases hs : sysvResAux (before ++ [r]) rs with
      | none => simp [hs] at hk
      | some ls =>
        simp only [hs] at hk
        have h1 := ih _ _ hs
        rw [cntSt_snoc] at h1
        simp only [runRes]
        rw [hstep r _ (by rw [cnt_cntSt]; exact hlt)]
        simp only [h1, cnt_cntSt]
        cases hc : resCls r <;> simp_all [resLoc]
    · simp [hlt] at hk


/-! ### sse-register counter of `machinize_call` (for `%al`) -/

/-- register counters of `machinize_call` evolve independently of the stack offset and of `cfg` -/
theorem gen_step_regs (cfg cfg' : Cfg) (s s' : St) (a : ArgTy) (hi : s.ni = s'.ni) (hx : s.nx = s'.nx) :
    (genStep cfg s a).1.ni = (genStep cfg' s' a).1.ni ∧ (genStep cfg s a).1.nx = (genStep cfg' s' a).1.nx := by
  obtain ⟨ni, nx, sp⟩ := s
  obtain ⟨ni', nx', sp'⟩ := s'
  simp only at hi hx
  subst hi hx
  cases a with
  | blk k s => cases k <;> simp [genStep, intRegP, fpRegP] <;> abi_close
  | _ => simp [genStep, intRegP, fpRegP] <;> abi_close

theorem gen_run_regs (cfg cfg' : Cfg) : ∀ (args : List ArgTy) (s s' : St), s.ni = s'.ni → s.nx = s'.nx →
    (run (genStep cfg) s args).1.ni = (run (genStep cfg') s' args).1.ni ∧
    (run (genStep cfg) s args).1.nx = (run (genStep cfg') s' args).1.nx := by
  intro args
  induction args with
  | nil => intro s s' hi hx; exact ⟨hi, hx⟩
  | cons a as ih =>
    intro s s' hi hx
    obtain ⟨h1, h2⟩ := gen_step_regs cfg cfg' s s' a hi hx
    simpa [run] using ih _ _ h1 h2

theorem gen_step_nx (cfg : Cfg) (s : St) (a : ArgTy) (h : isBlk234 a = false) :
    (genStep cfg s a).1.nx = s.nx + (if isFD a then 1 else 0) := by
  obtain ⟨ni, nx, sp⟩ := s
  cases a with
  | blk k s => cases k <;> simp [isBlk234] at h <;> simp [genStep, isFD] <;> abi_close
  | _ => simp [genStep, isFD] <;> abi_close

theorem gen_run_nx (cfg : Cfg) : ∀ (args : List ArgTy) (s : St), (∀ a ∈ args, isBlk234 a = false) →
    (run (genStep cfg) s args).1.nx = s.nx + args.countP isFD := by
  intro args
  induction args with
  | nil => intro s _; simp [run]
  | cons a as ih =>
    intro s h
    have h1 := gen_step_nx cfg s a (h a (by simp))
    have h2 := ih (genStep cfg s a).1 (fun b hb => h b (by simp [hb]))
    simp only [run, h2, h1, List.countP_cons]
    omega

theorem norm_init : St.init.norm = St.init := by decide

end MirVerif.AbiX64
