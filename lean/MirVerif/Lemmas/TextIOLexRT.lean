import MirVerif.Lemmas.TextIOLexFloat
import MirVerif.Lemmas.TextIOLexStr
/-! # C10 — the token scanner on a whole written text: `lexAll (flatten l) = toks l`

One induction over the layout-token list the writer model produces.  Side conditions: every piece is
individually readable (`ValidLT`) and every word is followed by a delimiter (`okLT`). -/
namespace TextIO

theorem lexOne_atEnd {cs : List Char} (h : atEnd cs = true) : ∃ r, lexOne cs = .ok (.eof, r) := by
  cases cs with
  | nil => exact ⟨[], rfl⟩
  | cons c cs =>
    simp only [atEnd, decide_eq_true_eq] at h
    exact ⟨c :: cs, by simp [lexOne, charClass_nul.mpr h]⟩

theorem not_atEnd_of_lexOne {cs : List Char} {t : Tok} {r : List Char} (h : lexOne cs = .ok (t, r))
    (ht : t ≠ .eof) : atEnd cs = false := by
  cases he : atEnd cs
  · rfl
  · obtain ⟨r', hr⟩ := lexOne_atEnd he
    rw [hr] at h
    simp only [Except.ok.injEq, Prod.mk.injEq] at h
    exact absurd h.1.symm ht

theorem lexAll_nil : lexAll [] = .ok [] := by
  rw [lexAll]; simp [atEnd]

theorem lexAll_step {cs : List Char} {t : Tok} {r : List Char} (h : lexOne cs = .ok (t, r)) (ht : t ≠ .eof) :
    lexAll cs = (lexAll r).map (t :: ·) := by
  have hne := not_atEnd_of_lexOne h ht
  rw [lexAll]
  simp only [hne, Bool.false_eq_true, dite_false]
  split
  · rename_i e he; rw [h] at he; simp at he
  · rename_i t' r' he
    rw [h] at he
    simp only [Except.ok.injEq, Prod.mk.injEq] at he
    obtain ⟨h1, h2⟩ := he
    subst h1; subst h2; rfl

theorem lexAll_blank {c : Char} (hc : charClass c = .blank) {r : List Char} (hr : atEnd r = false) :
    lexAll (c :: r) = lexAll r := by
  have h0 : atEnd (c :: r) = false := by
    cases h : atEnd (c :: r)
    · rfl
    · simp only [atEnd, decide_eq_true_eq] at h
      rw [charClass_nul.mpr h] at hc; cases hc
  have hl : lexOne (c :: r) = lexOne r := by simp [lexOne, hc]
  rw [lexAll, lexAll.eq_def r]
  simp only [h0, hr, Bool.false_eq_true, dite_false]
  split <;> split <;> simp_all

/-! ## validity of the pieces -/

/-- first character exists and is not the terminating NUL -/
def startOK : Str → Prop
  | [] => False
  | c :: _ => c.toNat ≠ 0

def ValidLT : LT → Prop
  | .word cs t => WordOK cs t ∧ t ≠ .eof ∧ startOK cs
  | .lit cs t => (∀ rest, lexOne (cs ++ rest) = .ok (t, rest)) ∧ t ≠ .eof ∧ startOK cs
  | .p c t => (∀ rest, lexOne (c :: rest) = .ok (t, rest)) ∧ t ≠ .eof ∧ c.toNat ≠ 0
  | .blank c => charClass c = .blank
  | .comment body => ∀ c ∈ body, c.toNat ≠ 10 ∧ c.toNat ≠ 0 ∧ c.toNat ≠ 255

/-- the piece begins with a delimiter character -/
def LT.isDelimStart : LT → Bool
  | .p c _ => isDelim c
  | .blank c => isDelim c
  | _ => false

def startsDelim : List LT → Bool
  | [] => false
  | e :: _ => e.isDelimStart

/-- every word is followed by a piece that starts with a delimiter; blanks do not end the text -/
def okLT : List LT → Bool
  | [] => true
  | .word _ _ :: rest => startsDelim rest && okLT rest
  | .blank _ :: rest => !rest.isEmpty && okLT rest
  | _ :: rest => okLT rest

theorem flatten_cons (e : LT) (l : List LT) : flatten (e :: l) = e.chars ++ flatten l := by
  simp [flatten]

theorem toks_cons (e : LT) (l : List LT) : toks (e :: l) = e.toks ++ toks l := by
  simp [toks]

theorem flatten_append (a b : List LT) : flatten (a ++ b) = flatten a ++ flatten b := by
  simp [flatten]

theorem toks_append (a b : List LT) : toks (a ++ b) = toks a ++ toks b := by
  simp [toks]

theorem startsDelim_flatten {l : List LT} (h : startsDelim l = true) :
    ∃ d r, flatten l = d :: r ∧ isDelim d = true := by
  cases l with
  | nil => simp [startsDelim] at h
  | cons e rest =>
    cases e <;> simp [startsDelim, LT.isDelimStart] at h
    · exact ⟨_, flatten rest, by simp [flatten_cons, LT.chars], h⟩
    · exact ⟨_, flatten rest, by simp [flatten_cons, LT.chars], h⟩

theorem startOK_not_atEnd {cs : Str} (h : startOK cs) (r : List Char) : atEnd (cs ++ r) = false := by
  cases cs with
  | nil => exact absurd h (by simp [startOK])
  | cons c cs => simp only [startOK] at h; simp [atEnd, h]

theorem valid_not_atEnd {e : LT} (h : ValidLT e) (r : List Char) : atEnd (e.chars ++ r) = false := by
  cases e with
  | word cs t => exact startOK_not_atEnd h.2.2 r
  | lit cs t => exact startOK_not_atEnd h.2.2 r
  | p c t => simp [LT.chars, atEnd, h.2.2]
  | blank c =>
    simp only [LT.chars, List.singleton_append, atEnd]
    cases hh : decide (c.toNat = 0)
    · rfl
    · simp only [decide_eq_true_eq] at hh
      simp only [ValidLT] at h
      rw [charClass_nul.mpr hh] at h; cases h
  | comment body => simp [LT.chars, atEnd]

theorem skipComment_body (body : Str) (h : ∀ c ∈ body, c.toNat ≠ 10 ∧ c.toNat ≠ 0 ∧ c.toNat ≠ 255)
    (r : List Char) : skipComment (body ++ '\n' :: r) = r := by
  induction body with
  | nil => simp [skipComment]
  | cons c cs ih =>
    obtain ⟨h10, h0, h255⟩ := h c (List.mem_cons_self)
    have hnl : c ≠ '\n' := by intro e; subst e; simp at h10
    simp only [List.cons_append, skipComment, hnl, h0, h255, if_false]
    exact ih (fun x hx => h x (List.mem_cons_of_mem _ hx))

theorem map_ok {α β} (f : α → β) (x : α) : (Except.ok x : Except Err α).map f = .ok (f x) := rfl

/-- **the lexer reads a written text back as the expected token stream** -/
theorem lexAll_flatten (l : List LT) (hv : ∀ e ∈ l, ValidLT e) (hok : okLT l = true) :
    lexAll (flatten l) = .ok (toks l) := by
  induction l with
  | nil => simpa [flatten, toks] using lexAll_nil
  | cons e rest ih =>
    have hve := hv e (List.mem_cons_self)
    have hvr : ∀ x ∈ rest, ValidLT x := fun x hx => hv x (List.mem_cons_of_mem _ hx)
    rw [flatten_cons, toks_cons]
    cases e with
    | word cs t =>
      simp only [okLT, Bool.and_eq_true] at hok
      obtain ⟨d, r, hfl, hd⟩ := startsDelim_flatten hok.1
      have h1 := hve.1 d r hd
      simp only [LT.chars, LT.toks]
      rw [hfl, lexAll_step h1 hve.2.1, ← hfl, ih hvr hok.2]
      rfl
    | lit cs t =>
      simp only [okLT] at hok
      have h1 := hve.1 (flatten rest)
      simp only [LT.chars, LT.toks]
      rw [lexAll_step h1 hve.2.1, ih hvr hok]
      rfl
    | p c t =>
      simp only [okLT] at hok
      have h1 := hve.1 (flatten rest)
      simp only [LT.chars, LT.toks, List.singleton_append]
      rw [lexAll_step h1 hve.2.1, ih hvr hok]
      rfl
    | blank c =>
      simp only [okLT, Bool.and_eq_true, Bool.not_eq_true', List.isEmpty_eq_false_iff] at hok
      simp only [LT.chars, LT.toks, List.singleton_append, List.nil_append]
      have hne : atEnd (flatten rest) = false := by
        cases rest with
        | nil => exact absurd rfl hok.1
        | cons e2 r2 =>
          rw [flatten_cons]
          exact valid_not_atEnd (hvr e2 (List.mem_cons_self)) _
      rw [lexAll_blank hve hne, ih hvr hok.2]
    | comment body =>
      simp only [okLT] at hok
      have hh : charClass '#' = .hash := by decide
      have h1 : lexOne ('#' :: (body ++ '\n' :: flatten rest)) = .ok (.nl, flatten rest) := by
        simp [lexOne, hh, skipComment_body body hve]
      simp only [LT.chars, LT.toks, List.cons_append, List.append_assoc, List.singleton_append, List.nil_append]
      rw [lexAll_step h1 (by decide), ih hvr hok]
      rfl

end TextIO
