import MirVerif.Lemmas.TextIOLexInt
/-! # C10 — hexadecimal integers (`0x%lx`, the spelling of `p` data elements) are read back -/
namespace TextIO

theorem natHex_lt16 {n : Nat} (h : n < 16) : natHex n = [hexDigit n] := by
  rw [natHex]; simp [h]

theorem natHex_ge16 {n : Nat} (h : ¬ n < 16) : natHex n = natHex (n / 16) ++ [hexDigit (n % 16)] := by
  rw [natHex]; simp [h]

theorem hexDigit_toNat (n : Nat) :
    (hexDigit n).toNat = if n % 16 < 10 then 48 + n % 16 else 87 + n % 16 := by
  unfold hexDigit
  split
  · exact toNat_ofNat_small (by omega)
  · exact toNat_ofNat_small (by omega)

theorem isXDigit_iff {c : Char} : isXDigit c = true ↔
    (48 ≤ c.toNat ∧ c.toNat ≤ 57) ∨ (65 ≤ c.toNat ∧ c.toNat ≤ 70) ∨ (97 ≤ c.toNat ∧ c.toNat ≤ 102) := by
  simp [isXDigit, isDigit, isHexAlpha]

theorem isXDigit_hexDigit (n : Nat) : isXDigit (hexDigit n) = true := by
  rw [isXDigit_iff, hexDigit_toNat]; split <;> omega

theorem digitValue_hexDigit (n : Nat) : digitValue (hexDigit n) = n % 16 := by
  have ht := hexDigit_toNat n
  unfold digitValue isDigit
  by_cases h10 : n % 16 < 10
  · rw [if_pos h10] at ht
    have : (decide (48 ≤ (hexDigit n).toNat) && decide ((hexDigit n).toNat ≤ 57)) = true := by
      simp; omega
    rw [if_pos this]; omega
  · rw [if_neg h10] at ht
    have : ¬ ((decide (48 ≤ (hexDigit n).toNat) && decide ((hexDigit n).toNat ≤ 57)) = true) := by
      simp; omega
    rw [if_neg this, if_pos (by omega)]; omega

theorem natHex_all (n : Nat) : ∀ c ∈ natHex n, isXDigit c = true := by
  induction n using Nat.strongRecOn with
  | _ n ih =>
    by_cases h : n < 16
    · rw [natHex_lt16 h]; intro c hc; simp at hc; subst hc; exact isXDigit_hexDigit n
    · rw [natHex_ge16 h]
      intro c hc
      simp only [List.mem_append, List.mem_singleton] at hc
      rcases hc with hc | hc
      · exact ih (n / 16) (by omega) c hc
      · subst hc; exact isXDigit_hexDigit _

theorem accDigits_natHex (n : Nat) : accDigits 16 (natHex n) 0 = n := by
  induction n using Nat.strongRecOn with
  | _ n ih =>
    by_cases h : n < 16
    · rw [natHex_lt16 h]; simp [accDigits, digitValue_hexDigit]; omega
    · rw [natHex_ge16 h, accDigits_append, ih (n / 16) (by omega)]
      simp [accDigits, digitValue_hexDigit]; omega

theorem natHex_head (n : Nat) : ∃ c t, natHex n = c :: t := by
  by_cases h : n < 16
  · exact ⟨_, [], natHex_lt16 h⟩
  · induction n using Nat.strongRecOn with
    | _ n ih =>
      rw [natHex_ge16 h]
      by_cases h2 : n / 16 < 16
      · rw [natHex_lt16 h2]; exact ⟨_, _, rfl⟩
      · obtain ⟨c, t, hc⟩ := ih (n / 16) (by omega) h2
        rw [hc]; exact ⟨c, t ++ _, rfl⟩

/-- the digit loop in base 16 over a run of hexadecimal digits -/
theorem numLoop_hexrun (ch : Char) (hch : ch ≠ '_') (tl : List Char)
    (htl : ∀ c ∈ tl, isXDigit c = true) (d : Char)
    (hd : d.toNat ≠ 0 ∧ d.toNat ≠ 255 ∧ d.toNat ≠ 95 ∧ isDigit d = false ∧ isHexAlpha d = false) (rest : List Char) :
    (numLoop true ch (tl ++ d :: rest)).1 = ch :: tl ∧
    (numLoop true ch (tl ++ d :: rest)).2.2 = (some d, rest) := by
  have hpush : pushUnlessUnderscore ch = [ch] := by simp [pushUnlessUnderscore, hch]
  induction tl generalizing ch with
  | nil =>
    obtain ⟨h0, h255, h95, hdig, hhex⟩ := hd
    have hne : d ≠ '_' := by intro h; subst h; simp at h95
    simp [numLoop, h0, h255, hne, hdig, hhex, hpush]
  | cons c cs ih =>
    have hc := htl c (List.mem_cons_self)
    have hcd := isXDigit_iff.mp hc
    have hne : c ≠ '_' := by intro h; subst h; simp at hcd
    have := ih c hne (fun x hx => htl x (List.mem_cons_of_mem _ hx)) (by simp [pushUnlessUnderscore, hne])
    have h0 : c.toNat ≠ 0 := by omega
    have h255 : c.toNat ≠ 255 := by omega
    have hstop : (c ≠ '_' && !isDigit c && !(true && isHexAlpha c)) = false := by
      simp only [isXDigit, Bool.or_eq_true] at hc
      rcases hc with hc | hc <;> simp [hc]
    simp only [List.cons_append, numLoop, h0, h255, if_false, hstop, hpush]
    simp only [Bool.false_eq_true, if_false]
    refine ⟨by rw [this.1]; rfl, ?_⟩
    have e := this.2
    rw [Prod.ext_iff] at e
    simp only at e
    simp only [e.1, e.2]

theorem delim_stops_hex {d : Char} (h : isDelim d = true) :
    d.toNat ≠ 0 ∧ d.toNat ≠ 255 ∧ d.toNat ≠ 95 ∧ isDigit d = false ∧ isHexAlpha d = false := by
  have := isDelim_cases h
  have h1 := delim_stops_number h
  refine ⟨h1.1, h1.2.1, h1.2.2.1, h1.2.2.2, ?_⟩
  cases hh : isHexAlpha d
  · rfl
  · simp [isHexAlpha] at hh; omega

theorem strtoul_hex {c : Char} {tl : List Char} (hall : ∀ x ∈ c :: tl, isXDigit x = true) :
    strtoul (c :: tl) 16 =
      if accDigits 16 (c :: tl) 0 ≥ 2 ^ 64 then BitVec.ofNat 64 (2 ^ 64 - 1)
      else BitVec.ofNat 64 (accDigits 16 (c :: tl) 0) := by
  have hc := isXDigit_iff.mp (hall c (List.mem_cons_self))
  have hm : c ≠ '-' := by intro h; subst h; simp at hc
  have hp : c ≠ '+' := by intro h; subst h; simp at hc
  have hs : strtoulSign (c :: tl) = (false, c :: tl) := by
    unfold strtoulSign
    split
    · rename_i t heq; injection heq with h1 h2; exact absurd h1 hm
    · rename_i t heq; injection heq with h1 h2; exact absurd h1 hp
    · rfl
  have hv : ∀ x ∈ c :: tl, validDigit 16 x = true := by
    intro x hx
    have hxd := hall x hx
    have hr := isXDigit_iff.mp hxd
    have hval : digitValue x < 16 := by
      unfold digitValue isDigit
      by_cases h1 : (decide (48 ≤ x.toNat) && decide (x.toNat ≤ 57)) = true
      · rw [if_pos h1]; simp at h1; omega
      · rw [if_neg h1]; simp at h1
        by_cases h2 : 97 ≤ x.toNat
        · rw [if_pos h2]; omega
        · rw [if_neg h2]; omega
    simp [validDigit, hxd, hval]
  simp only [strtoul, hs, takeWhile_all _ _ hv, Bool.false_eq_true, if_false]

/-- `0x` followed by the hexadecimal digits of a number below 2^64 -/
theorem wordOK_hex {n : Nat} (hn : n < 2 ^ 64) : WordOK ('0' :: 'x' :: natHex n) (.int (BitVec.ofNat 64 n)) := by
  intro d rest hd
  obtain ⟨c, tl, hc⟩ := natHex_head n
  have hall := natHex_all n
  rw [hc] at hall
  have hcx := hall c (List.mem_cons_self)
  have hcd := isXDigit_iff.mp hcx
  have htl : ∀ x ∈ tl, isXDigit x = true := fun x hx => hall x (List.mem_cons_of_mem _ hx)
  have hne : c ≠ '_' := by intro h; subst h; simp at hcd
  rw [hc]
  have h0 : charClass '0' = .digit := charClass_digit (by decide)
  simp only [List.cons_append, lexOne, h0]
  have hgx : getc ('x' :: c :: (tl ++ d :: rest)) = (some 'x', c :: (tl ++ d :: rest)) := getc_of_ok (by decide) _
  have hgc : getc (c :: (tl ++ d :: rest)) = (some c, tl ++ d :: rest) := getc_of_ok ⟨by omega, by omega⟩ _
  have hpre : stagePrefix '0' ('x' :: c :: (tl ++ d :: rest)) = .ok ([], 16, c, tl ++ d :: rest) := by
    simp [stagePrefix, hgx, hgc, hcx]
  have hnl := numLoop_hexrun c hne tl htl d (delim_stops_hex hd) rest
  have e := hnl.2
  rw [Prod.ext_iff] at e
  simp only at e
  have hsn : scanNumber '0' ('x' :: c :: (tl ++ d :: rest)) = .ok ⟨c :: tl, 16, false, false, false, d :: rest⟩ := by
    simp only [scanNumber, hpre, beq_self_eq_true, hnl.1, e.1, e.2, List.nil_append, stages_int 16 (c :: tl) hd rest]
  rw [lexNumber_int hsn rfl rfl rfl]
  have hacc : accDigits 16 (c :: tl) 0 = n := by rw [← hc]; exact accDigits_natHex n
  simp only [strtoul_hex hall, hacc]
  have : ¬ n ≥ 2 ^ 64 := by omega
  simp [this]

end TextIO
