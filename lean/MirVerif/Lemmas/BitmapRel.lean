import MirVerif.Lemmas.Bitmap
/-! `bitmap_copy`, `bitmap_equal_p`, `bitmap_intersect_p`, `bitmap_empty_p`. -/
namespace MirVerif.Bitmap

theorem copy_eq (dst src : Bm) : copy dst src = src := by
  unfold copy
  have : (if dst.length ≥ src.length then dst.take src.length
          else expand dst (src.length * 64)).length = src.length := by
    split
    · simp; omega
    · simp; omega
  show src ++ List.drop src.length (if dst.length ≥ src.length then dst.take src.length
          else expand dst (src.length * 64)) = src
  rw [List.drop_of_length_le (by omega)]
  simp

/-- prefix comparison + zero tail, for `s` not longer than `l` -/
theorem prefix_eq_iff : ∀ (s l : Bm), s.length ≤ l.length →
    (((l.take s.length == s) && (l.drop s.length).all (· == 0#64)) = true ↔
      ∀ k, wget s k = wget l k)
  | [], l, _ => by
    simp only [List.length_nil, List.take_zero, List.drop_zero, wget_nil]
    rw [show (([] : Bm) == []) = true from rfl, Bool.true_and, all_zero_iff]
    exact ⟨fun h k => (h k).symm, fun h k => (h k).symm⟩
  | x :: s, [], h => by simp at h
  | x :: s, y :: l, h => by
    have ih := prefix_eq_iff s l (by simpa using h)
    simp only [List.length_cons, List.take_succ_cons, List.drop_succ_cons]
    rw [show ((y :: l.take s.length) == (x :: s)) = ((y == x) && (l.take s.length == s)) from rfl,
      Bool.and_assoc, Bool.and_eq_true, ih]
    constructor
    · rintro ⟨h1, h2⟩ k
      cases k with
      | zero => simpa using (beq_iff_eq.1 h1).symm
      | succ k => simpa using h2 k
    · intro hk
      exact ⟨by simpa using (hk 0).symm, fun k => by simpa using hk (k + 1)⟩

theorem equalP_iff (a b : Bm) : equalP a b = true ↔ ∀ i, mem a i = mem b i := by
  rw [mem_ext_iff]
  unfold equalP
  by_cases h : a.length > b.length
  · simp only [h, if_true]
    rw [prefix_eq_iff b a (by omega)]
    exact ⟨fun h k => (h k).symm, fun h k => (h k).symm⟩
  · simp only [h, if_false]
    exact prefix_eq_iff a b (by omega)

theorem word_and_ne_zero_iff (x y : Word) :
    (x &&& y) ≠ 0#64 ↔ ∃ j, j < 64 ∧ x.getLsbD j = true ∧ y.getLsbD j = true := by
  rw [word_ne_zero_iff]
  simp [BitVec.getLsbD_and]

theorem intersectP_iff : ∀ (a b : Bm),
    intersectP a b = true ↔ ∃ i, mem a i = true ∧ mem b i = true
  | [], b => by simp [intersectP]
  | a, [] => by simp [intersectP]
  | x :: a, y :: b => by
    have ih := intersectP_iff a b
    unfold intersectP at ih ⊢
    simp only [List.zipWith_cons_cons, List.any_cons, Bool.or_eq_true, bne_iff_ne, ne_eq]
    rw [ih, ← ne_eq, word_and_ne_zero_iff]
    constructor
    · rintro (⟨j, hj, h1, h2⟩ | ⟨i, h1, h2⟩)
      · exact ⟨j, by rw [mem_cons_lt _ _ _ hj]; exact h1, by rw [mem_cons_lt _ _ _ hj]; exact h2⟩
      · exact ⟨64 + i, by rw [mem_cons_add]; exact h1, by rw [mem_cons_add]; exact h2⟩
    · rintro ⟨i, h1, h2⟩
      by_cases hi : i < 64
      · rw [mem_cons_lt _ _ _ hi] at h1 h2
        exact Or.inl ⟨i, hi, h1, h2⟩
      · obtain ⟨k, rfl⟩ : ∃ k, i = 64 + k := ⟨i - 64, by omega⟩
        rw [mem_cons_add] at h1 h2
        exact Or.inr ⟨k, h1, h2⟩

theorem emptyP_iff (bm : Bm) : emptyP bm = true ↔ ∀ i, mem bm i = false := by
  unfold emptyP
  rw [all_zero_iff]
  have := mem_ext_iff bm []
  simp only [mem_nil, wget_nil] at this
  exact this.symm

end MirVerif.Bitmap
