import MirVerif.Model.Reduce
/-! Codec lemmas for C12: uint round trip and monotonicity in the input, little-endian words. -/
namespace MirVerif.Reduce

theorem uintRead_uintWrite (u : Nat) (tl : List UInt8) (h : u < 2 ^ 28) :
    uintRead (uintWrite u ++ tl) = some (u, tl) := by
  unfold uintWrite
  split
  · simp only [List.cons_append, List.nil_append, uintRead, UInt8.toNat_ofNat']
    rw [if_pos (by omega)]
    simp only [Option.some.injEq, Prod.mk.injEq, and_true]; omega
  · split
    · simp only [List.cons_append, List.nil_append, uintRead, UInt8.toNat_ofNat']
      rw [if_neg (by omega), if_pos (by omega)]
      simp only [Option.some.injEq, Prod.mk.injEq, and_true]; omega
    · split
      · simp only [List.cons_append, List.nil_append, uintRead, UInt8.toNat_ofNat']
        rw [if_neg (by omega), if_neg (by omega), if_pos (by omega)]
        simp only [Option.some.injEq, Prod.mk.injEq, and_true]; omega
      · simp only [List.cons_append, List.nil_append, uintRead, UInt8.toNat_ofNat']
        rw [if_neg (by omega), if_neg (by omega), if_neg (by omega), if_pos (by omega)]
        simp only [Option.some.injEq, Prod.mk.injEq, and_true]; omega

set_option maxRecDepth 4000 in
theorem uintRead_append {inp : List UInt8} {v : Nat} {r : List UInt8} (t : List UInt8)
    (h : uintRead inp = some (v, r)) : uintRead (inp ++ t) = some (v, r ++ t) := by
  match inp, h with
  | b :: r0, h =>
    simp only [uintRead, List.cons_append] at h ⊢
    split at h
    · rename_i h1; rw [if_pos h1]; cases h; rfl
    · rename_i h1; rw [if_neg h1]
      split at h
      · rename_i h2; rw [if_pos h2]
        match r0, h with
        | _ :: _, h => cases h; rfl
      · rename_i h2; rw [if_neg h2]
        split at h
        · rename_i h3; rw [if_pos h3]
          match r0, h with
          | _ :: _ :: _, h => cases h; rfl
        · rename_i h3; rw [if_neg h3]
          split at h
          · rename_i h4; rw [if_pos h4]
            match r0, h with
            | _ :: _ :: _ :: _, h => cases h; rfl
          · cases h

theorem uintWrite_ne_nil (u : Nat) : uintWrite u ≠ [] := by
  unfold uintWrite; repeat' split
  all_goals simp

@[simp] theorem leBytes_length (n v : Nat) : (leBytes n v).length = n := by
  induction n generalizing v with
  | zero => rfl
  | succ n ih => simp [leBytes, ih]

theorem leVal_leBytes (n v : Nat) : leVal (leBytes n v) = v % 256 ^ n := by
  induction n generalizing v with
  | zero => simp [leBytes, leVal, Nat.mod_one]
  | succ n ih =>
    have hb : (UInt8.ofNat (v % 256)).toNat = v % 256 := by rw [UInt8.toNat_ofNat']; omega
    simp only [leBytes, leVal, ih, hb]
    rw [Nat.pow_succ, Nat.mul_comm (256 ^ n) 256, Nat.mod_mul]

theorem leBytes_leVal (r : List UInt8) : leBytes r.length (leVal r) = r := by
  induction r with
  | nil => rfl
  | cons b r ih =>
    simp only [List.length_cons, leBytes, leVal]
    have hb := b.toNat_lt
    have h1 : (b.toNat + 256 * leVal r) % 256 = b.toNat := by omega
    have h2 : (b.toNat + 256 * leVal r) / 256 = leVal r := by omega
    rw [h1, h2, ih]
    simp

theorem leVal_leBytes_u64 (h : UInt64) : leVal (leBytes 8 h.toNat) = h.toNat := by
  rw [leVal_leBytes]
  have := h.toNat_lt
  exact Nat.mod_eq_of_lt (by simpa using this)

end MirVerif.Reduce
