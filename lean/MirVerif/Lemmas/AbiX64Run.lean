import MirVerif.Lemmas.AbiX64
/-! C05: hypotheses of the property theorems (`WellSizedArgs`, `NoBlk134`, `NoBlk234`, `LdAligned`)
and the list-level simulation lemmas they are assembled from. -/
namespace MirVerif.AbiX64

/-- every block kind is used with a size for which the kind has an ABI meaning -/
def WellSizedArgs (args : List ArgTy) : Prop := ∀ a ∈ args, a.WellSized

/-- no blk1/blk3/blk4 argument (the kinds that trigger the xmm-counter defect of the FFI path) -/
def NoBlk134 (args : List ArgTy) : Prop := ∀ a ∈ args, isBlk134 a = false

/-- no blk2/blk3/blk4 argument (the kinds whose xmm registers `%al` does not count) -/
def NoBlk234 (args : List ArgTy) : Prop := ∀ a ∈ args, isBlk234 a = false

/-- "every `long double` stack offset is already 16-aligned": along the psABI placement, whenever a
`long double` is placed the stack offset is a multiple of 16 -/
def LdAligned (args : List ArgTy) : Prop :=
  Along sysvStep (fun st a => a = .ld → st.sp % 16 = 0) St.init args

instance decAlong (Q : St → ArgTy → Prop) [∀ s a, Decidable (Q s a)] (step) :
    ∀ (args : List ArgTy) (s : St), Decidable (Along step Q s args)
  | [], _ => isTrue trivial
  | a :: as, s =>
    match ‹∀ s a, Decidable (Q s a)› s a, decAlong Q step as (step s a).1 with
    | isTrue h1, isTrue h2 => isTrue ⟨h1, h2⟩
    | isFalse h1, _ => isFalse fun h => h1 h.1
    | _, isFalse h2 => isFalse fun h => h2 h.2

instance (args : List ArgTy) : Decidable (LdAligned args) := by unfold LdAligned; infer_instance
instance (args : List ArgTy) : Decidable (WellSizedArgs args) := by unfold WellSizedArgs; infer_instance
instance (args : List ArgTy) : Decidable (NoBlk134 args) := by unfold NoBlk134; infer_instance
instance (args : List ArgTy) : Decidable (NoBlk234 args) := by unfold NoBlk234; infer_instance

/-! ## generic core: both code paths simulate the reference step for step -/

theorem rel_init : Rel St.init St.init := ⟨by decide, by decide⟩

theorem ff_run (cfg : Cfg) (args : List ArgTy) (hws : WellSizedArgs args)
    (hsk : cfg.ffBlkXmm = true ∨ NoBlk134 args) :
    (run (ffStep cfg) St.init args).2 = (run (refStep cfg.ldAlignFF) St.init args).2 ∧
    Rel (run (ffStep cfg) St.init args).1 (run (refStep cfg.ldAlignFF) St.init args).1 := by
  apply run_sim (ffStep cfg) (refStep cfg.ldAlignFF) Rel
    (fun _ a => a.WellSized ∧ (cfg.ffBlkXmm = true ∨ isBlk134 a = false))
  · intro c s a hr hq
    obtain ⟨rfl, h8⟩ := hr
    obtain ⟨h1, h2, h3⟩ := ff_step_sim cfg c a hq.1 hq.2 h8
    exact ⟨h1, h2, h3⟩
  · exact rel_init
  · apply along_of_forall
    intro a ha
    refine ⟨hws a ha, ?_⟩
    rcases hsk with h | h
    · exact Or.inl h
    · exact Or.inr (h a ha)

theorem gen_run (cfg : Cfg) (args : List ArgTy) (hws : WellSizedArgs args) :
    (run (genStep cfg) St.init args).2 = (run (refStep cfg.ldAlignGen) St.init args).2 ∧
    Rel (run (genStep cfg) St.init args).1 (run (refStep cfg.ldAlignGen) St.init args).1 := by
  apply run_sim (genStep cfg) (refStep cfg.ldAlignGen) Rel (fun _ a => a.WellSized)
  · intro c s a hr hq
    obtain ⟨rfl, h8⟩ := hr
    obtain ⟨h1, h2, h3⟩ := gen_step_sim cfg c a hq h8
    exact ⟨h1, h2, h3⟩
  · exact rel_init
  · exact along_of_forall _ _ _ _ hws

/-- the reference with unaligned `long double` coincides with the psABI on `LdAligned` lists -/
theorem ref_run (args : List ArgTy) (hld : LdAligned args) :
    (run (refStep false) St.init args).2 = (run sysvStep St.init args).2 ∧
    (run (refStep false) St.init args).1 = (run sysvStep St.init args).1 := by
  have := run_sim (refStep false) sysvStep (fun c s => c = s ∧ s.sp % 8 = 0)
    (fun st a => a = .ld → st.sp % 16 = 0)
    (by
      intro c s a hr hq
      obtain ⟨rfl, h8⟩ := hr
      obtain ⟨h1, h2⟩ := ref_step_false_true c a h8 hq
      exact ⟨by rw [h1]; rfl, by rw [h1]; rfl, h2⟩)
    args St.init St.init ⟨rfl, by decide⟩ hld
  exact ⟨this.1, this.2.1⟩

theorem placement_of_rel {c s : St} {l l' : List (List Loc)} (hl : l = l') (hr : Rel c s) :
    (⟨l, ffFrame c.sp - 8, min c.nx 8⟩ : Placement) = finish (s, l') ∧
    (⟨l, (c.sp + 15) / 16 * 16, min c.nx 8⟩ : Placement) = finish (s, l') := by
  obtain ⟨rfl, _⟩ := hr
  subst hl
  simp [finish, St.norm, ffFrame, roundUp]

end MirVerif.AbiX64
