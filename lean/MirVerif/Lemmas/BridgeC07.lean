import MirVerif.Model.CArith
import MirVerif.Model.SemTable
import MirVerif.Gen.C07_Funs
/-! Per-run bridge for C07: the functions regenerated from the CURRENT c2mir.c
(`integer_promotion`, `arithmetic_conversion`, `signed_integer_type_p`, `int_bit_size`,
`get_mir_type`, `get_mir_type_insn_code`, `get_compare_branch_code`) against the C11 rules and the
instruction C semantics calls for.  Everything here is a finite table, checked by the kernel. -/
namespace MirVerif.CArith
open MirVerif MirVerif.Gen.C07

/-- the `struct type` c2mir builds for each integer type -/
def IType.toCTy : IType → CTy
  | .bool => ⟨TM_BASIC, TP_BOOL, 0⟩ | .char => ⟨TM_BASIC, TP_CHAR, 0⟩
  | .schar => ⟨TM_BASIC, TP_SCHAR, 0⟩ | .uchar => ⟨TM_BASIC, TP_UCHAR, 0⟩
  | .short => ⟨TM_BASIC, TP_SHORT, 0⟩ | .ushort => ⟨TM_BASIC, TP_USHORT, 0⟩
  | .int => ⟨TM_BASIC, TP_INT, 0⟩ | .uint => ⟨TM_BASIC, TP_UINT, 0⟩
  | .long => ⟨TM_BASIC, TP_LONG, 0⟩ | .ulong => ⟨TM_BASIC, TP_ULONG, 0⟩
  | .llong => ⟨TM_BASIC, TP_LLONG, 0⟩ | .ullong => ⟨TM_BASIC, TP_ULLONG, 0⟩
  | .enumI => ⟨TM_ENUM, 0, TP_INT⟩ | .enumU => ⟨TM_ENUM, 0, TP_UINT⟩
  | .enumL => ⟨TM_ENUM, 0, TP_LONG⟩ | .enumUL => ⟨TM_ENUM, 0, TP_ULONG⟩

/-- reading back a basic result type (`mode = TM_BASIC`, only `bt` matters) -/
def ofCTy (c : CTy) : Option IType :=
  if c.mode = TM_BASIC then IType.all.find? (fun t => decide (t.toCTy.mode = TM_BASIC ∧ t.toCTy.bt = c.bt))
  else none

/-- node codes of the C operators that `get_mir_type_insn_code` is asked about -/
def nodesOf : BinOp → List Int
  | .add => [N_ADD, N_ADD_ASSIGN, N_INC, N_POST_INC]
  | .sub => [N_SUB, N_SUB_ASSIGN, N_DEC, N_POST_DEC]
  | .mul => [N_MUL, N_MUL_ASSIGN] | .div => [N_DIV, N_DIV_ASSIGN] | .mod => [N_MOD, N_MOD_ASSIGN]
  | .and => [N_AND, N_AND_ASSIGN] | .or => [N_OR, N_OR_ASSIGN] | .xor => [N_XOR, N_XOR_ASSIGN]
  | .lsh => [N_LSH, N_LSH_ASSIGN] | .rsh => [N_RSH, N_RSH_ASSIGN]
def nodeOfCmp : CmpOp → Int
  | .eq => N_EQ | .ne => N_NE | .lt => N_LT | .le => N_LE | .gt => N_GT | .ge => N_GE

def BinOp.all : List BinOp := [.add, .sub, .mul, .div, .mod, .and, .or, .xor, .lsh, .rsh]
def CmpOp.all : List CmpOp := [.eq, .ne, .lt, .le, .gt, .ge]
theorem BinOp.mem_all (o : BinOp) : o ∈ BinOp.all := by cases o <;> decide
theorem CmpOp.mem_all (c : CmpOp) : c ∈ CmpOp.all := by cases c <;> decide

/-- the types operators are carried out in: results of the promotions / usual conversions -/
def IType.arith : List IType := [.int, .uint, .long, .ulong, .llong, .ullong]

/-- MIR data type of an integer C type -/
def mirTypeOf (t : IType) : Int :=
  match t.width, t.signed with
  | 8, true => MIR_T_I8 | 8, false => MIR_T_U8 | 16, true => MIR_T_I16 | 16, false => MIR_T_U16
  | 32, true => MIR_T_I32 | 32, false => MIR_T_U32 | _, true => MIR_T_I64 | _, false => MIR_T_U64

theorem gen_signed_table :
    (IType.all.all fun t => decide ((signed_integer_type_p t.toCTy ≠ 0) = (t.signed = true))) = true := by
  decide +kernel
theorem gen_width_table :
    (IType.all.all fun t => decide (int_bit_size t.toCTy = (t.width : Int))) = true := by decide +kernel
theorem gen_mir_type_table :
    (IType.all.all fun t => decide (get_mir_type t.toCTy = mirTypeOf t)) = true := by decide +kernel

theorem gen_promotion_table :
    (IType.all.all fun t => ofCTy (integer_promotion t.toCTy) == some (promote t)) = true := by
  decide +kernel

theorem gen_usual_arith_table :
    (IType.all.all fun t1 => IType.all.all fun t2 =>
      match ofCTy (arithmetic_conversion t1.toCTy t2.toCTy) with
      | some r => decide (sameRepr r (usualArith t1 t2))
      | none => false) = true := by decide +kernel

/-- c2mir's answer is literally the C type (since /repo 584db93a; see `usual_arith_old_wrong`) -/
theorem gen_usual_arith_exact :
    (IType.all.all fun t1 => IType.all.all fun t2 =>
      ofCTy (arithmetic_conversion t1.toCTy t2.toCTy) == some (usualArith t1 t2)) = true := by
  decide +kernel

theorem gen_insn_table :
    (BinOp.all.all fun o => IType.arith.all fun t => (nodesOf o).all fun n =>
      insnName (get_mir_type_insn_code t.toCTy n) == some (opName (insnFor o t).1 (insnFor o t).2)) = true := by
  decide +kernel

theorem gen_cmp_table :
    (CmpOp.all.all fun c => IType.arith.all fun t =>
      insnName (get_mir_type_insn_code t.toCTy (nodeOfCmp c))
        == some (opName (cmpFor c t).1 (cmpFor c t).2)) = true := by
  decide +kernel

theorem gen_branch_table :
    (CmpOp.all.all fun c => IType.arith.all fun t =>
      insnName (get_compare_branch_code (get_mir_type_insn_code t.toCTy (nodeOfCmp c)))
        == some (brName (cmpFor c t).1 (cmpFor c t).2)) = true := by
  decide +kernel

/-- the expression type c2mir gives to a bit-field member of declared type `b` and width `w`
(check(), N_FIELD / N_DEREF_FIELD; the width tests and the replacement type are regenerated from
the source), as a basic type -/
def bfExprTy (b : IType) (w : Nat) : CTy :=
  if bf_narrow_p (w : Int) b.toCTy then ⟨TM_BASIC, bf_narrow_bt (w : Int) b.toCTy, 0⟩ else b.toCTy

/-- C11 6.3.1.1p2 for bit-fields of type int / unsigned int: after the integer promotions the
operand is an `int` if int can represent all values of the bit-field, else an `unsigned int` -/
def cBfPromote (b : IType) (w : Nat) : IType := if b.signed ∨ w ≤ 31 then .int else .uint

theorem gen_bf_promotion_std :
    ([IType.int, IType.uint].all fun b => (List.range 32).all fun k =>
      ofCTy (integer_promotion (bfExprTy b (k + 1))) == some (cBfPromote b (k + 1))) = true := by
  decide +kernel

/-- declared types wider than int (an extension): narrower than int -> int, wider than int -> the
declared type; at exactly 32 bits either the declared type or the value-range rule (gcc) -/
theorem gen_bf_promotion_wide :
    ([IType.long, IType.ulong, IType.llong, IType.ullong].all fun b => (List.range 64).all fun k =>
      let r := ofCTy (integer_promotion (bfExprTy b (k + 1)))
      if k + 1 ≤ 31 then r == some .int
      else if k + 1 = 32 then r == some b || r == some (cBfPromote b 32)
      else r == some b) = true := by
  decide +kernel

end MirVerif.CArith
