import MirVerif.Lemmas.BinIOStr
import MirVerif.Model.BinIOWF
/-!
# C11 lemmas, part 3: operands (`write_op` / `read_operand`)
-/
namespace BinIO

/-- all strings of a token list are in the table -/
def InTab (tab : List Str) (toks : List STok) : Prop :=
  ∀ t : STok, t ∈ toks → ∀ s : Str, strOf t = some s → s ∈ tab

theorem InTab.append_left {tab : List Str} {a b : List STok} (h : InTab tab (a ++ b)) : InTab tab a :=
  fun t ht s hs => h t (List.mem_append_left _ ht) s hs
theorem InTab.append_right {tab : List Str} {a b : List STok} (h : InTab tab (a ++ b)) : InTab tab b :=
  fun t ht s hs => h t (List.mem_append_right _ ht) s hs
theorem InTab.cons_tail {tab : List Str} {a : STok} {b : List STok} (h : InTab tab (a :: b)) : InTab tab b :=
  fun t ht s hs => h t (List.mem_cons_of_mem _ ht) s hs
theorem InTab.name_head {tab : List Str} {n : Name} {b : List STok} (h : InTab tab (.name n :: b)) :
    n ++ [0] ∈ tab := h _ List.mem_cons_self _ rfl
theorem InTab.reg_head {tab : List Str} {n : Name} {b : List STok} (h : InTab tab (.reg n :: b)) :
    n ++ [0] ∈ tab := h _ List.mem_cons_self _ rfl
theorem InTab.str_head {tab : List Str} {s : Str} {b : List STok} (h : InTab tab (.str s :: b)) :
    s ∈ tab := h _ List.mem_cons_self _ rfl
theorem InTab.of_subset {tab : List Str} {a b : List STok} (h : InTab tab b) (hs : ∀ t, t ∈ a → t ∈ b) :
    InTab tab a := fun t ht s hs' => h t (hs t ht) s hs'

theorem NameOK.ne_zero {n : Name} (h : NameOK n) : ∀ b : Nat, b ∈ n → b ≠ 0 := fun b hb => (h b hb).1

/-! ### memory operands -/

/-- `memTag` as a function of the four facts `write_op` tests -/
def memTagB (d b i a : Bool) : Nat :=
  (if a then 27 else 0)
  + (if d then (if b then (if i then 42 else 39) else (if i then 40 else 36))
     else if b then (if i then 41 else 37) else if i then 38 else 36)

theorem memTag_eq (m : Mem) :
    memTag m = memTagB (decide (m.disp ≠ 0)) m.base.isSome m.index.isSome
      (decide (m.alias ≠ [] ∨ m.nonalias ≠ [])) := by
  unfold memTag memTagB
  by_cases h1 : m.disp ≠ 0 <;> by_cases h2 : (m.alias ≠ [] ∨ m.nonalias ≠ []) <;>
    cases hb : m.base.isSome <;> cases hi : m.index.isSome <;> simp [h1, h2]

theorem memTagB_range (d b i a : Bool) :
    (36 ≤ memTagB d b i a ∧ memTagB d b i a ≤ 42) ∨ (63 ≤ memTagB d b i a ∧ memTagB d b i a ≤ 69) := by
  cases d <;> cases b <;> cases i <;> cases a <;> decide

theorem memHasDisp_tagB (d b i a : Bool) : memHasDisp (memTagB d b i a) = (d || (!b && !i)) := by
  cases d <;> cases b <;> cases i <;> cases a <;> decide
theorem memHasBase_tagB (d b i a : Bool) : memHasBase (memTagB d b i a) = b := by
  cases d <;> cases b <;> cases i <;> cases a <;> decide
theorem memHasIndex_tagB (d b i a : Bool) : memHasIndex (memTagB d b i a) = i := by
  cases d <;> cases b <;> cases i <;> cases a <;> decide
theorem memIsAlias_tagB (d b i a : Bool) : memIsAlias (memTagB d b i a) = a := by
  cases d <;> cases b <;> cases i <;> cases a <;> decide

theorem readDisp_enc (v : Nat) (rest : List Byte) (h : v < 2 ^ 64) :
    readDisp (writeInt v ++ rest) = .ok (v, rest) := by
  simp [readDisp, readToken_writeInt v rest h]

end BinIO

namespace BinIO

@[simp] theorem encTok_raw (tab : List Str) (b : Nat) : encTok tab (.raw b) = [b] := rfl
@[simp] theorem encTok_int (tab : List Str) (v : Nat) : encTok tab (.int v) = writeInt v := rfl
@[simp] theorem encTok_uint (tab : List Str) (v : Nat) : encTok tab (.uint v) = writeUint v := rfl
@[simp] theorem encTok_flt (tab : List Str) (v : Nat) : encTok tab (.flt v) = writeFloat v := rfl
@[simp] theorem encTok_dbl (tab : List Str) (v : Nat) : encTok tab (.dbl v) = writeDouble v := rfl
@[simp] theorem encTok_ldbl (tab : List Str) (v : Nat) : encTok tab (.ldbl v) = writeLdouble v := rfl
@[simp] theorem encTok_lab (tab : List Str) (v : Nat) : encTok tab (.lab v) = writeIdx Tag.lab1 v := rfl

theorem readOperand_mem (tab : List Str) (m : Mem) (rest : List Byte) (hw : MemOK m)
    (hin : InTab tab (toksMem m)) (hl : tab.length ≤ 2 ^ 32) :
    readOperand tab ((toksMem m).flatMap (encTok tab) ++ rest) = .ok (some (.mem m), rest) := by
  rcases m with ⟨ty, disp, base, index, al, nal⟩
  obtain ⟨hty, hdisp, hbase, hindex, hal, hnal⟩ := hw
  simp only at hty hdisp hbase hindex hal hnal
  have hty' := fun r => readType_type "wrong memory type" ty r hty
  have hB : ∀ b : Name, base = some b → ∀ r, readReg tab (encTok tab (.reg b) ++ r) = .ok (b, r) := by
    intro b hb r
    have h1 : b ++ [0] ∈ tab := hin (.reg b) (by simp [toksMem, hb]) _ rfl
    exact readReg_enc tab b r h1 hl (hbase b hb).ne_zero
  have hI : ∀ p : Name × Nat, index = some p →
      (∀ r, readReg tab (encTok tab (.reg p.1) ++ r) = .ok (p.1, r)) ∧ p.2 < 256 ∧ p.2 < 2 ^ 64 := by
    intro p hi
    have h1 : p.1 ++ [0] ∈ tab := hin (.reg p.1) (by simp [toksMem, hi]) _ rfl
    have := hindex p hi
    exact ⟨fun r => readReg_enc tab p.1 r h1 hl this.1.ne_zero, this.2, by omega⟩
  have hA : (al ≠ [] ∨ nal ≠ []) →
      (∀ msg r, readName tab msg (encTok tab (.name al) ++ r) = .ok (al, r))
      ∧ (∀ msg r, readName tab msg (encTok tab (.name nal) ++ r) = .ok (nal, r)) := by
    intro ha
    have h1 : al ++ [0] ∈ tab := hin (.name al) (by simp [toksMem, ha]) _ rfl
    have h2 : nal ++ [0] ∈ tab := hin (.name nal) (by simp [toksMem, ha]) _ rfl
    exact ⟨fun msg r => readName_enc tab msg al r h1 hl hal.ne_zero,
           fun msg r => readName_enc tab msg nal r h2 hl hnal.ne_zero⟩
  clear hin hbase hindex
  have r1 : (al ≠ [] ∨ nal ≠ []) → ∀ msg r, readName tab msg (encTok tab (.name al) ++ r) = .ok (al, r) :=
    fun h => (hA h).1
  have r2 : (al ≠ [] ∨ nal ≠ []) → ∀ msg r, readName tab msg (encTok tab (.name nal) ++ r) = .ok (nal, r) :=
    fun h => (hA h).2
  clear hA
  rcases base with _ | b
  · rcases index with _ | ⟨i, sc⟩
    · clear hB hI
      by_cases ha : (al ≠ [] ∨ nal ≠ []) <;> by_cases hd : disp = 0 <;>
      simp [toksMem, readOperand, operandOfTok, readMem, memTag, readToken, hty',
        memHasDisp, memHasBase, memHasIndex, memIsAlias, readDisp_enc, readUint_writeUint, *] <;>
      (try (first | omega | (simp_all; done)))
    · obtain ⟨hI1, hI2, hI3⟩ := hI (i, sc) rfl
      clear hB hI
      simp only at hI1 hI2 hI3
      by_cases ha : (al ≠ [] ∨ nal ≠ []) <;> by_cases hd : disp = 0 <;>
      simp [toksMem, readOperand, operandOfTok, readMem, memTag, readToken, hty',
        memHasDisp, memHasBase, memHasIndex, memIsAlias, readDisp_enc, readUint_writeUint, *] <;>
      (try (first | omega | (simp_all; done)))
  · have hB1 := hB b rfl
    rcases index with _ | ⟨i, sc⟩
    · clear hB hI
      by_cases ha : (al ≠ [] ∨ nal ≠ []) <;> by_cases hd : disp = 0 <;>
      simp [toksMem, readOperand, operandOfTok, readMem, memTag, readToken, hty',
        memHasDisp, memHasBase, memHasIndex, memIsAlias, readDisp_enc, readUint_writeUint, *] <;>
      (try (first | omega | (simp_all; done)))
    · obtain ⟨hI1, hI2, hI3⟩ := hI (i, sc) rfl
      clear hB hI
      simp only at hI1 hI2 hI3
      by_cases ha : (al ≠ [] ∨ nal ≠ []) <;> by_cases hd : disp = 0 <;>
      simp [toksMem, readOperand, operandOfTok, readMem, memTag, readToken, hty',
        memHasDisp, memHasBase, memHasIndex, memIsAlias, readDisp_enc, readUint_writeUint, *] <;>
      (try (first | omega | (simp_all; done)))

/-! ### all operands -/

theorem readOperand_enc (tab : List Str) (op : Op) (rest : List Byte) (hw : OpOK op)
    (hin : InTab tab (toksOp op)) (hl : tab.length ≤ 2 ^ 32) :
    readOperand tab ((toksOp op).flatMap (encTok tab) ++ rest) = .ok (some op, rest) := by
  cases op with
  | reg n =>
    have h1 : n ++ [0] ∈ tab := hin (.reg n) (by simp [toksOp]) _ rfl
    simp [toksOp, readOperand, operandOfTok, readToken_reg tab n _ h1 hl, toStr_idxOf tab _ h1,
      cstr_name n (NameOK.ne_zero hw)]
  | int v => simp [toksOp, readOperand, operandOfTok, readToken_writeInt v _ hw]
  | uint v => simp [toksOp, readOperand, operandOfTok, readToken_writeUint v _ hw]
  | flt v => simp [toksOp, readOperand, operandOfTok, readToken_writeFloat v _ hw]
  | dbl v => simp [toksOp, readOperand, operandOfTok, readToken_writeDouble v _ hw]
  | ldbl v => simp [toksOp, readOperand, operandOfTok, readToken_writeLdouble v _ hw]
  | ref n =>
    have h1 : n ++ [0] ∈ tab := hin (.name n) (by simp [toksOp]) _ rfl
    simp [toksOp, readOperand, operandOfTok, readToken_name tab n _ h1 hl, toStr_idxOf tab _ h1,
      cstr_name n (NameOK.ne_zero hw)]
  | str s =>
    have h1 : s ∈ tab := hin (.str s) (by simp [toksOp]) _ rfl
    simp [toksOp, readOperand, operandOfTok, readToken_str tab s _ h1 hl, toStr_idxOf tab _ h1]
  | label n => simp [toksOp, readOperand, operandOfTok, readToken_writeIdx_lab n _ hw]
  | mem m => exact readOperand_mem tab m rest hw hin hl

/-- every operand is encoded by at least one byte and never starts with EOI -/
theorem toksOp_ne_nil (op : Op) : toksOp op ≠ [] := by
  cases op <;> simp [toksOp, toksMem]

end BinIO
