import MirVerif.Lemmas.HtabUpdate
import MirVerif.Lemmas.HtabTerm
/-!
One `HTAB_DO` (with and without the rebuild branch), `HTAB_CLEAR` and `HTAB_CREATE` preserve the
invariant and act on the sequence of live elements exactly like the abstract map `Spec`.
`FullPeriod` (termination of the probing loop) is a hypothesis of this Mathlib-free file.
-/
namespace MirVerif.Htab

variable {α : Type}

/-- `WF` does not look at the collision counter -/
theorem wf_congr {hf : α → Nat} {eq : α → α → Bool} {t t' : Tab α} (hwf : WF hf eq t)
    (he : t'.entries = t.entries) (hels : t'.els = t.els) (hcap : t'.cap = t.cap)
    (hnum : t'.num = t.num) : WF hf eq t' := by
  have ent' : ∀ r, ent t' r = ent t r := by intro r; simp [ent, he]
  have hc : contents t' = contents t := by simp [contents, hels]
  constructor
  · rw [hcap]; exact hwf.cap_pow
  · rw [he, hcap]; exact hwf.ent_len
  · rw [hels, hcap]; exact hwf.els_le
  · rw [hnum, hc]; exact hwf.num_eq
  · rw [he, hels]; exact hwf.empties
  · intro p i h; rw [ent'] at h; rw [hels]; exact hwf.idx_ok p i h
  · intro p q i h1 h2; rw [ent'] at h1 h2; exact hwf.idx_inj p q i h1 h2
  · intro i e h1 h2; rw [hels] at h1
    obtain ⟨p, hp⟩ := hwf.has_slot i e h1 h2
    exact ⟨p, by rw [ent']; exact hp⟩
  · intro i e h1 h2; rw [hels] at h1; exact hwf.hash_ok i e h1 h2
  · intro i j ei ej h1 h2; rw [hels] at h1 h2; exact hwf.distinct i j ei ej h1 h2
  · intro p i e h1 h2
    rw [ent'] at h1; rw [hels] at h2; rw [he]
    obtain ⟨pre, post, h3, h4⟩ := hwf.reach p i e h1 h2
    exact ⟨pre, post, h3, fun q hq => by rw [ent']; exact h4 q hq⟩

/-- a table without elements whose entries are all empty is well formed -/
theorem wf_empty {hf : α → Nat} {eq : α → α → Bool} {t : Tab α} (hcap : ∃ k, 1 ≤ k ∧ t.cap = 2 ^ k)
    (he : t.entries = List.replicate (2 * t.cap) .empty) (hels : t.els = []) (hnum : t.num = 0) :
    WF hf eq t := by
  have hent := ent_replicate t _ he
  constructor
  · exact hcap
  · rw [he]; simp
  · rw [hels]; simp
  · rw [hnum]; simp [contents, hels]
  · rw [he, hels]; simp
  · intro p i h; rw [hent] at h; cases h
  · intro p q i h; rw [hent] at h; cases h
  · intro i e h; rw [hels] at h; simp at h
  · intro i e h; rw [hels] at h; simp at h
  · intro i j ei ej h; rw [hels] at h; simp at h
  · intro p i e h; rw [hent] at h; cases h

theorem found_find {hf : α → Nat} {eq : α → α → Bool} (laws : Laws hf eq) {t : Tab α}
    (hwf : WF hf eq t) {x : α} {i : Nat} {e : El α} (hi : t.els[i]? = some e)
    (hh : e.hash = hashOf hf x) (hx : eq e.el x = true) :
    (contents t).find? (fun y => eq y x) = some e.el := by
  have hl : e.hash ≠ 0 := by rw [hh]; exact hashOf_ne hf x
  have huniq : ∀ (j : Nat) (e' : El α), t.els[j]? = some e' → e'.hash ≠ 0 →
      (fun y => eq y x) e'.el = true → j = i := by
    intro j e' hj hl' hx'
    exact hwf.distinct j i e' e hj hi hl' hl (laws.trans _ _ _ hx' (laws.symm _ _ hx))
  exact (cont_unique (P := fun y => eq y x) hi hl hx huniq x x).1

/-- `HTAB_DO` without the rebuild branch refines the abstract map -/
theorem core_spec (fp : FullPeriod) {hf : α → Nat} {eq : α → α → Bool} (laws : Laws hf eq)
    {t : Tab α} (hwf : WF hf eq t) (x : α) (a : Action)
    (hroom : a = .insert ∨ a = .replace → t.els.length < t.cap) :
    ∀ t' o, core hf eq t x a = (t', o) →
      WF hf eq t' ∧ contents t' = (Spec.doOp eq (contents t) x a).1 ∧
      o = (Spec.doOp eq (contents t) x a).2 ∧ t'.cap = t.cap ∧
      t'.entries.length = t.entries.length ∧ t'.els.length ≤ t.els.length + 1 := by
  intro t' o hc
  unfold core at hc
  split at hc
  · -- found
    rename_i p i e c hres
    obtain ⟨hp, hi, hh, hx⟩ := lookup_found hres
    have hfind := found_find laws hwf hi hh hx
    cases a with
    | find =>
      simp only [Prod.mk.injEq] at hc
      obtain ⟨rfl, rfl⟩ := hc
      have hs : Spec.doOp eq (contents t) x Action.find = (contents t, ⟨true, some e.el, []⟩) := by
        simp only [Spec.doOp, hfind]
      rw [hs]
      exact ⟨wf_congr hwf rfl rfl rfl rfl, rfl, rfl, rfl, rfl, Nat.le_succ _⟩
    | insert =>
      simp only [Prod.mk.injEq] at hc
      obtain ⟨rfl, rfl⟩ := hc
      have hs : Spec.doOp eq (contents t) x Action.insert = (contents t, ⟨true, some e.el, []⟩) := by
        simp only [Spec.doOp, hfind]
      rw [hs]
      exact ⟨wf_congr hwf rfl rfl rfl rfl, rfl, rfl, rfl, rfl, Nat.le_succ _⟩
    | replace =>
      simp only [Prod.mk.injEq] at hc
      obtain ⟨rfl, rfl⟩ := hc
      obtain ⟨h1, h2, _⟩ := wf_replace laws hwf hp hi hh hx
        (t' := { addColl t c with els := (addColl t c).els.set i ⟨e.hash, x⟩ }) rfl rfl rfl rfl
      have hs : Spec.doOp eq (contents t) x Action.replace = (Spec.repl (fun y => eq y x) x (contents t), ⟨true, some x, [e.el]⟩) := by
        simp only [Spec.doOp, hfind]
      rw [hs]
      refine ⟨h1, h2, rfl, rfl, rfl, ?_⟩
      simp [addColl]
    | delete =>
      simp only [Prod.mk.injEq] at hc
      obtain ⟨rfl, rfl⟩ := hc
      obtain ⟨h1, h2, _⟩ := wf_delete laws hwf hp hi hh hx
        (t' := { addColl t c with entries := (addColl t c).entries.set p .deleted,
                                  els := (addColl t c).els.set i ⟨0, e.el⟩,
                                  num := (addColl t c).num - 1 }) rfl rfl rfl rfl
      have hs : Spec.doOp eq (contents t) x Action.delete = ((contents t).eraseP (fun y => eq y x), ⟨true, none, [e.el]⟩) := by
        simp only [Spec.doOp, hfind]
      rw [hs]
      refine ⟨h1, h2, rfl, rfl, ?_, ?_⟩ <;> simp [addColl]
  · -- absent
    rename_i p ld c hres
    have hnl := lookup_absent_no_live laws hwf hres
    have hfind : (contents t).find? (fun y => eq y x) = none := by
      rw [contents_eq]; exact cont_find_none hnl
    obtain ⟨hql, hqs, hpath⟩ := lookup_absent_slot hwf hres
    have hstore : a = .insert ∨ a = .replace →
        ∀ t'', t'' = ({ addColl t c with
            entries := (addColl t c).entries.set (ld.getD p) (.idx (addColl t c).els.length),
            els := (addColl t c).els ++ [⟨hashOf hf x, x⟩], num := (addColl t c).num + 1 } : Tab α) →
        WF hf eq t'' ∧ contents t'' = contents t ++ [x] ∧ t''.cap = t.cap ∧
          t''.entries.length = t.entries.length ∧ t''.els.length ≤ t.els.length + 1 := by
      intro ha t'' ht''
      obtain ⟨h1, h2⟩ := wf_store laws hwf (t' := t'') (hroom ha) hql hqs hpath hnl
        (by rw [ht'']; rfl) (by rw [ht'']; rfl) (by rw [ht'']; rfl) (by rw [ht'']; rfl)
      refine ⟨h1, h2, by rw [ht'']; rfl, ?_, ?_⟩ <;> rw [ht''] <;> simp [addColl]
    cases a with
    | find =>
      simp only [Prod.mk.injEq] at hc
      obtain ⟨rfl, rfl⟩ := hc
      have hs : Spec.doOp eq (contents t) x Action.find = (contents t, ⟨false, none, []⟩) := by
        simp only [Spec.doOp, hfind]
      rw [hs]
      exact ⟨wf_congr hwf rfl rfl rfl rfl, rfl, rfl, rfl, rfl, Nat.le_succ _⟩
    | delete =>
      simp only [Prod.mk.injEq] at hc
      obtain ⟨rfl, rfl⟩ := hc
      have hs : Spec.doOp eq (contents t) x Action.delete = (contents t, ⟨false, none, []⟩) := by
        simp only [Spec.doOp, hfind]
      rw [hs]
      exact ⟨wf_congr hwf rfl rfl rfl rfl, rfl, rfl, rfl, rfl, Nat.le_succ _⟩
    | insert =>
      simp only [Prod.mk.injEq] at hc
      obtain ⟨rfl, rfl⟩ := hc
      obtain ⟨h1, h2, h3, h4, h5⟩ := hstore (Or.inl rfl) _ rfl
      have hs : Spec.doOp eq (contents t) x Action.insert = (contents t ++ [x], ⟨false, some x, []⟩) := by
        simp only [Spec.doOp, hfind]
      rw [hs]
      exact ⟨h1, h2, rfl, h3, h4, h5⟩
    | replace =>
      simp only [Prod.mk.injEq] at hc
      obtain ⟨rfl, rfl⟩ := hc
      obtain ⟨h1, h2, h3, h4, h5⟩ := hstore (Or.inr rfl) _ rfl
      have hs : Spec.doOp eq (contents t) x Action.replace = (contents t ++ [x], ⟨false, some x, []⟩) := by
        simp only [Spec.doOp, hfind]
      rw [hs]
      exact ⟨h1, h2, rfl, h3, h4, h5⟩
  · -- noFuel
    rename_i hres
    exact absurd hres (lookup_ne_noFuel fp hwf x)

/-! ### the rebuild branch -/

/-- insert a list of elements one after the other -/
def insertAll (hf : α → Nat) (eq : α → α → Bool) (t : Tab α) (xs : List α) : Tab α :=
  xs.foldl (fun acc y => (core hf eq acc y .insert).1) t

theorem rebuild_eq (hf : α → Nat) (eq : α → α → Bool) (t : Tab α) :
    rebuild hf eq t =
      insertAll hf eq (fresh (2 * t.entries.length) (2 * t.cap) t.coll) (contents t) := by
  simp [rebuild, insertAll, contents, List.foldl_map]

theorem insertAll_spec (fp : FullPeriod) {hf : α → Nat} {eq : α → α → Bool} (laws : Laws hf eq) :
    ∀ (xs : List α) (t : Tab α), WF hf eq t → t.els.length + xs.length ≤ t.cap →
      xs.Pairwise (fun a b => eq a b = false) →
      (∀ y ∈ contents t, ∀ x ∈ xs, eq y x = false) →
      WF hf eq (insertAll hf eq t xs) ∧ contents (insertAll hf eq t xs) = contents t ++ xs ∧
      (insertAll hf eq t xs).cap = t.cap ∧
      (insertAll hf eq t xs).els.length ≤ t.els.length + xs.length := by
  intro xs
  induction xs with
  | nil => intro t hwf _ _ _; simp [insertAll, hwf]
  | cons y ys ih =>
    intro t hwf hlen hpw hcross
    have hlen' : t.els.length + (ys.length + 1) ≤ t.cap := by simpa using hlen
    obtain ⟨h1, h2, -, h4, -, h6⟩ :=
      core_spec fp laws hwf y .insert (fun _ => by omega)
        (core hf eq t y .insert).1 (core hf eq t y .insert).2 rfl
    have hfind : (contents t).find? (fun z => eq z y) = none := by
      rw [List.find?_eq_none]
      intro z hz
      simp [hcross z hz y (by simp)]
    simp only [Spec.doOp, hfind] at h2
    rw [List.pairwise_cons] at hpw
    have hcross' : ∀ z ∈ contents (core hf eq t y .insert).1, ∀ x ∈ ys, eq z x = false := by
      intro z hz x hx
      rw [h2, List.mem_append] at hz
      rcases hz with hz | hz
      · exact hcross z hz x (by simp [hx])
      · simp only [List.mem_singleton] at hz; subst hz; exact hpw.1 x hx
    obtain ⟨g1, g2, g3, g4⟩ := ih (core hf eq t y .insert).1 h1 (by rw [h4]; omega) hpw.2 hcross'
    have hfold : insertAll hf eq t (y :: ys) = insertAll hf eq (core hf eq t y .insert).1 ys := rfl
    rw [hfold]
    refine ⟨g1, ?_, by rw [g3, h4], ?_⟩
    · rw [g2, h2]; simp
    · simp only [List.length_cons]; omega

theorem rebuild_spec (fp : FullPeriod) {hf : α → Nat} {eq : α → α → Bool} (laws : Laws hf eq)
    {t : Tab α} (hwf : WF hf eq t) :
    WF hf eq (rebuild hf eq t) ∧ contents (rebuild hf eq t) = contents t ∧
      (rebuild hf eq t).els.length < (rebuild hf eq t).cap := by
  obtain ⟨k, hk, hc⟩ := hwf.cap_pow
  have hpos : 0 < 2 ^ k := Nat.pos_of_ne_zero (by simp)
  have hfw : WF hf eq (fresh (2 * t.entries.length) (2 * t.cap) t.coll : Tab α) := by
    apply wf_empty
    · exact ⟨k + 1, by omega, by simp [fresh, hc, Nat.pow_succ]; omega⟩
    · simp [fresh, hwf.ent_len]
    · rfl
    · rfl
  have hcl : (contents t).length ≤ t.els.length := by rw [contents_eq]; exact cont_length_le _
  have hle := hwf.els_le
  have hpw : (contents t).Pairwise (fun a b => eq a b = false) := by
    rw [contents_eq]; exact cont_pairwise hwf.distinct
  obtain ⟨g1, g2, g3, g4⟩ := insertAll_spec fp laws (contents t) _ hfw
    (by simp [fresh]; omega) hpw (by intro y hy; simp [contents, fresh] at hy)
  rw [rebuild_eq]
  refine ⟨g1, by rw [g2]; simp [contents, fresh], ?_⟩
  rw [g3]
  have : (fresh (2 * t.entries.length) (2 * t.cap) t.coll : Tab α).els.length = 0 := rfl
  have : (fresh (2 * t.entries.length) (2 * t.cap) t.coll : Tab α).cap = 2 * t.cap := rfl
  omega

/-! ### `HTAB_DO`, `HTAB_CLEAR`, `HTAB_CREATE` -/

theorem doOp_spec (fp : FullPeriod) {hf : α → Nat} {eq : α → α → Bool} (laws : Laws hf eq)
    {t : Tab α} (hwf : WF hf eq t) (x : α) (a : Action) :
    WF hf eq (doOp hf eq t x a).1 ∧
      contents (doOp hf eq t x a).1 = (Spec.doOp eq (contents t) x a).1 ∧
      (doOp hf eq t x a).2 = (Spec.doOp eq (contents t) x a).2 := by
  unfold doOp
  split
  · obtain ⟨g1, g2, g3⟩ := rebuild_spec fp laws hwf
    obtain ⟨h1, h2, h3, -⟩ := core_spec fp laws g1 x a (fun _ => g3)
      (core hf eq (rebuild hf eq t) x a).1 (core hf eq (rebuild hf eq t) x a).2 rfl
    rw [g2] at h2 h3
    exact ⟨h1, h2, h3⟩
  · rename_i hn
    have hle := hwf.els_le
    obtain ⟨h1, h2, h3, -⟩ := core_spec fp laws hwf x a
      (fun ha => by
        have : t.els.length ≠ t.cap := fun h => hn ⟨ha, h⟩
        omega) (core hf eq t x a).1 (core hf eq t x a).2 rfl
    exact ⟨h1, h2, h3⟩

theorem clear_spec {hf : α → Nat} {eq : α → α → Bool} {t : Tab α} (hwf : WF hf eq t) :
    WF hf eq (clear t).1 ∧ contents (clear t).1 = [] ∧ (clear t).2 = contents t := by
  refine ⟨?_, rfl, rfl⟩
  apply wf_empty
  · exact hwf.cap_pow
  · simp [clear, hwf.ent_len]
  · rfl
  · rfl

theorem sizeLoop_pow : ∀ (fuel k m : Nat), 1 ≤ k → ∃ k', 1 ≤ k' ∧ sizeLoop fuel (2 ^ k) m = 2 ^ k' := by
  intro fuel
  induction fuel with
  | zero => intro k m hk; exact ⟨k, hk, rfl⟩
  | succ n ih =>
    intro k m hk
    simp only [sizeLoop]
    split
    · have : 2 * 2 ^ k = 2 ^ (k + 1) := by rw [Nat.pow_succ]; omega
      rw [this]; exact ih (k + 1) m (by omega)
    · exact ⟨k, hk, rfl⟩

theorem create_spec {hf : α → Nat} {eq : α → α → Bool} (minSize : Nat) :
    WF hf eq (create minSize : Tab α) ∧ contents (create minSize : Tab α) = [] := by
  refine ⟨?_, rfl⟩
  apply wf_empty
  · exact sizeLoop_pow 30 1 minSize (Nat.le_refl 1)
  · rfl
  · rfl
  · rfl

/-! ### operation histories -/

theorem step_spec (fp : FullPeriod) {hf : α → Nat} {eq : α → α → Bool} (laws : Laws hf eq)
    {t : Tab α} (hwf : WF hf eq t) (o : Op α) :
    WF hf eq (step hf eq t o).1 ∧ contents (step hf eq t o).1 = (Spec.step eq (contents t) o).1 ∧
      (step hf eq t o).2 = (Spec.step eq (contents t) o).2 := by
  cases o with
  | act a x =>
    obtain ⟨h1, h2, h3⟩ := doOp_spec fp laws hwf x a
    refine ⟨h1, h2, ?_⟩
    simp only [step, Spec.step]
    rw [h3, h1.num_eq, h2]
  | clear =>
    obtain ⟨h1, h2, h3⟩ := clear_spec hwf
    refine ⟨h1, h2, ?_⟩
    simp only [step, Spec.step]
    rw [h3, h1.num_eq, h2]; rfl

theorem run_spec (fp : FullPeriod) {hf : α → Nat} {eq : α → α → Bool} (laws : Laws hf eq) :
    ∀ (ops : List (Op α)) (t : Tab α), WF hf eq t →
      WF hf eq (run hf eq t ops).1 ∧
      contents (run hf eq t ops).1 = (Spec.run eq (contents t) ops).1 ∧
      (run hf eq t ops).2 = (Spec.run eq (contents t) ops).2 := by
  intro ops
  induction ops with
  | nil => intro t hwf; exact ⟨hwf, rfl, rfl⟩
  | cons o os ih =>
    intro t hwf
    obtain ⟨h1, h2, h3⟩ := step_spec fp laws hwf o
    obtain ⟨g1, g2, g3⟩ := ih _ h1
    simp only [run, Spec.run]
    rw [h2] at g2 g3
    exact ⟨g1, g2, by rw [h3, g3]⟩

end MirVerif.Htab
