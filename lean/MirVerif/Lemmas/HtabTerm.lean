import MirVerif.Lemmas.HtabWF
/-!
Termination of the probing loop.  After the third probe `peterb` is zero (`htab_hash_t` has 32 bits,
`peterb >>= 11` three times), so from then on the probe sequence is exactly the linear congruential
generator `x ↦ (5 x + 1) mod 2^k`.  That generator has full period (`FullPeriod`, proved from Mathlib
in `Lemmas/Lcg.lean`); hence the first `size + 3` probes visit every slot, and because a
well-formed table always has an empty slot the loop ends before the fuel of the model runs out.

This file is Mathlib-free: `FullPeriod` is a hypothesis here.
-/
namespace MirVerif.Htab

variable {α : Type}

/-- the probe step once `peterb = 0` -/
def lcgStep (size x : Nat) : Nat := nextInd size x 0

def lcgIter (size : Nat) : Nat → Nat → Nat
  | 0, x => x
  | n + 1, x => lcgStep size (lcgIter size n x)

/-- `x ↦ (5x+1) mod 2^k` reaches every residue from every start within `2^k` steps -/
def FullPeriod : Prop :=
  ∀ k x t : Nat, x < 2 ^ k → t < 2 ^ k → ∃ n, n < 2 ^ k ∧ lcgIter (2 ^ k) n x = t

theorem lcgStep_eq_mod (k x : Nat) : lcgStep (2 ^ k) x = (5 * x + 1) % 2 ^ k := by
  simp [lcgStep, nextInd, Nat.and_two_pow_sub_one_eq_mod]

theorem lcgIter_succ' (size n x : Nat) :
    lcgIter size (n + 1) x = lcgIter size n (lcgStep size x) := by
  induction n with
  | zero => rfl
  | succ n ih => rw [lcgIter, ih]; rfl

theorem probeFrom_zero_mem (size : Nat) : ∀ n m x, m < n → lcgIter size m x ∈ probeFrom size n x 0 := by
  intro n
  induction n with
  | zero => intro m x h; omega
  | succ n ih =>
    intro m x hm
    cases m with
    | zero => simp [probeFrom, lcgIter]
    | succ m =>
      rw [lcgIter_succ']
      simp only [probeFrom, Nat.zero_div, List.mem_cons]
      exact Or.inr (ih m _ (by omega))

/-- every slot lies on every probe path -/
theorem path_covers (fp : FullPeriod) (k h p : Nat) (hh : h < 4294967296) (hp : p < 2 ^ k) :
    p ∈ path (2 ^ k) h := by
  have hpos : 0 < 2 ^ k := Nat.pos_of_ne_zero (by simp)
  have h0 : h / 2048 / 2048 / 2048 = 0 := by omega
  unfold path
  simp only [probeFrom, h0, List.mem_cons]
  obtain ⟨n, hn, hnp⟩ := fp k (nextInd (2 ^ k)
    (nextInd (2 ^ k) (nextInd (2 ^ k) (h &&& 2 ^ k - 1) (h / 2048)) (h / 2048 / 2048)) 0) p
    (nextInd_lt _ _ _ hpos) hp
  right; right; right
  rw [← hnp]
  exact probeFrom_zero_mem _ _ _ _ hn

/-- **termination**: under the invariant the probing loop finishes within its fuel -/
theorem lookup_ne_noFuel (fp : FullPeriod) {hf : α → Nat} {eq : α → α → Bool} {t : Tab α}
    (hwf : WF hf eq t) (x : α) : lookup hf eq t x ≠ .noFuel := by
  intro h
  rw [lookup_eq_scanL] at h
  have hne := scanL_noFuel h
  obtain ⟨p, hp, hpe⟩ := wf_has_empty hwf
  obtain ⟨k, _, hc⟩ := hwf.cap_pow
  have hlen : t.entries.length = 2 ^ (k + 1) := by rw [hwf.ent_len, hc, Nat.pow_succ]; omega
  rw [hlen] at hne hp
  exact hne p (path_covers fp (k + 1) _ p (hashOf_lt hf x) hp) hpe

end MirVerif.Htab
