import MirVerif.Lemmas.TextIOElabText
/-! # C10 — the normal form prints to the same text: `ltText (normText ms) = ltText ms` under `WF`
(the only condition used is that `uint` immediates are below 2^63) -/
namespace TextIO

theorem ltMem_norm (m : Mem) : ltMem (normMem m) = ltMem m := by
  unfold normMem
  split
  · rename_i h
    obtain ⟨ty, disp, base, index, scale, al, nal⟩ := m
    simp only at h
    subst h
    simp [ltMem]
  · rfl

theorem ltOp_norm {regs : List Str} {tab : List TabEnt} {c idx : Nat} {o : Op}
    (h : opOK regs tab c idx o = true) : ltOp (normOp o) = ltOp o := by
  cases o with
  | uint v =>
    simp only [opOK, Bool.and_eq_true, decide_eq_true_eq] at h
    simp [normOp, ltOp, ltI64, ltU64, printI64, printU64, h.2]
  | mem m => simp [normOp, ltOp, ltMem_norm]
  | _ => rfl

theorem ltOps_norm {regs : List Str} {tab : List TabEnt} {c : Nat} (ops : List Op) :
    ∀ idx, opsOK regs tab c ops idx = true → (ops.map normOp).map ltOp = ops.map ltOp := by
  induction ops with
  | nil => intro _ _; rfl
  | cons o os ih =>
    intro idx h
    simp only [opsOK, Bool.and_eq_true] at h
    simp only [List.map_cons, ltOp_norm h.1, ih _ h.2]

theorem ltFItem_norm {regs : List Str} {tab : List TabEnt} {i : FItem} (h : fitemOK regs tab i = true) :
    ltFItem (normFItem i) = ltFItem i := by
  cases i with
  | label l => rfl
  | insn c ops =>
    simp only [fitemOK, Bool.and_eq_true] at h
    have := ltOps_norm ops 0 h.2
    cases ops with
    | nil => rfl
    | cons o os =>
      simp only [normFItem, ltFItem, ltOps, List.map_cons] at this ⊢
      rw [this]

theorem ltVar_norm (v : Var) : ltVar (normVar v) = ltVar v := by
  unfold normVar
  split
  · rfl
  · rename_i h; simp [ltVar, h]

theorem ltProtoBody_norm (res : List Ty) (args : List Var) (va : Bool) :
    ltProtoBody res (args.map normVar) va = ltProtoBody res args va := by
  simp [ltProtoBody, List.map_map, Function.comp_def, ltVar_norm]

theorem ltFunc_norm {tab : List TabEnt} {f : Func} (h : funcOK tab f = true) : ltFunc (normFunc f) = ltFunc f := by
  simp only [funcOK, Bool.and_eq_true, List.all_eq_true] at h
  have gen : ∀ (b : List FItem), (∀ x ∈ b, fitemOK f.regNames tab x = true) →
      (b.map normFItem).flatMap ltFItem = b.flatMap ltFItem := by
    intro b
    induction b with
    | nil => intro _; rfl
    | cons x xs ih =>
      intro hb
      simp only [List.map_cons, List.flatMap_cons]
      rw [ltFItem_norm (hb x (List.mem_cons_self)), ih (fun y hy => hb y (List.mem_cons_of_mem _ hy))]
  have hbody := gen f.body h.1.2
  simp only [ltFunc, normFunc, ltProtoBody_norm, hbody, funcCommentBody, List.length_map]

theorem ofNat_mod (n v : Nat) : BitVec.ofNat n (v % 2 ^ n) = BitVec.ofNat n v := by
  apply BitVec.eq_of_toNat_eq
  simp [BitVec.toNat_ofNat]

theorem ltDataEl_mod (ty : Ty) (v : Nat) : ltDataEl ty (v % 2 ^ ty.bits) = ltDataEl ty v := by
  have h32 := ofNat_mod 32 v
  have h64 := ofNat_mod 64 v
  have h80 := ofNat_mod 80 v
  cases ty <;> simp [ltDataEl, Ty.bits, printSignedBits, sextBits, ltNat, ltFlt, ltDbl, ltLdbl, printFlt, printDbl,
    printLdbl, BitVec.toNat_ofNat] <;> simp_all

theorem ltItem_norm {w : WSt} {prev : List Item} {it : Item} (h : itemOK w prev it = true) :
    ltItem (normItem it) = ltItem it := by
  cases it with
  | data name ty els =>
    have h1 : (els.map (· % 2 ^ ty.bits)).map (fun v => [ltDataEl ty v]) = els.map (fun v => [ltDataEl ty v]) := by
      simp [List.map_map, Function.comp_def, ltDataEl_mod]
    have h2 : ltDataEnd ty (els.map (· % 2 ^ ty.bits)) = ltDataEnd ty els := by
      unfold ltDataEnd hasDataComment
      by_cases hu : ty = .u8
      · subst hu
        simp [Ty.bits, List.getLast?_map, List.map_map, Function.comp_def]
      · simp [hu]
    simp only [normItem, ltItem, h1, h2]
  | proto name res args va => simp [normItem, ltItem, ltProtoBody_norm]
  | func f =>
    unfold itemOK at h
    simp only [Bool.and_eq_true] at h
    cases hd : declare w.tab (.func f) with
    | none => simp [hd] at h
    | some tab' =>
      simp only [hd] at h
      simp only [normItem, ltItem]
      exact ltFunc_norm h.2
  | _ => rfl

theorem ltItems_norm (items : List Item) : ∀ (w : WSt) (prev : List Item), itemsOK w prev items = true →
    (items.map normItem).flatMap ltItem = items.flatMap ltItem := by
  induction items with
  | nil => intro _ _ _; rfl
  | cons it rest ih =>
    intro w prev h
    simp only [itemsOK, Bool.and_eq_true] at h
    simp only [List.map_cons, List.flatMap_cons, ltItem_norm h.1, ih _ _ h.2]

theorem ltText_norm (ms : List Module) : ∀ (k li : Nat), modulesOK k li ms = true →
    ltText (ms.map normModule) = ltText ms := by
  induction ms with
  | nil => intro _ _ _; rfl
  | cons m rest ih =>
    intro k li h
    simp only [modulesOK, Bool.and_eq_true] at h
    obtain ⟨⟨⟨_, hitems⟩, _⟩, hrest⟩ := h
    cases hc : canonLabels k k (moduleLabels m) with
    | none => simp [hc] at hrest
    | some k1 =>
      simp only [hc] at hrest
      have := ih _ _ hrest
      simp only [ltText] at this ⊢
      simp only [List.map_cons, List.flatMap_cons, this, ltModule, normModule, ltItems_norm m.items _ _ hitems]

end TextIO
