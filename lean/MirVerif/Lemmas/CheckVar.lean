import MirVerif.Lemmas.CheckStruct
/-! # C15 — ret / switch / call positions, overflow-branch adjacency, declarations -/
namespace MirVerif.Check
open MirVerif.Gen.C15

/-! ### documented classes of the variable-arity insns -/

/-- class of a value of MIR type `t` (results, arguments); block types are passed as addresses -/
def docTyPos (t : Ty) (out : Bool) : DocPos :=
  match tyClass t with
  | some c => .val c out
  | none => .anyVal

/-- MIR.md "MIR_RET insn": operand `i` corresponds to return type `i` of the function -/
def docRetPos (fn : Func) (i : Nat) : DocPos := docTyPos (fn.res.getD i .i64) false

/-- MIR.md "MIR switch insn": an integer value, then labels -/
def docSwitchPos (i : Nat) : DocPos := if i == 0 then .val .int false else .val .label false

/-- MIR.md "MIR_CALL insn": prototype, address, `N` outputs of the result types, the arguments of the
parameter types, then (vararg prototype only) anything -/
def docCallPos (pr : Proto) (i : Nat) : DocPos :=
  if i == 1 then .val .int false
  else if i < pr.res.length + 2 then docTyPos (pr.res.getD (i - 2) .i64) true
  else if i < pr.res.length + 2 + pr.args.length then
    docTyPos ((pr.args.getD (i - 2 - pr.res.length) (.i64, 0)).1) false
  else .anyVal

/-- result types a function or prototype may be created with -/
def resTyOk (t : Ty) : Bool := scalarTy t
/-- parameter types: scalars and the block types -/
def argTyOk (t : Ty) : Bool := scalarTy t || blkTy t

/-! ### finite position grids -/

theorem wrongType_iff_not_scalar : (Ty.all.all fun t => wrongType t == !scalarTy t) = true := by
  decide +kernel

theorem allBlk_iff_blkTy : (Ty.all.all fun t => allBlk t == blkTy t) = true := by decide +kernel

/-- a position expecting a value of type `t` (ret operand, call result/argument) -/
theorem typed_pos_grid :
    (Ty.all.all fun t => [false, true].all fun out => [false, true].all fun callp =>
      OpA.all.all fun o =>
        !(if callp then argTyOk t else resTyOk t) ||
        decide (finishOperandA ⟨.fixed (type2mode t), out, callp, false⟩ o
                = docOperandA (docTyPos t out) callp o)) = true := by decide +kernel

/-- a position expecting a fixed non-type mode: int (switch selector, call address), label, or
nothing in particular (extra arguments of a vararg call) -/
theorem moded_pos_grid :
    ([false, true].all fun callp => OpA.all.all fun o =>
        decide (finishOperandA ⟨.fixed OP_INT, false, callp, false⟩ o = docOperandA (.val .int false) callp o)
        && decide (finishOperandA ⟨.fixed OP_LABEL, false, callp, false⟩ o
                    = docOperandA (.val .label false) callp o)
        && decide (finishOperandA ⟨.fixed OP_UNDEF, false, callp, false⟩ o = docOperandA .anyVal callp o))
      = true := by decide +kernel

theorem typed_pos (t : Ty) (out callp : Bool) (o : OpS)
    (ht : (if callp then argTyOk t else resTyOk t) = true) :
    finishOperandAt ⟨.fixed (type2mode t), out, callp, false⟩ o = docOperand (docTyPos t out) callp o := by
  have h := Ty.forall_of_all typed_pos_grid t
  have h2 := List.all_eq_true.mp h out (by cases out <;> decide)
  have h3 := List.all_eq_true.mp h2 callp (by cases callp <;> decide)
  have h4 := OpA.forall_of_all h3 o.abs
  rw [ht] at h4
  simp only [Bool.not_true, Bool.false_or, decide_eq_true_eq] at h4
  simpa [finishOperandAt, docOperand, ← abs_agree] using h4

theorem moded_pos (callp : Bool) (o : OpS) :
    finishOperandAt ⟨.fixed OP_INT, false, callp, false⟩ o = docOperand (.val .int false) callp o
    ∧ finishOperandAt ⟨.fixed OP_LABEL, false, callp, false⟩ o = docOperand (.val .label false) callp o
    ∧ finishOperandAt ⟨.fixed OP_UNDEF, false, callp, false⟩ o = docOperand .anyVal callp o := by
  have h := List.all_eq_true.mp moded_pos_grid callp (by cases callp <;> decide)
  have h4 := OpA.forall_of_all h o.abs
  simp only [Bool.and_eq_true, decide_eq_true_eq] at h4
  obtain ⟨⟨ha, hb⟩, hc⟩ := h4
  simp only [finishOperandAt, docOperand, ← abs_agree]
  exact ⟨ha, hb, hc⟩

/-! ### ret -/

theorem finishPos_ret (asserts : Bool) (descs : Descs) (protos : List Proto) (fn : Func)
    (ops : List Operand) (i : Nat) (o : OpS) :
    finishPos asserts descs protos fn ⟨C_RET, ops⟩ i o
      = finishOperandAt (retPos (fn.res.getD i .i64)) o := by
  unfold finishPos
  have h1 : (C_RET == C_UNSPEC) = false := by decide
  have h2 : isCall C_RET = false := by decide
  have h3 : (C_RET == C_SWITCH) = false := by decide
  simp [h1, h2, h3]

theorem finishPos_switch (asserts : Bool) (descs : Descs) (protos : List Proto) (fn : Func)
    (ops : List Operand) (i : Nat) (o : OpS) :
    finishPos asserts descs protos fn ⟨C_SWITCH, ops⟩ i o = finishOperandAt (switchPos i) o := by
  unfold finishPos
  have h1 : (C_SWITCH == C_UNSPEC) = false := by decide
  have h2 : isCall C_SWITCH = false := by decide
  simp [h1, h2]

/-! ### overflow branches -/

/-- `mov x, reg`: the insns the backward scan of `MIR_finish_func` steps over -/
def isRegMove (p : Insn) : Bool := p.code == C_MOV && ((p.ops.getD 1 .int).s.mode == OP_REG)

theorem overflowProducer_spec (prevs : List Insn) (p : Insn) :
    overflowProducer prevs = some p ↔
      ∃ ms rest, prevs = ms ++ p :: rest ∧ (∀ m ∈ ms, isRegMove m = true) ∧ isRegMove p = false := by
  induction prevs with
  | nil => simp [overflowProducer]
  | cons q qs ih =>
    unfold overflowProducer
    by_cases hq : isRegMove q = true
    · have hq' : (q.code == C_MOV && ((q.ops.getD 1 .int).s.mode == OP_REG)) = true := hq
      rw [if_pos hq', ih]
      constructor
      · rintro ⟨ms, rest, rfl, hms, hp⟩
        exact ⟨q :: ms, rest, rfl, by
          intro m hm
          rcases List.mem_cons.mp hm with rfl | hm
          · exact hq
          · exact hms m hm, hp⟩
      · rintro ⟨ms, rest, he, hms, hp⟩
        cases ms with
        | nil =>
          simp at he
          obtain ⟨rfl, _⟩ := he
          rw [hq] at hp
          exact absurd hp (by decide)
        | cons m ms' =>
          simp at he
          obtain ⟨rfl, rfl⟩ := he
          exact ⟨ms', rest, rfl, fun m hm => hms m (List.mem_cons_of_mem _ hm), hp⟩
    · have hq' : ¬ (q.code == C_MOV && ((q.ops.getD 1 .int).s.mode == OP_REG)) = true := hq
      rw [if_neg hq']
      constructor
      · intro h
        have : q = p := by simpa using h
        subst this
        exact ⟨[], qs, rfl, by simp, by simpa using hq⟩
      · rintro ⟨ms, rest, he, hms, hp⟩
        cases ms with
        | nil =>
          simp at he
          obtain ⟨rfl, _⟩ := he
          rfl
        | cons m ms' =>
          simp at he
          obtain ⟨rfl, rfl⟩ := he
          exact absurd (hms q (List.mem_cons_self)) hq

theorem overflowProducer_none (prevs : List Insn) :
    overflowProducer prevs = none ↔ ∀ m ∈ prevs, isRegMove m = true := by
  induction prevs with
  | nil => simp [overflowProducer]
  | cons q qs ih =>
    unfold overflowProducer
    by_cases hq : isRegMove q = true
    · have hq' : (q.code == C_MOV && ((q.ops.getD 1 .int).s.mode == OP_REG)) = true := hq
      rw [if_pos hq', ih]
      simp [hq]
    · have hq' : ¬ (q.code == C_MOV && ((q.ops.getD 1 .int).s.mode == OP_REG)) = true := hq
      rw [if_neg hq']
      simp
      exact fun h => absurd h hq

/-- signedness compatibility of an overflow branch with the insn that set the flag -/
def flagCompatible (br prod : Nat) : Bool :=
  !(((br == C_UBO || br == C_UBNO) && (prod == C_MULO || prod == C_MULOS))
    || ((br == C_BO || br == C_BNO) && (prod == C_UMULO || prod == C_UMULOS)))

/-! ### declarations -/

theorem reservedName_lc (rest : List Char) : reservedName ('.' :: 'l' :: 'c' :: rest) = true := rfl

theorem reservedName_hr (rest : List Char) (h : rest.all isDigit = true) :
    reservedName ('h' :: 'r' :: rest) = true := by
  simp only [reservedName]
  exact h

end MirVerif.Check
