import MirVerif.Lemmas.Bitmap
/-! `bitmap_iterator_next` / `FOREACH_BITMAP_BIT`. -/
namespace MirVerif.Bitmap

theorem getLsbD_true_lt (w : Word) (j : Nat) (h : w.getLsbD j = true) : j < 64 := by
  apply Decidable.byContradiction; intro hc
  rw [BitVec.getLsbD_of_ge _ _ (Nat.le_of_not_lt hc)] at h
  exact Bool.false_ne_true h

theorem iterInner_some : ∀ (f : Nat) (el : Word) (nb m n' : Nat),
    iterInner f el nb = (some m, n') →
    n' = m + 1 ∧ nb ≤ m ∧ el.getLsbD (m - nb) = true ∧ ∀ j, j < m - nb → el.getLsbD j = false := by
  intro f
  induction f with
  | zero => intro el nb m n' h; simp [iterInner] at h
  | succ f ih =>
    intro el nb m n' h
    unfold iterInner at h
    by_cases h0 : el = 0#64
    · simp [h0] at h
    · simp only [h0, if_false, bit_eq] at h
      cases hb : el.getLsbD 0
      · simp only [hb, Bool.false_eq_true, if_false] at h
        obtain ⟨a, b, c, d⟩ := ih _ _ _ _ h
        refine ⟨a, by omega, ?_, ?_⟩
        · rw [BitVec.getLsbD_ushiftRight] at c
          rwa [show m - nb = 1 + (m - (nb + 1)) by omega]
        · intro j hj
          cases j with
          | zero => exact hb
          | succ k =>
            have := d k (by omega)
            rw [BitVec.getLsbD_ushiftRight] at this
            rwa [Nat.add_comm] at this
      · simp only [hb, if_true, Prod.mk.injEq, Option.some.injEq] at h
        obtain ⟨rfl, rfl⟩ := h
        refine ⟨rfl, Nat.le_refl _, by simpa using hb, ?_⟩
        intro j hj; omega

theorem iterInner_none : ∀ (f : Nat) (el : Word) (nb n' : Nat),
    iterInner f el nb = (none, n') → ∀ j, j < f → el.getLsbD j = false := by
  intro f
  induction f with
  | zero => intro el nb n' _ j hj; omega
  | succ f ih =>
    intro el nb n' h j hj
    unfold iterInner at h
    by_cases h0 : el = 0#64
    · subst h0; simp
    · simp only [h0, if_false, bit_eq] at h
      cases hb : el.getLsbD 0
      · simp only [hb, Bool.false_eq_true, if_false] at h
        cases j with
        | zero => exact hb
        | succ k =>
          have := ih _ _ _ h k (by omega)
          rw [BitVec.getLsbD_ushiftRight] at this
          rwa [Nat.add_comm] at this
      · simp [hb] at h

/-- no member in the rest of the current word -/
theorem no_mem_in_word (bm : Bm) (nel s : Nat) (hs : s < 64)
    (h : ∀ k, (wget bm nel).getLsbD (s + k) = false) :
    ∀ j, 64 * nel + s ≤ j → j < 64 * (nel + 1) → mem bm j = false := by
  intro j h1 h2
  have e1 : j / 64 = nel := by omega
  have e2 : j % 64 = s + (j - (64 * nel + s)) := by omega
  simp only [mem, e1, e2]
  exact h _

theorem iterOuter_spec (bm : Bm) : ∀ (f nel nbit : Nat), nbit / 64 = nel → bm.length ≤ f + nel →
    (∀ m n', iterOuter bm f nel nbit = (some m, n') →
        n' = m + 1 ∧ nbit ≤ m ∧ mem bm m = true ∧ ∀ j, nbit ≤ j → j < m → mem bm j = false) ∧
    (∀ n', iterOuter bm f nel nbit = (none, n') → ∀ j, nbit ≤ j → mem bm j = false) := by
  intro f
  induction f with
  | zero =>
    intro nel nbit h1 h2
    refine ⟨fun m n' h => by simp [iterOuter] at h, fun n' _ j hj => ?_⟩
    cases hm : mem bm j
    · rfl
    · have := mem_lt bm j hm; omega
  | succ f ih =>
    intro nel nbit h1 h2
    have hs : nbit % 64 < 64 := by omega
    have hnb : nbit = 64 * nel + nbit % 64 := by omega
    -- what the recursive call gives, combined with "nothing left in this word"
    have hrec : (∀ k, (wget bm nel).getLsbD (nbit % 64 + k) = false) →
        (∀ m n', iterOuter bm f (nel + 1) ((nel + 1) * 64) = (some m, n') →
          n' = m + 1 ∧ nbit ≤ m ∧ mem bm m = true ∧ ∀ j, nbit ≤ j → j < m → mem bm j = false) ∧
        (∀ n', iterOuter bm f (nel + 1) ((nel + 1) * 64) = (none, n') →
          ∀ j, nbit ≤ j → mem bm j = false) := by
      intro hz
      have hno := no_mem_in_word bm nel (nbit % 64) hs hz
      obtain ⟨i1, i2⟩ := ih (nel + 1) ((nel + 1) * 64) (by omega) (by omega)
      constructor
      · intro m n' h
        obtain ⟨a, b, c, d⟩ := i1 m n' h
        refine ⟨a, by omega, c, ?_⟩
        intro j hj1 hj2
        by_cases hlt : j < 64 * (nel + 1)
        · exact hno j (by omega) hlt
        · exact d j (by omega) hj2
      · intro n' h j hj
        by_cases hlt : j < 64 * (nel + 1)
        · exact hno j (by omega) hlt
        · exact i2 n' h j (by omega)
    unfold iterOuter
    by_cases hge : nel ≥ bm.length
    · simp only [hge, if_true]
      refine ⟨fun m n' h => by simp at h, fun n' _ j hj => ?_⟩
      cases hm : mem bm j
      · rfl
      · have := mem_lt bm j hm; omega
    · simp only [hge, if_false]
      by_cases h0 : wget bm nel = 0#64
      · simp only [h0, if_true]
        exact hrec (by intro k; rw [h0]; simp)
      · simp only [h0, if_false]
        cases hin : iterInner 64 (wget bm nel >>> (nbit % 64)) nbit with
        | mk o nb' =>
          cases o with
          | none =>
            simp only
            apply hrec
            intro k
            by_cases hk : k < 64
            · have := iterInner_none _ _ _ _ hin k hk
              rwa [BitVec.getLsbD_ushiftRight] at this
            · exact BitVec.getLsbD_of_ge _ _ (by omega)
          | some b =>
            simp only
            refine ⟨?_, fun n' h => by simp at h⟩
            intro m n' h
            simp only [Prod.mk.injEq, Option.some.injEq] at h
            obtain ⟨rfl, rfl⟩ := h
            obtain ⟨a, b1, c, d⟩ := iterInner_some _ _ _ _ _ hin
            rw [BitVec.getLsbD_ushiftRight] at c
            have hlt := getLsbD_true_lt _ _ c
            refine ⟨a, b1, ?_, ?_⟩
            · have e1 : b / 64 = nel := by omega
              have e2 : b % 64 = nbit % 64 + (b - nbit) := by omega
              simp only [mem, e1, e2]; exact c
            · intro j hj1 hj2
              have := d (j - nbit) (by omega)
              rw [BitVec.getLsbD_ushiftRight] at this
              have e1 : j / 64 = nel := by omega
              have e2 : j % 64 = nbit % 64 + (j - nbit) := by omega
              simp only [mem, e1, e2]; exact this

theorem iterNext_some (bm : Bm) (n m n' : Nat) (h : iterNext bm n = (some m, n')) :
    n' = m + 1 ∧ n ≤ m ∧ mem bm m = true ∧ ∀ j, n ≤ j → j < m → mem bm j = false :=
  (iterOuter_spec bm bm.length (n / 64) n rfl (by omega)).1 m n' h

theorem iterNext_none (bm : Bm) (n n' : Nat) (h : iterNext bm n = (none, n')) :
    ∀ j, n ≤ j → mem bm j = false :=
  (iterOuter_spec bm bm.length (n / 64) n rfl (by omega)).2 n' h

theorem iterAllLoop_spec (bm : Bm) : ∀ (f n : Nat), 64 * bm.length - n < f →
    iterAllLoop bm f n = (List.range' n (64 * bm.length - n)).filter (mem bm) := by
  intro f
  induction f with
  | zero => intro n h; omega
  | succ f ih =>
    intro n h
    unfold iterAllLoop
    cases hn : iterNext bm n with
    | mk o n' =>
      cases o with
      | none =>
        simp only
        symm
        rw [List.filter_eq_nil_iff]
        intro a ha
        rw [List.mem_range'_1] at ha
        rw [iterNext_none bm n n' hn a ha.1]
        exact Bool.false_ne_true
      | some m =>
        simp only
        obtain ⟨rfl, h1, h2, h3⟩ := iterNext_some bm n m n' hn
        have hm := mem_lt bm m h2
        rw [ih (m + 1) (by omega)]
        have e : 64 * bm.length - n = (m - n) + ((64 * bm.length - (m + 1)) + 1) := by omega
        rw [e, ← List.range'_append_1, List.filter_append,
          show n + (m - n) = m by omega, List.range'_succ, List.filter_cons_of_pos h2]
        have : (List.range' n (m - n)).filter (mem bm) = [] := by
          rw [List.filter_eq_nil_iff]
          intro a ha
          rw [List.mem_range'_1] at ha
          rw [h3 a ha.1 (by omega)]
          exact Bool.false_ne_true
        rw [this]; simp

/-- the iterator yields exactly the members, each once, in increasing order -/
theorem iterAll_eq (bm : Bm) : iterAll bm = members bm := by
  rw [iterAll, iterAllLoop_spec bm _ 0 (by omega), members, List.range_eq_range']
  simp

end MirVerif.Bitmap
