import MirVerif.Model.Thunk
/-! Helper lemmas for C03: little-endian byte round trips, the two explicit thunk layouts,
pointwise facts about `stepF`. -/
namespace MirVerif.Thunk

theorem ofLe_le32 (n : Nat) : ofLe (le32 n) = n % 4294967296 := by
  simp [le32, ofLe, BitVec.toNat_ofNat]
  omega

theorem ofLe_le64 (n : Nat) : ofLe (le64 n) = n % 18446744073709551616 := by
  simp [le64, le32, ofLe, BitVec.toNat_ofNat]
  omega

/-- a 64-bit value that fits in `int32_t` survives `(int32_t)` truncation + sign extension -/
theorem signExtend_setWidth_of_int32 (d : W64) (h1 : -2147483648 ≤ d.toInt) (h2 : d.toInt ≤ 2147483647) :
    (BitVec.ofNat 32 (d.toNat % 4294967296)).signExtend 64 = d := by
  apply BitVec.eq_of_toInt_eq
  rw [BitVec.toInt_signExtend]
  have hlt := d.isLt
  rw [BitVec.toInt_eq_toNat_cond] at h1 h2 ⊢
  rw [BitVec.toInt_eq_toNat_cond]
  simp only [BitVec.toNat_ofNat, Int.bmod_def]
  simp at *
  split at h1 <;> split <;> omega

theorem ofNat_toNat_mod (x : W64) : BitVec.ofNat 64 (x.toNat % 18446744073709551616) = x := by
  apply BitVec.eq_of_toNat_eq
  simp
  exact x.isLt

/-- explicit bytes of a short thunk: `E9 rel32 abs64` -/
theorem redirect_short (a to : W64) (h : shortP a to = true) :
    redirect a to = 0xe9 :: (le32 (disp a to).toNat ++ le64 to.toNat) := by
  simp [redirect, h, splice, shortJmpPattern, le32, le64]

/-- explicit bytes of a long thunk: `49 BB imm64 41 FF E3` -/
theorem redirect_long (a to : W64) (h : shortP a to = false) :
    redirect a to = 0x49 :: 0xbb :: (le64 to.toNat ++ [0x41, 0xff, 0xe3]) := by
  simp [redirect, h, splice, longJmpPattern, le32, le64]

theorem add_disp (a to : W64) : a + 5 + disp a to = to := by
  unfold disp
  bv_omega

theorem disp_add (a c : W64) : disp a (a + 5 + c) = c := by
  unfold disp
  bv_omega

theorem getThunkAddr_short (d0 d1 d2 d3 t0 t1 t2 t3 t4 t5 t6 t7 : Byte) :
    getThunkAddr [0xe9, d0, d1, d2, d3, t0, t1, t2, t3, t4, t5, t6, t7]
      = BitVec.ofNat 64 (ofLe [t0, t1, t2, t3, t4, t5, t6, t7]) := by
  simp [getThunkAddr]

theorem getThunkAddr_long (t0 t1 t2 t3 t4 t5 t6 t7 : Byte) :
    getThunkAddr [0x49, 0xbb, t0, t1, t2, t3, t4, t5, t6, t7, 0x41, 0xff, 0xe3]
      = BitVec.ofNat 64 (ofLe [t0, t1, t2, t3, t4, t5, t6, t7]) := by
  simp [getThunkAddr]

/-! ### the codec -/

theorem thunkTarget_redirect (a to : W64) : thunkTarget a (redirect a to) = some to := by
  cases h : shortP a to
  · rw [redirect_long a to h]
    have h64 := ofLe_le64 to.toNat
    simp only [le64, le32, List.cons_append, List.nil_append] at h64 ⊢
    simp only [thunkTarget]
    rw [if_neg (by decide), if_pos (by decide), h64, ofNat_toNat_mod]
  · rw [redirect_short a to h]
    have h32 := ofLe_le32 (disp a to).toNat
    simp only [le64, le32, List.cons_append, List.nil_append] at h32 ⊢
    simp only [thunkTarget]
    simp only [h32, if_true]
    simp [shortP] at h
    rw [signExtend_setWidth_of_int32 _ h.1 h.2, add_disp]

theorem getThunkAddr_redirect (a to : W64) : getThunkAddr (redirect a to) = to := by
  cases h : shortP a to
  · rw [redirect_long a to h]
    have h64 := ofLe_le64 to.toNat
    simp only [le64, le32, List.cons_append, List.nil_append] at h64 ⊢
    rw [getThunkAddr_long, h64, ofNat_toNat_mod]
  · rw [redirect_short a to h]
    have h64 := ofLe_le64 to.toNat
    simp only [le64, le32, List.cons_append, List.nil_append] at h64 ⊢
    rw [getThunkAddr_short, h64, ofNat_toNat_mod]

theorem length_redirect (a to : W64) : (redirect a to).length = 13 := by
  cases h : shortP a to
  · rw [redirect_long a to h]; simp [le64, le32]
  · rw [redirect_short a to h]; simp [le64, le32]


/-! ### pointwise facts about the state machine -/

theorem redirectTo_some (s : FuncSt) (k : Kind) (to a : W64) (h : s.addr = some a) :
    s.redirectTo k to = { s with bytes := redirect a to, kind := k, to := to } := by
  simp [FuncSt.redirectTo, h]


theorem redirectTo_addr (s : FuncSt) (k : Kind) (to : W64) : (s.redirectTo k to).addr = s.addr := by
  unfold FuncSt.redirectTo; split <;> simp_all

theorem redirectTo_machineCode (s : FuncSt) (k : Kind) (to : W64) :
    (s.redirectTo k to).machineCode = s.machineCode := by
  unfold FuncSt.redirectTo; split <;> simp_all

theorem genCode_addr (s : FuncSt) (p : W64) : (s.genCode p).addr = s.addr := by
  unfold FuncSt.genCode; split <;> simp [redirectTo_addr]

theorem genBB_addr (s : FuncSt) (p : W64) : (s.genBB p).addr = s.addr := by
  unfold FuncSt.genBB
  split <;> simp [redirectTo_addr]

theorem genCode_kind (s : FuncSt) (p a : W64) (h : s.addr = some a) : (s.genCode p).kind = .code := by
  unfold FuncSt.genCode; split <;> simp [redirectTo_some s _ _ a h]

theorem genBB_kind (s : FuncSt) (p a : W64) (h : s.addr = some a) :
    (s.genBB p).kind = .bbThunk ∨ (s.genBB p).kind = .code := by
  unfold FuncSt.genBB
  split <;> simp [redirectTo_some s _ _ a h]

theorem setIface_addr (s : FuncSt) (i : Iface) (p : W64) : (s.setIface i p).addr = s.addr := by
  cases i <;> simp [FuncSt.setIface, redirectTo_addr, genCode_addr]

theorem load_addr_of_some (s : FuncSt) (u fr a : W64) (h : s.addr = some a) :
    (s.load u fr).addr = some a := by
  simp [FuncSt.load, h, redirectTo_addr]

theorem load_addr_of_none (s : FuncSt) (u fr : W64) (h : s.addr = none) :
    (s.load u fr).addr = some fr := by
  simp [FuncSt.load, h, redirectTo_addr]

/-- no event changes a public address that exists -/
theorem stepF_addr (u : W64) (e : Event) (f : Nat) (s : FuncSt) (a : W64) (h : s.addr = some a) :
    (stepF u e f s).addr = some a := by
  cases e with
  | load fs t => simp only [stepF]; split
                 · exact load_addr_of_some s u _ a h
                 · exact h
  | link i p => simp only [stepF]; split
                · simp [setIface_addr, h]
                · exact h
  | setIface i g p => simp only [stepF]; split
                      · simp [setIface_addr, h]
                      · exact h
  | firstCall g p => simp only [stepF]; split
                     · split <;> simp [genCode_addr, genBB_addr, h]
                     · exact h
  | gen g p => simp only [stepF]; split
               · simp [genCode_addr, h]
               · exact h
  | bbgen g p => simp only [stepF]; split
                 · simp [genBB_addr, h]
                 · exact h

/-- only `load` creates a public address -/
theorem stepF_addr_none (u : W64) (e : Event) (f : Nat) (s : FuncSt)
    (h : (stepF u e f s).addr ≠ s.addr) : ∃ fs t, e = .load fs t ∧ f ∈ fs ∧ s.addr = none := by
  cases e with
  | load fs t =>
    refine ⟨fs, t, rfl, ?_⟩
    simp only [stepF] at h
    split at h
    · rename_i hm
      refine ⟨hm, ?_⟩
      cases ha : s.addr with
      | none => rfl
      | some a => exact absurd (by rw [load_addr_of_some s u _ a ha, ha]) h
    · exact absurd rfl h
  | link i p => simp only [stepF] at h; split at h <;> simp [setIface_addr] at h
  | setIface i g p => simp only [stepF] at h; split at h <;> simp [setIface_addr] at h
  | firstCall g p =>
    simp only [stepF] at h
    split at h
    · split at h <;> simp [genCode_addr, genBB_addr] at h
    · simp at h
  | gen g p => simp only [stepF] at h; split at h <;> simp [genCode_addr] at h
  | bbgen g p => simp only [stepF] at h; split at h <;> simp [genBB_addr] at h

theorem run_append (u : W64) (s : State) (h1 h2 : List Event) :
    run u s (h1 ++ h2) = run u (run u s h1) h2 := by
  simp [run, List.foldl_append]

theorem run_cons (u : W64) (s : State) (e : Event) (h : List Event) :
    run u s (e :: h) = run u (step u s e) h := rfl

end MirVerif.Thunk
