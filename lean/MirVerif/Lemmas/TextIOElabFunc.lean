import MirVerif.Lemmas.TextIOElabOps
/-! # C10 — elaboration of a whole function: header, declarations, body, `endfunc` -/
namespace TextIO

theorem elabStmts_cons (st : St) (s : Stmt) (ss : List Stmt) :
    elabStmts st (s :: ss) = (match elabStmt st s with
      | .error e => .error e
      | .ok st' => elabStmts st' ss) := rfl

theorem elabStmts_append (st : St) (a b : List Stmt) :
    elabStmts st (a ++ b) = (match elabStmts st a with
      | .error e => .error e
      | .ok st' => elabStmts st' b) := by
  induction a generalizing st with
  | nil => rfl
  | cons s ss ih =>
    simp only [List.cons_append, elabStmts_cons]
    cases elabStmt st s with
    | error e => rfl
    | ok st' => exact ih st'

theorem lastInsnOf_cons_label (l : Nat) (rest : List FItem) (d : Nat) :
    lastInsnOf (.label l :: rest) d = lastInsnOf rest d := rfl

theorem lastInsnOf_cons_insn (c : Nat) (ops : List Op) (rest : List FItem) (d : Nat) :
    lastInsnOf (.insn c ops :: rest) d = lastInsnOf rest c := rfl

theorem bodyPending_map (body : List FItem) (pl : List Nat) :
    ∃ ql : List Nat, bodyPending body (pl.map printLabel) = ql.map printLabel := by
  induction body generalizing pl with
  | nil => exact ⟨pl, rfl⟩
  | cons x xs ih =>
    cases x with
    | label l =>
      obtain ⟨ql, h⟩ := ih (pl ++ [l])
      exact ⟨ql, by simpa [bodyPending] using h⟩
    | insn c ops =>
      obtain ⟨ql, h⟩ := ih []
      exact ⟨ql, by simpa [bodyPending] using h⟩

/-- the statements of a function body followed by `endfunc` (which defines the labels still pending,
mir.c:6367-6374, and finishes the function) -/
theorem elab_body {m : Module} (body : List FItem) :
    ∀ (st0 st : St) (f : Func) (pl : List Nat) (k0 k k' : Nat) (defs : List Nat),
      InFunc st0 st f → st0.cur = some m → k0 ≤ k → LabInv st.labels k0 k defs → st.nlab = k →
      body.all (fitemOK f.regNames st.tab) = true →
      canonLabels k0 k (pl ++ body.flatMap fitemLabels) = some k' →
      noDup (defs ++ pl ++ body.flatMap fitemDefs) = true →
      ∃ st', elabStmts st (stmtsOfBody body (pl.map printLabel)
              ++ [⟨bodyPending body (pl.map printLabel), .endfunc, [], false⟩]) = .ok st' ∧
        st'.done = st0.done ∧ st'.tab = st0.tab ∧ st'.func = none ∧
        st'.cur = some { m with items := m.items ++
          [.func (finishFunc { f with body := f.body ++ pl.map FItem.label ++ body.map normFItem })] } ∧
        st'.lastInsn = lastInsnOf body st.lastInsn ∧
        LabInv st'.labels k0 k' (defs ++ pl ++ body.flatMap fitemDefs) ∧ st'.nlab = k' ∧ k0 ≤ k' := by
  induction body with
  | nil =>
    intro st0 st f pl k0 k k' defs hin hcur hk0 hinv hn _ hcan hnd
    obtain ⟨st1, hd1, hin1, hli1, hinv1, hn1, hk1⟩ :=
      defineLabels_list (f0 := f) pl st0 st f k0 k k' defs hin hk0 hinv hn (by simpa using hcan) (by simpa using hnd)
    have hc1 : st1.cur = some m := hin1.cur.trans hcur
    refine ⟨{ st1 with func := none, cur := some { m with items := m.items ++
        [.func (finishFunc { f with body := f.body ++ pl.map FItem.label })] } }, ?_, hin1.done, hin1.tab, rfl,
      by simp, by simpa [lastInsnOf] using hli1, by simpa using hinv1, hn1, hk1⟩
    simp only [stmtsOfBody, bodyPending, List.nil_append, elabStmts_cons, elabStmt, hd1, elabOps, hin1.func, hc1]
    simp [elabStmts]
  | cons x xs ih =>
    intro st0 st f pl k0 k k' defs hin hcur hk0 hinv hn hok hcan hnd
    simp only [List.all_cons, Bool.and_eq_true] at hok
    cases x with
    | label l =>
      obtain ⟨st', h1, h2, h3, h4, h5, h6, h7, h8, h9⟩ := ih st0 st f (pl ++ [l]) k0 k k' defs hin hcur hk0 hinv hn hok.2
        (by simpa [List.flatMap_cons, fitemLabels, List.append_assoc] using hcan)
        (by simpa [List.flatMap_cons, fitemDefs, List.append_assoc] using hnd)
      refine ⟨st', ?_, h2, h3, h4, ?_, ?_, ?_, h8, h9⟩
      · simpa [stmtsOfBody, bodyPending] using h1
      · simpa [normFItem, List.append_assoc] using h5
      · simpa [lastInsnOf_cons_label] using h6
      · simpa [List.flatMap_cons, fitemDefs, List.append_assoc] using h7
    | insn c ops =>
      have hcan' : canonLabels k0 k ((pl ++ ops.flatMap opLabels) ++ xs.flatMap fitemLabels) = some k' := by
        simpa [List.flatMap_cons, fitemLabels, List.append_assoc] using hcan
      obtain ⟨k1, hc1, hc2⟩ := canonLabels_append_some hcan'
      have hnd' : noDup ((defs ++ pl) ++ xs.flatMap fitemDefs) = true := by
        simpa [List.flatMap_cons, fitemDefs, List.append_assoc] using hnd
      obtain ⟨hnd1, _, _⟩ := noDup_append hnd'
      obtain ⟨st1, hs1, hin1, hli1, hinv1, hn1, hk1⟩ :=
        elab_insn_stmt hin hcur hk0 hinv hn pl c ops hok.1 hc1 hnd1
      obtain ⟨st', h1, h2, h3, h4, h5, h6, h7, h8, h9⟩ := ih st0 st1 _ [] k0 k1 k' (defs ++ pl) hin1 hcur hk1 hinv1 hn1
        (by rw [hin1.tab, ← hin.tab]; exact hok.2)
        (by simpa using hc2)
        (by simpa using hnd')
      refine ⟨st', ?_, h2, h3, h4, ?_, ?_, ?_, h8, h9⟩
      · simp only [stmtsOfBody, bodyPending, List.cons_append, elabStmts_cons, hs1]
        simpa using h1
      · simpa [normFItem, List.append_assoc] using h5
      · rw [h6, hli1, lastInsnOf_cons_insn]
      · simpa [List.flatMap_cons, fitemDefs, List.append_assoc] using h7

/-! ## header -/

theorem readProtoArgs_vars (args : List Var) : readProtoArgs (args.map ropOfVar) = .ok (args.map normVar) := by
  induction args with
  | nil => rfl
  | cons v vs ih =>
    simp only [List.map_cons, ropOfVar]
    cases hb : v.ty.isBlk
    · simp [readProtoArgs, ih, Except.map, normVar, hb]
    · simp [readProtoArgs, ih, Except.map, normVar, hb]

theorem readProto_rops (res : List Ty) (args : List Var) :
    readProto (protoRops res args) = .ok (res, args.map normVar) := by
  induction res with
  | nil =>
    simp only [protoRops, List.map_nil, List.nil_append]
    cases args with
    | nil => rfl
    | cons v vs =>
      have := readProtoArgs_vars (v :: vs)
      simp only [List.map_cons, ropOfVar] at this ⊢
      cases hb : v.ty.isBlk <;> simp [hb] at this ⊢ <;> simp [readProto, this, Except.map]
  | cons t ts ih =>
    simp only [protoRops, List.map_cons, List.cons_append] at ih ⊢
    simp [readProto, ih, Except.map]

theorem distinct_cons {x : Str} {xs : List Str} (h : distinct (x :: xs) = true) : x ∉ xs ∧ distinct xs = true := by
  simp only [distinct, Bool.and_eq_true, Bool.not_eq_true'] at h
  exact ⟨by simpa using h.1, h.2⟩

theorem distinct_append {a b : List Str} (h : distinct (a ++ b) = true) :
    distinct a = true ∧ distinct b = true ∧ ∀ x ∈ a, x ∉ b := by
  induction a with
  | nil => exact ⟨rfl, by simpa using h, fun _ hx => by simp at hx⟩
  | cons x xs ih =>
    obtain ⟨h1, h2⟩ := distinct_cons (by simpa using h)
    obtain ⟨i1, i2, i3⟩ := ih h2
    refine ⟨?_, i2, ?_⟩
    · simp only [distinct, Bool.and_eq_true, Bool.not_eq_true']
      refine ⟨?_, i1⟩
      have : x ∉ xs := fun hm => h1 (List.mem_append_left _ hm)
      simpa using this
    · intro y hy
      simp only [List.mem_cons] at hy
      rcases hy with hy | hy
      · subst hy; exact fun hm => h1 (List.mem_append_right _ hm)
      · exact i3 y hy

theorem checkArgNames_ok (args : List Var) (seen : List Str)
    (hres : ∀ v ∈ args, reservedName v.name = false)
    (hd : distinct (seen ++ args.map (·.name)) = true) : checkArgNames args seen = .ok () := by
  induction args generalizing seen with
  | nil => rfl
  | cons v vs ih =>
    have hr := hres v (List.mem_cons_self)
    obtain ⟨_, _, hdisj⟩ := distinct_append hd
    have hns : v.name ∉ seen := fun hm => hdisj v.name hm (by simp)
    have hns' : seen.contains v.name = false := by simpa using hns
    simp only [checkArgNames, hr, Bool.false_eq_true, if_false, hns']
    exact ih (seen ++ [v.name]) (fun w hw => hres w (List.mem_cons_of_mem _ hw))
      (by simpa [List.append_assoc] using hd)

/-! ## `local` / `global` lines -/

theorem declRegs_locals (line : List (Ty × Str)) :
    ∀ (f : Func), f.globals = [] → (∀ v ∈ line, reservedName v.2 = false) →
      distinct (f.regNames ++ line.map (·.2)) = true →
      declRegs f (line.map fun v => ROp.var v.1 v.2 none) = .ok { f with locals := f.locals ++ line } := by
  induction line with
  | nil => intro f _ _ _; simp [declRegs]
  | cons v vs ih =>
    intro f hg hres hd
    have hr := hres v (List.mem_cons_self)
    obtain ⟨_, _, hdisj⟩ := distinct_append hd
    have hns : v.2 ∉ f.regNames := fun hm => hdisj v.2 hm (by simp)
    have hns' : f.regNames.contains v.2 = false := by simpa using hns
    have hreg' : ({ f with locals := f.locals ++ [v] } : Func).regNames = f.regNames ++ [v.2] := by
      simp [Func.regNames, hg]
    have := ih { f with locals := f.locals ++ [v] } hg (fun w hw => hres w (List.mem_cons_of_mem _ hw))
      (by rw [hreg']; simpa [List.append_assoc] using hd)
    simp only [List.map_cons, declRegs, newReg, hr, Bool.false_eq_true, if_false, hns']
    simpa [List.append_assoc] using this

theorem declRegs_globals (line : List (Ty × Str × Str)) :
    ∀ (f : Func), (∀ v ∈ line, reservedName v.2.1 = false) →
      distinct (f.regNames ++ line.map (·.2.1)) = true →
      distinct (f.globals.map (·.2.2) ++ line.map (·.2.2)) = true →
      declRegs f (line.map fun v => ROp.var v.1 v.2.1 (some v.2.2)) = .ok { f with globals := f.globals ++ line } := by
  induction line with
  | nil => intro f _ _ _; simp [declRegs]
  | cons v vs ih =>
    intro f hres hd hh
    have hr := hres v (List.mem_cons_self)
    obtain ⟨_, _, hdisj⟩ := distinct_append hd
    have hns : v.2.1 ∉ f.regNames := fun hm => hdisj v.2.1 hm (by simp)
    have hns' : f.regNames.contains v.2.1 = false := by simpa using hns
    obtain ⟨_, _, hdisj2⟩ := distinct_append hh
    have hfind : f.globals.find? (fun g => g.2.2 = v.2.2) = none := by
      rw [List.find?_eq_none]
      intro g hg
      have : g.2.2 ∈ f.globals.map (·.2.2) := List.mem_map_of_mem hg
      have := hdisj2 _ this
      simp only [List.map_cons, List.mem_cons, not_or] at this
      simpa using this.1
    have hreg' : ({ f with globals := f.globals ++ [v] } : Func).regNames = f.regNames ++ [v.2.1] := by
      simp [Func.regNames, List.append_assoc]
    have := ih { f with globals := f.globals ++ [v] } (fun w hw => hres w (List.mem_cons_of_mem _ hw))
      (by rw [hreg']; simpa [List.append_assoc] using hd)
      (by simpa [List.append_assoc] using hh)
    simp only [List.map_cons, declRegs, newReg, hr, Bool.false_eq_true, if_false, hns', hfind]
    simpa [List.append_assoc] using this

theorem chunk8_flatten {α} (n : Nat) (l : List α) (h : l.length ≤ n) : (chunk8 n l).flatten = l := by
  induction n generalizing l with
  | zero =>
    cases l with
    | nil => rfl
    | cons a as => simp at h
  | succ k ih =>
    cases l with
    | nil => rfl
    | cons a as =>
      simp only [chunk8]
      split
      · simp
      · simp only [List.flatten_cons]
        rw [ih _ (by simp only [List.length_drop, List.length_cons] at *; omega)]
        exact List.take_append_drop 8 (a :: as)

end TextIO
