import MirVerif.Gen.C20_Tables
import MirVerif.Model.Mir2CPinned
import MirVerif.Model.Mir2CKnown
/-! Per-run bridge for C20: the tables regenerated from mir2c/mir2c.c (+ mir.h, mir.c) are the ones the
documentation calls for, except exactly at the rows listed in `Model/Mir2CKnown.knownDeviations`;
the reviewed source texts are unchanged.  Everything here is kernel evaluation of finite tables. -/
namespace MirVerif.Mir2C
open MirVerif

/-- every opcode that has a `case` in `out_insn` -/
def coveredOpcodes : List String :=
  Gen.C20.intRows.map (·.1) ++ Gen.C20.brRows.map (·.1) ++ Gen.C20.castRows.map (·.1) ++
  Gen.C20.negRows.map (·.1) ++ Gen.C20.otherRows.map (·.1) ++ Gen.C20.inlineCases

/-- opcodes `MIR_finish_func` does not reject that have no `case` (as enum values; `gen_codes_are_names`
ties the values to the names, numbers only make the kernel evaluation fast) -/
def uncoveredCodes : List Nat :=
  (List.range Gen.C20.allOpcodes.length).filter fun c =>
    !Gen.C20.caseCodes.contains c && !Gen.C20.rejectCodes.contains c

def uncoveredOpcodes : List String := uncoveredCodes.map fun c => Gen.C20.allOpcodes.getD c "?"

/-- every integer row is the expected template of the instruction its opcode names -/
theorem gen_int_expected :
    (Gen.C20.intRows.all fun r =>
      match nameToOp r.1 with
      | some (a, s) => r.2 == expectedTmpl a s
      | none => false) = true := by decide +kernel

theorem gen_int_complete :
    (AOp.all.all fun a => [false, true].all fun s =>
      Gen.C20.intRows.contains (opName a s, expectedTmpl a s)) = true := by decide +kernel

theorem gen_int_functional : (Gen.C20.intRows.map (·.1)).Nodup := by decide +kernel

theorem gen_br_complete :
    (AOp.cmps.all fun a => [false, true].all fun s =>
      Gen.C20.brRows.contains (brName a s, canonTmpl a s)) = true := by decide +kernel

theorem gen_br_functional : (Gen.C20.brRows.map (·.1)).Nodup := by decide +kernel

theorem gen_br_expected :
    (Gen.C20.brRows.all fun r =>
      match brNameToOp r.1 with
      | some (a, s) => r.2 == canonTmpl a s
      | none => false) = true := by decide +kernel

theorem gen_cast_complete :
    ([8, 16, 32].all fun k => [false, true].all fun s =>
      Gen.C20.castRows.contains (extName k s, canonCasts k s)) = true := by decide +kernel

theorem gen_cast_functional : (Gen.C20.castRows.map (·.1)).Nodup := by decide +kernel

theorem gen_neg_rows : Gen.C20.negRows = [("NEG", .i64), ("NEGS", .i32)] := by decide +kernel

/-- the enum values the translator attached to the case labels are the positions of their names in
`MIR_insn_code_t`, and likewise for the opcodes `MIR_finish_func` rejects -/
theorem gen_codes_are_names :
    Gen.C20.caseCodes.map (fun c => Gen.C20.allOpcodes.getD c "?") = coveredOpcodes ∧
    Gen.C20.rejectCodes.map (fun c => Gen.C20.allOpcodes.getD c "?") = Gen.C20.finishRejects := by
  decide +kernel

/-- no opcode has two `case` labels, every label is an opcode of mir.h -/
theorem gen_cases_wellformed :
    Gen.C20.caseCodes.Nodup ∧ (Gen.C20.caseCodes.all fun c => c < Gen.C20.allOpcodes.length) = true := by
  decide +kernel

/-- the opcodes without a template are exactly the listed ones -/
theorem gen_uncovered : uncoveredOpcodes = expectedMissing := by decide +kernel

/-- the variant of the data-section loop that `Model/Mir2CSection` models (via `loopFixed`) is the one in the source -/
theorem gen_section_advance : Gen.C20.sectionAdvanceVar = expectedAdvance := by decide +kernel

/-- the unsigned-overflow statement of ADDO/SUBO[S] is printed before the statement that stores the result -/
theorem gen_uoverflow_first : Gen.C20.uoverflowBeforeStore = true := by decide +kernel

/-- the rows without a Lean meaning (moves, floating point, conversions: opcode, helper, cast/operator text)
and the list of inline cases are the reviewed ones -/
theorem gen_other_rows : Gen.C20.otherRows = Canon.C20.otherRows := by decide +kernel
theorem gen_inline_cases : Gen.C20.inlineCases = Canon.C20.inlineCases := by decide +kernel

theorem gen_helper_text : Gen.C20.helperText = Canon.C20.helperText := by decide +kernel
theorem gen_pinned : Gen.C20.pinned = Canon.C20.pinned := by decide +kernel

end MirVerif.Mir2C
