import MirVerif.Model.Simplify
import MirVerif.Lemmas.Sem
import MirVerif.Lemmas.GenTable
/-! Local rewrites of `simplify_func`: algebraic shortcuts, `bt/bf` of constants, reversed
branches — each stated on the MirCore step function. -/
namespace MirVerif.Simplify
open MirVerif.MirCore

/-! ## algebraic shortcuts -/

theorem docBin_shortcut64 (a : AOp) (c : Int) (h : aopShortcut a = some c) (x : W64) :
    docBin a x (BitVec.ofInt 64 c) = some x := by
  cases a <;> simp [aopShortcut] at h <;> subst h <;>
    simp [docBin, wrapI, wrapN, BitVec.ofInt_toInt]

theorem docBin_shortcut32 (a : AOp) (c : Int) (h : aopShortcut a = some c) (y : W32) :
    docBin a y (lo32 (BitVec.ofInt 64 c)) = some y := by
  cases a <;> simp [aopShortcut] at h <;> subst h <;>
    simp [docBin, wrapI, wrapN, BitVec.ofInt_toInt, lo32]

/-- every row `a x c` of the shortcut table yields `x` on the bits MIR.md defines (all of them for
the 64-bit form, the low half for the `S` form), for every `x`; in particular the instruction is
defined (no trap) -/
theorem shortcut_value (a : AOp) (c : Int) (h : aopShortcut a = some c) (short : Bool) (x : W64) :
    optRel (agree a short) (docSem a short x (BitVec.ofInt 64 c)) (some x) := by
  cases short
  · simp [docSem, docBin_shortcut64 a c h, optRel, agree]
  · have hc : a.isCmp = false := by cases a <;> simp [aopShortcut] at h <;> rfl
    simp [docSem, docBin_shortcut32 a c h, optRel, agree, hc, lo32_sext32]

section step
variable {μ : Type} [ByteMem μ]

/-- 64-bit rows: the instruction and the `mov` that replaces it are the same state transformer -/
theorem shortcut_step (a : AOp) (c : Int) (h : aopShortcut a = some c) (body : List SInsn)
    (d x : Opd R) (fr : Frame R) (g : G μ) :
    stepInsn body (.bin a false d x (.imm (BitVec.ofInt 64 c))) fr g = stepInsn body (.mov d x) fr g := by
  have hi : evalOpd fr.regs g (Opd.imm (BitVec.ofInt 64 c) : Opd R) = .ok (BitVec.ofInt 64 c) := rfl
  simp only [stepInsn, hi]
  cases hx : evalOpd fr.regs g x with
  | error e => simp [bind, Except.bind]
  | ok v =>
    have := docBin_shortcut64 a c h v
    simp [bind, Except.bind, pure, Except.pure, docSem, this, ofOpt]

/-- `MULO x, 1`: the product is `x` and neither overflow flag is set … -/
theorem mulo_by_one (x : W64) : ovfSem .mul false x 1 = (x, false, false) := by
  have h1 : BitVec.toInt (1 : W64) = 1 := by decide
  have := BitVec.toInt_lt (x := x); have := BitVec.le_toInt (x := x)
  simp only [ovfSem, docMulO, Bool.false_eq_true, if_false, h1, Int.mul_one, wrapI, BitVec.ofInt_toInt]
  have hd : decide (x.toInt < -2 ^ (64 - 1) ∨ x.toInt ≥ 2 ^ (64 - 1)) = false := by
    simp; omega
  rw [hd]

theorem mulos_by_one (x : W64) : (ovfSem .mul true x 1).2 = (false, false) := by
  have h1 : BitVec.toInt (lo32 (1 : W64)) = 1 := by decide
  have := BitVec.toInt_lt (x := lo32 x); have := BitVec.le_toInt (x := lo32 x)
  simp only [ovfSem, docMulO, if_true, h1, Int.mul_one]
  have hd : decide ((lo32 x).toInt < -2 ^ (32 - 1) ∨ (lo32 x).toInt ≥ 2 ^ (32 - 1)) = false := by
    simp; omega
  rw [hd]

/-- … but the `mov` that replaces it leaves the flags of an earlier instruction in place: the
shortcut row for `MULO`/`MULOS` is unsound when a branch on overflow follows (MIR.md: "the previous
insn must be a MIR integer overflow insn"): the two instructions differ exactly in the flags -/
theorem mulo_shortcut_flags (body : List SInsn) (d x : R) (fr : Frame R) (g : G μ) :
    stepInsn body (.ovf .mul false (.reg d) (.reg x) (.imm 1)) fr g
      = .ok (next { fr with regs := fr.regs.set d (fr.regs.get x), sov := false, uov := false }, g) ∧
    stepInsn body (.mov (.reg d) (.reg x)) fr g
      = .ok (next { fr with regs := fr.regs.set d (fr.regs.get x) }, g) := by
  constructor
  · simp only [stepInsn, evalOpd, setOpd, bind, Except.bind, pure, Except.pure, mulo_by_one]
  · simp only [stepInsn, evalOpd, setOpd, bind, Except.bind, pure, Except.pure]

/-! ## `bt/bf` of a constant -/

theorem bt_bf_const_step (body : List SInsn) (i : SInsn) (b : Bool) (h : btConst i = some b)
    (fr : Frame R) (g : G μ) :
    ∃ l, intBranchTarget i = some l ∧
      stepInsn body i fr g = if b then stepInsn body (.jmp l) fr g else .ok (next fr, g) := by
  cases i <;> simp [btConst] at h
  rename_i short t l x
  cases x <;> simp at h
  rename_i v
  refine ⟨l, rfl, ?_⟩
  by_cases h0 : v = 0
  · subst h0
    simp at h; subst h
    cases short <;> cases b <;>
      simp [stepInsn, evalOpd, bind, Except.bind, pure, Except.pure, lo32]
  · by_cases h1 : v = 1
    · subst h1
      have h' : b = t := by simpa using h.symm
      subst h'
      cases short <;> cases b <;>
        simp [stepInsn, evalOpd, bind, Except.bind, pure, Except.pure, lo32]
    · have h0' : ¬ v = 0#64 := h0
      have h1' : ¬ v = 1#64 := h1
      simp [h0', h1'] at h

/-! ## conditional branches and their reversal -/

/-- the condition of an integer branch (`none` for other instructions) -/
def brCond (i : SInsn) (fr : Frame R) (g : G μ) : Option (Except Err Bool) :=
  match i with
  | .bcmp a short _ x y => some do
    let vx ← evalOpd fr.regs g x
    let vy ← evalOpd fr.regs g y
    pure (docBranch a short vx vy)
  | .bt short onTrue _ x => some do
    let v ← evalOpd fr.regs g x
    pure ((if short then lo32 v != 0 else v != 0) == onTrue)
  | .bo uns onSet _ => some (pure ((if uns then fr.uov else fr.sov) == onSet))
  | _ => none

/-- a conditional branch evaluates its condition, then either goes to its label or falls through;
it changes neither registers, flags nor memory -/
theorem stepInsn_brCond (body : List SInsn) (i : SInsn) (l : Lab) (hl : intBranchTarget i = some l)
    (fr : Frame R) (g : G μ) :
    ∃ c, brCond i fr g = some c ∧
      stepInsn body i fr g = (do
        let b ← c
        if b then do let fr' ← goto body fr l; pure (fr', g) else pure (next fr, g)) := by
  cases i <;> simp [intBranchTarget] at hl <;> subst hl
  · refine ⟨_, rfl, ?_⟩
    simp only [stepInsn, bind_assoc, pure_bind]
  · refine ⟨_, rfl, ?_⟩
    simp only [stepInsn, bind_assoc, pure_bind]
  · refine ⟨_, rfl, ?_⟩
    simp only [stepInsn, pure_bind]

/-- `MIR_reverse_branch_code`: the reversed branch is taken exactly when the original is not —
every register/memory/flag content, all branch forms the function reverses -/
theorem reverse_branch_cond (i : SInsn) (mk : Lab → SInsn) (h : reverseBranch i = some mk) (l2 : Lab)
    (fr : Frame R) (g : G μ) :
    intBranchTarget (mk l2) = some l2 ∧
    ∃ c, brCond i fr g = some c ∧ brCond (mk l2) fr g = some (c.map (!·)) := by
  cases i <;> simp [reverseBranch] at h
  · -- bcmp
    rename_i a short l x y
    obtain ⟨a', ha, rfl⟩ := h
    refine ⟨rfl, _, rfl, ?_⟩
    simp only [brCond]
    cases evalOpd fr.regs g x <;> cases evalOpd fr.regs g y <;>
      simp [bind, Except.bind, pure, Except.pure, Except.map, branch_neg _ _ ha]
  · -- bt
    rename_i short t l x
    subst h
    refine ⟨rfl, _, rfl, ?_⟩
    simp only [brCond]
    cases evalOpd fr.regs g x <;> simp [bind, Except.bind, pure, Except.pure, Except.map]
    cases t <;> simp
  · -- bo
    rename_i u t l
    subst h
    refine ⟨rfl, _, rfl, ?_⟩
    simp only [brCond, pure, Except.pure, Except.map]
    cases t <;> simp

end step
end MirVerif.Simplify
