import MirVerif.Lemmas.CheckEnum
/-! # C15 — structure lemmas: the verdict of an instruction is made of the verdicts of its positions -/
namespace MirVerif.Check
open MirVerif.Gen.C15

theorem seq_ok_iff (a b : Verdict) : seq a b = .ok ↔ a = .ok ∧ b = .ok := by
  cases a <;> simp [seq]

theorem seq_ok_left (b : Verdict) : seq .ok b = b := rfl

theorem seq_of_ne_ok {a : Verdict} (b : Verdict) (h : a ≠ .ok) : seq a b = a := by
  cases a <;> simp_all [seq]

/-- accepted iff every position is accepted -/
theorem seqFrom_ok_iff {α} (f : Nat → α → Verdict) (i : Nat) (l : List α) :
    seqFrom f i l = .ok ↔ ∀ k (h : k < l.length), f (i + k) l[k] = .ok := by
  induction l generalizing i with
  | nil => simp [seqFrom]
  | cons a as ih =>
    simp only [seqFrom, seq_ok_iff, ih]
    constructor
    · rintro ⟨h0, hr⟩ k hk
      cases k with
      | zero => exact h0
      | succ j =>
        have := hr j (by simpa using hk)
        simpa [Nat.add_assoc, Nat.add_comm 1 j] using this
    · intro h
      refine ⟨h 0 (by simp), ?_⟩
      intro k hk
      have := h (k + 1) (by simpa using hk)
      simpa [Nat.add_assoc, Nat.add_comm 1 k] using this

/-- rejected: the verdict is the verdict of the first position that is not accepted -/
theorem seqFrom_first {α} (f : Nat → α → Verdict) (i : Nat) (l : List α) (v : Verdict)
    (h : seqFrom f i l = v) (hv : v ≠ .ok) :
    ∃ k, ∃ hk : k < l.length, f (i + k) l[k] = v ∧ ∀ j (hj : j < k), f (i + j) (l[j]'(by omega)) = .ok := by
  induction l generalizing i with
  | nil => simp [seqFrom] at h; exact absurd h.symm hv
  | cons a as ih =>
    simp only [seqFrom] at h
    by_cases h0 : f i a = .ok
    · rw [h0, seq_ok_left] at h
      obtain ⟨k, hk, hkv, hlt⟩ := ih (i + 1) h
      refine ⟨k + 1, by simpa using hk, ?_, ?_⟩
      · simpa [Nat.add_assoc, Nat.add_comm 1 k] using hkv
      · intro j hj
        cases j with
        | zero => simpa using h0
        | succ j' =>
          have := hlt j' (by omega)
          simpa [Nat.add_assoc, Nat.add_comm 1 j'] using this
    · rw [seq_of_ne_ok _ h0] at h
      exact ⟨0, by simp, by simpa using h, by intro j hj; omega⟩

/-! ### fixed-arity instructions -/

theorem newInsn_fixed (descs : Descs) (protos : List Proto) (code : Nat) (ops : List Operand)
    (hf : fixedArity code = true) :
    newInsnCheck descs protos code ops =
      if ops.length != nopsOf descs code then .err E_ops_num
      else seqFrom (fun i op => newInsnPos code i op.s) 0 ops := by
  have hf' := hf
  simp only [fixedArity, Bool.and_eq_true, Bool.not_eq_true', bne_iff_ne, ne_eq] at hf'
  obtain ⟨⟨⟨⟨⟨h1, h2⟩, h3⟩, h4⟩, h5⟩, h6⟩ := hf'
  unfold newInsnCheck
  simp only [hf, Bool.true_and]
  split
  · rfl
  · simp [h1, h2, h4, h6, newInsnPosAll, beq_iff_eq]

theorem finishPos_fixed (asserts : Bool) (descs : Descs) (protos : List Proto) (fn : Func)
    (code : Nat) (ops : List Operand) (i : Nat) (o : OpS) (hf : fixedArity code = true) :
    finishPos asserts descs protos fn ⟨code, ops⟩ i o = finishPosFixed descs code i o := by
  have hf' := hf
  simp only [fixedArity, Bool.and_eq_true, Bool.not_eq_true', bne_iff_ne, ne_eq] at hf'
  obtain ⟨⟨⟨⟨⟨h1, h2⟩, h3⟩, h4⟩, h5⟩, h6⟩ := hf'
  unfold finishPos
  simp [h1, h2, h5, h6, beq_iff_eq]

/-- verdict of a single fixed-arity instruction inside a function: creation, then the operand loop
of `MIR_finish_func` (insn-level rules aside) -/
def insnOperandsVerdict (asserts : Bool) (descs : Descs) (protos : List Proto) (fn : Func)
    (code : Nat) (ops : List Operand) : Verdict :=
  seq (newInsnCheck descs protos code ops) (finishOps asserts descs protos fn ⟨code, ops⟩ 0 ops)

/-- wrong operand count is always reported as `ops_num` -/
theorem arity_error (asserts : Bool) (descs : Descs) (protos : List Proto) (fn : Func)
    (code : Nat) (ops : List Operand)
    (hf : fixedArity code = true) (hn : ops.length ≠ nopsOf descs code) :
    insnOperandsVerdict asserts descs protos fn code ops = .err E_ops_num := by
  unfold insnOperandsVerdict
  rw [newInsn_fixed descs protos code ops hf]
  simp [hn, seq]

/-- with the right count the instruction is accepted iff every cell is accepted -/
theorem per_operand_ok (asserts : Bool) (descs : Descs) (protos : List Proto) (fn : Func)
    (code : Nat) (ops : List Operand)
    (hf : fixedArity code = true) (hn : ops.length = nopsOf descs code) :
    insnOperandsVerdict asserts descs protos fn code ops = .ok ↔
      ∀ k (h : k < ops.length), cellVerdict descs code k ops[k].s = .ok := by
  unfold insnOperandsVerdict
  rw [newInsn_fixed descs protos code ops hf]
  simp only [hn, bne_self_eq_false, Bool.false_eq_true, if_false, seq_ok_iff, finishOps, seqFrom_ok_iff,
    Nat.zero_add]
  constructor
  · rintro ⟨ha, hb⟩ k hk
    have hb' := hb k hk
    rw [finishPos_fixed asserts descs protos fn code ops k _ hf] at hb'
    simp [cellVerdict, seq_ok_iff, ha k hk, hb']
  · intro h
    refine ⟨fun k hk => ?_, fun k hk => ?_⟩
    · have := h k hk
      simp only [cellVerdict, seq_ok_iff] at this
      exact this.1
    · have := h k hk
      simp only [cellVerdict, seq_ok_iff] at this
      rw [finishPos_fixed asserts descs protos fn code ops k _ hf]
      exact this.2

/-- … and when it is not accepted, the verdict is the verdict of one of its cells -/
theorem per_operand_err (asserts : Bool) (descs : Descs) (protos : List Proto) (fn : Func)
    (code : Nat) (ops : List Operand) (v : Verdict)
    (hf : fixedArity code = true) (hn : ops.length = nopsOf descs code)
    (hv : insnOperandsVerdict asserts descs protos fn code ops = v) (hne : v ≠ .ok) :
    ∃ k, ∃ h : k < ops.length, cellVerdict descs code k ops[k].s = v := by
  unfold insnOperandsVerdict at hv
  rw [newInsn_fixed descs protos code ops hf] at hv
  simp only [hn, bne_self_eq_false, Bool.false_eq_true, if_false] at hv
  by_cases hnew : seqFrom (fun i op => newInsnPos code i op.s) 0 ops = .ok
  · rw [hnew, seq_ok_left] at hv
    obtain ⟨k, hk, hkv, _⟩ := seqFrom_first _ 0 ops v hv hne
    refine ⟨k, hk, ?_⟩
    have hk0 := (seqFrom_ok_iff _ 0 ops).mp hnew k hk
    simp only [Nat.zero_add] at hk0 hkv
    rw [finishPos_fixed asserts descs protos fn code ops k _ hf] at hkv
    simp [cellVerdict, hk0, seq_ok_left, hkv]
  · rw [seq_of_ne_ok _ hnew] at hv
    obtain ⟨k, hk, hkv, _⟩ := seqFrom_first _ 0 ops v hv hne
    refine ⟨k, hk, ?_⟩
    simp only [Nat.zero_add] at hkv
    simp only [cellVerdict, hkv]
    exact seq_of_ne_ok _ hne

end MirVerif.Check
