import MirVerif.Lemmas.ReduceDict
import MirVerif.Lemmas.ReduceDecode
/-! Encoder lemmas for C12: the loop of `_reduce_encode_buf` emits a valid parse of its buffer
(`encodeBufEls_valid`), whatever the dictionary walk finds. -/
namespace MirVerif.Reduce

theorem applyEls_append (s : DSt) (es fs : List El) :
    applyEls s (es ++ fs) = (applyEls s es).bind (applyEls · fs) := by
  induction es generalizing s with
  | nil => simp [applyEls]
  | cons e es ih =>
    simp only [List.cons_append, applyEls]
    cases h : applyEl s e with
    | none => simp
    | some s' => simp [ih]

theorem applyEls_snoc {s d : DSt} {es : List El} (e : El) {d' : DSt}
    (h : applyEls s es = some d) (he : applyEl d e = some d') :
    applyEls s (es ++ [e]) = some d' := by
  rw [applyEls_append, h]
  simp [applyEls, he]

theorem applyEl_lits (st : DSt) (lits : List UInt8) :
    applyEl st ⟨lits, none⟩ = some ⟨st.buf ++ lits, st.starts ++ litStarts st.buf.length lits.length⟩ := by
  simp [applyEl]

theorem applyEl_ref (st : DSt) (lits : List UInt8) (len off sp : Nat) (h1 : 0 < off)
    (h2 : off ≤ (st.starts ++ litStarts st.buf.length lits.length).length)
    (h3 : (st.starts ++ litStarts st.buf.length lits.length)[
            (st.starts ++ litStarts st.buf.length lits.length).length - off]? = some sp)
    (h4 : sp + len ≤ (st.buf ++ lits).length) :
    applyEl st ⟨lits, some (len, off)⟩ =
      some ⟨st.buf ++ lits ++ ((st.buf ++ lits).drop sp).take len,
            st.starts ++ litStarts st.buf.length lits.length ++ [(st.buf ++ lits).length]⟩ := by
  simp only [applyEl]
  rw [if_neg (by omega)]
  simp only [h3]
  rw [if_neg (by omega)]

theorem take_append_take_drop {α} (l : List α) (a b : Nat) (h : a ≤ b) :
    l.take a ++ (l.drop a).take (b - a) = l.take b := by
  have : b = a + (b - a) := by omega
  conv => rhs; rw [this, List.take_add]

theorem copy_eq {α} (l : List α) (p pos len : Nat) (h1 : p + len ≤ pos)
    (h2 : ∀ i, i < len → l[p + i]? = l[pos + i]?) :
    ((l.take pos).drop p).take len = (l.drop pos).take len := by
  apply List.ext_getElem?
  intro i
  simp only [List.getElem?_take, List.getElem?_drop]
  by_cases hi : i < len
  · rw [if_pos hi, if_pos hi, if_pos (by omega)]
    exact h2 i hi
  · rw [if_neg hi, if_neg hi]

theorem pendingLits_eq (buf : Array UInt8) (s : ESt) :
    pendingLits buf s = (buf.toList.drop s.litStart).take (s.pos - s.litStart) := by
  simp [pendingLits]

/-- pairs the decoder can resolve in the state whose `ind2pos` is `vs` -/
def Ref (vs : List Nat) (p m : Nat) : Prop := vs[m]? = some p

theorem Ref.append {vs : List Nat} {p m : Nat} (h : Ref vs p m) (ws : List Nat) : Ref (vs ++ ws) p m := by
  unfold Ref at *
  have hlt : m < vs.length := by
    rcases Nat.lt_or_ge m vs.length with hh | hh
    · exact hh
    · rw [List.getElem?_eq_none hh] at h; cases h
  rw [List.getElem?_append_left hlt]; exact h

theorem Ref.last (vs : List Nat) (p : Nat) (ws : List Nat) : Ref (vs ++ p :: ws) p vs.length := by
  unfold Ref
  simp

/-- invariant of the encoder loop: the elements written so far decode to `buf[0..litStart)`, the
pending literals are `buf[litStart..pos)`, and every dictionary element is resolvable by the
decoder once the pending literals are flushed -/
structure EInv (c : Cfg) (buf : Array UInt8) (s : ESt) : Prop where
  ls_le : s.litStart ≤ s.pos
  pos_le : s.pos ≤ buf.size
  lits_le : s.pos - s.litStart ≤ maxSymbLen
  outOk : ∀ e ∈ s.out, ElOk c e
  dec : ∃ d : DSt, applyEls DSt.init s.out.reverse = some d ∧ d.buf = buf.toList.take s.litStart ∧
    d.starts.length ≤ s.litStart ∧ d.starts.length + (s.pos - s.litStart) = s.dict.num ∧
    TabInv (Ref (d.starts ++ litStarts s.litStart (s.pos - s.litStart))) s.dict.count s.dict.tab

/-- facts about the pending literals shared by the three step lemmas -/
theorem EInv.pending {c : Cfg} {buf : Array UInt8} {s : ESt} (hinv : EInv c buf s) {d : DSt}
    (hbuf : d.buf = buf.toList.take s.litStart) :
    d.buf.length = s.litStart ∧ (pendingLits buf s).length = s.pos - s.litStart ∧
    d.buf ++ pendingLits buf s = buf.toList.take s.pos := by
  have h1 := hinv.ls_le
  have h2 := hinv.pos_le
  have hl : buf.toList.length = buf.size := Array.length_toList
  refine ⟨?_, ?_, ?_⟩
  · rw [hbuf, List.length_take]; omega
  · rw [pendingLits_eq, List.length_take, List.length_drop]; omega
  · rw [hbuf, pendingLits_eq]; exact take_append_take_drop _ _ _ h1

theorem EInv.lit_step {c : Cfg} {buf : Array UInt8} {s : ESt} (hinv : EInv c buf s)
    (hlt : s.pos < buf.size) :
    EInv c buf
      { pos := s.pos + 1,
        litStart := if s.pos - s.litStart + 1 > maxSymbLen then s.pos else s.litStart,
        dict := dictAdd c buf s.pos s.dict,
        out := if s.pos - s.litStart + 1 > maxSymbLen then ⟨pendingLits buf s, none⟩ :: s.out
               else s.out } := by
  obtain ⟨hls, hpl, hll, hout, d, hd, hbuf, hsl, hnum, htab⟩ := hinv
  have hinv : EInv c buf s := ⟨hls, hpl, hll, hout, d, hd, hbuf, hsl, hnum, htab⟩
  have ⟨hdb, hpn, hbp⟩ := hinv.pending hbuf
  by_cases hf : s.pos - s.litStart + 1 > maxSymbLen
  · -- flush of 2047 literals first
    simp only [if_pos hf]
    have hm : maxSymbLen = 2047 := rfl
    refine ⟨by show s.pos ≤ s.pos + 1; omega, by show s.pos + 1 ≤ buf.size; omega,
      by show s.pos + 1 - s.pos ≤ maxSymbLen; omega, ?_, ?_⟩
    · intro e he
      rcases List.mem_cons.mp he with rfl | he
      · refine ⟨by show (pendingLits buf s).length ≤ maxSymbLen; omega, Or.inl ?_, ?_⟩
        · intro h0
          have := congrArg List.length h0
          simp only [List.length_nil] at this
          omega
        · intro len off h; cases h
      · exact hout e he
    · refine ⟨⟨d.buf ++ pendingLits buf s, d.starts ++ litStarts d.buf.length (pendingLits buf s).length⟩,
        ?_, hbp, ?_, ?_, ?_⟩
      · show applyEls DSt.init (⟨pendingLits buf s, none⟩ :: s.out).reverse = _
        rw [List.reverse_cons]
        exact applyEls_snoc _ hd (applyEl_lits _ _)
      · show (d.starts ++ litStarts d.buf.length (pendingLits buf s).length).length ≤ s.pos
        simp only [List.length_append, litStarts_length]; omega
      · show (d.starts ++ litStarts d.buf.length (pendingLits buf s).length).length
            + (s.pos + 1 - s.pos) = (dictAdd c buf s.pos s.dict).num
        rw [dictAdd_num]
        simp only [List.length_append, litStarts_length]; omega
      · show TabInv (Ref ((d.starts ++ litStarts d.buf.length (pendingLits buf s).length)
            ++ litStarts s.pos (s.pos + 1 - s.pos))) _ _
        have h1 : s.pos + 1 - s.pos = 1 := by omega
        rw [h1, litStarts_one, hdb, hpn]
        apply tabInv_dictAdd
        · exact htab.mono (fun p m h => h.append _)
        · have hlen : (d.starts ++ litStarts s.litStart (s.pos - s.litStart)).length = s.dict.num := by
            simp only [List.length_append, litStarts_length]; omega
          rw [← hlen]
          exact Ref.last _ _ _
  · simp only [if_neg hf]
    refine ⟨by show s.litStart ≤ s.pos + 1; omega, by show s.pos + 1 ≤ buf.size; omega,
      by show s.pos + 1 - s.litStart ≤ maxSymbLen; omega, hout, d, hd, hbuf, hsl, ?_, ?_⟩
    · show d.starts.length + (s.pos + 1 - s.litStart) = (dictAdd c buf s.pos s.dict).num
      rw [dictAdd_num]; omega
    · show TabInv (Ref (d.starts ++ litStarts s.litStart (s.pos + 1 - s.litStart))) _ _
      have hk : s.pos + 1 - s.litStart = (s.pos - s.litStart) + 1 := by omega
      rw [hk, litStarts_succ, ← List.append_assoc]
      apply tabInv_dictAdd
      · exact htab.mono (fun p m h => h.append _)
      · have hlen : (d.starts ++ litStarts s.litStart (s.pos - s.litStart)).length = s.dict.num := by
          simp only [List.length_append, litStarts_length]; omega
        have hp : s.pos - s.litStart + s.litStart = s.pos := by omega
        rw [← hlen, hp]
        exact Ref.last _ _ _

theorem EInv.ref_step {c : Cfg} {buf : Array UInt8} {s : ESt} (hinv : EInv c buf s)
    (hsz : buf.size ≤ c.bufLen) (hlt : s.pos < buf.size)
    (hr : (findLongest c buf s.pos s.dict).1 ≠ 0) :
    EInv c buf
      { pos := s.pos + (findLongest c buf s.pos s.dict).1,
        litStart := s.pos + (findLongest c buf s.pos s.dict).1,
        dict := dictAdd c buf s.pos s.dict,
        out := ⟨pendingLits buf s, some ((findLongest c buf s.pos s.dict).1,
                  s.dict.num - (findLongest c buf s.pos s.dict).2)⟩ :: s.out } := by
  obtain ⟨hls, hpl, hll, hout, d, hd, hbuf, hsl, hnum, htab⟩ := hinv
  have hinv : EInv c buf s := ⟨hls, hpl, hll, hout, d, hd, hbuf, hsl, hnum, htab⟩
  have ⟨hdb, hpn, hbp⟩ := hinv.pending hbuf
  have hspec := findLongest_spec c buf s.pos s.dict htab
  generalize (findLongest c buf s.pos s.dict).1 = len at hr hspec ⊢
  generalize (findLongest c buf s.pos s.dict).2 = m at hspec ⊢
  rcases hspec with h0 | ⟨p, href, h4, hlb, hlp, hbytes⟩
  · exact absurd h0 hr
  have h4' : 4 ≤ len := h4
  have hl : buf.toList.length = buf.size := Array.length_toList
  have hlen : (d.starts ++ litStarts s.litStart (s.pos - s.litStart)).length = s.dict.num := by
    simp only [List.length_append, litStarts_length]; omega
  have hmlt : m < s.dict.num := by
    rw [← hlen]
    rcases Nat.lt_or_ge m (d.starts ++ litStarts s.litStart (s.pos - s.litStart)).length with hh | hh
    · exact hh
    · unfold Ref at href; rw [List.getElem?_eq_none hh] at href; cases href
  have hm : maxSymbLen = 2047 := rfl
  -- the decoder accepts the new element
  have happ : applyEl d ⟨pendingLits buf s, some (len, s.dict.num - m)⟩ =
      some ⟨buf.toList.take (s.pos + len),
            d.starts ++ litStarts s.litStart (s.pos - s.litStart) ++ [s.pos]⟩ := by
    have hposlen : (d.buf ++ pendingLits buf s).length = s.pos := by
      rw [hbp, List.length_take]; omega
    rw [applyEl_ref d (pendingLits buf s) len (s.dict.num - m) p (by omega)
      (by rw [hdb, hpn, hlen]; omega)
      (by
        rw [hdb, hpn, hlen]
        have : s.dict.num - (s.dict.num - m) = m := by omega
        rw [this]; exact href)
      (by rw [hposlen]; omega)]
    rw [hposlen, hdb, hpn, hbp]
    congr 2
    rw [copy_eq buf.toList p s.pos len (by omega)
      (fun i hi => by rw [Array.getElem?_toList, Array.getElem?_toList]; exact hbytes i hi)]
    have := take_append_take_drop buf.toList s.pos (s.pos + len) (by omega)
    rw [Nat.add_sub_cancel_left] at this
    exact this
  refine ⟨Nat.le_refl _, by show s.pos + len ≤ buf.size; omega,
    by show s.pos + len - (s.pos + len) ≤ maxSymbLen; omega, ?_, ?_⟩
  · intro e he
    rcases List.mem_cons.mp he with rfl | he
    · refine ⟨by show (pendingLits buf s).length ≤ maxSymbLen; omega, Or.inr (by simp), ?_⟩
      intro len' off' h
      simp only [Option.some.injEq, Prod.mk.injEq] at h
      obtain ⟨rfl, rfl⟩ := h
      exact ⟨h4, by omega, by omega, by omega⟩
    · exact hout e he
  · refine ⟨⟨buf.toList.take (s.pos + len),
        d.starts ++ litStarts s.litStart (s.pos - s.litStart) ++ [s.pos]⟩, ?_, rfl, ?_, ?_, ?_⟩
    · show applyEls DSt.init (_ :: s.out).reverse = _
      rw [List.reverse_cons]
      exact applyEls_snoc _ hd happ
    · show (d.starts ++ litStarts s.litStart (s.pos - s.litStart) ++ [s.pos]).length ≤ s.pos + len
      simp only [List.length_append, litStarts_length, List.length_cons, List.length_nil]; omega
    · show (d.starts ++ litStarts s.litStart (s.pos - s.litStart) ++ [s.pos]).length
          + (s.pos + len - (s.pos + len)) = (dictAdd c buf s.pos s.dict).num
      rw [dictAdd_num]
      simp only [List.length_append, litStarts_length, List.length_cons, List.length_nil]; omega
    · show TabInv (Ref (d.starts ++ litStarts s.litStart (s.pos - s.litStart) ++ [s.pos]
          ++ litStarts (s.pos + len) (s.pos + len - (s.pos + len)))) _ _
      rw [Nat.sub_self, litStarts_zero, List.append_nil]
      apply tabInv_dictAdd
      · exact htab.mono (fun p m h => h.append _)
      · rw [← hlen]; exact Ref.last _ _ _

theorem encLoop_inv (c : Cfg) (buf : Array UInt8) (hsz : buf.size ≤ c.bufLen) (n : Nat) :
    ∀ s : ESt, buf.size - s.pos ≤ n → EInv c buf s →
      EInv c buf (encLoop c buf s) ∧ (encLoop c buf s).pos = buf.size := by
  induction n with
  | zero =>
    intro s hn hinv
    have := hinv.pos_le
    rw [encLoop, if_neg (by omega)]
    exact ⟨hinv, by omega⟩
  | succ n ih =>
    intro s hn hinv
    have hpl := hinv.pos_le
    rw [encLoop]
    by_cases hlt : s.pos < buf.size
    · rw [if_pos hlt]
      dsimp only
      by_cases hr : (findLongest c buf s.pos s.dict).1 = 0
      · rw [if_pos hr]
        exact ih _ (by show buf.size - (s.pos + 1) ≤ n; omega) (hinv.lit_step hlt)
      · rw [if_neg hr]
        exact ih _ (by show buf.size - (s.pos + (findLongest c buf s.pos s.dict).1) ≤ n; omega)
          (hinv.ref_step hsz hlt hr)
    · rw [if_neg hlt]
      exact ⟨hinv, by omega⟩

theorem EInv.start (c : Cfg) (buf : Array UInt8) :
    EInv c buf ⟨0, 0, ⟨resetTable c.tableSize, 0, 0⟩, []⟩ := by
  refine ⟨Nat.le_refl _, Nat.zero_le _, Nat.zero_le _, ?_,
    ⟨DSt.init, rfl, rfl, Nat.le_refl _, rfl, tabInv_reset _ _⟩⟩
  intro e he
  cases he

/-- `encode_valid`: the elements written for one buffer are a valid parse of it -/
theorem encodeBufEls_valid (c : Cfg) (buf : Array UInt8) (hsz : buf.size ≤ c.bufLen) :
    (∃ starts, applyEls DSt.init (encodeBufEls c buf) = some ⟨buf.toList, starts⟩) ∧
    (∀ e ∈ encodeBufEls c buf, ElOk c e) ∧
    (buf.size ≠ 0 → encodeBufEls c buf ≠ []) := by
  have ⟨hinv, hpos⟩ := encLoop_inv c buf hsz buf.size ⟨0, 0, ⟨resetTable c.tableSize, 0, 0⟩, []⟩
    (by show buf.size - 0 ≤ buf.size; omega) (EInv.start c buf)
  unfold encodeBufEls
  dsimp only
  generalize encLoop c buf ⟨0, 0, ⟨resetTable c.tableSize, 0, 0⟩, []⟩ = s at hinv hpos
  obtain ⟨hls, hpl, hll, hout, d, hd, hbuf, hsl, hnum, htab⟩ := hinv
  have hinv : EInv c buf s := ⟨hls, hpl, hll, hout, d, hd, hbuf, hsl, hnum, htab⟩
  have ⟨hdb, hpn, hbp⟩ := hinv.pending hbuf
  have hl : buf.toList.length = buf.size := Array.length_toList
  have htake : buf.toList.take s.pos = buf.toList := by
    rw [hpos, ← hl, List.take_length]
  by_cases hf : s.litStart < s.pos
  · rw [if_pos hf]
    refine ⟨⟨d.starts ++ litStarts d.buf.length (pendingLits buf s).length, ?_⟩, ?_, ?_⟩
    · rw [List.reverse_cons]
      have := applyEls_snoc ⟨pendingLits buf s, none⟩ hd (applyEl_lits _ _)
      rw [hbp, htake] at this
      exact this
    · intro e he
      rw [List.mem_reverse] at he
      rcases List.mem_cons.mp he with rfl | he
      · refine ⟨by show (pendingLits buf s).length ≤ maxSymbLen; omega, Or.inl ?_, ?_⟩
        · intro h0
          have := congrArg List.length h0
          simp only [List.length_nil] at this
          omega
        · intro len off h; cases h
      · exact hout e he
    · intro _ h
      have := congrArg List.length h
      simp at this
  · rw [if_neg hf]
    have heq : s.litStart = s.pos := by omega
    refine ⟨⟨d.starts, ?_⟩, ?_, ?_⟩
    · rw [hd]
      congr 1
      cases d
      simp only [DSt.mk.injEq, and_true]
      simp only at hbuf
      rw [hbuf, heq, htake]
    · intro e he
      rw [List.mem_reverse] at he
      exact hout e he
    · intro hne h
      have h1 : s.out = [] := by simpa using h
      rw [h1] at hd
      simp only [List.reverse_nil, applyEls, Option.some.injEq] at hd
      subst hd
      have : (DSt.init).buf.length = s.litStart := hdb
      simp only [DSt.init, List.length_nil] at this
      omega

end MirVerif.Reduce
