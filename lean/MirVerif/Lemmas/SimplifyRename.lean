import MirVerif.Model.SimplifyInline
/-! `rename_regs`: the spelling `.c<n>_<name>` determines both the inlining instance `n` and the
callee register `name`. -/
namespace MirVerif.Simplify

theorem dch_inj : ∀ a, a < 10 → ∀ b, b < 10 → dch a = dch b → a = b := by decide

theorem dch_ne_underscore : ∀ a, a < 10 → dch a ≠ '_' := by decide

theorem dch_mod_ne (n : Nat) : dch (n % 10) ≠ '_' := dch_ne_underscore _ (Nat.mod_lt _ (by decide))

theorem digitsRev_ne_nil (n : Nat) : digitsRev n ≠ [] := by
  rw [digitsRev]; split <;> simp

theorem digitsRev_no_underscore (n : Nat) : ∀ c ∈ digitsRev n, c ≠ '_' := by
  induction n using Nat.strongRecOn with
  | _ n ih =>
    rw [digitsRev]
    split
    · rename_i h; intro c hc; simp at hc; subst hc; exact dch_ne_underscore n h
    · rename_i h
      intro c hc
      simp only [List.mem_cons] at hc
      rcases hc with rfl | hc
      · exact dch_mod_ne n
      · exact ih (n / 10) (by omega) c hc

theorem digitsRev_inj (n : Nat) : ∀ m, digitsRev n = digitsRev m → n = m := by
  induction n using Nat.strongRecOn with
  | _ n ih =>
    intro m h
    have en := digitsRev.eq_1 n
    have em := digitsRev.eq_1 m
    rw [en, em] at h
    by_cases hn : n < 10 <;> by_cases hm : m < 10
    · simp only [hn, hm, dite_true] at h
      exact dch_inj n hn m hm (by simpa using h)
    · simp only [hn, hm, dite_true, dite_false] at h
      injection h with _ h2
      exact absurd h2.symm (digitsRev_ne_nil _)
    · simp only [hn, hm, dite_true, dite_false] at h
      injection h with _ h2
      exact absurd h2 (digitsRev_ne_nil _)
    · simp only [hn, hm, dite_false] at h
      injection h with h1 h2
      have e1 : n % 10 = m % 10 := dch_inj _ (Nat.mod_lt _ (by decide)) _ (Nat.mod_lt _ (by decide)) h1
      have e2 : n / 10 = m / 10 := ih (n / 10) (by omega) (m / 10) h2
      omega

/-- two lists that agree up to and including a separator not occurring in the prefixes -/
theorem split_at_sep {α} (sep : α) : ∀ (xs ys a b : List α), (∀ c ∈ xs, c ≠ sep) → (∀ c ∈ ys, c ≠ sep) →
    xs ++ sep :: a = ys ++ sep :: b → xs = ys ∧ a = b
  | [], [], a, b, _, _, h => by simpa using h
  | [], y :: ys, a, b, _, hy, h => by
    simp at h; exact absurd h.1.symm (hy y (by simp))
  | x :: xs, [], a, b, hx, _, h => by
    simp at h; exact absurd h.1 (hx x (by simp))
  | x :: xs, y :: ys, a, b, hx, hy, h => by
    simp only [List.cons_append, List.cons.injEq] at h
    obtain ⟨h1, h2⟩ := h
    have := split_at_sep sep xs ys a b (fun c hc => hx c (by simp [hc])) (fun c hc => hy c (by simp [hc])) h2
    exact ⟨by rw [h1, this.1], this.2⟩

theorem inlNameChars_inj (n m : Nat) (a b : List Char) (h : inlNameChars n a = inlNameChars m b) :
    n = m ∧ a = b := by
  simp only [inlNameChars, List.cons_append, List.nil_append, List.cons.injEq, true_and] at h
  have hn : ∀ c ∈ digits n, c ≠ '_' := fun c hc => digitsRev_no_underscore n c (by simpa [digits] using hc)
  have hm : ∀ c ∈ digits m, c ≠ '_' := fun c hc => digitsRev_no_underscore m c (by simpa [digits] using hc)
  obtain ⟨h1, h2⟩ := split_at_sep '_' _ _ _ _ hn hm h
  refine ⟨digitsRev_inj n m ?_, h2⟩
  simpa [digits] using h1

end MirVerif.Simplify
