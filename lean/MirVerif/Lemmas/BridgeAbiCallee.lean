import Std.Tactic.BVDecide
import MirVerif.Model.AbiCallee
/-! C06 bridge: the bit-level rounding the code performs (`(n + 15) & -16` on 64-bit values) equals
the arithmetic rounding the property theorem `alloca_aligned` is stated about.  `bv_decide` is
used for the mask/shift identity only (this file is a `Lemmas/Bridge*` file). -/
namespace MirVerif.AbiCallee

theorem allocaRoundBV_shift (n : BitVec 64) : allocaRoundBV n = ((n + 15#64) >>> 4) <<< 4 := by
  unfold allocaRoundBV
  bv_decide

/-- for every request that does not wrap around 2^64 the code's rounding is `allocaRound` -/
theorem allocaRoundBV_toNat (n : BitVec 64) (h : n.toNat + 15 < 2 ^ 64) :
    (allocaRoundBV n).toNat = allocaRound n.toNat := by
  rw [allocaRoundBV_shift]
  have h1 : (n + 15#64).toNat = n.toNat + 15 := by
    rw [BitVec.toNat_add]
    simp
    omega
  rw [BitVec.toNat_shiftLeft, BitVec.toNat_ushiftRight, h1, Nat.shiftLeft_eq, Nat.shiftRight_eq_div_pow]
  unfold allocaRound
  omega

end MirVerif.AbiCallee
