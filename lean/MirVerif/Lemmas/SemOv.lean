import MirVerif.Lemmas.Sem
/-! Overflow-flag formulas of the interpreter = mathematical overflow (widths 64 and 32). Generated once by a script, then kept as source. -/
namespace MirVerif

theorem b64 (x : BitVec 64) : -9223372036854775808 ≤ x.toInt ∧ x.toInt < 9223372036854775808 ∧ x.toNat < 18446744073709551616 := by
  have h1 := BitVec.toInt_lt (x := x); have h2 := BitVec.le_toInt (x := x); have := x.isLt
  simp at h1 h2; omega

theorem bmod64 (i : Int) (h1 : -9223372036854775808 ≤ i) (h2 : i < 9223372036854775808) : i.bmod 18446744073709551616 = i := by
  unfold Int.bmod; simp only []; split <;> omega

theorem toInt_intMax64 : (BitVec.intMax 64).toInt = 9223372036854775807 := by rw [BitVec.toInt_intMax]; rfl
theorem toInt_intMin64 : (BitVec.intMin 64).toInt = -9223372036854775808 := by rw [BitVec.toInt_intMin]; rfl

theorem toInt_sub64 (a b : BitVec 64) (h1 : -9223372036854775808 ≤ a.toInt - b.toInt) (h2 : a.toInt - b.toInt < 9223372036854775808) :
    (a - b).toInt = a.toInt - b.toInt := by
  rw [BitVec.toInt_sub]; exact bmod64 _ h1 h2
theorem toInt_add64 (a b : BitVec 64) (h1 : -9223372036854775808 ≤ a.toInt + b.toInt) (h2 : a.toInt + b.toInt < 9223372036854775808) :
    (a + b).toInt = a.toInt + b.toInt := by
  rw [BitVec.toInt_add]; exact bmod64 _ h1 h2

theorem allOnes_sub_toNat64 (y : BitVec 64) : (BitVec.allOnes 64 - y).toNat = 18446744073709551615 - y.toNat := by
  have := b64 y
  rw [BitVec.toNat_sub, BitVec.toNat_allOnes]; omega

theorem addo64_flags (x y : BitVec 64) : interpAddO x y = docAddO x y := by
  unfold interpAddO docAddO
  have hx := b64 x; have hy := b64 y
  refine Prod.ext (add_doc x y) (Prod.ext ?_ ?_)
  · simp only [BitVec.slt_eq_decide, BitVec.sle_eq_decide]
    rw [Bool.eq_iff_iff]
    by_cases h : (0 : Int) ≤ y.toInt
    · rw [if_pos (by simpa using h), toInt_sub64 _ _ (by rw [toInt_intMax64]; omega) (by rw [toInt_intMax64]; omega), toInt_intMax64]
      simp only [decide_eq_true_eq]; omega
    · rw [if_neg (by simpa using h), toInt_sub64 _ _ (by rw [toInt_intMin64]; omega) (by rw [toInt_intMin64]; omega), toInt_intMin64]
      simp only [decide_eq_true_eq]; omega
  · simp only [BitVec.ult_eq_decide, allOnes_sub_toNat64]
    rw [Bool.eq_iff_iff]; simp only [decide_eq_true_eq]
    omega

theorem subo64_flags (x y : BitVec 64) : interpSubO x y = docSubO x y := by
  unfold interpSubO docSubO
  have hx := b64 x; have hy := b64 y
  refine Prod.ext (sub_doc x y) (Prod.ext ?_ ?_)
  · simp only [BitVec.slt_eq_decide]
    rw [Bool.eq_iff_iff]
    by_cases h : y.toInt < 0
    · rw [if_pos (by simpa using h), toInt_add64 _ _ (by rw [toInt_intMax64]; omega) (by rw [toInt_intMax64]; omega), toInt_intMax64]
      simp only [decide_eq_true_eq]; omega
    · rw [if_neg (by simpa using h), toInt_add64 _ _ (by rw [toInt_intMin64]; omega) (by rw [toInt_intMin64]; omega), toInt_intMin64]
      simp only [decide_eq_true_eq]; omega
  · simp only [BitVec.ult_eq_decide]

theorem umulo64_flags (x y : BitVec 64) : interpUMulO x y = docUMulO x y := by
  unfold interpUMulO docUMulO
  have hx := b64 x; have hy := b64 y
  refine Prod.ext ?_ ?_
  · apply eq_wrapN; rw [BitVec.toNat_mul]
  · simp only
    by_cases h : x = 0
    · subst h; simp
    · rw [if_neg h, BitVec.ult_eq_decide, BitVec.toNat_udiv, BitVec.toNat_allOnes]
      have hx0 : 0 < x.toNat := by
        rcases Nat.eq_zero_or_pos x.toNat with h0 | h0
        · exact absurd ((toNat_eq_zero_iff x).1 h0) h
        · exact h0
      rw [Bool.eq_iff_iff]; simp only [decide_eq_true_eq]
      rw [Nat.div_lt_iff_lt_mul hx0]
      show 18446744073709551616 - 1 < y.toNat * x.toNat ↔ _
      rw [Nat.mul_comm]; omega


theorem b32 (x : BitVec 32) : -2147483648 ≤ x.toInt ∧ x.toInt < 2147483648 ∧ x.toNat < 4294967296 := by
  have h1 := BitVec.toInt_lt (x := x); have h2 := BitVec.le_toInt (x := x); have := x.isLt
  simp at h1 h2; omega

theorem bmod32 (i : Int) (h1 : -2147483648 ≤ i) (h2 : i < 2147483648) : i.bmod 4294967296 = i := by
  unfold Int.bmod; simp only []; split <;> omega

theorem toInt_intMax32 : (BitVec.intMax 32).toInt = 2147483647 := by rw [BitVec.toInt_intMax]; rfl
theorem toInt_intMin32 : (BitVec.intMin 32).toInt = -2147483648 := by rw [BitVec.toInt_intMin]; rfl

theorem toInt_sub32 (a b : BitVec 32) (h1 : -2147483648 ≤ a.toInt - b.toInt) (h2 : a.toInt - b.toInt < 2147483648) :
    (a - b).toInt = a.toInt - b.toInt := by
  rw [BitVec.toInt_sub]; exact bmod32 _ h1 h2
theorem toInt_add32 (a b : BitVec 32) (h1 : -2147483648 ≤ a.toInt + b.toInt) (h2 : a.toInt + b.toInt < 2147483648) :
    (a + b).toInt = a.toInt + b.toInt := by
  rw [BitVec.toInt_add]; exact bmod32 _ h1 h2

theorem allOnes_sub_toNat32 (y : BitVec 32) : (BitVec.allOnes 32 - y).toNat = 4294967295 - y.toNat := by
  have := b32 y
  rw [BitVec.toNat_sub, BitVec.toNat_allOnes]; omega

theorem addo32_flags (x y : BitVec 32) : interpAddO x y = docAddO x y := by
  unfold interpAddO docAddO
  have hx := b32 x; have hy := b32 y
  refine Prod.ext (add_doc x y) (Prod.ext ?_ ?_)
  · simp only [BitVec.slt_eq_decide, BitVec.sle_eq_decide]
    rw [Bool.eq_iff_iff]
    by_cases h : (0 : Int) ≤ y.toInt
    · rw [if_pos (by simpa using h), toInt_sub32 _ _ (by rw [toInt_intMax32]; omega) (by rw [toInt_intMax32]; omega), toInt_intMax32]
      simp only [decide_eq_true_eq]; omega
    · rw [if_neg (by simpa using h), toInt_sub32 _ _ (by rw [toInt_intMin32]; omega) (by rw [toInt_intMin32]; omega), toInt_intMin32]
      simp only [decide_eq_true_eq]; omega
  · simp only [BitVec.ult_eq_decide, allOnes_sub_toNat32]
    rw [Bool.eq_iff_iff]; simp only [decide_eq_true_eq]
    omega

theorem subo32_flags (x y : BitVec 32) : interpSubO x y = docSubO x y := by
  unfold interpSubO docSubO
  have hx := b32 x; have hy := b32 y
  refine Prod.ext (sub_doc x y) (Prod.ext ?_ ?_)
  · simp only [BitVec.slt_eq_decide]
    rw [Bool.eq_iff_iff]
    by_cases h : y.toInt < 0
    · rw [if_pos (by simpa using h), toInt_add32 _ _ (by rw [toInt_intMax32]; omega) (by rw [toInt_intMax32]; omega), toInt_intMax32]
      simp only [decide_eq_true_eq]; omega
    · rw [if_neg (by simpa using h), toInt_add32 _ _ (by rw [toInt_intMin32]; omega) (by rw [toInt_intMin32]; omega), toInt_intMin32]
      simp only [decide_eq_true_eq]; omega
  · simp only [BitVec.ult_eq_decide]

theorem umulo32_flags (x y : BitVec 32) : interpUMulO x y = docUMulO x y := by
  unfold interpUMulO docUMulO
  have hx := b32 x; have hy := b32 y
  refine Prod.ext ?_ ?_
  · apply eq_wrapN; rw [BitVec.toNat_mul]
  · simp only
    by_cases h : x = 0
    · subst h; simp
    · rw [if_neg h, BitVec.ult_eq_decide, BitVec.toNat_udiv, BitVec.toNat_allOnes]
      have hx0 : 0 < x.toNat := by
        rcases Nat.eq_zero_or_pos x.toNat with h0 | h0
        · exact absurd ((toNat_eq_zero_iff x).1 h0) h
        · exact h0
      rw [Bool.eq_iff_iff]; simp only [decide_eq_true_eq]
      rw [Nat.div_lt_iff_lt_mul hx0]
      show 4294967296 - 1 < y.toNat * x.toNat ↔ _
      rw [Nat.mul_comm]; omega

theorem tdiv_pos_pos (a x : Int) (ha : 0 ≤ a) (hx : 0 < x) (y : Int) :
    a.tdiv x < y ↔ a < y * x := by
  rw [Int.tdiv_eq_ediv_of_nonneg ha, Int.ediv_lt_iff_lt_mul hx]

/-- the interpreter's signed-multiplication overflow test, over mathematical integers -/
theorem mulo_int (M : Int) (hM : 0 < M) (x y : Int) (hx0 : x ≠ 0) :
    (if 0 < x then (if 0 < y then (M - 1).tdiv x < y else y < (-M).tdiv x)
     else (if 0 < y then (-M).tdiv x < y else y < (M - 1).tdiv x))
    ↔ (x * y < -M ∨ M ≤ x * y) := by
  by_cases hx : 0 < x
  · rw [if_pos hx]
    by_cases hy : 0 < y
    · rw [if_pos hy, tdiv_pos_pos _ _ (by omega) hx]
      have hp : 0 < x * y := Int.mul_pos hx hy
      rw [Int.mul_comm y x]; omega
    · rw [if_neg hy, Int.neg_tdiv]
      have h1 : y < -(M.tdiv x) ↔ M.tdiv x < -y := by omega
      rw [h1, tdiv_pos_pos _ _ (by omega) hx]
      have hp : x * y ≤ 0 := Int.mul_nonpos_of_nonneg_of_nonpos (by omega) (by omega)
      have h2 : -y * x = -(x * y) := by rw [Int.neg_mul, Int.mul_comm]
      rw [h2]; omega
  · rw [if_neg hx]
    have hx' : 0 < -x := by omega
    by_cases hy : 0 < y
    · rw [if_pos hy]
      have e : (-M).tdiv x = M.tdiv (-x) := by rw [Int.neg_tdiv, Int.tdiv_neg]
      rw [e, tdiv_pos_pos _ _ (by omega) hx']
      have hp : x * y < 0 := Int.mul_neg_of_neg_of_pos (by omega) hy
      have h2 : y * -x = -(x * y) := by rw [Int.mul_neg, Int.mul_comm]
      rw [h2]; omega
    · rw [if_neg hy]
      have e : (M - 1).tdiv x = -((M - 1).tdiv (-x)) := by rw [Int.tdiv_neg, Int.neg_neg]
      rw [e]
      have h1 : y < -((M - 1).tdiv (-x)) ↔ (M - 1).tdiv (-x) < -y := by omega
      rw [h1, tdiv_pos_pos _ _ (by omega) hx']
      have hp : 0 ≤ x * y := Int.mul_nonneg_of_nonpos_of_nonpos (by omega) (by omega)
      have h2 : -y * -x = x * y := by rw [Int.neg_mul_neg, Int.mul_comm]
      rw [h2]; omega

theorem tdiv_bounds64 (a b : Int) (ha : -9223372036854775808 ≤ a ∧ a < 9223372036854775808) (h : ¬ (a = -9223372036854775808 ∧ b = -1)) :
    -9223372036854775808 ≤ a.tdiv b ∧ a.tdiv b < 9223372036854775808 := by
  by_cases hb0 : b = 0
  · subst hb0; simp [Int.tdiv_zero]
  by_cases hb1 : b = 1
  · subst hb1; simp [Int.tdiv_one]; omega
  by_cases hbm : b = -1
  · subst hbm; rw [show (-1 : Int) = -(1 : Int) from rfl, Int.tdiv_neg, Int.tdiv_one]; omega
  · have h2 : 2 ≤ b.natAbs := by omega
    have h3 := Int.natAbs_tdiv a b
    have h4 : a.natAbs.div b.natAbs ≤ a.natAbs / 2 := Nat.div_le_div_left h2 (by omega)
    have h5 : a.natAbs / 2 ≤ 4611686018427387904 := by omega
    omega

theorem toInt_sdiv64 (a b : BitVec 64) (h : ¬ (a.toInt = -9223372036854775808 ∧ b.toInt = -1)) :
    (a.sdiv b).toInt = a.toInt.tdiv b.toInt := by
  have ha := b64 a
  have := tdiv_bounds64 a.toInt b.toInt ⟨ha.1, ha.2.1⟩ h
  rw [BitVec.toInt_sdiv]; exact bmod64 _ this.1 this.2

theorem mulo64_flags (x y : BitVec 64) : interpMulO x y = docMulO x y := by
  unfold interpMulO docMulO
  have hx := b64 x; have hy := b64 y
  refine Prod.ext (mul_doc x y) ?_
  simp only
  by_cases h0 : x = 0
  · subst h0; simp
  rw [if_neg h0]
  have hx0 : x.toInt ≠ 0 := fun h => h0 ((toInt_eq_zero_iff x).1 h)
  by_cases h1 : x = BitVec.allOnes 64
  · rw [if_pos h1]
    have hx1 : x.toInt = -1 := (eq_allOnes_iff (by decide) x).1 h1
    have hm : (-(BitVec.intMax 64)).toInt = -9223372036854775807 := by
      rw [BitVec.toInt_neg, toInt_intMax64]; exact bmod64 _ (by omega) (by omega)
    rw [BitVec.slt_eq_decide, hm, hx1, Bool.eq_iff_iff]
    simp only [decide_eq_true_eq]; omega
  · rw [if_neg h1]
    have hx1 : x.toInt ≠ -1 := fun h => h1 ((eq_allOnes_iff (by decide) x).2 h)
    have e1 : ((BitVec.intMax 64).sdiv x).toInt = (9223372036854775808 - 1 : Int).tdiv x.toInt := by
      rw [toInt_sdiv64 _ _ (by rw [toInt_intMax64]; omega), toInt_intMax64]; rfl
    have e2 : ((BitVec.intMin 64).sdiv x).toInt = (-9223372036854775808 : Int).tdiv x.toInt := by
      rw [toInt_sdiv64 _ _ (by omega), toInt_intMin64]
    have key := mulo_int 9223372036854775808 (by omega) x.toInt y.toInt hx0
    have z : BitVec.toInt (0 : BitVec 64) = 0 := by simp
    simp only [BitVec.slt_eq_decide, z, e1, e2]
    rw [Bool.eq_iff_iff]
    simp only [decide_eq_true_eq, ge_iff_le, Nat.reduceSub, Int.reducePow] at key ⊢
    rw [← key]
    by_cases hxp : 0 < x.toInt <;> by_cases hyp : 0 < y.toInt <;> simp [hxp, hyp]


theorem tdiv_bounds32 (a b : Int) (ha : -2147483648 ≤ a ∧ a < 2147483648) (h : ¬ (a = -2147483648 ∧ b = -1)) :
    -2147483648 ≤ a.tdiv b ∧ a.tdiv b < 2147483648 := by
  by_cases hb0 : b = 0
  · subst hb0; simp [Int.tdiv_zero]
  by_cases hb1 : b = 1
  · subst hb1; simp [Int.tdiv_one]; omega
  by_cases hbm : b = -1
  · subst hbm; rw [show (-1 : Int) = -(1 : Int) from rfl, Int.tdiv_neg, Int.tdiv_one]; omega
  · have h2 : 2 ≤ b.natAbs := by omega
    have h3 := Int.natAbs_tdiv a b
    have h4 : a.natAbs.div b.natAbs ≤ a.natAbs / 2 := Nat.div_le_div_left h2 (by omega)
    have h5 : a.natAbs / 2 ≤ 1073741824 := by omega
    omega

theorem toInt_sdiv32 (a b : BitVec 32) (h : ¬ (a.toInt = -2147483648 ∧ b.toInt = -1)) :
    (a.sdiv b).toInt = a.toInt.tdiv b.toInt := by
  have ha := b32 a
  have := tdiv_bounds32 a.toInt b.toInt ⟨ha.1, ha.2.1⟩ h
  rw [BitVec.toInt_sdiv]; exact bmod32 _ this.1 this.2

theorem mulo32_flags (x y : BitVec 32) : interpMulO x y = docMulO x y := by
  unfold interpMulO docMulO
  have hx := b32 x; have hy := b32 y
  refine Prod.ext (mul_doc x y) ?_
  simp only
  by_cases h0 : x = 0
  · subst h0; simp
  rw [if_neg h0]
  have hx0 : x.toInt ≠ 0 := fun h => h0 ((toInt_eq_zero_iff x).1 h)
  by_cases h1 : x = BitVec.allOnes 32
  · rw [if_pos h1]
    have hx1 : x.toInt = -1 := (eq_allOnes_iff (by decide) x).1 h1
    have hm : (-(BitVec.intMax 32)).toInt = -2147483647 := by
      rw [BitVec.toInt_neg, toInt_intMax32]; exact bmod32 _ (by omega) (by omega)
    rw [BitVec.slt_eq_decide, hm, hx1, Bool.eq_iff_iff]
    simp only [decide_eq_true_eq]; omega
  · rw [if_neg h1]
    have hx1 : x.toInt ≠ -1 := fun h => h1 ((eq_allOnes_iff (by decide) x).2 h)
    have e1 : ((BitVec.intMax 32).sdiv x).toInt = (2147483648 - 1 : Int).tdiv x.toInt := by
      rw [toInt_sdiv32 _ _ (by rw [toInt_intMax32]; omega), toInt_intMax32]; rfl
    have e2 : ((BitVec.intMin 32).sdiv x).toInt = (-2147483648 : Int).tdiv x.toInt := by
      rw [toInt_sdiv32 _ _ (by omega), toInt_intMin32]
    have key := mulo_int 2147483648 (by omega) x.toInt y.toInt hx0
    have z : BitVec.toInt (0 : BitVec 32) = 0 := by simp
    simp only [BitVec.slt_eq_decide, z, e1, e2]
    rw [Bool.eq_iff_iff]
    simp only [decide_eq_true_eq, ge_iff_le, Nat.reduceSub, Int.reducePow] at key ⊢
    rw [← key]
    by_cases hxp : 0 < x.toInt <;> by_cases hyp : 0 < y.toInt <;> simp [hxp, hyp]


end MirVerif
