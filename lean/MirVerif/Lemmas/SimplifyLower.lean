import MirVerif.Model.Simplify
import MirVerif.Lemmas.Sem
/-! Lowering of a memory operand (`simplify_op`, case `MIR_OP_MEM`): the emitted instruction
sequence leaves `disp + base + index * scale` in the address register and changes no register of
the program as written.  Value-numbered temporaries: well-formedness of the table is preserved. -/
namespace MirVerif.Simplify
open MirVerif.MirCore

/-! ## value numbering -/

/-- every temporary in the table has already been allocated, and no temporary stands for two keys -/
def VnWF (st : St) : Prop :=
  (∀ k t, vnFind st.vn k = some t → t < st.next) ∧
  (∀ k k' t, vnFind st.vn k = some t → vnFind st.vn k' = some t → k = k')

theorem vnFind_cons (k0 : Key) (t0 : Nat) (vn : List (Key × Nat)) (k : Key) :
    vnFind ((k0, t0) :: vn) k = if k0 = k then some t0 else vnFind vn k := rfl

theorem VnWF_init (l : Nat) (o : Opts) : VnWF { lab := l, opts := o } := by
  constructor <;> intro k <;> simp [vnFind]

theorem vnAdd_spec (st : St) (k : Key) (h : VnWF st) :
    ∃ t, (vnAdd st k).1 = .temp t ∧ VnWF (vnAdd st k).2 ∧ vnFind (vnAdd st k).2.vn k = some t ∧
      (∀ k' t', vnFind st.vn k' = some t' → vnFind (vnAdd st k).2.vn k' = some t') := by
  unfold vnAdd
  cases hf : vnFind st.vn k with
  | some t => exact ⟨t, rfl, h, hf, fun _ _ h' => h'⟩
  | none =>
    refine ⟨st.next, rfl, ⟨?_, ?_⟩, by simp [vnFind_cons], ?_⟩
    · intro k' t' hk
      simp only [vnFind_cons] at hk
      split at hk
      · cases hk; exact Nat.lt_succ_self _
      · exact Nat.lt_succ_of_lt (h.1 k' t' hk)
    · intro k1 k2 t h1 h2
      simp only [vnFind_cons] at h1 h2
      split at h1 <;> split at h2
      · subst_vars; rfl
      · cases h1; exact absurd (h.1 _ _ h2) (Nat.lt_irrefl _)
      · cases h2; exact absurd (h.1 _ _ h1) (Nat.lt_irrefl _)
      · exact h.2 _ _ _ h1 h2
    · intro k' t' hk
      simp only [vnFind_cons]
      split
      · subst_vars; rw [hf] at hk; cases hk
      · exact hk

/-! ## one step of straight-line code on registers -/
section exec
variable {μ : Type} [ByteMem μ]

theorem docSem_add (x y : W64) : docSem .add false x y = some (x + y) := by
  simp [docSem, docBin, ← add_doc]

theorem docSem_mul (x y : W64) : docSem .mul false x y = some (x * y) := by
  simp [docSem, docBin, ← mul_doc]

@[simp] theorem execSeq_nil (fr : Frame R) (g : G μ) : execSeq [] fr g = .ok (fr, g) := rfl

theorem execSeq_movi (t : R) (v : W64) (tl : List SInsn) (fr : Frame R) (g : G μ) :
    execSeq (.mov (.reg t) (.imm v) :: tl) fr g
      = execSeq tl (next { fr with regs := fr.regs.set t v }) g := by
  simp [execSeq, stepInsn, evalOpd, setOpd, bind, Except.bind, pure, Except.pure]

theorem execSeq_add (t x y : R) (tl : List SInsn) (fr : Frame R) (g : G μ) :
    execSeq (.bin .add false (.reg t) (.reg x) (.reg y) :: tl) fr g
      = execSeq tl (next { fr with regs := fr.regs.set t (fr.regs.get x + fr.regs.get y) }) g := by
  simp [execSeq, stepInsn, evalOpd, setOpd, bind, Except.bind, pure, Except.pure, docSem_add, ofOpt]

theorem execSeq_mul (t x y : R) (tl : List SInsn) (fr : Frame R) (g : G μ) :
    execSeq (.bin .mul false (.reg t) (.reg x) (.reg y) :: tl) fr g
      = execSeq tl (next { fr with regs := fr.regs.set t (fr.regs.get x * fr.regs.get y) }) g := by
  simp [execSeq, stepInsn, evalOpd, setOpd, bind, Except.bind, pure, Except.pure, docSem_mul, ofOpt]

end exec

/-- registers of the program as written -/
def isUser : Option R → Prop
  | some (.temp _) => False
  | _ => True

end MirVerif.Simplify

namespace MirVerif.Simplify
open MirVerif.MirCore

theorem vn_distinct {st : St} (h : VnWF st) {k1 k2 : Key} {t1 t2 : Nat}
    (h1 : vnFind st.vn k1 = some t1) (h2 : vnFind st.vn k2 = some t2) (hne : k1 ≠ k2) : t1 ≠ t2 := by
  intro e; subst e; exact hne (h.2 _ _ _ h1 h2)

/-- `vnAdd` in the form used for rewriting -/
theorem vnAdd_eq (st : St) (k : Key) (h : VnWF st) :
    ∃ t st', vnAdd st k = (.temp t, st') ∧ VnWF st' ∧ vnFind st'.vn k = some t ∧
      (∀ k' t', vnFind st.vn k' = some t' → vnFind st'.vn k' = some t') := by
  obtain ⟨t, e, w, f, m⟩ := vnAdd_spec st k h
  exact ⟨t, (vnAdd st k).2, by rw [← e], w, f, m⟩

section lower
variable {μ : Type} [ByteMem μ]

/-- what one run of the address computation guarantees -/
def LowerOk (m : MemOp R) (fr : Frame R) (g : G μ) (res : List SInsn × R × St) : Prop :=
  ∃ fr', execSeq res.1 fr g = .ok (fr', g) ∧
    fr'.regs.get res.2.1 = m.addr fr.regs ∧
    (∀ s, fr'.regs.get (.user s) = fr.regs.get (.user s)) ∧
    VnWF res.2.2

theorem get_user_set_temp (rs : Regs R) (n : Nat) (v : W64) (s : String) :
    (rs.set (.temp n) v).get (.user s) = rs.get (.user s) := by
  rw [Regs.get_set]; simp

/-- base only -/
theorem lower_base_only (st : St) (ty : Ty) (disp : W64) (b : String) (scale : Nat) (fr : Frame R) (g : G μ)
    (hwf : VnWF st) :
    LowerOk { ty := ty, disp := disp, base := some (.user b), index := none, scale := scale } fr g
      (lowerAddr st { ty := ty, disp := disp, base := some (.user b), index := none, scale := scale }) := by
  unfold LowerOk lowerAddr
  by_cases hd : disp = 0
  · simp [hd, MemOp.addr, optGet, hwf]
  · simp only [hd, if_false]
    obtain ⟨n1, st1, e1, w1, f1, m1⟩ := vnAdd_eq st (.const disp) hwf
    simp only [e1]
    obtain ⟨n2, st2, e2, w2, f2, m2⟩ := vnAdd_eq st1 (.add (.user b) (.temp n1)) w1
    simp only [e2, execSeq_movi, execSeq_add, execSeq_nil]
    refine ⟨_, rfl, ?_, ?_, w2⟩
    · have hne : n2 ≠ n1 := vn_distinct w2 f2 (m2 _ _ f1) (by simp)
      simp [next, Regs.get_set, MemOp.addr, optGet, hne, BitVec.add_comm]
    · intro s; simp [next, get_user_set_temp]

/-- neither base nor index -/
theorem lower_abs (st : St) (ty : Ty) (disp : W64) (scale : Nat) (fr : Frame R) (g : G μ) (hwf : VnWF st) :
    LowerOk { ty := ty, disp := disp, base := none, index := none, scale := scale } fr g
      (lowerAddr st { ty := ty, disp := disp, base := none, index := none, scale := scale }) := by
  unfold LowerOk lowerAddr
  obtain ⟨n1, st1, e1, w1, f1, m1⟩ := vnAdd_eq st (.const disp) hwf
  simp only [e1, execSeq_movi, execSeq_nil]
  refine ⟨_, rfl, ?_, ?_, w1⟩
  · simp [next, MemOp.addr, optGet]
  · intro s; simp [next, get_user_set_temp]

/-- index, with or without base; `scale ≠ 0` (MIR.md: 1, 2, 4 or 8; any non-zero value works) -/
theorem lower_index (st : St) (ty : Ty) (disp : W64) (b? : Option String) (i : String) (scale : Nat)
    (fr : Frame R) (g : G μ) (hwf : VnWF st) (hs : scale ≠ 0) :
    LowerOk { ty := ty, disp := disp, base := b?.map .user, index := some (.user i), scale := scale } fr g
      (lowerAddr st { ty := ty, disp := disp, base := b?.map .user, index := some (.user i), scale := scale }) := by
  unfold LowerOk lowerAddr
  have hs1 : scale = 1 ∨ scale > 1 := by omega
  cases b? with
  | none =>
    simp only [Option.map_none, Option.isSome_none, Option.isNone_none, Bool.false_eq_true, false_and, if_false, true_and]
    by_cases hd : disp = 0
    · rcases hs1 with h1 | h1
      · simp [hd, h1, MemOp.addr, optGet, hwf]
      · have h1' : ¬ scale = 1 := by omega
        simp only [hd, h1', false_and, if_false, if_true, h1]
        obtain ⟨n2, st2, e2, w2, f2, m2⟩ := vnAdd_eq st (.const (BitVec.ofNat 64 scale)) hwf
        simp only [e2]
        obtain ⟨n3, st3, e3, w3, f3, m3⟩ := vnAdd_eq st2 (.mul (.user i) (.temp n2)) w2
        simp only [e3, List.nil_append, List.append_nil, execSeq_movi, execSeq_mul, execSeq_nil]
        refine ⟨_, rfl, ?_, ?_, w3⟩
        · simp [next, Regs.get_set, MemOp.addr, optGet]
        · intro s; simp [next, get_user_set_temp]
    · simp only [hd, and_false, if_false]
      obtain ⟨n1, st1, e1, w1, f1, m1⟩ := vnAdd_eq st (.const disp) hwf
      simp only [e1]
      rcases hs1 with h1 | h1
      · have h1' : ¬ scale > 1 := by omega
        simp only [h1', if_false]
        obtain ⟨n5, st5, e5, w5, f5, m5⟩ := vnAdd_eq st1 (.add (.user i) (.temp n1)) w1
        simp only [e5, List.nil_append, List.append_nil, List.cons_append, execSeq_movi, execSeq_add, execSeq_nil]
        refine ⟨_, rfl, ?_, ?_, w5⟩
        · simp [next, Regs.get_set, MemOp.addr, optGet, h1, BitVec.add_comm]
        · intro s; simp [next, get_user_set_temp]
      · simp only [h1, if_true]
        obtain ⟨n2, st2, e2, w2, f2, m2⟩ := vnAdd_eq st1 (.const (BitVec.ofNat 64 scale)) w1
        simp only [e2]
        obtain ⟨n3, st3, e3, w3, f3, m3⟩ := vnAdd_eq st2 (.mul (.user i) (.temp n2)) w2
        simp only [e3]
        obtain ⟨n5, st5, e5, w5, f5, m5⟩ := vnAdd_eq st3 (.add (.temp n3) (.temp n1)) w3
        simp only [e5, List.nil_append, List.append_nil, List.cons_append, execSeq_movi, execSeq_mul, execSeq_add, execSeq_nil]
        have h31 : n3 ≠ n1 := vn_distinct w3 f3 (m3 _ _ (m2 _ _ f1)) (by simp)
        have h32 : n3 ≠ n2 := vn_distinct w3 f3 (m3 _ _ f2) (by simp)
        have h12 : n1 = n2 → disp = BitVec.ofNat 64 scale := by
          intro e; subst e
          have := w2.2 _ _ _ (m2 _ _ f1) f2
          simpa using this
        refine ⟨_, rfl, ?_, ?_, w5⟩
        · simp only [next, Regs.get_set, MemOp.addr, optGet]
          by_cases e12 : n1 = n2
          · have := h12 e12; subst e12; simp [h31, Ne.symm h31, this, BitVec.add_comm]
          · have e21 : ¬ n2 = n1 := fun e => e12 e.symm
            simp [h31, h32, e12, e21, Ne.symm h31, BitVec.add_comm]
        · intro s; simp [next, get_user_set_temp]
  | some b =>
    simp only [Option.map_some, Option.isSome_some, Option.isNone_some, Bool.false_eq_true, false_and, if_false, true_and, hs, and_false]
    by_cases hd : disp = 0
    · simp only [hd, if_true]
      rcases hs1 with h1 | h1
      · have h1' : ¬ scale > 1 := by omega
        simp only [h1', if_false]
        obtain ⟨n4, st4, e4, w4, f4, m4⟩ := vnAdd_eq st (.add (.user b) (.user i)) hwf
        simp only [e4, List.nil_append, List.append_nil, execSeq_add, execSeq_nil]
        refine ⟨_, rfl, ?_, ?_, w4⟩
        · simp [next, Regs.get_set, MemOp.addr, optGet, h1]
        · intro s; simp [next, get_user_set_temp]
      · simp only [h1, if_true]
        obtain ⟨n2, st2, e2, w2, f2, m2⟩ := vnAdd_eq st (.const (BitVec.ofNat 64 scale)) hwf
        simp only [e2]
        obtain ⟨n3, st3, e3, w3, f3, m3⟩ := vnAdd_eq st2 (.mul (.user i) (.temp n2)) w2
        simp only [e3]
        obtain ⟨n4, st4, e4, w4, f4, m4⟩ := vnAdd_eq st3 (.add (.user b) (.temp n3)) w3
        simp only [e4, List.nil_append, List.append_nil, List.cons_append, execSeq_movi, execSeq_mul, execSeq_add, execSeq_nil]
        refine ⟨_, rfl, ?_, ?_, w4⟩
        · simp [next, Regs.get_set, MemOp.addr, optGet]
        · intro s; simp [next, get_user_set_temp]
    · simp only [hd, if_false]
      obtain ⟨n1, st1, e1, w1, f1, m1⟩ := vnAdd_eq st (.const disp) hwf
      simp only [e1]
      rcases hs1 with h1 | h1
      · have h1' : ¬ scale > 1 := by omega
        simp only [h1', if_false]
        obtain ⟨n4, st4, e4, w4, f4, m4⟩ := vnAdd_eq st1 (.add (.user b) (.user i)) w1
        simp only [e4]
        obtain ⟨n5, st5, e5, w5, f5, m5⟩ := vnAdd_eq st4 (.add (.temp n4) (.temp n1)) w4
        simp only [e5, List.nil_append, List.append_nil, List.cons_append, execSeq_movi, execSeq_add, execSeq_nil]
        have h41 : n4 ≠ n1 := vn_distinct w4 f4 (m4 _ _ f1) (by simp)
        refine ⟨_, rfl, ?_, ?_, w5⟩
        · simp [next, Regs.get_set, MemOp.addr, optGet, h1, h41, Ne.symm h41] <;> ac_rfl
        · intro s; simp [next, get_user_set_temp]
      · simp only [h1, if_true]
        obtain ⟨n2, st2, e2, w2, f2, m2⟩ := vnAdd_eq st1 (.const (BitVec.ofNat 64 scale)) w1
        simp only [e2]
        obtain ⟨n3, st3, e3, w3, f3, m3⟩ := vnAdd_eq st2 (.mul (.user i) (.temp n2)) w2
        simp only [e3]
        obtain ⟨n4, st4, e4, w4, f4, m4⟩ := vnAdd_eq st3 (.add (.user b) (.temp n3)) w3
        simp only [e4]
        obtain ⟨n5, st5, e5, w5, f5, m5⟩ := vnAdd_eq st4 (.add (.temp n4) (.temp n1)) w4
        simp only [e5, List.nil_append, List.append_nil, List.cons_append, execSeq_movi, execSeq_mul, execSeq_add, execSeq_nil]
        have h31 : n3 ≠ n1 := vn_distinct w3 f3 (m3 _ _ (m2 _ _ f1)) (by simp)
        have h32 : n3 ≠ n2 := vn_distinct w3 f3 (m3 _ _ f2) (by simp)
        have h41 : n4 ≠ n1 := vn_distinct w4 f4 (m4 _ _ (m3 _ _ (m2 _ _ f1))) (by simp)
        have h42 : n4 ≠ n2 := vn_distinct w4 f4 (m4 _ _ (m3 _ _ f2)) (by simp)
        have h43 : n4 ≠ n3 := vn_distinct w4 f4 (m4 _ _ f3) (by simp)
        have h12 : n1 = n2 → disp = BitVec.ofNat 64 scale := by
          intro e; subst e
          have := w2.2 _ _ _ (m2 _ _ f1) f2
          simpa using this
        refine ⟨_, rfl, ?_, ?_, w5⟩
        · simp only [next, Regs.get_set, MemOp.addr, optGet]
          by_cases e12 : n1 = n2
          · have := h12 e12; subst e12
            simp [h31, h41, h43, Ne.symm h31, Ne.symm h41, Ne.symm h43, this] <;> ac_rfl
          · have e21 : ¬ n2 = n1 := fun e => e12 e.symm
            simp [h31, h32, h41, h42, h43, e12, e21, Ne.symm h31, Ne.symm h32, Ne.symm h41, Ne.symm h42, Ne.symm h43] <;> ac_rfl
        · intro s; simp [next, get_user_set_temp]

end lower
end MirVerif.Simplify
