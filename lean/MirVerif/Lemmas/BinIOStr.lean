import MirVerif.Lemmas.BinIOTok
/-!
# C11 lemmas, part 2: the string table (two passes) and string-numbered tokens
-/
namespace BinIO

/-! ### pass 1 collects every string of the traversal -/

theorem storeStr_mem_mono (acc : List Str) (s x : Str) (h : x ∈ acc) : x ∈ storeStr acc s := by
  unfold storeStr; split
  · exact h
  · exact List.mem_cons_of_mem _ h

theorem storeStr_mem_self (acc : List Str) (s : Str) : s ∈ storeStr acc s := by
  unfold storeStr; split
  · assumption
  · exact List.mem_cons_self

theorem foldl_storeStr_mono (l : List Str) (acc : List Str) (x : Str) (h : x ∈ acc) :
    x ∈ l.foldl storeStr acc := by
  induction l generalizing acc with
  | nil => exact h
  | cons a l ih => exact ih _ (storeStr_mem_mono _ _ _ h)

theorem foldl_storeStr_mem (l : List Str) (acc : List Str) (x : Str) (h : x ∈ l) :
    x ∈ l.foldl storeStr acc := by
  induction l generalizing acc with
  | nil => cases h
  | cons a l ih =>
    rcases List.mem_cons.mp h with rfl | h'
    · exact foldl_storeStr_mono l _ _ (storeStr_mem_self acc _)
    · exact ih _ h'

/-- every string met in pass 1 is in the table -/
theorem mem_strTable (toks : List STok) (s : Str) (h : s ∈ toks.filterMap strOf) :
    s ∈ strTable toks := by
  unfold strTable
  exact List.mem_reverse.mpr (foldl_storeStr_mem _ _ _ h)

theorem mem_strTable_of_tok (toks : List STok) (t : STok) (s : Str) (ht : t ∈ toks)
    (hs : strOf t = some s) : s ∈ strTable toks :=
  mem_strTable toks s (List.mem_filterMap.mpr ⟨t, ht, hs⟩)

theorem storeStr_nodup (acc : List Str) (s : Str) (h : acc.Nodup) : (storeStr acc s).Nodup := by
  unfold storeStr; split
  · exact h
  · exact List.nodup_cons.mpr ⟨by assumption, h⟩

/-- `string_store` never enters a string twice -/
theorem strTable_nodup (toks : List STok) : (strTable toks).Nodup := by
  unfold strTable
  unfold List.Nodup
  rw [List.pairwise_reverse]
  refine List.Pairwise.imp (fun h => Ne.symm h) ?_
  generalize toks.filterMap strOf = l
  have : ∀ acc : List Str, acc.Nodup → (l.foldl storeStr acc).Nodup := by
    induction l with
    | nil => intro acc h; exact h
    | cons a l ih => intro acc h; exact ih _ (storeStr_nodup _ _ h)
  exact this [] List.nodup_nil

/-! ### string numbers -/

theorem toStr_idxOf (tab : List Str) (s : Str) (h : s ∈ tab) : toStr tab (tab.idxOf s) = .ok s := by
  have hl : tab.idxOf s < tab.length := List.idxOf_lt_length_iff.mpr h
  unfold toStr
  rw [List.getElem?_eq_getElem hl, List.getElem_idxOf hl]

theorem idxOf_lt_pow (tab : List Str) (s : Str) (h : s ∈ tab) (hl : tab.length ≤ 2 ^ 32) :
    tab.idxOf s < 2 ^ 32 := by
  have : tab.idxOf s < tab.length := List.idxOf_lt_length_iff.mpr h
  omega

/-- a name (no NUL inside) is recovered from its NUL-terminated table entry -/
theorem cstr_name (n : Name) (h : ∀ b : Nat, b ∈ n → b ≠ 0) : cstr (n ++ [0]) = n := by
  unfold cstr
  induction n with
  | nil => simp
  | cons a n ih =>
    have ha : a ≠ 0 := h a List.mem_cons_self
    have ih' := ih (fun b hb => h b (List.mem_cons_of_mem _ hb))
    simp only [List.cons_append, List.takeWhile_cons, ha, ne_eq, not_false_eq_true, decide_true,
      if_true, ih']

/-! ### header: the strings themselves -/

theorem getBytes_append (s rest : List Byte) : getBytes s.length (s ++ rest) = .ok (s, rest) := by
  simp [getBytes]

theorem readStrings_enc (tab : List Str) (rest : List Byte) (h : ∀ s : Str, s ∈ tab → s.length < 2 ^ 64) :
    readStrings tab.length (tab.flatMap encStr ++ rest) = .ok (tab, rest) := by
  induction tab with
  | nil => simp [readStrings]
  | cons s tab ih =>
    have hs : s.length < 2 ^ 64 := h s List.mem_cons_self
    have ih' := ih (fun x hx => h x (List.mem_cons_of_mem _ hx))
    simp only [List.length_cons, readStrings, List.flatMap_cons, encStr, List.append_assoc,
      P.bind_apply, readUint_writeUint _ _ _ hs, getBytes_append, ih', P.pure_apply]

theorem readHeader_enc (cfg : Cfg) (tab : List Str) (rest : List Byte)
    (hv : cfg.version < 2 ^ 64) (hl : tab.length < 2 ^ 64)
    (h : ∀ s : Str, s ∈ tab → s.length < 2 ^ 64) :
    readHeader cfg (encHeader cfg tab ++ rest) = .ok (tab, rest) := by
  simp only [readHeader, encHeader, List.append_assoc, P.bind_apply, readUint_writeUint _ _ _ hv,
    Nat.lt_irrefl, if_false, readUint_writeUint _ _ _ hl, readStrings_enc tab rest h]

/-! ### tokens that carry a string number -/

theorem readName_enc (tab : List Str) (msg : String) (n : Name) (rest : List Byte)
    (hin : n ++ [0] ∈ tab) (hl : tab.length ≤ 2 ^ 32) (hn : ∀ b : Nat, b ∈ n → b ≠ 0) :
    readName tab msg (encTok tab (.name n) ++ rest) = .ok (n, rest) := by
  have hi := idxOf_lt_pow tab _ hin hl
  have ⟨hp, hl4, hv⟩ := idxLen_range _ hi
  simp only [encTok, writeIdx]
  generalize hnb : idxLen (List.idxOf (n ++ [0]) tab) = nb at *
  have hc : nb = 1 ∨ nb = 2 ∨ nb = 3 ∨ nb = 4 := by omega
  rcases hc with rfl | rfl | rfl | rfl <;>
    simp [readName, getUint_putUint_of_lt _ _ _ hv, toStr_idxOf tab _ hin, cstr_name n hn]

theorem readToken_name (tab : List Str) (n : Name) (rest : List Byte)
    (hin : n ++ [0] ∈ tab) (hl : tab.length ≤ 2 ^ 32) :
    readToken (encTok tab (.name n) ++ rest)
      = .ok (.name (tab.idxOf (n ++ [0])) (idxLen (tab.idxOf (n ++ [0]))), rest) :=
  readToken_writeIdx_name _ _ (idxOf_lt_pow tab _ hin hl)

theorem readToken_reg (tab : List Str) (n : Name) (rest : List Byte)
    (hin : n ++ [0] ∈ tab) (hl : tab.length ≤ 2 ^ 32) :
    readToken (encTok tab (.reg n) ++ rest) = .ok (.reg (tab.idxOf (n ++ [0])), rest) :=
  readToken_writeIdx_reg _ _ (idxOf_lt_pow tab _ hin hl)

theorem readToken_str (tab : List Str) (s : Str) (rest : List Byte)
    (hin : s ∈ tab) (hl : tab.length ≤ 2 ^ 32) :
    readToken (encTok tab (.str s) ++ rest) = .ok (.str (tab.idxOf s), rest) :=
  readToken_writeIdx_str _ _ (idxOf_lt_pow tab _ hin hl)

theorem readReg_enc (tab : List Str) (n : Name) (rest : List Byte)
    (hin : n ++ [0] ∈ tab) (hl : tab.length ≤ 2 ^ 32) (hn : ∀ b : Nat, b ∈ n → b ≠ 0) :
    readReg tab (encTok tab (.reg n) ++ rest) = .ok (n, rest) := by
  simp [readReg, readToken_reg tab n rest hin hl, toStr_idxOf tab _ hin, cstr_name n hn]

end BinIO
