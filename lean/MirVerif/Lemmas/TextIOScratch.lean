import MirVerif.Model.TextIOElab
namespace TextIO

end TextIO
