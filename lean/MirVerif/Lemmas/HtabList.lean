import MirVerif.Model.HtabSpec
/-!
List-level facts for the HTAB refinement: how the three in-place updates of the element array
(append, overwrite the element, mark deleted) act on the sequence of live elements.
-/
namespace MirVerif.Htab

variable {α : Type}

/-- live elements of an element array, in order -/
def cont (L : List (El α)) : List α := (L.filter live).map (·.el)

theorem contents_eq (t : Tab α) : contents t = cont t.els := rfl

theorem live_iff (e : El α) : live e = true ↔ e.hash ≠ 0 := by simp [live]

theorem cont_nil : cont ([] : List (El α)) = [] := rfl

theorem cont_cons (a : El α) (L : List (El α)) :
    cont (a :: L) = if a.hash ≠ 0 then a.el :: cont L else cont L := by
  by_cases h : a.hash = 0 <;> simp [cont, List.filter_cons, live, h]

theorem cont_append_live (L : List (El α)) (h : Nat) (x : α) (hh : h ≠ 0) :
    cont (L ++ [⟨h, x⟩]) = cont L ++ [x] := by
  simp [cont, List.filter_append, List.filter_cons, live, hh]

theorem mem_cont {L : List (El α)} {y : α} (h : y ∈ cont L) :
    ∃ (i : Nat) (e : El α), L[i]? = some e ∧ e.hash ≠ 0 ∧ e.el = y := by
  simp only [cont, List.mem_map, List.mem_filter] at h
  obtain ⟨e, ⟨hm, hl⟩, rfl⟩ := h
  obtain ⟨i, hi, rfl⟩ := List.mem_iff_getElem.mp hm
  exact ⟨i, L[i], by simp, (live_iff _).mp hl, rfl⟩

theorem cont_length_le (L : List (El α)) : (cont L).length ≤ L.length := by
  simp only [cont, List.length_map]
  exact List.length_filter_le _ _

theorem cont_find_none {L : List (El α)} {P : α → Bool}
    (h : ∀ (i : Nat) (e : El α), L[i]? = some e → e.hash ≠ 0 → P e.el = false) : (cont L).find? P = none := by
  rw [List.find?_eq_none]
  intro y hy
  obtain ⟨i, e, hi, hl, rfl⟩ := mem_cont hy
  simp [h i e hi hl]

/-- the unique live element satisfying `P` sits at index `i`: effect of the three updates -/
theorem cont_unique {L : List (El α)} {P : α → Bool} {i : Nat} {e : El α}
    (hi : L[i]? = some e) (hl : e.hash ≠ 0) (hp : P e.el = true)
    (huniq : ∀ (j : Nat) (e' : El α), L[j]? = some e' → e'.hash ≠ 0 → P e'.el = true → j = i) (x y : α) :
    (cont L).find? P = some e.el ∧
    cont (L.set i ⟨0, y⟩) = (cont L).eraseP P ∧
    cont (L.set i ⟨e.hash, x⟩) = Spec.repl P x (cont L) := by
  induction L generalizing i with
  | nil => simp at hi
  | cons a L ih =>
    cases i with
    | zero =>
      simp only [List.getElem?_cons_zero, Option.some.injEq] at hi
      subst hi
      simp [List.set_cons_zero, cont_cons, hl, hp, Spec.repl]
    | succ i =>
      simp only [List.getElem?_cons_succ] at hi
      have huniq' : ∀ (j : Nat) (e' : El α), L[j]? = some e' → e'.hash ≠ 0 → P e'.el = true → j = i := by
        intro j e' hj hl' hp'
        have := huniq (j + 1) e' (by simpa using hj) hl' hp'
        omega
      obtain ⟨h1, h2, h3⟩ := ih hi huniq'
      by_cases ha : a.hash = 0
      · simp [List.set_cons_succ, cont_cons, ha, h1, h2, h3]
      · have hpa : P a.el = false := by
          cases hpa : P a.el with
          | false => rfl
          | true =>
            have := huniq 0 a (by simp) ha hpa
            omega
        simp [List.set_cons_succ, cont_cons, ha, h1, h2, h3, hpa, Spec.repl]

/-- pairwise inequality of the live elements from the index form -/
theorem cont_pairwise {L : List (El α)} {eq : α → α → Bool}
    (hd : ∀ (i j : Nat) (ei ej : El α), L[i]? = some ei → L[j]? = some ej → ei.hash ≠ 0 → ej.hash ≠ 0 →
      eq ei.el ej.el = true → i = j) :
    (cont L).Pairwise (fun a b => eq a b = false) := by
  induction L with
  | nil => simp [cont_nil]
  | cons a L ih =>
    have hd' : ∀ (i j : Nat) (ei ej : El α), L[i]? = some ei → L[j]? = some ej → ei.hash ≠ 0 → ej.hash ≠ 0 →
        eq ei.el ej.el = true → i = j := by
      intro i j ei ej hi hj h1 h2 h3
      have := hd (i + 1) (j + 1) ei ej (by simpa using hi) (by simpa using hj) h1 h2 h3
      omega
    rw [cont_cons]
    split
    · rename_i ha
      rw [List.pairwise_cons]
      refine ⟨?_, ih hd'⟩
      intro b hb
      obtain ⟨j, e, hj, hl, rfl⟩ := mem_cont hb
      cases hq : eq a.el e.el with
      | false => rfl
      | true =>
        have := hd 0 (j + 1) a e (by simp) (by simpa using hj) ha hl hq
        omega
    · exact ih hd'

end MirVerif.Htab
