import Std.Tactic.BVDecide
import MirVerif.Model.BinIO
import MirVerif.Gen.C11_Tables
import MirVerif.Gen.C11_Funs
/-!
# C11 bridge lemmas: generated definitions (from the current C source) = hand model

* `tags_bridge`      : the `bin_tag_t` enum of mir.c is the tag table the model uses
* `types_bridge`     : `MIR_type_t` is laid out as the model's `Ty` assumes (I8 … RBLK contiguous)
* `uint_length_*`, `int_length_*` : the clang-translated C functions never exhaust their unrolling and
  equal the model's `uintLength` / `intLength` on every 64-bit argument (`bv_decide` allowed here only)
-/
namespace BinIO.Bridge
open MirVerif.Gen

theorem tags_bridge : C11.tags = BinIO.Tag.table := by rfl

theorem types_bridge :
    C11.types = [("MIR_T_I8", 0), ("MIR_T_U8", 1), ("MIR_T_I16", 2), ("MIR_T_U16", 3), ("MIR_T_I32", 4),
      ("MIR_T_U32", 5), ("MIR_T_I64", 6), ("MIR_T_U64", 7), ("MIR_T_F", 8), ("MIR_T_D", 9),
      ("MIR_T_LD", 10), ("MIR_T_P", 11), ("MIR_T_BLK", 12), ("MIR_T_RBLK", 17), ("MIR_T_UNDEF", 18),
      ("MIR_T_BOUND", 19)] ∧ C11.blkNum = 5 := by
  constructor <;> rfl

/-- the model's byte count written over `BitVec 64` -/
def nbytesBV (u : BitVec 64) : BitVec 64 :=
  if u = 0 then 0 else if u.ult 0x100 then 1 else if u.ult 0x10000 then 2
  else if u.ult 0x1000000 then 3 else if u.ult 0x100000000 then 4
  else if u.ult 0x10000000000 then 5 else if u.ult 0x1000000000000 then 6
  else if u.ult 0x100000000000000 then 7 else 8

theorem nbytesBV_eq (u : BitVec 64) : nbytesBV u = BitVec.ofNat 64 (nbytes u.toNat) := by
  have h0 : (u = 0#64) ↔ u.toNat = 0 := by
    constructor
    · intro e; simp [e]
    · intro e; exact BitVec.eq_of_toNat_eq (by simpa using e)
  unfold nbytesBV nbytes
  simp only [apply_ite (BitVec.ofNat 64)]
  simp [BitVec.ult, h0]

theorem uint_length_not_exhausted (u : BitVec 64) : C11.uint_length_exhausted u = false := by
  unfold C11.uint_length_exhausted
  bv_decide

theorem int_length_not_exhausted (i : BitVec 64) : C11.int_length_exhausted i = false := by
  unfold C11.int_length_exhausted
  bv_decide

theorem uint_length_bv (u : BitVec 64) :
    C11.uint_length u = if u.ule 127#64 then 0#64 else nbytesBV u := by
  unfold C11.uint_length nbytesBV
  bv_decide

theorem int_length_bv (i : BitVec 64) :
    C11.int_length i = if nbytesBV i = 0#64 then 1#64 else nbytesBV i := by
  unfold C11.int_length nbytesBV
  bv_decide

theorem nbytes_le (u : Nat) : nbytes u ≤ 8 := by
  unfold nbytes
  repeat' split
  all_goals omega

/-- `uint_length` of the current mir.c is the model's `uintLength` -/
theorem uint_length_bridge (u : BitVec 64) :
    C11.uint_length u = BitVec.ofNat 64 (uintLength u.toNat) := by
  rw [uint_length_bv, nbytesBV_eq]
  unfold uintLength
  have e : u.ule 127#64 = decide (u.toNat ≤ 127) := by simp [BitVec.ule]
  rw [e]
  by_cases h : u.toNat ≤ 127 <;> simp [h]

/-- `int_length` of the current mir.c is the model's `intLength` (on the unsigned pattern) -/
theorem int_length_bridge (i : BitVec 64) :
    C11.int_length i = BitVec.ofNat 64 (intLength i.toNat) := by
  rw [int_length_bv, nbytesBV_eq]
  unfold intLength
  have hb := nbytes_le i.toNat
  have e : (BitVec.ofNat 64 (nbytes i.toNat) = 0#64) ↔ nbytes i.toNat = 0 := by
    constructor
    · intro e
      have := congrArg BitVec.toNat e
      simp at this
      omega
    · intro e; simp [e]
  by_cases h : nbytes i.toNat = 0
  · simp [h]
  · simp [h, e]

end BinIO.Bridge
