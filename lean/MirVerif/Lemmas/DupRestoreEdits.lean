import MirVerif.Lemmas.DupRestoreRegs
/-!
Invariant kept by every legal generator edit of the working copy, and the effect of
`_MIR_restore_func_insns` on a state satisfying it.
-/
namespace MirVerif.DupRestore

/-- relation between the function record before and after a register-creating call -/
structure RegStep (f f' : Func) : Prop where
  insns : f'.insns = f.insns
  orig : f'.originalInsns = f.originalInsns
  ovn : f'.originalVarsNum = f.originalVarsNum
  lrefs : f'.lrefs = f.lrefs
  tab : TabInv f'
  le : RegsLe f'
  ext : ∃ added, Ext f added [] f'

theorem Ext.refl (f : Func) : Ext f [] [] f := by
  constructor <;> simp

theorem Ext.trans {b f f' : Func} {a1 a2 : List RegDesc}
    (h1 : Ext b a1 [] f) (h2 : Ext f a2 [] f') : Ext b (a1 ++ a2) [] f' := by
  constructor
  · rw [h2.vars, h1.vars]; simp
  · rw [h2.descs, h1.descs]; simp
  · rw [h2.n2r, h1.n2r, h1.descs]
    simp [← List.range'_append_1]
  · rw [h2.r2r, h1.r2r, h1.descs]
    simp [← List.range'_append_1]
  · rw [h2.ng, h1.ng]

theorem RegStep.refl {f : Func} (ht : TabInv f) (hl : RegsLe f) : RegStep f f :=
  ⟨rfl, rfl, rfl, rfl, ht, hl, [], Ext.refl f⟩

theorem RegStep.trans {f g k : Func} (h1 : RegStep f g) (h2 : RegStep g k) : RegStep f k := by
  obtain ⟨a1, e1⟩ := h1.ext
  obtain ⟨a2, e2⟩ := h2.ext
  exact ⟨h2.insns.trans h1.insns, h2.orig.trans h1.orig, h2.ovn.trans h1.ovn,
    h2.lrefs.trans h1.lrefs, h2.tab, h2.le, a1 ++ a2, e1.trans e2⟩

theorem regStep_lastTemp {f : Func} (ht : TabInv f) (hl : RegsLe f) (n : Nat) :
    RegStep f { f with lastTempNum := n } :=
  ⟨rfl, rfl, rfl, rfl, ⟨ht.n2rLt, ht.r2rLt, ht.namesNodup, ht.regsNodup⟩, hl, [],
    by constructor <;> simp⟩

/-- descriptor created by `new_func_reg` -/
def newDesc (f : Func) (ty name : String) : RegDesc :=
  { ty := ty, reg := f.vars.length + 1 + f.nglobals, name := name, hard := "" }

/-- the function record after a successful `new_func_reg` -/
def pushed (f : Func) (ty name : String) : Func :=
  { f with regDescs := f.regDescs ++ [newDesc f ty name],
           name2rdn := f.name2rdn ++ [f.regDescs.length],
           reg2rdn := f.reg2rdn ++ [f.regDescs.length],
           vars := f.vars ++ [varOf (newDesc f ty name)] }

theorem newFuncReg_cases {f : Func} (ht : TabInv f) (hl : RegsLe f) (ty name : String) :
    newFuncReg f ty name = f ∨
    (findByName f name = none ∧ newFuncReg f ty name = pushed f ty name) := by
  unfold newFuncReg
  by_cases h1 : (!tyOk ty || reservedName name) = true
  · rw [if_pos h1]; exact Or.inl rfl
  · rw [if_neg h1]
    by_cases h2 : (findByName f name).isSome = true
    · rw [if_pos h2]; exact Or.inl rfl
    · rw [if_neg h2]
      right
      have hnone : findByName f name = none := by
        cases h : findByName f name with
        | none => rfl
        | some x => rw [h] at h2; simp at h2
      refine ⟨hnone, ?_⟩
      simp only
      have hfr : ∀ (g : Func), g.reg2rdn = f.reg2rdn →
          g.regDescs = f.regDescs ++ [newDesc f ty name] →
          findByReg g (f.vars.length + 1 + f.nglobals) = none := by
        intro g hg1 hg2
        unfold findByReg
        apply List.find?_eq_none.mpr
        intro r hr hp
        rw [hg1] at hr
        have hlt := ht.r2rLt r hr
        simp only [rdRegAt] at hp
        rw [hg2, List.getElem?_append_left hlt] at hp
        cases hd : f.regDescs[r]? with
        | none => simp [hd] at hp
        | some d =>
          simp [hd] at hp
          have := hl r hr d hd
          omega
      rw [if_neg (by
        intro hc
        rw [hfr] at hc
        · simp at hc
        · rfl
        · rfl)]
      rfl

theorem pushed_tab {f : Func} (ht : TabInv f) (hl : RegsLe f) (ty name : String)
    (hnone : findByName f name = none) : TabInv (pushed f ty name) := by
  have hnm : ∀ r ∈ f.name2rdn, rdNameAt f r ≠ some name := by
    intro r hr he
    have := List.find?_eq_none.mp hnone r hr
    exact this (by simp [he])
  have hget : ∀ r, r < f.regDescs.length → (pushed f ty name).regDescs[r]? = f.regDescs[r]? := by
    intro r hr
    exact List.getElem?_append_left hr
  have hN : ∀ r, r < f.regDescs.length → rdNameAt (pushed f ty name) r = rdNameAt f r := by
    intro r hr; simp only [rdNameAt, hget r hr]
  have hR : ∀ r, r < f.regDescs.length → rdRegAt (pushed f ty name) r = rdRegAt f r := by
    intro r hr; simp only [rdRegAt, hget r hr]
  have hlast : (pushed f ty name).regDescs[f.regDescs.length]? = some (newDesc f ty name) := by
    show (f.regDescs ++ [newDesc f ty name])[f.regDescs.length]? = _
    simp
  constructor
  · intro r hr
    have hr' : r ∈ f.name2rdn ++ [f.regDescs.length] := hr
    have hlen : (pushed f ty name).regDescs.length = f.regDescs.length + 1 := by
      show (f.regDescs ++ [_]).length = _
      simp
    rw [hlen]
    rcases List.mem_append.mp hr' with h | h
    · have := ht.n2rLt r h; omega
    · simp at h; omega
  · intro r hr
    have hr' : r ∈ f.reg2rdn ++ [f.regDescs.length] := hr
    have hlen : (pushed f ty name).regDescs.length = f.regDescs.length + 1 := by
      show (f.regDescs ++ [_]).length = _
      simp
    rw [hlen]
    rcases List.mem_append.mp hr' with h | h
    · have := ht.r2rLt r h; omega
    · simp at h; omega
  · show ((f.name2rdn ++ [f.regDescs.length]).map (rdNameAt (pushed f ty name))).Nodup
    rw [List.map_append]
    apply List.nodup_append.mpr
    refine ⟨?_, by simp, ?_⟩
    · rw [List.map_congr_left (fun r hr => hN r (ht.n2rLt r hr))]
      exact ht.namesNodup
    · intro a ha b hb
      obtain ⟨r, hr, rfl⟩ := List.mem_map.mp ha
      simp only [List.map_singleton, List.mem_singleton] at hb
      subst hb
      rw [hN r (ht.n2rLt r hr)]
      simp only [rdNameAt, hlast, Option.map_some]
      exact hnm r hr
  · show ((f.reg2rdn ++ [f.regDescs.length]).map (rdRegAt (pushed f ty name))).Nodup
    rw [List.map_append]
    apply List.nodup_append.mpr
    refine ⟨?_, by simp, ?_⟩
    · rw [List.map_congr_left (fun r hr => hR r (ht.r2rLt r hr))]
      exact ht.regsNodup
    · intro a ha b hb
      obtain ⟨r, hr, rfl⟩ := List.mem_map.mp ha
      simp only [List.map_singleton, List.mem_singleton] at hb
      subst hb
      rw [hR r (ht.r2rLt r hr)]
      simp only [rdRegAt, hlast, Option.map_some]
      cases hd : f.regDescs[r]? with
      | none => simp
      | some d =>
        have := hl r hr d hd
        simp [newDesc]
        omega

theorem pushed_le {f : Func} (ht : TabInv f) (hl : RegsLe f) (ty name : String) :
    RegsLe (pushed f ty name) := by
  intro r hr d hd
  have hr' : r ∈ f.reg2rdn ++ [f.regDescs.length] := hr
  have hd' : (f.regDescs ++ [newDesc f ty name])[r]? = some d := hd
  have hv : (pushed f ty name).vars.length = f.vars.length + 1 := by
    show (f.vars ++ [_]).length = _
    simp
  have hg : (pushed f ty name).nglobals = f.nglobals := rfl
  rw [hv, hg]
  rcases List.mem_append.mp hr' with h | h
  · rw [List.getElem?_append_left (ht.r2rLt r h)] at hd'
    have := hl r h d hd'
    omega
  · simp at h
    subst h
    simp at hd'
    subst hd'
    simp [newDesc]

theorem pushed_ext (f : Func) (ty name : String) :
    Ext f [newDesc f ty name] [] (pushed f ty name) := by
  constructor <;> simp [pushed]

theorem newFuncReg_step {f : Func} (ht : TabInv f) (hl : RegsLe f) (ty name : String) :
    RegStep f (newFuncReg f ty name) := by
  rcases newFuncReg_cases ht hl ty name with h | ⟨hnone, h⟩
  · rw [h]; exact RegStep.refl ht hl
  · rw [h]
    exact ⟨rfl, rfl, rfl, rfl, pushed_tab ht hl ty name hnone, pushed_le ht hl ty name,
      _, pushed_ext f ty name⟩

theorem newTempRegAux_step (ty : String) :
    ∀ (fuel : Nat) (f : Func), TabInv f → RegsLe f → RegStep f (newTempRegAux ty fuel f) := by
  intro fuel
  induction fuel with
  | zero => intro f ht hl; exact RegStep.refl ht hl
  | succ fuel ih =>
    intro f ht hl
    unfold newTempRegAux
    have s1 := regStep_lastTemp ht hl (f.lastTempNum + 1)
    simp only
    split
    · exact s1.trans (newFuncReg_step s1.tab s1.le _ _)
    · exact s1.trans (ih _ s1.tab s1.le)

theorem newTempReg_step {f : Func} (ht : TabInv f) (hl : RegsLe f) (ty : String) :
    RegStep f (newTempReg f ty) := by
  unfold newTempReg
  split
  · exact RegStep.refl ht hl
  · exact newTempRegAux_step ty _ f ht hl

/-! ### edits -/

def origOf (r : Lref) : Option Nat × Option Nat := (r.origLabel, r.origLabel2)

/-- what every sequence of legal edits preserves (`s1` = state right after duplicate,
`m` = allocation mark at duplicate) -/
structure MutInv (m : Nat) (s1 s2 : State) : Prop where
  heap : ∀ i, i < m → s2.heap i = s1.heap i
  next : s1.next ≤ s2.next
  orig : s2.func.originalInsns = s1.func.originalInsns
  insnsGe : ∀ i ∈ s2.func.insns, m ≤ i
  lrefs : s2.func.lrefs.map origOf = s1.func.lrefs.map origOf
  ovn : s2.func.originalVarsNum = s1.func.originalVarsNum
  tab : TabInv s2.func
  le : RegsLe s2.func
  ext : ∃ added, Ext s1.func added [] s2.func

theorem mutInv_regStep {m : Nat} {s1 s2 : State} {f' : Func} (inv : MutInv m s1 s2)
    (st : RegStep s2.func f') : MutInv m s1 { s2 with func := f' } := by
  obtain ⟨a1, e1⟩ := inv.ext
  obtain ⟨a2, e2⟩ := st.ext
  exact ⟨inv.heap, inv.next, st.orig.trans inv.orig,
    by intro i hi; exact inv.insnsGe i (by have := st.insns; simp only at hi; rw [this] at hi; exact hi),
    by show f'.lrefs.map origOf = _; rw [st.lrefs]; exact inv.lrefs,
    st.ovn.trans inv.ovn, st.tab, st.le, a1 ++ a2, e1.trans e2⟩

theorem mutInv_step {m : Nat} {s1 s2 : State} (inv : MutInv m s1 s2) (e : Edit)
    (hleg : e.legal m) : MutInv m s1 (applyEdit s2 e) := by
  cases e with
  | setInsn id insn =>
    simp only [Edit.legal] at hleg
    refine { inv with heap := ?_, next := ?_ }
    · intro i hi
      show (s2.heap.set id (some insn)) i = _
      rw [Heap.set_other _ _ (by omega)]
      exact inv.heap i hi
    · show s1.next ≤ max s2.next (id + 1)
      have := inv.next
      omega
  | free id =>
    simp only [Edit.legal] at hleg
    refine { inv with heap := ?_ }
    intro i hi
    show (s2.heap.set id none) i = _
    rw [Heap.set_other _ _ (by omega)]
    exact inv.heap i hi
  | setList l =>
    simp only [Edit.legal] at hleg
    exact ⟨inv.heap, inv.next, inv.orig, hleg, inv.lrefs, inv.ovn,
      ⟨inv.tab.n2rLt, inv.tab.r2rLt, inv.tab.namesNodup, inv.tab.regsNodup⟩, inv.le,
      by obtain ⟨a, e⟩ := inv.ext; exact ⟨a, ⟨e.vars, e.descs, e.n2r, e.r2r, e.ng⟩⟩⟩
  | addReg ty name => exact mutInv_regStep inv (newFuncReg_step inv.tab inv.le ty name)
  | newTemp ty => exact mutInv_regStep inv (newTempReg_step inv.tab inv.le ty)
  | setLref k a b =>
    refine ⟨inv.heap, inv.next, inv.orig, inv.insnsGe, ?_, inv.ovn,
      ⟨inv.tab.n2rLt, inv.tab.r2rLt, inv.tab.namesNodup, inv.tab.regsNodup⟩, inv.le,
      by obtain ⟨a, e⟩ := inv.ext; exact ⟨a, ⟨e.vars, e.descs, e.n2r, e.r2r, e.ng⟩⟩⟩
    rw [← inv.lrefs]
    show (s2.func.lrefs.modify k _).map origOf = _
    apply List.ext_getElem?
    intro j
    simp only [List.getElem?_map, List.getElem?_modify]
    cases s2.func.lrefs[j]? with
    | none => rfl
    | some r =>
      simp only [Option.map_some]
      split <;> rfl

theorem mutInv_fold {m : Nat} {s1 : State} :
    ∀ (es : List Edit) (s2 : State), MutInv m s1 s2 → (∀ e ∈ es, e.legal m) →
      MutInv m s1 (mutateCopy s2 es) := by
  intro es
  induction es with
  | nil => intro s2 inv _; exact inv
  | cons e es ih =>
    intro s2 inv hleg
    exact ih _ (mutInv_step inv e (hleg e (by simp))) (fun e' he' => hleg e' (by simp [he']))

/-! ### restore -/

theorem foldl_free_other (i : Nat) :
    ∀ (l : List Nat) (h : Heap), (∀ j ∈ l, j ≠ i) →
      (l.foldl (fun h j => h.set j none) h) i = h i := by
  intro l
  induction l with
  | nil => intro h _; rfl
  | cons j l ih =>
    intro h hne
    simp only [List.foldl_cons]
    rw [ih _ (fun x hx => hne x (List.mem_cons_of_mem _ hx))]
    exact Heap.set_other _ _ (Ne.symm (hne j (by simp)))

/-- `_MIR_restore_func_insns` after any legal edits -/
theorem restore_spec {m : Nat} {s1 s2 : State} (inv : MutInv m s1 s2)
    (hovn : s1.func.originalVarsNum = s1.func.vars.length) :
    (∀ i, i < m → (restore s2).heap i = s1.heap i) ∧
    s1.next ≤ (restore s2).next ∧
    ∃ extra,
      (restore s2).func =
        { s1.func with insns := s1.func.originalInsns, originalInsns := [],
                       lrefs := s2.func.lrefs.map restoreLref,
                       regDescs := s1.func.regDescs ++ extra,
                       lastTempNum := s2.func.lastTempNum } := by
  obtain ⟨added, he⟩ := inv.ext
  have hpop : restoreVars s2.func =
      { s2.func with vars := s1.func.vars, name2rdn := s1.func.name2rdn,
                     reg2rdn := s1.func.reg2rdn } := by
    unfold restoreVars
    have : s2.func.vars.length - s2.func.originalVarsNum = added.length := by
      rw [inv.ovn, hovn, he.vars]; simp
    rw [this]
    exact popVars_ext added.length added [] s2.func rfl inv.tab he
  refine ⟨?_, inv.next, added, ?_⟩
  · intro i hi
    show ((restoreVars s2.func).insns.foldl (fun h j => h.set j none) s2.heap) i = _
    rw [hpop]
    rw [foldl_free_other i _ _ (by
      intro j hj
      have := inv.insnsGe j hj
      omega)]
    exact inv.heap i hi
  · have h1 := inv.orig
    have h2 := inv.ovn
    have h3 := he.descs
    have h4 := he.ng
    simp only [List.append_nil] at h3
    simp only [restore, hpop]
    cases hs1 : s1.func
    cases hs2 : s2.func
    simp_all

end MirVerif.DupRestore
