import MirVerif.Model.Mir2COvf
import MirVerif.Lemmas.Sem
import MirVerif.Lemmas.SemExt
/-! C20 — the meaning of mir2c's canonical templates (`cSem`, `cBranch`, `cCasts`, `cNeg`, `cBT`,
`builtinS/U`) against the documented meaning of the instructions. -/
namespace MirVerif.Mir2C
open MirVerif

/-- the macro rows of the interpreter compute the documented results (same statement and proof as
`interp_meets_doc` of Props/C02; repeated here so that C20 does not depend on C02's generated tables) -/
theorem macro_meets_doc (a : AOp) (short : Bool) (x y : W64) :
    optRel (agree a short) (macroSem (canonKind a short) x y) (docSem a short x y) := by
  cases a <;> cases short <;>
    simp only [canonKind, macroSem, docSem, if_true, if_false, Bool.false_eq_true,
      cS_doc (n := 64) (by decide), cS_doc (n := 32) (by decide), cU_div_doc, cU_mod_doc, cU_rsh_doc,
      cCmpS_doc, cmpS_short, cmpU_lt, cmpU_le, cmpU_gt, cmpU_ge,
      cmpU_lt_short, cmpU_le_short, cmpU_gt_short, cmpU_ge_short] <;>
    first
      | exact optRel_agree_refl _ _ _
      | exact optRel_zext_sext _ (by decide) _

theorem nodup_keys_unique {α β} [DecidableEq α] : ∀ (l : List (α × β)) (k : α) (v v' : β),
    (l.map (·.1)).Nodup → (k, v) ∈ l → (k, v') ∈ l → v = v'
  | [], _, _, _, _, h, _ => by cases h
  | (k0, v0) :: tl, k, v, v', hn, h, h' => by
    simp only [List.map_cons, List.nodup_cons] at hn
    simp only [List.mem_cons, Prod.mk.injEq] at h h'
    rcases h with ⟨rfl, rfl⟩ | h <;> rcases h' with ⟨h1, rfl⟩ | h'
    · rfl
    · exact absurd (List.mem_map_of_mem (f := (·.1)) h') hn.1
    · subst h1; exact absurd (List.mem_map_of_mem (f := (·.1)) h) hn.1
    · exact nodup_keys_unique tl k v v' hn.2 h h'

/-! ### shift counts -/

theorem cnt64 (y : W64) : (y.toInt < 0 ∨ y.toInt ≥ 64) ↔ ¬ y.toNat < 64 := by
  rw [BitVec.toInt_eq_toNat_cond]; have := y.isLt; split <;> omega

theorem cnt32s (z : W32) : ((sext32 z).toInt < 0 ∨ (sext32 z).toInt ≥ 32) ↔ ¬ z.toNat < 32 := by
  have h : (sext32 z).toInt = z.toInt := by
    unfold sext32; rw [BitVec.toInt_signExtend_of_le (by decide)]
  rw [h, BitVec.toInt_eq_toNat_cond]; have := z.isLt; split <;> omega

theorem cnt32u (z : W32) : ((zext32 z).toInt < 0 ∨ (zext32 z).toInt ≥ 32) ↔ ¬ z.toNat < 32 := by
  have h : (zext32 z).toNat = z.toNat := by
    unfold zext32; rw [BitVec.toNat_setWidth]; have := z.isLt; omega
  rw [BitVec.toInt_eq_toNat_cond, h]; have := z.isLt; split <;> omega

/-! ### canonical templates under `-fwrapv` are the interpreter's macro rows -/

theorem cSem_true_canon (a : AOp) (short : Bool) (x y : W64) :
    cSem true (canonTmpl a short) x y = macroSem (canonKind a short) x y := by
  cases a <;> cases short <;>
    simp [canonTmpl, cSem, conv, common, promote, arith, cSigned, compare, canonKind, macroSem,
      CTy.bits, isShift, lo32_sext32, lo32_zext32, cnt64, cnt32s, cnt32u] <;>
    (try split) <;> simp_all [cS, cU]

theorem cSigned_mono {n} (o : BinOp) (x y r : BitVec n) (h : cSigned false o x y = some r) :
    cSigned true o x y = some r := by
  unfold cSigned at *
  split at h
  · cases h
  · simpa using h

theorem arith_mono (t : CTy) (o : BinOp) (a b r : W64) (h : arith false t o a b = some r) :
    arith true t o a b = some r := by
  cases t <;> simp only [arith] at * <;> try exact h
  · cases h' : cSigned false o (lo32 a) (lo32 b) with
    | none => simp [h'] at h
    | some v => rw [h'] at h; rw [cSigned_mono _ _ _ _ h']; exact h
  · exact cSigned_mono _ _ _ _ h

/-- what is defined without `-fwrapv` is defined with it, with the same value -/
theorem cSem_mono (tm : Tmpl) (x y r : W64) (h : cSem false tm x y = some r) :
    cSem true tm x y = some r := by
  unfold cSem at *
  cases hop : tm.op with
  | cmp c => simpa [hop] using h
  | bin o =>
    simp only [hop] at h ⊢
    by_cases hs : isShift o = true
    · rw [if_pos hs] at h ⊢
      split at h
      · cases h
      · next hc => rw [if_neg hc]; exact arith_mono _ _ _ _ _ h
    · rw [if_neg hs] at h ⊢
      exact arith_mono _ _ _ _ _ h

theorem arith_wrapv_irrel (t : CTy) (o : BinOp)
    (h : ¬ (t.signed = true ∧ (o = .add ∨ o = .sub ∨ o = .mul))) (a b : W64) :
    arith false t o a b = arith true t o a b := by
  cases t <;> cases o <;> simp_all [arith, cSigned, sOvf, CTy.signed]

/-- outside the rows listed by `Tmpl.wrapGap` compiling without `-fwrapv` changes nothing -/
theorem cSem_wrapv_irrel (tm : Tmpl) (h : tm.wrapGap = false) (x y : W64) :
    cSem false tm x y = cSem true tm x y := by
  unfold cSem
  cases hop : tm.op with
  | cmp c => rfl
  | bin o =>
    simp only
    split
    · next hs =>
      split
      · rfl
      · apply arith_wrapv_irrel
        rintro ⟨-, h1 | h1 | h1⟩ <;> simp [h1, isShift] at hs
    · apply arith_wrapv_irrel
      rintro ⟨h0, h1⟩
      simp only [Tmpl.wrapGap, hop, h0, Bool.true_and] at h
      rcases h1 with h1 | h1 | h1 <;> simp [h1] at h

/-- **canonical template ⇒ documented result** (with or without `-fwrapv`) -/
theorem canon_meets_doc (wrapv : Bool) (a : AOp) (short : Bool) (x y r : W64)
    (h : cSem wrapv (canonTmpl a short) x y = some r) :
    ∃ r', docSem a short x y = some r' ∧ agree a short r r' := by
  have ht : cSem true (canonTmpl a short) x y = some r := by
    cases wrapv
    · exact cSem_mono _ _ _ _ h
    · exact h
  rw [cSem_true_canon] at ht
  have key := macro_meets_doc a short x y
  rw [ht] at key
  cases hd : docSem a short x y with
  | none => rw [hd] at key; exact key.elim
  | some r' => rw [hd] at key; exact ⟨r', rfl, key⟩

/-- with `-fwrapv` the emitted statement is undefined exactly where the instruction is -/
theorem canon_domain (a : AOp) (short : Bool) (x y : W64) :
    cSem true (canonTmpl a short) x y = none ↔ docSem a short x y = none := by
  rw [cSem_true_canon]
  have key := macro_meets_doc a short x y
  cases hm : macroSem (canonKind a short) x y <;> cases hd : docSem a short x y <;>
    simp [hm, hd, optRel] at key ⊢

/-- compare-and-branch templates -/
theorem canon_branch (a : AOp) (ha : a.isCmp = true) (short : Bool) (x y : W64) :
    cBranch (canonTmpl a short) x y = docBranch a short x y := by
  unfold cBranch docBranch
  rw [cSem_true_canon]
  have key := macro_meets_doc a short x y
  have hag : ∀ r r', agree a short r r' → r = r' := by
    intro r r' h; unfold agree at h; simpa [ha] using h
  cases hm : macroSem (canonKind a short) x y with
  | none =>
    cases hd : docSem a short x y with
    | none => rfl
    | some r' => rw [hm, hd] at key; simp [optRel] at key
  | some r =>
    cases hd : docSem a short x y with
    | none => rw [hm, hd] at key; simp [optRel] at key
    | some r' => rw [hm, hd] at key; rw [hag _ _ key]

/-! ### extensions, negation, BT/BF -/

theorem canon_casts (k : Nat) (hk : k = 8 ∨ k = 16 ∨ k = 32) (signed : Bool) (x : W64) :
    cCasts (canonCasts k signed) x = docExt k signed x := by
  rcases hk with rfl | rfl | rfl <;> cases signed
  · exact uext8 x
  · exact ext8 x
  · exact uext16 x
  · exact ext16 x
  · exact uext32 x
  · exact ext32 x

theorem zero_sub' {n} (x : BitVec n) : 0#n - x = -x := by simp

theorem cNeg_true (short : Bool) (x : W64) :
    cNeg true (if short then .i32 else .i64) x = some (docNeg short x) := by
  cases short
  · simp [cNeg, promote, CTy.bits, arith, cSigned, cS, conv, docNeg, neg_doc]
  · simp [cNeg, promote, CTy.bits, arith, cSigned, cS, conv, docNeg, lo32_sext32, ← neg_doc]
    rfl

theorem cNeg_meets_doc (wrapv short : Bool) (x r : W64)
    (h : cNeg wrapv (if short then .i32 else .i64) x = some r) : r = docNeg short x := by
  have ht : cNeg true (if short then .i32 else .i64) x = some r := by
    cases wrapv
    · unfold cNeg at *; exact arith_mono _ _ _ _ _ h
    · exact h
  rw [cNeg_true] at ht
  exact (Option.some.inj ht).symm

theorem sext32_eq_zero (z : W32) : sext32 z = 0#64 ↔ z = 0#32 := by
  constructor
  · intro h
    have := congrArg lo32 h
    rw [lo32_sext32] at this
    simpa [lo32] using this
  · rintro rfl; decide

theorem cBT_meets_doc (neg short : Bool) (x : W64) :
    cBT neg (if short then .i32 else .i64) x = docBT neg short x := by
  cases short <;> cases neg <;>
    simp [cBT, docBT, conv, bne, Bool.beq_eq_decide_eq, sext32_eq_zero, toInt_eq_zero_iff]

/-! ### overflow builtins -/

theorem builtinS_add {n} (x y : BitVec n) :
    builtinS .add x y = ((docAddO x y).1, (docAddO x y).2.1) := rfl
theorem builtinS_sub {n} (x y : BitVec n) :
    builtinS .sub x y = ((docSubO x y).1, (docSubO x y).2.1) := rfl
theorem builtinS_mul {n} (x y : BitVec n) : builtinS .mul x y = docMulO x y := rfl

theorem builtinU_mul {n} (x y : BitVec n) : builtinU .mul x y = docUMulO x y := by
  unfold builtinU docUMulO OvOp.eval wrapN
  simp only
  rw [show ((x.toNat : Int) * (y.toNat : Int)) = ((x.toNat * y.toNat : Nat) : Int) by push_cast; rfl,
    BitVec.ofInt_natCast]
  congr 1
  apply decide_eq_decide.mpr
  constructor
  · rintro (h | h)
    · omega
    · exact_mod_cast h
  · intro h; right; exact_mod_cast h

theorem builtinU_add_flag {n} (x y : BitVec n) : (builtinU .add x y).2 = (docAddO x y).2.2 := by
  unfold builtinU docAddO OvOp.eval
  simp only
  apply decide_eq_decide.mpr
  constructor
  · rintro (h | h)
    · omega
    · exact_mod_cast h
  · intro h; right; exact_mod_cast h

theorem builtinU_sub_flag {n} (x y : BitVec n) : (builtinU .sub x y).2 = (docSubO x y).2.2 := by
  unfold builtinU docSubO OvOp.eval
  simp only
  apply decide_eq_decide.mpr
  have hx : ((x.toNat : Int)) < 2 ^ n := by exact_mod_cast x.isLt
  constructor
  · rintro (h | h)
    · omega
    · have : (0 : Int) ≤ y.toNat := Int.natCast_nonneg _
      omega
  · intro h; left; omega

end MirVerif.Mir2C
