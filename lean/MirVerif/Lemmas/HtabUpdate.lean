import MirVerif.Lemmas.HtabWF
/-!
Preservation of the HTAB invariant by the three in-place updates of `HTAB_DO`, together with the
effect of each on the sequence of live elements:
* `wf_store`   — a new element is appended to `els` and its index written to a free slot
* `wf_replace` — the element of a found slot is overwritten (REPLACE)
* `wf_delete`  — a found slot becomes a tombstone and the element's hash is zeroed (DELETE)
-/
namespace MirVerif.Htab

variable {α : Type}

theorem getElem?_append_single {β : Type} {L : List β} {a e : β} {j : Nat} :
    (L ++ [a])[j]? = some e ↔ L[j]? = some e ∨ (j = L.length ∧ e = a) := by
  rcases Nat.lt_or_ge j L.length with hlt | hge
  · rw [List.getElem?_append_left hlt]
    constructor
    · exact Or.inl
    · rintro (h | ⟨h, -⟩)
      · exact h
      · omega
  · rw [List.getElem?_append_right hge]
    have hn : L[j]? = none := List.getElem?_eq_none hge
    constructor
    · intro h
      rcases Nat.eq_or_lt_of_le hge with heq | hlt
      · subst heq; simp at h; exact Or.inr ⟨rfl, h.symm⟩
      · have : j - L.length ≠ 0 := by omega
        obtain ⟨m, hm⟩ := Nat.exists_eq_succ_of_ne_zero this
        rw [hm] at h; simp at h
    · rintro (h | ⟨h, rfl⟩)
      · rw [hn] at h; cases h
      · subst h; simp

theorem getElem?_set_iff {β : Type} {L : List β} {a e : β} {i j : Nat} :
    (L.set i a)[j]? = some e ↔ (j ≠ i ∧ L[j]? = some e) ∨ (j = i ∧ i < L.length ∧ e = a) := by
  rw [List.getElem?_set]
  by_cases hij : i = j
  · subst hij
    by_cases hl : i < L.length
    · simp [hl, eq_comm]
    · simp [hl]
  · have : j ≠ i := fun h => hij h.symm
    simp [hij, this]

theorem count_empty_set_ge (l : List Slot) (q : Nat) (s : Slot) (hq : q < l.length) :
    l.count .empty ≤ (l.set q s).count .empty + 1 := by
  rw [List.count_set hq]
  split <;> split <;> omega

theorem count_empty_set_idx (l : List Slot) (q i : Nat) (s : Slot) (hq : q < l.length)
    (h : l[q] = .idx i) : l.count .empty ≤ (l.set q s).count .empty := by
  rw [List.count_set hq]
  simp [h]

theorem ent_getElem {t : Tab α} {p : Nat} (hp : p < t.entries.length) : t.entries[p] = ent t p := by
  simp [ent, List.getD_eq_getElem?_getD, hp]

/-! ### storing a new element -/

theorem wf_store {hf : α → Nat} {eq : α → α → Bool} (laws : Laws hf eq) {t t' : Tab α}
    (hwf : WF hf eq t) {x : α} {q : Nat}
    (hb : t.els.length < t.cap) (hql : q < t.entries.length)
    (hqs : ent t q = .empty ∨ ent t q = .deleted)
    (hpath : ∃ pre post, path t.entries.length (hashOf hf x) = pre ++ q :: post ∧
      ∀ r ∈ pre, ent t r ≠ .empty)
    (hnl : ∀ (i : Nat) (e : El α), t.els[i]? = some e → e.hash ≠ 0 → eq e.el x = false)
    (he : t'.entries = t.entries.set q (.idx t.els.length))
    (hels : t'.els = t.els ++ [⟨hashOf hf x, x⟩]) (hcap : t'.cap = t.cap)
    (hnum : t'.num = t.num + 1) :
    WF hf eq t' ∧ contents t' = contents t ++ [x] := by
  have hcont : contents t' = contents t ++ [x] := by
    rw [contents_eq, contents_eq, hels, cont_append_live _ _ _ (hashOf_ne hf x)]
  have ent' := ent_of_entries he hql
  have hlen : t'.entries.length = t.entries.length := by rw [he]; simp
  have hqni : ∀ i, ent t q ≠ .idx i := by
    intro i h; rcases hqs with h' | h' <;> rw [h'] at h <;> cases h
  have els' : ∀ (j : Nat) (e : El α), t'.els[j]? = some e ↔
      t.els[j]? = some e ∨ (j = t.els.length ∧ e = ⟨hashOf hf x, x⟩) := by
    intro j e; rw [hels]; exact getElem?_append_single
  have old_lt : ∀ {j : Nat} {e : El α}, t.els[j]? = some e → j < t.els.length := by
    intro j e h
    rcases Nat.lt_or_ge j t.els.length with hlt | hge
    · exact hlt
    · rw [List.getElem?_eq_none hge] at h; cases h
  have keep : ∀ r, ent t r ≠ .empty → ent t' r ≠ .empty := by
    intro r hr; rw [ent']; split
    · simp
    · exact hr
  refine ⟨?_, hcont⟩
  constructor
  · rw [hcap]; exact hwf.cap_pow
  · rw [hlen, hcap]; exact hwf.ent_len
  · rw [hels, hcap]; simp; omega
  · rw [hnum, hcont, hwf.num_eq]; simp
  · rw [hlen, he, hels]
    have h1 := count_empty_set_ge t.entries q (.idx t.els.length) hql
    have h2 := hwf.empties
    simp only [List.length_append, List.length_cons, List.length_nil]
    omega
  · -- idx_ok
    intro r j hr
    rw [ent'] at hr
    split at hr
    · injection hr with hj; subst hj
      exact ⟨⟨hashOf hf x, x⟩, (els' _ _).mpr (Or.inr ⟨rfl, rfl⟩), hashOf_ne hf x⟩
    · obtain ⟨e, h1, h2⟩ := hwf.idx_ok r j hr
      exact ⟨e, (els' _ _).mpr (Or.inl h1), h2⟩
  · -- idx_inj
    intro r s j hr hs
    rw [ent'] at hr hs
    split at hr <;> split at hs
    · simp_all
    · injection hr with hj; subst hj
      obtain ⟨e, h1, _⟩ := hwf.idx_ok s _ hs
      have := old_lt h1; omega
    · injection hs with hj; subst hj
      obtain ⟨e, h1, _⟩ := hwf.idx_ok r _ hr
      have := old_lt h1; omega
    · exact hwf.idx_inj r s j hr hs
  · -- has_slot
    intro j e hj hl
    rcases (els' j e).mp hj with hj | ⟨rfl, rfl⟩
    · obtain ⟨r, hr⟩ := hwf.has_slot j e hj hl
      refine ⟨r, ?_⟩
      rw [ent']
      have : r ≠ q := by intro hrq; subst hrq; exact hqni j hr
      rw [if_neg this]; exact hr
    · exact ⟨q, by rw [ent', if_pos rfl]⟩
  · -- hash_ok
    intro j e hj hl
    rcases (els' j e).mp hj with hj | ⟨rfl, rfl⟩
    · exact hwf.hash_ok j e hj hl
    · rfl
  · -- distinct
    intro a b ea eb ha hb' hla hlb hab
    rcases (els' a ea).mp ha with ha | ⟨rfl, rfl⟩ <;> rcases (els' b eb).mp hb' with hb' | ⟨rfl, rfl⟩
    · exact hwf.distinct a b ea eb ha hb' hla hlb hab
    · have := hnl a ea ha hla
      simp [this] at hab
    · have := hnl b eb hb' hlb
      have h2 := laws.symm _ _ hab
      simp [this] at h2
    · rfl
  · -- reach
    intro r j e hr hj
    rw [hlen]
    rw [ent'] at hr
    split at hr
    · rename_i hrq; subst hrq
      injection hr with hjj; subst hjj
      have hee : e = ⟨hashOf hf x, x⟩ := by
        rcases (els' _ e).mp hj with hj | ⟨-, h⟩
        · have := old_lt hj; omega
        · exact h
      subst hee
      obtain ⟨pre, post, h1, h2⟩ := hpath
      exact ⟨pre, post, h1, fun y hy => keep y (h2 y hy)⟩
    · have hj' : t.els[j]? = some e := by
        obtain ⟨e0, h1, _⟩ := hwf.idx_ok r j hr
        rcases (els' j e).mp hj with hj | ⟨rfl, -⟩
        · exact hj
        · have := old_lt h1; omega
      obtain ⟨pre, post, h1, h2⟩ := hwf.reach r j e hr hj'
      exact ⟨pre, post, h1, fun y hy => keep y (h2 y hy)⟩

/-! ### overwriting the element of a found slot (REPLACE) -/

theorem wf_replace {hf : α → Nat} {eq : α → α → Bool} (laws : Laws hf eq) {t t' : Tab α}
    (hwf : WF hf eq t) {x : α} {p i : Nat} {e : El α}
    (hp : ent t p = .idx i) (hi : t.els[i]? = some e) (hh : e.hash = hashOf hf x)
    (hx : eq e.el x = true)
    (he : t'.entries = t.entries) (hels : t'.els = t.els.set i ⟨e.hash, x⟩) (hcap : t'.cap = t.cap)
    (hnum : t'.num = t.num) :
    WF hf eq t' ∧ contents t' = Spec.repl (fun y => eq y x) x (contents t) ∧
      (contents t).find? (fun y => eq y x) = some e.el := by
  have hl : e.hash ≠ 0 := by rw [hh]; exact hashOf_ne hf x
  have hil : i < t.els.length := by
    rcases Nat.lt_or_ge i t.els.length with hlt | hge
    · exact hlt
    · rw [List.getElem?_eq_none hge] at hi; cases hi
  have huniq : ∀ (j : Nat) (e' : El α), t.els[j]? = some e' → e'.hash ≠ 0 →
      (fun y => eq y x) e'.el = true → j = i := by
    intro j e' hj hl' hx'
    exact hwf.distinct j i e' e hj hi hl' hl (laws.trans _ _ _ hx' (laws.symm _ _ hx))
  obtain ⟨hfind, -, hrepl⟩ := cont_unique (P := fun y => eq y x) hi hl hx huniq x x
  have hcont : contents t' = Spec.repl (fun y => eq y x) x (contents t) := by
    rw [contents_eq, contents_eq, hels]; exact hrepl
  have ent' : ∀ r, ent t' r = ent t r := by intro r; simp [ent, he]
  have els' : ∀ (j : Nat) (e' : El α), t'.els[j]? = some e' ↔
      (j ≠ i ∧ t.els[j]? = some e') ∨ (j = i ∧ e' = ⟨e.hash, x⟩) := by
    intro j e'; rw [hels, getElem?_set_iff]; simp [hil]
  have repl_len : ∀ (l : List α), (Spec.repl (fun y => eq y x) x l).length = l.length := by
    intro l; induction l with
    | nil => rfl
    | cons a l ih => simp only [Spec.repl]; split <;> simp [ih]
  refine ⟨?_, hcont, hfind⟩
  constructor
  · rw [hcap]; exact hwf.cap_pow
  · rw [he, hcap]; exact hwf.ent_len
  · rw [hels, hcap]; simp; exact hwf.els_le
  · rw [hnum, hcont, repl_len]; exact hwf.num_eq
  · rw [he, hels]; simp; exact hwf.empties
  · -- idx_ok
    intro r j hr
    rw [ent'] at hr
    obtain ⟨e0, h1, h2⟩ := hwf.idx_ok r j hr
    by_cases hji : j = i
    · exact ⟨⟨e.hash, x⟩, (els' _ _).mpr (Or.inr ⟨hji, rfl⟩), hl⟩
    · exact ⟨e0, (els' _ _).mpr (Or.inl ⟨hji, h1⟩), h2⟩
  · intro r s j hr hs
    rw [ent'] at hr hs
    exact hwf.idx_inj r s j hr hs
  · -- has_slot
    intro j e' hj hl'
    rcases (els' j e').mp hj with ⟨_, hj⟩ | ⟨rfl, rfl⟩
    · obtain ⟨r, hr⟩ := hwf.has_slot j e' hj hl'
      exact ⟨r, by rw [ent']; exact hr⟩
    · exact ⟨p, by rw [ent']; exact hp⟩
  · -- hash_ok
    intro j e' hj hl'
    rcases (els' j e').mp hj with ⟨_, hj⟩ | ⟨rfl, rfl⟩
    · exact hwf.hash_ok j e' hj hl'
    · exact hh
  · -- distinct
    intro a b ea eb ha hb hla hlb hab
    rcases (els' a ea).mp ha with ⟨hai, ha⟩ | ⟨rfl, rfl⟩ <;>
      rcases (els' b eb).mp hb with ⟨hbi, hb⟩ | ⟨rfl, rfl⟩
    · exact hwf.distinct a b ea eb ha hb hla hlb hab
    · -- eq ea.el x
      exact huniq a ea ha hla hab
    · -- eq x eb.el
      exact (huniq b eb hb hlb (laws.symm _ _ hab)).symm
    · rfl
  · -- reach
    intro r j e' hr hj
    rw [he]
    rw [ent'] at hr
    have hpres : ∀ (pre : List Nat), (∀ q ∈ pre, ent t q ≠ .empty) → ∀ q ∈ pre, ent t' q ≠ .empty := by
      intro pre h q hq; rw [ent']; exact h q hq
    rcases (els' j e').mp hj with ⟨_, hj⟩ | ⟨rfl, rfl⟩
    · obtain ⟨pre, post, h1, h2⟩ := hwf.reach r j e' hr hj
      exact ⟨pre, post, h1, hpres pre h2⟩
    · obtain ⟨pre, post, h1, h2⟩ := hwf.reach r j e hr hi
      exact ⟨pre, post, h1, hpres pre h2⟩

/-! ### turning a found slot into a tombstone (DELETE) -/

theorem wf_delete {hf : α → Nat} {eq : α → α → Bool} (laws : Laws hf eq) {t t' : Tab α}
    (hwf : WF hf eq t) {x : α} {p i : Nat} {e : El α}
    (hp : ent t p = .idx i) (hi : t.els[i]? = some e) (hh : e.hash = hashOf hf x)
    (hx : eq e.el x = true)
    (he : t'.entries = t.entries.set p .deleted) (hels : t'.els = t.els.set i ⟨0, e.el⟩)
    (hcap : t'.cap = t.cap) (hnum : t'.num = t.num - 1) :
    WF hf eq t' ∧ contents t' = (contents t).eraseP (fun y => eq y x) ∧
      (contents t).find? (fun y => eq y x) = some e.el := by
  have hl : e.hash ≠ 0 := by rw [hh]; exact hashOf_ne hf x
  have hpl : p < t.entries.length := ent_lt (by rw [hp]; simp)
  have hil : i < t.els.length := by
    rcases Nat.lt_or_ge i t.els.length with hlt | hge
    · exact hlt
    · rw [List.getElem?_eq_none hge] at hi; cases hi
  have huniq : ∀ (j : Nat) (e' : El α), t.els[j]? = some e' → e'.hash ≠ 0 →
      (fun y => eq y x) e'.el = true → j = i := by
    intro j e' hj hl' hx'
    exact hwf.distinct j i e' e hj hi hl' hl (laws.trans _ _ _ hx' (laws.symm _ _ hx))
  obtain ⟨hfind, hdel, -⟩ := cont_unique (P := fun y => eq y x) hi hl hx huniq x e.el
  have hcont : contents t' = (contents t).eraseP (fun y => eq y x) := by
    rw [contents_eq, contents_eq, hels]; exact hdel
  have hmem : e.el ∈ contents t := List.mem_of_find?_eq_some hfind
  have ent' := ent_of_entries he hpl
  have hlen : t'.entries.length = t.entries.length := by rw [he]; simp
  have els' : ∀ (j : Nat) (e' : El α), t'.els[j]? = some e' ↔
      (j ≠ i ∧ t.els[j]? = some e') ∨ (j = i ∧ e' = ⟨0, e.el⟩) := by
    intro j e'; rw [hels, getElem?_set_iff]; simp [hil]
  have idx_ne : ∀ q j, q ≠ p → ent t q = .idx j → j ≠ i := by
    intro q j hq hqj hji; subst hji; exact hq (hwf.idx_inj q p j hqj hp)
  refine ⟨?_, hcont, hfind⟩
  constructor
  · rw [hcap]; exact hwf.cap_pow
  · rw [hlen, hcap]; exact hwf.ent_len
  · rw [hels, hcap]; simp; exact hwf.els_le
  · rw [hnum, hcont, List.length_eraseP_of_mem hmem hx, hwf.num_eq]
  · rw [hlen, he, hels]
    have h1 := count_empty_set_idx t.entries p i .deleted hpl (by rw [ent_getElem hpl]; exact hp)
    have h2 := hwf.empties
    simp only [List.length_set]
    omega
  · -- idx_ok
    intro q j hq
    rw [ent'] at hq
    split at hq
    · cases hq
    · rename_i hqp
      obtain ⟨e0, h1, h2⟩ := hwf.idx_ok q j hq
      exact ⟨e0, (els' _ _).mpr (Or.inl ⟨idx_ne q j hqp hq, h1⟩), h2⟩
  · -- idx_inj
    intro q r j hq hr
    rw [ent'] at hq hr
    split at hq
    · cases hq
    · split at hr
      · cases hr
      · exact hwf.idx_inj q r j hq hr
  · -- has_slot
    intro j e' hj hl'
    rcases (els' j e').mp hj with ⟨hji, hj⟩ | ⟨rfl, rfl⟩
    · obtain ⟨q, hq⟩ := hwf.has_slot j e' hj hl'
      refine ⟨q, ?_⟩
      rw [ent']
      have : q ≠ p := by
        intro hqp; subst hqp; rw [hp] at hq; injection hq with h'; exact hji h'.symm
      rw [if_neg this]; exact hq
    · exact absurd rfl hl'
  · -- hash_ok
    intro j e' hj hl'
    rcases (els' j e').mp hj with ⟨_, hj⟩ | ⟨rfl, rfl⟩
    · exact hwf.hash_ok j e' hj hl'
    · exact absurd rfl hl'
  · -- distinct
    intro a b ea eb ha hb hla hlb hab
    rcases (els' a ea).mp ha with ⟨_, ha⟩ | ⟨rfl, rfl⟩
    · rcases (els' b eb).mp hb with ⟨_, hb⟩ | ⟨rfl, rfl⟩
      · exact hwf.distinct a b ea eb ha hb hla hlb hab
      · exact absurd rfl hlb
    · exact absurd rfl hla
  · -- reach
    intro q j e' hq hj
    rw [hlen]
    rw [ent'] at hq
    split at hq
    · cases hq
    · rename_i hqp
      have hji := idx_ne q j hqp hq
      have hj' : t.els[j]? = some e' := by
        rcases (els' j e').mp hj with ⟨_, hj⟩ | ⟨h, _⟩
        · exact hj
        · exact absurd h hji
      obtain ⟨pre, post, h1, h2⟩ := hwf.reach q j e' hq hj'
      refine ⟨pre, post, h1, ?_⟩
      intro r hr
      rw [ent']
      split
      · simp
      · exact h2 r hr

end MirVerif.Htab
