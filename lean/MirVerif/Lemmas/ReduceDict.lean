import MirVerif.Model.Reduce
/-! Dictionary lemmas for C12: the invariant of the encoder's hash table (`TabInv`) and the
specifications of `_reduce_dict_find_longest` / `_reduce_dict_add` that follow from it.

`P p m` is an arbitrary predicate "the pair (position p, symbol number m) may be referenced";
the invariant says that every allocated element satisfies `P` and that chain links lead only
to allocated elements, so *whatever* the walk visits (whatever the fuel) is referenceable. -/
namespace MirVerif.Reduce

def SlotOK (P : Nat → Nat → Prop) (n i : Nat) (s : Slot) : Prop :=
  (s.head = NIL ∨ s.head < n) ∧ (i < n → (s.next = NIL ∨ s.next < n) ∧ P s.pos s.num)

/-- every chain head and every `next` of an allocated element (`index < n`) is `NIL` or allocated,
and every allocated element holds a referenceable pair -/
def TabInv (P : Nat → Nat → Prop) (n : Nat) (tab : Array Slot) : Prop :=
  ∀ i s, tab[i]? = some s → SlotOK P n i s

theorem TabInv.mono {P Q : Nat → Nat → Prop} {n : Nat} {tab : Array Slot}
    (h : TabInv P n tab) (hpq : ∀ p m, P p m → Q p m) : TabInv Q n tab := by
  intro i s hs
  have ⟨h1, h2⟩ := h i s hs
  exact ⟨h1, fun hi => ⟨(h2 hi).1, hpq _ _ (h2 hi).2⟩⟩

theorem allSlots_modify {Q Q' : Nat → Slot → Prop} {tab : Array Slot} {i : Nat} {f : Slot → Slot}
    (h : ∀ j s, tab[j]? = some s → Q j s)
    (hstep : ∀ j s, tab[j]? = some s → Q j s → Q' j (if i = j then f s else s)) :
    ∀ j s, (tab.modify i f)[j]? = some s → Q' j s := by
  intro j s hs
  rw [Array.getElem?_modify] at hs
  by_cases hij : i = j
  · rw [if_pos hij] at hs
    cases h0 : tab[j]? with
    | none => rw [h0] at hs; cases hs
    | some s0 =>
      rw [h0] at hs
      simp only [Option.map_some, Option.some.injEq] at hs
      have := hstep j s0 h0 (h j s0 h0)
      rw [if_pos hij, hs] at this
      exact this
  · rw [if_neg hij] at hs
    have := hstep j s hs (h j s hs)
    rw [if_neg hij] at this
    exact this

theorem tabInv_reset (P : Nat → Nat → Prop) (n : Nat) : TabInv P 0 (resetTable n) := by
  intro i s hs
  simp only [resetTable, Array.getElem?_map, Array.getElem?_range] at hs
  split at hs
  · simp only [Option.map_some, Option.some.injEq] at hs
    subst hs
    exact ⟨Or.inl rfl, fun h => absurd h (Nat.not_lt_zero _)⟩
  · cases hs

/-- head of chain `h` (as read by the C code) is `NIL` or allocated -/
theorem head_ok {P : Nat → Nat → Prop} {n : Nat} {tab : Array Slot} (hinv : TabInv P n tab) (h : Nat) :
    headOf tab h = NIL ∨ headOf tab h < n := by
  unfold headOf
  cases hs : tab[h]? with
  | none => exact Or.inl rfl
  | some s => exact (hinv h s hs).1

theorem next_ok {P : Nat → Nat → Prop} {n : Nat} {tab : Array Slot} (hinv : TabInv P n tab) (i : Nat)
    (hi : i < n) :
    nextOf tab i = NIL ∨ nextOf tab i < n := by
  unfold nextOf
  cases hs : tab[i]? with
  | none => exact Or.inl rfl
  | some s => exact ((hinv i s hs).2 hi).1

/-- `linkEl` on an element `cur` that is allocated in the *new* count `n'` -/
theorem tabInv_linkEl {P : Nat → Nat → Prop} {n n' : Nat} {tab : Array Slot} (h cur pos num : Nat)
    (hinv : TabInv P n tab) (hn : n ≤ n') (hcur : cur < n') (hcov : ∀ i, i < n' → i < n ∨ i = cur)
    (hP : P pos num) : TabInv P n' (linkEl tab h cur pos num) := by
  unfold linkEl
  dsimp only
  have hhd := head_ok hinv h
  generalize headOf tab h = hd at hhd
  unfold TabInv
  apply allSlots_modify (Q := fun j s => SlotOK P n' j s) (Q' := fun j s => SlotOK P n' j s)
  · apply allSlots_modify (Q := fun j s => SlotOK P n j s) (Q' := fun j s => SlotOK P n' j s) hinv
    intro j s _ hq
    by_cases hj : cur = j
    · rw [if_pos hj]
      refine ⟨?_, fun _ => ⟨?_, hP⟩⟩
      · rcases hq.1 with h1 | h1
        · exact Or.inl h1
        · exact Or.inr (by show s.head < n'; omega)
      · rcases hhd with h1 | h1
        · exact Or.inl h1
        · exact Or.inr (by show hd < n'; omega)
    · rw [if_neg hj]
      refine ⟨?_, fun hjn => ?_⟩
      · rcases hq.1 with h1 | h1
        · exact Or.inl h1
        · exact Or.inr (by omega)
      · have hjn' : j < n := by
          rcases hcov j hjn with h1 | h1
          · exact h1
          · exact absurd h1.symm hj
        have ⟨h1, h2⟩ := hq.2 hjn'
        refine ⟨?_, h2⟩
        rcases h1 with h1 | h1
        · exact Or.inl h1
        · exact Or.inr (by omega)
  · intro j s _ hq
    by_cases hj : h = j
    · rw [if_pos hj]
      exact ⟨Or.inr hcur, hq.2⟩
    · rw [if_neg hj]; exact hq

theorem findLast_ok {P : Nat → Nat → Prop} {n : Nat} {tab : Array Slot} (hinv : TabInv P n tab)
    (fuel prev curr : Nat) (hp : prev = NIL ∨ prev < n) (hc : curr = NIL ∨ curr < n) :
    ((findLast tab fuel prev curr).1 = NIL ∨ (findLast tab fuel prev curr).1 < n) ∧
    ((findLast tab fuel prev curr).2 = NIL ∨ (findLast tab fuel prev curr).2 < n) := by
  induction fuel generalizing prev curr with
  | zero => exact ⟨hp, hc⟩
  | succ fuel ih =>
    unfold findLast
    split
    · exact ⟨hp, hc⟩
    · rename_i hcn
      have hcl : curr < n := by
        rcases hc with h | h
        · exact absurd h hcn
        · exact h
      split
      · exact ⟨hp, Or.inl rfl⟩
      · rename_i el hel
        split
        · exact ⟨hp, hc⟩
        · exact ih curr el.next hc ((hinv curr el hel).2 hcl).1

theorem tabInv_dictEvict {P : Nat → Nat → Prop} {n : Nat} {tab : Array Slot} (fuel h pos num : Nat)
    (hinv : TabInv P n tab) (hP : P pos num) : TabInv P n (dictEvict tab fuel h pos num) := by
  unfold dictEvict
  dsimp only
  have hhd := head_ok hinv h
  generalize headOf tab h = hd at hhd
  have hfl := findLast_ok hinv fuel NIL hd (Or.inl rfl) hhd
  generalize findLast tab fuel NIL hd = pc at hfl
  obtain ⟨prev, curr⟩ := pc
  dsimp only at hfl ⊢
  split
  · exact hinv
  · rename_i hcn
    have hcl : curr < n := by
      rcases hfl.2 with h | h
      · exact absurd h hcn
      · exact h
    have hnx := next_ok hinv curr hcl
    generalize nextOf tab curr = nx at hnx
    apply tabInv_linkEl _ _ _ _ _ (Nat.le_refl _) hcl (fun i hi => Or.inl hi) hP
    split
    · rename_i hpn
      have hpl : prev < n := by
        rcases hfl.1 with h | h
        · exact absurd h hpn
        · exact h
      unfold TabInv
      apply allSlots_modify (Q := fun j s => SlotOK P n j s) (Q' := fun j s => SlotOK P n j s) hinv
      intro j s _ hq
      by_cases hj : prev = j
      · rw [if_pos hj]
        exact ⟨hq.1, fun hjn => ⟨hnx, (hq.2 hjn).2⟩⟩
      · rw [if_neg hj]; exact hq
    · unfold TabInv
      apply allSlots_modify (Q := fun j s => SlotOK P n j s) (Q' := fun j s => SlotOK P n j s) hinv
      intro j s _ hq
      by_cases hj : h = j
      · rw [if_pos hj]
        exact ⟨hnx, hq.2⟩
      · rw [if_neg hj]; exact hq

theorem dictAdd_num (c : Cfg) (buf : Array UInt8) (pos : Nat) (d : Dict) :
    (dictAdd c buf pos d).num = d.num + 1 := by
  unfold dictAdd
  dsimp only
  repeat' split
  all_goals rfl

theorem tabInv_dictAdd {P : Nat → Nat → Prop} (c : Cfg) (buf : Array UInt8) (pos : Nat) (d : Dict)
    (hinv : TabInv P d.count d.tab) (hP : P pos d.num) :
    TabInv P (dictAdd c buf pos d).count (dictAdd c buf pos d).tab := by
  unfold dictAdd
  dsimp only
  split
  · exact hinv
  · split
    · exact tabInv_linkEl _ _ _ _ hinv (Nat.le_succ _) (Nat.lt_succ_self _)
        (fun i hi => by dsimp only at hi; omega) hP
    · exact tabInv_dictEvict _ _ _ _ hinv hP

/-! ### `_reduce_dict_find_longest` -/

/-- what the encoder needs from a match `(length l, symbol number m)` found at `pos` -/
def Cand (P : Nat → Nat → Prop) (buf : Array UInt8) (pos l m : Nat) : Prop :=
  ∃ p, P p m ∧ startLen ≤ l ∧ l ≤ buf.size - pos ∧ l ≤ pos - p ∧
    ∀ i, i < l → buf[p + i]? = buf[pos + i]?

theorem matchLen_spec (buf : Array UInt8) (p q bnd : Nat) (fuel len0 : Nat) (h0 : len0 ≤ bnd)
    (heq : ∀ i, i < len0 → buf[p + i]? = buf[q + i]?) :
    matchLen buf p q bnd fuel len0 ≤ bnd ∧
    ∀ i, i < matchLen buf p q bnd fuel len0 → buf[p + i]? = buf[q + i]? := by
  induction fuel generalizing len0 with
  | zero => exact ⟨h0, heq⟩
  | succ fuel ih =>
    unfold matchLen
    split
    · rename_i hc
      apply ih (len0 + 1) (by omega)
      intro i hi
      by_cases hil : i < len0
      · exact heq i hil
      · have : i = len0 := by omega
        subst this; exact hc.2
    · exact ⟨h0, heq⟩

theorem walk_spec {P : Nat → Nat → Prop} {n : Nat} {tab : Array Slot} (buf : Array UInt8)
    (pos num : Nat) (hinv : TabInv P n tab) (fuel curr : Nat) (best : Option (Nat × Nat × Nat))
    (hc : curr = NIL ∨ curr < n) (hb : ∀ l m rs, best = some (l, m, rs) → Cand P buf pos l m) :
    ∀ l m rs, walk buf pos num tab fuel curr best = some (l, m, rs) → Cand P buf pos l m := by
  induction fuel generalizing curr best with
  | zero => exact hb
  | succ fuel ih =>
    unfold walk
    split
    · exact hb
    · rename_i hcn
      have hcl : curr < n := by
        rcases hc with h | h
        · exact absurd h hcn
        · exact h
      split
      · exact hb
      · rename_i el hel
        have ⟨hnext, hP⟩ := (hinv curr el hel).2 hcl
        dsimp only
        split
        · exact ih el.next best hnext hb
        · rename_i hlb
          split
          · exact ih el.next best hnext hb
          · rename_i hl4
            have hm := matchLen_spec buf el.pos pos (min (buf.size - pos) (pos - el.pos))
              (min (buf.size - pos) (pos - el.pos)) 0 (Nat.zero_le _)
              (fun i hi => absurd hi (Nat.not_lt_zero _))
            have hcand : ∀ (rs l m rs' : Nat),
                some (matchLen buf el.pos pos (min (buf.size - pos) (pos - el.pos))
                  (min (buf.size - pos) (pos - el.pos)) 0, el.num, rs) = some (l, m, rs') →
                Cand P buf pos l m := by
              intro rs l m rs' he
              simp only [Option.some.injEq, Prod.mk.injEq] at he
              obtain ⟨rfl, rfl, _⟩ := he
              exact ⟨el.pos, hP, by omega, by omega, by omega, hm.2⟩
            split
            · exact ih el.next _ hnext (hcand _)
            · split
              · exact ih el.next _ hnext (hcand _)
              · exact ih el.next _ hnext hb

theorem findLongest_spec {P : Nat → Nat → Prop} (c : Cfg) (buf : Array UInt8) (pos : Nat) (d : Dict)
    (hinv : TabInv P d.count d.tab) :
    (findLongest c buf pos d).1 = 0 ∨
    Cand P buf pos (findLongest c buf pos d).1 (findLongest c buf pos d).2 := by
  unfold findLongest
  split
  · exact Or.inl rfl
  · split
    · exact Or.inl rfl
    · rename_i hs hhs
      split
      · exact Or.inl rfl
      · rename_i l m rs hw
        exact Or.inr (walk_spec buf pos d.num hinv _ _ none (hinv _ hs hhs).1
          (fun _ _ _ h => by cases h) l m rs hw)

end MirVerif.Reduce
