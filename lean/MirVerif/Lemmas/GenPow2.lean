import MirVerif.Lemmas.SemOv
/-! Peephole identities the generator relies on (`transform_mul_div`). -/
namespace MirVerif

theorem tdiv_pos_round (x p : Int) (hp : 0 < p) :
    x.tdiv p = (x + (if x < 0 then p - 1 else 0)) / p := by
  by_cases hx : x < 0
  · rw [if_pos hx]
    have h1 : x.tdiv p = -((-x) / p) := by
      rw [← Int.tdiv_eq_ediv_of_nonneg (by omega : (0:Int) ≤ -x), Int.neg_tdiv, Int.neg_neg]
    rw [h1]
    have h := Int.mul_ediv_add_emod (-x) p
    have hr0 := Int.emod_nonneg (-x) (Int.ne_of_gt hp)
    have hr1 := Int.emod_lt_of_pos (-x) hp
    generalize (-x) / p = q at *
    generalize (-x) % p = r at *
    have e : x + (p - 1) = (p - 1 - r) + (-q) * p := by
      rw [Int.neg_mul, Int.mul_comm q p]; omega
    rw [e, Int.add_mul_ediv_right _ _ (Int.ne_of_gt hp), Int.ediv_eq_zero_of_lt (by omega) (by omega)]
    omega
  · rw [if_neg hx, Int.add_zero, Int.tdiv_eq_ediv_of_nonneg (by omega)]


theorem toInt_twoPow64 (k : Nat) (hk : k ≤ 62) : (BitVec.twoPow 64 k).toInt = 2 ^ k := by
  rw [BitVec.toInt_twoPow, if_neg (by omega), if_neg (by omega)]

theorem pow_bounds64 (k : Nat) (hk : k ≤ 62) : (1 : Int) ≤ 2 ^ k ∧ (2 : Int) ^ k ≤ 4611686018427387904 := by
  have h1 : (2 : Nat) ^ k ≤ 2 ^ 62 := Nat.pow_le_pow_right (by omega) hk
  have h2 : 1 ≤ (2 : Nat) ^ k := Nat.one_le_two_pow
  have e : ((2 : Int) ^ k) = (((2 : Nat) ^ k : Nat) : Int) := by norm_cast
  rw [e]; constructor <;> omega

theorem signMask64 (x : BitVec 64) (y : BitVec 64) :
    (x.sshiftRight 63 &&& y) = if x.toInt < 0 then y else 0 := by
  have hx := b64 x
  have h : (x.sshiftRight 63).toInt = x.toInt / 9223372036854775808 := by
    rw [BitVec.toInt_sshiftRight, Int.shiftRight_eq_div_pow]; rfl
  by_cases hneg : x.toInt < 0
  · rw [if_pos hneg]
    have : x.sshiftRight 63 = BitVec.allOnes 64 := by
      rw [eq_allOnes_iff (by decide), h]; omega
    rw [this, BitVec.allOnes_and]
  · rw [if_neg hneg]
    have : x.sshiftRight 63 = 0 := by
      rw [← toInt_eq_zero_iff, h]; omega
    rw [this]; simp

/-- `transform_mul_div`, signed division by `2^k`:
`x / 2^k = (x + ((x >>s 63) & (2^k - 1))) >>s k` -/
theorem sdiv_pow2_64 (x : BitVec 64) (k : Nat) (hk : k ≤ 62) :
    x.sdiv (BitVec.twoPow 64 k)
      = ((x.sshiftRight 63 &&& (BitVec.twoPow 64 k - 1)) + x).sshiftRight k := by
  have hx := b64 x
  have hp := pow_bounds64 k hk
  have htp := toInt_twoPow64 k hk
  have hone : (1 : BitVec 64).toInt = 1 := by decide
  have hm1 : (BitVec.twoPow 64 k - 1).toInt = 2 ^ k - 1 := by
    rw [toInt_sub64 _ _ (by rw [htp, hone]; omega) (by rw [htp, hone]; omega), htp, hone]
  apply BitVec.eq_of_toInt_eq
  rw [toInt_sdiv64 _ _ (by rw [htp]; omega), htp, BitVec.toInt_sshiftRight,
    Int.shiftRight_eq_div_pow, signMask64, tdiv_pos_round _ _ (by omega)]
  have e : ((2 ^ k : Nat) : Int) = (2 : Int) ^ k := by norm_cast
  rw [e]
  by_cases hneg : x.toInt < 0
  · rw [if_pos hneg, if_pos hneg, toInt_add64 _ _ (by rw [hm1]; omega) (by rw [hm1]; omega), hm1]
    congr 1; omega
  · rw [if_neg hneg, if_neg hneg]; simp

/-- unsigned division and multiplication by `2^k` are shifts -/
theorem udiv_pow2_64 (x : BitVec 64) (k : Nat) (hk : k < 64) :
    x / BitVec.twoPow 64 k = x >>> k := BitVec.udiv_twoPow_eq_of_lt hk
theorem mul_pow2_64 (x : BitVec 64) (k : Nat) :
    x * BitVec.twoPow 64 k = x <<< k := (BitVec.shiftLeft_eq_mul_twoPow x k).symm


theorem toInt_twoPow32 (k : Nat) (hk : k ≤ 30) : (BitVec.twoPow 32 k).toInt = 2 ^ k := by
  rw [BitVec.toInt_twoPow, if_neg (by omega), if_neg (by omega)]

theorem pow_bounds32 (k : Nat) (hk : k ≤ 30) : (1 : Int) ≤ 2 ^ k ∧ (2 : Int) ^ k ≤ 1073741824 := by
  have h1 : (2 : Nat) ^ k ≤ 2 ^ 30 := Nat.pow_le_pow_right (by omega) hk
  have h2 : 1 ≤ (2 : Nat) ^ k := Nat.one_le_two_pow
  have e : ((2 : Int) ^ k) = (((2 : Nat) ^ k : Nat) : Int) := by norm_cast
  rw [e]; constructor <;> omega

theorem signMask32 (x : BitVec 32) (y : BitVec 32) :
    (x.sshiftRight 31 &&& y) = if x.toInt < 0 then y else 0 := by
  have hx := b32 x
  have h : (x.sshiftRight 31).toInt = x.toInt / 2147483648 := by
    rw [BitVec.toInt_sshiftRight, Int.shiftRight_eq_div_pow]; rfl
  by_cases hneg : x.toInt < 0
  · rw [if_pos hneg]
    have : x.sshiftRight 31 = BitVec.allOnes 32 := by
      rw [eq_allOnes_iff (by decide), h]; omega
    rw [this, BitVec.allOnes_and]
  · rw [if_neg hneg]
    have : x.sshiftRight 31 = 0 := by
      rw [← toInt_eq_zero_iff, h]; omega
    rw [this]; simp

/-- `transform_mul_div`, signed division by `2^k`:
`x / 2^k = (x + ((x >>s 31) & (2^k - 1))) >>s k` -/
theorem sdiv_pow2_32 (x : BitVec 32) (k : Nat) (hk : k ≤ 30) :
    x.sdiv (BitVec.twoPow 32 k)
      = ((x.sshiftRight 31 &&& (BitVec.twoPow 32 k - 1)) + x).sshiftRight k := by
  have hx := b32 x
  have hp := pow_bounds32 k hk
  have htp := toInt_twoPow32 k hk
  have hone : (1 : BitVec 32).toInt = 1 := by decide
  have hm1 : (BitVec.twoPow 32 k - 1).toInt = 2 ^ k - 1 := by
    rw [toInt_sub32 _ _ (by rw [htp, hone]; omega) (by rw [htp, hone]; omega), htp, hone]
  apply BitVec.eq_of_toInt_eq
  rw [toInt_sdiv32 _ _ (by rw [htp]; omega), htp, BitVec.toInt_sshiftRight,
    Int.shiftRight_eq_div_pow, signMask32, tdiv_pos_round _ _ (by omega)]
  have e : ((2 ^ k : Nat) : Int) = (2 : Int) ^ k := by norm_cast
  rw [e]
  by_cases hneg : x.toInt < 0
  · rw [if_pos hneg, if_pos hneg, toInt_add32 _ _ (by rw [hm1]; omega) (by rw [hm1]; omega), hm1]
    congr 1; omega
  · rw [if_neg hneg, if_neg hneg]; simp

/-- unsigned division and multiplication by `2^k` are shifts -/
theorem udiv_pow2_32 (x : BitVec 32) (k : Nat) (hk : k < 32) :
    x / BitVec.twoPow 32 k = x >>> k := BitVec.udiv_twoPow_eq_of_lt hk
theorem mul_pow2_32 (x : BitVec 32) (k : Nat) :
    x * BitVec.twoPow 32 k = x <<< k := (BitVec.shiftLeft_eq_mul_twoPow x k).symm

end MirVerif
