import MirVerif.Model.DupRestore
/-!
Helper lemmas for C16: the copy loop of `_MIR_duplicate_func_insns`, label redirection, data reset.
-/
namespace MirVerif.DupRestore

/-! ### heap basics -/

@[simp] theorem Heap.set_same (h : Heap) (i : Nat) (v : Option Insn) : (h.set i v) i = v := by
  simp [Heap.set]

theorem Heap.set_other (h : Heap) {i j : Nat} (v : Option Insn) (hne : j ≠ i) :
    (h.set i v) j = h j := by
  simp [Heap.set, hne]

theorem getElem?_snoc {α : Type} {l : List α} {a x : α} {k : Nat}
    (h : (l ++ [a])[k]? = some x) : (k < l.length ∧ l[k]? = some x) ∨ (k = l.length ∧ x = a) := by
  by_cases hk : k < l.length
  · left
    rw [List.getElem?_append_left hk] at h
    exact ⟨hk, h⟩
  · right
    have hk' : l.length ≤ k := Nat.le_of_not_lt hk
    rw [List.getElem?_append_right hk'] at h
    by_cases h0 : k - l.length = 0
    · rw [h0] at h
      simp at h
      exact ⟨by omega, h.symm⟩
    · have : ([a] : List α)[k - l.length]? = none := by
        apply List.getElem?_eq_none
        simp
        omega
      rw [this] at h
      cases h

/-! ### the copy loop -/

def isLabelAt (h : Heap) (i : Nat) : Prop := ∃ insn, h i = some insn ∧ insn.kind = .label

/-- invariant of the copy loop after the prefix `done` of the original list has been processed;
`h0`, `m` are the heap and the allocation mark at entry -/
structure CopyInv (h0 : Heap) (m : Nat) (done : List Nat) (a : DupAcc) : Prop where
  next : a.next = m + done.length
  newList : a.newList = List.range' m done.length
  copy : ∀ k o, done[k]? = some o → a.heap (m + k) = h0 o
  lab : ∀ k o insn, done[k]? = some o → h0 o = some insn → insn.kind = .label →
          a.heap o = some { insn with data := some (m + k) }
  frame : ∀ i, i < m → (∀ insn, h0 i = some insn → insn.kind = .label → i ∉ done) →
          a.heap i = h0 i
  branches : ∀ b, b ∈ a.branches ↔
      ∃ k o insn, done[k]? = some o ∧ h0 o = some insn ∧ branchLike insn.kind = true ∧ b = m + k
  labels : ∀ o, o ∈ a.labels ↔ o ∈ done ∧ isLabelAt h0 o
  brNodup : a.branches.Nodup

theorem copyInv_init (h0 : Heap) (m : Nat) :
    CopyInv h0 m [] { heap := h0, next := m, newList := [], branches := [], labels := [] } := by
  constructor <;> simp [isLabelAt]

theorem CopyInv.br_lt {h0 : Heap} {m : Nat} {done : List Nat} {a : DupAcc}
    (inv : CopyInv h0 m done a) : ∀ b ∈ a.branches, m ≤ b ∧ b < a.next := by
  intro b hb
  obtain ⟨k, o, insn, hk, _, _, rfl⟩ := (inv.branches b).mp hb
  have := (List.getElem?_eq_some_iff.mp hk).1
  rw [inv.next]; omega

theorem branchLike_label_false {k : Kind} (h : k = .label) : branchLike k = false := by
  subst h; rfl

theorem copyInv_step {h0 : Heap} {m : Nat} {done : List Nat} {a : DupAcc} {o : Nat}
    (inv : CopyInv h0 m done a) (hdone : ∀ x ∈ done, x < m) (hnot : o ∉ done) (hlt : o < m)
    (insn : Insn)
    (ho : h0 o = some insn) : CopyInv h0 m (done ++ [o]) (dupStep a o) := by
  have hao : a.heap o = some insn := by
    rw [inv.frame o hlt (fun _ _ _ => hnot)]; exact ho
  have hn : a.next = m + done.length := inv.next
  unfold dupStep
  rw [hao]
  simp only
  by_cases hb : branchLike insn.kind = true
  · -- branch-like: copy, push on branch_insns
    rw [if_pos hb]
    have hnl : insn.kind ≠ .label := by
      intro hk; rw [branchLike_label_false hk] at hb; cases hb
    constructor
    · simp [hn]; omega
    · simp [hn, inv.newList, List.range'_concat]
    · intro k x hk
      dsimp only
      rcases getElem?_snoc hk with ⟨hk1, hk2⟩ | ⟨hk1, hk2⟩
      · rw [Heap.set_other _ _ (show m + k ≠ a.next by omega)]
        exact inv.copy k x hk2
      · subst hk1; subst hk2
        rw [← hn]; simp [ho]
    · intro k x i hk hx hkind
      dsimp only
      rcases getElem?_snoc hk with ⟨hk1, hk2⟩ | ⟨hk1, hk2⟩
      · have hxm : x ∈ done := List.mem_iff_getElem?.mpr ⟨k, hk2⟩
        have : x ≠ a.next := by have := hdone x hxm; omega
        rw [Heap.set_other _ _ this]
        exact inv.lab k x i hk2 hx hkind
      · subst hk1; subst hk2
        rw [ho] at hx; cases hx
        exact absurd hkind hnl
    · intro i hi hcond
      dsimp only
      rw [Heap.set_other _ _ (show i ≠ a.next by omega)]
      apply inv.frame i hi
      intro i' h1 h2 hmem
      exact hcond i' h1 h2 (List.mem_append_left _ hmem)
    · intro b
      simp only [List.mem_append, List.mem_singleton, inv.branches]
      constructor
      · rintro (⟨k, x, i, hk, hx, hbl, rfl⟩ | rfl)
        · exact ⟨k, x, i, by
            rw [List.getElem?_append_left (by
              have := List.getElem?_eq_some_iff.mp hk; exact this.1)]; exact hk, hx, hbl, rfl⟩
        · exact ⟨done.length, o, insn, by simp, ho, hb, hn⟩
      · rintro ⟨k, x, i, hk, hx, hbl, rfl⟩
        rcases getElem?_snoc hk with ⟨hk1, hk2⟩ | ⟨hk1, hk2⟩
        · exact Or.inl ⟨k, x, i, hk2, hx, hbl, rfl⟩
        · right; subst hk1; exact hn.symm ▸ rfl
    · intro x
      simp only [inv.labels, List.mem_append, List.mem_singleton]
      constructor
      · rintro ⟨h1, h2⟩; exact ⟨Or.inl h1, h2⟩
      · rintro ⟨h1 | h1, h2⟩
        · exact ⟨h1, h2⟩
        · subst h1
          obtain ⟨i, hi, hk⟩ := h2
          rw [ho] at hi; cases hi
          exact absurd hk hnl
    · dsimp only
      apply List.nodup_append.mpr
      refine ⟨inv.brNodup, by simp, ?_⟩
      intro x hx y hy
      have := inv.br_lt x hx
      have hy' : y = a.next := by simpa using hy
      omega
  · rw [if_neg hb]
    by_cases hl : insn.kind = .label
    · -- label: copy, set `data` of the original to the copy, push on labels
      rw [if_pos hl]
      constructor
      · simp [hn]; omega
      · simp [hn, inv.newList, List.range'_concat]
      · intro k x hk
        dsimp only
        rcases getElem?_snoc hk with ⟨hk1, hk2⟩ | ⟨hk1, hk2⟩
        · rw [Heap.set_other _ _ (show m + k ≠ o by omega),
              Heap.set_other _ _ (show m + k ≠ a.next by omega)]
          exact inv.copy k x hk2
        · subst hk1; subst hk2
          rw [Heap.set_other _ _ (show m + done.length ≠ x by omega), ← hn]; simp [ho]
      · intro k x i hk hx hkind
        dsimp only
        rcases getElem?_snoc hk with ⟨hk1, hk2⟩ | ⟨hk1, hk2⟩
        · have hxm : x ∈ done := List.mem_iff_getElem?.mpr ⟨k, hk2⟩
          have h1 : x ≠ a.next := by have := hdone x hxm; omega
          have h2 : x ≠ o := by intro e; subst e; exact hnot hxm
          rw [Heap.set_other _ _ h2, Heap.set_other _ _ h1]
          exact inv.lab k x i hk2 hx hkind
        · subst hk1; subst hk2
          rw [ho] at hx; cases hx
          simp [hn]
      · intro i hi hcond
        dsimp only
        have h2 : i ≠ o := by
          intro e; subst e
          exact hcond insn ho hl (List.mem_append_right _ (List.mem_singleton.mpr rfl))
        rw [Heap.set_other _ _ h2, Heap.set_other _ _ (show i ≠ a.next by omega)]
        apply inv.frame i hi
        intro i' h1 h3 hmem
        exact hcond i' h1 h3 (List.mem_append_left _ hmem)
      · intro b
        simp only [inv.branches]
        constructor
        · rintro ⟨k, x, i, hk, hx, hbl, rfl⟩
          exact ⟨k, x, i, by
            rw [List.getElem?_append_left (List.getElem?_eq_some_iff.mp hk).1]; exact hk,
            hx, hbl, rfl⟩
        · rintro ⟨k, x, i, hk, hx, hbl, rfl⟩
          rcases getElem?_snoc hk with ⟨hk1, hk2⟩ | ⟨hk1, hk2⟩
          · exact ⟨k, x, i, hk2, hx, hbl, rfl⟩
          · subst hk2; rw [ho] at hx; cases hx; rw [hbl] at hb; exact absurd rfl hb
      · intro x
        simp only [inv.labels, List.mem_append, List.mem_singleton]
        constructor
        · rintro (⟨h1, h2⟩ | rfl)
          · exact ⟨Or.inl h1, h2⟩
          · exact ⟨Or.inr rfl, insn, ho, hl⟩
        · rintro ⟨h1 | h1, h2⟩
          · exact Or.inl ⟨h1, h2⟩
          · exact Or.inr h1
      · exact inv.brNodup
    · -- any other instruction: plain copy
      rw [if_neg hl]
      constructor
      · simp [hn]; omega
      · simp [hn, inv.newList, List.range'_concat]
      · intro k x hk
        dsimp only
        rcases getElem?_snoc hk with ⟨hk1, hk2⟩ | ⟨hk1, hk2⟩
        · rw [Heap.set_other _ _ (show m + k ≠ a.next by omega)]
          exact inv.copy k x hk2
        · subst hk1; subst hk2
          rw [← hn]; simp [ho]
      · intro k x i hk hx hkind
        dsimp only
        rcases getElem?_snoc hk with ⟨hk1, hk2⟩ | ⟨hk1, hk2⟩
        · have hxm : x ∈ done := List.mem_iff_getElem?.mpr ⟨k, hk2⟩
          have : x ≠ a.next := by have := hdone x hxm; omega
          rw [Heap.set_other _ _ this]
          exact inv.lab k x i hk2 hx hkind
        · subst hk1; subst hk2
          rw [ho] at hx; cases hx
          exact absurd hkind hl
      · intro i hi hcond
        dsimp only
        rw [Heap.set_other _ _ (show i ≠ a.next by omega)]
        apply inv.frame i hi
        intro i' h1 h2 hmem
        exact hcond i' h1 h2 (List.mem_append_left _ hmem)
      · intro b
        simp only [inv.branches]
        constructor
        · rintro ⟨k, x, i, hk, hx, hbl, rfl⟩
          exact ⟨k, x, i, by
            rw [List.getElem?_append_left (List.getElem?_eq_some_iff.mp hk).1]; exact hk,
            hx, hbl, rfl⟩
        · rintro ⟨k, x, i, hk, hx, hbl, rfl⟩
          rcases getElem?_snoc hk with ⟨hk1, hk2⟩ | ⟨hk1, hk2⟩
          · exact ⟨k, x, i, hk2, hx, hbl, rfl⟩
          · subst hk2; rw [ho] at hx; cases hx; rw [hbl] at hb; exact absurd rfl hb
      · intro x
        simp only [inv.labels, List.mem_append, List.mem_singleton]
        constructor
        · rintro ⟨h1, h2⟩; exact ⟨Or.inl h1, h2⟩
        · rintro ⟨h1 | h1, h2⟩
          · exact ⟨h1, h2⟩
          · subst h1
            obtain ⟨i, hi, hk⟩ := h2
            rw [ho] at hi; cases hi
            exact absurd hk hl
      · exact inv.brNodup


theorem copyInv_fold {h0 : Heap} {m : Nat} :
    ∀ (rest done : List Nat) (a : DupAcc), CopyInv h0 m done a → (done ++ rest).Nodup →
      (∀ o ∈ done ++ rest, o < m ∧ (h0 o).isSome) →
      CopyInv h0 m (done ++ rest) (rest.foldl dupStep a) := by
  intro rest
  induction rest with
  | nil => intro done a inv _ _; simpa using inv
  | cons o rest ih =>
    intro done a inv hnd hall
    have ho := hall o (by simp)
    obtain ⟨insn, hinsn⟩ := Option.isSome_iff_exists.mp ho.2
    have hnot : o ∉ done := by
      intro hm
      have := (List.nodup_append.mp hnd).2.2 o hm o (by simp)
      exact this rfl
    have hdone : ∀ x ∈ done, x < m := fun x hx => (hall x (List.mem_append_left _ hx)).1
    have step := copyInv_step inv hdone hnot ho.1 insn hinsn
    have := ih (done ++ [o]) (dupStep a o) step (by simpa using hnd) (by simpa using hall)
    simpa using this

/-! ### redirect_duplicated_labels -/

theorem redirectOpsFrom_getElem? (h : Heap) (lo hi : Nat) :
    ∀ (ops : List Op) (start n : Nat),
      (redirectOpsFrom h lo hi start ops)[n]? =
        (ops[n]?).map (fun op =>
          if lo ≤ start + n ∧ start + n < hi then redirectOp h op else op) := by
  intro ops
  induction ops with
  | nil => intro start n; simp [redirectOpsFrom]
  | cons op rest ih =>
    intro start n
    cases n with
    | zero => simp only [redirectOpsFrom, List.getElem?_cons_zero, Option.map_some, Nat.add_zero]
    | succ n =>
      simp only [redirectOpsFrom, List.getElem?_cons_succ]
      rw [ih (start + 1) n]
      have : start + 1 + n = start + (n + 1) := by omega
      rw [this]

theorem redirectOpsFrom_length (h : Heap) (lo hi : Nat) :
    ∀ (ops : List Op) (start : Nat), (redirectOpsFrom h lo hi start ops).length = ops.length := by
  intro ops
  induction ops with
  | nil => intro; simp [redirectOpsFrom]
  | cons op rest ih => intro start; simp [redirectOpsFrom, ih]

/-- redirection only looks at `data` of the label targets -/
theorem redirectOpsFrom_congr {h h' : Heap} (lo hi : Nat) :
    ∀ (ops : List Op) (start : Nat),
      (∀ t, Op.lab (some t) ∈ ops → h' t = h t) →
      redirectOpsFrom h' lo hi start ops = redirectOpsFrom h lo hi start ops := by
  intro ops
  induction ops with
  | nil => intro _ _; rfl
  | cons op rest ih =>
    intro start hag
    simp only [redirectOpsFrom]
    rw [ih (start + 1) (fun t ht => hag t (List.mem_cons_of_mem _ ht))]
    congr 1
    split
    · cases op with
      | lab l =>
        cases l with
        | none => rfl
        | some t =>
          have := hag t (by simp)
          simp [redirectOp, derefData, this]
      | _ => rfl
    · rfl

theorem redirectInsn_congr {h h' : Heap} (insn : Insn)
    (hag : ∀ t, Op.lab (some t) ∈ insn.ops → h' t = h t) :
    redirectInsn h' insn = redirectInsn h insn := by
  unfold redirectInsn
  split
  · rfl
  · simp only
    rw [redirectOpsFrom_congr _ _ _ _ hag]

theorem redirect_fold (m : Nat) :
    ∀ (bs : List Nat) (h : Heap), (∀ b ∈ bs, m ≤ b) → bs.Nodup →
      (∀ i, i ∉ bs → (bs.foldl redirectAt h) i = h i) ∧
      (∀ b ∈ bs, ∀ insn, h b = some insn → (∀ t, Op.lab (some t) ∈ insn.ops → t < m) →
          (bs.foldl redirectAt h) b = some (redirectInsn h insn)) := by
  intro bs
  induction bs with
  | nil => intro h _ _; simp
  | cons b bs ih =>
    intro h hge hnd
    have hnd' := List.nodup_cons.mp hnd
    have hoff : ∀ i, i ≠ b → (redirectAt h b) i = h i := by
      intro i hi
      unfold redirectAt
      cases h b with
      | none => rfl
      | some insn => exact Heap.set_other _ _ hi
    obtain ⟨ih1, ih2⟩ := ih (redirectAt h b) (fun x hx => hge x (List.mem_cons_of_mem _ hx)) hnd'.2
    constructor
    · intro i hi
      simp only [List.foldl_cons]
      rw [ih1 i (fun hm => hi (List.mem_cons_of_mem _ hm))]
      exact hoff i (fun e => hi (e ▸ List.mem_cons_self))
    · intro x hx insn hins htg
      simp only [List.foldl_cons]
      rcases List.mem_cons.mp hx with rfl | hx'
      · rw [ih1 x hnd'.1]
        unfold redirectAt
        rw [hins]; simp
      · have hxb : x ≠ b := by intro e; subst e; exact hnd'.1 hx'
        have h1 : (redirectAt h b) x = some insn := by rw [hoff x hxb]; exact hins
        rw [ih2 x hx' insn h1 htg]
        congr 1
        apply redirectInsn_congr
        intro t ht
        have := htg t ht
        have := hge b List.mem_cons_self
        exact hoff t (by omega)

theorem reset_fold :
    ∀ (ls : List Nat) (h : Heap) (i : Nat),
      (ls.foldl resetDataAt h) i =
        if i ∈ ls then (h i).map (fun insn => { insn with data := none }) else h i := by
  intro ls
  induction ls with
  | nil => intro h i; simp
  | cons l ls ih =>
    intro h i
    simp only [List.foldl_cons]
    rw [ih]
    have hres : ∀ j, (resetDataAt h l) j =
        if j = l then (h j).map (fun insn => { insn with data := none }) else h j := by
      intro j
      unfold resetDataAt
      by_cases hj : j = l
      · subst hj
        cases hh : h j with
        | none => simp [hh]
        | some insn => simp
      · rw [if_neg hj]
        cases h l with
        | none => rfl
        | some insn => exact Heap.set_other _ _ hj
    rw [hres]
    by_cases h1 : i = l
    · subst h1
      simp
      cases h i <;> simp
    · simp [h1]

end MirVerif.DupRestore
