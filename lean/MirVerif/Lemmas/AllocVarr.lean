/-
C17 — invariants of the VARR allocator-event model: every operation keeps
`ledger[va.data] = sizeof (T) * va.size` (as `size_t`) and `ledger[va.hdr] = sizeof (VARR (T))`,
touches no other block, and the whole system of arrays stays pairwise disjoint.
-/
import MirVerif.Lemmas.Alloc
import MirVerif.Model.VarrAlloc

namespace MirVerif.VarrAlloc
open MirVerif.Alloc

variable {M : Type} [LiveMap M]

/-- size the ledger holds for address `a` -/
abbrev lget (L : Ledger M) (a : Nat) : Option Nat := LiveMap.get? L.live a

/-- `L'` differs from `L` only in the live blocks at the addresses `t1`, `t2` -/
structure Frame (L L' : Ledger M) (t1 t2 : Nat) : Prop where
  ps : L'.ps = L.ps
  maps : L'.maps = L.maps
  wr : L'.wr = L.wr
  same : ∀ a, a ≠ t1 → a ≠ t2 → lget L' a = lget L a

theorem Frame.refl (L : Ledger M) (t1 t2 : Nat) : Frame L L t1 t2 := ⟨rfl, rfl, rfl, fun _ _ _ => rfl⟩

variable [LawfulLiveMap M]

theorem malloc_step {L : Ledger M} {size ret : Nat} (hr : ret ≠ 0) (hf : lget L ret = none) :
    ∃ L', step L (.malloc size ret) = .ok L' ∧ lget L' ret = some size ∧ Frame L L' ret ret := by
  refine ⟨{ L with live := LiveMap.insert L.live ret size }, ?_, ?_, ⟨rfl, rfl, rfl, ?_⟩⟩
  · simp only [step, allocNew, hr, ↓reduceIte]
    simp only [lget] at hf
    simp [hf]
  · simp [lget, LawfulLiveMap.get?_insert]
  · intro a h1 _; simp [lget, LawfulLiveMap.get?_insert, h1]

theorem free_step {L : Ledger M} {ptr sz : Nat} (hp : ptr ≠ 0) (hl : lget L ptr = some sz) :
    ∃ L', step L (.free ptr) = .ok L' ∧ lget L' ptr = none ∧ Frame L L' ptr ptr := by
  refine ⟨{ L with live := LiveMap.erase L.live ptr }, ?_, ?_, ⟨rfl, rfl, rfl, ?_⟩⟩
  · simp only [step, hp, ↓reduceIte]
    simp only [lget] at hl
    simp [hl]
  · simp [lget, LawfulLiveMap.get?_erase]
  · intro a h1 _; simp [lget, LawfulLiveMap.get?_erase, h1]

/-- an accepted realloc: the reported old size is the ledger's, the answer is the old address or a
fresh one -/
theorem realloc_step {L : Ledger M} {ptr old new ret : Nat} (hp : ptr ≠ 0)
    (hl : lget L ptr = some old) (hr : ret ≠ 0) (hf : ret = ptr ∨ lget L ret = none) :
    ∃ L', step L (.realloc ptr old new ret) = .ok L' ∧ lget L' ret = some new
      ∧ (ret ≠ ptr → lget L' ptr = none) ∧ Frame L L' ptr ret := by
  refine ⟨{ L with live := LiveMap.insert (LiveMap.erase L.live ptr) ret new }, ?_, ?_, ?_, ⟨rfl, rfl, rfl, ?_⟩⟩
  · simp only [lget] at hl hf
    have hfree : LiveMap.get? (LiveMap.erase L.live ptr) ret = none := by
      rw [LawfulLiveMap.get?_erase]
      rcases hf with h | h
      · simp [h]
      · simp [h]
    simp only [step, hp, ↓reduceIte, hl, allocNew, hr, hfree]
  · simp [lget, LawfulLiveMap.get?_insert]
  · intro h
    have : ¬ ptr = ret := fun e => h e.symm
    simp [lget, LawfulLiveMap.get?_insert, LawfulLiveMap.get?_erase, this]
  · intro a h1 h2
    simp [lget, LawfulLiveMap.get?_insert, LawfulLiveMap.get?_erase, h1, h2]

/-! ### one array -/

structure VarrOk (L : Ledger M) (va : Varr) : Prop where
  hdr_ne : va.hdr ≠ 0
  data_ne : va.data ≠ 0
  ne : va.hdr ≠ va.data
  hdr_live : lget L va.hdr = some hdrSize
  data_live : lget L va.data = some (w (va.esz * va.size))

/-- the allocator's answer is admissible: non-NULL and either the old data address or not live -/
def RetFresh (L : Ledger M) (va : Varr) (o : VOp) : Prop :=
  ∀ r, o.ret? = some r → r ≠ 0 ∧ (r = va.data ∨ lget L r = none)

/-- the data address after the operation (`ret` if a realloc happened, else unchanged) -/
theorem expand_ok {L : Ledger M} {va : Varr} (n ret : Nat) (hv : VarrOk L va)
    (hr : ret ≠ 0) (hf : ret = va.data ∨ lget L ret = none) :
    ∃ L', run L (doExpand va n ret).2 = .ok L' ∧ VarrOk L' (doExpand va n ret).1
      ∧ Frame L L' va.data (doExpand va n ret).1.data
      ∧ (doExpand va n ret).1.hdr = va.hdr
      ∧ ((doExpand va n ret).1.data = va.data ∨ (doExpand va n ret).1.data = ret) := by
  unfold doExpand
  by_cases h : va.size < n
  · rw [if_pos h]
    obtain ⟨L', hs, hnew, _, hfr⟩ := realloc_step (new := w (va.esz * w (n + n / 2))) hv.data_ne hv.data_live hr hf
    have hhr : va.hdr ≠ ret := by
      rcases hf with e | e
      · rw [e]; exact hv.ne
      · intro e2; rw [← e2, hv.hdr_live] at e; simp at e
    refine ⟨L', run_single hs, ⟨hv.hdr_ne, hr, hhr, ?_, hnew⟩, hfr, rfl, Or.inr rfl⟩
    rw [hfr.same _ hv.ne hhr]; exact hv.hdr_live
  · rw [if_neg h]
    exact ⟨L, rfl, hv, Frame.refl _ _ _, rfl, Or.inl rfl⟩

theorem tailor_ok {L : Ledger M} {va : Varr} (n ret : Nat) (hv : VarrOk L va)
    (hr : ret ≠ 0) (hf : ret = va.data ∨ lget L ret = none) :
    ∃ L', run L (doTailor va n ret).2 = .ok L' ∧ VarrOk L' (doTailor va n ret).1
      ∧ Frame L L' va.data (doTailor va n ret).1.data
      ∧ (doTailor va n ret).1.hdr = va.hdr
      ∧ ((doTailor va n ret).1.data = va.data ∨ (doTailor va n ret).1.data = ret) := by
  unfold doTailor
  by_cases h : va.size = n
  · rw [if_neg (by simpa using h)]
    refine ⟨L, rfl, ⟨hv.hdr_ne, hv.data_ne, hv.ne, hv.hdr_live, ?_⟩, Frame.refl _ _ _, rfl, Or.inl rfl⟩
    have := hv.data_live
    rw [h] at this; exact this
  · rw [if_pos h]
    obtain ⟨L', hs, hnew, _, hfr⟩ := realloc_step (new := w (va.esz * n)) hv.data_ne hv.data_live hr hf
    have hhr : va.hdr ≠ ret := by
      rcases hf with e | e
      · rw [e]; exact hv.ne
      · intro e2; rw [← e2, hv.hdr_live] at e; simp at e
    refine ⟨L', run_single hs, ⟨hv.hdr_ne, hr, hhr, ?_, hnew⟩, hfr, rfl, Or.inr rfl⟩
    rw [hfr.same _ hv.ne hhr]; exact hv.hdr_live

omit [LawfulLiveMap M] in
/-- changing only `els_num` does not disturb the invariant -/
theorem VarrOk.with_elsNum {L : Ledger M} {va : Varr} (hv : VarrOk L va) (k : Nat) :
    VarrOk L { va with elsNum := k } :=
  ⟨hv.hdr_ne, hv.data_ne, hv.ne, hv.hdr_live, hv.data_live⟩

/-- **every VARR operation is accepted by the ledger and keeps the invariant** -/
theorem vop_ok {L : Ledger M} {va : Varr} (o : VOp) (hv : VarrOk L va) (hf : RetFresh L va o) :
    ∃ L', run L (o.apply va).2 = .ok L' ∧ VarrOk L' (o.apply va).1
      ∧ Frame L L' va.data (o.apply va).1.data
      ∧ (o.apply va).1.hdr = va.hdr
      ∧ (∀ r, o.ret? = some r → (o.apply va).1.data = va.data ∨ (o.apply va).1.data = r)
      ∧ (o.ret? = none → (o.apply va).1.data = va.data) := by
  cases o with
  | expand n ret =>
    obtain ⟨hr, hf'⟩ := hf ret rfl
    obtain ⟨L', h1, h2, h3, h4, h5⟩ := expand_ok n ret hv hr hf'
    exact ⟨L', h1, h2, h3, h4, fun r e => (by cases e; exact h5), fun e => (by cases e)⟩
  | tailor n ret =>
    obtain ⟨hr, hf'⟩ := hf ret rfl
    obtain ⟨L', h1, h2, h3, h4, h5⟩ := tailor_ok n ret hv hr hf'
    exact ⟨L', h1, h2, h3, h4, fun r e => (by cases e; exact h5), fun e => (by cases e)⟩
  | push ret =>
    obtain ⟨hr, hf'⟩ := hf ret rfl
    obtain ⟨L', h1, h2, h3, h4, h5⟩ := expand_ok (w (va.elsNum + 1)) ret hv hr hf'
    exact ⟨L', h1, h2.with_elsNum _, h3, h4, fun r e => (by cases e; exact h5), fun e => (by cases e)⟩
  | pushArr len ret =>
    obtain ⟨hr, hf'⟩ := hf ret rfl
    obtain ⟨L', h1, h2, h3, h4, h5⟩ := expand_ok (w (va.elsNum + len)) ret hv hr hf'
    exact ⟨L', h1, h2.with_elsNum _, h3, h4, fun r e => (by cases e; exact h5), fun e => (by cases e)⟩
  | pop => exact ⟨L, rfl, hv.with_elsNum _, Frame.refl _ _ _, rfl, fun r e => (by cases e), fun _ => rfl⟩
  | trunc n => exact ⟨L, rfl, hv.with_elsNum _, Frame.refl _ _ _, rfl, fun r e => (by cases e), fun _ => rfl⟩

theorem create_ok {L : Ledger M} (esz size hdr data : Nat) (h1 : hdr ≠ 0) (h2 : data ≠ 0)
    (h3 : hdr ≠ data) (f1 : lget L hdr = none) (f2 : lget L data = none) :
    ∃ L', run L (create esz size hdr data).2 = .ok L' ∧ VarrOk L' (create esz size hdr data).1
      ∧ Frame L L' hdr data := by
  obtain ⟨L1, s1, n1, fr1⟩ := malloc_step (size := hdrSize) h1 f1
  have f2' : lget L1 data = none := by rw [fr1.same _ (Ne.symm h3) (Ne.symm h3)]; exact f2
  obtain ⟨L2, s2, n2, fr2⟩ := malloc_step
    (size := w ((if size = 0 then defaultSize else size) * esz)) h2 f2'
  refine ⟨L2, ?_, ⟨h1, h2, h3, ?_, ?_⟩, ⟨by rw [fr2.ps, fr1.ps], by rw [fr2.maps, fr1.maps], by rw [fr2.wr, fr1.wr], ?_⟩⟩
  · simp only [create]; exact run_cons_ok s1 (run_single s2)
  · simp only [create]; rw [fr2.same _ h3 h3]; exact n1
  · simp only [create]; rw [n2, Nat.mul_comm]
  · intro a a1 a2; rw [fr2.same _ a2 a2, fr1.same _ a1 a1]

theorem destroy_ok {L : Ledger M} {va : Varr} (hv : VarrOk L va) :
    ∃ L', run L (destroy va) = .ok L' ∧ lget L' va.hdr = none ∧ lget L' va.data = none
      ∧ Frame L L' va.data va.hdr := by
  obtain ⟨L1, s1, n1, fr1⟩ := free_step hv.data_ne hv.data_live
  have hh : lget L1 va.hdr = some hdrSize := by rw [fr1.same _ hv.ne hv.ne]; exact hv.hdr_live
  obtain ⟨L2, s2, n2, fr2⟩ := free_step hv.hdr_ne hh
  refine ⟨L2, run_cons_ok s1 (run_single s2), n2, ?_, ⟨by rw [fr2.ps, fr1.ps], by rw [fr2.maps, fr1.maps], by rw [fr2.wr, fr1.wr], ?_⟩⟩
  · rw [fr2.same _ (Ne.symm hv.ne) (Ne.symm hv.ne)]; exact n1
  · intro a a1 a2; rw [fr2.same _ a2 a2, fr1.same _ a1 a1]

/-! ### the system of arrays -/

theorem Sys.lookup_set (S : Sys) (h k : Nat) (va : Varr) :
    (S.set h va).lookup k = if k = h then some va else S.lookup k := Alloc.lookup_set S h k va

theorem Sys.lookup_del (S : Sys) (h k : Nat) :
    (S.del h).lookup k = if k = h then none else S.lookup k := Alloc.lookup_filter_ne S h k

structure SysOk (L : Ledger M) (S : Sys) : Prop where
  ok : ∀ h va, S.lookup h = some va → VarrOk L va
  disj : ∀ h1 h2 va vb, h1 ≠ h2 → S.lookup h1 = some va → S.lookup h2 = some vb →
    va.hdr ≠ vb.hdr ∧ va.hdr ≠ vb.data ∧ va.data ≠ vb.hdr ∧ va.data ≠ vb.data

/-- the operation is legal in the current state: handles exist, `VARR_ASSERT`s hold, and the
allocator answers as a correct allocator does (non-NULL, not a live block) -/
def OpValid (L : Ledger M) (S : Sys) : SysOp → Prop
  | .create h _ _ hdr data =>
      S.lookup h = none ∧ hdr ≠ 0 ∧ data ≠ 0 ∧ hdr ≠ data ∧ lget L hdr = none ∧ lget L data = none
  | .op h o => ∃ va, S.lookup h = some va ∧ o.pre va ∧ RetFresh L va o
  | .destroy h => ∃ va, S.lookup h = some va
  | .otherMalloc _ ret => ret ≠ 0 ∧ lget L ret = none
  | .otherFree ptr =>
      ptr ≠ 0 ∧ (∃ sz, lget L ptr = some sz)
        ∧ ∀ h va, S.lookup h = some va → ptr ≠ va.hdr ∧ ptr ≠ va.data

omit [LawfulLiveMap M] in
theorem VarrOk.frame {L L' : Ledger M} {va : Varr} {t1 t2 : Nat} (hv : VarrOk L va)
    (fr : Frame L L' t1 t2) (a1 : va.hdr ≠ t1) (a2 : va.hdr ≠ t2) (b1 : va.data ≠ t1)
    (b2 : va.data ≠ t2) : VarrOk L' va :=
  ⟨hv.hdr_ne, hv.data_ne, hv.ne, by rw [fr.same _ a1 a2]; exact hv.hdr_live,
   by rw [fr.same _ b1 b2]; exact hv.data_live⟩

omit [LawfulLiveMap M] in
/-- a live address is different from an address that is not live -/
theorem ne_of_live_of_free {L : Ledger M} {a b x : Nat} (ha : lget L a = some x)
    (hb : lget L b = none) : a ≠ b := by
  intro e; rw [e, hb] at ha; simp at ha

theorem sys_step_ok {L : Ledger M} {S : Sys} (o : SysOp) (hs : SysOk L S) (hv : OpValid L S o) :
    ∃ L', run L (sysStep S o).2 = .ok L' ∧ SysOk L' (sysStep S o).1 := by
  cases o with
  | create h esz size hdr data =>
    obtain ⟨hn, h1, h2, h3, f1, f2⟩ := hv
    obtain ⟨L', r, vok, fr⟩ := create_ok esz size hdr data h1 h2 h3 f1 f2
    refine ⟨L', r, ⟨?_, ?_⟩⟩
    · intro k va hk
      simp only [sysStep, Sys.lookup_set] at hk
      by_cases e : k = h
      · simp only [e, ↓reduceIte, Option.some.injEq] at hk; rw [← hk]; exact vok
      · simp only [e, ↓reduceIte] at hk
        have o := hs.ok k va hk
        exact o.frame fr (ne_of_live_of_free o.hdr_live f1) (ne_of_live_of_free o.hdr_live f2)
          (ne_of_live_of_free o.data_live f1) (ne_of_live_of_free o.data_live f2)
    · intro k1 k2 va vb hne l1 l2
      simp only [sysStep, Sys.lookup_set] at l1 l2
      by_cases e1 : k1 = h
      · have e2 : k2 ≠ h := fun e => hne (e1.trans e.symm)
        simp only [e1, ↓reduceIte, Option.some.injEq] at l1
        simp only [e2, ↓reduceIte] at l2
        have o := hs.ok k2 vb l2
        rw [← l1]
        simp only [create]
        exact ⟨(ne_of_live_of_free o.hdr_live f1).symm, (ne_of_live_of_free o.data_live f1).symm,
               (ne_of_live_of_free o.hdr_live f2).symm, (ne_of_live_of_free o.data_live f2).symm⟩
      · simp only [e1, ↓reduceIte] at l1
        by_cases e2 : k2 = h
        · simp only [e2, ↓reduceIte, Option.some.injEq] at l2
          have o := hs.ok k1 va l1
          rw [← l2]
          simp only [create]
          exact ⟨ne_of_live_of_free o.hdr_live f1, ne_of_live_of_free o.hdr_live f2,
                 ne_of_live_of_free o.data_live f1, ne_of_live_of_free o.data_live f2⟩
        · simp only [e2, ↓reduceIte] at l2
          exact hs.disj k1 k2 va vb hne l1 l2
  | op h o =>
    obtain ⟨va, hl, _, hf⟩ := hv
    have vok := hs.ok h va hl
    obtain ⟨L', r, vok', fr, hh, hd, hd0⟩ := vop_ok o vok hf
    -- the new data address is the old one or an address that was not live
    have hnew : (o.apply va).1.data = va.data ∨ lget L (o.apply va).1.data = none := by
      cases hr : o.ret? with
      | none => exact Or.inl (hd0 hr)
      | some r0 =>
        rcases hd r0 hr with e | e
        · exact Or.inl e
        · rcases (hf r0 hr).2 with e2 | e2
          · exact Or.inl (e.trans e2)
          · exact Or.inr (by rw [e]; exact e2)
    -- hence different from every block of another array
    have other : ∀ k vb, k ≠ h → S.lookup k = some vb →
        vb.hdr ≠ va.data ∧ vb.hdr ≠ (o.apply va).1.data ∧ vb.data ≠ va.data ∧ vb.data ≠ (o.apply va).1.data := by
      intro k vb hk lk
      have d := hs.disj k h vb va hk lk hl
      have ob := hs.ok k vb lk
      rcases hnew with e | e
      · rw [e]; exact ⟨d.2.1, d.2.1, d.2.2.2, d.2.2.2⟩
      · exact ⟨d.2.1, ne_of_live_of_free ob.hdr_live e, d.2.2.2, ne_of_live_of_free ob.data_live e⟩
    refine ⟨L', by simp only [sysStep, hl]; exact r, ⟨?_, ?_⟩⟩
    · intro k vb hk
      simp only [sysStep, hl, Sys.lookup_set] at hk
      by_cases e : k = h
      · simp only [e, ↓reduceIte, Option.some.injEq] at hk; rw [← hk]; exact vok'
      · simp only [e, ↓reduceIte] at hk
        obtain ⟨a1, a2, b1, b2⟩ := other k vb e hk
        exact (hs.ok k vb hk).frame fr a1 a2 b1 b2
    · intro k1 k2 v1 v2 hne l1 l2
      simp only [sysStep, hl, Sys.lookup_set] at l1 l2
      by_cases e1 : k1 = h
      · have e2 : k2 ≠ h := fun e => hne (e1.trans e.symm)
        simp only [e1, ↓reduceIte, Option.some.injEq] at l1
        simp only [e2, ↓reduceIte] at l2
        obtain ⟨_, a2, _, b2⟩ := other k2 v2 e2 l2
        have d := hs.disj k2 h v2 va e2 l2 hl
        rw [← l1, hh]
        exact ⟨d.1.symm, d.2.2.1.symm, a2.symm, b2.symm⟩
      · simp only [e1, ↓reduceIte] at l1
        by_cases e2 : k2 = h
        · simp only [e2, ↓reduceIte, Option.some.injEq] at l2
          obtain ⟨_, a2, _, b2⟩ := other k1 v1 e1 l1
          have d := hs.disj k1 h v1 va e1 l1 hl
          rw [← l2, hh]
          exact ⟨d.1, a2, d.2.2.1, b2⟩
        · simp only [e2, ↓reduceIte] at l2
          exact hs.disj k1 k2 v1 v2 hne l1 l2
  | destroy h =>
    obtain ⟨va, hl⟩ := hv
    have vok := hs.ok h va hl
    obtain ⟨L', r, _, _, fr⟩ := destroy_ok vok
    refine ⟨L', by simp only [sysStep, hl]; exact r, ⟨?_, ?_⟩⟩
    · intro k vb hk
      simp only [sysStep, hl, Sys.lookup_del] at hk
      by_cases e : k = h
      · simp [e] at hk
      · simp only [e, ↓reduceIte] at hk
        have d := hs.disj k h vb va e hk hl
        exact (hs.ok k vb hk).frame fr d.2.1 d.1 d.2.2.2 d.2.2.1
    · intro k1 k2 v1 v2 hne l1 l2
      simp only [sysStep, hl, Sys.lookup_del] at l1 l2
      by_cases e1 : k1 = h
      · simp [e1] at l1
      · by_cases e2 : k2 = h
        · simp [e2] at l2
        · simp only [e1, e2, ↓reduceIte] at l1 l2
          exact hs.disj k1 k2 v1 v2 hne l1 l2
  | otherMalloc size ret =>
    obtain ⟨h1, f1⟩ := hv
    obtain ⟨L', s, _, fr⟩ := malloc_step (size := size) h1 f1
    refine ⟨L', run_single s, ⟨?_, hs.disj⟩⟩
    intro k vb hk
    have o := hs.ok k vb hk
    exact o.frame fr (ne_of_live_of_free o.hdr_live f1) (ne_of_live_of_free o.hdr_live f1)
      (ne_of_live_of_free o.data_live f1) (ne_of_live_of_free o.data_live f1)
  | otherFree ptr =>
    obtain ⟨h1, ⟨sz, hl⟩, hno⟩ := hv
    obtain ⟨L', s, _, fr⟩ := free_step h1 hl
    refine ⟨L', run_single s, ⟨?_, hs.disj⟩⟩
    intro k vb hk
    have n := hno k vb hk
    exact (hs.ok k vb hk).frame fr n.1.symm n.1.symm n.2.symm n.2.symm

/-- a history is admissible when every operation is legal in the state (arrays *and* allocator
state) in which it is executed -/
def SysValid (L : Ledger M) (S : Sys) : List SysOp → Prop
  | [] => True
  | o :: os => OpValid L S o ∧
      match run L (sysStep S o).2 with
      | .ok L' => SysValid L' (sysStep S o).1 os
      | .error _ => True

theorem sys_trace_ok {L : Ledger M} {S : Sys} (ops : List SysOp) (hs : SysOk L S)
    (hv : SysValid L S ops) :
    ∃ L', run L (sysTrace S ops) = .ok L' ∧ SysOk L' (sysFinal S ops) := by
  induction ops generalizing L S with
  | nil => exact ⟨L, rfl, hs⟩
  | cons o os ih =>
    obtain ⟨hv1, hv2⟩ := hv
    obtain ⟨L1, r1, ok1⟩ := sys_step_ok o hs hv1
    rw [r1] at hv2
    obtain ⟨L2, r2, ok2⟩ := ih ok1 hv2
    exact ⟨L2, by simp only [sysTrace]; exact run_append_ok r1 r2, by simpa [sysFinal] using ok2⟩

/-! ### executable admissibility check (used for the non-vacuity examples and by the driver) -/

omit [LawfulLiveMap M] in
theorem mem_of_lookup {β : Type} {l : List (Nat × β)} {k : Nat} {v : β} (h : l.lookup k = some v) :
    (k, v) ∈ l := by
  induction l with
  | nil => simp [List.lookup] at h
  | cons x xs ih =>
    obtain ⟨a, b⟩ := x
    simp only [List.lookup] at h
    by_cases e : k = a
    · subst e; simp at h; subst h; exact List.mem_cons_self
    · have : (k == a) = false := by simp [e]
      simp only [this] at h
      exact List.mem_cons_of_mem _ (ih h)

def opValidB (L : Ledger M) (S : Sys) : SysOp → Bool
  | .create h _ _ hdr data =>
      (S.lookup h).isNone && hdr != 0 && data != 0 && hdr != data && (lget L hdr).isNone
        && (lget L data).isNone
  | .op h o =>
      match S.lookup h with
      | some va =>
          decide (o.pre va) &&
            (match o.ret? with
             | some r => r != 0 && (r == va.data || (lget L r).isNone)
             | none => true)
      | none => false
  | .destroy h => (S.lookup h).isSome
  | .otherMalloc _ ret => ret != 0 && (lget L ret).isNone
  | .otherFree ptr =>
      ptr != 0 && (lget L ptr).isSome && S.all (fun p => ptr != p.2.hdr && ptr != p.2.data)

omit [LawfulLiveMap M] in
theorem opValidB_sound {L : Ledger M} {S : Sys} {o : SysOp} (h : opValidB L S o = true) :
    OpValid L S o := by
  cases o with
  | create hd esz size hdr data =>
    simp only [opValidB, Bool.and_eq_true, Option.isNone_iff_eq_none, bne_iff_ne, ne_eq] at h
    obtain ⟨⟨⟨⟨⟨a, b⟩, c⟩, d⟩, e⟩, f⟩ := h
    exact ⟨a, b, c, d, e, f⟩
  | op hd o =>
    simp only [opValidB] at h
    cases hl : S.lookup hd with
    | none => simp [hl] at h
    | some va =>
      simp only [hl, Bool.and_eq_true, decide_eq_true_eq] at h
      refine ⟨va, hl, h.1, ?_⟩
      intro r hr
      have h2 := h.2
      simp only [hr, Bool.and_eq_true, bne_iff_ne, ne_eq, Bool.or_eq_true, beq_iff_eq,
        Option.isNone_iff_eq_none] at h2
      exact h2
  | destroy hd =>
    simp only [opValidB, Option.isSome_iff_exists] at h
    exact h
  | otherMalloc size ret =>
    simp only [opValidB, Bool.and_eq_true, bne_iff_ne, ne_eq, Option.isNone_iff_eq_none] at h
    exact h
  | otherFree ptr =>
    simp only [opValidB, Bool.and_eq_true, bne_iff_ne, ne_eq, Option.isSome_iff_exists,
      List.all_eq_true] at h
    obtain ⟨⟨a, b⟩, c⟩ := h
    refine ⟨a, b, ?_⟩
    intro k va hk
    exact c (k, va) (mem_of_lookup hk)

def sysValidB (L : Ledger M) (S : Sys) : List SysOp → Bool
  | [] => true
  | o :: os => opValidB L S o &&
      match run L (sysStep S o).2 with
      | .ok L' => sysValidB L' (sysStep S o).1 os
      | .error _ => true

omit [LawfulLiveMap M] in
theorem sysValidB_sound {L : Ledger M} {S : Sys} {ops : List SysOp} (h : sysValidB L S ops = true) :
    SysValid L S ops := by
  induction ops generalizing L S with
  | nil => trivial
  | cons o os ih =>
    simp only [sysValidB, Bool.and_eq_true] at h
    refine ⟨opValidB_sound h.1, ?_⟩
    have h2 := h.2
    cases hr : run L (sysStep S o).2 with
    | error v => trivial
    | ok L' =>
      simp only [hr] at h2
      exact ih h2

end MirVerif.VarrAlloc
