import MirVerif.Lemmas.Link
/-! invariant connecting the linker state machine with the history-level specification (C13) -/
namespace MirVerif.Link
set_option linter.unusedSimpArgs false
set_option linter.unusedVariables false

/-- what the state after an error-free history `r` (most recent call first) must look like -/
structure Inv (s : State) (r : List Op) : Prop where
  env : ∀ n, s.env.lookup n = lastDefR r n
  pend : ∀ n, (∃ m ∈ s.queue, n ∈ m.importNames) ↔ n ∈ pendingR r
  redef : s.redefOk = redefOkR r

theorem step_of_fatal {s : State} (op : Op) (h : s.fatal = true) : step s op = s := by
  simp [step, h]

theorem fatal_of_err_none {s : State} (h : s.err = none) : s.fatal = false := by
  simp [State.fatal, h]

theorem step_of_ok {s : State} (op : Op) (h : s.err = none) :
    step s op = match op with
      | .loadModule id ds => loadModule s id ds
      | .loadExternal n a => loadExternal s n a
      | .setRedef b => { s with redefOk := b }
      | .link i r => link s i r
      | .call => callAll s := by
  cases op <;> simp [step, fatal_of_err_none h]

theorem runFrom_of_fatal {s : State} (h : List Op) (he : s.fatal = true) : runFrom s h = s := by
  induction h with
  | nil => rfl
  | cons op t ih => simp only [runFrom, List.foldl_cons, step_of_fatal op he]; exact ih

theorem runFrom_cons (s : State) (op : Op) (t : List Op) :
    runFrom s (op :: t) = runFrom (step s op) t := rfl

theorem runFrom_append (s : State) (a b : List Op) :
    runFrom s (a ++ b) = runFrom (runFrom s a) b := by
  simp [runFrom, List.foldl_append]

/-- `err` is sticky: once some call has failed it stays set (also across a survivable failed link) -/
theorem err_some_step {s : State} (op : Op) (h : s.err.isSome = true) :
    (step s op).err.isSome = true := by
  unfold step
  split
  · exact h
  · cases op with
    | loadModule id ds =>
      simp only [loadModule]
      split
      · rfl
      · split
        · rfl
        · exact h
    | loadExternal n a => exact h
    | setRedef b => exact h
    | link ifc res =>
      simp only [link]
      split
      · rfl
      · cases ifc <;> exact h
    | call =>
      simp only [callAll]
      split
      · exact h
      · rfl

theorem err_none_of_step {s : State} {op : Op} (h : (step s op).err = none) : s.err = none := by
  cases he : s.err with
  | none => rfl
  | some e =>
    have : s.err.isSome = true := by simp [he]
    have := err_some_step op this
    rw [h] at this; cases this

theorem err_none_of_runFrom {s : State} {h : List Op} (he : (runFrom s h).err = none) :
    s.err = none := by
  induction h generalizing s with
  | nil => exact he
  | cons op t ih => exact err_none_of_step (ih (by rwa [runFrom_cons] at he))

/-! ### load -/

theorem load_env {id : Nat} {ds : List Decl} {b : Build} {ok : Bool} {env env' : Env}
    (hb : build ds = .ok b) (hl : loadDefs id ok b b.defs env = (env', none)) (n : Name) :
    env'.lookup n = match declExport id ds n with
                    | some d => some d
                    | none => env.lookup n := by
  obtain ⟨hexp, hdefs, _⟩ := build_spec hb
  have huniq : ∀ k, (n, k) ∈ b.defs → k = (declDefKind ds n).getD true := by
    intro k hk; rw [(hdefs n k).1 hk]; rfl
  rw [loadDefs_env hl n _ huniq]
  have hex : (∃ k, (n, k) ∈ b.defs) ↔ (declDefKind ds n).isSome = true := by
    constructor
    · rintro ⟨k, hk⟩; rw [(hdefs n k).1 hk]; rfl
    · intro h
      cases hd : declDefKind ds n with
      | none => rw [hd] at h; cases h
      | some k => exact ⟨k, (hdefs n k).2 hd⟩
  unfold declExport
  cases hx : declHasExp ds n with
  | false =>
    have : ¬ (b.exported n = true) := by rw [hexp n, hx]; simp
    simp [this]
  | true =>
    cases hd : declDefKind ds n with
    | none =>
      have : ¬ (∃ k, (n, k) ∈ b.defs) := by rw [hex, hd]; simp
      simp [this]
    | some k =>
      have h1 : b.exported n = true := by rw [hexp n, hx, hd]; simp
      have h2 : ∃ k, (n, k) ∈ b.defs := by rw [hex, hd]; rfl
      rw [if_pos ⟨h1, h2⟩]
      cases k <;> simp [mkDef]

theorem loadModule_ok {s : State} {id : Nat} {ds : List Decl} (h : (loadModule s id ds).err = none)
    (hs : s.err = none) :
    ∃ b env', build ds = .ok b ∧ loadDefs id s.redefOk b b.defs s.env = (env', none) ∧
      loadModule s id ds = { s with env := env', queue := s.queue ++ [{ id := id, imps := b.imps }] } := by
  unfold loadModule at h ⊢
  cases hb : build ds with
  | error e => rw [hb] at h; simp at h
  | ok b =>
    rw [hb] at h
    simp only at h ⊢
    generalize hl : loadDefs id s.redefOk b b.defs s.env = r at h ⊢
    obtain ⟨env', e⟩ := r
    cases e with
    | some e => simp at h
    | none => exact ⟨b, env', rfl, hl, rfl⟩

theorem inv_load {s : State} {r : List Op} {id : Nat} {ds : List Decl} (hinv : Inv s r)
    (hs : s.err = none) (h : (loadModule s id ds).err = none) :
    Inv (loadModule s id ds) (.loadModule id ds :: r) := by
  obtain ⟨b, env', hb, hl, heq⟩ := loadModule_ok h hs
  rw [heq]
  refine ⟨?_, ?_, hinv.redef⟩
  · intro n
    simp only [lastDefR]
    rw [load_env hb hl n, hinv.env n]
    cases declExport id ds n <;> rfl
  · intro n
    have h1 : n ∈ pendingR (.loadModule id ds :: r) ↔ (n ∈ pendingR r ∨ n ∈ declImports ds) := by
      simp [pendingR, pendingModsR]
    rw [h1, ← hinv.pend n, ← (build_spec hb).2.2 n]
    constructor
    · rintro ⟨m, hm, hn⟩
      rcases List.mem_append.1 hm with hm | hm
      · exact Or.inl ⟨m, hm, hn⟩
      · rw [List.mem_singleton] at hm; subst hm; exact Or.inr hn
    · rintro (⟨m, hm, hn⟩ | hn)
      · exact ⟨m, List.mem_append_left _ hm, hn⟩
      · exact ⟨{ id := id, imps := b.imps }, List.mem_append_right _ (List.mem_singleton.2 rfl), hn⟩

/-! ### link -/

theorem inlineMod_fields (m : Mod) :
    (inlineMod m).id = m.id ∧ (inlineMod m).imps = m.imps ∧ (inlineMod m).binds = m.binds ∧
    (inlineMod m).iface = m.iface ∧ (inlineMod m).coded = m.coded := by
  simp [inlineMod]

theorem installIface_fields (i : Iface) (m : Mod) :
    (installIface i m).id = m.id ∧ (installIface i m).imps = m.imps ∧
    (installIface i m).binds = m.binds ∧ (installIface i m).inl = m.inl := by
  simp [installIface]

/-- the modules handled by a link step, in their state after the step -/
def linkedMods (s s' : State) (ifc : Option Iface) : List Mod :=
  match ifc with
  | none => s'.queue
  | some _ => s'.done.drop s.done.length

def linkResult (s : State) (ifc : Option Iface) (env' : Env) (q' : List Mod) : State :=
  match ifc with
  | none => { s with env := env', queue := q'.map inlineMod }
  | some i => { s with env := env', queue := [],
                       done := s.done ++ (q'.map inlineMod).map (installIface i) }

theorem link_ok {s : State} {ifc : Option Iface} {res : Resolver} (h : (link s ifc res).err = none)
    (hs : s.err = none) :
    ∃ env' q', resolveQueue res s.queue s.env = (env', q', none) ∧
      link s ifc res = linkResult s ifc env' q' := by
  unfold link at h ⊢
  generalize hr : resolveQueue res s.queue s.env = r at h ⊢
  obtain ⟨env', q', e⟩ := r
  cases e with
  | some e => simp at h
  | none => exact ⟨env', q', rfl, by cases ifc <;> rfl⟩

theorem mem_flatMap_importNames {q : List Mod} {n : Name} :
    n ∈ q.flatMap Mod.importNames ↔ ∃ m ∈ q, n ∈ m.importNames := by
  simp [List.mem_flatMap]

theorem link_env {s : State} {r : List Op} {res : Resolver} {env' : Env} {q' : List Mod}
    (hinv : Inv s r) (hr : resolveQueue res s.queue s.env = (env', q', none)) (ifc : Option Iface)
    (n : Name) : env'.lookup n = lastDefR (.link ifc res :: r) n := by
  have hext := (resolveQueue_ok hr).1
  rw [hext n, hinv.env n]
  simp only [lastDefR]
  cases lastDefR r n with
  | some d => rfl
  | none =>
    have : n ∈ s.queue.flatMap Mod.importNames ↔ n ∈ pendingR r := by
      rw [mem_flatMap_importNames, hinv.pend n]
    by_cases hc : n ∈ pendingR r
    · simp [hc, this.2 hc]
    · have : n ∉ s.queue.flatMap Mod.importNames := fun h => hc (this.1 h)
      simp [hc, this]

theorem inv_link {s : State} {r : List Op} {ifc : Option Iface} {res : Resolver} (hinv : Inv s r)
    (hs : s.err = none) (h : (link s ifc res).err = none) :
    Inv (link s ifc res) (.link ifc res :: r) := by
  obtain ⟨env', q', hr, heq⟩ := link_ok h hs
  have hf := (resolveQueue_ok hr).2
  rw [heq]
  cases ifc with
  | none =>
    simp only [linkResult]
    refine ⟨fun n => link_env hinv hr none n, ?_, hinv.redef⟩
    intro n
    have hp : pendingR (.link none res :: r) = pendingR r := by simp [pendingR, pendingModsR]
    rw [hp, ← hinv.pend n]
    constructor
    · rintro ⟨m, hm, hn⟩
      obtain ⟨m', hm', rfl⟩ := List.mem_map.1 hm
      obtain ⟨m0, hm0, hb⟩ := hf.right m' hm'
      refine ⟨m0, hm0, ?_⟩
      have : m'.importNames = m0.importNames := by rw [hb.1]; rfl
      rw [← this]; exact hn
    · rintro ⟨m0, hm0, hn⟩
      obtain ⟨m', hm', hb⟩ := hf.left m0 hm0
      refine ⟨inlineMod m', List.mem_map.2 ⟨m', hm', rfl⟩, ?_⟩
      have : (inlineMod m').importNames = m0.importNames := by rw [hb.1]; rfl
      rw [this]; exact hn
  | some i =>
    simp only [linkResult]
    refine ⟨fun n => link_env hinv hr (some i) n, ?_, hinv.redef⟩
    intro n
    simp [pendingR, pendingModsR]

/-- what the first loop of `MIR_link` must produce for an import of `n` -/
theorem link_spec {s : State} {r : List Op} {ifc : Option Iface} {res : Resolver} (hinv : Inv s r)
    (hs : s.err = none) (h : (link s ifc res).err = none) :
    Forall2 (fun m m' => m'.id = m.id ∧ m'.imps = m.imps ∧
        ∀ n ∈ m.importNames, m'.binds.lookup n = wanted r res n ∧ (wanted r res n).isSome = true)
      s.queue (linkedMods s (link s ifc res) ifc) := by
  obtain ⟨env', q', hr, heq⟩ := link_ok h hs
  obtain ⟨hext, hf⟩ := resolveQueue_ok hr
  have key : ∀ m m', m ∈ s.queue → m' ∈ q' → Bound env' m m' → (m'.id = m.id ∧ m'.imps = m.imps ∧
      ∀ n ∈ m.importNames, m'.binds.lookup n = wanted r res n ∧ (wanted r res n).isSome = true) := by
    intro m m' hq _ hb
    refine ⟨by rw [hb.1], by rw [hb.1], ?_⟩
    intro n hn
    have hw : env'.lookup n = wanted r res n := by
      rw [hext n, hinv.env n]
      unfold wanted
      cases lastDefR r n with
      | some d => rfl
      | none =>
        have : n ∈ s.queue.flatMap Mod.importNames := mem_flatMap_importNames.2 ⟨m, hq, hn⟩
        simp [this]
    rw [← hw]; exact hb.2 n hn
  have hf' := hf.imp_mem key
  rw [heq]
  cases ifc with
  | none =>
    simp only [linkedMods, linkResult]
    refine hf'.map_right inlineMod ?_
    intro m m' h1
    simpa [inlineMod] using h1
  | some i =>
    simp only [linkedMods, linkResult]
    have : (s.done ++ List.map (installIface i) (List.map inlineMod q')).drop s.done.length
        = List.map (installIface i) (List.map inlineMod q') := by simp
    rw [this, List.map_map]
    refine hf'.map_right _ ?_
    intro m m' h1
    simpa [inlineMod, installIface] using h1

/-! ### all operations, whole histories -/

theorem callAll_fields (s : State) :
    (callAll s).env = s.env ∧ (callAll s).queue = s.queue ∧ (callAll s).redefOk = s.redefOk := by
  unfold callAll
  simp only
  split <;> simp

theorem inv_step {s : State} {r : List Op} {op : Op} (hinv : Inv s r) (hs : s.err = none)
    (h : (step s op).err = none) : Inv (step s op) (op :: r) := by
  rw [step_of_ok op hs] at h ⊢
  cases op with
  | loadModule id ds => exact inv_load hinv hs h
  | loadExternal n a =>
    refine ⟨?_, ?_, hinv.redef⟩
    · intro m
      simp only [loadExternal, setupGlobal, lastDefR, lookup_cons_eq, hinv.env m]
      by_cases hmn : m = n
      · subst hmn; simp
      · simp [hmn, Ne.symm hmn]
    · intro m
      have : pendingR (.loadExternal n a :: r) = pendingR r := by simp [pendingR, pendingModsR]
      rw [this]; exact hinv.pend m
  | setRedef b =>
    refine ⟨?_, ?_, ?_⟩
    · intro m; simp only [lastDefR]; exact hinv.env m
    · intro m
      have : pendingR (.setRedef b :: r) = pendingR r := by simp [pendingR, pendingModsR]
      rw [this]; exact hinv.pend m
    · simp [redefOkR]
  | link i res => exact inv_link hinv hs h
  | call =>
    obtain ⟨h1, h2, h3⟩ := callAll_fields s
    refine ⟨?_, ?_, ?_⟩
    · intro m; simp only [lastDefR]; rw [h1]; exact hinv.env m
    · intro m
      have : pendingR (.call :: r) = pendingR r := by simp [pendingR, pendingModsR]
      rw [this, h2]; exact hinv.pend m
    · simp only [redefOkR]; rw [h3]; exact hinv.redef

theorem redefOkR_link (i : Option Iface) (res : Resolver) (r : List Op) :
    redefOkR (.link i res :: r) = redefOkR r := rfl

theorem inv_runFrom {s : State} {r : List Op} (h : List Op) (hinv : s.err = none → Inv s r)
    (he : (runFrom s h).err = none) : Inv (runFrom s h) (h.reverse ++ r) := by
  induction h generalizing s r with
  | nil => simpa [runFrom] using hinv he
  | cons op t ih =>
    rw [runFrom_cons] at he ⊢
    have hstep : (step s op).err = none := err_none_of_runFrom he
    have hs : s.err = none := err_none_of_step hstep
    have := ih (s := step s op) (r := op :: r) (fun _ => inv_step (hinv hs) hs hstep) he
    simpa [List.reverse_cons, List.append_assoc] using this

theorem inv_init : Inv init [] := by
  refine ⟨?_, ?_, ?_⟩ <;> simp [init, lastDefR, pendingR, pendingModsR, redefOkR]

theorem inv_run {h : List Op} (he : (run h).err = none) : Inv (run h) h.reverse := by
  have := inv_runFrom (s := init) (r := []) h (fun _ => inv_init) he
  simpa [run] using this

theorem run_snoc (h : List Op) (op : Op) : run (h ++ [op]) = step (run h) op := by
  simp [run, runFrom, List.foldl_append]

end MirVerif.Link
