import MirVerif.Lemmas.Link
/-! invariant connecting the linker state machine with the history-level specification (C13) -/
namespace MirVerif.Link
set_option linter.unusedSimpArgs false
set_option linter.unusedVariables false

/-- what the state after an error-free history `r` (most recent call first) must look like -/
structure Inv (s : State) (r : List Op) : Prop where
  env : ∀ n, s.env.lookup n = lastDefR r n
  pend : ∀ n, (∃ m ∈ s.queue, n ∈ m.importNames) ↔ n ∈ pendingR r
  redef : s.redefOk = redefOkR r

theorem step_of_fatal {s : State} (op : Op) (h : s.fatal = true) : step s op = s := by
  simp [step, h]

theorem fatal_of_err_none {s : State} (h : s.err = none) : s.fatal = false := by
  simp [State.fatal, h]

theorem step_of_ok {s : State} (op : Op) (h : s.err = none) :
    step s op = match op with
      | .loadModule id ds => loadModule s id ds
      | .loadExternal n a => loadExternal s n a
      | .setRedef b => { s with redefOk := b }
      | .link i r => link s i r
      | .call => callAll s
      | .reload k => reloadModule s k := by
  cases op <;> simp [step, fatal_of_err_none h]

theorem runFrom_of_fatal {s : State} (h : List Op) (he : s.fatal = true) : runFrom s h = s := by
  induction h with
  | nil => rfl
  | cons op t ih => simp only [runFrom, List.foldl_cons, step_of_fatal op he]; exact ih

theorem runFrom_cons (s : State) (op : Op) (t : List Op) :
    runFrom s (op :: t) = runFrom (step s op) t := rfl

theorem runFrom_append (s : State) (a b : List Op) :
    runFrom s (a ++ b) = runFrom (runFrom s a) b := by
  simp [runFrom, List.foldl_append]

/-- `err` is sticky: once some call has failed it stays set (also across a survivable failed link) -/
theorem err_some_step {s : State} (op : Op) (h : s.err.isSome = true) :
    (step s op).err.isSome = true := by
  unfold step
  split
  · exact h
  · cases op with
    | loadModule id ds =>
      simp only [loadModule]
      split
      · rfl
      · split
        · rfl
        · exact h
    | loadExternal n a => exact h
    | setRedef b => exact h
    | link ifc res =>
      simp only [link]
      split
      · rfl
      · cases ifc <;> exact h
    | call =>
      simp only [callAll]
      split
      · exact h
      · rfl
    | reload k =>
      simp only [reloadModule]
      split
      · exact h
      · split
        · rfl
        · split
          · rfl
          · simp only [requeue]
            split
            · exact h
            · split <;> exact h

theorem err_none_of_step {s : State} {op : Op} (h : (step s op).err = none) : s.err = none := by
  cases he : s.err with
  | none => rfl
  | some e =>
    have : s.err.isSome = true := by simp [he]
    have := err_some_step op this
    rw [h] at this; cases this

theorem err_none_of_runFrom {s : State} {h : List Op} (he : (runFrom s h).err = none) :
    s.err = none := by
  induction h generalizing s with
  | nil => exact he
  | cons op t ih => exact err_none_of_step (ih (by rwa [runFrom_cons] at he))

/-! ### load -/

theorem load_env {id : Nat} {ds : List Decl} {b : Build} {ok : Bool} {env env' : Env}
    (hb : build ds = .ok b) (hl : loadDefs id ok b b.defs env = (env', none)) (n : Name) :
    env'.lookup n = match declExport id ds n with
                    | some d => some d
                    | none => env.lookup n := by
  obtain ⟨hexp, hdefs, _⟩ := build_spec hb
  have huniq : ∀ k, (n, k) ∈ b.defs → k = (declDefKind ds n).getD true := by
    intro k hk; rw [(hdefs n k).1 hk]; rfl
  rw [loadDefs_env hl n _ huniq]
  have hex : (∃ k, (n, k) ∈ b.defs) ↔ (declDefKind ds n).isSome = true := by
    constructor
    · rintro ⟨k, hk⟩; rw [(hdefs n k).1 hk]; rfl
    · intro h
      cases hd : declDefKind ds n with
      | none => rw [hd] at h; cases h
      | some k => exact ⟨k, (hdefs n k).2 hd⟩
  unfold declExport
  cases hx : declHasExp ds n with
  | false =>
    have : ¬ (b.exported n = true) := by rw [hexp n, hx]; simp
    simp [this]
  | true =>
    cases hd : declDefKind ds n with
    | none =>
      have : ¬ (∃ k, (n, k) ∈ b.defs) := by rw [hex, hd]; simp
      simp [this]
    | some k =>
      have h1 : b.exported n = true := by rw [hexp n, hx, hd]; simp
      have h2 : ∃ k, (n, k) ∈ b.defs := by rw [hex, hd]; rfl
      rw [if_pos ⟨h1, h2⟩]
      cases k <;> simp [mkDef]

theorem loadModule_ok {s : State} {id : Nat} {ds : List Decl} (h : (loadModule s id ds).err = none)
    (hs : s.err = none) :
    ∃ b env', build ds = .ok b ∧ loadDefs id s.redefOk b b.defs s.env = (env', none) ∧
      loadModule s id ds = { s with env := env',
                                    queue := s.queue ++ [{ id := id, imps := b.imps, uid := s.loaded.length }],
                                    loaded := s.loaded ++ [(id, ds)] } := by
  unfold loadModule at h ⊢
  cases hb : build ds with
  | error e => rw [hb] at h; simp at h
  | ok b =>
    rw [hb] at h
    simp only at h ⊢
    generalize hl : loadDefs id s.redefOk b b.defs s.env = r at h ⊢
    obtain ⟨env', e⟩ := r
    cases e with
    | some e => simp at h
    | none => exact ⟨b, env', rfl, hl, rfl⟩

theorem inv_load {s : State} {r : List Op} {id : Nat} {ds : List Decl} (hinv : Inv s r)
    (hs : s.err = none) (h : (loadModule s id ds).err = none) :
    Inv (loadModule s id ds) (.loadModule id ds :: r) := by
  obtain ⟨b, env', hb, hl, heq⟩ := loadModule_ok h hs
  rw [heq]
  refine ⟨?_, ?_, hinv.redef⟩
  · intro n
    simp only [lastDefR]
    rw [load_env hb hl n, hinv.env n]
    cases declExport id ds n <;> rfl
  · intro n
    have h1 : n ∈ pendingR (.loadModule id ds :: r) ↔ (n ∈ pendingR r ∨ n ∈ declImports ds) := by
      simp [pendingR, pendingModsR]
    rw [h1, ← hinv.pend n, ← (build_spec hb).2.2 n]
    constructor
    · rintro ⟨m, hm, hn⟩
      rcases List.mem_append.1 hm with hm | hm
      · exact Or.inl ⟨m, hm, hn⟩
      · rw [List.mem_singleton] at hm; subst hm; exact Or.inr hn
    · rintro (⟨m, hm, hn⟩ | hn)
      · exact ⟨m, List.mem_append_left _ hm, hn⟩
      · exact ⟨{ id := id, imps := b.imps, uid := s.loaded.length },
          List.mem_append_right _ (List.mem_singleton.2 rfl), hn⟩

/-! ### link -/

theorem inlineMod_fields (m : Mod) :
    (inlineMod m).id = m.id ∧ (inlineMod m).imps = m.imps ∧ (inlineMod m).binds = m.binds ∧
    (inlineMod m).iface = m.iface ∧ (inlineMod m).coded = m.coded := by
  simp [inlineMod]

theorem installIface_fields (i : Iface) (m : Mod) :
    (installIface i m).id = m.id ∧ (installIface i m).imps = m.imps ∧
    (installIface i m).binds = m.binds ∧ (installIface i m).inl = m.inl := by
  simp [installIface]

/-- the modules handled by a link step, in their state after the step -/
def linkedMods (s s' : State) (ifc : Option Iface) : List Mod :=
  match ifc with
  | none => s'.queue
  | some _ => s'.done.drop s.done.length

def linkResult (s : State) (ifc : Option Iface) (env' : Env) (q' : List Mod) : State :=
  match ifc with
  | none => { s with env := env', queue := q'.map inlineMod }
  | some i => { s with env := env', queue := [],
                       done := s.done ++ (q'.map inlineMod).map (installIface i) }

theorem link_ok {s : State} {ifc : Option Iface} {res : Resolver} (h : (link s ifc res).err = none)
    (hs : s.err = none) :
    ∃ env' q', resolveQueue res s.queue s.env = (env', q', none) ∧
      link s ifc res = linkResult s ifc env' q' := by
  unfold link at h ⊢
  generalize hr : resolveQueue res s.queue s.env = r at h ⊢
  obtain ⟨env', q', e⟩ := r
  cases e with
  | some e => simp at h
  | none => exact ⟨env', q', rfl, by cases ifc <;> rfl⟩

theorem mem_flatMap_importNames {q : List Mod} {n : Name} :
    n ∈ q.flatMap Mod.importNames ↔ ∃ m ∈ q, n ∈ m.importNames := by
  simp [List.mem_flatMap]

theorem link_env {s : State} {r : List Op} {res : Resolver} {env' : Env} {q' : List Mod}
    (hinv : Inv s r) (hr : resolveQueue res s.queue s.env = (env', q', none)) (ifc : Option Iface)
    (n : Name) : env'.lookup n = lastDefR (.link ifc res :: r) n := by
  have hext := (resolveQueue_ok hr).1
  rw [hext n, hinv.env n]
  simp only [lastDefR]
  cases lastDefR r n with
  | some d => rfl
  | none =>
    have : n ∈ s.queue.flatMap Mod.importNames ↔ n ∈ pendingR r := by
      rw [mem_flatMap_importNames, hinv.pend n]
    by_cases hc : n ∈ pendingR r
    · simp [hc, this.2 hc]
    · have : n ∉ s.queue.flatMap Mod.importNames := fun h => hc (this.1 h)
      simp [hc, this]

theorem inv_link {s : State} {r : List Op} {ifc : Option Iface} {res : Resolver} (hinv : Inv s r)
    (hs : s.err = none) (h : (link s ifc res).err = none) :
    Inv (link s ifc res) (.link ifc res :: r) := by
  obtain ⟨env', q', hr, heq⟩ := link_ok h hs
  have hf := (resolveQueue_ok hr).2
  rw [heq]
  cases ifc with
  | none =>
    simp only [linkResult]
    refine ⟨fun n => link_env hinv hr none n, ?_, hinv.redef⟩
    intro n
    have hp : pendingR (.link none res :: r) = pendingR r := by simp [pendingR, pendingModsR]
    rw [hp, ← hinv.pend n]
    constructor
    · rintro ⟨m, hm, hn⟩
      obtain ⟨m', hm', rfl⟩ := List.mem_map.1 hm
      obtain ⟨m0, hm0, hb⟩ := hf.right m' hm'
      refine ⟨m0, hm0, ?_⟩
      have : m'.importNames = m0.importNames := by rw [hb.1]; rfl
      rw [← this]; exact hn
    · rintro ⟨m0, hm0, hn⟩
      obtain ⟨m', hm', hb⟩ := hf.left m0 hm0
      refine ⟨inlineMod m', List.mem_map.2 ⟨m', hm', rfl⟩, ?_⟩
      have : (inlineMod m').importNames = m0.importNames := by rw [hb.1]; rfl
      rw [this]; exact hn
  | some i =>
    simp only [linkResult]
    refine ⟨fun n => link_env hinv hr (some i) n, ?_, hinv.redef⟩
    intro n
    simp [pendingR, pendingModsR]

/-- what the first loop of `MIR_link` must produce for an import of `n` -/
theorem link_spec {s : State} {r : List Op} {ifc : Option Iface} {res : Resolver} (hinv : Inv s r)
    (hs : s.err = none) (h : (link s ifc res).err = none) :
    Forall2 (fun m m' => m'.id = m.id ∧ m'.imps = m.imps ∧
        ∀ n ∈ m.importNames, m'.binds.lookup n = wanted r res n ∧ (wanted r res n).isSome = true)
      s.queue (linkedMods s (link s ifc res) ifc) := by
  obtain ⟨env', q', hr, heq⟩ := link_ok h hs
  obtain ⟨hext, hf⟩ := resolveQueue_ok hr
  have key : ∀ m m', m ∈ s.queue → m' ∈ q' → Bound env' m m' → (m'.id = m.id ∧ m'.imps = m.imps ∧
      ∀ n ∈ m.importNames, m'.binds.lookup n = wanted r res n ∧ (wanted r res n).isSome = true) := by
    intro m m' hq _ hb
    refine ⟨by rw [hb.1], by rw [hb.1], ?_⟩
    intro n hn
    have hw : env'.lookup n = wanted r res n := by
      rw [hext n, hinv.env n]
      unfold wanted
      cases lastDefR r n with
      | some d => rfl
      | none =>
        have : n ∈ s.queue.flatMap Mod.importNames := mem_flatMap_importNames.2 ⟨m, hq, hn⟩
        simp [this]
    rw [← hw]; exact hb.2 n hn
  have hf' := hf.imp_mem key
  rw [heq]
  cases ifc with
  | none =>
    simp only [linkedMods, linkResult]
    refine hf'.map_right inlineMod ?_
    intro m m' h1
    simpa [inlineMod] using h1
  | some i =>
    simp only [linkedMods, linkResult]
    have : (s.done ++ List.map (installIface i) (List.map inlineMod q')).drop s.done.length
        = List.map (installIface i) (List.map inlineMod q') := by simp
    rw [this, List.map_map]
    refine hf'.map_right _ ?_
    intro m m' h1
    simpa [inlineMod, installIface] using h1

/-! ### all operations, whole histories -/

theorem callAll_fields (s : State) :
    (callAll s).env = s.env ∧ (callAll s).queue = s.queue ∧ (callAll s).redefOk = s.redefOk := by
  unfold callAll
  simp only
  split <;> simp

theorem callAll_done (s : State) : (callAll s).done = s.done.map (codeMod s.env) := by
  unfold callAll
  simp only
  split <;> rfl

theorem callAll_loaded (s : State) : (callAll s).loaded = s.loaded := by
  unfold callAll
  simp only
  split <;> rfl

theorem codeMod_keys (env : Env) (m : Mod) :
    (codeMod env m).uid = m.uid ∧ (codeMod env m).id = m.id ∧ (codeMod env m).imps = m.imps := by
  unfold codeMod
  split
  · exact ⟨rfl, rfl, rfl⟩
  · split <;> exact ⟨rfl, rfl, rfl⟩

/-! ### the registry of module objects and `reload` -/

/-- every module record belongs to an entry of the registry, which is the list of loads of the history -/
structure Reg (s : State) (r : List Op) : Prop where
  loaded : s.loaded = loadsR r
  recs : ∀ m ∈ s.queue ++ s.done, ∃ ds, s.loaded[m.uid]? = some (m.id, ds) ∧
            ∀ n, n ∈ m.importNames ↔ n ∈ declImports ds

/-- same registry entry and same imports -/
def sameKeys (m m' : Mod) : Prop := m'.uid = m.uid ∧ m'.id = m.id ∧ m'.imps = m.imps

theorem recs_of_sameKeys {loaded : List (Nat × List Decl)} {old new : List Mod}
    (h : ∀ m' ∈ new, ∃ m ∈ old, sameKeys m m')
    (hold : ∀ m ∈ old, ∃ ds, loaded[m.uid]? = some (m.id, ds) ∧
              ∀ n, n ∈ m.importNames ↔ n ∈ declImports ds) :
    ∀ m' ∈ new, ∃ ds, loaded[m'.uid]? = some (m'.id, ds) ∧
      ∀ n, n ∈ m'.importNames ↔ n ∈ declImports ds := by
  intro m' hm'
  obtain ⟨m, hm, hu, hi, himps⟩ := h m' hm'
  obtain ⟨ds, hl, hn⟩ := hold m hm
  refine ⟨ds, by rw [hu, hi]; exact hl, ?_⟩
  intro n
  have : m'.importNames = m.importNames := by unfold Mod.importNames; rw [himps]
  rw [this]; exact hn n

inductive ReloadOutcome (s : State) (k : Nat) : Prop
  | absent (h : s.loaded[k]? = none) (heq : reloadModule s k = s)
  | ok (id : Nat) (ds : List Decl) (b : Build) (env' : Env) (hl : s.loaded[k]? = some (id, ds))
      (hb : build ds = .ok b) (hd : loadDefs id s.redefOk b b.defs s.env = (env', none))
      (heq : reloadModule s k = requeue { s with env := env' } k { id := id, imps := b.imps, uid := k })

theorem requeue_err (s : State) (k : Nat) (fresh : Mod) : (requeue s k fresh).err = s.err := by
  unfold requeue
  split
  · rfl
  · split <;> rfl

theorem reloadModule_ok {s : State} {k : Nat} (h : (reloadModule s k).err = none) :
    ReloadOutcome s k := by
  unfold reloadModule at h
  cases hl : s.loaded[k]? with
  | none => exact .absent hl (by unfold reloadModule; rw [hl])
  | some p =>
    obtain ⟨id, ds⟩ := p
    rw [hl] at h
    simp only at h
    cases hb : build ds with
    | error e => rw [hb] at h; simp at h
    | ok b =>
      rw [hb] at h
      simp only at h
      generalize hd : loadDefs id s.redefOk b b.defs s.env = r at h
      obtain ⟨env', e⟩ := r
      cases e with
      | some e => simp at h
      | none =>
        refine .ok id ds b env' hl hb hd ?_
        unfold reloadModule
        rw [hl]; simp only; rw [hb]; simp only; rw [hd]

theorem requeue_fields (s : State) (k : Nat) (fresh : Mod) :
    (requeue s k fresh).env = s.env ∧ (requeue s k fresh).redefOk = s.redefOk ∧
    (requeue s k fresh).loaded = s.loaded := by
  unfold requeue
  split
  · exact ⟨rfl, rfl, rfl⟩
  · split <;> exact ⟨rfl, rfl, rfl⟩

/-- the three ways `requeue` can go, as far as membership is concerned -/
theorem requeue_cases (s : State) (k : Nat) (fresh : Mod) :
    ((∃ m ∈ s.queue, m.uid = k) ∧ (requeue s k fresh).queue = s.queue ∧ (requeue s k fresh).done = s.done) ∨
    (∃ m ∈ s.done, m.uid = k ∧ (requeue s k fresh).queue = s.queue ++ [{ m with iface := none }] ∧
        (requeue s k fresh).done = s.done.filter (·.uid != k)) ∨
    ((requeue s k fresh).queue = s.queue ++ [fresh] ∧ (requeue s k fresh).done = s.done) := by
  unfold requeue
  by_cases hq : s.queue.any (·.uid == k) = true
  · left
    rw [if_pos hq]
    obtain ⟨m, hm, hk⟩ := List.any_eq_true.1 hq
    exact ⟨⟨m, hm, by simpa using hk⟩, rfl, rfl⟩
  · right
    rw [if_neg hq]
    cases hf : s.done.find? (·.uid == k) with
    | none => right; exact ⟨rfl, rfl⟩
    | some m =>
      left
      have hm := List.mem_of_find?_eq_some hf
      have hk := List.find?_some hf
      exact ⟨m, hm, by simpa using hk, rfl, rfl⟩

theorem inv_reload {s : State} {r : List Op} {k : Nat} (hinv : Inv s r) (hreg : Reg s r)
    (h : (reloadModule s k).err = none) : Inv (reloadModule s k) (.reload k :: r) := by
  have hlr : (loadsR r)[k]? = s.loaded[k]? := by rw [hreg.loaded]
  have hpend0 : ∀ n, n ∈ pendingR (.reload k :: r) ↔
      (n ∈ pendingR r ∨ ∃ id ds, (loadsR r)[k]? = some (id, ds) ∧ n ∈ declImports ds) := by
    intro n
    simp only [pendingR, pendingModsR]
    cases hx : (loadsR r)[k]? with
    | none => simp
    | some p =>
      obtain ⟨id, ds⟩ := p
      simp only [List.flatMap_append, List.flatMap_cons, List.flatMap_nil, List.append_nil,
        List.mem_append, Option.some.injEq, Prod.mk.injEq]
      constructor
      · rintro (h1 | h1)
        · exact Or.inl h1
        · exact Or.inr ⟨id, ds, ⟨rfl, rfl⟩, h1⟩
      · rintro (h1 | ⟨_, _, ⟨rfl, rfl⟩, h1⟩)
        · exact Or.inl h1
        · exact Or.inr h1
  cases reloadModule_ok h with
  | absent hl heq =>
    rw [heq]
    refine ⟨?_, ?_, hinv.redef⟩
    · intro n; simp only [lastDefR, hlr, hl]; exact hinv.env n
    · intro n; rw [hpend0 n, hlr, hl]; simpa using hinv.pend n
  | ok id ds b env' hl hb hd heq =>
    rw [heq]
    obtain ⟨hE, hR, hL⟩ := requeue_fields { s with env := env' } k { id := id, imps := b.imps, uid := k }
    refine ⟨?_, ?_, by rw [hR]; exact hinv.redef⟩
    · intro n
      rw [hE]
      simp only [lastDefR, hlr, hl]
      rw [load_env hb hd n, hinv.env n]
      cases declExport id ds n <;> rfl
    · intro n
      rw [hpend0 n, hlr, hl]
      have himp := (build_spec hb).2.2 n
      have hrec : ∀ m ∈ s.queue ++ s.done, m.uid = k → (n ∈ m.importNames ↔ n ∈ declImports ds) := by
        intro m hm hk
        obtain ⟨ds0, h0, hn0⟩ := hreg.recs m hm
        rw [hk, hl] at h0
        cases h0
        exact hn0 n
      have hsimp : (∃ id' ds', some (id, ds) = some (id', ds') ∧ n ∈ declImports ds') ↔
          n ∈ declImports ds := by
        constructor
        · rintro ⟨_, _, he, hn⟩; cases he; exact hn
        · intro hn; exact ⟨id, ds, rfl, hn⟩
      rw [hsimp, ← hinv.pend n]
      rcases requeue_cases { s with env := env' } k { id := id, imps := b.imps, uid := k } with
        ⟨⟨m, hm, hk⟩, hq, _⟩ | ⟨m, hm, hk, hq, _⟩ | ⟨hq, _⟩
      · rw [hq]
        constructor
        · exact Or.inl
        · rintro (h1 | h1)
          · exact h1
          · exact ⟨m, hm, (hrec m (List.mem_append_left _ hm) hk).2 h1⟩
      · rw [hq]
        have hm' := hrec m (List.mem_append_right _ hm) hk
        constructor
        · rintro ⟨m1, hm1, hn1⟩
          rcases List.mem_append.1 hm1 with h2 | h2
          · exact Or.inl ⟨m1, h2, hn1⟩
          · rw [List.mem_singleton] at h2; subst h2
            exact Or.inr (hm'.1 hn1)
        · rintro (⟨m1, hm1, hn1⟩ | h1)
          · exact ⟨m1, List.mem_append_left _ hm1, hn1⟩
          · exact ⟨{ m with iface := none }, List.mem_append_right _ (List.mem_singleton.2 rfl),
              hm'.2 h1⟩
      · rw [hq]
        constructor
        · rintro ⟨m1, hm1, hn1⟩
          rcases List.mem_append.1 hm1 with h2 | h2
          · exact Or.inl ⟨m1, h2, hn1⟩
          · rw [List.mem_singleton] at h2; subst h2
            exact Or.inr (himp.1 hn1)
        · rintro (⟨m1, hm1, hn1⟩ | h1)
          · exact ⟨m1, List.mem_append_left _ hm1, hn1⟩
          · exact ⟨_, List.mem_append_right _ (List.mem_singleton.2 rfl), himp.2 h1⟩

theorem inv_step {s : State} {r : List Op} {op : Op} (hinv : Inv s r) (hreg : Reg s r)
    (hs : s.err = none) (h : (step s op).err = none) : Inv (step s op) (op :: r) := by
  rw [step_of_ok op hs] at h ⊢
  cases op with
  | loadModule id ds => exact inv_load hinv hs h
  | loadExternal n a =>
    refine ⟨?_, ?_, hinv.redef⟩
    · intro m
      simp only [loadExternal, setupGlobal, lastDefR, lookup_cons_eq, hinv.env m]
      by_cases hmn : m = n
      · subst hmn; simp
      · simp [hmn, Ne.symm hmn]
    · intro m
      have : pendingR (.loadExternal n a :: r) = pendingR r := by simp [pendingR, pendingModsR]
      rw [this]; exact hinv.pend m
  | setRedef b =>
    refine ⟨?_, ?_, ?_⟩
    · intro m; simp only [lastDefR]; exact hinv.env m
    · intro m
      have : pendingR (.setRedef b :: r) = pendingR r := by simp [pendingR, pendingModsR]
      rw [this]; exact hinv.pend m
    · simp [redefOkR]
  | link i res => exact inv_link hinv hs h
  | call =>
    obtain ⟨h1, h2, h3⟩ := callAll_fields s
    refine ⟨?_, ?_, ?_⟩
    · intro m; simp only [lastDefR]; rw [h1]; exact hinv.env m
    · intro m
      have : pendingR (.call :: r) = pendingR r := by simp [pendingR, pendingModsR]
      rw [this, h2]; exact hinv.pend m
    · simp only [redefOkR]; rw [h3]; exact hinv.redef
  | reload k => exact inv_reload hinv hreg h

theorem getElem?_append_of_some {α} {l : List α} {i : Nat} {x : α} (h : l[i]? = some x) (t : List α) :
    (l ++ t)[i]? = some x := by
  rw [List.getElem?_append_left (List.getElem?_eq_some_iff.1 h).1]; exact h

theorem reg_step {s : State} {r : List Op} {op : Op} (hreg : Reg s r) (hs : s.err = none)
    (h : (step s op).err = none) : Reg (step s op) (op :: r) := by
  rw [step_of_ok op hs] at h ⊢
  cases op with
  | loadModule id ds =>
    obtain ⟨b, env', hb, hl, heq⟩ := loadModule_ok h hs
    change Reg (loadModule s id ds) _
    rw [heq]
    refine ⟨by simp only [loadsR]; rw [hreg.loaded], ?_⟩
    intro m hm
    simp only at hm ⊢
    rcases List.mem_append.1 hm with hm | hm
    · rcases List.mem_append.1 hm with hm | hm
      · obtain ⟨ds0, h0, hn0⟩ := hreg.recs m (List.mem_append_left _ hm)
        exact ⟨ds0, getElem?_append_of_some h0 _, hn0⟩
      · rw [List.mem_singleton] at hm; subst hm
        refine ⟨ds, by simp, ?_⟩
        exact (build_spec hb).2.2
    · obtain ⟨ds0, h0, hn0⟩ := hreg.recs m (List.mem_append_right _ hm)
      exact ⟨ds0, getElem?_append_of_some h0 _, hn0⟩
  | loadExternal n a => exact ⟨hreg.loaded, hreg.recs⟩
  | setRedef b => exact ⟨hreg.loaded, hreg.recs⟩
  | link ifc res =>
    change (link s ifc res).err = none at h
    change Reg (link s ifc res) _
    obtain ⟨env', q', hr, heq⟩ := link_ok h hs
    have hf := (resolveQueue_ok hr).2
    rw [heq]
    have hq' : ∀ m' ∈ q', ∃ m ∈ s.queue, sameKeys m m' := by
      intro m' hm'
      obtain ⟨m, hm, hb⟩ := hf.right m' hm'
      exact ⟨m, hm, by rw [hb.1]; exact ⟨rfl, rfl, rfl⟩⟩
    refine ⟨?_, ?_⟩
    · cases ifc <;> exact hreg.loaded
    · have hloaded : (linkResult s ifc env' q').loaded = s.loaded := by cases ifc <;> rfl
      rw [hloaded]
      refine recs_of_sameKeys (old := s.queue ++ s.done) ?_ hreg.recs
      intro m'' hm''
      cases ifc with
      | none =>
        simp only [linkResult] at hm''
        rcases List.mem_append.1 hm'' with h1 | h1
        · obtain ⟨m', hm', rfl⟩ := List.mem_map.1 h1
          obtain ⟨m, hm, hk⟩ := hq' m' hm'
          exact ⟨m, List.mem_append_left _ hm, hk⟩
        · exact ⟨m'', List.mem_append_right _ h1, rfl, rfl, rfl⟩
      | some i =>
        simp only [linkResult, List.nil_append] at hm''
        rcases List.mem_append.1 hm'' with h1 | h1
        · exact ⟨m'', List.mem_append_right _ h1, rfl, rfl, rfl⟩
        · obtain ⟨m1, hm1, rfl⟩ := List.mem_map.1 h1
          obtain ⟨m', hm', rfl⟩ := List.mem_map.1 hm1
          obtain ⟨m, hm, hk⟩ := hq' m' hm'
          exact ⟨m, List.mem_append_left _ hm, hk⟩
  | call =>
    change Reg (callAll s) _
    obtain ⟨_, h2, _⟩ := callAll_fields s
    refine ⟨by rw [callAll_loaded]; exact hreg.loaded, ?_⟩
    rw [callAll_loaded, h2, callAll_done]
    refine recs_of_sameKeys (old := s.queue ++ s.done) ?_ hreg.recs
    intro m' hm'
    rcases List.mem_append.1 hm' with h1 | h1
    · exact ⟨m', List.mem_append_left _ h1, rfl, rfl, rfl⟩
    · obtain ⟨m, hm, rfl⟩ := List.mem_map.1 h1
      exact ⟨m, List.mem_append_right _ hm, codeMod_keys s.env m⟩
  | reload k =>
    change (reloadModule s k).err = none at h
    change Reg (reloadModule s k) _
    cases reloadModule_ok h with
    | absent hl heq => rw [heq]; exact ⟨hreg.loaded, hreg.recs⟩
    | ok id ds b env' hl hb hd heq =>
      rw [heq]
      obtain ⟨_, _, hL⟩ := requeue_fields { s with env := env' } k { id := id, imps := b.imps, uid := k }
      refine ⟨by rw [hL]; exact hreg.loaded, ?_⟩
      rw [hL]
      intro m' hm'
      have hfresh : ∃ ds0, s.loaded[k]? = some (id, ds0) ∧
          ∀ n, n ∈ (b.imps.map (·.1)) ↔ n ∈ declImports ds0 := ⟨ds, hl, (build_spec hb).2.2⟩
      rcases requeue_cases { s with env := env' } k { id := id, imps := b.imps, uid := k } with
        ⟨_, hq, hdn⟩ | ⟨m, hm, hk, hq, hdn⟩ | ⟨hq, hdn⟩
      · rw [hq, hdn] at hm'; exact hreg.recs m' hm'
      · rw [hq, hdn] at hm'
        rcases List.mem_append.1 hm' with h1 | h1
        · rcases List.mem_append.1 h1 with h2 | h2
          · exact hreg.recs m' (List.mem_append_left _ h2)
          · rw [List.mem_singleton] at h2; subst h2
            exact hreg.recs m (List.mem_append_right _ hm)
        · exact hreg.recs m' (List.mem_append_right _ (List.mem_filter.1 h1).1)
      · rw [hq, hdn] at hm'
        rcases List.mem_append.1 hm' with h1 | h1
        · rcases List.mem_append.1 h1 with h2 | h2
          · exact hreg.recs m' (List.mem_append_left _ h2)
          · rw [List.mem_singleton] at h2; subst h2
            exact hfresh
        · exact hreg.recs m' (List.mem_append_right _ h1)

theorem redefOkR_link (i : Option Iface) (res : Resolver) (r : List Op) :
    redefOkR (.link i res :: r) = redefOkR r := rfl

theorem inv_runFrom {s : State} {r : List Op} (h : List Op) (hinv : s.err = none → Inv s r ∧ Reg s r)
    (he : (runFrom s h).err = none) :
    Inv (runFrom s h) (h.reverse ++ r) ∧ Reg (runFrom s h) (h.reverse ++ r) := by
  induction h generalizing s r with
  | nil => simpa [runFrom] using hinv he
  | cons op t ih =>
    rw [runFrom_cons] at he ⊢
    have hstep : (step s op).err = none := err_none_of_runFrom he
    have hs : s.err = none := err_none_of_step hstep
    obtain ⟨hi, hr⟩ := hinv hs
    have := ih (s := step s op) (r := op :: r)
      (fun _ => ⟨inv_step hi hr hs hstep, reg_step hr hs hstep⟩) he
    simpa [List.reverse_cons, List.append_assoc] using this

theorem inv_init : Inv init [] := by
  refine ⟨?_, ?_, ?_⟩ <;> simp [init, lastDefR, pendingR, pendingModsR, redefOkR]

theorem reg_init : Reg init [] := by
  refine ⟨rfl, ?_⟩
  intro m hm; simp [init] at hm

theorem inv_run {h : List Op} (he : (run h).err = none) : Inv (run h) h.reverse := by
  have := (inv_runFrom (s := init) (r := []) h (fun _ => ⟨inv_init, reg_init⟩) he).1
  simpa [run] using this

theorem reg_run {h : List Op} (he : (run h).err = none) : Reg (run h) h.reverse := by
  have := (inv_runFrom (s := init) (r := []) h (fun _ => ⟨inv_init, reg_init⟩) he).2
  simpa [run] using this

theorem run_snoc (h : List Op) (op : Op) : run (h ++ [op]) = step (run h) op := by
  simp [run, runFrom, List.foldl_append]

end MirVerif.Link
