import MirVerif.Lemmas.BinIOLoop
/-!
# C11 lemmas, part 6: the whole stream — `readModules (writeModules ms) = ok ms`
-/
namespace BinIO

/-! ### the loop has enough fuel: one statement needs at least one token -/

theorem opCount_le (cfg : Cfg) (insns : List Insn) : opCount insns ≤ (insns.flatMap (toksInsn cfg)).length := by
  induction insns with
  | nil => simp [opCount]
  | cons i insns ih =>
    cases i with
    | label n => simp only [opCount, List.flatMap_cons, List.length_append]; omega
    | op c ops =>
      simp only [opCount, List.flatMap_cons, List.length_append, toksInsn, List.length_cons]
      omega

theorem nstmtsItem_le (cfg : Cfg) (it : Item) : nstmtsItem it ≤ (toksItem cfg it).length := by
  cases it with
  | func f =>
    have h1 := opCount_le cfg f.insns
    have h2 : (if f.locals = [] then 0 else 1) ≤ (toksLocals f.locals).length := by
      unfold toksLocals; split <;> simp
    have h3 : (if f.globals = [] then 0 else 1) ≤ (toksGlobals f.globals).length := by
      unfold toksGlobals; split <;> simp
    simp only [nstmtsItem, toksItem, List.length_append, List.length_cons, List.length_nil]
    omega
  | bss nm len => cases nm <;> simp [nstmtsItem, toksItem, toksNamed]
  | ref nm it d => cases nm <;> simp [nstmtsItem, toksItem, toksNamed]
  | lref nm l1 l2 d => cases nm <;> simp [nstmtsItem, toksItem, toksNamed]
  | expr nm fn => cases nm <;> simp [nstmtsItem, toksItem, toksNamed]
  | data nm ty els => cases nm <;> simp [nstmtsItem, toksItem, toksNamed]
  | _ => simp [nstmtsItem, toksItem]

theorem nstmtsItems_le (cfg : Cfg) (items : List Item) :
    nstmtsItems items ≤ (items.flatMap (toksItem cfg)).length := by
  induction items with
  | nil => simp [nstmtsItems]
  | cons it items ih =>
    have := nstmtsItem_le cfg it
    simp only [nstmtsItems, List.map_cons, List.sum_cons, List.flatMap_cons, List.length_append] at ih ⊢
    omega

theorem nstmtsModules_le (cfg : Cfg) (ms : List Module) :
    nstmtsModules ms ≤ (toksModules cfg ms).length := by
  induction ms with
  | nil => simp [nstmtsModules, toksModules]
  | cons m ms ih =>
    have := nstmtsItems_le cfg m.items
    simp only [nstmtsModules, toksModules, nstmtsModule, toksModule, List.map_cons, List.sum_cons,
      List.flatMap_cons, List.length_append, List.length_cons, List.length_nil] at ih ⊢
    omega

/-! ### the main theorem -/

theorem inTab_strTable (toks : List STok) : InTab (strTable toks) toks :=
  fun t ht s hs => mem_strTable_of_tok toks t s ht hs

theorem finish_init (ms : List Module) :
    finish { doneRev := ms.reverse, mod := none, func := none } = .ok ms := by
  simp [finish]

theorem readModules_writeModules (cfg : Cfg) (ms : List Module) (h : WF cfg ms) :
    readModules cfg (writeModules cfg ms) = .ok ms := by
  obtain ⟨hv, hmods, hrefs, htab, hstr⟩ := h
  unfold readModules writeModules encToks
  simp only [List.append_assoc]
  rw [readHeader_enc cfg _ _ hv (by omega) hstr]
  simp only
  have hin := inTab_strTable (toksModules cfg ms)
  have hcount := nstmtsModules_le cfg ms
  have hbytes := toks_length_le (strTable (toksModules cfg ms)) (toksModules cfg ms)
  -- split the fuel
  have hf : ((toksModules cfg ms).flatMap (encTok (strTable (toksModules cfg ms))) ++ [Tag.eofile]).length + 1
      = ((((toksModules cfg ms).flatMap (encTok (strTable (toksModules cfg ms)))).length
          - nstmtsModules ms) + 1 + 1) + nstmtsModules ms := by
    simp only [List.length_append, List.length_cons, List.length_nil]
    omega
  rw [hf]
  have := readLoop_modules cfg (strTable (toksModules cfg ms)) ms
    ((((toksModules cfg ms).flatMap (encTok (strTable (toksModules cfg ms)))).length
          - nstmtsModules ms) + 1 + 1) [] [Tag.eofile] hmods hin htab hrefs
  unfold RState.init
  rw [this]
  rw [readLoop_eof cfg _ _ _ _ [] (readStmt_eof cfg _ [])]
  simp [finish]

end BinIO
