import MirVerif.Lemmas.SectionModule
/-! Lemmas about `linkLoop` (the `ref`/`expr` part of the second loop of `MIR_link`) and the
disjointness of item ranges it relies on. -/

namespace MirVerif.Section

theorem getElem?_lt {α} {l : List α} {i : Nat} {a : α} (h : l[i]? = some a) : i < l.length := by
  rcases Nat.lt_or_ge i l.length with h' | h'
  · exact h'
  · simp [List.getElem?_eq_none h'] at h

/-- closed form of the offset (as in `Props/C14.lean`, needed here for disjointness) -/
theorem load_offset (items : List Item) (i : Nat) (p : Placement)
    (hp : (load items).pl[i]? = some (some p)) :
    p.sec ≤ i ∧ p.off = extent ((items.drop p.sec).take (i - p.sec)) := by
  obtain ⟨h1, h2, _⟩ := load_mem items i p hp
  have := placeLoop_offs _ _ _ _ _ _ h2
  exact ⟨h1, by simpa using this⟩

/-- ranges of two different items of one section do not overlap: the earlier one ends before the
later one starts -/
theorem ranges_ordered (items : List Item) (i j : Nat) (p q : Placement) (it : Item) (hij : i < j)
    (hi : items[i]? = some it)
    (hp : (load items).pl[i]? = some (some p)) (hq : (load items).pl[j]? = some (some q))
    (hs : p.sec = q.sec) : p.off + it.plSize ≤ q.off := by
  obtain ⟨hle, hpo⟩ := load_offset items i p hp
  obtain ⟨_, hqo⟩ := load_offset items j q hq
  have hit : (items.drop p.sec)[i - p.sec]? = some it := by
    rw [List.getElem?_drop]; rw [← hi]; congr 1; omega
  have h1 := extent_take_succ _ _ _ hit
  have h2 := extent_take_mono (items.drop p.sec) (i - p.sec + 1) (j - p.sec) (by omega)
  rw [← hs] at hqo
  omega

theorem leCells_length (v n : Nat) : (leCells v n).length = n := by simp [leCells]

theorem leCells_getD (v n k : Nat) (h : k < n) :
    (leCells v n).getD k .undef = .byte (v / 256 ^ k % 256) := by
  simp [leCells, h]

theorem exprCells_getD (ty : Ty) (v k : Nat) (h : k < (if ty = .ld then 10 else ty.size)) :
    (exprCells ty v).getD k .undef = .byte (v / 256 ^ k % 256) := by
  by_cases hld : ty = .ld
  · subst hld
    simp only [if_true] at h
    have : (exprCells .ld v).getD k .undef = (leCells v 10).getD k .undef := by
      simp only [exprCells, List.getD_eq_getElem?_getD]
      rw [List.getElem?_append_left (by simp [leCells_length]; omega)]
    rw [this, leCells_getD _ _ _ h]
  · simp only [hld, if_false] at h
    have : exprCells ty v = leCells v ty.size := by cases ty <;> simp_all [exprCells]
    rw [this, leCells_getD _ _ _ h]

theorem linkCells_length (env : Env) (pl : List (Option Placement)) (it : Item) (cs : List Cell)
    (h : linkCells env pl it = some cs) : cs.length = it.plSize := by
  cases it with
  | ref n j d => simp [linkCells] at h; subst h; simp [leCells_length, Item.plSize]
  | expr n ty v =>
    simp [linkCells] at h; subst h
    cases ty <;> simp [exprCells, leCells_length, Item.plSize, Ty.size]
  | data => simp [linkCells] at h
  | bss => simp [linkCells] at h
  | lref => simp [linkCells] at h
  | other => simp [linkCells] at h

/-- entry `z` of the link loop writes the byte at offset `x` of section `s` -/
def covers (env : Env) (pl : List (Option Placement)) (z : Item × Option Placement) (s x : Nat) : Prop :=
  ∃ p cs, z.2 = some p ∧ linkCells env pl z.1 = some cs ∧ p.sec = s ∧ p.off ≤ x ∧ x < p.off + cs.length

theorem linkLoop_cons (env : Env) (pl : List (Option Placement)) (z : Item × Option Placement)
    (zs : List (Item × Option Placement)) (g : GMem) :
    ∃ g', linkLoop env pl (z :: zs) g = linkLoop env pl zs g' := by
  obtain ⟨it, op⟩ := z
  cases op with
  | none => exact ⟨g, by simp [linkLoop]⟩
  | some p =>
    cases hc : linkCells env pl it with
    | none => exact ⟨g, by simp [linkLoop, hc]⟩
    | some cs => exact ⟨setSec g p.sec (writeCells (g p.sec) p.off cs), by simp only [linkLoop, hc]⟩

/-- bytes no entry covers are unchanged by the link loop -/
theorem linkLoop_frame (env : Env) (pl : List (Option Placement)) (zs : List (Item × Option Placement))
    (g : GMem) (s x : Nat) (h : ∀ z ∈ zs, ¬ covers env pl z s x) :
    linkLoop env pl zs g s x = g s x := by
  induction zs generalizing g with
  | nil => rfl
  | cons z zs ih =>
    have hrest : ∀ z' ∈ zs, ¬ covers env pl z' s x := fun z' hz' => h z' (List.mem_cons_of_mem _ hz')
    obtain ⟨it, op⟩ := z
    cases op with
    | none => simp only [linkLoop]; exact ih _ hrest
    | some p =>
      cases hc : linkCells env pl it with
      | none => simp only [linkLoop, hc]; exact ih _ hrest
      | some cs =>
        simp only [linkLoop, hc]
        rw [ih _ hrest]
        simp only [setSec]
        split
        · rename_i hs
          simp only [writeCells]
          split
          · rename_i hx
            exact absurd ⟨p, cs, rfl, hc, hs.symm, hx.1, hx.2⟩ (h (it, some p) (List.mem_cons_self ..))
          · rw [hs]
        · rfl

/-- a byte covered by exactly one entry (as a value) holds that entry's cell afterwards -/
theorem linkLoop_unique (env : Env) (pl : List (Option Placement)) (zs : List (Item × Option Placement))
    (g : GMem) (s x : Nat) (it : Item) (p : Placement) (cs : List Cell)
    (hmem : (it, some p) ∈ zs) (hc : linkCells env pl it = some cs)
    (hs : p.sec = s) (hlo : p.off ≤ x) (hhi : x < p.off + cs.length)
    (huniq : ∀ z ∈ zs, covers env pl z s x → z = (it, some p)) :
    linkLoop env pl zs g s x = cs.getD (x - p.off) .undef := by
  induction zs generalizing g with
  | nil => simp at hmem
  | cons z zs ih =>
    have huniq' : ∀ z' ∈ zs, covers env pl z' s x → z' = (it, some p) :=
      fun z' hz' => huniq z' (List.mem_cons_of_mem _ hz')
    by_cases hz : z = (it, some p)
    · subst hz
      by_cases hin : (it, some p) ∈ zs
      · obtain ⟨g', hg'⟩ := linkLoop_cons env pl (it, some p) zs g
        rw [hg']; exact ih _ hin huniq'
      · simp only [linkLoop, hc]
        rw [linkLoop_frame env pl zs _ s x (fun z' hz' hcov => hin (huniq' z' hz' hcov ▸ hz'))]
        simp only [setSec, hs, if_true, writeCells]
        rw [if_pos ⟨hlo, hhi⟩]
    · have hin : (it, some p) ∈ zs := by
        rcases List.mem_cons.1 hmem with h | h
        · exact absurd h.symm hz
        · exact h
      obtain ⟨g', hg'⟩ := linkLoop_cons env pl z zs g
      rw [hg']; exact ih _ hin huniq'

theorem zip_getElem? (items : List Item) (pl : List (Option Placement)) (j : Nat)
    (z : Item × Option Placement) (h : (items.zip pl)[j]? = some z) :
    items[j]? = some z.1 ∧ pl[j]? = some z.2 := by
  rw [List.getElem?_zip_eq_some] at h; exact h

end MirVerif.Section
