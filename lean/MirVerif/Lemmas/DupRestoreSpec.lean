import MirVerif.Lemmas.DupRestore
/-!
Well-formedness of a function before `_MIR_duplicate_func_insns` and the closed-form description of
the state after it (`dup_spec`).
-/
namespace MirVerif.DupRestore

/-- every label operand sits at a label position of a branch-like instruction other than `jmpi`
and points to a label of the list `l` -/
def LabOpOK (h : Heap) (l : List Nat) (insn : Insn) : Prop :=
  ∀ n p, insn.ops[n]? = some (.lab p) →
    (branchLike insn.kind = true ∧ insn.kind ≠ .jmpi ∧
      (labelRange insn.kind insn.ops.length).1 ≤ n ∧
      n < (labelRange insn.kind insn.ops.length).2) ∧
    ∃ t, p = some t ∧ t ∈ l ∧ isLabelAt h t

def PtrOK (h : Heap) (l : List Nat) (p : Option Nat) : Prop :=
  ∃ t, p = some t ∧ t ∈ l ∧ isLabelAt h t

def LrefOK (h : Heap) (l : List Nat) (r : Lref) : Prop :=
  PtrOK h l r.label ∧ (r.label2 = none ∨ PtrOK h l r.label2) ∧
  r.origLabel = none ∧ r.origLabel2 = none

/-- hash tables of the function are consistent with `reg_descs` -/
structure TabInv (f : Func) : Prop where
  n2rLt : ∀ r ∈ f.name2rdn, r < f.regDescs.length
  r2rLt : ∀ r ∈ f.reg2rdn, r < f.regDescs.length
  namesNodup : (f.name2rdn.map (rdNameAt f)).Nodup
  regsNodup : (f.reg2rdn.map (rdRegAt f)).Nodup

/-- registers in use are numbered `1 .. |vars| + |global_vars|` -/
def RegsLe (f : Func) : Prop :=
  ∀ r ∈ f.reg2rdn, ∀ d, f.regDescs[r]? = some d → d.reg ≤ f.vars.length + f.nglobals

/-- what `_MIR_duplicate_func_insns` may assume (it is what MIR_finish_func / MIR_load_module
establish and what the `mir_assert`s of the function state) -/
structure WF (s : State) : Prop where
  nodup : s.func.insns.Nodup
  alloc : ∀ i ∈ s.func.insns, i < s.next ∧ (s.heap i).isSome
  labData : ∀ i ∈ s.func.insns, ∀ insn, s.heap i = some insn → insn.kind = .label →
              insn.data = none
  ops : ∀ i ∈ s.func.insns, ∀ insn, s.heap i = some insn → LabOpOK s.heap s.func.insns insn
  lrefs : ∀ r ∈ s.func.lrefs, LrefOK s.heap s.func.insns r
  orig : s.func.originalInsns = []
  tabs : TabInv s.func
  regsLe : RegsLe s.func

def remapPtr (l : List Nat) (m : Nat) : Option Nat → Option Nat
  | none => none
  | some t => some (m + l.idxOf t)

def remapOp (l : List Nat) (m : Nat) : Op → Op
  | .lab p => .lab (remapPtr l m p)
  | o => o

def remapLref (l : List Nat) (m : Nat) (r : Lref) : Lref :=
  { origLabel := r.label, origLabel2 := r.label2, label := remapPtr l m r.label,
    label2 := remapPtr l m r.label2 }

theorem nodup_reverse' {l : List Nat} (h : l.Nodup) : l.reverse.Nodup := by
  unfold List.Nodup at *
  rw [List.pairwise_reverse]
  exact h.imp (fun h => Ne.symm h)

theorem getElem?_idxOf_of_mem {l : List Nat} {t : Nat} (h : t ∈ l) : l[l.idxOf t]? = some t := by
  have hlt := List.idxOf_lt_length_of_mem h
  rw [List.getElem?_eq_some_iff]
  exact ⟨hlt, List.getElem_idxOf hlt⟩

theorem eta_data_none (insn : Insn) (h : insn.data = none) : { insn with data := none } = insn := by
  cases insn; simp_all

/-- the copy-loop accumulator of `duplicate s` -/
def dupAcc (s : State) : DupAcc :=
  s.func.insns.foldl dupStep
    { heap := s.heap, next := s.next, newList := [], branches := [], labels := [] }

theorem dupAcc_inv (s : State) (hwf : WF s) :
    CopyInv s.heap s.next s.func.insns (dupAcc s) := by
  have := copyInv_fold (h0 := s.heap) (m := s.next) s.func.insns [] _ (copyInv_init _ _)
    (by simpa using hwf.nodup) (by simpa using hwf.alloc)
  simpa [dupAcc] using this

theorem derefData_label (s : State) (hwf : WF s) {t : Nat} (ht : t ∈ s.func.insns)
    (hl : isLabelAt s.heap t) :
    derefData (dupAcc s).heap (some t) = some (s.next + s.func.insns.idxOf t) := by
  obtain ⟨insn, h1, h2⟩ := hl
  have := (dupAcc_inv s hwf).lab _ t insn (getElem?_idxOf_of_mem ht) h1 h2
  simp [derefData, this]

theorem derefData_ptr (s : State) (hwf : WF s) {p : Option Nat}
    (hp : PtrOK s.heap s.func.insns p) :
    derefData (dupAcc s).heap p = remapPtr s.func.insns s.next p := by
  obtain ⟨t, rfl, ht, hl⟩ := hp
  rw [derefData_label s hwf ht hl]; rfl

theorem map_remapOp_nolab {l : List Nat} {m : Nat} {ops : List Op}
    (h : ∀ (n : Nat) (p : Option Nat), ops[n]? ≠ some (Op.lab p)) : ops.map (remapOp l m) = ops := by
  apply List.ext_getElem?
  intro n
  rw [List.getElem?_map]
  cases hn : ops[n]? with
  | none => rfl
  | some op =>
    cases op with
    | lab p => exact absurd hn (h n p)
    | _ => rfl

theorem redirectInsn_spec (s : State) (hwf : WF s) (insn : Insn)
    (hok : LabOpOK s.heap s.func.insns insn) (_hb : branchLike insn.kind = true) :
    redirectInsn (dupAcc s).heap insn =
      { insn with ops := insn.ops.map (remapOp s.func.insns s.next) } := by
  unfold redirectInsn
  by_cases hj : insn.kind = .jmpi
  · rw [if_pos hj]
    rw [map_remapOp_nolab]
    intro n p hn
    exact (hok n p hn).1.2.1 hj
  · rw [if_neg hj]
    simp only
    congr 1
    apply List.ext_getElem?
    intro n
    rw [redirectOpsFrom_getElem?, List.getElem?_map]
    cases hn : insn.ops[n]? with
    | none => rfl
    | some op =>
      simp only [Option.map_some, Nat.zero_add]
      cases op with
      | lab p =>
        obtain ⟨⟨_, _, h1, h2⟩, hp⟩ := hok n p hn
        rw [if_pos ⟨h1, h2⟩]
        simp only [redirectOp, remapOp]
        rw [derefData_ptr s hwf hp]
      | _ => split <;> rfl

theorem no_lab_of_not_branchLike {h : Heap} {l : List Nat} {insn : Insn}
    (hok : LabOpOK h l insn) (hb : ¬ branchLike insn.kind = true) :
    ∀ (n : Nat) (p : Option Nat), insn.ops[n]? ≠ some (Op.lab p) := by
  intro n p hn
  exact hb (hok n p hn).1.1

/-- closed form of the state after `_MIR_duplicate_func_insns` -/
theorem dup_spec (s : State) (hwf : WF s) :
    (duplicate s).next = s.next + s.func.insns.length ∧
    (duplicate s).func =
      { s.func with originalVarsNum := s.func.vars.length, originalInsns := s.func.insns,
                    insns := List.range' s.next s.func.insns.length,
                    lrefs := s.func.lrefs.map (remapLref s.func.insns s.next) } ∧
    (∀ i, i < s.next → (duplicate s).heap i = s.heap i) ∧
    (∀ k o insn, s.func.insns[k]? = some o → s.heap o = some insn →
      (duplicate s).heap (s.next + k) =
        some { insn with ops := insn.ops.map (remapOp s.func.insns s.next) }) := by
  have inv := dupAcc_inv s hwf
  have hbr := inv.br_lt
  have hheap : (duplicate s).heap =
      (dupAcc s).labels.reverse.foldl resetDataAt
        ((dupAcc s).branches.reverse.foldl redirectAt (dupAcc s).heap) := rfl
  have hred := redirect_fold s.next (dupAcc s).branches.reverse (dupAcc s).heap
    (fun b hb => (hbr b (List.mem_reverse.mp hb)).1) (nodup_reverse' inv.brNodup)
  have hlabLt : ∀ o, o ∈ (dupAcc s).labels → o < s.next := by
    intro o ho
    exact (hwf.alloc o ((inv.labels o).mp ho).1).1
  refine ⟨inv.next, ?_, ?_, ?_⟩
  · -- the function record
    show ({ s.func with originalVarsNum := s.func.vars.length, originalInsns := s.func.insns,
                        insns := (dupAcc s).newList,
                        lrefs := s.func.lrefs.map (dupLref (dupAcc s).heap) } : Func) = _
    rw [inv.newList]
    have : s.func.lrefs.map (dupLref (dupAcc s).heap) =
        s.func.lrefs.map (remapLref s.func.insns s.next) := by
      apply List.map_congr_left
      intro r hr
      obtain ⟨h1, h2, _, _⟩ := hwf.lrefs r hr
      unfold dupLref remapLref
      rw [derefData_ptr s hwf h1]
      rcases h2 with h2 | h2
      · rw [h2]; rfl
      · rw [derefData_ptr s hwf h2]
        obtain ⟨t, ht, _⟩ := h2
        rw [ht]; rfl
    rw [this]
  · -- frame
    intro i hi
    rw [hheap, reset_fold]
    have hnb : i ∉ (dupAcc s).branches.reverse := by
      intro hm
      have := (hbr i (List.mem_reverse.mp hm)).1
      omega
    rw [hred.1 i hnb]
    by_cases hm : i ∈ (dupAcc s).labels.reverse
    · rw [if_pos hm]
      obtain ⟨hil, insn, h1, h2⟩ := (inv.labels i).mp (List.mem_reverse.mp hm)
      have := inv.lab _ i insn (getElem?_idxOf_of_mem hil) h1 h2
      rw [this, h1]
      simp only [Option.map_some]
      congr 1
      have hd := hwf.labData i hil insn h1 h2
      cases insn; simp_all
    · rw [if_neg hm]
      apply inv.frame i hi
      intro insn h1 h2 hil
      exact hm (List.mem_reverse.mpr ((inv.labels i).mpr ⟨hil, insn, h1, h2⟩))
  · -- the copies
    intro k o insn hk ho
    have hol : o ∈ s.func.insns := List.mem_iff_getElem?.mpr ⟨k, hk⟩
    have hok := hwf.ops o hol insn ho
    have hklt : k < s.func.insns.length := (List.getElem?_eq_some_iff.mp hk).1
    rw [hheap, reset_fold]
    have hnl : s.next + k ∉ (dupAcc s).labels.reverse := by
      intro hm
      have := hlabLt _ (List.mem_reverse.mp hm)
      omega
    rw [if_neg hnl]
    have hcopy : (dupAcc s).heap (s.next + k) = some insn := by
      rw [inv.copy k o hk]; exact ho
    by_cases hb : branchLike insn.kind = true
    · have hmem : s.next + k ∈ (dupAcc s).branches.reverse :=
        List.mem_reverse.mpr ((inv.branches _).mpr ⟨k, o, insn, hk, ho, hb, rfl⟩)
      rw [hred.2 _ hmem insn hcopy]
      · rw [redirectInsn_spec s hwf insn hok hb]
      · intro t ht
        obtain ⟨n, hn⟩ := List.mem_iff_getElem?.mp ht
        obtain ⟨_, t', ht', hmem', _⟩ := hok n (some t) hn
        cases ht'
        exact (hwf.alloc t hmem').1
    · have hnm : s.next + k ∉ (dupAcc s).branches.reverse := by
        intro hm
        obtain ⟨k', o', insn', hk', ho', hb', he⟩ := (inv.branches _).mp (List.mem_reverse.mp hm)
        have : k = k' := by omega
        subst this
        rw [hk] at hk'; cases hk'
        rw [ho] at ho'; cases ho'
        exact hb hb'
      rw [hred.1 _ hnm, hcopy, map_remapOp_nolab (no_lab_of_not_branchLike hok hb)]

end MirVerif.DupRestore
