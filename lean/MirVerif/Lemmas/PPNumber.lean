import MirVerif.Model.PPMacro
/-!
# C09 — pp-number (C11 6.4.8): grammar, recogniser, maximal munch

    pp-number:  digit | . digit | pp-number digit | pp-number identifier-nondigit
              | pp-number e sign | pp-number E sign | pp-number p sign | pp-number P sign | pp-number .

`PPNum` is this grammar (identifier-nondigit restricted to the basic source characters `_ a-z A-Z`;
universal character names are outside the model).  `isPPNumberL` (Model/PPMacro.lean) decides it
(`isPPNumberL_iff`), and `ppNumberLen` is the length of the pp-number the lexer must take at the
start of a character sequence: the longest prefix that is a pp-number (`ppNumberLen_spec`).
In particular `0xe+x` is ONE token: in a pp-number a sign after `e E p P` continues the number,
whatever the number's prefix is.
-/
namespace MirVerif.PP

def isExpChar (c : Char) : Bool := c == 'e' || c == 'E' || c == 'p' || c == 'P'
def isSign (c : Char) : Bool := c == '+' || c == '-'

inductive PPNum : List Char → Prop
  | digit (d : Char) : d.isDigit = true → PPNum [d]
  | dotDigit (d : Char) : d.isDigit = true → PPNum ['.', d]
  | idchar (w : List Char) (c : Char) : PPNum w → isIdChar c = true → PPNum (w ++ [c])
  | sign (w : List Char) (e s : Char) : PPNum w → isExpChar e = true → isSign s = true → PPNum (w ++ [e, s])
  | dot (w : List Char) : PPNum w → PPNum (w ++ ['.'])

/-- may `c` continue a pp-number whose last character is `prev`? -/
def ppCont (prev c : Char) : Bool := isIdChar c || c == '.' || (isSign c && isExpChar prev)

theorem ppNumTail_cons (prev c : Char) (cs : List Char) :
    ppNumTail prev (c :: cs) = (ppCont prev c && ppNumTail c cs) := by
  simp only [ppNumTail, ppCont, isSign, isExpChar]
  by_cases h1 : isIdChar c = true
  · simp [h1]
  · by_cases h2 : c = '.'
    · simp [h2]
    · by_cases h3 : ((c == '+' || c == '-') && (prev == 'e' || prev == 'E' || prev == 'p' || prev == 'P')) = true
      · simp [h1, h2, h3]
      · simp [h1, h2, h3]

/-- length of the longest continuation -/
def munchTail : Char → List Char → Nat
  | _, [] => 0
  | prev, c :: cs => if ppCont prev c then 1 + munchTail c cs else 0

/-- number of characters of the pp-number at the start of `cs` (0: no pp-number starts here) -/
def ppNumberLen : List Char → Nat
  | c :: cs =>
    if c.isDigit then 1 + munchTail c cs
    else if c == '.' then
      match cs with
      | d :: ds => if d.isDigit then 2 + munchTail d ds else 0
      | [] => 0
    else 0
  | [] => 0

theorem ppNumTail_take (prev : Char) (cs : List Char) (n : Nat) (hn : n ≤ cs.length) :
    ppNumTail prev (cs.take n) = decide (n ≤ munchTail prev cs) := by
  induction cs generalizing prev n with
  | nil => simp at hn; subst hn; simp [ppNumTail, munchTail]
  | cons c cs ih =>
    cases n with
    | zero => simp [ppNumTail]
    | succ n =>
      simp only [List.take_succ_cons, ppNumTail_cons, munchTail]
      have := ih c n (by simpa using hn)
      by_cases hc : ppCont prev c = true
      · simp [hc, this]; omega
      · simp [hc]

/-- shortest pp-number that can start at `cs`: `.` needs its digit -/
def ppNumberMin (cs : List Char) : Nat := if cs.head? = some '.' then 2 else 1

/-- **maximal munch**: a prefix of `cs` is a pp-number iff its length lies between `ppNumberMin cs` and
`ppNumberLen cs`; so `ppNumberLen cs` is the length of the longest pp-number prefix (0: there is none) -/
theorem ppNumberLen_spec (cs : List Char) (n : Nat) (hn : n ≤ cs.length) :
    isPPNumberL (cs.take n) = true ↔ (ppNumberMin cs ≤ n ∧ n ≤ ppNumberLen cs) := by
  cases cs with
  | nil => simp at hn; subst hn; simp [isPPNumberL, ppNumberLen, ppNumberMin]
  | cons c cs =>
    cases n with
    | zero => simp [isPPNumberL, ppNumberMin]; split <;> omega
    | succ n =>
      have hn' : n ≤ cs.length := by simpa using hn
      simp only [List.take_succ_cons, isPPNumberL, ppNumberLen, ppNumberMin, List.head?_cons]
      by_cases hd : c.isDigit = true
      · have hne : c ≠ '.' := by intro h; subst h; simp at hd
        simp [hd, hne, ppNumTail_take c cs n hn']; omega
      · by_cases hdot : c = '.'
        · subst hdot
          cases cs with
          | nil => simp at hn'; subst hn'; simp [hd]
          | cons d ds =>
            cases n with
            | zero => simp [hd]
            | succ n =>
              have hn'' : n ≤ ds.length := by simpa using hn'
              by_cases hdd : d.isDigit = true
              · simp [hd, hdd, ppNumTail_take d ds n hn'']; omega
              · simp [hd, hdd]
        · simp [hd, hdot]

theorem ppNumberLen_le (cs : List Char) : ppNumberLen cs ≤ cs.length := by
  have hm : ∀ (cs : List Char) (p : Char), munchTail p cs ≤ cs.length := by
    intro cs
    induction cs with
    | nil => intro p; simp [munchTail]
    | cons c cs ih => intro p; simp only [munchTail]; split <;> simp <;> have := ih c <;> omega
  cases cs with
  | nil => simp [ppNumberLen]
  | cons c cs =>
    simp only [ppNumberLen]
    split
    · have := hm cs c; simp; omega
    · split
      · cases cs with
        | nil => simp
        | cons d ds => simp only []; split <;> simp <;> have := hm ds d <;> omega
      · simp

/-- the longest prefix is itself a pp-number -/
theorem ppNumberLen_is_ppnumber (cs : List Char) (h : 0 < ppNumberLen cs) :
    isPPNumberL (cs.take (ppNumberLen cs)) = true := by
  rw [ppNumberLen_spec cs _ (ppNumberLen_le cs)]
  refine ⟨?_, Nat.le_refl _⟩
  cases cs with
  | nil => simp [ppNumberLen] at h
  | cons c cs =>
    simp only [ppNumberMin, List.head?_cons]
    by_cases hdot : c = '.'
    · subst hdot
      simp only [ppNumberLen] at h ⊢
      cases cs with
      | nil => simp at h
      | cons d ds => by_cases hdd : d.isDigit = true <;> simp_all <;> omega
    · simp [hdot]; omega

example : ppNumberLen "0xe+x)".toList = 5 ∧ ppNumberLen "1.2.3 ".toList = 5 ∧ ppNumberLen "1e+;".toList = 3 ∧
    ppNumberLen ".5e-x+1".toList = 5 ∧ ppNumberLen "12_ab-".toList = 5 ∧ ppNumberLen "0x1p-3f*".toList = 7 ∧
    ppNumberLen "1+x".toList = 1 ∧ ppNumberLen ".x".toList = 0 ∧ ppNumberLen "x1".toList = 0 := by decide

/-! ### the recogniser decides the grammar -/

def lastC (w : List Char) : Char := w.getLast?.getD 'x'

theorem getLastD_cons (b : Char) (bs : List Char) (x y : Char) :
    (b :: bs).getLast?.getD x = (b :: bs).getLast?.getD y := by
  cases h : (b :: bs).getLast? with
  | none => simp at h
  | some v => simp

theorem ppNumTail_snoc (p : Char) (cs : List Char) (c : Char) :
    ppNumTail p (cs ++ [c]) = (ppNumTail p cs && ppCont (cs.getLast?.getD p) c) := by
  induction cs generalizing p with
  | nil => simp [ppNumTail_cons, ppNumTail]
  | cons a cs ih =>
    rw [List.cons_append, ppNumTail_cons, ih a, ppNumTail_cons]
    cases cs with
    | nil => simp [Bool.and_assoc]
    | cons b bs =>
      simp only [List.getLast?_cons_cons, Bool.and_assoc]
      rw [getLastD_cons b bs p a]

theorem isPPNumberL_snoc (w : List Char) (c : Char) (h : isPPNumberL w = true) :
    isPPNumberL (w ++ [c]) = ppCont (lastC w) c := by
  cases w with
  | nil => simp [isPPNumberL] at h
  | cons a cs =>
    simp only [isPPNumberL, List.cons_append] at h ⊢
    by_cases ha : a.isDigit = true
    · simp only [ha, if_true] at h ⊢
      rw [ppNumTail_snoc, h]
      cases cs with
      | nil => simp [lastC]
      | cons b bs => simp only [lastC, List.getLast?_cons_cons]; rw [getLastD_cons b bs _ 'x']; simp
    · simp only [ha] at h ⊢
      by_cases hdot : a = '.'
      · subst hdot
        cases cs with
        | nil => simp at h
        | cons d ds =>
          simp only [List.cons_append] at h ⊢
          simp at h
          simp only [h.1, Bool.true_and]
          rw [ppNumTail_snoc, h.2]
          cases ds with
          | nil => simp [lastC]
          | cons b bs => simp only [lastC, List.getLast?_cons_cons]; rw [getLastD_cons b bs _ 'x']; simp
      · simp [hdot] at h

theorem lastC_snoc (w : List Char) (c : Char) : lastC (w ++ [c]) = c := by simp [lastC]

theorem isIdChar_of_exp {e : Char} (h : isExpChar e = true) : isIdChar e = true := by
  simp only [isExpChar, Bool.or_eq_true, beq_iff_eq] at h
  rcases h with ((h | h) | h) | h <;> subst h <;> decide

theorem PPNum.recognised {w : List Char} (h : PPNum w) : isPPNumberL w = true := by
  induction h with
  | digit d hd => simp [isPPNumberL, hd, ppNumTail]
  | dotDigit d hd =>
    have : ('.' : Char).isDigit = false := by decide
    simp [isPPNumberL, hd, ppNumTail, this]
  | idchar w c _ hc ih => rw [isPPNumberL_snoc w c ih]; simp [ppCont, hc]
  | dot w _ ih => rw [isPPNumberL_snoc w '.' ih]; simp [ppCont]
  | sign w e s _ he hs ih =>
    have h1 : isPPNumberL (w ++ [e]) = true := by
      rw [isPPNumberL_snoc w e ih]; simp [ppCont, isIdChar_of_exp he]
    have : w ++ [e, s] = (w ++ [e]) ++ [s] := by simp
    rw [this, isPPNumberL_snoc _ s h1, lastC_snoc]
    simp [ppCont, hs, he]

/-- a recognised spelling ending in `c`: either the part before `c` is recognised too, or it is one of
the two base forms -/
theorem isPPNumberL_snoc_inv (v : List Char) (c : Char) (h : isPPNumberL (v ++ [c]) = true) :
    isPPNumberL v = true ∨ (v = [] ∧ c.isDigit = true) ∨ (v = ['.'] ∧ c.isDigit = true) := by
  cases v with
  | nil =>
    simp only [List.nil_append, isPPNumberL] at h
    by_cases hc : c.isDigit = true
    · exact Or.inr (Or.inl ⟨rfl, hc⟩)
    · simp [hc] at h
  | cons a cs =>
    simp only [List.cons_append, isPPNumberL] at h ⊢
    by_cases ha : a.isDigit = true
    · simp only [ha, if_true] at h ⊢
      rw [ppNumTail_snoc] at h
      simp at h
      exact Or.inl h.1
    · simp only [ha] at h ⊢
      by_cases hdot : a = '.'
      · subst hdot
        cases cs with
        | nil =>
          simp at h
          exact Or.inr (Or.inr ⟨rfl, h.1⟩)
        | cons d ds =>
          simp only [List.cons_append] at h
          simp at h
          rw [ppNumTail_snoc] at h
          simp at h
          left; simp [h.1, h.2.1]
      · simp [hdot] at h

theorem PPNum.of_recognised : ∀ (n : Nat) (w : List Char), w.length = n → isPPNumberL w = true → PPNum w := by
  intro n
  induction n using Nat.strongRecOn with
  | ind n ih =>
    intro w hl h
    rcases List.eq_nil_or_concat w with rfl | ⟨v, c, hw⟩
    · simp [isPPNumberL] at h
    · rw [List.concat_eq_append] at hw
      subst hw
      have hlen : v.length < n := by simp at hl; omega
      rcases isPPNumberL_snoc_inv v c h with hv | ⟨rfl, hc⟩ | ⟨rfl, hc⟩
      · have pv := ih v.length hlen v rfl hv
        rw [isPPNumberL_snoc v c hv] at h
        simp only [ppCont, Bool.or_eq_true, Bool.and_eq_true] at h
        rcases h with (hid | hdot) | ⟨hs, he⟩
        · exact PPNum.idchar v c pv hid
        · simp at hdot; subst hdot; exact PPNum.dot v pv
        · -- a sign: the pp-number before it ends in e E p P, which was added by the identifier rule
          rcases List.eq_nil_or_concat v with rfl | ⟨u, e, hv'⟩
          · simp [isPPNumberL] at hv
          · rw [List.concat_eq_append] at hv'
            subst hv'
            rw [lastC_snoc] at he
            have hne : e.isDigit = false := by
              simp only [isExpChar, Bool.or_eq_true, beq_iff_eq] at he
              rcases he with ((h | h) | h) | h <;> subst h <;> decide
            rcases isPPNumberL_snoc_inv u e hv with hu | ⟨_, hd⟩ | ⟨_, hd⟩
            · have pu := ih u.length (by simp at hlen; omega) u rfl hu
              have : u ++ [e] ++ [c] = u ++ [e, c] := by simp
              rw [this]; exact PPNum.sign u e c pu he hs
            · simp [hne] at hd
            · simp [hne] at hd
      · exact PPNum.digit c hc
      · exact PPNum.dotDigit c hc

/-- `isPPNumberL` decides the grammar of 6.4.8 -/
theorem isPPNumberL_iff (w : List Char) : isPPNumberL w = true ↔ PPNum w :=
  ⟨PPNum.of_recognised w.length w rfl, PPNum.recognised⟩

end MirVerif.PP
