import MirVerif.Lemmas.Sem
/-! `EXT(tp)` and unary minus: macro bodies vs documented results. -/
namespace MirVerif
theorem neg_doc {n} (x : BitVec n) : -x = wrapI n (-x.toInt) := eq_wrapI _ _ BitVec.toInt_neg
macro "ext_tac" : tactic => `(tactic| (
  unfold macroExt docExt
  simp only [if_true, if_false, Bool.false_eq_true]
  first
  | (apply eq_wrapI
     rw [BitVec.toInt_signExtend, BitVec.toInt_eq_toNat_cond]
     simp only [BitVec.toNat_setWidth]
     generalize BitVec.toNat _ = t
     simp [Int.bmod]
     omega)
  | (apply eq_wrapN
     simp only [BitVec.toNat_setWidth]
     try (generalize BitVec.toNat _ = t; omega))))
theorem ext8 (x : W64) : macroExt 8 true x = docExt 8 true x := by ext_tac
theorem ext16 (x : W64) : macroExt 16 true x = docExt 16 true x := by ext_tac
theorem ext32 (x : W64) : macroExt 32 true x = docExt 32 true x := by ext_tac
theorem uext8 (x : W64) : macroExt 8 false x = docExt 8 false x := by ext_tac
theorem uext16 (x : W64) : macroExt 16 false x = docExt 16 false x := by ext_tac
theorem uext32 (x : W64) : macroExt 32 false x = docExt 32 false x := by ext_tac

theorem b2w_ne_zero (b : Bool) : ((b2w b : W64) != 0) = b := by cases b <;> decide
theorem sext32_b2w_ne_zero (b : Bool) : ((sext32 (b2w b) : W64) != 0) = b := by cases b <;> decide
end MirVerif
