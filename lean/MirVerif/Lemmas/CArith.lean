import MirVerif.Model.CArith
import MirVerif.Lemmas.Sem
/-! Helper lemmas for C07: truncation to 32 bits is a homomorphism for the wrap-around operators,
and the C operators on sign- or zero-extended 32-bit operands carried out at 64 bits agree in their
low halves with the 32-bit operators. -/
namespace MirVerif.CArith
open MirVerif

theorem lo32_add (u v : W64) : lo32 (u + v) = lo32 u + lo32 v := BitVec.setWidth_add u v (by decide)
theorem lo32_mul (u v : W64) : lo32 (u * v) = lo32 u * lo32 v := BitVec.setWidth_mul u v (by decide)
theorem lo32_neg (u : W64) : lo32 (-u) = -lo32 u := BitVec.setWidth_neg_of_le (by decide)
theorem lo32_sub (u v : W64) : lo32 (u - v) = lo32 u - lo32 v := by
  rw [BitVec.sub_eq_add_neg, lo32_add, lo32_neg, ← BitVec.sub_eq_add_neg]
theorem lo32_and (u v : W64) : lo32 (u &&& v) = lo32 u &&& lo32 v := by simp [lo32]
theorem lo32_or (u v : W64) : lo32 (u ||| v) = lo32 u ||| lo32 v := by simp [lo32]
theorem lo32_xor (u v : W64) : lo32 (u ^^^ v) = lo32 u ^^^ lo32 v := by simp [lo32]
theorem lo32_not (u : W64) : lo32 (~~~u) = ~~~lo32 u := by simp [lo32]
theorem lo32_shl (u : W64) (k : Nat) : lo32 (u <<< k) = lo32 u <<< k :=
  BitVec.setWidth_shiftLeft_of_le (by decide)

theorem toInt_sext32 (x : W32) : (sext32 x).toInt = x.toInt :=
  BitVec.toInt_signExtend_of_le (by decide)
theorem toNat_zext32 (x : W32) : (zext32 x).toNat = x.toNat := by
  simp only [zext32, BitVec.toNat_setWidth]; have := x.isLt; omega

theorem lo32_wrapI (v : Int) : lo32 (wrapI 64 v) = wrapI 32 v := by
  apply BitVec.eq_of_toNat_eq
  simp only [lo32, wrapI, BitVec.toNat_setWidth, BitVec.toNat_ofInt]
  omega
theorem lo32_wrapN (v : Nat) : lo32 (wrapN 64 v) = wrapN 32 v := by
  simp [lo32, wrapN, BitVec.setWidth_ofNat_of_le]

theorem sext32_ne_zero (y : W32) (h : y ≠ 0) : sext32 y ≠ 0 := by
  intro h0; apply h; have := congrArg lo32 h0; rwa [lo32_sext32] at this
theorem zext32_ne_zero (y : W32) (h : y ≠ 0) : zext32 y ≠ 0 := by
  intro h0; apply h; have := congrArg lo32 h0; rwa [lo32_zext32] at this

theorem sext32_ne_intMin (x : W32) : sext32 x ≠ BitVec.intMin 64 := by
  intro h
  have h1 := congrArg BitVec.toInt h
  rw [toInt_sext32, toInt_intMin' (by decide)] at h1
  have := BitVec.le_toInt (x := x)
  omega

/-- small non-negative shift counts survive the extension -/
theorem toNat_sext32_small (y : W32) (h : y.toNat < 32) : (sext32 y).toNat = y.toNat := by
  have hm : y.msb = false := by
    rw [BitVec.msb_eq_false_iff_two_mul_lt]; omega
  rw [sext32, BitVec.signExtend_eq_setWidth_of_msb_false hm, BitVec.toNat_setWidth]; omega

/-- signed C operators: 64-bit evaluation on the sign-extended operands yields, in its low half,
the 32-bit result, wherever the latter is defined -/
theorem cS_sext (o : BinOp) (x y r' : W32) (h : cS o x y = some r') :
    ∃ r, cS o (sext32 x) (sext32 y) = some r ∧ lo32 r = r' := by
  cases o <;> simp only [cS] at h ⊢
  · exact ⟨_, rfl, by rw [lo32_add, lo32_sext32, lo32_sext32]; exact Option.some.inj h⟩
  · exact ⟨_, rfl, by rw [lo32_sub, lo32_sext32, lo32_sext32]; exact Option.some.inj h⟩
  · exact ⟨_, rfl, by rw [lo32_mul, lo32_sext32, lo32_sext32]; exact Option.some.inj h⟩
  · split at h
    · cases h
    · rename_i hc
      have hy : y ≠ 0 := fun e => hc (Or.inl e)
      rw [if_neg (by
        rintro (h0 | ⟨h1, _⟩)
        · exact sext32_ne_zero y hy h0
        · exact sext32_ne_intMin x h1)]
      refine ⟨_, rfl, ?_⟩
      rw [sdiv_doc, lo32_wrapI, toInt_sext32, toInt_sext32, ← sdiv_doc]; exact Option.some.inj h
  · split at h
    · cases h
    · rename_i hc
      have hy : y ≠ 0 := fun e => hc (Or.inl e)
      rw [if_neg (by
        rintro (h0 | ⟨h1, _⟩)
        · exact sext32_ne_zero y hy h0
        · exact sext32_ne_intMin x h1)]
      refine ⟨_, rfl, ?_⟩
      rw [srem_doc, lo32_wrapI, toInt_sext32, toInt_sext32, ← srem_doc]; exact Option.some.inj h
  · exact ⟨_, rfl, by rw [lo32_and, lo32_sext32, lo32_sext32]; exact Option.some.inj h⟩
  · exact ⟨_, rfl, by rw [lo32_or, lo32_sext32, lo32_sext32]; exact Option.some.inj h⟩
  · exact ⟨_, rfl, by rw [lo32_xor, lo32_sext32, lo32_sext32]; exact Option.some.inj h⟩
  · split at h
    · rename_i hc
      rw [toNat_sext32_small y hc, if_pos (by omega)]
      exact ⟨_, rfl, by rw [lo32_shl, lo32_sext32]; exact Option.some.inj h⟩
    · cases h
  · split at h
    · rename_i hc
      rw [toNat_sext32_small y hc, if_pos (by omega)]
      refine ⟨_, rfl, ?_⟩
      rw [sshr_doc, lo32_wrapI, toInt_sext32, ← sshr_doc]; exact Option.some.inj h
    · cases h

/-- unsigned C operators on zero-extended operands -/
theorem cU_zext (o : BinOp) (x y r' : W32) (h : cU o x y = some r') :
    ∃ r, cU o (zext32 x) (zext32 y) = some r ∧ lo32 r = r' := by
  cases o <;> simp only [cU] at h ⊢
  · exact ⟨_, rfl, by rw [lo32_add, lo32_zext32, lo32_zext32]; exact Option.some.inj h⟩
  · exact ⟨_, rfl, by rw [lo32_sub, lo32_zext32, lo32_zext32]; exact Option.some.inj h⟩
  · exact ⟨_, rfl, by rw [lo32_mul, lo32_zext32, lo32_zext32]; exact Option.some.inj h⟩
  · split at h
    · cases h
    · rename_i hc
      rw [if_neg (zext32_ne_zero y hc)]
      refine ⟨_, rfl, ?_⟩
      rw [udiv_doc, lo32_wrapN, toNat_zext32, toNat_zext32, ← udiv_doc]; exact Option.some.inj h
  · split at h
    · cases h
    · rename_i hc
      rw [if_neg (zext32_ne_zero y hc)]
      refine ⟨_, rfl, ?_⟩
      rw [umod_doc, lo32_wrapN, toNat_zext32, toNat_zext32, ← umod_doc]; exact Option.some.inj h
  · exact ⟨_, rfl, by rw [lo32_and, lo32_zext32, lo32_zext32]; exact Option.some.inj h⟩
  · exact ⟨_, rfl, by rw [lo32_or, lo32_zext32, lo32_zext32]; exact Option.some.inj h⟩
  · exact ⟨_, rfl, by rw [lo32_xor, lo32_zext32, lo32_zext32]; exact Option.some.inj h⟩
  · split at h
    · rename_i hc
      rw [toNat_zext32, if_pos (by omega)]
      exact ⟨_, rfl, by rw [lo32_shl, lo32_zext32]; exact Option.some.inj h⟩
    · cases h
  · split at h
    · rename_i hc
      rw [toNat_zext32, if_pos (by omega)]
      refine ⟨_, rfl, ?_⟩
      rw [ushr_doc, lo32_wrapN, toNat_zext32, ← ushr_doc]; exact Option.some.inj h
    · cases h

end MirVerif.CArith
