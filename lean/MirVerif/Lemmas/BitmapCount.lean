import MirVerif.Lemmas.Bitmap
/-! `bitmap_bit_count`, `bitmap_bit_min`, `bitmap_bit_max` against `members`. -/
namespace MirVerif.Bitmap

/-- set bits of one word, increasing -/
def wordBits (w : Word) : List Nat := (List.range 64).filter w.getLsbD

@[simp] theorem wordBits_zero : wordBits 0#64 = [] := by
  simp [wordBits]

theorem wordBits_eq_nil_iff (w : Word) : wordBits w = [] ↔ w = 0#64 := by
  constructor
  · intro h
    apply Decidable.byContradiction; intro hc
    obtain ⟨j, hj, hb⟩ := (word_ne_zero_iff w).1 hc
    have : j ∈ wordBits w := by simp [wordBits, hj, hb]
    rw [h] at this; simp at this
  · intro h; subst h; simp

theorem members_cons (w : Word) (r : Bm) :
    members (w :: r) = wordBits w ++ (members r).map (64 + ·) := by
  unfold members wordBits
  rw [show 64 * (w :: r).length = 64 + 64 * r.length by simp; omega, List.range_add,
    List.filter_append, List.filter_map]
  have h2 : (mem (w :: r) ∘ fun x => 64 + x) = mem r := by
    funext i; simp [mem_cons_add]
  rw [h2, List.filter_congr (fun j hj => mem_cons_lt w r j (by simpa using hj))]

@[simp] theorem members_nil : members [] = [] := by simp [members]

theorem mem_members (bm : Bm) (i : Nat) : i ∈ members bm ↔ mem bm i = true := by
  simp only [members, List.mem_filter, List.mem_range]
  exact ⟨fun h => h.2, fun h => ⟨mem_lt bm i h, h⟩⟩

theorem members_sorted (bm : Bm) : (members bm).Pairwise (· < ·) :=
  List.Pairwise.filter _ List.pairwise_lt_range

/-! ### count -/

theorem filter_shift (el : Word) (f : Nat) :
    (List.map Nat.succ (List.range f)).filter el.getLsbD =
      ((List.range f).filter (el >>> 1).getLsbD).map Nat.succ := by
  rw [List.filter_map]
  congr 1
  apply List.filter_congr
  intro j _
  simp [BitVec.getLsbD_ushiftRight, Nat.add_comm]

theorem popLoop_spec : ∀ (f : Nat) (el : Word) (c : Nat), (∀ j, f ≤ j → el.getLsbD j = false) →
    popLoop f el c = c + ((List.range f).filter el.getLsbD).length := by
  intro f
  induction f with
  | zero => intro el c _; simp [popLoop]
  | succ f ih =>
    intro el c h
    unfold popLoop
    by_cases h0 : el = 0#64
    · subst h0; simp
    · simp only [h0, if_false]
      rw [ih (el >>> 1) _ (by intro j hj; simp [BitVec.getLsbD_ushiftRight]; exact h _ (by omega)),
        List.range_succ_eq_map, bit_eq]
      cases hb : el.getLsbD 0
      · simp only [Bool.false_eq_true, if_false]
        rw [List.filter_cons_of_neg (by rw [hb]; exact Bool.false_ne_true), filter_shift]
        simp
      · simp only [if_true]
        rw [List.filter_cons_of_pos hb, filter_shift]
        simp; omega

theorem bitCount_foldl (bm : Bm) : ∀ c,
    bm.foldl (fun c el => if el = 0#64 then c else popLoop 64 el c) c = c + (members bm).length := by
  induction bm with
  | nil => intro c; simp
  | cons w r ih =>
    intro c
    rw [List.foldl_cons, ih, members_cons, List.length_append, List.length_map]
    by_cases h0 : w = 0#64
    · subst h0; simp
    · simp only [h0, if_false]
      rw [popLoop_spec 64 w c (by intro j hj; exact BitVec.getLsbD_of_ge _ _ hj)]
      simp [wordBits]; omega

theorem bitCount_eq (bm : Bm) : bitCount bm = (members bm).length := by
  simp [bitCount, bitCount_foldl]

/-! ### min -/

theorem minLoop_spec : ∀ (f : Nat) (el : Word) (c : Nat), (∀ j, f ≤ j → el.getLsbD j = false) →
    minLoop f el c = (((List.range f).filter el.getLsbD).head?).map (· + c) := by
  intro f
  induction f with
  | zero => intro el c _; simp [minLoop]
  | succ f ih =>
    intro el c h
    unfold minLoop
    by_cases h0 : el = 0#64
    · subst h0
      have : (List.range (f + 1)).filter (0#64 : Word).getLsbD = [] := by simp
      rw [this]; rfl
    · simp only [h0, if_false]
      rw [List.range_succ_eq_map, bit_eq]
      cases hb : el.getLsbD 0
      · simp only [Bool.false_eq_true, if_false]
        rw [ih (el >>> 1) _ (by intro j hj; simp [BitVec.getLsbD_ushiftRight]; exact h _ (by omega)),
          List.filter_cons_of_neg (by rw [hb]; exact Bool.false_ne_true), filter_shift, List.head?_map, Option.map_map]
        congr 1
        funext x; simp; omega
      · simp only [if_true]
        rw [List.filter_cons_of_pos hb]
        simp

theorem minLoop64 (el : Word) : minLoop 64 el 0 = (wordBits el).head? := by
  rw [minLoop_spec 64 el 0 (by intro j hj; exact BitVec.getLsbD_of_ge _ _ hj)]
  simp [wordBits]

theorem bitMinFrom_spec : ∀ (bm : Bm) (i : Nat),
    bitMinFrom i bm = (((members bm).head?).map (64 * i + ·)).getD 0
  | [], i => by simp [bitMinFrom]
  | el :: r, i => by
    have ih := bitMinFrom_spec r (i + 1)
    unfold bitMinFrom
    rw [members_cons, minLoop64]
    by_cases h0 : el = 0#64
    · subst h0
      simp only [if_true, wordBits_zero, List.nil_append]
      rw [ih]
      cases members r with
      | nil => simp
      | cons m t => simp; omega
    · simp only [h0, if_false]
      cases hw : wordBits el with
      | nil => exact absurd ((wordBits_eq_nil_iff el).1 hw) h0
      | cons c t => simp; omega

theorem bitMin_eq (bm : Bm) : bitMin bm = (members bm).head?.getD 0 := by
  rw [bitMin, bitMinFrom_spec]
  cases members bm <;> simp

/-! ### max -/

theorem maxLoop_spec (el : Word) : ∀ (c : Nat),
    maxLoop c el = ((List.range c).filter el.getLsbD).getLast? := by
  intro c
  induction c with
  | zero => simp [maxLoop]
  | succ c ih =>
    unfold maxLoop
    rw [List.range_succ, List.filter_append, bit_eq]
    cases hb : el.getLsbD c
    · simp [hb, ih]
    · simp [hb]

theorem bitMaxLoop_spec (bm : Bm) : ∀ (n : Nat),
    bitMaxLoop n bm = (((List.range (64 * n)).filter (mem bm)).getLast?).getD 0 := by
  intro n
  induction n with
  | zero => simp [bitMaxLoop]
  | succ n ih =>
    unfold bitMaxLoop
    have hsplit : (List.range (64 * (n + 1))).filter (mem bm) =
        (List.range (64 * n)).filter (mem bm) ++ (wordBits (wget bm n)).map (64 * n + ·) := by
      rw [show 64 * (n + 1) = 64 * n + 64 by omega, List.range_add, List.filter_append, List.filter_map]
      congr 2
      apply List.filter_congr
      intro j hj
      have hj : j < 64 := by simpa using hj
      have h1 : (64 * n + j) / 64 = n := by omega
      have h2 : (64 * n + j) % 64 = j := by omega
      simp [mem, h1, h2]
    dsimp only
    rw [hsplit, List.getLast?_append, List.getLast?_map, maxLoop_spec]
    by_cases h0 : wget bm n = 0#64
    · simp [h0, ih]
    · simp only [h0, if_false]
      show (match ((List.range 64).filter (wget bm n).getLsbD).getLast? with
        | some c => n * 64 + c | none => bitMaxLoop n bm) = _
      rw [show (List.range 64).filter (wget bm n).getLsbD = wordBits (wget bm n) from rfl]
      cases hl : (wordBits (wget bm n)).getLast? with
      | none => simp [ih]
      | some c => simp; omega

theorem bitMax_eq (bm : Bm) : bitMax bm = (members bm).getLast?.getD 0 := by
  rw [bitMax, bitMaxLoop_spec]; rfl

end MirVerif.Bitmap

namespace MirVerif.Bitmap

theorem head_le_of_sorted : ∀ (l : List Nat) (x : Nat), l.Pairwise (· < ·) → x ∈ l →
    l.head?.getD 0 ≤ x
  | [], _, _, h => by simp at h
  | a :: r, x, hp, h => by
    rcases List.mem_cons.1 h with rfl | hx
    · simp
    · have := (List.pairwise_cons.1 hp).1 x hx
      simp; omega

theorem le_last_of_sorted : ∀ (l : List Nat) (x : Nat), l.Pairwise (· < ·) → x ∈ l →
    x ≤ l.getLast?.getD 0
  | [], _, _, h => by simp at h
  | [a], x, _, h => by simp at h; simp [h]
  | a :: b :: r, x, hp, h => by
    have ih := le_last_of_sorted (b :: r) 
    have hp' := List.pairwise_cons.1 hp
    rw [List.getLast?_cons_cons]
    rcases List.mem_cons.1 h with rfl | hx
    · have h1 := hp'.1 b (List.mem_cons_self)
      have h2 := ih b hp'.2 (List.mem_cons_self)
      omega
    · exact ih x hp'.2 hx

theorem head?_mem_getD (l : List Nat) (h : l ≠ []) : l.head?.getD 0 ∈ l := by
  cases l with
  | nil => exact absurd rfl h
  | cons a r => simp

theorem getLast?_mem_getD : ∀ (l : List Nat), l ≠ [] → l.getLast?.getD 0 ∈ l
  | [], h => absurd rfl h
  | [a], _ => by simp
  | a :: b :: r, _ => by
    rw [List.getLast?_cons_cons]
    exact List.mem_cons_of_mem _ (getLast?_mem_getD (b :: r) (by simp))

end MirVerif.Bitmap
