import MirVerif.Model.PPExpr
/-! Lemmas for the `#if` evaluator theorems of C09. -/
set_option linter.unusedSimpArgs false
set_option linter.unusedVariables false
namespace MirVerif.PP

theorem c11Lit_uns (l : Lit) (v : Val) (h : c11Lit l = .val v) : v.uns = litUns l := by
  simp [litUns, h, Res.unsFlag]

/-- under the side condition the code types and values a constant as C11 does -/
theorem c2mLit_eq (fx : Fixes) (l : Lit) (hc : litClean fx l = true) : c2mLit fx l = c11Lit l := by
  cases l with
  | int base n suf =>
    simp only [litClean, Bool.and_eq_true, bne_iff_ne, ne_eq] at hc
    obtain ⟨hdef, hk⟩ := hc
    unfold c11Lit at hdef ⊢
    unfold c2mLit
    by_cases h64 : n ≥ 2 ^ 64
    · simp [h64]
    · simp only [h64, if_false] at hdef ⊢
      cases hf : fx.fLit <;> cases suf <;> cases base <;>
        simp [Suffix.hasU, hf] at hdef hk ⊢ <;> (try split) <;> (try split) <;> (try split) <;>
        simp_all <;> omega
  | chr pfx c =>
    cases pfx <;> simp [litClean, c11Lit, c2mLit] at hc ⊢
    · split <;> simp_all

/-- type soundness of the C11 evaluator: the dynamic flag is the static type -/
theorem c11Eval_uns (e : Expr) : ∀ v, c11Eval e = .val v → v.uns = isUns e := by
  induction e with
  | lit l => intro v h; simpa [isUns] using c11Lit_uns l v h
  | un op a ih =>
    intro v h
    simp only [c11Eval] at h
    cases ha : c11Eval a with
    | val va =>
      rw [ha] at h
      have := ih va ha
      cases op <;> simp [c11Un] at h <;> (try split at h) <;> simp_all [isUns] <;>
        (try (cases h; simp_all))
    | divZero => simp [ha] at h
    | undef => simp [ha] at h
  | bin op a b iha ihb =>
    intro v h
    simp only [c11Eval] at h
    cases ha : c11Eval a with
    | val v1 =>
      rw [ha] at h
      have h1 := iha v1 ha
      cases hb : c11Eval b with
      | val v2 =>
        have h2 := ihb v2 hb
        rw [hb] at h
        cases op <;>
          simp [BinOp.isShift, BinOp.isCmp, BinOp.isLogic, c11Shift, c11Arith, isUns] at h ⊢ <;>
          (repeat' split at h) <;> simp_all <;> (try (cases h; simp_all))
      | divZero =>
        rw [hb] at h
        cases op <;> simp [BinOp.isShift, BinOp.isCmp, BinOp.isLogic, isUns] at h ⊢ <;>
          (repeat' split at h) <;> simp_all <;> (try (cases h; simp_all))
      | undef =>
        rw [hb] at h
        cases op <;> simp [BinOp.isShift, BinOp.isCmp, BinOp.isLogic, isUns] at h ⊢ <;>
          (repeat' split at h) <;> simp_all <;> (try (cases h; simp_all))
    | divZero => simp [ha] at h
    | undef => simp [ha] at h
  | cond c a b _ _ _ =>
    intro v h
    simp only [c11Eval] at h
    cases hc : c11Eval c with
    | val vc =>
      rw [hc] at h
      simp only [isUns]
      by_cases ht : vc.truth = true
      · simp only [ht, if_true] at h
        cases ha : c11Eval a <;> simp [ha, condConv] at h
        rw [← h]
      · simp only [ht, if_false] at h
        cases hb : c11Eval b <;> simp [hb, condConv] at h
        rw [← h]
    | divZero => simp [hc] at h
    | undef => simp [hc] at h

/-- the static signedness function of the repaired code agrees with the C11 type -/
theorem c2mStaticUns_eq (fx : Fixes) (e : Expr) (hc : Clean fx e = true) :
    c2mStaticUns fx e = isUns e := by
  induction e with
  | lit l =>
    simp only [Clean] at hc
    simp [c2mStaticUns, isUns, litUns, c2mLit_eq fx l hc]
  | un op a ih =>
    cases op <;> simp_all [c2mStaticUns, isUns, Clean]
  | bin op a b iha ihb =>
    simp only [Clean, Bool.and_eq_true] at hc
    obtain ⟨⟨h1, h2⟩, h3⟩ := hc
    have ea := iha h1
    have eb := ihb h2
    cases op <;> simp_all [c2mStaticUns, isUns, BinOp.isShift, BinOp.isCmp, BinOp.isLogic]
  | cond c a b _ iha ihb =>
    simp only [Clean, Bool.and_eq_true] at hc
    simp [c2mStaticUns, isUns, iha hc.1.1.2, ihb hc.1.2]

theorem c11Un_ne_undef_eq (fx : Fixes) (op : UnOp) (v : Val)
    (hn : op = .lnot → (fx.fNot = true ∨ v.uns = false))
    (hd : c11Un op v ≠ .undef) : c2mUn fx op v = c11Un op v := by
  cases op <;> simp [c2mUn, c11Un] at hd ⊢
  case neg => exact hd
  case lnot => rcases hn rfl with h | h <;> simp [h]

theorem shiftCountOk_signed_unsigned (b : W) (h : shiftCountOk false b = true) :
    shiftCountOk true b = true := by
  simp [shiftCountOk] at h ⊢
  have h1 := BitVec.toInt_eq_toNat_cond (x := b)
  have h2 := b.isLt
  split at h1 <;> omega

theorem arith_eq (op : BinOp) (uns : Bool) (a b : W) (hd : c11Arith op uns a b ≠ .undef) :
    c2mArith op uns a b = c11Arith op uns a b := by
  cases op <;> simp [c2mArith, c11Arith] at hd ⊢ <;> (repeat' split at hd) <;> simp_all

theorem shift_eq (fx : Fixes) (op : BinOp) (v1 v2 : Val)
    (hk : fx.fShift = true ∨ (v2.uns = true → v1.uns = true))
    (hd : c11Shift op v1 v2 ≠ .undef) : c2mShift fx op v1 v2 = c11Shift op v1 v2 := by
  unfold c2mShift c11Shift at *
  cases hf : fx.fShift <;> cases h1 : v1.uns <;> cases h2 : v2.uns <;>
    simp_all <;> (repeat' split at hd) <;> (repeat' split) <;> simp_all <;>
    exact shiftCountOk_signed_unsigned _ hd

/-- MAIN LEMMA: under the side condition `Clean fx`, wherever C11 gives the expression a value (or
a division by zero in an evaluated operand) the (partially repaired) code computes the same. -/
theorem eval_partial (fx : Fixes) (e : Expr) :
    Clean fx e = true → c11Eval e ≠ .undef → c2mEvalG fx e = c11Eval e := by
  induction e with
  | lit l =>
    intro hc _
    simp only [Clean] at hc
    simp [c2mEvalG, c11Eval, c2mLit_eq fx l hc]
  | un op a ih =>
    intro hc hd
    have hca : Clean fx a = true := by cases op <;> simp_all [Clean]
    simp only [c11Eval] at hd ⊢
    simp only [c2mEvalG]
    cases ha : c11Eval a with
    | val va =>
      rw [ha] at hd
      have := ih hca (by rw [ha]; simp)
      rw [this, ha]
      apply c11Un_ne_undef_eq fx op va _ hd
      intro hop
      subst hop
      have hu := c11Eval_uns a va ha
      simp [Clean] at hc
      rcases hc.2 with h | h
      · exact Or.inl h
      · exact Or.inr (by rw [hu]; exact h)
    | divZero =>
      have := ih hca (by rw [ha]; simp)
      rw [this, ha]
    | undef => rw [ha] at hd; simp at hd
  | bin op a b iha ihb =>
    intro hc hd
    simp only [Clean, Bool.and_eq_true] at hc
    obtain ⟨⟨hca, hcb⟩, hk⟩ := hc
    simp only [c11Eval] at hd ⊢
    simp only [c2mEvalG]
    cases ha : c11Eval a with
    | val v1 =>
      rw [ha] at hd
      rw [iha hca (by rw [ha]; simp), ha]
      simp only []
      have hu1 := c11Eval_uns a v1 ha
      by_cases hl : op = .land
      · subst hl
        simp only [if_true] at hd ⊢
        by_cases ht : v1.truth = true
        · simp only [ht, if_true] at hd ⊢
          cases hb : c11Eval b with
          | val v2 => rw [ihb hcb (by rw [hb]; simp), hb]
          | divZero => rw [ihb hcb (by rw [hb]; simp), hb]
          | undef => rw [hb] at hd; simp at hd
        · simp [ht]
      · by_cases hl2 : op = .lor
        · subst hl2
          simp only [if_true, if_false, reduceCtorEq] at hd ⊢
          by_cases ht : v1.truth = true
          · simp [ht]
          · simp only [ht, if_false] at hd ⊢
            cases hb : c11Eval b with
            | val v2 => rw [ihb hcb (by rw [hb]; simp), hb]
            | divZero => rw [ihb hcb (by rw [hb]; simp), hb]
            | undef => rw [hb] at hd; simp at hd
        · simp only [hl, hl2, if_false] at hd ⊢
          cases hb : c11Eval b with
          | val v2 =>
            rw [hb] at hd
            rw [ihb hcb (by rw [hb]; simp), hb]
            simp only []
            have hu2 := c11Eval_uns b v2 hb
            by_cases hs : op.isShift = true
            · simp only [hs, if_true] at hd ⊢
              apply shift_eq fx op v1 v2 _ hd
              have hcm : op.isCmp = false := by cases op <;> simp_all [BinOp.isShift, BinOp.isCmp]
              simp [hs, hcm] at hk
              rw [hu1, hu2]
              rcases hk with h | h | h
              · exact Or.inl h
              · exact Or.inr (by simp [h])
              · exact Or.inr (by simp [h])
            · simp only [hs] at hd ⊢
              by_cases hcm : op.isCmp = true
              · simp only [hcm, if_true] at hd ⊢
                simp [hcm] at hk
                rw [← hu1, ← hu2] at hk
                cases hf : fx.fCmp <;> simp_all
              · simp only [hcm] at hd ⊢
                exact arith_eq op _ _ _ hd
          | divZero => rw [ihb hcb (by rw [hb]; simp), hb]
          | undef => rw [hb] at hd; simp at hd
    | divZero => rw [iha hca (by rw [ha]; simp), ha]
    | undef => rw [ha] at hd; simp at hd
  | cond c a b ihc iha ihb =>
    intro hc hd
    simp only [Clean, Bool.and_eq_true] at hc
    obtain ⟨⟨⟨hcc, hca⟩, hcb⟩, hk⟩ := hc
    simp only [c11Eval] at hd ⊢
    simp only [c2mEvalG]
    cases hcv : c11Eval c with
    | val vc =>
      rw [hcv] at hd
      rw [ihc hcc (by rw [hcv]; simp), hcv]
      simp only []
      have sa := c2mStaticUns_eq fx a hca
      have sb := c2mStaticUns_eq fx b hcb
      by_cases ht : vc.truth = true
      · simp only [ht, if_true] at hd ⊢
        cases ha : c11Eval a with
        | val va =>
          have hu := c11Eval_uns a va ha
          rw [iha hca (by rw [ha]; simp), ha]
          simp [c2mCondConv, condConv, sb, ← hu]
          cases hf : fx.fCond <;> simp_all
          cases va; simp_all
        | divZero => rw [iha hca (by rw [ha]; simp), ha]; simp [c2mCondConv, condConv]
        | undef => rw [ha] at hd; simp [condConv] at hd
      · simp only [ht, if_false] at hd ⊢
        cases hb : c11Eval b with
        | val vb =>
          have hu := c11Eval_uns b vb hb
          rw [ihb hcb (by rw [hb]; simp), hb]
          simp [c2mCondConv, condConv, sa, ← hu]
          cases hf : fx.fCond <;> simp_all
          · cases vb; simp_all
          · exact Bool.or_comm _ _
        | divZero => rw [ihb hcb (by rw [hb]; simp), hb]; simp [c2mCondConv, condConv]
        | undef => rw [hb] at hd; simp [condConv] at hd
    | divZero => rw [ihc hcc (by rw [hcv]; simp), hcv]
    | undef => rw [hcv] at hd; simp at hd

theorem clean_allFixes (e : Expr) (h : LitsOk e = true) : Clean allFixes e = true := by
  induction e with
  | lit l =>
    simp only [LitsOk] at h
    cases l with
    | int b n s => simp [Clean, litClean, allFixes, h]
    | chr p c => cases p <;> simp [Clean, litClean, allFixes, h]
  | un op a ih => cases op <;> simp_all [Clean, LitsOk, allFixes]
  | bin op a b iha ihb =>
    simp only [LitsOk, Bool.and_eq_true] at h
    simp only [Clean, iha h.1, ihb h.2]
    simp [allFixes]
  | cond c a b ihc iha ihb =>
    simp only [LitsOk, Bool.and_eq_true] at h
    simp only [Clean, ihc h.1.1, iha h.1.2, ihb h.2]
    simp [allFixes]


end MirVerif.PP
