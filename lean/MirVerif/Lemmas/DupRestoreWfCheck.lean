import MirVerif.Lemmas.DupRestoreSpec
/-!
An executable test of the well-formedness hypothesis `WF` of the C16 theorems, with a soundness
proof: the driver evaluates `wfCheck` on the description of every real function it is given, so the
run measures on how many real inputs the theorems' hypotheses actually hold.
-/
namespace MirVerif.DupRestore

def ptrOKB (h : Heap) (l : List Nat) (p : Option Nat) : Bool :=
  match p with
  | none => false
  | some t => l.contains t && (match h t with
      | some insn => insn.kind == .label
      | none => false)

def labOpOKB (h : Heap) (l : List Nat) (insn : Insn) : Bool :=
  insn.ops.zipIdx.all (fun x =>
    match x.1 with
    | .lab p =>
      branchLike insn.kind && insn.kind != .jmpi &&
      decide ((labelRange insn.kind insn.ops.length).1 ≤ x.2) &&
      decide (x.2 < (labelRange insn.kind insn.ops.length).2) && ptrOKB h l p
    | _ => true)

def lrefOKB (h : Heap) (l : List Nat) (r : Lref) : Bool :=
  ptrOKB h l r.label && (r.label2.isNone || ptrOKB h l r.label2) &&
  r.origLabel.isNone && r.origLabel2.isNone

def wfCheck (s : State) : Bool :=
  decide s.func.insns.Nodup &&
  s.func.insns.all (fun i => decide (i < s.next) && (s.heap i).isSome) &&
  s.func.insns.all (fun i => match s.heap i with
    | none => true
    | some insn => (insn.kind != .label || insn.data.isNone) && labOpOKB s.heap s.func.insns insn) &&
  s.func.lrefs.all (lrefOKB s.heap s.func.insns) &&
  s.func.originalInsns.isEmpty &&
  s.func.name2rdn.all (fun r => decide (r < s.func.regDescs.length)) &&
  s.func.reg2rdn.all (fun r => decide (r < s.func.regDescs.length)) &&
  decide (s.func.name2rdn.map (rdNameAt s.func)).Nodup &&
  decide (s.func.reg2rdn.map (rdRegAt s.func)).Nodup &&
  s.func.reg2rdn.all (fun r => match s.func.regDescs[r]? with
    | none => true
    | some d => decide (d.reg ≤ s.func.vars.length + s.func.nglobals))

theorem ptrOKB_sound {h : Heap} {l : List Nat} {p : Option Nat} (hp : ptrOKB h l p = true) :
    PtrOK h l p := by
  cases p with
  | none => simp [ptrOKB] at hp
  | some t =>
    simp only [ptrOKB, Bool.and_eq_true] at hp
    obtain ⟨h1, h2⟩ := hp
    refine ⟨t, rfl, List.contains_iff_mem.mp h1, ?_⟩
    cases ht : h t with
    | none => rw [ht] at h2; cases h2
    | some insn =>
      rw [ht] at h2
      exact ⟨insn, ht, by simpa using h2⟩

theorem labOpOKB_sound {h : Heap} {l : List Nat} {insn : Insn} (hb : labOpOKB h l insn = true) :
    LabOpOK h l insn := by
  intro n p hop
  have hmem : (Op.lab p, n) ∈ insn.ops.zipIdx := List.mem_zipIdx_iff_getElem?.mpr hop
  have := List.all_eq_true.mp hb _ hmem
  simp only [Bool.and_eq_true, decide_eq_true_eq, bne_iff_ne, ne_eq] at this
  obtain ⟨⟨⟨⟨h1, h2⟩, h3⟩, h4⟩, h5⟩ := this
  exact ⟨⟨h1, h2, h3, h4⟩, ptrOKB_sound h5⟩

theorem wfCheck_sound (s : State) (hc : wfCheck s = true) : WF s := by
  simp only [wfCheck, Bool.and_eq_true, decide_eq_true_eq, List.all_eq_true] at hc
  obtain ⟨⟨⟨⟨⟨⟨⟨⟨⟨c1, c2⟩, c3⟩, c4⟩, c5⟩, c6⟩, c7⟩, c8⟩, c9⟩, c10⟩ := hc
  constructor
  · exact c1
  · intro i hi
    exact c2 i hi
  · intro i hi insn h0 hk
    have := c3 i hi
    rw [h0] at this
    simp only [Bool.and_eq_true, Bool.or_eq_true, bne_iff_ne, ne_eq] at this
    rcases this.1 with h | h
    · exact absurd hk h
    · cases hd : insn.data with
      | none => rfl
      | some x => rw [hd] at h; cases h
  · intro i hi insn h0
    have := c3 i hi
    rw [h0] at this
    simp only [Bool.and_eq_true] at this
    exact labOpOKB_sound this.2
  · intro r hr
    have := c4 r hr
    simp only [lrefOKB, Bool.and_eq_true, Bool.or_eq_true] at this
    obtain ⟨⟨⟨h1, h2⟩, h3⟩, h4⟩ := this
    refine ⟨ptrOKB_sound h1, ?_, ?_, ?_⟩
    · rcases h2 with h2 | h2
      · left
        cases hl : r.label2 with
        | none => rfl
        | some x => rw [hl] at h2; cases h2
      · right; exact ptrOKB_sound h2
    · cases hl : r.origLabel with
      | none => rfl
      | some x => rw [hl] at h3; cases h3
    · cases hl : r.origLabel2 with
      | none => rfl
      | some x => rw [hl] at h4; cases h4
  · exact List.isEmpty_iff.mp c5
  · exact ⟨c6, c7, c8, c9⟩
  · intro r hr d hd
    have := c10 r hr
    rw [hd] at this
    simpa using this

end MirVerif.DupRestore
