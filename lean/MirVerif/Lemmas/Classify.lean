import MirVerif.Model.Classify
import MirVerif.Lemmas.Layout
/-! C08: lemmas relating c2mir's `classify_arg` (`c2mClassify`) with the recursive psABI
classification (`sysvCls`) for declarations without bit-fields whose nested aggregates start on
eightbyte boundaries (`clsAligned`). -/
set_option linter.unusedSimpArgs false
namespace MirVerif.Classify
open MirVerif.Layout

theorem c2mMerge_eq (a b : Cls) : c2mMerge a b = sysvMerge a b := by
  cases a <;> cases b <;> rfl

theorem c2mPost_eq : c2mPost = postMerge := rfl

theorem foldl_congr_inv {α β : Type} {f g : β → α → β} (P : β → Prop)
    (hP : ∀ b a, P b → P (f b a)) (h : ∀ b a, P b → f b a = g b a) :
    ∀ (l : List α) (b0 : β), P b0 → l.foldl f b0 = l.foldl g b0 := by
  intro l
  induction l with
  | nil => intro b0 _; rfl
  | cons x xs ih =>
    intro b0 hb
    simp only [List.foldl_cons]
    rw [← h b0 x hb]
    exact ih _ (hP b0 x hb)

theorem listModify_length (l : List Cls) (i : Nat) (f : Cls → Cls) :
    (listModify l i f).length = l.length := by
  unfold listModify
  split <;> simp

/-- without smearing (`span_qwords ≤ n_el_qwords`) the merge loop of `classify_arg` is `placeSub` -/
theorem mergeSub_eq_placeSub (sub : List Cls) (startQ spanQ nq : Nat) (types : List Cls)
    (hspan : spanQ ≤ sub.length) (hlen : types.length = nq) :
    mergeSub sub startQ spanQ nq types = placeSub types sub startQ := by
  unfold mergeSub placeSub
  apply foldl_congr_inv (fun ty => ty.length = nq)
  · intro ty i hty
    have : ¬ (spanQ > sub.length) := by omega
    simp only [this, if_false]
    split
    · simp [listModify_length, hty]
    · exact hty
  · intro ty i hty
    have : ¬ (spanQ > sub.length) := by omega
    simp only [this, if_false]
    by_cases hi : i + startQ < nq
    · simp only [hi, if_true, listModify]
      split <;> simp_all [c2mMerge_eq]
    · have : ty[i + startQ]? = none := by
        apply List.getElem?_eq_none; omega
      simp [hi, this]
  · exact hlen

theorem placeSub_length (types sub : List Cls) (pos : Nat) :
    (placeSub types sub pos).length = types.length := by
  unfold placeSub
  have : ∀ (l : List Nat) (ty : List Cls), (l.foldl (fun ty i =>
      match ty[i + pos]? with
      | some c => ty.set (i + pos) (sysvMerge sub[i]! c)
      | none => ty) ty).length = ty.length := by
    intro l
    induction l with
    | nil => intro ty; rfl
    | cons x xs ih =>
      intro ty
      simp only [List.foldl_cons]
      rw [ih]
      split <;> simp
  exact this _ _

theorem mergeSub_length (sub : List Cls) (startQ spanQ nq : Nat) (types : List Cls) :
    (mergeSub sub startQ spanQ nq types).length = types.length := by
  unfold mergeSub
  have : ∀ (l : List Nat) (ty : List Cls), (l.foldl (fun ty i =>
      if i + startQ < nq then
        let ty1 := listModify ty (i + startQ) (fun c => c2mMerge sub[i]! c)
        if spanQ > sub.length then listModify ty1 (i + startQ + 1) (fun c => c2mMerge sub[i]! c) else ty1
      else ty) ty).length = ty.length := by
    intro l
    induction l with
    | nil => intro ty; rfl
    | cons x xs ih =>
      intro ty
      simp only [List.foldl_cons]
      rw [ih]
      split
      · split <;> simp [listModify_length]
      · rfl
  exact this _ _

theorem postMerge_length {cs r : List Cls} (h : postMerge cs = some r) : r = cs := by
  unfold postMerge at h
  split at h <;> simp_all

theorem c2mClsMems_length : ∀ (ms : Mems) (ps : List Place) (nq : Nat) (types r : List Cls),
    c2mClsMems ms ps nq types = some r → r.length = types.length
  | .nil, ps, nq, types, r, h => by
    simp [c2mClsMems] at h; subst h; rfl
  | .cons k t rest, [], nq, types, r, h => by
    simp [c2mClsMems] at h; subst h; rfl
  | .cons k t rest, p :: ps, nq, types, r, h => by
    unfold c2mClsMems at h
    cases k with
    | bf w nm =>
      simp only at h
      rw [c2mClsMems_length rest ps nq _ r h, listModify_length]
    | plain =>
      simp only at h
      split at h
      · cases h
      · split at h
        · cases h
        · rw [c2mClsMems_length rest ps nq _ r h, mergeSub_length]
    | anon =>
      simp only at h
      split at h
      · cases h
      · split at h
        · cases h
        · rw [c2mClsMems_length rest ps nq _ r h, mergeSub_length]

/-- `classify_arg` returns `(size + 7) / 8` qword classes -/
theorem c2mClassify_length : ∀ (t : CTy) (sub : List Cls), c2mClassify t = some sub →
    sub.length = ((c2mLay t).size + 7) / 8
  | .sc s, sub, h => by
    cases s <;> simp [c2mClassify] at h <;> subst h <;> rfl
  | .arr n t, sub, h => by
    unfold c2mClassify at h
    simp only at h
    split at h
    · cases h
    · split at h
      · cases h
      · split at h
        · cases h
        · rw [c2mPost_eq] at h
          rw [postMerge_length h]
          simp
  | .agg u ms, sub, h => by
    unfold c2mClassify at h
    simp only at h
    split at h
    · cases h
    · split at h
      · cases h
      · rename_i types hm
        rw [c2mPost_eq] at h
        rw [postMerge_length h, c2mClsMems_length ms _ _ _ types hm]
        simp

/-! ### scalars and arrays of scalars -/

theorem cls_sc (L : CTy → Lay) (s : Sc) (p : Nat) : c2mClassify (.sc s) = sysvCls L (.sc s) p := by
  cases s <;> rfl

/-- an aligned scalar never straddles more qwords than it has classes -/
theorem sc_span (s : Sc) (unit : Nat) (h : unit % (c2mLay (.sc s)).align = 0) (sub : List Cls)
    (hs : c2mClassify (.sc s) = some sub) :
    (unit + (c2mLay (.sc s)).size - 1) / 8 - unit / 8 + 1 ≤ sub.length := by
  cases s <;> simp [c2mClassify] at hs <;> subst hs <;>
    simp [c2mLay, c2mBasicSize, c2mBasicAlign] at h ⊢ <;> omega

/-- arrays of scalars that start on an eightbyte boundary: both sides agree (17 sizes × 18 kinds are
evaluated, larger arrays are MEMORY on both sides) -/
theorem cls_arr_sc (s : Sc) (n : Nat) :
    c2mClassify (.arr n (.sc s)) = sysvCls c2mLay (.arr n (.sc s)) 0 := by
  by_cases hn : n < 17
  · have h : ∀ m, m < 17 → c2mClassify (.arr m (.sc s)) = sysvCls c2mLay (.arr m (.sc s)) 0 := by
      cases s <;> decide +kernel
    exact h n hn
  · have hsz := c2mLay_arr_size n (.sc s)
    have hpos : 0 < (c2mLay (.sc s)).size := by simp [c2mLay, c2mBasicSize_eq, Sc.size_pos]
    have hbig : 17 ≤ n * (c2mLay (.sc s)).size := by
      calc 17 ≤ n * 1 := by omega
        _ ≤ n * (c2mLay (.sc s)).size := Nat.mul_le_mul_left _ hpos
    have h1 : ((c2mLay (.arr n (.sc s))).size + 7) / 8 > 2 := by rw [hsz]; omega
    have h2 : ((c2mLay (.arr n (.sc s))).size + 0 + 7) / 8 > 2 := by rw [hsz]; omega
    unfold c2mClassify sysvCls
    simp only [h1, h2, if_true]

theorem sysvMerge_idem_no (c x : Cls) (hx : x = .no ∨ x = c) : sysvMerge c x = c := by
  rcases hx with h | h <;> rw [h] <;> cases c <;> rfl

theorem foldl_range_const {β : Type} (f : β → Nat → β) (b0 b1 : β) (n : Nat)
    (h0 : ∀ i, i < n → f b0 i = b1) (h1 : ∀ i, i < n → f b1 i = b1) :
    ∀ k, k ≤ n → (List.range k).foldl f b0 = if k = 0 then b0 else b1 := by
  intro k
  induction k with
  | zero => intro _; rfl
  | succ k ih =>
    intro hk
    rw [List.range_succ, List.foldl_append, ih (by omega)]
    simp only [List.foldl_cons, List.foldl_nil]
    by_cases hk0 : k = 0
    · subst hk0; simp [h0 0 (by omega)]
    · simp [hk0, h1 k (by omega)]

/-- specification side: an array of small scalars that lies inside one eightbyte has one class -/
theorem sysvCls_small_arr (L : CTy → Lay) (s : Sc) (hs : s ≠ .ldouble) (n p : Nat) (hn : 0 < n)
    (hsz : (L (.arr n (.sc s))).size = n * (L (.sc s)).size)
    (hfit : p + n * (L (.sc s)).size ≤ 8) (hpos : 0 < (L (.sc s)).size) :
    sysvCls L (.arr n (.sc s)) p = some [scCls s] := by
  have hc : scCls s ≠ .mem ∧ scCls s ≠ .x87up := by cases s <;> simp [scCls] at *
  have hwords : ((L (.arr n (.sc s))).size + p + 7) / 8 = 1 := by
    rw [hsz]
    have : 0 < n * (L (.sc s)).size := Nat.mul_pos hn hpos
    omega
  have hsc : ∀ q, sysvCls L (.sc s) q = some [scCls s] := by
    intro q; unfold sysvCls; simp [hs]
  have hoff : ∀ i, i < n → (p + i * (L (.sc s)).size) / 8 = 0 := by
    intro i hi
    have hle : (i + 1) * (L (.sc s)).size ≤ n * (L (.sc s)).size := Nat.mul_le_mul_right _ hi
    rw [Nat.add_mul] at hle
    omega
  unfold sysvCls
  simp only [hwords, List.replicate]
  rw [foldl_range_const _ (some [Cls.no]) (some [scCls s]) n ?_ ?_ n (Nat.le_refl n)]
  · have hn0 : n ≠ 0 := by omega
    simp [hn0, postMerge, hc.1, hc.2]
  · intro i hi
    simp [hsc, hoff i hi, placeSub, List.range_succ, sysvMerge_idem_no (scCls s) .no (Or.inl rfl)]
  · intro i hi
    simp [hsc, hoff i hi, placeSub, List.range_succ, sysvMerge_idem_no (scCls s) (scCls s) (Or.inr rfl)]

/-- code side: the same array is one INTEGER/SSE qword -/
theorem c2mClassify_small_arr (s : Sc) (hs : s ≠ .ldouble) (n : Nat) (hn : 0 < n)
    (hfit : n * (c2mLay (.sc s)).size ≤ 8) :
    c2mClassify (.arr n (.sc s)) = some [scCls s] := by
  have hsz := c2mLay_arr_size n (.sc s)
  have hpos : 0 < (c2mLay (.sc s)).size := by simp [c2mLay, c2mBasicSize_eq, Sc.size_pos]
  have hnq : ((c2mLay (.arr n (.sc s))).size + 7) / 8 = 1 := by
    rw [hsz]
    have : 0 < n * (c2mLay (.sc s)).size := Nat.mul_pos hn hpos
    omega
  unfold c2mClassify
  simp only [hnq]
  cases s <;> first | exact absurd rfl hs | rfl

/-! ### the main induction -/

theorem arr1_eq (sub : List Cls) (nq : Nat) (h : sub.length = nq) (h2 : nq ≤ 2) (h0 : 0 < nq) :
    (List.range nq).map (fun i => c2mMerge .no sub[i % sub.length]!)
      = placeSub (List.replicate nq .no) sub 0 := by
  match sub, h with
  | [], h => simp at h; omega
  | [a], h => subst h; cases a <;> rfl
  | [a, b], h => subst h; cases a <;> cases b <;> rfl
  | _ :: _ :: _ :: _, h => simp at h; omega

theorem arr2_eq (a : Cls) :
    (List.range 2).map (fun i => c2mMerge .no [a][i % 1]!)
      = placeSub (placeSub (List.replicate 2 .no) [a] 0) [a] 1 := by
  cases a <;> rfl

theorem member_step (t : CTy) (p : Place) (nq : Nat) (types : List Cls)
    (hw : t.wf = true) (hlen : types.length = nq)
    (hal : p.unit % (c2mLay t).align = 0)
    (hcond : (isSc t || p.unit % 8 == 0
      || (smallScArr t && decide (p.unit % 8 + (c2mLay t).size ≤ 8))) = true)
    (ih : p.unit % 8 = 0 → c2mClassify t = sysvCls c2mLay t 0) :
    (match c2mClassify t with
      | none => none
      | some sub =>
        if sub.length = 0 then none
        else some (mergeSub sub (p.unit / 8)
          ((p.unit + (c2mLay t).size - 1) / 8 - p.unit / 8 + 1) nq types))
    = (match sysvCls c2mLay t ((0 + p.unit) % 8) with
      | none => none
      | some sub => some (placeSub types sub ((0 + p.unit) / 8))) := by
  have hpos := c2mLay_size_pos t hw
  simp only [Nat.zero_add]
  by_cases h1 : isSc t = true
  · -- scalar member
    cases t with
    | sc s =>
      rw [← cls_sc c2mLay s (p.unit % 8)]
      cases hs : c2mClassify (.sc s) with
      | none => cases s <;> simp [c2mClassify] at hs
      | some sub =>
        have hl := c2mClassify_length _ _ hs
        have hl0 : sub.length ≠ 0 := by rw [hl]; omega
        simp only [hl0, if_false]
        rw [mergeSub_eq_placeSub _ _ _ _ _ (sc_span s p.unit hal sub hs) hlen]
    | arr n e => simp [isSc] at h1
    | agg u ms => simp [isSc] at h1
  · by_cases h2 : p.unit % 8 = 0
    · -- eightbyte-aligned member
      rw [h2, ← ih h2]
      cases hs : c2mClassify t with
      | none => rfl
      | some sub =>
        have hl := c2mClassify_length _ _ hs
        have hl0 : sub.length ≠ 0 := by rw [hl]; omega
        simp only [hl0, if_false]
        rw [mergeSub_eq_placeSub _ _ _ _ _ (by rw [hl]; omega) hlen]
    · -- small array of scalars inside one eightbyte
      simp [h1, h2] at hcond
      obtain ⟨hsm, hfit⟩ := hcond
      cases t with
      | sc s => simp [smallScArr] at hsm
      | agg u ms => simp [smallScArr] at hsm
      | arr n e =>
        cases e with
        | arr _ _ => simp [smallScArr] at hsm
        | agg _ _ => simp [smallScArr] at hsm
        | sc s =>
          simp [smallScArr] at hsm
          simp [CTy.wf] at hw
          have hsz := c2mLay_arr_size n (.sc s)
          have hpos1 : 0 < (c2mLay (.sc s)).size := by simp [c2mLay, c2mBasicSize_eq, Sc.size_pos]
          rw [hsz] at hfit hpos
          rw [c2mClassify_small_arr s hsm n hw (by omega),
            sysvCls_small_arr c2mLay s hsm n (p.unit % 8) hw hsz (by omega) hpos1]
          simp only [List.length_singleton, if_false, Nat.one_ne_zero]
          rw [mergeSub_eq_placeSub _ _ _ _ _ (by simp; rw [hsz]; omega) hlen]

theorem Option.match_some_bind {α β : Type} (o : Option α) (f : α → Option β) :
    (match o with | none => none | some x => f x) = o.bind f := by
  cases o <;> rfl

mutual
/-- `class_meets_sysv_partial`, on the code's own layout -/
theorem cls_eq : ∀ t : CTy, t.wf = true → t.noBf = true → clsAligned t = true →
    c2mClassify t = sysvCls c2mLay t 0
  | .sc s, _, _, _ => cls_sc c2mLay s 0
  | .arr n t, hw, hn, ha => by
    simp [CTy.wf] at hw
    simp [CTy.noBf] at hn
    simp [clsAligned, arrOk] at ha
    obtain ⟨hat, hok⟩ := ha
    by_cases hsc : isSc t = true
    · cases t with
      | sc s => exact cls_arr_sc s n
      | arr _ _ => simp [isSc] at hsc
      | agg _ _ => simp [isSc] at hsc
    · have ih := cls_eq t hw.2 hn hat
      have hsz := c2mLay_arr_size n t
      have hpos := c2mLay_size_pos t hw.2
      unfold c2mClassify sysvCls
      simp only [Nat.add_zero]
      by_cases hnq : ((c2mLay (.arr n t)).size + 7) / 8 > 2
      · simp [hnq]
      · simp only [hnq, if_false]
        rw [hsz] at hnq ⊢
        by_cases h1 : n = 1
        · subst h1
          simp only [List.range_succ, List.range_zero, List.nil_append, List.foldl_cons,
            List.foldl_nil, Nat.zero_mul, Nat.add_zero, Nat.zero_mod, Nat.zero_div, ← ih]
          cases hs : c2mClassify t with
          | none => rfl
          | some sub =>
            have hl := c2mClassify_length _ _ hs
            have hl0 : sub.length ≠ 0 := by rw [hl]; omega
            simp only [hl0, if_false, Option.bind_some, c2mPost_eq, Nat.one_mul] at hnq ⊢
            rw [arr1_eq sub _ hl (by omega) (by omega)]
        · -- element size is a multiple of 8: two elements of 8 bytes
          simp [h1, hsc] at hok
          have hn2 : 2 ≤ n := by omega
          have h8 : 8 ≤ (c2mLay t).size := by omega
          have hmul : 2 * 8 ≤ n * (c2mLay t).size := Nat.mul_le_mul hn2 h8
          have hle : n * (c2mLay t).size ≤ 16 := by omega
          have hn' : n = 2 := by
            by_cases h3 : 3 ≤ n
            · have : 3 * 8 ≤ n * (c2mLay t).size := Nat.mul_le_mul h3 h8
              omega
            · omega
          subst hn'
          have hs8 : (c2mLay t).size = 8 := by omega
          simp only [hs8, List.range_succ, List.range_zero, List.nil_append, List.foldl_cons,
            List.foldl_nil, Nat.zero_mul, Nat.add_zero, Nat.zero_mod, Nat.zero_div, Nat.one_mul,
            List.append_nil, List.cons_append, Nat.mod_self, Nat.div_self, ← ih]
          cases hs : c2mClassify t with
          | none => rfl
          | some sub =>
            have hl := c2mClassify_length _ _ hs
            rw [hs8] at hl
            match sub, hl with
            | [a], _ =>
              simp only [List.length_singleton, Nat.one_ne_zero, if_false, Option.bind_some, c2mPost_eq]
              have := arr2_eq a
              simp only [List.range_succ, List.range_zero, List.nil_append, List.cons_append,
                List.length_singleton] at this
              rw [this]
            | [], hl => simp at hl
            | _ :: _ :: _, hl => simp at hl
  | .agg u ms, hw, hn, ha => by
    simp [CTy.wf] at hw
    simp [CTy.noBf] at hn
    simp [clsAligned] at ha
    obtain ⟨l, h1, h2, _⟩ := c2mFold_out u ms {} hw.2
    have hmems : (c2mLay (.agg u ms)).mems = l := by simp [c2mLay, h1]
    unfold c2mClassify sysvCls
    simp only [Nat.add_zero]
    by_cases hnq : ((c2mLay (.agg u ms)).size + 7) / 8 > 2
    · simp [hnq]
    · simp only [hnq, if_false]
      rw [clsMems_eq u ms _ _ _ hw.2 hn ha (by rw [hmems]; exact h2) (by simp), c2mPost_eq]
      generalize sysvClsMems c2mLay u ms (c2mLay (CTy.agg u ms)).mems 0
        (List.replicate (((c2mLay (CTy.agg u ms)).size + 7) / 8) Cls.no) = o
      cases o <;> rfl
/-- the member loops agree -/
theorem clsMems_eq : ∀ (u : Bool) (ms : Mems) (ps : List Place) (nq : Nat) (types : List Cls),
    ms.wf = true →
    ms.noBf = true → clsAlignedMems ms ps = true → unitsAligned ms ps = true → types.length = nq →
    c2mClsMems ms ps nq types = sysvClsMems c2mLay u ms ps 0 types
  | u, .nil, ps, nq, types, _, _, _, _, _ => by simp [c2mClsMems, sysvClsMems]
  | u, .cons k t r, [], nq, types, _, _, _, _, _ => by simp [c2mClsMems, sysvClsMems]
  | u, .cons k t r, p :: ps, nq, types, hw, hn, ha, hu, hlen => by
    simp [Mems.wf] at hw
    have hk : ∀ w nm, k ≠ .bf w nm := by
      intro w nm h; subst h; simp [Mems.noBf] at hn
    have hn' : t.noBf = true ∧ r.noBf = true := by
      cases k <;> simp_all [Mems.noBf]
    simp [clsAlignedMems] at ha
    simp [unitsAligned] at hu
    have hstep := member_step t p nq types hw.1.1 hlen hu.1
      (by simpa [Bool.or_eq_true, Bool.and_eq_true] using ha.1.1)
      (fun _ => cls_eq t hw.1.1 hn'.1 ha.1.2)
    unfold c2mClsMems sysvClsMems
    cases k with
    | bf w nm => exact absurd rfl (hk w nm)
    | plain =>
      simp only
      cases hc : c2mClassify t with
      | none =>
        rw [hc] at hstep
        simp only at hstep
        cases hs : sysvCls c2mLay t ((0 + p.unit) % 8) with
        | none => rfl
        | some sub => rw [hs] at hstep; cases hstep
      | some sub =>
        rw [hc] at hstep
        simp only at hstep
        by_cases hl0 : sub.length = 0
        · simp only [hl0, if_true] at hstep ⊢
          cases hs : sysvCls c2mLay t ((0 + p.unit) % 8) with
          | none => rfl
          | some sub' => rw [hs] at hstep; cases hstep
        · simp only [hl0, if_false] at hstep ⊢
          cases hs : sysvCls c2mLay t ((0 + p.unit) % 8) with
          | none => rw [hs] at hstep; cases hstep
          | some sub' =>
            rw [hs] at hstep
            simp only [Option.some.injEq] at hstep
            rw [hstep]
            exact clsMems_eq u r ps nq _ hw.2 hn'.2 ha.2 hu.2 (by rw [placeSub_length]; exact hlen)
    | anon =>
      simp only
      cases hc : c2mClassify t with
      | none =>
        rw [hc] at hstep
        simp only at hstep
        cases hs : sysvCls c2mLay t ((0 + p.unit) % 8) with
        | none => rfl
        | some sub => rw [hs] at hstep; cases hstep
      | some sub =>
        rw [hc] at hstep
        simp only at hstep
        by_cases hl0 : sub.length = 0
        · simp only [hl0, if_true] at hstep ⊢
          cases hs : sysvCls c2mLay t ((0 + p.unit) % 8) with
          | none => rfl
          | some sub' => rw [hs] at hstep; cases hstep
        · simp only [hl0, if_false] at hstep ⊢
          cases hs : sysvCls c2mLay t ((0 + p.unit) % 8) with
          | none => rw [hs] at hstep; cases hstep
          | some sub' =>
            rw [hs] at hstep
            simp only [Option.some.injEq] at hstep
            rw [hstep]
            exact clsMems_eq u r ps nq _ hw.2 hn'.2 ha.2 hu.2 (by rw [placeSub_length]; exact hlen)
end

/-! ### the specification on the code's layout and on the psABI layout -/

mutual
theorem sysvCls_congr : ∀ (t : CTy) (p : Nat), t.wf = true → t.noBf = true →
    sysvCls c2mLay t p = sysvCls sysvLay t p
  | .sc s, p, _, _ => by unfold sysvCls; rfl
  | .arr n t, p, hw, hn => by
    have h1 := (lay_eq_noBf (.arr n t) hw hn).1
    simp [CTy.wf] at hw
    simp [CTy.noBf] at hn
    have h2 := (lay_eq_noBf t hw.2 hn).1
    have ih : ∀ q, sysvCls c2mLay t q = sysvCls sysvLay t q := fun q => sysvCls_congr t q hw.2 hn
    unfold sysvCls
    simp only [h1, h2, ih]
  | .agg u ms, p, hw, hn => by
    have h1 := (lay_eq_noBf (.agg u ms) hw hn).1
    simp [CTy.wf] at hw
    simp [CTy.noBf] at hn
    unfold sysvCls
    simp only [h1, sysvClsMems_congr u ms _ p _ hw.2 hn]
theorem sysvClsMems_congr : ∀ (u : Bool) (ms : Mems) (ps : List Place) (p : Nat) (types : List Cls),
    ms.wf = true → ms.noBf = true →
    sysvClsMems c2mLay u ms ps p types = sysvClsMems sysvLay u ms ps p types
  | u, .nil, ps, p, types, _, _ => by simp [sysvClsMems]
  | u, .cons k t r, [], p, types, _, _ => by simp [sysvClsMems]
  | u, .cons k t r, pl :: ps, p, types, hw, hn => by
    simp [Mems.wf] at hw
    have hk : ∀ w nm, k ≠ .bf w nm := by
      intro w nm h; subst h; simp [Mems.noBf] at hn
    have hn' : t.noBf = true ∧ r.noBf = true := by
      cases k <;> simp_all [Mems.noBf]
    have ih := sysvCls_congr t ((p + pl.unit) % 8) hw.1.1 hn'.1
    have ihr : ∀ ty, sysvClsMems c2mLay u r ps p ty = sysvClsMems sysvLay u r ps p ty :=
      fun ty => sysvClsMems_congr u r ps p ty hw.2 hn'.2
    unfold sysvClsMems
    cases k with
    | bf w nm => exact absurd rfl (hk w nm)
    | plain => simp only [ih, ihr]
    | anon => simp only [ih, ihr]
end

/-- `class_meets_sysv_partial` -/
theorem class_eq (t : CTy) (hw : t.wf = true) (hn : t.noBf = true) (ha : clsAligned t = true) :
    (c2mClassify t).getD [.mem] = sysvClass sysvLay t := by
  unfold sysvClass
  rw [cls_eq t hw hn ha, sysvCls_congr t 0 hw hn]
  cases sysvCls sysvLay t 0 <;> rfl

end MirVerif.Classify
