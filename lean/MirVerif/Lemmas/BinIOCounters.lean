import MirVerif.Model.BinIOCounters
namespace BinIO

theorem bump_ge (c : Nat) (pre : List Nat) (n : Name) : c ≤ bump c pre n := by
  unfold bump; split
  · exact Nat.le_max_left _ _
  · exact Nat.le_refl _

theorem foldl_bump_ge (pre : List Nat) (names : List Name) (c : Nat) :
    c ≤ names.foldl (fun c n => bump c pre n) c := by
  induction names generalizing c with
  | nil => exact Nat.le_refl _
  | cons a l ih => exact Nat.le_trans (bump_ge c pre a) (ih _)

theorem foldl_bump_covers (pre : List Nat) (names : List Name) (c : Nat) (n : Name) (k : Nat)
    (h : n ∈ names) (hk : reservedNum pre n = some k) :
    k ≤ names.foldl (fun c n => bump c pre n) c := by
  induction names generalizing c with
  | nil => cases h
  | cons a l ih =>
    rcases List.mem_cons.mp h with rfl | h'
    · have : k ≤ bump c pre n := by
        unfold bump; rw [hk]; exact Nat.le_max_right _ _
      exact Nat.le_trans this (foldl_bump_ge pre l _)
    · exact ih _ h'

end BinIO
