import MirVerif.Lemmas.HtabScan
import MirVerif.Lemmas.HtabList
/-!
The table invariant `WF` of the HTAB model, what `lookup` results mean under it, and its
preservation by the three in-place updates performed by `HTAB_DO`
(store a new element / overwrite the element of a slot / turn a slot into a tombstone).
-/
namespace MirVerif.Htab

variable {α : Type}

/-- what the user must guarantee about `eq_func` and `hash_func` (mir-htab.h does not say so, every
use in MIR satisfies it): `eq` is symmetric and transitive and equal elements hash equally.
(Reflexivity is not needed.) -/
structure Laws (hf : α → Nat) (eq : α → α → Bool) : Prop where
  symm : ∀ a b, eq a b = true → eq b a = true
  trans : ∀ a b c, eq a b = true → eq b c = true → eq a c = true
  hash : ∀ a b, eq a b = true → hashOf hf a = hashOf hf b

/-- the table invariant -/
structure WF (hf : α → Nat) (eq : α → α → Bool) (t : Tab α) : Prop where
  /-- `els_size` is a power of two, at least 2 -/
  cap_pow : ∃ k, 1 ≤ k ∧ t.cap = 2 ^ k
  /-- `HTAB_ASSERT (els_size * 2 == size)` -/
  ent_len : t.entries.length = 2 * t.cap
  /-- `els_bound ≤ els_size` -/
  els_le : t.els.length ≤ t.cap
  /-- `els_num` counts the live elements -/
  num_eq : t.num = (contents t).length
  /-- every non-empty entry was paid for by one element slot: `#non-empty ≤ els_bound` -/
  empties : t.entries.length ≤ t.entries.count .empty + t.els.length
  /-- index entries point to live elements -/
  idx_ok : ∀ (p i : Nat), ent t p = .idx i → ∃ e : El α, t.els[i]? = some e ∧ e.hash ≠ 0
  /-- no element is referenced twice -/
  idx_inj : ∀ (p q i : Nat), ent t p = .idx i → ent t q = .idx i → p = q
  /-- every live element is referenced -/
  has_slot : ∀ (i : Nat) (e : El α), t.els[i]? = some e → e.hash ≠ 0 → ∃ p, ent t p = .idx i
  /-- the stored hash is the (remapped) hash of the stored element -/
  hash_ok : ∀ (i : Nat) (e : El α), t.els[i]? = some e → e.hash ≠ 0 → e.hash = hashOf hf e.el
  /-- no two live elements are equal -/
  distinct : ∀ (i j : Nat) (ei ej : El α), t.els[i]? = some ei → t.els[j]? = some ej →
      ei.hash ≠ 0 → ej.hash ≠ 0 → eq ei.el ej.el = true → i = j
  /-- the slot of a live element lies on the element's probe path and no empty slot precedes it
      (tombstones never cut a chain) -/
  reach : ∀ (p i : Nat) (e : El α), ent t p = .idx i → t.els[i]? = some e →
      ∃ pre post, path t.entries.length e.hash = pre ++ p :: post ∧ ∀ q ∈ pre, ent t q ≠ .empty

theorem hashOf_ne (hf : α → Nat) (x : α) : hashOf hf x ≠ 0 := by
  unfold hashOf; split <;> omega

theorem hashOf_lt (hf : α → Nat) (x : α) : hashOf hf x < 4294967296 := by
  unfold hashOf; split <;> omega

/-! ### entries -/

theorem ent_lt {t : Tab α} {p : Nat} (h : ent t p ≠ .empty) : p < t.entries.length := by
  rcases Nat.lt_or_ge p t.entries.length with hlt | hge
  · exact hlt
  · exfalso; apply h
    simp [ent, List.getD_eq_getElem?_getD, List.getElem?_eq_none hge]

theorem ent_of_entries {t t' : Tab α} {q : Nat} {s : Slot} (he : t'.entries = t.entries.set q s)
    (hq : q < t.entries.length) (r : Nat) : ent t' r = if r = q then s else ent t r := by
  unfold ent
  rw [he]
  by_cases hr : r = q
  · subst hr; simp [List.getD_eq_getElem?_getD, hq]
  · have : q ≠ r := fun h => hr h.symm
    simp [hr, List.getD_eq_getElem?_getD, List.getElem?_set_ne this]

theorem ent_replicate (t : Tab α) (n : Nat) (h : t.entries = List.replicate n .empty) (p : Nat) :
    ent t p = .empty := by
  unfold ent
  rw [h, List.getD_eq_getElem?_getD, List.getElem?_replicate]
  split <;> rfl

theorem wf_size_pos {hf : α → Nat} {eq : α → α → Bool} {t : Tab α} (hwf : WF hf eq t) :
    0 < t.entries.length := by
  obtain ⟨k, hk, hc⟩ := hwf.cap_pow
  have := hwf.ent_len
  have : 0 < 2 ^ k := Nat.pos_of_ne_zero (by simp)
  omega

/-- the table always has an empty slot -/
theorem wf_has_empty {hf : α → Nat} {eq : α → α → Bool} {t : Tab α} (hwf : WF hf eq t) :
    ∃ p, p < t.entries.length ∧ ent t p = .empty := by
  have h1 := hwf.empties
  have h2 := hwf.els_le
  have h3 := hwf.ent_len
  have h4 := wf_size_pos hwf
  have hpos : 0 < t.entries.count .empty := by omega
  have hm := List.count_pos_iff.mp hpos
  obtain ⟨p, hp, hpe⟩ := List.mem_iff_getElem.mp hm
  refine ⟨p, hp, ?_⟩
  simp [ent, List.getD_eq_getElem?_getD, hp, hpe]

/-! ### meaning of the three results of `lookup` -/

theorem lookup_found {hf : α → Nat} {eq : α → α → Bool} {t : Tab α} {x : α} {p i c : Nat}
    {e : El α} (h : lookup hf eq t x = .found p i e c) :
    ent t p = .idx i ∧ t.els[i]? = some e ∧ e.hash = hashOf hf x ∧ eq e.el x = true := by
  rw [lookup_eq_scanL] at h; exact scanL_found h

/-- a live element equal to `x` is found -/
theorem live_found {hf : α → Nat} {eq : α → α → Bool} (laws : Laws hf eq) {t : Tab α}
    (hwf : WF hf eq t) {x : α} {i : Nat} {e : El α} (hi : t.els[i]? = some e) (hl : e.hash ≠ 0)
    (hx : eq e.el x = true) : ∃ p' i' e' c', lookup hf eq t x = .found p' i' e' c' := by
  obtain ⟨p, hp⟩ := hwf.has_slot i e hi hl
  obtain ⟨pre, post, hpath, hpre⟩ := hwf.reach p i e hp hi
  have hh : e.hash = hashOf hf x := by rw [hwf.hash_ok i e hi hl, laws.hash _ _ hx]
  rw [lookup_eq_scanL, ← hh, hpath]
  exact scanL_reaches hpre hp hi rfl hx none 0

theorem lookup_absent_no_live {hf : α → Nat} {eq : α → α → Bool} (laws : Laws hf eq) {t : Tab α}
    (hwf : WF hf eq t) {x : α} {p c : Nat} {ld : Option Nat}
    (h : lookup hf eq t x = .absent p ld c) :
    ∀ (i : Nat) (e : El α), t.els[i]? = some e → e.hash ≠ 0 → eq e.el x = false := by
  intro i e hi hl
  cases hx : eq e.el x with
  | false => rfl
  | true =>
    obtain ⟨p', i', e', c', hf'⟩ := live_found laws hwf hi hl hx
    rw [hf'] at h; cases h

/-- the slot chosen for a new element -/
theorem lookup_absent_slot {hf : α → Nat} {eq : α → α → Bool} {t : Tab α}
    (hwf : WF hf eq t) {x : α} {p c : Nat} {ld : Option Nat}
    (h : lookup hf eq t x = .absent p ld c) :
    ld.getD p < t.entries.length ∧ (ent t (ld.getD p) = .empty ∨ ent t (ld.getD p) = .deleted) ∧
    ∃ pre post, path t.entries.length (hashOf hf x) = pre ++ ld.getD p :: post ∧
      ∀ r ∈ pre, ent t r ≠ .empty := by
  rw [lookup_eq_scanL] at h
  obtain ⟨pre, post, hpath, hpe, hpre, hld⟩ := scanL_absent h
  have hp_lt : p < t.entries.length := path_lt _ _ (wf_size_pos hwf) p (by rw [hpath]; simp)
  rcases hld with rfl | ⟨q, hqm, rfl, hqd⟩
  · exact ⟨hp_lt, Or.inl hpe, pre, post, hpath, hpre⟩
  · obtain ⟨s1, s2, hs⟩ := List.append_of_mem hqm
    show q < _ ∧ (ent t q = _ ∨ ent t q = _) ∧ ∃ pre post, _ = pre ++ q :: post ∧ _
    refine ⟨ent_lt (by rw [hqd]; simp), Or.inr hqd, s1, s2 ++ p :: post, ?_, ?_⟩
    · rw [hpath, hs]; simp
    · intro r hr; exact hpre r (by rw [hs]; simp [hr])

end MirVerif.Htab
