import MirVerif.Lemmas.SectionLink
/-! Lemmas about `reloadLoop` (`MIR_load_module` on an already loaded module). -/

namespace MirVerif.Section

/-- entry `z` of the reload loop writes the byte at offset `x` of section `s` -/
def rcovers (z : Item × Option Placement) (s x : Nat) : Prop :=
  ∃ p, z.2 = some p ∧ p.sec = s ∧ p.off ≤ x ∧ x < p.off + (loadCells z.1).length

theorem reloadLoop_cons (z : Item × Option Placement) (zs : List (Item × Option Placement)) (g : GMem) :
    ∃ g', reloadLoop (z :: zs) g = reloadLoop zs g' := by
  obtain ⟨it, op⟩ := z
  cases op with
  | none => exact ⟨g, by simp [reloadLoop]⟩
  | some p => exact ⟨setSec g p.sec (writeCells (g p.sec) p.off (loadCells it)), by simp only [reloadLoop]⟩

/-- bytes no entry covers are unchanged by a second load -/
theorem reloadLoop_frame (zs : List (Item × Option Placement)) (g : GMem) (s x : Nat)
    (h : ∀ z ∈ zs, ¬ rcovers z s x) : reloadLoop zs g s x = g s x := by
  induction zs generalizing g with
  | nil => rfl
  | cons z zs ih =>
    have hrest : ∀ z' ∈ zs, ¬ rcovers z' s x := fun z' hz' => h z' (List.mem_cons_of_mem _ hz')
    obtain ⟨it, op⟩ := z
    cases op with
    | none => simp only [reloadLoop]; exact ih _ hrest
    | some p =>
      simp only [reloadLoop]
      rw [ih _ hrest]
      simp only [setSec]
      split
      · rename_i hs
        simp only [writeCells]
        split
        · rename_i hx
          exact absurd ⟨p, rfl, hs.symm, hx.1, hx.2⟩ (h (it, some p) (List.mem_cons_self ..))
        · rw [hs]
      · rfl

/-- a byte covered by exactly one entry holds that entry's cell afterwards, whatever was there before -/
theorem reloadLoop_unique (zs : List (Item × Option Placement)) (g : GMem) (s x : Nat) (it : Item)
    (p : Placement) (hmem : (it, some p) ∈ zs) (hs : p.sec = s) (hlo : p.off ≤ x)
    (hhi : x < p.off + (loadCells it).length)
    (huniq : ∀ z ∈ zs, rcovers z s x → z = (it, some p)) :
    reloadLoop zs g s x = (loadCells it).getD (x - p.off) .undef := by
  induction zs generalizing g with
  | nil => simp at hmem
  | cons z zs ih =>
    have huniq' : ∀ z' ∈ zs, rcovers z' s x → z' = (it, some p) :=
      fun z' hz' => huniq z' (List.mem_cons_of_mem _ hz')
    by_cases hz : z = (it, some p)
    · subst hz
      by_cases hin : (it, some p) ∈ zs
      · obtain ⟨g', hg'⟩ := reloadLoop_cons (it, some p) zs g
        rw [hg']; exact ih _ hin huniq'
      · simp only [reloadLoop]
        rw [reloadLoop_frame zs _ s x (fun z' hz' hcov => hin (huniq' z' hz' hcov ▸ hz'))]
        simp only [setSec, hs, if_true, writeCells]
        rw [if_pos ⟨hlo, hhi⟩]
    · have hin : (it, some p) ∈ zs := by
        rcases List.mem_cons.1 hmem with h | h
        · exact absurd h.symm hz
        · exact h
      obtain ⟨g', hg'⟩ := reloadLoop_cons z zs g
      rw [hg']; exact ih _ hin huniq'

end MirVerif.Section
