import MirVerif.Model.Bitmap
/-! Basic lemmas about the bitmap model: word access, the abstraction `mem`, single-bit and range
operations, copy / equal / intersect / empty. -/
namespace MirVerif.Bitmap

theorem bit_eq (w : Word) (s : Nat) : bit w s = w.getLsbD s := by
  unfold bit
  rw [Bool.eq_iff_iff]
  simp only [bne_iff_ne, ne_eq]
  constructor
  · intro h
    apply Decidable.byContradiction; intro hc
    apply h
    ext j hj
    simp [BitVec.getElem_and, BitVec.getElem_ushiftRight]
    intro h1 h2
    subst h2
    simp_all
  · intro h hc
    have := congrArg (fun x => x.getLsbD 0) hc
    simp [h] at this

theorem word_ne_zero_iff (w : Word) : w ≠ 0#64 ↔ ∃ j, j < 64 ∧ w.getLsbD j = true := by
  constructor
  · intro h
    apply Decidable.byContradiction; intro hc
    apply h
    apply BitVec.eq_of_getLsbD_eq
    intro j hj
    simp only [BitVec.getLsbD_zero]
    cases hb : w.getLsbD j
    · rfl
    · exact absurd ⟨j, hj, hb⟩ hc
  · rintro ⟨j, _, h⟩ hc
    subst hc
    simp at h

theorem word_eq_zero_iff (w : Word) : w = 0#64 ↔ ∀ j, w.getLsbD j = false := by
  constructor
  · intro h j; subst h; simp
  · intro h
    apply BitVec.eq_of_getLsbD_eq
    intro j _; simp [h j]

/-! ### word access -/

@[simp] theorem wget_nil (i : Nat) : wget [] i = 0#64 := by simp [wget]
@[simp] theorem wget_cons_zero (w : Word) (r : Bm) : wget (w :: r) 0 = w := by simp [wget]
@[simp] theorem wget_cons_succ (w : Word) (r : Bm) (i : Nat) : wget (w :: r) (i + 1) = wget r i := by
  simp [wget]

theorem wget_of_ge (bm : Bm) (i : Nat) (h : bm.length ≤ i) : wget bm i = 0#64 := by
  simp [wget, List.getD_eq_getElem?_getD, List.getElem?_eq_none h]

theorem wget_of_lt (bm : Bm) (i : Nat) (h : i < bm.length) : wget bm i = bm[i] := by
  simp [wget, List.getD_eq_getElem?_getD, List.getElem?_eq_getElem h]

@[simp] theorem length_expand (bm : Bm) (nb : Nat) :
    (expand bm nb).length = max bm.length ((nb + 63) / 64) := by
  simp [expand]; omega

@[simp] theorem wget_expand (bm : Bm) (nb i : Nat) : wget (expand bm nb) i = wget bm i := by
  simp only [wget, expand, List.getD_eq_getElem?_getD, List.getElem?_append]
  split
  · rfl
  · rename_i h
    rw [List.getElem?_eq_none (Nat.le_of_not_lt h)]
    simp [List.getElem?_replicate]
    split <;> rfl

theorem wget_set (bm : Bm) (k i : Nat) (v : Word) :
    wget (bm.set k v) i = if i = k ∧ k < bm.length then v else wget bm i := by
  simp only [wget, List.getD_eq_getElem?_getD, List.getElem?_set]
  by_cases h1 : k = i
  · subst h1
    by_cases h2 : k < bm.length
    · simp [h2]
    · simp [h2]
  · have : ¬ i = k := fun h => h1 h.symm
    simp [h1, this]

theorem wget_take (bm : Bm) (n i : Nat) : wget (bm.take n) i = if i < n then wget bm i else 0#64 := by
  simp only [wget, List.getD_eq_getElem?_getD, List.getElem?_take]
  split <;> simp

theorem wget_drop (bm : Bm) (n i : Nat) : wget (bm.drop n) i = wget bm (n + i) := by
  simp [wget, List.getD_eq_getElem?_getD, List.getElem?_drop]

theorem bm_ext (a b : Bm) (hl : a.length = b.length) (h : ∀ k, wget a k = wget b k) : a = b := by
  apply List.ext_getElem hl
  intro i h1 h2
  have := h i
  rwa [wget_of_lt _ _ h1, wget_of_lt _ _ h2] at this

theorem all_zero_iff (bm : Bm) : bm.all (· == 0#64) = true ↔ ∀ k, wget bm k = 0#64 := by
  induction bm with
  | nil => simp
  | cons w r ih =>
    simp only [List.all_cons, Bool.and_eq_true, beq_iff_eq, ih]
    constructor
    · rintro ⟨h1, h2⟩ k
      cases k with
      | zero => simpa using h1
      | succ k => simpa using h2 k
    · intro h
      exact ⟨by simpa using h 0, fun k => by simpa using h (k + 1)⟩

theorem any_ne_zero_iff (bm : Bm) : bm.any (· != 0#64) = true ↔ ∃ k, wget bm k ≠ 0#64 := by
  constructor
  · intro h
    rw [List.any_eq_true] at h
    obtain ⟨x, hx, hne⟩ := h
    obtain ⟨k, hk, rfl⟩ := List.getElem_of_mem hx
    exact ⟨k, by rw [wget_of_lt _ _ hk]; simpa using hne⟩
  · rintro ⟨k, hk⟩
    rw [List.any_eq_true]
    have hlt : k < bm.length := by
      apply Decidable.byContradiction; intro hc
      exact hk (wget_of_ge _ _ (Nat.le_of_not_lt hc))
    refine ⟨bm[k], List.getElem_mem hlt, ?_⟩
    rw [wget_of_lt _ _ hlt] at hk
    simpa using hk

/-! ### the abstraction -/

theorem mem_lt (bm : Bm) (i : Nat) (h : mem bm i = true) : i < 64 * bm.length := by
  apply Decidable.byContradiction; intro hc
  have : bm.length ≤ i / 64 := by omega
  simp [mem, wget_of_ge _ _ this] at h

@[simp] theorem mem_expand (bm : Bm) (nb i : Nat) : mem (expand bm nb) i = mem bm i := by
  simp [mem]

@[simp] theorem mem_nil (i : Nat) : mem [] i = false := by simp [mem]

theorem mem_cons_lt (w : Word) (r : Bm) (j : Nat) (h : j < 64) : mem (w :: r) j = w.getLsbD j := by
  have h1 : j / 64 = 0 := by omega
  have h2 : j % 64 = j := by omega
  simp [mem, h1, h2]

theorem mem_cons_add (w : Word) (r : Bm) (i : Nat) : mem (w :: r) (64 + i) = mem r i := by
  have h1 : (64 + i) / 64 = i / 64 + 1 := by omega
  have h2 : (64 + i) % 64 = i % 64 := by omega
  simp [mem, h1, h2]

/-- two bitmaps denote the same set iff they agree word-wise (lengths may differ by zero words) -/
theorem mem_ext_iff (a b : Bm) : (∀ i, mem a i = mem b i) ↔ ∀ k, wget a k = wget b k := by
  constructor
  · intro h k
    apply BitVec.eq_of_getLsbD_eq
    intro j hj
    have := h (64 * k + j)
    have h1 : (64 * k + j) / 64 = k := by omega
    have h2 : (64 * k + j) % 64 = j := by omega
    simpa [mem, h1, h2] using this
  · intro h i
    simp [mem, h]

theorem bitP_eq (bm : Bm) (nb : Nat) : bitP bm nb = mem bm nb := by
  unfold bitP
  split
  · rename_i h
    have : bm.length ≤ nb / 64 := by omega
    simp [mem, wget_of_ge _ _ this]
  · simp [mem, bit_eq]

@[simp] theorem mem_clear (bm : Bm) (i : Nat) : mem (clear bm) i = false := by simp [clear]

/-! ### single bits -/

theorem getLsbD_one_shl (s j : Nat) (hj : j < 64) :
    (1#64 <<< s).getLsbD j = decide (j = s) := by
  simp only [BitVec.getLsbD_shiftLeft, hj, decide_true, Bool.true_and, BitVec.getLsbD_one]
  by_cases h : j = s
  · subst h; simp
  · by_cases h2 : j < s
    · simp [h2, h]
    · have : ¬ (j - s = 0) := by omega
      simp [h2, h, this]

theorem setBit_mem (bm : Bm) (nb i : Nat) :
    mem (setBit bm nb).1 i = (mem bm i || i == nb) := by
  have hlen : nb / 64 < (expand bm (nb + 1)).length := by simp; omega
  have h4 : i % 64 < 64 := by omega
  simp only [setBit, mem, wget_set, hlen, and_true, wget_expand]
  by_cases h2 : i / 64 = nb / 64
  · simp only [h2, ite_true, BitVec.getLsbD_or, getLsbD_one_shl _ _ h4]
    congr 1
    by_cases h : i = nb
    · subst h; simp
    · have h3 : i % 64 ≠ nb % 64 := by omega
      simp [h, h3]
  · have h : i ≠ nb := fun h => h2 (by rw [h])
    simp [h2, h]

theorem setBit_flag (bm : Bm) (nb : Nat) : (setBit bm nb).2 = !mem bm nb := by
  simp [setBit, bit_eq, mem]

theorem clearBit_mem (bm : Bm) (nb i : Nat) :
    mem (clearBit bm nb).1 i = (mem bm i && i != nb) := by
  unfold clearBit
  split
  · rename_i hge
    by_cases h : i = nb
    · subst h
      have : bm.length ≤ i / 64 := by omega
      simp [mem, wget_of_ge _ _ this]
    · simp [h]
  · rename_i hlt
    have hlen : nb / 64 < bm.length := by omega
    have h4 : i % 64 < 64 := by omega
    simp only [mem, wget_set, hlen, and_true]
    by_cases h2 : i / 64 = nb / 64
    · simp only [h2, ite_true, BitVec.getLsbD_and, BitVec.getLsbD_not, h4, decide_true, Bool.true_and,
        getLsbD_one_shl _ _ h4]
      congr 1
      by_cases h : i = nb
      · subst h; simp
      · have h3 : i % 64 ≠ nb % 64 := by omega
        simp [h, h3]
    · have h : i ≠ nb := fun h => h2 (by rw [h])
      simp [h2, h]

theorem clearBit_flag (bm : Bm) (nb : Nat) : (clearBit bm nb).2 = mem bm nb := by
  unfold clearBit
  split
  · rename_i hge
    have : bm.length ≤ nb / 64 := by omega
    simp [mem, wget_of_ge _ _ this]
  · simp [bit_eq, mem]

end MirVerif.Bitmap
