import MirVerif.Lemmas.DupRestoreEdits
/-!
Helper lemmas for Props/C16.lean: printing is insensitive to what duplicate/restore change, the
edit invariant holds right after duplicate, and the combined effect of duplicate; edits; restore.
-/
namespace MirVerif.DupRestore

/-! ### auxiliary facts about printing -/

theorem printOp_agree {h h' : Heap} {f f' : Func} (op : Op)
    (hh : ∀ t, op = .lab (some t) → h' t = h t)
    (hr : ∀ r, lookupReg f' r = lookupReg f r) :
    printOp h' f' op = printOp h f op := by
  cases op with
  | lab p =>
    cases p with
    | none => rfl
    | some t => simp [printOp, printLabelRef, hh t rfl]
  | reg r => simp [printOp, regName, hr]
  | mem ty b i rest => simp [printOp, regName, hr]
  | other t => rfl

theorem printLabelRef_agree {h h' : Heap} (p : Option Nat)
    (hh : ∀ t, p = some t → h' t = h t) : printLabelRef h' p = printLabelRef h p := by
  cases p with
  | none => rfl
  | some t => simp [printLabelRef, hh t rfl]

/-- the register tables of `duplicate s` are those of `s` -/
theorem dup_tables (s : State) (hwf : WF s) :
    (duplicate s).func.vars = s.func.vars ∧ (duplicate s).func.regDescs = s.func.regDescs ∧
    (duplicate s).func.name2rdn = s.func.name2rdn ∧ (duplicate s).func.reg2rdn = s.func.reg2rdn ∧
    (duplicate s).func.nglobals = s.func.nglobals := by
  rw [(dup_spec s hwf).2.1]
  exact ⟨rfl, rfl, rfl, rfl, rfl⟩

theorem lookups_of_tables {f g : Func} (h1 : g.regDescs = f.regDescs)
    (h2 : g.name2rdn = f.name2rdn) (h3 : g.reg2rdn = f.reg2rdn) :
    (∀ n, lookupName g n = lookupName f n) ∧ (∀ r, lookupReg g r = lookupReg f r) := by
  constructor
  · intro n; simp [lookupName, findByName, rdNameAt, h1, h2]
  · intro n; simp [lookupReg, findByReg, rdRegAt, h1, h3]

/-- printing a remapped label pointer in the duplicated state gives the number of the old label -/
theorem printLabelRef_remap (s : State) (hwf : WF s) (p : Option Nat)
    (hp : PtrOK s.heap s.func.insns p) :
    printLabelRef (duplicate s).heap (remapPtr s.func.insns s.next p) = printLabelRef s.heap p := by
  obtain ⟨t, rfl, ht, insnT, hT, hkind⟩ := hp
  have hcopy := (dup_spec s hwf).2.2.2 _ t insnT (getElem?_idxOf_of_mem ht) hT
  have hno : ∀ (n : Nat) (p : Option Nat), insnT.ops[n]? ≠ some (Op.lab p) :=
    no_lab_of_not_branchLike (hwf.ops t ht insnT hT) (by rw [branchLike_label_false hkind]; simp)
  rw [map_remapOp_nolab hno] at hcopy
  simp [remapPtr, printLabelRef, hcopy, hT]

theorem mutInv_init (s : State) (hwf : WF s) : MutInv s.next (duplicate s) (duplicate s) := by
  obtain ⟨tv, td, tn, tr, tg⟩ := dup_tables s hwf
  have ht : TabInv (duplicate s).func := by
    constructor
    · rw [tn, td]; exact hwf.tabs.n2rLt
    · rw [tr, td]; exact hwf.tabs.r2rLt
    · have : List.map (rdNameAt (duplicate s).func) (duplicate s).func.name2rdn =
          List.map (rdNameAt s.func) s.func.name2rdn := by
        rw [tn]; apply List.map_congr_left; intro r _; simp [rdNameAt, td]
      rw [this]; exact hwf.tabs.namesNodup
    · have : List.map (rdRegAt (duplicate s).func) (duplicate s).func.reg2rdn =
          List.map (rdRegAt s.func) s.func.reg2rdn := by
        rw [tr]; apply List.map_congr_left; intro r _; simp [rdRegAt, td]
      rw [this]; exact hwf.tabs.regsNodup
  have hle : RegsLe (duplicate s).func := by
    intro r hr d hd
    rw [tr] at hr; rw [td] at hd; rw [tv, tg]
    exact hwf.regsLe r hr d hd
  exact ⟨fun _ _ => rfl, Nat.le_refl _, rfl, (by
      intro i hi
      rw [(dup_spec s hwf).2.1] at hi
      obtain ⟨k, _, rfl⟩ := List.mem_range'.mp hi
      omega), rfl, rfl, ht, hle,
    [], Ext.refl _⟩

/-- the complete effect of duplicate; legal edits; restore on the function record and the heap -/
theorem restore_core (s : State) (es : List Edit) (hwf : WF s)
    (hleg : ∀ e ∈ es, e.legal s.next) :
    (∀ i, i < s.next → (restore (mutateCopy (duplicate s) es)).heap i = s.heap i) ∧
    s.next ≤ (restore (mutateCopy (duplicate s) es)).next ∧
    ∃ extra ltn,
      (restore (mutateCopy (duplicate s) es)).func =
        { s.func with originalVarsNum := s.func.vars.length,
                      regDescs := s.func.regDescs ++ extra, lastTempNum := ltn } := by
  have inv := mutInv_fold es (duplicate s) (mutInv_init s hwf) hleg
  obtain ⟨hn, hfunc, hframe, _⟩ := dup_spec s hwf
  have hovn : (duplicate s).func.originalVarsNum = (duplicate s).func.vars.length := by
    rw [hfunc]
  obtain ⟨h1, h2, extra, h3⟩ := restore_spec inv hovn
  refine ⟨fun i hi => (h1 i hi).trans (hframe i hi), by omega, extra,
    (mutateCopy (duplicate s) es).func.lastTempNum, ?_⟩
  rw [h3]
  -- lrefs: the orig_label fields survive the edits and are what restore writes back
  have hl : (mutateCopy (duplicate s) es).func.lrefs.map restoreLref = s.func.lrefs := by
    have e1 : ∀ (l : List Lref), l.map restoreLref =
        (l.map origOf).map (fun p => ({ label := p.1, label2 := p.2, origLabel := none,
                                        origLabel2 := none } : Lref)) := by
      intro l; simp [List.map_map, Function.comp, restoreLref, origOf]
    rw [e1, inv.lrefs, hfunc]
    simp only [List.map_map]
    conv => rhs; rw [← List.map_id s.func.lrefs]
    apply List.map_congr_left
    intro r hr
    obtain ⟨_, _, ho1, ho2⟩ := hwf.lrefs r hr
    cases r
    simp_all [Function.comp, origOf, remapLref]
  have ho := hwf.orig
  rw [hl, hfunc]
  dsimp only
  rw [ho]


end MirVerif.DupRestore
