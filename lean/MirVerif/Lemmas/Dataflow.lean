import MirVerif.Model.Dataflow
/-! Invariant of the worklist solver (helper lemmas for `Props/C19/Dataflow.lean`). -/
namespace MirVerif.Dataflow

theorem mem_pushAll_of_mem (l : List Nat) : ∀ (p : List Nat) (x : Nat), x ∈ p → x ∈ pushAll p l := by
  induction l with
  | nil => intro p x h; simpa [pushAll] using h
  | cons a l ih =>
    intro p x h
    simp only [pushAll, List.foldl_cons]
    apply ih
    split
    · exact h
    · exact List.mem_append_left _ h

theorem mem_pushAll_of_mem_list (l : List Nat) : ∀ (p : List Nat) (x : Nat), x ∈ l → x ∈ pushAll p l := by
  induction l with
  | nil => intro p x h; cases h
  | cons a l ih =>
    intro p x h
    simp only [pushAll, List.foldl_cons]
    rcases List.mem_cons.mp h with rfl | h
    · apply mem_pushAll_of_mem
      split
      · assumption
      · simp
    · exact ih _ _ h

theorem conVal_congr {V : Type} (P : Problem V) (σ σ' : St V) (c : Nat)
    (h : ∀ a ∈ P.preds c, σ'.outt a = σ.outt a) : conVal P σ' c = conVal P σ c := by
  unfold conVal
  split
  · rfl
  · congr 1
    exact List.map_congr_left h

/-- what holds between two blocks of a pass: every block whose equations may be violated is still
    to be processed in this pass or already queued for the next one. -/
def Inv {V : Type} (P : Problem V) (first : Bool) (σ : St V) (todo pend : List Nat) : Prop :=
  ∀ c, c < P.n →
    (transOK P σ c ∨ (first = true ∧ c ∈ todo)) ∧
    (conOK P σ c ∨ (first = true ∧ c ∈ todo) ∨ (P.preds c ≠ [] ∧ (c ∈ todo ∨ c ∈ pend)))

/-- hypotheses on the problem: the edge lists are consistent and the flags never under-report -/
structure Exact {V : Type} (P : Problem V) : Prop where
  edge : ∀ a b, a ∈ P.preds b → b ∈ P.succs a
  cflag : ∀ o n, n ≠ o → P.cflag o n = true
  tflag : ∀ o n, n ≠ o → P.tflag o n = true

theorem step_inv {V : Type} (P : Problem V) (hx : Exact P) (first : Bool) (σ : St V) (b : Nat)
    (t p : List Nat) (hb : b < P.n) (hinv : Inv P first σ (b :: t) p) :
    Inv P first (step P first (σ, p) b).1 t (step P first (σ, p) b).2 := by
  intro c hcn
  obtain ⟨hA, hB⟩ := hinv c hcn
  simp only [step]
  generalize hnew : conVal P σ b = new
  by_cases hch : (first || (if P.preds b = [] then false else P.cflag (σ.inn b) new)) = true
  · simp only [hch, if_true]
    -- `in` and `out` of b are both rewritten
    have key : ∀ (pend' : List Nat), (∀ x, x ∈ p → x ∈ pend') →
        (P.f b new ≠ σ.outt b → ∀ x, x ∈ P.succs b → x ∈ pend') →
        let σ2 : St V := { inn := upd σ.inn b new, outt := upd σ.outt b (P.f b new) }
        (transOK P σ2 c ∨ (first = true ∧ c ∈ t)) ∧
        (conOK P σ2 c ∨ (first = true ∧ c ∈ t) ∨ (P.preds c ≠ [] ∧ (c ∈ t ∨ c ∈ pend'))) := by
      intro pend' hsub hsucc σ2
      have hcv : (b ∈ P.preds c ∧ P.f b new ≠ σ.outt b) ∨ conVal P σ2 c = conVal P σ c := by
        by_cases hbc : b ∈ P.preds c ∧ P.f b new ≠ σ.outt b
        · exact Or.inl hbc
        · right
          apply conVal_congr
          intro a ha
          show upd σ.outt b (P.f b new) a = σ.outt a
          by_cases hab : a = b
          · subst hab
            have : ¬ P.f a new ≠ σ.outt a := fun h => hbc ⟨ha, h⟩
            simp only [upd_same]
            exact Classical.not_not.mp this
          · exact upd_other _ _ _ _ hab
      by_cases hcb : c = b
      · subst hcb
        refine ⟨Or.inl ?_, ?_⟩
        · show upd σ.outt c (P.f c new) c = P.f c (upd σ.inn c new c)
          simp
        · rcases hcv with ⟨hbp, hne⟩ | heq
          · right; right
            refine ⟨?_, Or.inr (hsucc hne _ (hx.edge _ _ hbp))⟩
            intro h; rw [h] at hbp; cases hbp
          · left
            show upd σ.inn c new c = conVal P σ2 c
            rw [heq, hnew]; simp
      · have hint : σ2.inn c = σ.inn c := upd_other _ _ _ _ hcb
        have hout : σ2.outt c = σ.outt c := upd_other _ _ _ _ hcb
        refine ⟨?_, ?_⟩
        · rcases hA with h | ⟨hf, hm⟩
          · left; unfold transOK at *; rw [hint, hout]; exact h
          · right; exact ⟨hf, (List.mem_cons.mp hm).resolve_left hcb⟩
        · rcases hcv with ⟨hbp, hne⟩ | heq
          · right; right
            refine ⟨?_, Or.inr (hsucc hne _ (hx.edge _ _ hbp))⟩
            intro h; rw [h] at hbp; cases hbp
          · rcases hB with h | ⟨hf, hm⟩ | ⟨hp, hm⟩
            · left; unfold conOK at *; rw [hint, heq]; exact h
            · right; left; exact ⟨hf, (List.mem_cons.mp hm).resolve_left hcb⟩
            · right; right
              refine ⟨hp, ?_⟩
              rcases hm with hm | hm
              · exact Or.inl ((List.mem_cons.mp hm).resolve_left hcb)
              · exact Or.inr (hsub _ hm)
    by_cases htf : P.tflag (σ.outt b) (P.f b new) = true
    · simp only [htf, if_true]
      exact key _ (fun x hxp => mem_pushAll_of_mem _ _ _ hxp)
        (fun _ x hxs => mem_pushAll_of_mem_list _ _ _ hxs)
    · simp only [htf]
      refine key _ (fun x hxp => hxp) (fun hne => ?_)
      exact absurd (hx.tflag _ _ hne) htf
  · simp only [hch]
    -- neither flag fired: first = false and `in` of b keeps its value
    have hfirst : first = false := by
      cases first
      · rfl
      · simp at hch
    subst hfirst
    simp only [Bool.false_eq_true, ↓reduceIte]
    have hsame : upd σ.inn b new b = σ.inn b := by
      simp only [upd_same]
      by_cases hp : P.preds b = []
      · -- entry block: con_func_0 stores the value it stored on the first pass
        rcases (hinv b hb).2 with h | ⟨hf, _⟩ | ⟨hne, _⟩
        · unfold conOK at h; rw [h, hnew]
        · cases hf
        · exact absurd hp hne
      · have hcf : P.cflag (σ.inn b) new = false := by
          simpa [hp] using hch
        by_cases hno : new = σ.inn b
        · exact hno
        · have := hx.cflag _ _ hno
          rw [this] at hcf; cases hcf
    have hinn : ∀ x, upd σ.inn b new x = σ.inn x := by
      intro x
      by_cases hxb : x = b
      · subst hxb; exact hsame
      · exact upd_other _ _ _ _ hxb
    have hcvs : ∀ x, conVal P { inn := upd σ.inn b new, outt := σ.outt } x = conVal P σ x :=
      fun x => conVal_congr _ _ _ _ (fun _ _ => rfl)
    refine ⟨?_, ?_⟩
    · rcases hA with h | ⟨hf, _⟩
      · left; unfold transOK at *; show σ.outt c = P.f c (upd σ.inn b new c); rw [hinn]; exact h
      · cases hf
    · by_cases hcb : c = b
      · subst hcb
        left; unfold conOK; show upd σ.inn c new c = _; rw [hcvs, hnew]; simp
      · rcases hB with h | ⟨hf, _⟩ | ⟨hp, hm⟩
        · left; unfold conOK at *; show upd σ.inn b new c = _; rw [hinn, hcvs]; exact h
        · cases hf
        · right; right
          refine ⟨hp, ?_⟩
          rcases hm with hm | hm
          · exact Or.inl ((List.mem_cons.mp hm).resolve_left hcb)
          · exact Or.inr hm

theorem mem_pushAll (l : List Nat) : ∀ (p : List Nat) (x : Nat), x ∈ pushAll p l → x ∈ p ∨ x ∈ l := by
  induction l with
  | nil => intro p x h; left; simpa [pushAll] using h
  | cons a l ih =>
    intro p x h
    simp only [pushAll, List.foldl_cons] at h
    rcases ih _ _ h with h1 | h1
    · split at h1
      · exact Or.inl h1
      · rcases List.mem_append.mp h1 with h2 | h2
        · exact Or.inl h2
        · right; simp at h2; simp [h2]
    · right; exact List.mem_cons_of_mem _ h1

theorem step_pend {V : Type} (P : Problem V) (first : Bool) (σ : St V) (b : Nat) (p : List Nat) (x : Nat)
    (h : x ∈ (step P first (σ, p) b).2) : x ∈ p ∨ x ∈ P.succs b := by
  simp only [step] at h
  generalize (first || (if P.preds b = [] then false else P.cflag (σ.inn b) (conVal P σ b))) = ch at h
  cases ch
  · exact Or.inl (by simpa using h)
  · simp only [if_true] at h
    by_cases htf : P.tflag (σ.outt b) (P.f b (conVal P σ b)) = true
    · rw [if_pos htf] at h; exact mem_pushAll _ _ _ h
    · rw [if_neg htf] at h; exact Or.inl h

theorem pushAll_nodup (l : List Nat) : ∀ (p : List Nat), p.Nodup → (pushAll p l).Nodup := by
  induction l with
  | nil => intro p h; simpa [pushAll] using h
  | cons a l ih =>
    intro p h
    simp only [pushAll, List.foldl_cons]
    apply ih
    split
    · exact h
    · rename_i hc
      rw [List.nodup_append]
      refine ⟨h, by simp, ?_⟩
      intro x hx y hy
      simp at hy
      subst hy
      intro hxy
      subst hxy
      exact hc hx

theorem step_nodup {V : Type} (P : Problem V) (first : Bool) (σ : St V) (b : Nat) (p : List Nat)
    (h : p.Nodup) : (step P first (σ, p) b).2.Nodup := by
  simp only [step]
  generalize (first || (if P.preds b = [] then false else P.cflag (σ.inn b) (conVal P σ b))) = ch
  cases ch
  · simpa using h
  · simp only [if_true]
    by_cases htf : P.tflag (σ.outt b) (P.f b (conVal P σ b)) = true
    · rw [if_pos htf]; exact pushAll_nodup _ _ h
    · rw [if_neg htf]; exact h

theorem fold_nodup {V : Type} (P : Problem V) (first : Bool) : ∀ (w : List Nat) (σ : St V) (p : List Nat),
    p.Nodup → (w.foldl (step P first) (σ, p)).2.Nodup := by
  intro w
  induction w with
  | nil => intro σ p h; exact h
  | cons b t ih =>
    intro σ p h
    simp only [List.foldl_cons]
    exact ih _ _ (step_nodup P first σ b p h)

/-- bound on the elements of the arrays -/
def Bounded (n : Nat) (l : List Nat) : Prop := ∀ x ∈ l, x < n

theorem pass_inv {V : Type} (P : Problem V) (hx : Exact P) (hbd : ∀ a b, b ∈ P.succs a → b < P.n)
    (first : Bool) : ∀ (w : List Nat) (σ : St V) (p : List Nat), Bounded P.n w → Bounded P.n p →
      Inv P first σ w p →
      Inv P first (w.foldl (step P first) (σ, p)).1 [] (w.foldl (step P first) (σ, p)).2 ∧
      Bounded P.n (w.foldl (step P first) (σ, p)).2 := by
  intro w
  induction w with
  | nil => intro σ p _ hp h; exact ⟨h, hp⟩
  | cons b t ih =>
    intro σ p hw hp h
    simp only [List.foldl_cons]
    have hb : b < P.n := hw b (by simp)
    have h1 := step_inv P hx first σ b t p hb h
    have hp' : Bounded P.n (step P first (σ, p) b).2 := by
      intro x hxm
      rcases step_pend P first σ b p x hxm with h2 | h2
      · exact hp x h2
      · exact hbd _ _ h2
    exact ih (step P first (σ, p) b).1 (step P first (σ, p) b).2
      (fun x hxm => hw x (List.mem_cons_of_mem _ hxm)) hp' h1

/-- when the worklist is empty every block satisfies both of its equations -/
theorem loop_fixpoint {V : Type} (P : Problem V) (hx : Exact P) (hbd : ∀ a b, b ∈ P.succs a → b < P.n)
    (sort : List Nat → List Nat) (hsort : ∀ l x, x ∈ sort l ↔ x ∈ l) :
    ∀ (k : Nat) (first : Bool) (σ : St V) (w : List Nat) (σ' : St V), Bounded P.n w →
      Inv P first σ w [] → loop P sort k first σ w = some σ' →
      ∀ c, c < P.n → conOK P σ' c ∧ transOK P σ' c := by
  intro k
  induction k with
  | zero => intro first σ w σ' _ _ h; simp [loop] at h
  | succ k ih =>
    intro first σ w σ' hw hinv h
    simp only [loop] at h
    by_cases hwe : w = []
    · subst hwe
      simp only [if_true, Option.some.injEq] at h
      subst h
      intro c hc
      obtain ⟨hA, hB⟩ := hinv c hc
      refine ⟨?_, ?_⟩
      · rcases hB with h | ⟨_, hm⟩ | ⟨_, hm | hm⟩
        · exact h
        · cases hm
        · cases hm
        · cases hm
      · rcases hA with h | ⟨_, hm⟩
        · exact h
        · cases hm
    · rw [if_neg hwe] at h
      have hsw : Bounded P.n (sort w) := fun x hxm => hw x ((hsort w x).mp hxm)
      have hinv' : Inv P first σ (sort w) [] := by
        intro c hc
        obtain ⟨hA, hB⟩ := hinv c hc
        refine ⟨?_, ?_⟩
        · rcases hA with h | ⟨hf, hm⟩
          · exact Or.inl h
          · exact Or.inr ⟨hf, (hsort w c).mpr hm⟩
        · rcases hB with h | ⟨hf, hm⟩ | ⟨hp, hm | hm⟩
          · exact Or.inl h
          · exact Or.inr (Or.inl ⟨hf, (hsort w c).mpr hm⟩)
          · exact Or.inr (Or.inr ⟨hp, Or.inl ((hsort w c).mpr hm)⟩)
          · cases hm
      obtain ⟨hI, hB⟩ := pass_inv P hx hbd first (sort w) σ [] hsw (fun _ h => by cases h) hinv'
      refine ih false _ _ σ' hB ?_ h
      intro c hc
      obtain ⟨hA, hB2⟩ := hI c hc
      refine ⟨?_, ?_⟩
      · rcases hA with h | ⟨_, hm⟩
        · exact Or.inl h
        · cases hm
      · rcases hB2 with h | ⟨_, hm⟩ | ⟨hp, hm | hm⟩
        · exact Or.inl h
        · cases hm
        · cases hm
        · exact Or.inr (Or.inr ⟨hp, Or.inl hm⟩)

end MirVerif.Dataflow
