import MirVerif.Lemmas.Dlist
/-! Each `mir-dlist.h` operation preserves `Rep` and performs the list operation. -/
namespace MirVerif.Dlist
set_option linter.unusedSimpArgs false

theorem rep_head_prev (s : St) (hd : Nat) (r : List Nat) (hr : Rep s (hd :: r)) : prv s hd = none := by
  have := hr.cp
  rw [List.reverse_cons] at this
  exact chain_at _ _ _ _ _ this

theorem rep_tail_next (s : St) (l : List Nat) (tl : Nat) (hr : Rep s (l ++ [tl])) : nxt s tl = none :=
  chain_at _ _ _ _ _ hr.cx

theorem prepend_rep (s : St) (l : List Nat) (e : Nat) (hr : Rep s l) (he : e < s.next.length)
    (hne : e ∉ l) : ∃ s', prepend s e = some s' ∧ Rep s' (e :: l) ∧ s'.next.length = s.next.length := by
  have hpl := hr.lens
  have hep : e < s.prev.length := by omega
  -- the final state, uniformly
  have key : ∃ s', prepend s e = some s' ∧ s'.head = some e ∧
      s'.tail = (if s.head = none then some e else s.tail) ∧
      s'.prev.length = s.prev.length ∧ s'.next.length = s.next.length ∧
      (∀ x, nxt s' x = if x = e then s.head else nxt s x) ∧
      (∀ x, prv s' x = if x = e then none else if s.head = some x then some e else prv s x) := by
    cases l with
    | nil =>
      have h1 : s.head = none := hr.head
      have h2 : s.tail = none := hr.tail
      refine ⟨_, by simp only [prepend, h1, h2]; rfl, ?_⟩
      simp [h1, he, hep]
    | cons hd r =>
      have h1 : s.head = some hd := hr.head
      have h3 := rep_head_prev s hd r hr
      have hne' : hd ≠ e := fun c => hne (by simp [c])
      have hlen : hd < s.prev.length := by
        have := hr.bound hd (by simp); omega
      refine ⟨_, by simp only [prepend, h1, h3]; rfl, ?_⟩
      simp only [h1, he, hep, hlen, head_setNext, head_setPrev, tail_setNext, tail_setPrev, plen_setNext,
        plen_setPrev, nlen_setNext, nlen_setPrev, nxt_setHead, prv_setHead, nxt_setNext,
        nxt_setPrev, prv_setNext, prv_setPrev, and_true, true_and, reduceCtorEq, if_false,
        head_setHead, tail_setHead, plen_setHead, nlen_setHead]
      refine ⟨?_, ?_⟩
      · intro x; trivial
      · intro x
        by_cases hx : x = e
        · simp [hx]
        · simp only [hx, if_false, Option.some.injEq]
          by_cases hx2 : x = hd
          · simp [hx2]
          · have : ¬ hd = x := fun c => hx2 c.symm
            simp [hx2, this]
  obtain ⟨s', h0, hh, ht, hpl', hnl', hX, hP⟩ := key
  refine ⟨s', h0, ?_, hnl'⟩
  have hrhead : s.head = l.head? := hr.head
  refine ⟨List.nodup_cons.2 ⟨hne, hr.nodup⟩, ?_, by omega, by simp [hh], ?_, ?_, ?_⟩
  · intro x hx
    rcases List.mem_cons.1 hx with rfl | hx
    · omega
    · have := hr.bound x hx; omega
  · rw [ht, List.reverse_cons]
    cases l with
    | nil => simp [hrhead]
    | cons hd r =>
      rw [hrhead]
      have := hr.tail
      simp only [List.head?_cons, reduceCtorEq, if_false]
      rw [this]
      simp
  · have := splice (nxt s) (nxt s') [] l e none (by simpa using hr.nodup) (by simpa using hr.cx)
      (by rw [hX, if_pos rfl, hdOr_none]; exact hrhead)
      (by
        intro x hx
        have : x ≠ e := fun c => hne (by simpa [c] using hx)
        simp [hX, this])
    simpa using this
  · have := splice (prv s) (prv s') l.reverse [] e none
      (by rw [List.append_nil]; exact nodup_reverse _ hr.nodup)
      (by simpa using hr.cp)
      (by rw [hP, if_pos rfl]; rfl)
      (by
        intro x hx
        have hx' : x ∈ l := by simpa using hx
        have : x ≠ e := fun c => hne (by simpa [c] using hx')
        rw [hP, if_neg this, List.reverse_reverse, hrhead])
    simpa using this

theorem append_rep (s : St) (l : List Nat) (e : Nat) (hr : Rep s l) (he : e < s.next.length)
    (hne : e ∉ l) : ∃ s', append s e = some s' ∧ Rep s' (l ++ [e]) ∧ s'.next.length = s.next.length := by
  have hpl := hr.lens
  have hep : e < s.prev.length := by omega
  have key : ∃ s', append s e = some s' ∧ s'.tail = some e ∧
      s'.head = (if s.tail = none then some e else s.head) ∧
      s'.prev.length = s.prev.length ∧ s'.next.length = s.next.length ∧
      (∀ x, prv s' x = if x = e then s.tail else prv s x) ∧
      (∀ x, nxt s' x = if x = e then none else if s.tail = some x then some e else nxt s x) := by
    rcases List.eq_nil_or_concat l with rfl | ⟨r, tl, rfl⟩
    · have h1 : s.head = none := hr.head
      have h2 : s.tail = none := hr.tail
      refine ⟨_, by simp only [append, h1, h2]; rfl, ?_⟩
      simp [h2, he, hep]
    · rw [List.concat_eq_append] at *
      have h1 : s.tail = some tl := by have := hr.tail; simpa using this
      have h3 := rep_tail_next s r tl hr
      have hne' : tl ≠ e := fun c => hne (by simp [c])
      have hlen : tl < s.next.length := hr.bound tl (by simp)
      refine ⟨_, by simp only [append, h1, h3]; rfl, ?_⟩
      simp only [h1, he, hep, hlen, head_setNext, head_setPrev, tail_setNext, tail_setPrev, plen_setNext,
        plen_setPrev, nlen_setNext, nlen_setPrev, nxt_setTail, prv_setTail, nxt_setNext,
        nxt_setPrev, prv_setNext, prv_setPrev, and_true, true_and, reduceCtorEq, if_false,
        head_setTail, tail_setTail, plen_setTail, nlen_setTail]
      refine ⟨?_, ?_⟩
      · intro x; trivial
      · intro x
        by_cases hx : x = e
        · simp [hx]
        · simp only [hx, if_false, Option.some.injEq]
          by_cases hx2 : x = tl
          · simp [hx2]
          · have : ¬ tl = x := fun c => hx2 c.symm
            simp [hx2, this]
  obtain ⟨s', h0, ht, hh, hpl', hnl', hP, hX⟩ := key
  refine ⟨s', h0, ?_, hnl'⟩
  have hrtail : s.tail = l.reverse.head? := hr.tail
  have hnd : (l ++ [e]).Nodup := by
    rw [List.nodup_append]
    exact ⟨hr.nodup, by simp, fun a ha b hb => by
      have : b = e := by simpa using hb
      subst this; exact fun c => hne (c ▸ ha)⟩
  refine ⟨hnd, ?_, by omega, ?_, by simp [ht], ?_, ?_⟩
  · intro x hx
    rcases List.mem_append.1 hx with hx | hx
    · have := hr.bound x hx; omega
    · have : x = e := by simpa using hx
      omega
  · rw [hh, hrtail]
    cases l with
    | nil => simp
    | cons hd r =>
      have := hr.head
      simp only [List.cons_append, List.head?_cons]
      rw [if_neg (by simp), this]; rfl
  · have := splice (nxt s) (nxt s') l [] e none (by simpa using hr.nodup) (by simpa using hr.cx)
      (by rw [hX, if_pos rfl]; rfl)
      (by
        intro x hx
        have hx' : x ∈ l := by simpa using hx
        have : x ≠ e := fun c => hne (by simpa [c] using hx')
        rw [hX, if_neg this, hrtail])
    simpa using this
  · have := splice (prv s) (prv s') [] l.reverse e none
      (by rw [List.nil_append]; exact nodup_reverse _ hr.nodup)
      (by simpa using hr.cp)
      (by rw [hP, if_pos rfl, hdOr_none]; exact hrtail)
      (by
        intro x hx
        have hx' : x ∈ l := by simpa using hx
        have : x ≠ e := fun c => hne (by simpa [c] using hx')
        simp [hP, this])
    simpa using this

theorem insertBefore_rep (s : St) (l1 l2 : List Nat) (b e : Nat) (hr : Rep s (l1 ++ b :: l2))
    (he : e < s.next.length) (hne : e ∉ l1 ++ b :: l2) :
    ∃ s', insertBefore s b e = some s' ∧ Rep s' (l1 ++ e :: b :: l2) ∧
      s'.next.length = s.next.length := by
  have hpl := hr.lens
  have hep : e < s.prev.length := by omega
  have hbe : b ≠ e := fun c => hne (by simp [c])
  have hb : b < s.next.length := hr.bound b (by simp)
  have hrev : (l1 ++ b :: l2).reverse = (l2.reverse ++ [b]) ++ l1.reverse := by simp
  have hPb : prv s b = l1.reverse.head? := by
    have := hr.cp
    rw [hrev, List.append_assoc] at this
    have := chain_at _ _ _ _ _ this
    rwa [hdOr_none] at this
  have htl : s.tail ≠ none := by
    rw [hr.tail, hrev]; cases l2.reverse <;> simp
  have hhd : s.head = (l1 ++ b :: l2).head? := hr.head
  have key : ∃ s', insertBefore s b e = some s' ∧ s'.tail = s.tail ∧
      s'.head = (if prv s b = none then some e else s.head) ∧
      s'.prev.length = s.prev.length ∧ s'.next.length = s.next.length ∧
      (∀ x, nxt s' x = if x = e then some b else if prv s b = some x then some e else nxt s x) ∧
      (∀ x, prv s' x = if x = b then some e else if x = e then prv s b else prv s x) := by
    cases hp : prv s b with
    | none =>
      have hl1 : l1 = [] := by
        rw [hp] at hPb
        cases h : l1.reverse with
        | nil => simpa using h
        | cons a t => rw [h] at hPb; simp at hPb
      subst hl1
      have h1 : s.head = some b := by simpa using hhd
      refine ⟨_, by simp only [insertBefore, htl, hp, h1, ↓reduceIte, ne_eq, not_true_eq_false]; rfl, ?_⟩
      simp only [he, hep, hb, hpl ▸ hb, head_setNext, head_setPrev, tail_setNext, tail_setPrev,
        plen_setNext, plen_setPrev, nlen_setNext, nlen_setPrev, nxt_setHead, prv_setHead, nxt_setNext,
        nxt_setPrev, prv_setNext, prv_setPrev, and_true, true_and, reduceCtorEq, if_false, if_true,
        head_setHead, tail_setHead, plen_setHead, nlen_setHead]
      refine ⟨?_, ?_⟩
      · intro x; trivial
      · intro x
        by_cases hx : x = e
        · have : ¬ e = b := fun c => hbe c.symm
          simp [hx, this]
        · simp [hx]
    | some p =>
      have hpl1 : p ∈ l1 := by
        rw [hp] at hPb
        have := List.mem_of_mem_head? hPb.symm
        simpa using this
      have hpb : p < s.next.length := hr.bound p (by simp [hpl1])
      have hpe : p ≠ e := fun c => hne (by simp [← c, hpl1])
      have hhd' : s.head ≠ none := by
        rw [hhd]; cases l1 <;> simp
      refine ⟨_, by simp only [insertBefore, htl, hp, hhd', ↓reduceIte]; rfl, ?_⟩
      simp only [he, hep, hb, hpl ▸ hb, hpb, hp, head_setNext, head_setPrev, tail_setNext, tail_setPrev,
        plen_setNext, plen_setPrev, nlen_setNext, nlen_setPrev, nxt_setNext,
        nxt_setPrev, prv_setNext, prv_setPrev, and_true, true_and, reduceCtorEq, if_false, if_true]
      refine ⟨?_, ?_⟩
      · intro x
        by_cases hx : x = e
        · simp [hx]
        · simp only [hx, if_false, Option.some.injEq]
          by_cases hx2 : x = p
          · simp [hx2]
          · have : ¬ p = x := fun c => hx2 c.symm
            simp [hx2, this]
      · intro x
        by_cases hx : x = b
        · simp [hx]
        · simp [hx]
  obtain ⟨s', h0, ht, hh, hpl', hnl', hX, hP⟩ := key
  refine ⟨s', h0, ?_, hnl'⟩
  have hnd := hr.nodup
  obtain ⟨n1, n2, n3⟩ := List.nodup_append.1 hnd
  have hnd' : (l1 ++ e :: b :: l2).Nodup := by
    rw [List.nodup_append]
    refine ⟨n1, List.nodup_cons.2 ⟨fun c => hne (List.mem_append_right _ c), n2⟩, ?_⟩
    intro a ha c hc
    rcases List.mem_cons.1 hc with rfl | hc
    · exact fun h => hne (by simp [← h, ha])
    · exact n3 a ha c hc
  have hrev' : (l1 ++ e :: b :: l2).reverse = (l2.reverse ++ [b]) ++ e :: l1.reverse := by simp
  refine ⟨hnd', ?_, by omega, ?_, ?_, ?_, ?_⟩
  · intro x hx
    have : x = e ∨ x ∈ l1 ++ b :: l2 := by
      simp only [List.mem_append, List.mem_cons] at hx ⊢
      rcases hx with h | h | h | h <;> simp [h]
    rcases this with rfl | h
    · omega
    · have := hr.bound x h; omega
  · rw [hh, hPb, hhd]
    cases l1 with
    | nil => simp
    | cons a t =>
      have : (a :: t).reverse.head? ≠ none := by simp
      rw [if_neg this]; rfl
  · rw [ht, hr.tail, hrev, hrev']
    cases l2.reverse <;> simp
  · apply splice (nxt s) (nxt s') l1 (b :: l2) e none hnd hr.cx
    · rw [hX, if_pos rfl]; rfl
    · intro x hx
      have : x ≠ e := fun c => hne (c ▸ hx)
      rw [hX, if_neg this, hPb]
  · rw [hrev']
    apply splice (prv s) (prv s') (l2.reverse ++ [b]) l1.reverse e none
    · rw [← hrev]; exact nodup_reverse _ hnd
    · rw [← hrev]; exact hr.cp
    · have : ¬ e = b := fun c => hbe c.symm
      rw [hP, if_neg this, if_pos rfl, hPb, hdOr_none]
    · intro x hx
      have hx' : x ∈ l1 ++ b :: l2 := by
        rw [← hrev] at hx; exact List.mem_reverse.1 hx
      have : x ≠ e := fun c => hne (c ▸ hx')
      rw [hP, reverse_head_concat]
      by_cases hxb : x = b
      · simp [hxb]
      · have : ¬ b = x := fun c => hxb c.symm
        simp [hxb, this, ‹x ≠ e›]

theorem insertAfter_rep (s : St) (l1 l2 : List Nat) (a e : Nat) (hr : Rep s (l1 ++ a :: l2))
    (he : e < s.next.length) (hne : e ∉ l1 ++ a :: l2) :
    ∃ s', insertAfter s a e = some s' ∧ Rep s' (l1 ++ a :: e :: l2) ∧
      s'.next.length = s.next.length := by
  have hpl := hr.lens
  have hep : e < s.prev.length := by omega
  have hae : a ≠ e := fun c => hne (by simp [c])
  have ha : a < s.next.length := hr.bound a (by simp)
  have hrev : (l1 ++ a :: l2).reverse = l2.reverse ++ a :: l1.reverse := by simp
  have hXa : nxt s a = l2.head? := by
    have := chain_at _ _ _ _ _ hr.cx
    rwa [hdOr_none] at this
  have hhd : s.head ≠ none := by
    rw [hr.head]; cases l1 <;> simp
  have htl : s.tail = (l1 ++ a :: l2).reverse.head? := hr.tail
  have key : ∃ s', insertAfter s a e = some s' ∧ s'.head = s.head ∧
      s'.tail = (if nxt s a = none then some e else s.tail) ∧
      s'.prev.length = s.prev.length ∧ s'.next.length = s.next.length ∧
      (∀ x, prv s' x = if x = e then some a else if nxt s a = some x then some e else prv s x) ∧
      (∀ x, nxt s' x = if x = a then some e else if x = e then nxt s a else nxt s x) := by
    cases hp : nxt s a with
    | none =>
      have hl2 : l2 = [] := by
        rw [hp] at hXa
        cases l2 with
        | nil => rfl
        | cons x t => simp at hXa
      subst hl2
      have h1 : s.tail = some a := by simpa using htl
      refine ⟨_, by simp only [insertAfter, hhd, hp, h1, ↓reduceIte, ne_eq, not_true_eq_false]; rfl, ?_⟩
      simp only [he, hep, ha, hpl ▸ ha, head_setNext, head_setPrev, tail_setNext, tail_setPrev,
        plen_setNext, plen_setPrev, nlen_setNext, nlen_setPrev, nxt_setTail, prv_setTail, nxt_setNext,
        nxt_setPrev, prv_setNext, prv_setPrev, and_true, true_and, reduceCtorEq, if_false, if_true,
        head_setTail, tail_setTail, plen_setTail, nlen_setTail]
      refine ⟨?_, ?_⟩
      · intro x; trivial
      · intro x
        by_cases hx : x = e
        · have : ¬ e = a := fun c => hae c.symm
          simp [hx, this]
        · simp [hx]
    | some n =>
      have hnl2 : n ∈ l2 := by
        rw [hp] at hXa
        exact List.mem_of_mem_head? hXa.symm
      have hnb : n < s.next.length := hr.bound n (by simp [hnl2])
      have hnb' : n < s.prev.length := by omega
      have hn_e : n ≠ e := fun c => hne (by simp [← c, hnl2])
      have htl' : s.tail ≠ none := by
        rw [htl, hrev]; cases l2.reverse <;> simp
      refine ⟨_, by simp only [insertAfter, hhd, hp, htl', ↓reduceIte]; rfl, ?_⟩
      simp only [he, hep, ha, hpl ▸ ha, hnb, hnb', hp, head_setNext, head_setPrev, tail_setNext, tail_setPrev,
        plen_setNext, plen_setPrev, nlen_setNext, nlen_setPrev, nxt_setNext,
        nxt_setPrev, prv_setNext, prv_setPrev, and_true, true_and, reduceCtorEq, if_false, if_true]
      refine ⟨?_, ?_⟩
      · intro x
        by_cases hx : x = e
        · simp [hx]
        · simp only [hx, if_false, Option.some.injEq]
          by_cases hx2 : x = n
          · simp [hx2]
          · have : ¬ n = x := fun c => hx2 c.symm
            simp [hx2, this]
      · intro x
        by_cases hx : x = a
        · simp [hx]
        · simp [hx]
  obtain ⟨s', h0, hh, ht, hpl', hnl', hP, hX⟩ := key
  refine ⟨s', h0, ?_, hnl'⟩
  have hnd := hr.nodup
  obtain ⟨n1, n2, n3⟩ := List.nodup_append.1 hnd
  obtain ⟨n2a, n2b⟩ := List.nodup_cons.1 n2
  have hnd' : (l1 ++ a :: e :: l2).Nodup := by
    rw [List.nodup_append]
    refine ⟨n1, ?_, ?_⟩
    · refine List.nodup_cons.2 ⟨?_, List.nodup_cons.2 ⟨fun c => hne (by simp [c]), n2b⟩⟩
      intro c
      rcases List.mem_cons.1 c with c | c
      · exact hae c
      · exact n2a c
    · intro x hx c hc
      rcases List.mem_cons.1 hc with rfl | hc
      · exact n3 x hx c (by simp)
      · rcases List.mem_cons.1 hc with rfl | hc
        · exact fun h => hne (by simp [← h, hx])
        · exact n3 x hx c (by simp [hc])
  have hrev' : (l1 ++ a :: e :: l2).reverse = l2.reverse ++ e :: a :: l1.reverse := by simp
  have hsplit : l1 ++ a :: l2 = (l1 ++ [a]) ++ l2 := by simp
  have hsplit' : l1 ++ a :: e :: l2 = (l1 ++ [a]) ++ e :: l2 := by simp
  refine ⟨hnd', ?_, by omega, ?_, ?_, ?_, ?_⟩
  · intro x hx
    have : x = e ∨ x ∈ l1 ++ a :: l2 := by
      simp only [List.mem_append, List.mem_cons] at hx ⊢
      rcases hx with h | h | h | h <;> simp [h]
    rcases this with rfl | h
    · omega
    · have := hr.bound x h; omega
  · rw [hh, hr.head]
    cases l1 <;> simp
  · rw [ht, hXa, htl, hrev, hrev']
    cases l2 with
    | nil => simp
    | cons x t =>
      have : (x :: t).head? ≠ none := by simp
      rw [if_neg this]
      have : (x :: t).reverse ≠ [] := by simp
      cases h : (x :: t).reverse with
      | nil => exact absurd h this
      | cons y u => simp
  · rw [hsplit']
    apply splice (nxt s) (nxt s') (l1 ++ [a]) l2 e none
    · rw [← hsplit]; exact hnd
    · rw [← hsplit]; exact hr.cx
    · have : ¬ e = a := fun c => hae c.symm
      rw [hX, if_neg this, if_pos rfl, hXa, hdOr_none]
    · intro x hx
      have hx' : x ∈ l1 ++ a :: l2 := by rw [hsplit]; exact hx
      have hxe : x ≠ e := fun c => hne (c ▸ hx')
      rw [hX, reverse_head_concat]
      by_cases hxa : x = a
      · simp [hxa]
      · have : ¬ a = x := fun c => hxa c.symm
        simp [hxa, this, hxe]
  · rw [hrev']
    apply splice (prv s) (prv s') l2.reverse (a :: l1.reverse) e none
    · rw [← hrev]; exact nodup_reverse _ hnd
    · rw [← hrev]; exact hr.cp
    · rw [hP, if_pos rfl]; rfl
    · intro x hx
      have hx' : x ∈ l1 ++ a :: l2 := by
        rw [← hrev] at hx; exact List.mem_reverse.1 hx
      have : x ≠ e := fun c => hne (c ▸ hx')
      rw [hP, if_neg this, List.reverse_reverse, hXa]

theorem remove_rep (s : St) (l1 l2 : List Nat) (e : Nat) (hr : Rep s (l1 ++ e :: l2)) :
    ∃ s', remove s e = some s' ∧ Rep s' (l1 ++ l2) ∧ s'.next.length = s.next.length ∧
      prv s' e = none ∧ nxt s' e = none := by
  have hpl := hr.lens
  have he : e < s.next.length := hr.bound e (by simp)
  have hep : e < s.prev.length := by omega
  have hrev : (l1 ++ e :: l2).reverse = l2.reverse ++ e :: l1.reverse := by simp
  have hXe : nxt s e = l2.head? := by
    have := chain_at _ _ _ _ _ hr.cx
    rwa [hdOr_none] at this
  have hPe : prv s e = l1.reverse.head? := by
    have := hr.cp
    rw [hrev] at this
    have := chain_at _ _ _ _ _ this
    rwa [hdOr_none] at this
  have hnd := hr.nodup
  obtain ⟨n1, n2, n3⟩ := List.nodup_append.1 hnd
  obtain ⟨n2a, n2b⟩ := List.nodup_cons.1 n2
  have key : ∃ s', remove s e = some s' ∧
      s'.head = (if prv s e = none then nxt s e else s.head) ∧
      s'.tail = (if nxt s e = none then prv s e else s.tail) ∧
      s'.prev.length = s.prev.length ∧ s'.next.length = s.next.length ∧
      (∀ x, nxt s' x = if x = e then none else if prv s e = some x then nxt s e else nxt s x) ∧
      (∀ x, prv s' x = if x = e then none else if nxt s e = some x then prv s e else prv s x) := by
    cases hp : prv s e with
    | none =>
      have hl1 : l1 = [] := by
        rw [hp] at hPe
        cases h : l1.reverse with
        | nil => simpa using h
        | cons a t => rw [h] at hPe; simp at hPe
      subst hl1
      have h1 : s.head = some e := by have := hr.head; simpa using this
      cases hn : nxt s e with
      | none =>
        have hl2 : l2 = [] := by
          rw [hn] at hXe
          cases l2 with
          | nil => rfl
          | cons x t => simp at hXe
        subst hl2
        have h2 : s.tail = some e := by have := hr.tail; simpa using this
        refine ⟨_, by simp only [remove, hp, hn, h1, h2, nxt_setHead, prv_setHead, tail_setHead,
          ↓reduceIte, ne_eq, not_true_eq_false]; rfl, ?_⟩
        simp [he, hep]
      | some n =>
        have hnl2 : n ∈ l2 := by
          rw [hn] at hXe
          exact List.mem_of_mem_head? hXe.symm
        have hnb : n < s.prev.length := by have := hr.bound n (by simp [hnl2]); omega
        have hn_e : n ≠ e := fun c => n2a (c ▸ hnl2)
        refine ⟨_, by simp only [remove, hp, hn, h1, nxt_setHead, prv_setHead, tail_setHead,
          ↓reduceIte, ne_eq, not_true_eq_false]; rfl, ?_⟩
        simp only [he, hep, hnb, head_setNext, head_setPrev, tail_setNext, tail_setPrev,
          plen_setNext, plen_setPrev, nlen_setNext, nlen_setPrev, nxt_setHead, prv_setHead, nxt_setNext,
          nxt_setPrev, prv_setNext, prv_setPrev, and_true, true_and, reduceCtorEq, if_false, if_true,
          head_setHead, tail_setHead, plen_setHead, nlen_setHead]
        refine ⟨?_, ?_⟩
        · intro x; trivial
        · intro x
          by_cases hx : x = e
          · simp [hx]
          · simp only [hx, if_false, Option.some.injEq]
            by_cases hx2 : x = n
            · simp [hx2]
            · have : ¬ n = x := fun c => hx2 c.symm
              simp [hx2, this]
    | some p =>
      have hpl1 : p ∈ l1 := by
        rw [hp] at hPe
        have := List.mem_of_mem_head? hPe.symm
        simpa using this
      have hpb : p < s.next.length := hr.bound p (by simp [hpl1])
      have hpe : p ≠ e := fun c => n3 p hpl1 e (by simp) c
      have hep' : ¬ e = p := fun c => hpe c.symm
      cases hn : nxt s e with
      | none =>
        have hl2 : l2 = [] := by
          rw [hn] at hXe
          cases l2 with
          | nil => rfl
          | cons x t => simp at hXe
        subst hl2
        have h2 : s.tail = some e := by have := hr.tail; simpa using this
        refine ⟨_, by simp only [remove, hp, hn, h2, nxt_setNext, prv_setNext, tail_setNext, hep',
          false_and, ↓reduceIte, ne_eq, not_true_eq_false]; rfl, ?_⟩
        simp only [he, hep, hpb, hp, hn, hep', head_setNext, head_setPrev, tail_setNext, tail_setPrev,
          plen_setNext, plen_setPrev, nlen_setNext, nlen_setPrev, nxt_setTail, prv_setTail, nxt_setNext,
          nxt_setPrev, prv_setNext, prv_setPrev, and_true, true_and, false_and, reduceCtorEq, if_false,
          if_true, head_setTail, tail_setTail, plen_setTail, nlen_setTail]
        refine ⟨?_, ?_⟩
        · intro x
          by_cases hx : x = e
          · simp [hx]
          · simp only [hx, if_false, Option.some.injEq]
            by_cases hx2 : x = p
            · simp [hx2]
            · have : ¬ p = x := fun c => hx2 c.symm
              simp [hx2, this]
        · intro x; trivial
      | some n =>
        have hnl2 : n ∈ l2 := by
          rw [hn] at hXe
          exact List.mem_of_mem_head? hXe.symm
        have hnb : n < s.prev.length := by have := hr.bound n (by simp [hnl2]); omega
        have hn_e : n ≠ e := fun c => n2a (c ▸ hnl2)
        refine ⟨_, by simp only [remove, hp, hn, nxt_setNext, prv_setNext, tail_setNext, hep',
          false_and, ↓reduceIte]; rfl, ?_⟩
        simp only [he, hep, hpb, hnb, hp, hn, hep', head_setNext, head_setPrev, tail_setNext, tail_setPrev,
          plen_setNext, plen_setPrev, nlen_setNext, nlen_setPrev, nxt_setNext,
          nxt_setPrev, prv_setNext, prv_setPrev, and_true, true_and, false_and, reduceCtorEq, if_false,
          if_true]
        refine ⟨?_, ?_⟩
        · intro x
          by_cases hx : x = e
          · simp [hx]
          · simp only [hx, if_false, Option.some.injEq]
            by_cases hx2 : x = p
            · simp [hx2]
            · have : ¬ p = x := fun c => hx2 c.symm
              simp [hx2, this]
        · intro x
          by_cases hx : x = e
          · simp [hx]
          · simp only [hx, if_false, Option.some.injEq]
            by_cases hx2 : x = n
            · simp [hx2]
            · have : ¬ n = x := fun c => hx2 c.symm
              simp [hx2, this]
  obtain ⟨s', h0, hh, ht, hpl', hnl', hX, hP⟩ := key
  refine ⟨s', h0, ?_, hnl', by rw [hP, if_pos rfl], by rw [hX, if_pos rfl]⟩
  have hnd' : (l1 ++ l2).Nodup := by
    rw [List.nodup_append]
    exact ⟨n1, n2b, fun a ha b hb => n3 a ha b (List.mem_cons_of_mem _ hb)⟩
  have hnotin : ∀ x ∈ l1 ++ l2, x ≠ e := by
    intro x hx c
    rcases List.mem_append.1 hx with h | h
    · exact n3 x h e (by simp) c
    · exact n2a (c ▸ h)
  refine ⟨hnd', ?_, by omega, ?_, ?_, ?_, ?_⟩
  · intro x hx
    have : x ∈ l1 ++ e :: l2 := by
      rcases List.mem_append.1 hx with h | h
      · exact List.mem_append_left _ h
      · exact List.mem_append_right _ (List.mem_cons_of_mem _ h)
    have := hr.bound x this; omega
  · rw [hh, hPe, hXe, hr.head]
    cases l1 with
    | nil => simp
    | cons a t =>
      have : (a :: t).reverse.head? ≠ none := by simp
      rw [if_neg this]; rfl
  · rw [ht, hXe, hPe, hr.tail, hrev, List.reverse_append]
    cases l2 with
    | nil => simp
    | cons x t =>
      have : (x :: t).head? ≠ none := by simp
      rw [if_neg this]
      have : (x :: t).reverse ≠ [] := by simp
      cases h : (x :: t).reverse with
      | nil => exact absurd h this
      | cons y u => simp
  · apply unsplice (nxt s) (nxt s') l1 l2 e none hnd hr.cx
    intro x hx
    rw [hX, if_neg (hnotin x hx), hPe]
  · rw [List.reverse_append]
    apply unsplice (prv s) (prv s') l2.reverse l1.reverse e none
    · rw [← hrev]; exact nodup_reverse _ hnd
    · rw [← hrev]; exact hr.cp
    · intro x hx
      have hx' : x ∈ l1 ++ l2 := by
        rcases List.mem_append.1 hx with h | h
        · exact List.mem_append_right _ (List.mem_reverse.1 h)
        · exact List.mem_append_left _ (List.mem_reverse.1 h)
      rw [hP, if_neg (hnotin x hx'), List.reverse_reverse, hXe]

/-! ### traversals -/

theorem follow_chain (F : Nat → Option Nat) : ∀ (l : List Nat) (fuel : Nat), Chain F l none →
    l.length ≤ fuel → follow F fuel l.head? = l
  | [], fuel, _, _ => by cases fuel <;> rfl
  | x :: r, fuel, hc, hl => by
    cases fuel with
    | zero => simp at hl
    | succ k =>
      have := follow_chain F r k hc.2 (by simpa using hl)
      simp only [List.head?_cons, follow]
      rw [hc.1, hdOr_none, this]

theorem walk_chain (F : Nat → Option Nat) : ∀ (l : List Nat) (k : Nat), Chain F l none →
    walk F k l.head? = l[k]?
  | [], k, _ => by cases k <;> rfl
  | x :: r, k, hc => by
    cases k with
    | zero => rfl
    | succ k =>
      have := walk_chain F r k hc.2
      simp only [List.head?_cons, walk, List.getElem?_cons_succ]
      rw [hc.1, hdOr_none, this]

/-- pigeonhole: a duplicate-free list of ids below `n` has at most `n` elements -/
theorem length_le_of_nodup_bound : ∀ (n : Nat) (l : List Nat), l.Nodup → (∀ x ∈ l, x < n) →
    l.length ≤ n
  | 0, l, _, hb => by
    cases l with
    | nil => simp
    | cons a t => exact absurd (hb a (by simp)) (by omega)
  | n + 1, l, hnd, hb => by
    by_cases hn : n ∈ l
    · have ih := length_le_of_nodup_bound n (l.erase n) (hnd.erase n) (by
        intro x hx
        have := (List.Nodup.mem_erase_iff hnd).1 hx
        have := hb x this.2
        omega)
      rw [List.length_erase_of_mem hn] at ih
      omega
    · have := length_le_of_nodup_bound n l hnd (by
        intro x hx
        have h1 := hb x hx
        have : x ≠ n := fun c => hn (c ▸ hx)
        omega)
      omega

theorem rep_length_le (s : St) (l : List Nat) (hr : Rep s l) : l.length ≤ s.next.length :=
  length_le_of_nodup_bound _ l hr.nodup hr.bound

theorem toList_rep (s : St) (l : List Nat) (hr : Rep s l) : toList s = l := by
  unfold toList
  rw [hr.head]
  exact follow_chain _ l _ hr.cx (by have := rep_length_le s l hr; omega)

theorem toListRev_rep (s : St) (l : List Nat) (hr : Rep s l) : toListRev s = l.reverse := by
  unfold toListRev
  rw [hr.tail]
  exact follow_chain _ l.reverse _ hr.cp (by
    have := rep_length_le s l hr
    have := hr.lens
    simp; omega)

theorem el_rep (s : St) (l : List Nat) (hr : Rep s l) (n : Int) :
    el s n = if n ≥ 0 then l[n.toNat]? else l.reverse[(-n - 1).toNat]? := by
  unfold el
  split
  · rw [hr.head]; exact walk_chain _ l _ hr.cx
  · rw [hr.tail]; exact walk_chain _ l.reverse _ hr.cp

theorem init_rep (n : Nat) : Rep (init n) [] := by
  refine ⟨List.nodup_nil, by simp, by simp [init], rfl, rfl, trivial, trivial⟩

end MirVerif.Dlist
