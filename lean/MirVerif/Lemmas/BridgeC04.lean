import MirVerif.Gen.C04_Tables
import MirVerif.Model.SimplifyNames
import MirVerif.Lemmas.SimplifyAlloca
/-! Bridge between what translate/c04_tables.py reads from the current mir.c and the model
(`Model/Simplify.lean`): tables by kernel evaluation, the two small C functions by case analysis. -/
namespace MirVerif.Simplify
open MirVerif.MirCore

/-- `MIR_reverse_branch_code` of the current mir.c contains the row the model uses, for every
branch the model reverses -/
theorem gen_reverse_row (i : SInsn) (mk : Lab → SInsn) (h : reverseBranch i = some mk) (l : Lab) :
    ∃ n n', brCodeName i = some n ∧ brCodeName (mk l) = some n' ∧ (n, n') ∈ Gen.C04.reverseRows := by
  cases i <;> simp [reverseBranch] at h
  · rename_i a s l0 x y
    obtain ⟨a', ha, rfl⟩ := h
    refine ⟨_, _, rfl, rfl, ?_⟩
    cases a <;> simp [AOp.neg] at ha <;> subst ha <;> cases s <;> decide
  · rename_i s t l0 x
    subst h
    refine ⟨_, _, rfl, rfl, ?_⟩
    cases s <;> cases t <;> decide
  · rename_i u t l0
    subst h
    refine ⟨_, _, rfl, rfl, ?_⟩
    cases u <;> cases t <;> decide

/-- … and nothing else besides the two property branches MirCore does not have -/
theorem gen_reverse_keys :
    Gen.C04.reverseRows.map (·.1) =
      ["BT", "BTS", "BF", "BFS", "BEQ", "BEQS", "BNE", "BNES", "BLT", "BLTS", "UBLT", "UBLTS", "BLE", "BLES",
       "UBLE", "UBLES", "BGT", "BGTS", "UBGT", "UBGTS", "BGE", "BGES", "UBGE", "UBGES", "BO", "UBO", "BNO",
       "UBNO", "PRBEQ", "PRBNE"] := by decide +kernel

/-- result extension (`make_one_ret`) and parameter extension (`simplify_func`) use the same table,
and it is the model's `extOfTy` -/
theorem gen_ext_rows :
    Gen.C04.retExtRows = Gen.C04.argExtRows ∧
    Gen.C04.retExtRows =
      ([Ty.i8, .u8, .i16, .u16, .i32, .u32].filterMap fun t => (extOfTy t).map fun (k, sg) => (tyCodeName t, extName k sg)) := by
  decide +kernel

theorem gen_arg_skip : Gen.C04.argSkipTypes = ["I64", "U64", "F", "D", "LD"] := by decide +kernel

theorem extOfTy_wide (t : Ty) (h : t = .i64 ∨ t = .u64 ∨ t = .p ∨ t.isBlk = true) : extOfTy t = none := by
  rcases h with rfl | rfl | rfl | h
  · rfl
  · rfl
  · rfl
  · cases t <;> simp [Ty.isBlk] at h <;> rfl

/-- the shortcut rows of the current mir.c are the model's -/
theorem gen_shortcut_rows : Gen.C04.shortcutRows.length = (shortcutRowsModel Gen.C04.muloRow).length ∧
    (∀ r ∈ Gen.C04.shortcutRows, r ∈ shortcutRowsModel Gen.C04.muloRow) ∧
    (∀ r ∈ shortcutRowsModel Gen.C04.muloRow, r ∈ Gen.C04.shortcutRows) := by
  decide +kernel

theorem gen_bt_const : Gen.C04.btConstCodes = ["BT", "BTS", "BF", "BFS"] ∧ Gen.C04.btJumpIfOne = ["BT", "BTS"] := by
  decide +kernel

/-! ## the two small C functions (clang AST → BitVec 64) against the Int model -/

theorem c0 : ((0#32).signExtend 64 : BitVec 64).toInt = 0 := by decide
theorem c1 : ((1#32).signExtend 64 : BitVec 64).toInt = 1 := by decide
theorem c2 : ((2#32).signExtend 64 : BitVec 64).toInt = 2 := by decide
theorem c4 : ((4#32).signExtend 64 : BitVec 64).toInt = 4 := by decide
theorem c8 : ((8#32).signExtend 64 : BitVec 64).toInt = 8 := by decide

/-- `natural_alignment` of the current mir.c, every 64-bit argument -/
theorem gen_natural_alignment (s : BitVec 64) :
    (Gen.C04.natural_alignment s).toInt = naturalAlignment s.toInt := by
  simp only [Gen.C04.natural_alignment, naturalAlignment, BitVec.sle_eq_decide, c2, c4, c8, decide_eq_true_eq]
  -- robust against re-nesting of the conditional expression: decide all three comparisons first
  by_cases h2 : s.toInt ≤ 2 <;> by_cases h4 : s.toInt ≤ 4 <;> by_cases h8 : s.toInt ≤ 8 <;>
    simp [h2, h4, h8] <;> omega

theorem bmod_id (v : Int) (h1 : -(2^63) ≤ v) (h2 : v < 2^63) : v.bmod (2^64) = v :=
  Int.bmod_eq_of_le h1 h2

theorem roundUpBV (c : Int) (hc : c = 1 ∨ c = 2 ∨ c = 4 ∨ c = 8 ∨ c = 16) (x a : BitVec 64) (ha : a.toInt = c)
    (hx0 : 1 ≤ x.toInt) (hx : x.toInt < 2^62) :
    (BitVec.sdiv ((x + a) - ((1#32).signExtend 64)) a * a).toInt = (x.toInt + c - 1) / c * c := by
  have e1 : (x + a).toInt = x.toInt + c := by
    rw [BitVec.toInt_add, ha]; apply bmod_id <;> rcases hc with rfl | rfl | rfl | rfl | rfl <;> omega
  have e2 : ((x + a) - ((1#32).signExtend 64)).toInt = x.toInt + c - 1 := by
    rw [BitVec.toInt_sub, e1, c1]; apply bmod_id <;> rcases hc with rfl | rfl | rfl | rfl | rfl <;> omega
  have e3 : (BitVec.sdiv ((x + a) - ((1#32).signExtend 64)) a).toInt = (x.toInt + c - 1) / c := by
    rw [BitVec.toInt_sdiv, e2, ha, Int.tdiv_eq_ediv_of_nonneg (by rcases hc with rfl | rfl | rfl | rfl | rfl <;> omega)]
    apply bmod_id <;> rcases hc with rfl | rfl | rfl | rfl | rfl <;> omega
  rw [BitVec.toInt_mul, e3, ha]
  apply bmod_id <;> rcases hc with rfl | rfl | rfl | rfl | rfl <;> omega

/-- `get_alloca_size_align` of the current mir.c computes the model's (rounded size, alignment) for
every request below 2^62 bytes (beyond that the C expression overflows `int64_t`) -/
theorem gen_alloca_size_align (s : BitVec 64) (h : s.toInt < 2 ^ 62) :
    (Gen.C04.get_alloca_size_align s).1.toInt = (allocaSizeAlign s.toInt).1 ∧
    (Gen.C04.get_alloca_size_align s).2.toInt = (allocaSizeAlign s.toInt).2 := by
  simp only [Gen.C04.get_alloca_size_align, allocaSizeAlign, BitVec.sle_eq_decide, c0, decide_eq_true_eq]
  by_cases h0 : s.toInt ≤ 0
  · simp only [h0, if_true]
    have ha : (Gen.C04.natural_alignment ((1#32).signExtend 64)).toInt = 1 := by decide
    have hn : naturalAlignment 1 = 1 := by decide
    refine ⟨?_, by rw [ha, hn]⟩
    have := roundUpBV 1 (Or.inl rfl) ((1#32).signExtend 64) _ ha (by rw [c1]; omega) (by rw [c1]; omega)
    rw [this, c1, hn]
  · simp only [h0, if_false]
    have ha := gen_natural_alignment s
    have hs := naturalAlignment_cases s.toInt (by omega)
    have hc : naturalAlignment s.toInt = 1 ∨ naturalAlignment s.toInt = 2 ∨ naturalAlignment s.toInt = 4 ∨
        naturalAlignment s.toInt = 8 ∨ naturalAlignment s.toInt = 16 := by
      rcases hs with ⟨e, _⟩ | ⟨e, _⟩ | ⟨e, _⟩ | ⟨e, _⟩ | ⟨e, _⟩ <;> simp [e]
    exact ⟨roundUpBV _ hc s _ ha (by omega) h, ha⟩

end MirVerif.Simplify
