import MirVerif.Model.GenTable
import MirVerif.Lemmas.SemExt
/-! Soundness of the opcode relations the generator's tables encode. -/
namespace MirVerif

theorem dec_not_lt (a b : Int) : decide (b ≤ a) = !decide (a < b) := by
  by_cases h : a < b <;> simp [h] <;> omega
theorem dec_not_le (a b : Int) : decide (b < a) = !decide (a ≤ b) := by
  by_cases h : a ≤ b <;> simp [h] <;> omega
theorem dec_not_ltN (a b : Nat) : decide (b ≤ a) = !decide (a < b) := by
  by_cases h : a < b <;> simp [h] <;> omega
theorem dec_not_leN (a b : Nat) : decide (b < a) = !decide (a ≤ b) := by
  by_cases h : a ≤ b <;> simp [h] <;> omega

/-- `MIR_reverse_branch_code`, `get_combined_br_code (false_p)`: the negated comparison branches
exactly when the original does not — all operand values, 64- and 32-bit forms. -/
theorem branch_neg (a a' : AOp) (h : a.neg = some a') (s : Bool) (x y : W64) :
    docBranch a' s x y = !docBranch a s x y := by
  cases a <;> simp [AOp.neg] at h <;> subst h <;> cases s <;>
    simp only [docBranch, docSem, docBin, if_true, if_false, Bool.false_eq_true, Option.map_some,
      b2w_ne_zero, sext32_b2w_ne_zero] <;>
    simp <;>
    first | exact dec_not_lt _ _ | exact dec_not_le _ _ | exact dec_not_ltN _ _ | exact dec_not_leN _ _
          | (rw [dec_not_lt]; simp) | (rw [dec_not_le]; simp) | (rw [dec_not_ltN]; simp) | (rw [dec_not_leN]; simp)

theorem dec_eq_swap (a b : Int) : decide (b = a) = decide (a = b) := by
  by_cases h : a = b <;> simp [h] <;> omega
theorem dec_ne_swap (a b : Int) : decide (b ≠ a) = decide (a ≠ b) := by
  by_cases h : a = b <;> simp [h] <;> omega

/-- `commutative_insn_code`: exchanging the operands and using the table's opcode gives the same
result (used by the post-RA combiner) -/
theorem sem_swap (a a' : AOp) (h : a.swap = some a') (s : Bool) (x y : W64) :
    docSem a' s y x = docSem a s x y := by
  cases a <;> simp [AOp.swap] at h <;> subst h <;> cases s <;>
    simp only [docSem, docBin, if_true, if_false, Bool.false_eq_true, gt_iff_lt, ge_iff_le] <;>
    first
      | rfl
      | rw [Int.add_comm]
      | rw [Int.mul_comm]
      | rw [BitVec.and_comm]
      | rw [BitVec.or_comm]
      | rw [BitVec.xor_comm]
      | rw [dec_eq_swap]
      | rw [dec_ne_swap]

end MirVerif
