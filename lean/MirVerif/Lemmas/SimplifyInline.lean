import MirVerif.Model.SimplifyInline
/-! Inlining of a straight-line callee is a simulation (filled in below). -/
namespace MirVerif.Simplify
end MirVerif.Simplify
